/-
  MF.Proofs.QueryPos — positions of the query nodes (C05 for the SELECT core): every function of MF/Model/Query.lean
  that builds a node returns a node whose `Pos()` is the `pos` of the FIRST token it consumed and whose `End()` is the
  `end` of the LAST token of a run of consumed tokens (`Over p e run`).  Expression slots: `MF.Expr.place_ok` (C05 for
  expressions) at index 0 of the current suffix.  Token lengths (`*` is one byte, ASC three, DESC four, a parameter
  `1 + len(name)`): `MF.Lex.TokLen` (MF/Proofs/LexTokLen.lean).
-/
import MF.Proofs.QuerySound
import MF.Proofs.ExprPosC05
import MF.Proofs.LexTokLen
import MF.Spec.QueryPrintToks
namespace MF.Query
open MF MF.Expr

def firstPos (l : List Token) : Nat := (l.head?.map (·.pos)).getD 0
def lastEnd (l : List Token) : Nat := (l.getLast?.map (·.end)).getD 0

/-- the span `(p, e)` lies exactly over the non-empty token run: starts with its first token, ends with its last -/
def Over (p e : Nat) (run : List Token) : Prop := run ≠ [] ∧ p = firstPos run ∧ e = lastEnd run

theorem firstPos_cons (t : Token) (l : List Token) : firstPos (t :: l) = t.pos := rfl

theorem firstPos_append {a b : List Token} (ha : a ≠ []) : firstPos (a ++ b) = firstPos a := by
  cases a with
  | nil => exact absurd rfl ha
  | cons t a => rfl

theorem lastEnd_append {a b : List Token} (hb : b ≠ []) : lastEnd (a ++ b) = lastEnd b := by
  unfold lastEnd
  rw [List.getLast?_append]
  cases hb' : b.getLast? with
  | none => exact absurd (List.getLast?_eq_none_iff.mp hb') hb
  | some x => simp

theorem lastEnd_single (t : Token) : lastEnd [t] = t.end := rfl

theorem lastEnd_cons_cons (t u : Token) (l : List Token) : lastEnd (t :: u :: l) = lastEnd (u :: l) :=
  lastEnd_append (a := [t]) (by simp)

theorem Over.one (t : Token) : Over t.pos t.end [t] := ⟨by simp, rfl, rfl⟩

theorem Over.append {p m m' e : Nat} {a b : List Token} (ha : Over p m a) (hb : Over m' e b) : Over p e (a ++ b) :=
  ⟨by simp [ha.1], by rw [firstPos_append ha.1]; exact ha.2.1, by rw [lastEnd_append hb.1]; exact hb.2.2⟩

theorem Over.cons_left {p e : Nat} {b : List Token} (t : Token) (hb : Over p e b) : Over t.pos e (t :: b) :=
  (Over.one t).append hb

theorem Over.append_nil {p e : Nat} {a : List Token} (ha : Over p e a) : Over p e (a ++ []) := by simpa using ha

/-- the token facts used: the generic ones of C05 for expressions and the length of keyword / punctuation tokens -/
structure TokensOK (len : Nat) (ts : List Token) : Prop where
  ok : ∀ t ∈ ts, TokOK len t
  tl : ∀ t ∈ ts, Lex.TokLen t

theorem TokensOK.suffix {len : Nat} {pre rest : List Token} (h : TokensOK len (pre ++ rest)) : TokensOK len rest :=
  ⟨fun t ht => h.ok t (by simp [ht]), fun t ht => h.tl t (by simp [ht])⟩

theorem TokensOK.head {len : Nat} {t : Token} {ts : List Token} (h : TokensOK len (t :: ts)) : Lex.TokLen t :=
  h.tl t (by simp)

/-! ## leaves -/

theorem parseIdent_over {ts rest : List Token} {i : Ident} (h : parseIdent ts = .ok (i, rest)) :
    ∃ t, ts = t :: rest ∧ i.namePos = t.pos ∧ i.nameEnd = t.end := by
  unfold parseIdent at h
  split at h
  · rename_i hc
    obtain ⟨t, tl, rfl, _⟩ := qcur_ne_eof hc (by decide)
    cases h
    exact ⟨t, rfl, rfl, rfl⟩
  · cases h

theorem tryParseAsAlias_over {ts rest : List Token} {a : AsAlias} (h : tryParseAsAlias ts = .ok (some a, rest)) :
    ∃ pre, ts = pre ++ rest ∧ Over (posAs a) (endAs a) pre := by
  unfold tryParseAsAlias at h
  split at h
  · rename_i hc
    obtain ⟨t, tl, rfl, _⟩ := qcur_ne_eof hc (by decide)
    obtain ⟨p, hp, hk⟩ := Res.bind_eq_ok.1 h
    obtain ⟨i, r⟩ := p
    obtain ⟨u, hu, h1, h2⟩ := parseIdent_over hp
    try simp only [List.tail_cons] at hu
    subst hu
    cases hk
    refine ⟨[t, u], rfl, by simp, ?_, ?_⟩
    · simp [posAs, firstPos]
    · simp [endAs, lastEnd, h2]
  · rename_i hc
    obtain ⟨t, tl, rfl, _⟩ := qcur_ne_eof hc (by decide)
    cases h
    exact ⟨[t], rfl, by simp, by simp [posAs, firstPos, identOf], by simp [endAs, lastEnd, identOf]⟩
  · cases h

theorem tryParseAsAlias_none {ts rest : List Token} (h : tryParseAsAlias ts = .ok (none, rest)) : rest = ts := by
  unfold tryParseAsAlias at h
  split at h
  · obtain ⟨p, _, hk⟩ := Res.bind_eq_ok.1 h
    cases hk
  · cases h
  · cases h; rfl

/-! ## expression slots -/

theorem tokAt_append_left {pre rest : List Token} {k : Nat} (hk : k < pre.length) :
    tokAt (pre ++ rest) k = tokAt pre k := by
  unfold tokAt hd
  rw [List.drop_append_of_le_length (Nat.le_of_lt hk)]
  have : pre.drop k ≠ [] := by simp; omega
  cases hd' : pre.drop k with
  | nil => exact absurd hd' this
  | cons t l => rfl

theorem firstPos_eq_tokAt {pre : List Token} (h : pre ≠ []) : firstPos pre = (tokAt pre 0).pos := by
  cases pre with
  | nil => exact absurd rfl h
  | cons t l => rfl

theorem lastEnd_eq_tokAt {pre : List Token} (h : pre ≠ []) : lastEnd pre = (tokAt pre (pre.length - 1)).end := by
  unfold lastEnd tokAt hd
  rw [List.getLast?_eq_getElem?]
  have hlt : pre.length - 1 < pre.length := by
    have : 0 < pre.length := List.length_pos_iff.mpr h
    omega
  rw [List.getElem?_eq_getElem hlt, List.drop_eq_getElem_cons hlt]
  rfl

theorem parsePExpr_over {len f : Nat} {ts rest : List Token} {e : PExpr} (hT : TokensOK len ts)
    (h : parsePExpr f ts = .ok (e, rest)) : ∃ pre, ts = pre ++ rest ∧ Over (posP e) (endP e) pre := by
  obtain ⟨j, hj, _⟩ := parsePExpr_placed (all := ts) (i := 0) (by simpa using h)
  have her := erase_parse h
  simp only [Res.map_ok, er_mk] at her
  obtain ⟨⟨pre, hts, hy⟩, _, hnf⟩ := parseExpr_sound her
  have hpre : Pre ts 0 (yield (erase e)) := by
    unfold Pre
    rw [List.drop_zero, hts, List.map_append, hy]
    exact List.prefix_append _ _
  have hok := place_ok hT.ok (erase e) 0 hpre hnf
  have hlen : pre.length = ntok (erase e) := by
    have := congrArg List.length hy
    simpa [yield_length] using this
  have hne : pre ≠ [] := by
    intro h0
    have := hok.npos
    rw [h0] at hlen
    simp at hlen
    omega
  have hp := hok.pos
  have he := hok.end_
  rw [hj] at hp he
  simp only at hp he
  refine ⟨pre, hts, hne, ?_, ?_⟩
  · rw [hp, firstPos_eq_tokAt hne, hts, tokAt_append_left (List.length_pos_iff.mpr hne)]
  · rw [he, lastEnd_eq_tokAt hne, hts, Nat.zero_add, ← hlen,
      tokAt_append_left (by have : 0 < pre.length := List.length_pos_iff.mpr hne; omega)]

/-! ## keyword tokens -/

theorem len_of_qk {t : Token} {c : QK} (hl : Lex.TokLen t) (h : qk t.kind = c) (hc : c ≠ .other) (hc1 : c ≠ .eof)
    (hc2 : c ≠ .ident) (hc3 : c ≠ .int) (hc4 : c ≠ .param) :
    ∃ p ∈ qsymTable, p.2 = c ∧ t.end = t.pos + (B p.1).length := by
  cases hk : t.kind with
  | sym s =>
    rw [hk] at h
    simp only [qk] at h
    unfold qsym at h
    split at h
    · rename_i p hp
      have hb0 := List.find?_some hp
      have hb : B p.1 = s := eq_of_beq hb0
      exact ⟨p, List.mem_of_find?_eq_some hp, h, by rw [hl.1 s hk, hb]⟩
    · exact absurd h.symm hc
  | eof => rw [hk] at h; exact absurd h.symm hc1
  | ident => rw [hk] at h; exact absurd h.symm hc2
  | int => rw [hk] at h; exact absurd h.symm hc3
  | param => rw [hk] at h; exact absurd h.symm hc4
  | bad => rw [hk] at h; exact absurd h.symm hc
  | float => rw [hk] at h; exact absurd h.symm hc
  | string => rw [hk] at h; exact absurd h.symm hc
  | bytes => rw [hk] at h; exact absurd h.symm hc

theorem star_len {t : Token} (hl : Lex.TokLen t) (h : qk t.kind = .star) : t.end = t.pos + 1 := by
  obtain ⟨p, hp, hc, he⟩ := len_of_qk hl h (by decide) (by decide) (by decide) (by decide) (by decide)
  have : ∀ p ∈ qsymTable, p.2 = QK.star → (B p.1).length = 1 := by decide +kernel
  rw [he, this p hp hc]

theorem asc_len {t : Token} (hl : Lex.TokLen t) (h : qk t.kind = .asc) : t.end = t.pos + 3 := by
  obtain ⟨p, hp, hc, he⟩ := len_of_qk hl h (by decide) (by decide) (by decide) (by decide) (by decide)
  have : ∀ p ∈ qsymTable, p.2 = QK.asc → (B p.1).length = 3 := by decide +kernel
  rw [he, this p hp hc]

theorem desc_len {t : Token} (hl : Lex.TokLen t) (h : qk t.kind = .desc) : t.end = t.pos + 4 := by
  obtain ⟨p, hp, hc, he⟩ := len_of_qk hl h (by decide) (by decide) (by decide) (by decide) (by decide)
  have : ∀ p ∈ qsymTable, p.2 = QK.desc → (B p.1).length = 4 := by decide +kernel
  rw [he, this p hp hc]

/-! ## select items -/

theorem parseSelectItem_over {len f : Nat} {ts rest : List Token} {i : SelectItem} (hT : TokensOK len ts)
    (h : parseSelectItem f ts = .ok (i, rest)) : ∃ pre, ts = pre ++ rest ∧ Over (posItem i) (endItem i) pre := by
  unfold parseSelectItem at h
  split at h
  · rename_i hc
    obtain ⟨t, tl, rfl, ht⟩ := qcur_ne_eof hc (by decide)
    obtain ⟨_, _, hk⟩ := Res.bind_eq_ok.1 h
    cases hk
    exact ⟨[t], rfl, by simp, rfl, by simp [endItem, lastEnd, star_len hT.head ht]⟩
  · obtain ⟨p, hp, h⟩ := Res.bind_eq_ok.1 h
    obtain ⟨e, r⟩ := p
    obtain ⟨pe, hts, hov⟩ := parsePExpr_over hT hp
    obtain ⟨a, ha, h⟩ := Res.bind_eq_ok.1 h
    obtain ⟨a, r2⟩ := a
    cases a with
    | some as =>
      simp only at h
      cases h
      obtain ⟨pa, hr, hoa⟩ := tryParseAsAlias_over ha
      try simp only at hr
      exact ⟨pe ++ pa, by rw [hts, hr]; simp, hov.append hoa⟩
    | none =>
      have hr2 : r2 = r := tryParseAsAlias_none ha
      subst hr2
      simp only at h
      split at h
      · rename_i hdot
        split at h
        · rename_i hstar
          obtain ⟨_, _, hk⟩ := Res.bind_eq_ok.1 h
          cases hk
          obtain ⟨d, tl, hr, _⟩ := qcur_ne_eof hdot (by decide)
          try simp only at hr
          subst hr
          obtain ⟨s, tl', hs, hst⟩ := qcur_ne_eof hstar (by decide)
          try simp only [List.tail_cons] at hs
          subst hs
          have hsl : Lex.TokLen s := hT.tl s (by rw [hts]; simp)
          refine ⟨pe ++ [d, s], by rw [hts]; simp, by simp, ?_, ?_⟩
          · rw [firstPos_append hov.1]; exact hov.2.1
          · rw [lastEnd_append (by simp)]
            simp [endItem, lastEnd, star_len hsl hst]
        · cases h
      · cases h
        exact ⟨pe, hts, hov⟩

/-! ## FROM -/

theorem pathLoop_over : ∀ (f : Nat) {ts rest : List Token} {m : List Ident}, pathLoop f ts = .ok (m, rest) →
    ∃ pre, ts = pre ++ rest ∧ (m = [] → pre = []) ∧
      (∀ l, m.getLast? = some l → pre ≠ [] ∧ lastEnd pre = l.nameEnd)
  | 0, _, _, _, h => by cases h
  | f + 1, ts, rest, m, h => by
    unfold pathLoop at h
    split at h
    · rename_i hc
      obtain ⟨d, tl, rfl, _⟩ := qcur_ne_eof hc (by decide)
      obtain ⟨p, hp, h⟩ := Res.bind_eq_ok.1 h
      obtain ⟨i, r⟩ := p
      obtain ⟨q, hq, h⟩ := Res.bind_eq_ok.1 h
      obtain ⟨m', r'⟩ := q
      cases h
      obtain ⟨u, hu, _, h2⟩ := parseIdent_over hp
      try simp only [List.tail_cons] at hu
      subst hu
      obtain ⟨pre', rfl, hnil, hlast⟩ := pathLoop_over f hq
      refine ⟨d :: u :: pre', by simp, by simp, ?_⟩
      intro l hl
      refine ⟨by simp, ?_⟩
      cases m' with
      | nil =>
        simp only [List.getLast?_singleton, Option.some.injEq] at hl
        subst hl
        rw [hnil rfl]
        simp [lastEnd, h2]
      | cons x xs =>
        have hl' : (x :: xs).getLast? = some l := by simpa [List.getLast?_cons_cons] using hl
        obtain ⟨hne, he⟩ := hlast l hl'
        rw [show d :: u :: pre' = [d, u] ++ pre' by simp, lastEnd_append hne]
        exact he
    · cases h
      exact ⟨[], rfl, fun _ => rfl, by simp⟩

theorem parseTableExpr_over {f : Nat} {ts rest : List Token} {t : TableExpr} (h : parseTableExpr f ts = .ok (t, rest)) :
    ∃ pre, ts = pre ++ rest ∧ Over (posTable t) (endTable t) pre := by
  unfold parseTableExpr at h
  split at h
  · cases h
  · cases h
  · obtain ⟨p, hp, h2⟩ := Res.bind_eq_ok.1 h
    obtain ⟨i, r⟩ := p
    obtain ⟨q, hq, h3⟩ := Res.bind_eq_ok.1 h2
    obtain ⟨m, r'⟩ := q
    obtain ⟨t0, e1, h1, h2'⟩ := parseIdent_over hp
    obtain ⟨pp, e2, hnil, hlast⟩ := pathLoop_over f hq
    try simp only at e2
    try simp only at h3
    split at h3
    · cases h3
    · cases h3
    · obtain ⟨a, ha, h4⟩ := Res.bind_eq_ok.1 h3
      obtain ⟨a, r''⟩ := a
      obtain ⟨_, _, h5⟩ := Res.bind_eq_ok.1 h4
      try simp only at h5
      -- the run of the name or path
      have hname : Over i.namePos (endPathIds i m) (t0 :: pp) := by
        refine ⟨by simp, by simp [firstPos, h1], ?_⟩
        cases hm : m.getLast? with
        | none =>
          have : m = [] := List.getLast?_eq_none_iff.mp hm
          subst this
          rw [hnil rfl]
          simp [endPathIds, lastEnd, h2']
        | some l =>
          obtain ⟨hne, he⟩ := hlast l hm
          rw [show t0 :: pp = [t0] ++ pp by simp, lastEnd_append hne, he]
          cases m with
          | nil => simp at hm
          | cons x xs =>
            simp only [endPathIds, List.getLast?_cons_cons]
            rw [hm]; rfl
      have hts : ts = (t0 :: pp) ++ r' := by rw [e1, e2]; simp
      cases a with
      | none =>
        have hr : r'' = r' := tryParseAsAlias_none ha
        subst hr
        split at h5
        · cases h5
          exact ⟨t0 :: pp, hts, by simpa [posTable, endTable, endPathIds, lastEnd] using hname⟩
        · cases h5
          exact ⟨t0 :: pp, hts, by simpa [posTable, endTable] using hname⟩
      | some a =>
        obtain ⟨pa, hr, hoa⟩ := tryParseAsAlias_over ha
        try simp only at hr
        have hov : Over i.namePos (endAs a) ((t0 :: pp) ++ pa) := hname.append hoa
        split at h5
        · cases h5
          exact ⟨(t0 :: pp) ++ pa, by rw [hts, hr]; simp, by simpa [posTable, endTable] using hov⟩
        · cases h5
          exact ⟨(t0 :: pp) ++ pa, by rw [hts, hr]; simp, by simpa [posTable, endTable] using hov⟩
  · cases h

theorem tryParseFrom_over {f : Nat} {ts rest : List Token} {fr : From} (h : tryParseFrom f ts = .ok (some fr, rest)) :
    ∃ pre, ts = pre ++ rest ∧ Over fr.from_ (endFrom fr) pre := by
  unfold tryParseFrom at h
  split at h
  · rename_i hc
    obtain ⟨t, tl, rfl, _⟩ := qcur_ne_eof hc (by decide)
    obtain ⟨p, hp, hk⟩ := Res.bind_eq_ok.1 h
    obtain ⟨te, r⟩ := p
    cases hk
    obtain ⟨pre, hts, hov⟩ := parseTableExpr_over hp
    try simp only [List.tail_cons] at hts
    subst hts
    exact ⟨t :: pre, by simp, by simpa [endFrom] using Over.cons_left t hov⟩
  · cases h

/-! ## WHERE, HAVING -/

theorem tryParseWhere_over {len f : Nat} {ts rest : List Token} {w : Where} (hT : TokensOK len ts)
    (h : tryParseWhere f ts = .ok (some w, rest)) : ∃ pre, ts = pre ++ rest ∧ Over w.where_ (endWhere w) pre := by
  unfold tryParseWhere at h
  split at h
  · rename_i hc
    obtain ⟨t, tl, rfl, _⟩ := qcur_ne_eof hc (by decide)
    obtain ⟨p, hp, hk⟩ := Res.bind_eq_ok.1 h
    obtain ⟨e, r⟩ := p
    cases hk
    obtain ⟨pre, hts, hov⟩ := parsePExpr_over (hT.suffix (pre := [t])) hp
    try simp only [List.tail_cons] at hts
    subst hts
    exact ⟨t :: pre, by simp, by simpa [endWhere] using Over.cons_left t hov⟩
  · cases h

theorem tryParseHaving_over {len f : Nat} {ts rest : List Token} {w : Having} (hT : TokensOK len ts)
    (h : tryParseHaving f ts = .ok (some w, rest)) : ∃ pre, ts = pre ++ rest ∧ Over w.having (endHaving w) pre := by
  unfold tryParseHaving at h
  split at h
  · rename_i hc
    obtain ⟨t, tl, rfl, _⟩ := qcur_ne_eof hc (by decide)
    obtain ⟨p, hp, hk⟩ := Res.bind_eq_ok.1 h
    obtain ⟨e, r⟩ := p
    cases hk
    obtain ⟨pre, hts, hov⟩ := parsePExpr_over (hT.suffix (pre := [t])) hp
    try simp only [List.tail_cons] at hts
    subst hts
    exact ⟨t :: pre, by simp, by simpa [endHaving] using Over.cons_left t hov⟩
  · cases h

/-! ## LIMIT / OFFSET -/

theorem parseIntValue_over {len : Nat} {ts rest : List Token} {v : IntValue} (hT : TokensOK len ts)
    (h : parseIntValue ts = .ok (v, rest)) : ∃ t, ts = t :: rest ∧ posInt v = t.pos ∧ endInt v = t.end := by
  unfold parseIntValue at h
  split at h
  · rename_i hc
    obtain ⟨t, tl, rfl, ht⟩ := qcur_ne_eof hc (by decide)
    cases h
    refine ⟨t, rfl, rfl, ?_⟩
    have := (hT.head).2 (qk_param ht)
    simp [endInt, this]
  · rename_i hc
    obtain ⟨t, tl, rfl, _⟩ := qcur_ne_eof hc (by decide)
    cases h
    exact ⟨t, rfl, rfl, rfl⟩
  · cases h
  · cases h

theorem tryParseLimit_over {len : Nat} {ts rest : List Token} {l : Limit} (hT : TokensOK len ts)
    (h : tryParseLimit ts = .ok (some l, rest)) :
    ∃ pre, ts = pre ++ rest ∧ Over l.limit (endLimit l) pre ∧
      ∀ o, l.offset = some o → ∃ a b, pre = a ++ b ∧ a ≠ [] ∧ Over o.offset (endOffset o) b := by
  unfold tryParseLimit at h
  split at h
  · rename_i hc
    obtain ⟨t, tl, rfl, _⟩ := qcur_ne_eof hc (by decide)
    obtain ⟨p, hp, h⟩ := Res.bind_eq_ok.1 h
    obtain ⟨c, r⟩ := p
    obtain ⟨q, hq, h⟩ := Res.bind_eq_ok.1 h
    obtain ⟨o, r'⟩ := q
    cases h
    obtain ⟨tc, htc, _, hce⟩ := parseIntValue_over (hT.suffix (pre := [t])) hp
    try simp only [List.tail_cons] at htc
    subst htc
    unfold tryParseOffset at hq
    split at hq
    · obtain ⟨v, hv, hk⟩ := Res.bind_eq_ok.1 hq
      obtain ⟨v, r''⟩ := v
      cases hk
      cases r with
      | nil => simp [parseIntValue, qcur] at hv
      | cons k r1 =>
        obtain ⟨tv, htv, _, hve⟩ := parseIntValue_over (hT.suffix (pre := [t, tc, k])) hv
        try simp only [List.tail_cons] at htv
        subst htv
        refine ⟨[t, tc, k, tv], rfl, ⟨by simp, rfl, by simp [endLimit, endOffset, lastEnd, hve]⟩, ?_⟩
        intro o ho
        cases ho
        exact ⟨[t, tc], [k, tv], rfl, by simp, by simp, rfl, by simp [endOffset, lastEnd, hve]⟩
    · cases hq
      exact ⟨[t, tc], rfl, ⟨by simp, rfl, by simp [endLimit, lastEnd, hce]⟩, by intro o ho; cases ho⟩
  · cases h

end MF.Query

namespace MF.Query
open MF MF.Expr

/-! ## the comma loops, GROUP BY, ORDER BY -/

/-- where the run of a (possibly empty) list of nodes ends: at the end of its last element -/
def LastIs {α : Type} (es : List α) (endf : α → Nat) (pre : List Token) : Prop :=
  match es.getLast? with
  | none => pre = []
  | some l => pre ≠ [] ∧ lastEnd pre = endf l

/-- every element lies over a sub-run -/
def EachOver {α : Type} (es : List α) (posf endf : α → Nat) (pre : List Token) : Prop :=
  ∀ e ∈ es, ∃ a run b, pre = a ++ run ++ b ∧ Over (posf e) (endf e) run

theorem lastIs_cons {α : Type} {x : α} {xs : List α} {endf : α → Nat} {c px pre : List Token}
    (hx : px ≠ []) (hxe : lastEnd px = endf x) (h : LastIs xs endf pre) : LastIs (x :: xs) endf (c ++ px ++ pre) := by
  unfold LastIs at h ⊢
  cases xs with
  | nil =>
    simp only [List.getLast?_nil] at h
    subst h
    simp only [List.getLast?_singleton, List.append_nil]
    exact ⟨by simp [hx], by rw [lastEnd_append hx]; exact hxe⟩
  | cons y ys =>
    rw [List.getLast?_cons_cons]
    cases hl : (y :: ys).getLast? with
    | none => simp at hl
    | some l =>
      rw [hl] at h
      exact ⟨by simp [h.1], by rw [lastEnd_append h.1]; exact h.2⟩

theorem eachOver_cons {α : Type} {x : α} {xs : List α} {posf endf : α → Nat} {c px pre : List Token}
    (hx : Over (posf x) (endf x) px) (h : EachOver xs posf endf pre) : EachOver (x :: xs) posf endf (c ++ px ++ pre) := by
  intro e he
  rcases List.mem_cons.1 he with rfl | he
  · exact ⟨c, px, pre, rfl, hx⟩
  · obtain ⟨a, run, b, hpre, ho⟩ := h e he
    exact ⟨c ++ px ++ a, run, b, by rw [hpre]; simp, ho⟩

theorem exprListLoop_over {len : Nat} : ∀ (f : Nat) {ts rest : List Token} {es : List PExpr}, TokensOK len ts →
    exprListLoop f ts = .ok (es, rest) →
    ∃ pre, ts = pre ++ rest ∧ LastIs es endP pre ∧ EachOver es posP endP pre
  | 0, _, _, _, _, h => by cases h
  | f + 1, ts, rest, es, hT, h => by
    unfold exprListLoop at h
    split at h
    · rename_i hc
      obtain ⟨c, tl, hts, _⟩ := qcur_ne_eof hc (by decide)
      obtain ⟨p, hp, h2⟩ := Res.bind_eq_ok.1 h
      obtain ⟨e, r⟩ := p
      obtain ⟨q, hq, h3⟩ := Res.bind_eq_ok.1 h2
      obtain ⟨es', r'⟩ := q
      cases h3
      rw [hts] at hp hT
      try simp only [List.tail_cons] at hp
      obtain ⟨pe, e1, hov⟩ := parsePExpr_over (hT.suffix (pre := [c])) hp
      have hT2 : TokensOK len r := by
        have := hT.suffix (pre := [c]); rw [e1] at this; exact this.suffix
      obtain ⟨pre', e2, hl, he⟩ := exprListLoop_over f hT2 hq
      try simp only at e2
      refine ⟨[c] ++ pe ++ pre', by rw [hts, e1, e2]; simp, lastIs_cons hov.1 hov.2.2.symm hl, eachOver_cons hov he⟩
    · cases h
      exact ⟨[], rfl, rfl, by intro e he; cases he⟩

theorem lastEnd_first_more {α : Type} {x : α} {xs : List α} {endf : α → Nat} {px pre : List Token}
    (hx : px ≠ []) (hxe : lastEnd px = endf x) (h : LastIs xs endf pre) :
    px ++ pre ≠ [] ∧ lastEnd (px ++ pre) = endf ((x :: xs).getLast?.getD x) := by
  have := lastIs_cons (c := []) hx hxe h
  unfold LastIs at this
  cases hl : (x :: xs).getLast? with
  | none => simp at hl
  | some l => rw [hl] at this; simpa using this

theorem tryParseGroupBy_over {len f : Nat} {ts rest : List Token} {g : GroupBy} (hT : TokensOK len ts)
    (h : tryParseGroupBy f ts = .ok (some g, rest)) :
    ∃ pre, ts = pre ++ rest ∧ Over g.group (endGroupBy g) pre ∧
      ∃ kw body, pre = kw ++ body ∧ kw ≠ [] ∧ EachOver (g.first :: g.more) posP endP body := by
  unfold tryParseGroupBy at h
  split at h
  · rename_i hc
    split at h
    · rename_i hb
      obtain ⟨t, tl, hts, _⟩ := qcur_ne_eof hc (by decide)
      rw [hts] at hb h hT
      try simp only [List.tail_cons] at hb h
      obtain ⟨b, tl2, hts2, _⟩ := qcur_ne_eof hb (by decide)
      rw [hts2] at h hT
      try simp only [List.tail_cons] at h
      obtain ⟨p, hp, h2⟩ := Res.bind_eq_ok.1 h
      obtain ⟨e, r⟩ := p
      obtain ⟨q, hq, h3⟩ := Res.bind_eq_ok.1 h2
      obtain ⟨es, r'⟩ := q
      cases h3
      obtain ⟨pe, e1, hov⟩ := parsePExpr_over (hT.suffix (pre := [t, b])) hp
      have hT2 : TokensOK len r := by
        have := hT.suffix (pre := [t, b]); rw [e1] at this; exact this.suffix
      obtain ⟨pl, e2, hl, he⟩ := exprListLoop_over f hT2 hq
      try simp only at e2
      obtain ⟨hne, hle⟩ := lastEnd_first_more (x := e) hov.1 hov.2.2.symm hl
      refine ⟨[t, b] ++ (pe ++ pl), by rw [hts, hts2, e1, e2]; simp, ⟨by simp, rfl, ?_⟩,
        [t, b], pe ++ pl, rfl, by simp, ?_⟩
      · rw [lastEnd_append hne, hle]; rfl
      · have := eachOver_cons (c := []) hov he
        simpa using this
    · cases h
  · cases h

theorem tryParseDirection_over {len : Nat} {ts : List Token} (hT : TokensOK len ts) :
    (tryParseDirection ts).1 = none ∧ (tryParseDirection ts).2 = ts ∨
    ∃ t d, ts = t :: (tryParseDirection ts).2 ∧ (tryParseDirection ts).1 = some (d, t.pos) ∧ t.end = t.pos + d.len := by
  unfold tryParseDirection
  split
  · rename_i hc
    obtain ⟨t, tl, rfl, ht⟩ := qcur_ne_eof hc (by decide)
    exact Or.inr ⟨t, .asc, rfl, rfl, asc_len hT.head ht⟩
  · rename_i hc
    obtain ⟨t, tl, rfl, ht⟩ := qcur_ne_eof hc (by decide)
    exact Or.inr ⟨t, .desc, rfl, rfl, desc_len hT.head ht⟩
  · exact Or.inl ⟨rfl, rfl⟩

theorem parseOrderByItem_over {len f : Nat} {ts rest : List Token} {i : OrderByItem} (hT : TokensOK len ts)
    (h : parseOrderByItem f ts = .ok (i, rest)) : ∃ pre, ts = pre ++ rest ∧ Over (posP i.e) (endOrderItem i) pre := by
  unfold parseOrderByItem at h
  obtain ⟨p, hp, h2⟩ := Res.bind_eq_ok.1 h
  obtain ⟨e, r⟩ := p
  obtain ⟨pe, e1, hov⟩ := parsePExpr_over hT hp
  try simp only at h2
  split at h2
  · cases h2
  · have hT2 : TokensOK len r := by rw [e1] at hT; exact hT.suffix
    cases h2
    rcases tryParseDirection_over hT2 with ⟨h1, h3⟩ | ⟨t, d, h1, h3, h4⟩
    · refine ⟨pe, by rw [e1, h3], ?_⟩
      simpa [endOrderItem, h1] using hov
    · refine ⟨pe ++ [t], by rw [e1]; simp; exact h1, by simp, ?_, ?_⟩
      · rw [firstPos_append hov.1]; exact hov.2.1
      · rw [lastEnd_append (by simp)]
        simp [endOrderItem, h3, lastEnd, h4]

theorem orderListLoop_over {len : Nat} : ∀ (f : Nat) {ts rest : List Token} {es : List OrderByItem}, TokensOK len ts →
    orderListLoop f ts = .ok (es, rest) →
    ∃ pre, ts = pre ++ rest ∧ LastIs es endOrderItem pre ∧ EachOver es (fun i => posP i.e) endOrderItem pre
  | 0, _, _, _, _, h => by cases h
  | f + 1, ts, rest, es, hT, h => by
    unfold orderListLoop at h
    split at h
    · rename_i hc
      obtain ⟨c, tl, hts, _⟩ := qcur_ne_eof hc (by decide)
      obtain ⟨p, hp, h2⟩ := Res.bind_eq_ok.1 h
      obtain ⟨e, r⟩ := p
      obtain ⟨q, hq, h3⟩ := Res.bind_eq_ok.1 h2
      obtain ⟨es', r'⟩ := q
      cases h3
      rw [hts] at hp hT
      try simp only [List.tail_cons] at hp
      obtain ⟨pe, e1, hov⟩ := parseOrderByItem_over (hT.suffix (pre := [c])) hp
      have hT2 : TokensOK len r := by
        have := hT.suffix (pre := [c]); rw [e1] at this; exact this.suffix
      obtain ⟨pre', e2, hl, he⟩ := orderListLoop_over f hT2 hq
      try simp only at e2
      refine ⟨[c] ++ pe ++ pre', by rw [hts, e1, e2]; simp,
        lastIs_cons (endf := endOrderItem) hov.1 hov.2.2.symm hl,
        eachOver_cons (posf := fun i => posP i.e) (endf := endOrderItem) hov he⟩
    · cases h
      exact ⟨[], rfl, rfl, by intro e he; cases he⟩

theorem tryParseOrderBy_over {len f : Nat} {ts rest : List Token} {o : OrderBy} (hT : TokensOK len ts)
    (h : tryParseOrderBy f ts = .ok (some o, rest)) :
    ∃ pre, ts = pre ++ rest ∧ Over o.order (endOrderBy o) pre ∧
      ∃ kw body, pre = kw ++ body ∧ kw ≠ [] ∧ EachOver (o.first :: o.more) (fun i => posP i.e) endOrderItem body := by
  unfold tryParseOrderBy at h
  split at h
  · rename_i hc
    split at h
    · rename_i hb
      obtain ⟨t, tl, hts, _⟩ := qcur_ne_eof hc (by decide)
      rw [hts] at hb h hT
      try simp only [List.tail_cons] at hb h
      obtain ⟨b, tl2, hts2, _⟩ := qcur_ne_eof hb (by decide)
      rw [hts2] at h hT
      try simp only [List.tail_cons] at h
      obtain ⟨p, hp, h2⟩ := Res.bind_eq_ok.1 h
      obtain ⟨e, r⟩ := p
      obtain ⟨q, hq, h3⟩ := Res.bind_eq_ok.1 h2
      obtain ⟨es, r'⟩ := q
      cases h3
      obtain ⟨pe, e1, hov⟩ := parseOrderByItem_over (hT.suffix (pre := [t, b])) hp
      have hT2 : TokensOK len r := by
        have := hT.suffix (pre := [t, b]); rw [e1] at this; exact this.suffix
      obtain ⟨pl, e2, hl, he⟩ := orderListLoop_over f hT2 hq
      try simp only at e2
      obtain ⟨hne, hle⟩ := lastEnd_first_more (x := e) (endf := endOrderItem) hov.1 hov.2.2.symm hl
      refine ⟨[t, b] ++ (pe ++ pl), by rw [hts, hts2, e1, e2]; simp, ⟨by simp, rfl, ?_⟩,
        [t, b], pe ++ pl, rfl, by simp, ?_⟩
      · rw [lastEnd_append hne, hle]; rfl
      · have := eachOver_cons (c := []) (posf := fun i : OrderByItem => posP i.e) (endf := endOrderItem) hov he
        simpa using this
    · cases h
  · cases h

/-- the loop of the select list: the further items with their commas (`pre`), then the trailing comma if one was
consumed (`ptr`) -/
theorem resultsLoop_over {len : Nat} : ∀ (f : Nat) {ts rest : List Token} {is : List SelectItem} {tr : Bool},
    TokensOK len ts → resultsLoop f ts = .ok ((is, tr), rest) →
    ∃ pre ptr, ts = pre ++ ptr ++ rest ∧ (tr = false → ptr = []) ∧ (tr = true → ∃ tc, ptr = [tc]) ∧
      LastIs is endItem pre ∧ EachOver is posItem endItem pre
  | 0, _, _, _, _, _, h => by cases h
  | f + 1, ts, rest, is, tr, hT, h => by
    unfold resultsLoop at h
    split at h
    · rename_i hc
      obtain ⟨c, tl, hts, _⟩ := qcur_ne_eof hc (by decide)
      have trail : (.ok (([], true), ts.tail) : QR (List SelectItem × Bool)) = .ok ((is, tr), rest) →
          ∃ pre ptr, ts = pre ++ ptr ++ rest ∧ (tr = false → ptr = []) ∧ (tr = true → ∃ tc, ptr = [tc]) ∧
            LastIs is endItem pre ∧ EachOver is posItem endItem pre := by
        intro h'
        cases h'
        exact ⟨[], [c], (by rw [hts]; simp), (by intro h0; cases h0), fun _ => ⟨c, rfl⟩, rfl, (by intro e he; cases he)⟩
      split at h
      · exact trail h
      · exact trail h
      · exact trail h
      · exact trail h
      · obtain ⟨p, hp, h2⟩ := Res.bind_eq_ok.1 h
        obtain ⟨i, r⟩ := p
        obtain ⟨q, hq, h3⟩ := Res.bind_eq_ok.1 h2
        obtain ⟨⟨is', tr'⟩, r'⟩ := q
        cases h3
        rw [hts] at hp hT
        try simp only [List.tail_cons] at hp
        obtain ⟨pi, e1, hov⟩ := parseSelectItem_over (hT.suffix (pre := [c])) hp
        have hT2 : TokensOK len r := by
          have := hT.suffix (pre := [c]); rw [e1] at this; exact this.suffix
        obtain ⟨pre', ptr, e2, h4, h5, hl, he⟩ := resultsLoop_over f hT2 hq
        try simp only at e2
        exact ⟨[c] ++ pi ++ pre', ptr, by rw [hts, e1, e2]; simp, h4, h5,
          lastIs_cons hov.1 hov.2.2.symm hl, eachOver_cons hov he⟩
    · cases h
      exact ⟨[], [], rfl, fun _ => rfl, (by intro h0; cases h0), rfl, (by intro e he; cases he)⟩

end MF.Query

namespace MF.Query
open MF MF.Expr

/-! ## SELECT, the query expression, the statement -/

/-- an optional clause: nothing consumed, or a node lying over the consumed run -/
def OptOver {α : Type} (x : Option α) (posf endf : α → Nat) (pre : List Token) : Prop :=
  match x with
  | none => pre = []
  | some v => Over (posf v) (endf v) pre

theorem optFrom_over {f : Nat} {ts rest : List Token} {x : Option From} (h : tryParseFrom f ts = .ok (x, rest)) :
    ∃ pre, ts = pre ++ rest ∧ OptOver x (·.from_) endFrom pre := by
  cases x with
  | none => exact ⟨[], by rw [((tryParseFrom_sound h).2.1 rfl).1]; rfl, rfl⟩
  | some v => exact tryParseFrom_over h

theorem optWhere_over {len f : Nat} {ts rest : List Token} {x : Option Where} (hT : TokensOK len ts)
    (h : tryParseWhere f ts = .ok (x, rest)) : ∃ pre, ts = pre ++ rest ∧ OptOver x (·.where_) endWhere pre := by
  cases x with
  | none => exact ⟨[], by rw [(tryParseWhere_sound h).2.2.1 rfl]; rfl, rfl⟩
  | some v => exact tryParseWhere_over hT h

theorem optGroup_over {len f : Nat} {ts rest : List Token} {x : Option GroupBy} (hT : TokensOK len ts)
    (h : tryParseGroupBy f ts = .ok (x, rest)) : ∃ pre, ts = pre ++ rest ∧ OptOver x (·.group) endGroupBy pre := by
  cases x with
  | none => exact ⟨[], by rw [(tryParseGroupBy_sound h).2.2.1 rfl]; rfl, rfl⟩
  | some v => obtain ⟨pre, e, ho, _⟩ := tryParseGroupBy_over hT h; exact ⟨pre, e, ho⟩

theorem optHaving_over {len f : Nat} {ts rest : List Token} {x : Option Having} (hT : TokensOK len ts)
    (h : tryParseHaving f ts = .ok (x, rest)) : ∃ pre, ts = pre ++ rest ∧ OptOver x (·.having) endHaving pre := by
  cases x with
  | none => exact ⟨[], by rw [(tryParseHaving_sound h).2.2.1 rfl]; rfl, rfl⟩
  | some v => exact tryParseHaving_over hT h

theorem optOrder_over {len f : Nat} {ts rest : List Token} {x : Option OrderBy} (hT : TokensOK len ts)
    (h : tryParseOrderBy f ts = .ok (x, rest)) : ∃ pre, ts = pre ++ rest ∧ OptOver x (·.order) endOrderBy pre := by
  cases x with
  | none => exact ⟨[], by rw [(tryParseOrderBy_sound h).2.2.1 rfl]; rfl, rfl⟩
  | some v => obtain ⟨pre, e, ho, _⟩ := tryParseOrderBy_over hT h; exact ⟨pre, e, ho⟩

theorem optLimit_over {len : Nat} {ts rest : List Token} {x : Option Limit} (hT : TokensOK len ts)
    (h : tryParseLimit ts = .ok (x, rest)) : ∃ pre, ts = pre ++ rest ∧ OptOver x (·.limit) endLimit pre := by
  cases x with
  | none => exact ⟨[], by rw [(tryParseLimit_sound h).2.1 rfl]; rfl, rfl⟩
  | some v => obtain ⟨pre, e, ho, _⟩ := tryParseLimit_over hT h; exact ⟨pre, e, ho⟩

def optEnd {α : Type} (x : Option α) (endf : α → Nat) (e0 : Nat) : Nat :=
  match x with
  | none => e0
  | some v => endf v

/-- a run `base` ending at `e0`, followed by optional clause runs: the whole ends where the last present clause ends -/
theorem lastEnd_opt {α : Type} {x : Option α} {posf endf : α → Nat} {base px : List Token} {e0 : Nat}
    (hb : base ≠ []) (he : lastEnd base = e0) (hx : OptOver x posf endf px) :
    base ++ px ≠ [] ∧ lastEnd (base ++ px) = optEnd x endf e0 := by
  cases x with
  | none => simp only [OptOver] at hx; subst hx; simpa using ⟨hb, he⟩
  | some v => simp only [OptOver] at hx; exact ⟨by simp [hb], by rw [lastEnd_append hx.1]; exact hx.2.2.symm⟩

/-- `parseSelect`: the Select lies over `run`; the only consumed token that may lie OUTSIDE its range is a trailing comma
that ends the whole SELECT (no FROM / WHERE / GROUP BY / HAVING follows): `End()` is then the end of the last item -/
theorem parseSelect_over {len f : Nat} {ts rest : List Token} {s : Select} (hT : TokensOK len ts)
    (h : parseSelect f ts = .ok (s, rest)) :
    ∃ run tail, ts = run ++ tail ++ rest ∧ Over s.select (endSelect s) run ∧
      (tail = [] ∨ ∃ tc, tail = [tc] ∧ s.trailing = true ∧ s.from_ = none ∧ s.where_ = none ∧ s.groupBy = none ∧
        s.having = none) ∧
      ∃ base pf pw pg ph, run ++ tail = base ++ pf ++ pw ++ pg ++ ph ∧ base ≠ [] ∧ OptOver s.from_ (·.from_) endFrom pf ∧
        OptOver s.where_ (·.where_) endWhere pw ∧ OptOver s.groupBy (·.group) endGroupBy pg ∧
        OptOver s.having (·.having) endHaving ph := by
  obtain ⟨_, _, htrail⟩ := parseSelect_sound h
  unfold parseSelect at h
  split at h
  · rename_i hc
    obtain ⟨tsel, tl, hts, _⟩ := qcur_ne_eof hc (by decide)
    try simp only at h
    split at h
    · cases h
    · obtain ⟨pa, hpa, _⟩ := tryParseAllOrDistinct_sound ts.tail
      obtain ⟨i, hi, h2⟩ := Res.bind_eq_ok.1 h
      obtain ⟨i, r1⟩ := i
      obtain ⟨l, hl, h3⟩ := Res.bind_eq_ok.1 h2
      obtain ⟨⟨is, tr⟩, r2⟩ := l
      obtain ⟨fr, hfr, h4⟩ := Res.bind_eq_ok.1 h3
      obtain ⟨fr, r3⟩ := fr
      obtain ⟨w, hw, h5⟩ := Res.bind_eq_ok.1 h4
      obtain ⟨w, r4⟩ := w
      obtain ⟨g, hg, h6⟩ := Res.bind_eq_ok.1 h5
      obtain ⟨g, r5⟩ := g
      obtain ⟨hv, hh, h7⟩ := Res.bind_eq_ok.1 h6
      obtain ⟨hv, r6⟩ := hv
      cases h7
      try simp only at hi hl hfr hw hg hh
      have htl : ts.tail = tl := by rw [hts]; rfl
      have hT0 : TokensOK len ts.tail := by rw [hts] at hT; rw [htl]; exact hT.suffix (pre := [tsel])
      have hTA : TokensOK len (tryParseAllOrDistinct ts.tail).2 := by rw [hpa] at hT0; exact hT0.suffix
      obtain ⟨pi, e1, hoi⟩ := parseSelectItem_over hTA hi
      have hT1 : TokensOK len r1 := by rw [e1] at hTA; exact hTA.suffix
      obtain ⟨pl, ptr, e2, htr0, htr1, hlast, _⟩ := resultsLoop_over f hT1 hl
      have hT2 : TokensOK len r2 := by rw [e2] at hT1; exact hT1.suffix
      obtain ⟨pf, e3, hof⟩ := optFrom_over hfr
      have hT3 : TokensOK len r3 := by rw [e3] at hT2; exact hT2.suffix
      obtain ⟨pw, e4, how⟩ := optWhere_over hT3 hw
      have hT4 : TokensOK len r4 := by rw [e4] at hT3; exact hT3.suffix
      obtain ⟨pg, e5, hog⟩ := optGroup_over hT4 hg
      have hT5 : TokensOK len r5 := by rw [e5] at hT4; exact hT4.suffix
      obtain ⟨ph, e6, hoh⟩ := optHaving_over hT5 hh
      -- the items
      obtain ⟨hbne, hbe⟩ := lastEnd_first_more (x := i) (endf := endItem) hoi.1 hoi.2.2.symm hlast
      have hB : (tsel :: pa) ++ (pi ++ pl) ≠ [] ∧
          lastEnd ((tsel :: pa) ++ (pi ++ pl)) = endItem ((i :: is).getLast?.getD i) :=
        ⟨by simp, by rw [lastEnd_append hbne]; exact hbe⟩
      have hall : ts = (tsel :: pa) ++ (pi ++ pl) ++ ptr ++ pf ++ pw ++ pg ++ ph ++ r6 := by
        rw [hts, ← htl, hpa, e1, e2, e3, e4, e5, e6]; simp
      have hfirst : ∀ X : List Token, firstPos ((tsel :: pa) ++ (pi ++ pl) ++ X) = (hd ts).pos := by
        intro X; rw [hts]; rfl
      by_cases hcl : fr = none ∧ w = none ∧ g = none ∧ hv = none
      · obtain ⟨rfl, rfl, rfl, rfl⟩ := hcl
        simp only [OptOver] at hof how hog hoh
        subst hof how hog hoh
        refine ⟨(tsel :: pa) ++ (pi ++ pl), ptr, by rw [hall]; simp, ⟨hB.1, ?_, ?_⟩, ?_,
          (tsel :: pa) ++ (pi ++ pl) ++ ptr, [], [], [], [], by simp, by simp, rfl, rfl, rfl, rfl⟩
        · have := hfirst []; simpa using this.symm
        · simp only [endSelect]; exact hB.2.symm
        · cases tr with
          | false => exact Or.inl (htr0 rfl)
          | true => obtain ⟨tc, htc⟩ := htr1 rfl; exact Or.inr ⟨tc, htc, rfl, rfl, rfl, rfl, rfl⟩
      · -- some clause follows: a trailing comma (if any) is inside the range
        have hptr : ptr = [] ∨ fr ≠ none := by
          cases tr with
          | false => exact Or.inl (htr0 rfl)
          | true =>
            rcases htrail rfl with h1 | ⟨h1, h2, h3, _⟩
            · right; intro e; simp only at h1; rw [e] at h1; cases h1
            · simp only at h1 h2 h3
              cases hfr0 : fr with
              | some x => right; simp
              | none => exact absurd ⟨hfr0, h1, h2, h3⟩ hcl
        have hB' : (tsel :: pa) ++ (pi ++ pl) ++ ptr ++ pf ≠ [] ∧
            lastEnd ((tsel :: pa) ++ (pi ++ pl) ++ ptr ++ pf) =
              optEnd fr endFrom (endItem ((i :: is).getLast?.getD i)) := by
          rcases hptr with hp0 | hfn
          · subst hp0
            simpa using lastEnd_opt hB.1 hB.2 hof
          · cases fr with
            | none => exact absurd rfl hfn
            | some v =>
              simp only [OptOver] at hof
              exact ⟨by simp, by rw [lastEnd_append hof.1]; exact hof.2.2.symm⟩
        have h1 := lastEnd_opt hB'.1 hB'.2 how
        have h2 := lastEnd_opt h1.1 h1.2 hog
        have h3 := lastEnd_opt h2.1 h2.2 hoh
        refine ⟨(tsel :: pa) ++ (pi ++ pl) ++ ptr ++ pf ++ pw ++ pg ++ ph, [], by rw [hall]; simp,
          ⟨h3.1, ?_, ?_⟩, Or.inl rfl,
          (tsel :: pa) ++ (pi ++ pl) ++ ptr, pf, pw, pg, ph, by simp, by simp, hof, how, hog, hoh⟩
        · have := hfirst (ptr ++ pf ++ pw ++ pg ++ ph)
          simp only [List.append_assoc] at this ⊢
          exact this.symm
        · rw [h3.2]
          simp only [endSelect]
          cases hv <;> cases g <;> cases w <;> cases fr <;> rfl
  · cases h

/-- `parseQueryStatement`: the QueryStatement (= its QueryExpr: a Select, or a Query with ORDER BY / LIMIT) lies over
`run`; `tail` is empty or the trailing comma of a SELECT that ends the statement -/
theorem parseQueryStatement_over {len f : Nat} {ts rest : List Token} {q : QueryStatement} (hT : TokensOK len ts)
    (h : parseQueryStatement f ts = .ok (q, rest)) :
    ∃ run tail, ts = run ++ tail ++ rest ∧ Over (posQ q) (endQ q) run ∧ (tail = [] ∨ ∃ tc, tail = [tc]) ∧
      ∃ srun stail, Over (selectOf q.query).select (endSelect (selectOf q.query)) srun ∧ (∃ b, run ++ tail = srun ++ stail ++ b) ∧
        (endQ q = endSelect (selectOf q.query) ∨ ∃ b', run = srun ++ b') := by
  unfold parseQueryStatement at h
  split at h
  · cases h
  · obtain ⟨⟨qe, r0⟩, hqe, hk⟩ := Res.bind_eq_ok.1 h
    cases hk
    unfold parseQueryExpr at hqe
    split at hqe
    · cases hqe
    · obtain ⟨⟨s, r⟩, hs, hsuf⟩ := Res.bind_eq_ok.1 hqe
      have hs' : parseSelect f ts = .ok (s, r) := by
        unfold parseSimpleQueryExpr at hs
        split at hs
        · cases hs
        · cases hs
        · exact hs
        · cases hs
      obtain ⟨srun, stail, e0, hos, htail, _⟩ := parseSelect_over hT hs'
      try simp only at hsuf
      split at hsuf
      · cases hsuf
      · cases hsuf
      · unfold parseQueryExprSuffix at hsuf
        obtain ⟨⟨o, r1⟩, ho, h2⟩ := Res.bind_eq_ok.1 hsuf
        obtain ⟨⟨l, r2⟩, hl, h3⟩ := Res.bind_eq_ok.1 h2
        try simp only at ho hl h3
        have hTr : TokensOK len r := by rw [e0] at hT; exact hT.suffix
        obtain ⟨po, e1, hoo⟩ := optOrder_over hTr ho
        have hT1 : TokensOK len r1 := by rw [e1] at hTr; exact hTr.suffix
        obtain ⟨pl, e2, hol⟩ := optLimit_over hT1 hl
        have hbase : srun ++ stail ≠ [] := by simp [hos.1]
        have c1 := lastEnd_opt hbase rfl hoo
        have c2 := lastEnd_opt c1.1 c1.2 hol
        have hfp : ∀ X : List Token, firstPos (srun ++ X) = s.select := by
          intro X; rw [firstPos_append hos.1]; exact hos.2.1.symm
        split at h3
        · cases h3
        · cases h3
        · cases o with
          | none =>
            cases l with
            | none =>
              simp only at h3
              cases h3
              simp only [OptOver] at hoo hol
              subst hoo hol
              refine ⟨srun, stail, by rw [e0, e1, e2]; simp, hos, ?_, srun, stail, hos, ⟨[], by simp⟩, Or.inl rfl⟩
              rcases htail with h | ⟨tc, h, _⟩
              · exact Or.inl h
              · exact Or.inr ⟨tc, h⟩
            | some lv =>
              simp only at h3
              cases h3
              refine ⟨srun ++ stail ++ po ++ pl, [], by rw [e0, e1, e2]; simp, ⟨c2.1, ?_, ?_⟩, Or.inl rfl,
                srun, stail, hos, ⟨po ++ pl, by simp⟩, Or.inr ⟨stail ++ po ++ pl, by simp⟩⟩
              · have := hfp (stail ++ po ++ pl); simp only [List.append_assoc] at this ⊢; exact this.symm
              · rw [c2.2]; rfl
          | some ov =>
            simp only at h3
            cases h3
            refine ⟨srun ++ stail ++ po ++ pl, [], by rw [e0, e1, e2]; simp, ⟨c2.1, ?_, ?_⟩, Or.inl rfl,
              srun, stail, hos, ⟨po ++ pl, by simp⟩, Or.inr ⟨stail ++ po ++ pl, by simp⟩⟩
            · have := hfp (stail ++ po ++ pl); simp only [List.append_assoc] at this ⊢; exact this.symm
            · rw [c2.2]; cases l <;> rfl

end MF.Query

namespace MF.Query
open MF MF.Expr

/-! ## from token runs to byte facts -/

theorem tokAt_mid {l run r : List Token} {k : Nat} (hk : k < run.length) :
    tokAt (l ++ run ++ r) (l.length + k) = tokAt run k := by
  have h1 : (l ++ run ++ r).drop (l.length + k) = (run ++ r).drop k := by
    rw [List.append_assoc, List.drop_append]
    simp
  have h2 := tokAt_append_left (rest := r) hk
  unfold tokAt at h2 ⊢
  rw [h1]; exact h2

/-- a node lying over a run of lexer tokens that is followed by at least one more token (`<eof>` at the latest):
its `Pos()` is the start of a token, its `End()` the end of a token, `Pos() < End() ≤ len(input)` -/
theorem over_facts {buf : Bytes} {ts l run r : List Token} (hl : Lex.lexAll buf = .ok ts) (hts : ts = l ++ run ++ r)
    (hr : r ≠ []) {p e : Nat} (h : Over p e run) :
    (∃ t ∈ ts, t.pos = p) ∧ (∃ t ∈ ts, t.end = e) ∧ p < e ∧ e ≤ buf.length := by
  have L := lexAll_lexed hl
  obtain ⟨hne, hp, he⟩ := h
  have hlen : 0 < run.length := List.length_pos_iff.mpr hne
  have hrl : 0 < r.length := List.length_pos_iff.mpr hr
  have hA : tokAt ts (l.length + 0) = tokAt run 0 := by rw [hts]; exact tokAt_mid hlen
  have hB : tokAt ts (l.length + (run.length - 1)) = tokAt run (run.length - 1) := by
    rw [hts]; exact tokAt_mid (by omega)
  have htl : ts.length = l.length + run.length + r.length := by rw [hts]; simp; omega
  rw [firstPos_eq_tokAt hne, ← hA] at hp
  rw [lastEnd_eq_tokAt hne, ← hB] at he
  refine ⟨⟨_, tokAt_mem (by omega), hp.symm⟩, ⟨_, tokAt_mem (by omega), he.symm⟩, ?_, ?_⟩
  · rw [hp, he]; exact L.pos_lt_end (by omega) (by omega)
  · rw [he]; exact L.end_le (by omega)

/-- a child run inside a parent run: the child's span is nested in the parent's -/
theorem over_nested {buf : Bytes} {ts l a c b r : List Token} (hl : Lex.lexAll buf = .ok ts)
    (hts : ts = l ++ (a ++ c ++ b) ++ r) (hr : r ≠ []) {p e p' e' : Nat} (hp : Over p e (a ++ c ++ b)) (hc : Over p' e' c) :
    p ≤ p' ∧ e' ≤ e := by
  have L := lexAll_lexed hl
  have hcl : 0 < c.length := List.length_pos_iff.mpr hc.1
  have hrl : 0 < r.length := List.length_pos_iff.mpr hr
  have htl : ts.length = l.length + (a.length + c.length + b.length) + r.length := by rw [hts]; simp; omega
  have e1 : p = (tokAt ts (l.length + 0)).pos := by
    rw [hp.2.1, firstPos_eq_tokAt hp.1, hts, tokAt_mid (by simp; omega)]
  have e2 : e = (tokAt ts (l.length + ((a ++ c ++ b).length - 1))).end := by
    rw [hp.2.2, lastEnd_eq_tokAt hp.1, hts, tokAt_mid (by simp; omega)]
  have hts' : ts = (l ++ a) ++ c ++ (b ++ r) := by rw [hts]; simp
  have e3 : p' = (tokAt ts ((l ++ a).length + 0)).pos := by
    rw [hc.2.1, firstPos_eq_tokAt hc.1, hts', tokAt_mid hcl]
  have e4 : e' = (tokAt ts ((l ++ a).length + (c.length - 1))).end := by
    rw [hc.2.2, lastEnd_eq_tokAt hc.1, hts', tokAt_mid (by omega)]
  rw [e1, e2, e3, e4]
  simp only [List.length_append]
  exact ⟨L.pos_le_pos (by omega) (by omega), L.end_le_end (by omega) (by omega)⟩

/-- two runs in source order: the first ends before the second starts -/
theorem over_ordered {buf : Bytes} {ts l c1 m c2 r : List Token} (hl : Lex.lexAll buf = .ok ts)
    (hts : ts = l ++ c1 ++ m ++ c2 ++ r) {p1 e1 p2 e2 : Nat} (h1 : Over p1 e1 c1) (h2 : Over p2 e2 c2) : e1 ≤ p2 := by
  have L := lexAll_lexed hl
  have hc1 : 0 < c1.length := List.length_pos_iff.mpr h1.1
  have hc2 : 0 < c2.length := List.length_pos_iff.mpr h2.1
  have htl : ts.length = l.length + c1.length + m.length + c2.length + r.length := by rw [hts]; simp; omega
  have hA : ts = l ++ c1 ++ (m ++ c2 ++ r) := by rw [hts]; simp
  have hB : ts = (l ++ c1 ++ m) ++ c2 ++ r := by rw [hts]
  have a1 : e1 = (tokAt ts (l.length + (c1.length - 1))).end := by
    rw [h1.2.2, lastEnd_eq_tokAt h1.1, hA, tokAt_mid (by omega)]
  have a2 : p2 = (tokAt ts ((l ++ c1 ++ m).length + 0)).pos := by
    rw [h2.2.1, firstPos_eq_tokAt h2.1, hB, tokAt_mid hc2]
  rw [a1, a2]
  simp only [List.length_append]
  exact L.sorted _ _ (by omega) (by omega)

end MF.Query

namespace MF.Query
open MF MF.Expr

/-! ## the `<eof>` token is never consumed -/

/-- descriptors that no `<eof>` token reads as -/
def dGood : QD → Bool
  | .kw k => k != .eof
  | .e x => x.k != .eof
  | _ => true

def Good (ds : List QD) : Prop := ∀ d ∈ ds, dGood d = true

theorem good_nil : Good [] := by intro d hd; cases hd
theorem good_cons {d : QD} {ds : List QD} (h : dGood d = true) (hs : Good ds) : Good (d :: ds) := by
  intro x hx
  rcases List.mem_cons.1 hx with rfl | hx
  · exact h
  · exact hs x hx
theorem good_append {a b : List QD} (ha : Good a) (hb : Good b) : Good (a ++ b) := by
  intro x hx
  rcases List.mem_append.1 hx with h | h
  · exact ha x h
  · exact hb x h

theorem good_yX (e : PExpr) : Good (yX e) := by
  intro d hd
  unfold yX at hd
  obtain ⟨y, hy, rfl⟩ := List.mem_map.1 hd
  have := yield_NE (erase e) y hy
  simp [dGood, this]

theorem good_yAs (a : AsAlias) : Good (yAs a) := by
  unfold yAs
  cases a.as <;> (intro d hd; simp at hd; rcases hd with rfl | rfl <;> rfl)

theorem good_yOptAs (a : Option AsAlias) : Good (yOptAs a) := by
  cases a with
  | none => exact good_nil
  | some a => exact good_yAs a

theorem good_yItem (i : SelectItem) : Good (yItem i) := by
  cases i with
  | star s => exact good_cons rfl good_nil
  | dotStar s e => exact good_append (good_yX e) (good_cons rfl (good_cons rfl good_nil))
  | alias e a => exact good_append (good_yX e) (good_yAs a)
  | expr e => exact good_yX e

theorem good_yItems : ∀ is : List SelectItem, Good (yItems is)
  | [] => good_nil
  | i :: is => good_cons rfl (good_append (good_yItem i) (good_yItems is))

theorem good_yPathMore : ∀ m : List Ident, Good (yPathMore m)
  | [] => good_nil
  | _ :: m => good_cons rfl (good_cons rfl (good_yPathMore m))

theorem good_yExprs : ∀ es : List PExpr, Good (yExprs es)
  | [] => good_nil
  | e :: es => good_cons rfl (good_append (good_yX e) (good_yExprs es))

theorem good_yDir (d : Option (Dir × Nat)) : Good (yDir d) := by
  rcases d with _ | ⟨d, p⟩
  · exact good_nil
  · cases d <;> exact good_cons rfl good_nil

theorem good_yOrdItems : ∀ es : List OrderByItem, Good (yOrdItems es)
  | [] => good_nil
  | e :: es => good_cons rfl (good_append (good_append (good_yX e.e) (good_yDir e.dir)) (good_yOrdItems es))

theorem good_yInt (v : IntValue) : dGood (yInt v) = true := by cases v <;> rfl

theorem good_ySelect (s : Select) : Good (ySelect s) := by
  unfold ySelect
  refine good_cons rfl (good_append ?_ (good_append (good_append (good_yItem _) (good_yItems _)) (good_append ?_
    (good_append ?_ (good_append ?_ (good_append ?_ ?_))))))
  · rcases s.aod with _ | a
    · exact good_nil
    · cases a <;> exact good_cons rfl good_nil
  · unfold trailD; cases s.trailing
    · exact good_nil
    · exact good_cons rfl good_nil
  · cases s.from_ with
    | none => exact good_nil
    | some f =>
      refine good_cons rfl ?_
      cases f.source with
      | tableName t a => exact good_cons rfl (good_yOptAs a)
      | path f m a => exact good_cons rfl (good_append (good_yPathMore m) (good_yOptAs a))
  · cases s.where_ with
    | none => exact good_nil
    | some w => exact good_cons rfl (good_yX w.e)
  · cases s.groupBy with
    | none => exact good_nil
    | some g => exact good_cons rfl (good_cons rfl (good_append (good_yX g.first) (good_yExprs g.more)))
  · cases s.having with
    | none => exact good_nil
    | some h => exact good_cons rfl (good_yX h.e)

theorem good_yieldQ (q : QueryStatement) : Good (yieldQ q) := by
  obtain ⟨q⟩ := q
  have hO : ∀ o : Option OrderBy, Good (yOrder o) := by
    intro o
    cases o with
    | none => exact good_nil
    | some o =>
      exact good_cons rfl (good_cons rfl (good_append (good_append (good_yX o.first.e) (good_yDir o.first.dir))
        (good_yOrdItems o.more)))
  have hL : ∀ l : Option Limit, Good (yLimit l) := by
    intro l
    cases l with
    | none => exact good_nil
    | some l =>
      refine good_cons rfl (good_cons (good_yInt _) ?_)
      cases l.offset with
      | none => exact good_nil
      | some o => exact good_cons rfl (good_cons (good_yInt _) good_nil)
  cases q with
  | select s => exact good_ySelect s
  | query s o l => exact good_append (good_ySelect s) (good_append (hO o) (hL l))

theorem ok_not_eof {d : QD} {t : Token} (hg : dGood d = true) (h : d.ok t = true) : t.kind ≠ .eof := by
  intro he
  cases d with
  | kw k => simp [QD.ok, he, qk] at h; subst h; simp [dGood] at hg
  | ident n => simp [QD.ok, he] at h
  | offsetKw => simp [QD.ok, Token.isKeywordLike, he] at h
  | int r => simp [QD.ok, he] at h
  | param n => simp [QD.ok, he] at h
  | e x => simp [QD.ok, proj, he, tk] at h; subst h; simp [dGood] at hg

theorem match_no_eof : ∀ {ds : List QD} {pre : List Token}, Good ds → matchB ds pre = true → ∀ t ∈ pre, t.kind ≠ .eof
  | [], [], _, _, t, ht => by cases ht
  | [], _ :: _, _, h, _, _ => by simp [matchB] at h
  | _ :: _, [], _, h, _, _ => by simp [matchB] at h
  | d :: ds, u :: pre, hg, h, t, ht => by
    simp only [matchB, Bool.and_eq_true] at h
    rcases List.mem_cons.1 ht with rfl | ht
    · exact ok_not_eof (hg d (by simp)) h.1
    · exact match_no_eof (fun x hx => hg x (by simp [hx])) h.2 t ht

/-- on lexer output the query statement parser leaves at least the `<eof>` token -/
theorem rest_ne_nil {buf : Bytes} {ts rest : List Token} {f : Nat} {q : QueryStatement} (hl : Lex.lexAll buf = .ok ts)
    (h : parseQueryStatement f ts = .ok (q, rest)) : rest ≠ [] := by
  intro hr
  subst hr
  obtain ⟨⟨pre, hts, hm⟩, _⟩ := parseQueryStatement_sound h
  simp only [List.append_nil] at hts
  subst hts
  obtain ⟨hne, hok⟩ := MF.Lex.lexAll_ok hl
  obtain ⟨_, _, _, i4⟩ := tokensOK_idx hok
  have hlen : 0 < ts.length := List.length_pos_iff.mpr hne
  have hk := i4 (ts.length - 1) (by omega)
  exact match_no_eof (good_yieldQ q) hm _ (tokAt_mem (by omega)) hk

end MF.Query

