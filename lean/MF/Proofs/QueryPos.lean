/-
  MF.Proofs.QueryPos — positions of the query nodes (C05 for the SELECT core): every function of MF/Model/Query.lean
  that builds a node returns a node whose `Pos()` is the `pos` of the FIRST token it consumed and whose `End()` is the
  `end` of the LAST token of a run of consumed tokens (`Over p e run`).  Expression slots: `MF.Expr.place_ok` (C05 for
  expressions) at index 0 of the current suffix.  Token lengths (`*` is one byte, ASC three, DESC four, a parameter
  `1 + len(name)`): `MF.Lex.TokLen` (MF/Proofs/LexTokLen.lean).
-/
import MF.Proofs.QuerySound
import MF.Proofs.ExprPosC05
import MF.Proofs.LexTokLen
namespace MF.Query
open MF MF.Expr

def firstPos (l : List Token) : Nat := (l.head?.map (·.pos)).getD 0
def lastEnd (l : List Token) : Nat := (l.getLast?.map (·.end)).getD 0

/-- the span `(p, e)` lies exactly over the non-empty token run: starts with its first token, ends with its last -/
def Over (p e : Nat) (run : List Token) : Prop := run ≠ [] ∧ p = firstPos run ∧ e = lastEnd run

theorem firstPos_cons (t : Token) (l : List Token) : firstPos (t :: l) = t.pos := rfl

theorem firstPos_append {a b : List Token} (ha : a ≠ []) : firstPos (a ++ b) = firstPos a := by
  cases a with
  | nil => exact absurd rfl ha
  | cons t a => rfl

theorem lastEnd_append {a b : List Token} (hb : b ≠ []) : lastEnd (a ++ b) = lastEnd b := by
  unfold lastEnd
  rw [List.getLast?_append]
  cases hb' : b.getLast? with
  | none => exact absurd (List.getLast?_eq_none_iff.mp hb') hb
  | some x => simp

theorem lastEnd_single (t : Token) : lastEnd [t] = t.end := rfl

theorem lastEnd_cons_cons (t u : Token) (l : List Token) : lastEnd (t :: u :: l) = lastEnd (u :: l) :=
  lastEnd_append (a := [t]) (by simp)

theorem Over.one (t : Token) : Over t.pos t.end [t] := ⟨by simp, rfl, rfl⟩

theorem Over.append {p m m' e : Nat} {a b : List Token} (ha : Over p m a) (hb : Over m' e b) : Over p e (a ++ b) :=
  ⟨by simp [ha.1], by rw [firstPos_append ha.1]; exact ha.2.1, by rw [lastEnd_append hb.1]; exact hb.2.2⟩

theorem Over.cons_left {p e : Nat} {b : List Token} (t : Token) (hb : Over p e b) : Over t.pos e (t :: b) :=
  (Over.one t).append hb

theorem Over.append_nil {p e : Nat} {a : List Token} (ha : Over p e a) : Over p e (a ++ []) := by simpa using ha

/-- the token facts used: the generic ones of C05 for expressions and the length of keyword / punctuation tokens -/
structure TokensOK (len : Nat) (ts : List Token) : Prop where
  ok : ∀ t ∈ ts, TokOK len t
  tl : ∀ t ∈ ts, Lex.TokLen t

theorem TokensOK.suffix {len : Nat} {pre rest : List Token} (h : TokensOK len (pre ++ rest)) : TokensOK len rest :=
  ⟨fun t ht => h.ok t (by simp [ht]), fun t ht => h.tl t (by simp [ht])⟩

theorem TokensOK.head {len : Nat} {t : Token} {ts : List Token} (h : TokensOK len (t :: ts)) : Lex.TokLen t :=
  h.tl t (by simp)

/-! ## leaves -/

theorem parseIdent_over {ts rest : List Token} {i : Ident} (h : parseIdent ts = .ok (i, rest)) :
    ∃ t, ts = t :: rest ∧ i.namePos = t.pos ∧ i.nameEnd = t.end := by
  unfold parseIdent at h
  split at h
  · rename_i hc
    obtain ⟨t, tl, rfl, _⟩ := qcur_ne_eof hc (by decide)
    cases h
    exact ⟨t, rfl, rfl, rfl⟩
  · cases h

theorem tryParseAsAlias_over {ts rest : List Token} {a : AsAlias} (h : tryParseAsAlias ts = .ok (some a, rest)) :
    ∃ pre, ts = pre ++ rest ∧ Over (posAs a) (endAs a) pre := by
  unfold tryParseAsAlias at h
  split at h
  · rename_i hc
    obtain ⟨t, tl, rfl, _⟩ := qcur_ne_eof hc (by decide)
    obtain ⟨p, hp, hk⟩ := Res.bind_eq_ok.1 h
    obtain ⟨i, r⟩ := p
    obtain ⟨u, hu, h1, h2⟩ := parseIdent_over hp
    try simp only [List.tail_cons] at hu
    subst hu
    cases hk
    refine ⟨[t, u], rfl, by simp, ?_, ?_⟩
    · simp [posAs, firstPos]
    · simp [endAs, lastEnd, h2]
  · rename_i hc
    obtain ⟨t, tl, rfl, _⟩ := qcur_ne_eof hc (by decide)
    cases h
    exact ⟨[t], rfl, by simp, by simp [posAs, firstPos, identOf], by simp [endAs, lastEnd, identOf]⟩
  · cases h

theorem tryParseAsAlias_none {ts rest : List Token} (h : tryParseAsAlias ts = .ok (none, rest)) : rest = ts := by
  unfold tryParseAsAlias at h
  split at h
  · obtain ⟨p, _, hk⟩ := Res.bind_eq_ok.1 h
    cases hk
  · cases h
  · cases h; rfl

/-! ## expression slots -/

theorem tokAt_append_left {pre rest : List Token} {k : Nat} (hk : k < pre.length) :
    tokAt (pre ++ rest) k = tokAt pre k := by
  unfold tokAt hd
  rw [List.drop_append_of_le_length (Nat.le_of_lt hk)]
  have : pre.drop k ≠ [] := by simp; omega
  cases hd' : pre.drop k with
  | nil => exact absurd hd' this
  | cons t l => rfl

theorem firstPos_eq_tokAt {pre : List Token} (h : pre ≠ []) : firstPos pre = (tokAt pre 0).pos := by
  cases pre with
  | nil => exact absurd rfl h
  | cons t l => rfl

theorem lastEnd_eq_tokAt {pre : List Token} (h : pre ≠ []) : lastEnd pre = (tokAt pre (pre.length - 1)).end := by
  unfold lastEnd tokAt hd
  rw [List.getLast?_eq_getElem?]
  have hlt : pre.length - 1 < pre.length := by
    have : 0 < pre.length := List.length_pos_iff.mpr h
    omega
  rw [List.getElem?_eq_getElem hlt, List.drop_eq_getElem_cons hlt]
  rfl

theorem parsePExpr_over {len f : Nat} {ts rest : List Token} {e : PExpr} (hT : TokensOK len ts)
    (h : parsePExpr f ts = .ok (e, rest)) : ∃ pre, ts = pre ++ rest ∧ Over (posP e) (endP e) pre := by
  obtain ⟨j, hj, _⟩ := parsePExpr_placed (all := ts) (i := 0) (by simpa using h)
  have her := erase_parse h
  simp only [Res.map_ok, er_mk] at her
  obtain ⟨⟨pre, hts, hy⟩, _, hnf⟩ := parseExpr_sound her
  have hpre : Pre ts 0 (yield (erase e)) := by
    unfold Pre
    rw [List.drop_zero, hts, List.map_append, hy]
    exact List.prefix_append _ _
  have hok := place_ok hT.ok (erase e) 0 hpre hnf
  have hlen : pre.length = ntok (erase e) := by
    have := congrArg List.length hy
    simpa [yield_length] using this
  have hne : pre ≠ [] := by
    intro h0
    have := hok.npos
    rw [h0] at hlen
    simp at hlen
    omega
  have hp := hok.pos
  have he := hok.end_
  rw [hj] at hp he
  simp only at hp he
  refine ⟨pre, hts, hne, ?_, ?_⟩
  · rw [hp, firstPos_eq_tokAt hne, hts, tokAt_append_left (List.length_pos_iff.mpr hne)]
  · rw [he, lastEnd_eq_tokAt hne, hts, Nat.zero_add, ← hlen,
      tokAt_append_left (by have : 0 < pre.length := List.length_pos_iff.mpr hne; omega)]

/-! ## keyword tokens -/

theorem len_of_qk {t : Token} {c : QK} (hl : Lex.TokLen t) (h : qk t.kind = c) (hc : c ≠ .other) (hc1 : c ≠ .eof)
    (hc2 : c ≠ .ident) (hc3 : c ≠ .int) (hc4 : c ≠ .param) :
    ∃ p ∈ qsymTable, p.2 = c ∧ t.end = t.pos + (B p.1).length := by
  cases hk : t.kind with
  | sym s =>
    rw [hk] at h
    simp only [qk] at h
    unfold qsym at h
    split at h
    · rename_i p hp
      have hb0 := List.find?_some hp
      have hb : B p.1 = s := eq_of_beq hb0
      exact ⟨p, List.mem_of_find?_eq_some hp, h, by rw [hl.1 s hk, hb]⟩
    · exact absurd h.symm hc
  | eof => rw [hk] at h; exact absurd h.symm hc1
  | ident => rw [hk] at h; exact absurd h.symm hc2
  | int => rw [hk] at h; exact absurd h.symm hc3
  | param => rw [hk] at h; exact absurd h.symm hc4
  | bad => rw [hk] at h; exact absurd h.symm hc
  | float => rw [hk] at h; exact absurd h.symm hc
  | string => rw [hk] at h; exact absurd h.symm hc
  | bytes => rw [hk] at h; exact absurd h.symm hc

theorem star_len {t : Token} (hl : Lex.TokLen t) (h : qk t.kind = .star) : t.end = t.pos + 1 := by
  obtain ⟨p, hp, hc, he⟩ := len_of_qk hl h (by decide) (by decide) (by decide) (by decide) (by decide)
  have : ∀ p ∈ qsymTable, p.2 = QK.star → (B p.1).length = 1 := by decide +kernel
  rw [he, this p hp hc]

theorem asc_len {t : Token} (hl : Lex.TokLen t) (h : qk t.kind = .asc) : t.end = t.pos + 3 := by
  obtain ⟨p, hp, hc, he⟩ := len_of_qk hl h (by decide) (by decide) (by decide) (by decide) (by decide)
  have : ∀ p ∈ qsymTable, p.2 = QK.asc → (B p.1).length = 3 := by decide +kernel
  rw [he, this p hp hc]

theorem desc_len {t : Token} (hl : Lex.TokLen t) (h : qk t.kind = .desc) : t.end = t.pos + 4 := by
  obtain ⟨p, hp, hc, he⟩ := len_of_qk hl h (by decide) (by decide) (by decide) (by decide) (by decide)
  have : ∀ p ∈ qsymTable, p.2 = QK.desc → (B p.1).length = 4 := by decide +kernel
  rw [he, this p hp hc]

/-! ## select items -/

theorem parseSelectItem_over {len f : Nat} {ts rest : List Token} {i : SelectItem} (hT : TokensOK len ts)
    (h : parseSelectItem f ts = .ok (i, rest)) : ∃ pre, ts = pre ++ rest ∧ Over (posItem i) (endItem i) pre := by
  unfold parseSelectItem at h
  split at h
  · rename_i hc
    obtain ⟨t, tl, rfl, ht⟩ := qcur_ne_eof hc (by decide)
    obtain ⟨_, _, hk⟩ := Res.bind_eq_ok.1 h
    cases hk
    exact ⟨[t], rfl, by simp, rfl, by simp [endItem, lastEnd, star_len hT.head ht]⟩
  · obtain ⟨p, hp, h⟩ := Res.bind_eq_ok.1 h
    obtain ⟨e, r⟩ := p
    obtain ⟨pe, hts, hov⟩ := parsePExpr_over hT hp
    obtain ⟨a, ha, h⟩ := Res.bind_eq_ok.1 h
    obtain ⟨a, r2⟩ := a
    cases a with
    | some as =>
      simp only at h
      cases h
      obtain ⟨pa, hr, hoa⟩ := tryParseAsAlias_over ha
      try simp only at hr
      exact ⟨pe ++ pa, by rw [hts, hr]; simp, hov.append hoa⟩
    | none =>
      have hr2 : r2 = r := tryParseAsAlias_none ha
      subst hr2
      simp only at h
      split at h
      · rename_i hdot
        split at h
        · rename_i hstar
          obtain ⟨_, _, hk⟩ := Res.bind_eq_ok.1 h
          cases hk
          obtain ⟨d, tl, hr, _⟩ := qcur_ne_eof hdot (by decide)
          try simp only at hr
          subst hr
          obtain ⟨s, tl', hs, hst⟩ := qcur_ne_eof hstar (by decide)
          try simp only [List.tail_cons] at hs
          subst hs
          have hsl : Lex.TokLen s := hT.tl s (by rw [hts]; simp)
          refine ⟨pe ++ [d, s], by rw [hts]; simp, by simp, ?_, ?_⟩
          · rw [firstPos_append hov.1]; exact hov.2.1
          · rw [lastEnd_append (by simp)]
            simp [endItem, lastEnd, star_len hsl hst]
        · cases h
      · cases h
        exact ⟨pe, hts, hov⟩

/-! ## FROM -/

theorem pathLoop_over : ∀ (f : Nat) {ts rest : List Token} {m : List Ident}, pathLoop f ts = .ok (m, rest) →
    ∃ pre, ts = pre ++ rest ∧ (m = [] → pre = []) ∧
      (∀ l, m.getLast? = some l → pre ≠ [] ∧ lastEnd pre = l.nameEnd)
  | 0, _, _, _, h => by cases h
  | f + 1, ts, rest, m, h => by
    unfold pathLoop at h
    split at h
    · rename_i hc
      obtain ⟨d, tl, rfl, _⟩ := qcur_ne_eof hc (by decide)
      obtain ⟨p, hp, h⟩ := Res.bind_eq_ok.1 h
      obtain ⟨i, r⟩ := p
      obtain ⟨q, hq, h⟩ := Res.bind_eq_ok.1 h
      obtain ⟨m', r'⟩ := q
      cases h
      obtain ⟨u, hu, _, h2⟩ := parseIdent_over hp
      try simp only [List.tail_cons] at hu
      subst hu
      obtain ⟨pre', rfl, hnil, hlast⟩ := pathLoop_over f hq
      refine ⟨d :: u :: pre', by simp, by simp, ?_⟩
      intro l hl
      refine ⟨by simp, ?_⟩
      cases m' with
      | nil =>
        simp only [List.getLast?_singleton, Option.some.injEq] at hl
        subst hl
        rw [hnil rfl]
        simp [lastEnd, h2]
      | cons x xs =>
        have hl' : (x :: xs).getLast? = some l := by simpa [List.getLast?_cons_cons] using hl
        obtain ⟨hne, he⟩ := hlast l hl'
        rw [show d :: u :: pre' = [d, u] ++ pre' by simp, lastEnd_append hne]
        exact he
    · cases h
      exact ⟨[], rfl, fun _ => rfl, by simp⟩

theorem parseTableExpr_over {f : Nat} {ts rest : List Token} {t : TableExpr} (h : parseTableExpr f ts = .ok (t, rest)) :
    ∃ pre, ts = pre ++ rest ∧ Over (posTable t) (endTable t) pre := by
  unfold parseTableExpr at h
  split at h
  · cases h
  · cases h
  · obtain ⟨p, hp, h2⟩ := Res.bind_eq_ok.1 h
    obtain ⟨i, r⟩ := p
    obtain ⟨q, hq, h3⟩ := Res.bind_eq_ok.1 h2
    obtain ⟨m, r'⟩ := q
    obtain ⟨t0, e1, h1, h2'⟩ := parseIdent_over hp
    obtain ⟨pp, e2, hnil, hlast⟩ := pathLoop_over f hq
    try simp only at e2
    try simp only at h3
    split at h3
    · cases h3
    · cases h3
    · obtain ⟨a, ha, h4⟩ := Res.bind_eq_ok.1 h3
      obtain ⟨a, r''⟩ := a
      obtain ⟨_, _, h5⟩ := Res.bind_eq_ok.1 h4
      try simp only at h5
      -- the run of the name or path
      have hname : Over i.namePos (endPathIds i m) (t0 :: pp) := by
        refine ⟨by simp, by simp [firstPos, h1], ?_⟩
        cases hm : m.getLast? with
        | none =>
          have : m = [] := List.getLast?_eq_none_iff.mp hm
          subst this
          rw [hnil rfl]
          simp [endPathIds, lastEnd, h2']
        | some l =>
          obtain ⟨hne, he⟩ := hlast l hm
          rw [show t0 :: pp = [t0] ++ pp by simp, lastEnd_append hne, he]
          cases m with
          | nil => simp at hm
          | cons x xs =>
            simp only [endPathIds, List.getLast?_cons_cons]
            rw [hm]; rfl
      have hts : ts = (t0 :: pp) ++ r' := by rw [e1, e2]; simp
      cases a with
      | none =>
        have hr : r'' = r' := tryParseAsAlias_none ha
        subst hr
        split at h5
        · cases h5
          exact ⟨t0 :: pp, hts, by simpa [posTable, endTable, endPathIds, lastEnd] using hname⟩
        · cases h5
          exact ⟨t0 :: pp, hts, by simpa [posTable, endTable] using hname⟩
      | some a =>
        obtain ⟨pa, hr, hoa⟩ := tryParseAsAlias_over ha
        try simp only at hr
        have hov : Over i.namePos (endAs a) ((t0 :: pp) ++ pa) := hname.append hoa
        split at h5
        · cases h5
          exact ⟨(t0 :: pp) ++ pa, by rw [hts, hr]; simp, by simpa [posTable, endTable] using hov⟩
        · cases h5
          exact ⟨(t0 :: pp) ++ pa, by rw [hts, hr]; simp, by simpa [posTable, endTable] using hov⟩
  · cases h

theorem tryParseFrom_over {f : Nat} {ts rest : List Token} {fr : From} (h : tryParseFrom f ts = .ok (some fr, rest)) :
    ∃ pre, ts = pre ++ rest ∧ Over fr.from_ (endFrom fr) pre := by
  unfold tryParseFrom at h
  split at h
  · rename_i hc
    obtain ⟨t, tl, rfl, _⟩ := qcur_ne_eof hc (by decide)
    obtain ⟨p, hp, hk⟩ := Res.bind_eq_ok.1 h
    obtain ⟨te, r⟩ := p
    cases hk
    obtain ⟨pre, hts, hov⟩ := parseTableExpr_over hp
    try simp only [List.tail_cons] at hts
    subst hts
    exact ⟨t :: pre, by simp, by simpa [endFrom] using Over.cons_left t hov⟩
  · cases h

/-! ## WHERE, HAVING -/

theorem tryParseWhere_over {len f : Nat} {ts rest : List Token} {w : Where} (hT : TokensOK len ts)
    (h : tryParseWhere f ts = .ok (some w, rest)) : ∃ pre, ts = pre ++ rest ∧ Over w.where_ (endWhere w) pre := by
  unfold tryParseWhere at h
  split at h
  · rename_i hc
    obtain ⟨t, tl, rfl, _⟩ := qcur_ne_eof hc (by decide)
    obtain ⟨p, hp, hk⟩ := Res.bind_eq_ok.1 h
    obtain ⟨e, r⟩ := p
    cases hk
    obtain ⟨pre, hts, hov⟩ := parsePExpr_over (hT.suffix (pre := [t])) hp
    try simp only [List.tail_cons] at hts
    subst hts
    exact ⟨t :: pre, by simp, by simpa [endWhere] using Over.cons_left t hov⟩
  · cases h

theorem tryParseHaving_over {len f : Nat} {ts rest : List Token} {w : Having} (hT : TokensOK len ts)
    (h : tryParseHaving f ts = .ok (some w, rest)) : ∃ pre, ts = pre ++ rest ∧ Over w.having (endHaving w) pre := by
  unfold tryParseHaving at h
  split at h
  · rename_i hc
    obtain ⟨t, tl, rfl, _⟩ := qcur_ne_eof hc (by decide)
    obtain ⟨p, hp, hk⟩ := Res.bind_eq_ok.1 h
    obtain ⟨e, r⟩ := p
    cases hk
    obtain ⟨pre, hts, hov⟩ := parsePExpr_over (hT.suffix (pre := [t])) hp
    try simp only [List.tail_cons] at hts
    subst hts
    exact ⟨t :: pre, by simp, by simpa [endHaving] using Over.cons_left t hov⟩
  · cases h

/-! ## LIMIT / OFFSET -/

theorem parseIntValue_over {len : Nat} {ts rest : List Token} {v : IntValue} (hT : TokensOK len ts)
    (h : parseIntValue ts = .ok (v, rest)) : ∃ t, ts = t :: rest ∧ posInt v = t.pos ∧ endInt v = t.end := by
  unfold parseIntValue at h
  split at h
  · rename_i hc
    obtain ⟨t, tl, rfl, ht⟩ := qcur_ne_eof hc (by decide)
    cases h
    refine ⟨t, rfl, rfl, ?_⟩
    have := (hT.head).2 (qk_param ht)
    simp [endInt, this]
  · rename_i hc
    obtain ⟨t, tl, rfl, _⟩ := qcur_ne_eof hc (by decide)
    cases h
    exact ⟨t, rfl, rfl, rfl⟩
  · cases h
  · cases h

theorem tryParseLimit_over {len : Nat} {ts rest : List Token} {l : Limit} (hT : TokensOK len ts)
    (h : tryParseLimit ts = .ok (some l, rest)) :
    ∃ pre, ts = pre ++ rest ∧ Over l.limit (endLimit l) pre ∧
      ∀ o, l.offset = some o → ∃ a b, pre = a ++ b ∧ a ≠ [] ∧ Over o.offset (endOffset o) b := by
  unfold tryParseLimit at h
  split at h
  · rename_i hc
    obtain ⟨t, tl, rfl, _⟩ := qcur_ne_eof hc (by decide)
    obtain ⟨p, hp, h⟩ := Res.bind_eq_ok.1 h
    obtain ⟨c, r⟩ := p
    obtain ⟨q, hq, h⟩ := Res.bind_eq_ok.1 h
    obtain ⟨o, r'⟩ := q
    cases h
    obtain ⟨tc, htc, _, hce⟩ := parseIntValue_over (hT.suffix (pre := [t])) hp
    try simp only [List.tail_cons] at htc
    subst htc
    unfold tryParseOffset at hq
    split at hq
    · obtain ⟨v, hv, hk⟩ := Res.bind_eq_ok.1 hq
      obtain ⟨v, r''⟩ := v
      cases hk
      cases r with
      | nil => simp [parseIntValue, qcur] at hv
      | cons k r1 =>
        obtain ⟨tv, htv, _, hve⟩ := parseIntValue_over (hT.suffix (pre := [t, tc, k])) hv
        try simp only [List.tail_cons] at htv
        subst htv
        refine ⟨[t, tc, k, tv], rfl, ⟨by simp, rfl, by simp [endLimit, endOffset, lastEnd, hve]⟩, ?_⟩
        intro o ho
        cases ho
        exact ⟨[t, tc], [k, tv], rfl, by simp, by simp, rfl, by simp [endOffset, lastEnd, hve]⟩
    · cases hq
      exact ⟨[t, tc], rfl, ⟨by simp, rfl, by simp [endLimit, lastEnd, hce]⟩, by intro o ho; cases ho⟩
  · cases h

end MF.Query

namespace MF.Query
open MF MF.Expr

/-! ## from token runs to byte facts -/

theorem tokAt_mid {l run r : List Token} {k : Nat} (hk : k < run.length) :
    tokAt (l ++ run ++ r) (l.length + k) = tokAt run k := by
  have h1 : (l ++ run ++ r).drop (l.length + k) = (run ++ r).drop k := by
    rw [List.append_assoc, List.drop_append]
    simp
  have h2 := tokAt_append_left (rest := r) hk
  unfold tokAt at h2 ⊢
  rw [h1]; exact h2

/-- a node lying over a run of lexer tokens that is followed by at least one more token (`<eof>` at the latest):
its `Pos()` is the start of a token, its `End()` the end of a token, `Pos() < End() ≤ len(input)` -/
theorem over_facts {buf : Bytes} {ts l run r : List Token} (hl : Lex.lexAll buf = .ok ts) (hts : ts = l ++ run ++ r)
    (hr : r ≠ []) {p e : Nat} (h : Over p e run) :
    (∃ t ∈ ts, t.pos = p) ∧ (∃ t ∈ ts, t.end = e) ∧ p < e ∧ e ≤ buf.length := by
  have L := lexAll_lexed hl
  obtain ⟨hne, hp, he⟩ := h
  have hlen : 0 < run.length := List.length_pos_iff.mpr hne
  have hrl : 0 < r.length := List.length_pos_iff.mpr hr
  have hA : tokAt ts (l.length + 0) = tokAt run 0 := by rw [hts]; exact tokAt_mid hlen
  have hB : tokAt ts (l.length + (run.length - 1)) = tokAt run (run.length - 1) := by
    rw [hts]; exact tokAt_mid (by omega)
  have htl : ts.length = l.length + run.length + r.length := by rw [hts]; simp; omega
  rw [firstPos_eq_tokAt hne, ← hA] at hp
  rw [lastEnd_eq_tokAt hne, ← hB] at he
  refine ⟨⟨_, tokAt_mem (by omega), hp.symm⟩, ⟨_, tokAt_mem (by omega), he.symm⟩, ?_, ?_⟩
  · rw [hp, he]; exact L.pos_lt_end (by omega) (by omega)
  · rw [he]; exact L.end_le (by omega)

/-- a child run inside a parent run: the child's span is nested in the parent's -/
theorem over_nested {buf : Bytes} {ts l a c b r : List Token} (hl : Lex.lexAll buf = .ok ts)
    (hts : ts = l ++ (a ++ c ++ b) ++ r) (hr : r ≠ []) {p e p' e' : Nat} (hp : Over p e (a ++ c ++ b)) (hc : Over p' e' c) :
    p ≤ p' ∧ e' ≤ e := by
  have L := lexAll_lexed hl
  have hcl : 0 < c.length := List.length_pos_iff.mpr hc.1
  have hrl : 0 < r.length := List.length_pos_iff.mpr hr
  have htl : ts.length = l.length + (a.length + c.length + b.length) + r.length := by rw [hts]; simp; omega
  have e1 : p = (tokAt ts (l.length + 0)).pos := by
    rw [hp.2.1, firstPos_eq_tokAt hp.1, hts, tokAt_mid (by simp; omega)]
  have e2 : e = (tokAt ts (l.length + ((a ++ c ++ b).length - 1))).end := by
    rw [hp.2.2, lastEnd_eq_tokAt hp.1, hts, tokAt_mid (by simp; omega)]
  have hts' : ts = (l ++ a) ++ c ++ (b ++ r) := by rw [hts]; simp
  have e3 : p' = (tokAt ts ((l ++ a).length + 0)).pos := by
    rw [hc.2.1, firstPos_eq_tokAt hc.1, hts', tokAt_mid hcl]
  have e4 : e' = (tokAt ts ((l ++ a).length + (c.length - 1))).end := by
    rw [hc.2.2, lastEnd_eq_tokAt hc.1, hts', tokAt_mid (by omega)]
  rw [e1, e2, e3, e4]
  simp only [List.length_append]
  exact ⟨L.pos_le_pos (by omega) (by omega), L.end_le_end (by omega) (by omega)⟩

/-- two runs in source order: the first ends before the second starts -/
theorem over_ordered {buf : Bytes} {ts l c1 m c2 r : List Token} (hl : Lex.lexAll buf = .ok ts)
    (hts : ts = l ++ c1 ++ m ++ c2 ++ r) {p1 e1 p2 e2 : Nat} (h1 : Over p1 e1 c1) (h2 : Over p2 e2 c2) : e1 ≤ p2 := by
  have L := lexAll_lexed hl
  have hc1 : 0 < c1.length := List.length_pos_iff.mpr h1.1
  have hc2 : 0 < c2.length := List.length_pos_iff.mpr h2.1
  have htl : ts.length = l.length + c1.length + m.length + c2.length + r.length := by rw [hts]; simp; omega
  have hA : ts = l ++ c1 ++ (m ++ c2 ++ r) := by rw [hts]; simp
  have hB : ts = (l ++ c1 ++ m) ++ c2 ++ r := by rw [hts]
  have a1 : e1 = (tokAt ts (l.length + (c1.length - 1))).end := by
    rw [h1.2.2, lastEnd_eq_tokAt h1.1, hA, tokAt_mid (by omega)]
  have a2 : p2 = (tokAt ts ((l ++ c1 ++ m).length + 0)).pos := by
    rw [h2.2.1, firstPos_eq_tokAt h2.1, hB, tokAt_mid hc2]
  rw [a1, a2]
  simp only [List.length_append]
  exact L.sorted _ _ (by omega) (by omega)

end MF.Query
