import MF.Model.File
import MF.Spec.LineCol
import MF.Proofs.Basic
namespace MF.File
open MF.Spec

/-- `linesAux ∘ splitLines` as a direct recursion over the text -/
def L : Bytes → Nat → List Nat
  | [], cur => [cur + 1]
  | c :: t, cur => if c == 10 then (cur + 1) :: L t (cur + 1) else L t (cur + 1)

theorem splitLines_ne_nil (b : Bytes) : splitLines b ≠ [] := by
  induction b with
  | nil => simp [splitLines]
  | cons c t ih =>
    simp only [splitLines]
    split
    · simp
    · split
      · rename_i h; exact absurd h ih
      · simp

theorem linesAux_split (b : Bytes) (cur : Nat) : linesAux (splitLines b) cur = L b cur := by
  induction b generalizing cur with
  | nil => simp [splitLines, linesAux, L]
  | cons c t ih =>
    simp only [splitLines, L]
    split
    · simp only [linesAux, List.length_nil, Nat.add_zero]
      rw [ih]
    · rename_i hc
      split
      · rename_i h; exact absurd h (splitLines_ne_nil t)
      · rename_i l ls h
        have := ih (cur + 1)
        rw [h] at this
        simp only [linesAux] at this ⊢
        rw [← this]
        simp only [List.length_cons]
        have e : cur + (l.length + 1) + 1 = cur + 1 + l.length + 1 := by omega
        rw [e]

theorem lines_eq (b : Bytes) : lines b = 0 :: L b 0 := by
  unfold lines; rw [linesAux_split]

theorem L_ne_nil (b : Bytes) (cur : Nat) : L b cur ≠ [] := by
  induction b generalizing cur with
  | nil => simp [L]
  | cons c t ih => simp only [L]; split <;> simp [ih]

/-- every entry of `L b cur` lies in `(cur, cur + |b| + 1]` -/
theorem L_bounds (b : Bytes) (cur : Nat) : ∀ x ∈ L b cur, cur < x ∧ x ≤ cur + b.length + 1 := by
  induction b generalizing cur with
  | nil => simp [L]
  | cons c t ih =>
    intro x hx
    simp only [L] at hx
    split at hx
    · rcases List.mem_cons.1 hx with h | h
      · subst h; simp
      · have := ih (cur + 1) x h; simp only [List.length_cons]; omega
    · have := ih (cur + 1) x hx; simp only [List.length_cons]; omega

/-- the list `start :: L b cur` (`start ≤ cur`) is strictly increasing and ends with `cur+|b|+1` -/
theorem L_sorted (b : Bytes) (cur : Nat) : List.Pairwise (· < ·) (L b cur) := by
  induction b generalizing cur with
  | nil => simp [L]
  | cons c t ih =>
    simp only [L]
    split
    · refine List.Pairwise.cons ?_ (ih _)
      intro x hx; exact (L_bounds t (cur + 1) x hx).1
    · exact ih _

theorem L_getLast (b : Bytes) (cur : Nat) : (L b cur).getLast (L_ne_nil b cur) = cur + b.length + 1 := by
  induction b generalizing cur with
  | nil => simp [L]
  | cons c t ih =>
    have h1 : ∀ (x : Nat) (l : List Nat) (h : l ≠ []), (x :: l).getLast (by simp) = l.getLast h := by
      intro x l h; exact List.getLast_cons h
    have e : cur + 1 + t.length + 1 = cur + (t.length + 1) + 1 := by omega
    simp only [List.length_cons]
    have key := ih (cur + 1)
    rw [e] at key
    by_cases hc : (c == 10) = true
    · have : L (c :: t) cur = (cur + 1) :: L t (cur + 1) := by simp [L, hc]
      simp only [this]
      rw [h1 _ _ (L_ne_nil t (cur + 1))]; exact key
    · have : L (c :: t) cur = L t (cur + 1) := by simp [L, hc]
      simp only [this]; exact key

/-- characterisation of the downward search: it returns the largest index below `n` whose entry is `≤ pos` -/
theorem resolveLoop_spec {ls : List Nat} {pos n i v : Nat} (hn : n ≤ ls.length) (hi : i < n)
    (hv : ls[i]? = some v) (hle : v ≤ pos)
    (hgt : ∀ j x, ls[j]? = some x → i < j → j < n → pos < x) :
    resolveLoop ls pos n = some (i, pos - v) := by
  induction n with
  | zero => omega
  | succ m ih =>
    simp only [resolveLoop]
    have hm : m < ls.length := by omega
    rw [List.getElem?_eq_getElem hm]
    simp only
    by_cases him : i = m
    · subst him
      rw [List.getElem?_eq_getElem hm] at hv
      cases hv
      simp [hle]
    · have hlt : i < m := by omega
      have := hgt m ls[m] (List.getElem?_eq_getElem hm) hlt (by omega)
      have hn' : ¬ ls[m] ≤ pos := by omega
      simp only [hn', if_false]
      exact ih (by omega) hlt (fun j x h h1 h2 => hgt j x h h1 (by omega))

theorem lineColAux_shift (b : Bytes) (n line col : Nat) :
    lineColAux b n (line + 1) col = ((lineColAux b n line col).1 + 1, (lineColAux b n line col).2) := by
  induction b generalizing n line col with
  | nil => cases n <;> simp [lineColAux]
  | cons c t ih =>
    cases n with
    | zero => simp [lineColAux]
    | succ m =>
      simp only [lineColAux]
      split
      · exact ih m (line + 1) 0
      · exact ih m line (col + 1)

/-- the core fact: in `start :: L b cur` the entry at index `line` is `pos - col`, it is `≤ pos`, and all later
entries are `> pos`, where `(line, col)` is the specification's answer -/
theorem L_locate (b : Bytes) (cur start pos : Nat) (hs : start ≤ cur) (h1 : cur ≤ pos) (h2 : pos ≤ cur + b.length) :
    (lineColAux b (pos - cur) 0 (cur - start)).2 ≤ pos ∧
    (start :: L b cur)[(lineColAux b (pos - cur) 0 (cur - start)).1]? =
        some (pos - (lineColAux b (pos - cur) 0 (cur - start)).2) ∧
    ∀ j x, (start :: L b cur)[j]? = some x → (lineColAux b (pos - cur) 0 (cur - start)).1 < j → pos < x := by
  induction b generalizing cur start pos with
  | nil =>
    simp only [List.length_nil, Nat.add_zero] at h2
    have : pos = cur := by omega
    subst this
    simp only [Nat.sub_self, lineColAux, L]
    refine ⟨by omega, by simp; omega, ?_⟩
    intro j x hx hlt
    cases j with
    | zero => omega
    | succ k =>
      cases k with
      | zero => simp at hx; omega
      | succ k' => simp at hx
  | cons c t ih =>
    by_cases hp : pos = cur
    · subst hp
      simp only [Nat.sub_self, lineColAux]
      refine ⟨by omega, by simp; omega, ?_⟩
      intro j x hx hlt
      cases j with
      | zero => omega
      | succ k =>
        simp only [List.getElem?_cons_succ] at hx
        exact (L_bounds (c :: t) pos _ (List.mem_of_getElem? hx)).1
    · have hgt : cur < pos := by omega
      have e : pos - cur = (pos - (cur + 1)) + 1 := by omega
      simp only [List.length_cons] at h2
      by_cases hc : (c == 10) = true
      · have hL : L (c :: t) cur = (cur + 1) :: L t (cur + 1) := by simp [L, hc]
        have := ih (cur + 1) (cur + 1) pos (Nat.le_refl _) (by omega) (by omega)
        simp only [Nat.sub_self] at this
        obtain ⟨ha, hb, hcc⟩ := this
        rw [e]
        simp only [lineColAux, hc, if_true]
        rw [lineColAux_shift]
        simp only [hL]
        refine ⟨ha, ?_, ?_⟩
        · simpa using hb
        · intro j x hx hlt
          cases j with
          | zero => omega
          | succ k =>
            simp only [List.getElem?_cons_succ] at hx
            exact hcc k x hx (by omega)
      · have hL : L (c :: t) cur = L t (cur + 1) := by simp [L, hc]
        have := ih (cur + 1) start pos (by omega) (by omega) (by omega)
        have e2 : cur + 1 - start = (cur - start) + 1 := by omega
        rw [e2] at this
        rw [e]
        simp only [lineColAux, hc]
        simp only [hL]
        exact this

/-- C20: for a position inside (or at the end of) the text, `ResolvePos` returns the line equal to the number
of newline bytes before it and the column equal to the distance from the start of that line. -/
theorem resolvePos_spec (buf : Bytes) (pos : Nat) (h : pos ≤ buf.length) :
    resolvePos buf pos = (((lineCol buf pos).1 : Int), ((lineCol buf pos).2 : Int)) := by
  unfold resolvePos
  have hnn : ¬ ((pos : Int) < 0) := by omega
  simp only [hnn, if_false, Int.toNat_natCast]
  have loc := L_locate buf 0 0 pos (Nat.le_refl _) (Nat.zero_le _) (by omega)
  simp only [Nat.sub_zero] at loc
  obtain ⟨ha, hb, hc⟩ := loc
  rw [lines_eq]
  have hlt : (lineCol buf pos).1 < (0 :: L buf 0).length := by
    unfold lineCol
    rcases Nat.lt_or_ge (lineColAux buf pos 0 0).1 (0 :: L buf 0).length with h | h
    · exact h
    · rw [List.getElem?_eq_none h] at hb; cases hb
  have := resolveLoop_spec (ls := 0 :: L buf 0) (pos := pos) (n := (0 :: L buf 0).length)
    (i := (lineCol buf pos).1) (Nat.le_refl _) hlt hb (by omega) (fun j x hx h1 _ => hc j x hx h1)
  rw [this]
  simp only
  congr 1
  unfold lineCol at *
  omega


theorem lines_sorted (buf : Bytes) : List.Pairwise (· < ·) (lines buf) := by
  rw [lines_eq]
  exact List.Pairwise.cons (fun x hx => (L_bounds buf 0 x hx).1) (L_sorted buf 0)

theorem lines_le (buf : Bytes) : ∀ x ∈ lines buf, x ≤ buf.length + 1 := by
  rw [lines_eq]
  intro x hx
  rcases List.mem_cons.1 hx with h | h
  · omega
  · have := (L_bounds buf 0 x h).2; omega

theorem lineBuffer?_some {buf : Bytes} {l : Nat} (h : l + 1 < (lines buf).length) :
    ∃ lb, lineBuffer? buf l = some lb := by
  unfold lineBuffer?
  simp only
  have hl : l < (lines buf).length := by omega
  rw [List.getElem?_eq_getElem hl, List.getElem?_eq_getElem h]
  simp only
  have hs := List.pairwise_iff_getElem.1 (lines_sorted buf) l (l + 1) hl h (by omega)
  have hb := lines_le buf _ (List.getElem_mem h)
  have hne : ¬ (lines buf)[l + 1] = 0 := by omega
  simp only [hne, if_false]
  exact ⟨_, slice?_of_le (by omega) (by omega)⟩

/-- the line index of an in-range position is not the last entry of `lines` -/
theorem line_lt {buf : Bytes} {pos : Nat} (h : pos ≤ buf.length) : (lineCol buf pos).1 + 1 < (lines buf).length := by
  have loc := L_locate buf 0 0 pos (Nat.le_refl _) (Nat.zero_le _) (by omega)
  simp only [Nat.sub_zero] at loc
  obtain ⟨ha, hb, hc⟩ := loc
  rw [lines_eq]
  have hlt : (lineCol buf pos).1 < (0 :: L buf 0).length := by
    unfold lineCol
    rcases Nat.lt_or_ge (lineColAux buf pos 0 0).1 (0 :: L buf 0).length with h | h
    · exact h
    · rw [List.getElem?_eq_none h] at hb; cases hb
  -- the last entry is len+1 > pos, so the located index is not the last one
  rcases Nat.lt_or_ge ((lineCol buf pos).1 + 1) (0 :: L buf 0).length with h' | h'
  · exact h'
  · exfalso
    have hidx : (lineCol buf pos).1 = (L buf 0).length := by simp at hlt h'; omega
    have hlast := L_getLast buf 0
    have hne := L_ne_nil buf 0
    have : (0 :: L buf 0)[(L buf 0).length]? = some (buf.length + 1) := by
      rw [List.getLast_eq_getElem] at hlast
      have hpos : 0 < (L buf 0).length := List.length_pos_iff.2 hne
      have e : (L buf 0).length = ((L buf 0).length - 1) + 1 := by omega
      rw [e, List.getElem?_cons_succ, List.getElem?_eq_getElem (by omega)]
      simp only [Option.some.injEq]
      rw [hlast]; omega
    unfold lineCol at hidx
    rw [hidx, this] at hb
    simp only [Option.some.injEq] at hb
    omega

theorem multiLine_some {buf : Bytes} {n l : Nat} (h : l + n < (lines buf).length) :
    ∃ s, multiLine buf n l = some s := by
  induction n generalizing l with
  | zero => exact ⟨_, rfl⟩
  | succ m ih =>
    simp only [multiLine]
    obtain ⟨lb, hlb⟩ := lineBuffer?_some (buf := buf) (l := l) (by omega)
    obtain ⟨r, hr⟩ := ih (l := l + 1) (by omega)
    rw [hlb, hr]
    exact ⟨_, rfl⟩

/-- C20: `File.Position` never panics for `0 ≤ pos ≤ end ≤ len`. -/
theorem position_total (buf : Bytes) (pos «end» : Nat) (h1 : pos ≤ «end») (h2 : «end» ≤ buf.length) :
    ∃ p, position buf pos «end» = some p ∧ p.pos = pos ∧ p.end = «end» ∧
      p.line = (lineCol buf pos).1 ∧ p.column = (lineCol buf pos).2 ∧
      p.endLine = (lineCol buf «end»).1 ∧ p.endColumn = (lineCol buf «end»).2 := by
  unfold position
  rw [resolvePos_spec buf pos (by omega), resolvePos_spec buf «end» h2]
  simp only
  have hnn : ¬ (((pos : Int) < 0) ∨ ((«end» : Int) < 0)) := by omega
  have hnn' : (decide ((pos : Int) < 0) || decide ((«end» : Int) < 0)) = false := by simp
  simp only [hnn', Bool.false_eq_true, if_false]
  have l1 := line_lt (buf := buf) (pos := pos) (by omega)
  have l2 := line_lt (buf := buf) (pos := «end») h2
  split
  · obtain ⟨lb, hlb⟩ := lineBuffer?_some (buf := buf) (l := (lineCol buf pos).1) l1
    simp only [Int.toNat_natCast, hlb]
    exact ⟨_, rfl, rfl, rfl, rfl, rfl, rfl, rfl⟩
  · split
    · rename_i hlt
      have hlt' : (lineCol buf pos).1 < (lineCol buf «end»).1 := by omega
      have e : (((lineCol buf «end»).1 : Int) - ((lineCol buf pos).1 : Int) + 1).toNat = (lineCol buf «end»).1 - (lineCol buf pos).1 + 1 := by omega
      obtain ⟨s, hs⟩ := multiLine_some (buf := buf) (n := (lineCol buf «end»).1 - (lineCol buf pos).1 + 1) (l := (lineCol buf pos).1) (by omega)
      simp only [Int.toNat_natCast, e, hs]
      exact ⟨_, rfl, rfl, rfl, rfl, rfl, rfl, rfl⟩
    · exact ⟨_, rfl, rfl, rfl, rfl, rfl, rfl, rfl⟩

end MF.File
