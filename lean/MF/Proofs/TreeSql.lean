/-
  MF.Proofs.TreeSql — `SQL()` over whole trees (C04, SQL part) and the "nothing unprinted" table (C01/C02 O1).

   * `SqlTableOK`     decidable well-formedness of the sql.go table w.r.t. the catalogue: every struct has a body, the
                      body is in the DSL (no `.missing`, no `.custom` except the hand-written ones, for the very source
                      text they were written against), every field a body mentions is declared with the class the
                      construct needs, every enum / `prec` constant named is declared (an enum constant with the type
                      of the field it is compared to), `paren(p, …)` only after `p := exprPrec(x)`, a local string only
                      after its `v := e`, an early `return` is not guarded by a local; the `exprPrec` table only
                      mentions catalogued kinds, enum-typed switch fields, and levels that are `prec` constants;
   * `SqlShaped`      decidable shape predicate on generic trees: exactly what `SQL()` needs in order not to panic;
   * `sqlOf_total`    on a well-formed table, `SQL()` of every shaped tree returns;
   * `fieldsRead`, `unread`   the fields a body mentions / the non-position fields no body mentions.

  How `SqlShaped` is organised.  The STATIC side conditions of a body (field classes, constants, bound locals) are
  `SqlBody.ok` and are checked once, on the table.  What remains depends on the tree and is computed by `SqlBody.need`
  on an evaluation context in which the children carry no `SQL()` text at all (`shapeKids`: `sql := none`), so the
  predicate does not depend on `isPrint` or on any printed text:
    - `child f`, `paren p f`                     the child is present;
    - `paren p f`                                … and `exprPrec` has a row for its kind / Op;
    - `p := exprPrec(x)`                         `exprPrec` has a row for the node itself;
    - `sqlJoin f sep`                            the elements of `f` carry the indices 0, 1, …, n-1 (no nil element);
    - `quoteIdent f`                             the name is not empty;
    - `strOpt c s`, `strIfElse c a b`, `sqlOpt l f r`   Go evaluates all arguments first: the requirements of `s`, of BOTH
                                                 `a` and `b`, of `l` and `r` hold regardless of the condition;
    - `if c { return a }; rest`                  lazy: the requirements of `a` if `c` holds, else those of `rest`;
    - hand-written bodies                        `OptionsDef`, `BracedConstructorField`: `Name` and `Value` present;
                                                 `ChangeStreamForTables`: `Tables` contiguous; `BadNode`: nothing.
  Conditions never panic on a node whose scalar fields are present (`sqlScalarOK`), which is required of every node.
-/
import MF.Model.Print
import MF.Proofs.TreePos
namespace MF.Ast

/-! ### The static check of a body against the field list of its struct -/

/-- a field whose dump is a byte string: string, string-enum, `[]byte` -/
def strLike (fs : List FieldDecl) (f : String) : Bool :=
  clsOf fs f == some .str || clsOf fs f == some .enum || clsOf fs f == some .bytes

/-- `x.F == Const`: `F` is an enum field and `Const` a declared constant of the field's Go type -/
def enumConstOK (T : SqlTables) (fs : List FieldDecl) (f k : String) : Bool :=
  match fs.find? (·.name == f), T.enumConsts.find? (·.1 == k) with
  | some fd, some e => fd.cls == .enum && fd.goType == e.2.1
  | _, _ => false

def SqlCond.ok (T : SqlTables) (fs : List FieldDecl) (ls : List String) : SqlCond → Bool
  | .strEmpty f => strLike fs f
  | .strNonEmpty f => strLike fs f
  | .lenPos f => clsOf fs f == some .nodes || clsOf fs f == some .str || clsOf fs f == some .bytes
  | .posInvalid f => clsOf fs f == some .pos
  | .bool f => clsOf fs f == some .bool
  | .isNil f => clsOf fs f == some .node
  | .notNil f => clsOf fs f == some .node
  | .enumEq f k => enumConstOK T fs f k
  | .enumNe f k => enumConstOK T fs f k
  | .localHasPrefix v _ => ls.contains v
  | .kidKindIs f _ => clsOf fs f == some .node
  | .not a => a.ok T fs ls
  | .and a b => a.ok T fs ls && b.ok T fs ls
  | .or a b => a.ok T fs ls && b.ok T fs ls

/-- the condition does not look at a local string (its value is then determined by the node alone) -/
def SqlCond.localFree : SqlCond → Bool
  | .localHasPrefix _ _ => false
  | .not a => a.localFree
  | .and a b => a.localFree && b.localFree
  | .or a b => a.localFree && b.localFree
  | _ => true

/-- `hasPrec`: we are after `p := exprPrec(x)`; `ls`: the local strings bound so far -/
def SqlE.ok (T : SqlTables) (fs : List FieldDecl) (hasPrec : Bool) (ls : List String) : SqlE → Bool
  | .lit _ => true
  | .cat a b => a.ok T fs hasPrec ls && b.ok T fs hasPrec ls
  | .child f => clsOf fs f == some .node
  | .sqlOpt l f r => l.ok T fs hasPrec ls && clsOf fs f == some .node && r.ok T fs hasPrec ls
  | .strOpt c s => c.ok T fs ls && s.ok T fs hasPrec ls
  | .strIfElse c a b => c.ok T fs ls && a.ok T fs hasPrec ls && b.ok T fs hasPrec ls
  | .sqlJoin f sep => clsOf fs f == some .nodes && sep.ok T fs hasPrec ls
  | .paren p f =>
    clsOf fs f == some .node &&
      (match p with
       | .self => hasPrec
       | .const n => (T.precConst n).isSome)
  | .enumStr f => clsOf fs f == some .enum
  | .strField f => clsOf fs f == some .str
  | .quoteIdent f => clsOf fs f == some .str
  | .quoteString f => clsOf fs f == some .str
  | .quoteBytes f => clsOf fs f == some .bytes
  | .boolUpper f => clsOf fs f == some .bool
  | .local v => ls.contains v
  | .spaceAfterInt e => e.ok T fs hasPrec ls

/-- the hand-written bodies: exactly the (name, source text) pairs `customSql` implements, and the fields they read
    have the class they are read at (`OptionsDef` also reads `Value` of a `BoolLiteral` child as a bool) -/
def customOK (T : SqlTables) (fs : List FieldDecl) (name src : String) : Bool :=
  if name == "BadNode" && src == srcBadNode then clsOf fs "Tokens" == some .toks
  else if name == "BadNode" && src == srcBadNodeC then clsOf fs "Tokens" == some .toks
  else if name == "OptionsDef" && src == srcOptionsDef then
    clsOf fs "Name" == some .node && clsOf fs "Value" == some .node &&
      clsOf (T.fieldsOf "BoolLiteral") "Value" == some .bool
  else if name == "BracedConstructorField" && src == srcBracedConstructorField then
    clsOf fs "Name" == some .node && clsOf fs "Value" == some .node
  else if name == "ChangeStreamForTables" && src == srcChangeStreamForTables then
    clsOf fs "Tables" == some .nodes
  else false

def SqlBody.ok (T : SqlTables) (fs : List FieldDecl) : Bool → List String → SqlBody → Bool
  | hp, ls, .ret e => e.ok T fs hp ls
  | _, ls, .letPrec rest => rest.ok T fs true ls
  | hp, ls, .letStr v e rest => e.ok T fs hp ls && rest.ok T fs hp (v :: ls)
  | hp, ls, .ifRet c a rest => c.ok T fs ls && c.localFree && a.ok T fs hp ls && rest.ok T fs hp ls
  | _, _, .custom name src => customOK T fs name src
  | _, _, .missing => false

/-- one catalogue entry has a body, and the body fits the struct -/
def SqlTables.kindOK (T : SqlTables) (d : KindDecl) : Bool :=
  match T.bodies.lookup d.name with
  | some b => b.ok T (T.fieldsOf d.name) false []
  | none => false

/-- the `exprPrec` table fits the catalogue: the inner switches are over enum fields of catalogued kinds; every row
    is for a catalogued kind, has an Op value only if the kind has an inner switch, and its level is one of the
    `prec` constants -/
def SqlTables.precOK (T : SqlTables) : Bool :=
  T.exprPrecSwitch.all (fun kf => clsOf (T.fieldsOf kf.1) kf.2 == some .enum) &&
  T.exprPrec.all (fun r =>
    T.kinds.any (·.name == r.1) &&
    (r.2.1.isNone || (T.exprPrecSwitch.lookup r.1).isSome) &&
    decide (r.2.2 < T.precConsts.length))

/-- decidable well-formedness of the sql.go table w.r.t. the catalogue -/
def SqlTableOK (T : SqlTables) : Bool := T.kinds.all T.kindOK && T.precOK

/-! ### The tree-dependent requirements -/

/-- every declared scalar field is present with the constructor of its class -/
def sqlScalarOK (sc : List (String × Scalar)) (fd : FieldDecl) : Bool :=
  match fd.cls with
  | .pos => match sc.lookup fd.name with | some (.pos _) => true | _ => false
  | .bool => match sc.lookup fd.name with | some (.bool _) => true | _ => false
  | .int => match sc.lookup fd.name with | some (.int _) => true | _ => false
  | .str => match sc.lookup fd.name with | some (.str _) => true | _ => false
  | .enum => match sc.lookup fd.name with | some (.str _) => true | _ => false
  | .bytes => match sc.lookup fd.name with | some (.str _) => true | _ => false
  | .toks => match sc.lookup fd.name with | some (.toks _) => true | _ => false
  | _ => true

/-- the single child `f` is not nil -/
def SqlCtx.present (c : SqlCtx) (f : String) : Bool :=
  match c.single f with
  | some (some _) => true
  | _ => false

/-- the elements of the slice `f` are all non-nil -/
def SqlCtx.contig (c : SqlCtx) (f : String) : Bool :=
  match c.slice f with
  | some ks => contiguous 0 ks
  | none => false

def SqlE.need (T : SqlTables) (c : SqlCtx) : SqlE → Bool
  | .lit _ => true
  | .cat a b => a.need T c && b.need T c
  | .child f => c.present f
  | .sqlOpt l _ r => l.need T c && r.need T c
  | .strOpt _ s => s.need T c
  | .strIfElse _ a b => a.need T c && b.need T c
  | .sqlJoin f sep => sep.need T c && c.contig f
  | .paren _ f =>
    match c.single f with
    | some (some k) => (T.exprPrecOf k.kind k.scalars).isSome
    | _ => false
  | .quoteIdent f =>
    match c.str f with
    | some s => !s.isEmpty
    | none => false
  | .spaceAfterInt e => e.need T c
  | _ => true

def customNeed (c : SqlCtx) (name src : String) : Bool :=
  if name == "BadNode" && src == srcBadNode then true
  else if name == "BadNode" && src == srcBadNodeC then true
  else if name == "OptionsDef" && src == srcOptionsDef then c.present "Name" && c.present "Value"
  else if name == "BracedConstructorField" && src == srcBracedConstructorField then
    c.present "Name" && c.present "Value"
  else if name == "ChangeStreamForTables" && src == srcChangeStreamForTables then c.contig "Tables"
  else false

def SqlBody.need (T : SqlTables) (c : SqlCtx) : SqlBody → Bool
  | .ret e => e.need T c
  | .letPrec rest => (T.exprPrecOf c.kind c.scalars).isSome && rest.need T c
  | .letStr _ e rest => e.need T c && rest.need T c
  | .ifRet cd a rest =>
    match cd.eval T c with
    | some true => a.need T c
    | some false => rest.need T c
    | none => false
  | .custom name src => customNeed c name src
  | .missing => false

/-- the children as the parent sees them, without any `SQL()` text -/
def shapeKids : Kids → List KidV
  | .nil => []
  | .cons f i n r => ⟨f, i, n.kind, n.scalars, none⟩ :: shapeKids r

/-- the context `need` is evaluated in -/
def shapeCtx (T : SqlTables) (k : String) (sc : List (String × Scalar)) (kids : Kids) : SqlCtx :=
  ⟨k, sc, shapeKids kids, T.fieldsOf k, none, []⟩

mutual
  def Node.sqlShaped (T : SqlTables) : Node → Bool
    | .mk k sc kids =>
      T.kinds.any (·.name == k) && (T.fieldsOf k).all (sqlScalarOK sc) &&
        (match T.bodies.lookup k with
         | some b => b.need T (shapeCtx T k sc kids)
         | none => false) &&
        kids.sqlShaped T
  def Kids.sqlShaped (T : SqlTables) : Kids → Bool
    | .nil => true
    | .cons _ _ n r => n.sqlShaped T && r.sqlShaped T
end

/-- what a tree must satisfy for `SQL()` not to panic (see the header) -/
def SqlShaped (T : SqlTables) (n : Node) : Prop := n.sqlShaped T = true

instance (T : SqlTables) (n : Node) : Decidable (SqlShaped T n) := inferInstanceAs (Decidable (_ = true))

/-! ### Scalars -/

theorem scalars_str {fs : List FieldDecl} {sc : List (String × Scalar)} (h : fs.all (sqlScalarOK sc) = true)
    {f : String} (hc : strLike fs f = true) : ∃ s, sc.lookup f = some (.str s) := by
  have key : (match sc.lookup f with | some (.str _) => true | _ => false) = true := by
    simp only [strLike, Bool.or_eq_true, beq_iff_eq] at hc
    rcases hc with (hc | hc) | hc
    · obtain ⟨fd, hm, hn, hcl⟩ := clsOf_some hc
      have := List.all_eq_true.mp h fd hm
      simpa only [sqlScalarOK, hcl, hn] using this
    · obtain ⟨fd, hm, hn, hcl⟩ := clsOf_some hc
      have := List.all_eq_true.mp h fd hm
      simpa only [sqlScalarOK, hcl, hn] using this
    · obtain ⟨fd, hm, hn, hcl⟩ := clsOf_some hc
      have := List.all_eq_true.mp h fd hm
      simpa only [sqlScalarOK, hcl, hn] using this
  split at key
  · rename_i s hl; exact ⟨s, hl⟩
  · cases key

theorem scalars_bool {fs : List FieldDecl} {sc : List (String × Scalar)} (h : fs.all (sqlScalarOK sc) = true)
    {f : String} (hc : clsOf fs f = some .bool) : ∃ b, sc.lookup f = some (.bool b) := by
  obtain ⟨fd, hm, hn, hcl⟩ := clsOf_some hc
  have := List.all_eq_true.mp h fd hm
  simp only [sqlScalarOK, hcl, hn] at this
  split at this
  · rename_i b hl; exact ⟨b, hl⟩
  · cases this

theorem scalars_pos {fs : List FieldDecl} {sc : List (String × Scalar)} (h : fs.all (sqlScalarOK sc) = true)
    {f : String} (hc : clsOf fs f = some .pos) : ∃ p, sc.lookup f = some (.pos p) := by
  obtain ⟨fd, hm, hn, hcl⟩ := clsOf_some hc
  have := List.all_eq_true.mp h fd hm
  simp only [sqlScalarOK, hcl, hn] at this
  split at this
  · rename_i b hl; exact ⟨b, hl⟩
  · cases this

theorem scalars_toks {fs : List FieldDecl} {sc : List (String × Scalar)} (h : fs.all (sqlScalarOK sc) = true)
    {f : String} (hc : clsOf fs f = some .toks) : ∃ ts, sc.lookup f = some (.toks ts) := by
  obtain ⟨fd, hm, hn, hcl⟩ := clsOf_some hc
  have := List.all_eq_true.mp h fd hm
  simp only [sqlScalarOK, hcl, hn] at this
  split at this
  · rename_i b hl; exact ⟨b, hl⟩
  · cases this

/-- the scalars of the context have the declared shape -/
def SqlCtxOK (c : SqlCtx) : Prop := c.fields.all (sqlScalarOK c.scalars) = true

theorem SqlCtx.cls_eq (c : SqlCtx) (f : String) : c.cls f = clsOf c.fields f := rfl

theorem SqlCtxOK.str {c : SqlCtx} (hc : SqlCtxOK c) {f : String} (h : strLike c.fields f = true) :
    ∃ s, c.str f = some s := by
  obtain ⟨s, hs⟩ := scalars_str hc h
  exact ⟨s, by simp only [SqlCtx.str, hs]⟩

theorem SqlCtxOK.boolF {c : SqlCtx} (hc : SqlCtxOK c) {f : String} (h : clsOf c.fields f = some .bool) :
    ∃ b, c.boolF f = some b := by
  obtain ⟨s, hs⟩ := scalars_bool hc h
  exact ⟨s, by simp only [SqlCtx.boolF, hs]⟩

theorem SqlCtxOK.posF {c : SqlCtx} (hc : SqlCtxOK c) {f : String} (h : clsOf c.fields f = some .pos) :
    ∃ b, c.posF f = some b := by
  obtain ⟨s, hs⟩ := scalars_pos hc h
  exact ⟨s, by simp only [SqlCtx.posF, hs]⟩

theorem strLike_of_str {fs : List FieldDecl} {f : String} (h : clsOf fs f = some .str) : strLike fs f = true := by
  simp [strLike, h]
theorem strLike_of_enum {fs : List FieldDecl} {f : String} (h : clsOf fs f = some .enum) : strLike fs f = true := by
  simp [strLike, h]
theorem strLike_of_bytes {fs : List FieldDecl} {f : String} (h : clsOf fs f = some .bytes) : strLike fs f = true := by
  simp [strLike, h]

theorem enumConstOK_spec {T : SqlTables} {fs : List FieldDecl} {f k : String} (h : enumConstOK T fs f k = true) :
    clsOf fs f = some .enum ∧ ∃ v, T.enumVal k = some v := by
  unfold enumConstOK at h
  split at h
  · rename_i fd e hf he
    simp only [Bool.and_eq_true, beq_iff_eq] at h
    exact ⟨by simp [clsOf, hf, h.1], by simp [SqlTables.enumVal, he]⟩
  · cases h

/-! ### Erasing the `SQL()` text of the children -/

def KidV.erase (k : KidV) : KidV := { k with sql := none }

/-- the context `need` sees: no child text, no locals, no `p` -/
def SqlCtx.erase (c : SqlCtx) : SqlCtx := ⟨c.kind, c.scalars, c.kids.map KidV.erase, c.fields, none, []⟩

theorem erase_single (c : SqlCtx) (f : String) :
    c.erase.single f = (c.single f).map (fun o => o.map KidV.erase) := by
  unfold SqlCtx.single
  have h : c.erase.cls f = c.cls f := rfl
  rw [h]
  split
  · simp only [Option.map_some, SqlCtx.erase, List.find?_map]
    rfl
  · rfl

theorem erase_slice (c : SqlCtx) (f : String) :
    c.erase.slice f = (c.slice f).map (fun l => l.map KidV.erase) := by
  unfold SqlCtx.slice
  have h : c.erase.cls f = c.cls f := rfl
  rw [h]
  split
  · simp only [Option.map_some, SqlCtx.erase, List.filter_map]
    rfl
  · rfl

theorem contiguous_erase : ∀ (ks : List KidV) (i : Nat), contiguous i (ks.map KidV.erase) = contiguous i ks
  | [], _ => rfl
  | k :: ks, i => by
    simp only [List.map_cons, contiguous, contiguous_erase ks (i + 1)]
    rfl

theorem erase_present {c : SqlCtx} {f : String} (h : c.erase.present f = true) :
    ∃ k, c.single f = some (some k) := by
  unfold SqlCtx.present at h
  rw [erase_single] at h
  cases hs : c.single f with
  | none => simp [hs] at h
  | some o =>
    cases o with
    | none => simp [hs] at h
    | some k => exact ⟨k, rfl⟩

theorem erase_contig {c : SqlCtx} {f : String} (h : c.erase.contig f = true) :
    ∃ ks, c.slice f = some ks ∧ contiguous 0 ks = true := by
  unfold SqlCtx.contig at h
  rw [erase_slice] at h
  cases hs : c.slice f with
  | none => simp [hs] at h
  | some ks =>
    simp only [hs, Option.map_some, contiguous_erase] at h
    exact ⟨ks, rfl, h⟩

theorem single_mem {c : SqlCtx} {f : String} {k : KidV} (h : c.single f = some (some k)) : k ∈ c.kids := by
  unfold SqlCtx.single at h
  split at h
  · simp only [Option.some.injEq] at h
    exact List.mem_of_find?_eq_some h
  · cases h

theorem slice_mem {c : SqlCtx} {f : String} {ks : List KidV} (h : c.slice f = some ks) : ∀ k ∈ ks, k ∈ c.kids := by
  unfold SqlCtx.slice at h
  split at h
  · simp only [Option.some.injEq] at h
    subst h
    intro k hk
    exact (List.mem_filter.mp hk).1
  · cases h

/-- a condition that does not read a local has the same value without the children's text -/
theorem cond_erase (T : SqlTables) (c : SqlCtx) : ∀ (cd : SqlCond), cd.localFree = true → cd.eval T c.erase = cd.eval T c
  | .strEmpty _, _ => rfl
  | .strNonEmpty _, _ => rfl
  | .lenPos f, _ => by
    simp only [SqlCond.eval]
    have h : c.erase.cls f = c.cls f := rfl
    have h2 : c.erase.str f = c.str f := rfl
    rw [h, h2, erase_slice]
    cases c.slice f with
    | none => rfl
    | some ks => cases ks <;> rfl
  | .posInvalid _, _ => rfl
  | .bool _, _ => rfl
  | .isNil f, _ => by
    simp only [SqlCond.eval, erase_single]
    cases c.single f with
    | none => rfl
    | some o => cases o <;> rfl
  | .notNil f, _ => by
    simp only [SqlCond.eval, erase_single]
    cases c.single f with
    | none => rfl
    | some o => cases o <;> rfl
  | .enumEq _ _, _ => rfl
  | .enumNe _ _, _ => rfl
  | .localHasPrefix _ _, h => by simp [SqlCond.localFree] at h
  | .kidKindIs f k, _ => by
    simp only [SqlCond.eval, erase_single]
    cases c.single f with
    | none => rfl
    | some o => cases o <;> rfl
  | .not a, h => by
    simp only [SqlCond.localFree] at h
    simp only [SqlCond.eval, cond_erase T c a h]
  | .and a b, h => by
    simp only [SqlCond.localFree, Bool.and_eq_true] at h
    simp only [SqlCond.eval, cond_erase T c a h.1, cond_erase T c b h.2]
  | .or a b, h => by
    simp only [SqlCond.localFree, Bool.and_eq_true] at h
    simp only [SqlCond.eval, cond_erase T c a h.1, cond_erase T c b h.2]

/-! ### Conditions never panic on a node that carries its scalars -/

theorem SqlCond.eval_total {T : SqlTables} {c : SqlCtx} (hc : SqlCtxOK c) {ls : List String}
    (hL : ∀ v ∈ ls, ∃ s, c.locals.lookup v = some s) :
    ∀ (cd : SqlCond), cd.ok T c.fields ls = true → ∃ b, cd.eval T c = some b
  | .strEmpty f, h => by
    obtain ⟨s, hs⟩ := hc.str h
    simp only [SqlCond.eval, hs, Option.map_some]; exact ⟨_, rfl⟩
  | .strNonEmpty f, h => by
    obtain ⟨s, hs⟩ := hc.str h
    simp only [SqlCond.eval, hs, Option.map_some]; exact ⟨_, rfl⟩
  | .lenPos f, h => by
    simp only [SqlCond.ok, Bool.or_eq_true, beq_iff_eq] at h
    rcases h with (h | h) | h
    · simp only [SqlCond.eval, SqlCtx.cls_eq, h, SqlCtx.slice, beq_self_eq_true, if_true, Option.map_some]; exact ⟨_, rfl⟩
    · obtain ⟨s, hs⟩ := hc.str (strLike_of_str h)
      simp only [SqlCond.eval, SqlCtx.cls_eq, h, hs, Option.map_some]; exact ⟨_, rfl⟩
    · obtain ⟨s, hs⟩ := hc.str (strLike_of_bytes h)
      simp only [SqlCond.eval, SqlCtx.cls_eq, h, hs, Option.map_some]; exact ⟨_, rfl⟩
  | .posInvalid f, h => by
    simp only [SqlCond.ok, beq_iff_eq] at h
    obtain ⟨p, hp⟩ := hc.posF h
    simp only [SqlCond.eval, hp, Option.map_some]; exact ⟨_, rfl⟩
  | .bool f, h => by
    simp only [SqlCond.ok, beq_iff_eq] at h
    exact hc.boolF h
  | .isNil f, h => by
    simp only [SqlCond.ok, beq_iff_eq] at h
    simp only [SqlCond.eval, SqlCtx.single, SqlCtx.cls_eq, h, beq_self_eq_true, if_true, Option.map_some]; exact ⟨_, rfl⟩
  | .notNil f, h => by
    simp only [SqlCond.ok, beq_iff_eq] at h
    simp only [SqlCond.eval, SqlCtx.single, SqlCtx.cls_eq, h, beq_self_eq_true, if_true, Option.map_some]; exact ⟨_, rfl⟩
  | .kidKindIs f k, h => by
    simp only [SqlCond.ok, beq_iff_eq] at h
    simp only [SqlCond.eval, SqlCtx.single, SqlCtx.cls_eq, h, beq_self_eq_true, if_true, Option.map_some]; exact ⟨_, rfl⟩
  | .enumEq f k, h => by
    obtain ⟨he, v, hv⟩ := enumConstOK_spec h
    obtain ⟨s, hs⟩ := hc.str (strLike_of_enum he)
    simp only [SqlCond.eval, hs, hv]; exact ⟨_, rfl⟩
  | .enumNe f k, h => by
    obtain ⟨he, v, hv⟩ := enumConstOK_spec h
    obtain ⟨s, hs⟩ := hc.str (strLike_of_enum he)
    simp only [SqlCond.eval, hs, hv]; exact ⟨_, rfl⟩
  | .localHasPrefix v l, h => by
    simp only [SqlCond.ok, List.contains_iff_mem] at h
    obtain ⟨s, hs⟩ := hL v h
    simp only [SqlCond.eval, hs, Option.map_some]; exact ⟨_, rfl⟩
  | .not a, h => by
    simp only [SqlCond.ok] at h
    obtain ⟨x, hx⟩ := SqlCond.eval_total hc hL a h
    simp only [SqlCond.eval, hx, Option.map_some]; exact ⟨_, rfl⟩
  | .and a b, h => by
    simp only [SqlCond.ok, Bool.and_eq_true] at h
    obtain ⟨x, hx⟩ := SqlCond.eval_total hc hL a h.1
    obtain ⟨y, hy⟩ := SqlCond.eval_total hc hL b h.2
    simp only [SqlCond.eval, hx, hy]; exact ⟨_, rfl⟩
  | .or a b, h => by
    simp only [SqlCond.ok, Bool.and_eq_true] at h
    obtain ⟨x, hx⟩ := SqlCond.eval_total hc hL a h.1
    obtain ⟨y, hy⟩ := SqlCond.eval_total hc hL b h.2
    simp only [SqlCond.eval, hx, hy]; exact ⟨_, rfl⟩

/-! ### Expressions -/

/-- what the parent knows about its children: each has printed, and carries its scalars -/
def KidsGood (T : SqlTables) (l : List KidV) : Prop :=
  ∀ k ∈ l, (∃ s, k.sql = some s) ∧ (T.fieldsOf k.kind).all (sqlScalarOK k.scalars) = true

theorem allSome_total : ∀ (l : List (Option Bytes)), (∀ o ∈ l, ∃ s, o = some s) → ∃ r, allSome l = some r
  | [], _ => ⟨[], rfl⟩
  | o :: l, h => by
    obtain ⟨s, hs⟩ := h o (List.mem_cons_self ..)
    obtain ⟨r, hr⟩ := allSome_total l (fun o ho => h o (List.mem_cons_of_mem _ ho))
    subst hs
    exact ⟨s :: r, by simp only [allSome, hr, Option.map_some]⟩

theorem join_total {T : SqlTables} {c : SqlCtx} (hK : KidsGood T c.kids) {f : String} {ks : List KidV}
    (hs : c.slice f = some ks) : ∃ r, allSome (ks.map (·.sql)) = some r := by
  apply allSome_total
  intro o ho
  obtain ⟨k, hk, rfl⟩ := List.mem_map.mp ho
  exact (hK k (slice_mem hs k hk)).1

theorem quoteIdent_total (isPrint : Nat → Bool) (s : Bytes) (h : s.isEmpty = false) :
    ∃ r, Quote.quoteIdent isPrint s = some r := by
  cases s with
  | nil => cases h
  | cons a s =>
    have : ∃ b, Quote.needQuoteIdent (a :: s) = some b := by
      unfold Quote.needQuoteIdent
      split
      · exact ⟨_, rfl⟩
      · exact ⟨_, rfl⟩
    obtain ⟨b, hb⟩ := this
    unfold Quote.quoteIdent
    rw [hb]
    cases b <;> exact ⟨_, rfl⟩

theorem SqlE.eval_total {T : SqlTables} (isPrint : Nat → Bool) {c : SqlCtx} (hc : SqlCtxOK c)
    (hK : KidsGood T c.kids) {hp : Bool} {ls : List String} (hP : hp = true → ∃ p, c.selfPrec = some p)
    (hL : ∀ v ∈ ls, ∃ s, c.locals.lookup v = some s) :
    ∀ (e : SqlE), e.ok T c.fields hp ls = true → e.need T c.erase = true → ∃ s, e.eval T isPrint c = some s
  | .lit s, _, _ => ⟨_, rfl⟩
  | .cat a b, h, hn => by
    simp only [SqlE.ok, Bool.and_eq_true] at h
    simp only [SqlE.need, Bool.and_eq_true] at hn
    obtain ⟨x, hx⟩ := SqlE.eval_total isPrint hc hK hP hL a h.1 hn.1
    obtain ⟨y, hy⟩ := SqlE.eval_total isPrint hc hK hP hL b h.2 hn.2
    simp only [SqlE.eval, hx, hy]; exact ⟨_, rfl⟩
  | .child f, _, hn => by
    simp only [SqlE.need] at hn
    obtain ⟨k, hk⟩ := erase_present hn
    obtain ⟨s, hs⟩ := (hK k (single_mem hk)).1
    simp only [SqlE.eval, hk, hs]; exact ⟨_, rfl⟩
  | .sqlOpt l f r, h, hn => by
    simp only [SqlE.ok, Bool.and_eq_true, beq_iff_eq] at h
    simp only [SqlE.need, Bool.and_eq_true] at hn
    obtain ⟨x, hx⟩ := SqlE.eval_total isPrint hc hK hP hL l h.1.1 hn.1
    obtain ⟨y, hy⟩ := SqlE.eval_total isPrint hc hK hP hL r h.2 hn.2
    cases hs : c.single f with
    | none => simp [SqlCtx.single, SqlCtx.cls_eq, h.1.2] at hs
    | some o =>
      cases o with
      | none => simp only [SqlE.eval, hx, hy, hs]; exact ⟨_, rfl⟩
      | some k =>
        obtain ⟨s, hks⟩ := (hK k (single_mem hs)).1
        simp only [SqlE.eval, hx, hy, hs, hks, Option.map_some]; exact ⟨_, rfl⟩
  | .strOpt cd s, h, hn => by
    simp only [SqlE.ok, Bool.and_eq_true] at h
    simp only [SqlE.need] at hn
    obtain ⟨b, hb⟩ := SqlCond.eval_total hc hL cd h.1
    obtain ⟨x, hx⟩ := SqlE.eval_total isPrint hc hK hP hL s h.2 hn
    simp only [SqlE.eval, hb, hx]; exact ⟨_, rfl⟩
  | .strIfElse cd a b, h, hn => by
    simp only [SqlE.ok, Bool.and_eq_true] at h
    simp only [SqlE.need, Bool.and_eq_true] at hn
    obtain ⟨t, ht⟩ := SqlCond.eval_total hc hL cd h.1.1
    obtain ⟨x, hx⟩ := SqlE.eval_total isPrint hc hK hP hL a h.1.2 hn.1
    obtain ⟨y, hy⟩ := SqlE.eval_total isPrint hc hK hP hL b h.2 hn.2
    simp only [SqlE.eval, ht, hx, hy]; exact ⟨_, rfl⟩
  | .sqlJoin f sep, h, hn => by
    simp only [SqlE.ok, Bool.and_eq_true] at h
    simp only [SqlE.need, Bool.and_eq_true] at hn
    obtain ⟨sp, hsp⟩ := SqlE.eval_total isPrint hc hK hP hL sep h.2 hn.1
    obtain ⟨ks, hks, hcont⟩ := erase_contig hn.2
    obtain ⟨r, hr⟩ := join_total hK hks
    simp only [SqlE.eval, hsp, hks, hcont, if_true, hr, Option.map_some]; exact ⟨_, rfl⟩
  | .paren p f, h, hn => by
    simp only [SqlE.ok, Bool.and_eq_true] at h
    simp only [SqlE.need, erase_single] at hn
    cases hs : c.single f with
    | none => simp [hs] at hn
    | some o =>
      cases o with
      | none => simp [hs] at hn
      | some k =>
        simp only [hs, Option.map_some, KidV.erase, Option.isSome_iff_exists] at hn
        obtain ⟨ep, hep⟩ := hn
        obtain ⟨s, hks⟩ := (hK k (single_mem hs)).1
        cases p with
        | self =>
          have h2 : hp = true := h.2
          obtain ⟨pn, hpn⟩ := hP h2
          simp only [SqlE.eval, hpn, parenSql, hs, hep, hks]; exact ⟨_, rfl⟩
        | const n =>
          have h2 : (T.precConst n).isSome = true := h.2
          obtain ⟨pn, hpn⟩ := Option.isSome_iff_exists.mp h2
          simp only [SqlE.eval, hpn, parenSql, hs, hep, hks]; exact ⟨_, rfl⟩
  | .enumStr f, h, _ => by
    simp only [SqlE.ok, beq_iff_eq] at h
    obtain ⟨s, hs⟩ := hc.str (strLike_of_enum h)
    simp only [SqlE.eval, SqlCtx.cls_eq, h, beq_self_eq_true, if_true, hs]; exact ⟨_, rfl⟩
  | .strField f, h, _ => by
    simp only [SqlE.ok, beq_iff_eq] at h
    obtain ⟨s, hs⟩ := hc.str (strLike_of_str h)
    simp only [SqlE.eval, SqlCtx.cls_eq, h, beq_self_eq_true, if_true, hs]; exact ⟨_, rfl⟩
  | .quoteIdent f, h, hn => by
    simp only [SqlE.ok, beq_iff_eq] at h
    obtain ⟨s, hs⟩ := hc.str (strLike_of_str h)
    have hs' : c.erase.str f = some s := hs
    simp only [SqlE.need, hs', Bool.not_eq_true'] at hn
    obtain ⟨r, hr⟩ := quoteIdent_total isPrint s hn
    simp only [SqlE.eval, SqlCtx.cls_eq, h, beq_self_eq_true, if_true, hs, Option.bind_some, hr]; exact ⟨_, rfl⟩
  | .quoteString f, h, _ => by
    simp only [SqlE.ok, beq_iff_eq] at h
    obtain ⟨s, hs⟩ := hc.str (strLike_of_str h)
    simp only [SqlE.eval, SqlCtx.cls_eq, h, beq_self_eq_true, if_true, hs, Option.map_some]; exact ⟨_, rfl⟩
  | .quoteBytes f, h, _ => by
    simp only [SqlE.ok, beq_iff_eq] at h
    obtain ⟨s, hs⟩ := hc.str (strLike_of_bytes h)
    simp only [SqlE.eval, SqlCtx.cls_eq, h, beq_self_eq_true, if_true, hs, Option.map_some]; exact ⟨_, rfl⟩
  | .boolUpper f, h, _ => by
    simp only [SqlE.ok, beq_iff_eq] at h
    obtain ⟨b, hb⟩ := hc.boolF h
    simp only [SqlE.eval, hb, Option.map_some]; exact ⟨_, rfl⟩
  | .local v, h, _ => by
    simp only [SqlE.ok, List.contains_iff_mem] at h
    exact hL v h
  | .spaceAfterInt e, h, hn => by
    simp only [SqlE.ok] at h
    simp only [SqlE.need] at hn
    obtain ⟨x, hx⟩ := SqlE.eval_total isPrint hc hK hP hL e h hn
    simp only [SqlE.eval, hx, Option.map_some]; exact ⟨_, rfl⟩

/-! ### The hand-written bodies -/

theorem customSql_total {T : SqlTables} {c : SqlCtx} (hc : SqlCtxOK c) (hK : KidsGood T c.kids) (name src : String)
    (h : customOK T c.fields name src = true) (hn : customNeed c.erase name src = true) :
    ∃ s, customSql c name src = some s := by
  unfold customOK at h
  unfold customNeed at hn
  unfold customSql
  by_cases h1 : (name == "BadNode" && src == srcBadNode) = true
  · simp only [h1, if_true, beq_iff_eq] at h ⊢
    obtain ⟨ts, hts⟩ := scalars_toks hc h
    simp only [hts]; exact ⟨_, rfl⟩
  simp only [h1, Bool.false_eq_true, if_false] at h hn ⊢
  by_cases h2 : (name == "BadNode" && src == srcBadNodeC) = true
  · simp only [h2, if_true, beq_iff_eq] at h ⊢
    obtain ⟨ts, hts⟩ := scalars_toks hc h
    simp only [hts]; exact ⟨_, rfl⟩
  simp only [h2, Bool.false_eq_true, if_false] at h hn ⊢
  by_cases h3 : (name == "OptionsDef" && src == srcOptionsDef) = true
  · simp only [h3, if_true, Bool.and_eq_true, beq_iff_eq] at h hn ⊢
    obtain ⟨kn, hkn⟩ := erase_present hn.1
    obtain ⟨kv, hkv⟩ := erase_present hn.2
    obtain ⟨sn, hsn⟩ := (hK kn (single_mem hkn)).1
    obtain ⟨⟨sv, hsv⟩, hvsc⟩ := hK kv (single_mem hkv)
    simp only [hkn, hkv, hsv]
    by_cases hnull : kv.kind = "NullLiteral"
    · rw [if_pos hnull]
      simp only [hsn, Option.map_some]; exact ⟨_, rfl⟩
    · rw [if_neg hnull]
      by_cases hbool : kv.kind = "BoolLiteral"
      · rw [if_pos hbool]
        rw [hbool] at hvsc
        obtain ⟨b, hb⟩ := scalars_bool hvsc h.2
        simp only [hb, hsn, Option.map_some]; exact ⟨_, rfl⟩
      · rw [if_neg hbool]
        simp only [hsn, Option.map_some]; exact ⟨_, rfl⟩
  simp only [h3, Bool.false_eq_true, if_false] at h hn ⊢
  by_cases h4 : (name == "BracedConstructorField" && src == srcBracedConstructorField) = true
  · simp only [h4, if_true, Bool.and_eq_true, beq_iff_eq] at h hn ⊢
    obtain ⟨kn, hkn⟩ := erase_present hn.1
    obtain ⟨kv, hkv⟩ := erase_present hn.2
    obtain ⟨sn, hsn⟩ := (hK kn (single_mem hkn)).1
    obtain ⟨sv, hsv⟩ := (hK kv (single_mem hkv)).1
    simp only [hkn, hkv, hsn, hsv]; exact ⟨_, rfl⟩
  simp only [h4, Bool.false_eq_true, if_false] at h hn ⊢
  by_cases h5 : (name == "ChangeStreamForTables" && src == srcChangeStreamForTables) = true
  · simp only [h5, if_true] at h hn ⊢
    obtain ⟨ks, hks, hcont⟩ := erase_contig hn
    obtain ⟨r, hr⟩ := join_total hK hks
    simp only [hks, hcont, if_true, hr, Option.map_some]; exact ⟨_, rfl⟩
  simp only [h5, Bool.false_eq_true, if_false] at h

/-! ### Bodies -/

theorem SqlBody.eval_total {T : SqlTables} {isPrint : Nat → Bool} :
    ∀ (b : SqlBody) (c : SqlCtx) (hp : Bool) (ls : List String), SqlCtxOK c → KidsGood T c.kids →
      (hp = true → ∃ p, c.selfPrec = some p) → (∀ v ∈ ls, ∃ s, c.locals.lookup v = some s) →
      b.ok T c.fields hp ls = true → b.need T c.erase = true → ∃ s, b.eval T isPrint c = some s
  | .ret e, c, hp, ls, hc, hK, hP, hL, h, hn => by
    simp only [SqlBody.ok] at h
    simp only [SqlBody.need] at hn
    simp only [SqlBody.eval]
    exact SqlE.eval_total isPrint hc hK hP hL e h hn
  | .letPrec rest, c, hp, ls, hc, hK, hP, hL, h, hn => by
    simp only [SqlBody.ok] at h
    simp only [SqlBody.need, Bool.and_eq_true, Option.isSome_iff_exists] at hn
    obtain ⟨⟨p, hpv⟩, hrest⟩ := hn
    have hpv' : T.exprPrecOf c.kind c.scalars = some p := hpv
    simp only [SqlBody.eval, hpv']
    exact SqlBody.eval_total rest { c with selfPrec := some p } true ls hc hK (fun _ => ⟨p, rfl⟩) hL h hrest
  | .letStr v e rest, c, hp, ls, hc, hK, hP, hL, h, hn => by
    simp only [SqlBody.ok, Bool.and_eq_true] at h
    simp only [SqlBody.need, Bool.and_eq_true] at hn
    obtain ⟨s, hs⟩ := SqlE.eval_total isPrint hc hK hP hL e h.1 hn.1
    simp only [SqlBody.eval, hs]
    refine SqlBody.eval_total rest { c with locals := (v, s) :: c.locals } hp (v :: ls) hc hK hP ?_ h.2 hn.2
    intro w hw
    simp only [List.lookup_cons]
    by_cases hwv : w = v
    · subst hwv; simp
    · have : (w == v) = false := by simpa using hwv
      simp only [this]
      rcases List.mem_cons.mp hw with hw | hw
      · exact absurd hw hwv
      · exact hL w hw
  | .ifRet cd a rest, c, hp, ls, hc, hK, hP, hL, h, hn => by
    simp only [SqlBody.ok, Bool.and_eq_true] at h
    obtain ⟨⟨⟨hcd, hlf⟩, ha⟩, hrest⟩ := h
    simp only [SqlBody.need, cond_erase T c cd hlf] at hn
    simp only [SqlBody.eval]
    cases hv : cd.eval T c with
    | none => simp [hv] at hn
    | some t =>
      cases t with
      | true =>
        simp only [hv] at hn
        exact SqlE.eval_total isPrint hc hK hP hL a ha hn
      | false =>
        simp only [hv] at hn
        exact SqlBody.eval_total rest c hp ls hc hK hP hL hrest hn
  | .custom name src, c, hp, ls, hc, hK, hP, hL, h, hn => by
    simp only [SqlBody.ok] at h
    simp only [SqlBody.need] at hn
    simp only [SqlBody.eval]
    exact customSql_total hc hK name src h hn
  | .missing, c, hp, ls, hc, hK, hP, hL, h, hn => by
    simp [SqlBody.ok] at h

/-! ### Whole trees -/

theorem sqlKids_erase (T : SqlTables) (isPrint : Nat → Bool) :
    ∀ (kids : Kids), (sqlKids T isPrint kids).map KidV.erase = shapeKids kids
  | .nil => by rw [sqlKids, shapeKids]; rfl
  | .cons f i n r => by
    rw [sqlKids, shapeKids, List.map_cons, sqlKids_erase T isPrint r]
    rfl

theorem kindOK_spec {T : SqlTables} (hT : SqlTableOK T = true) {k : String} (hk : T.kinds.any (·.name == k) = true) :
    ∃ b, T.bodies.lookup k = some b ∧ b.ok T (T.fieldsOf k) false [] = true := by
  obtain ⟨d, hd, hdk⟩ := List.any_eq_true.mp hk
  have hdk : d.name = k := by simpa using hdk
  simp only [SqlTableOK, Bool.and_eq_true] at hT
  have hrow := List.all_eq_true.mp hT.1 d hd
  unfold SqlTables.kindOK at hrow
  rw [hdk] at hrow
  cases hl : T.bodies.lookup k with
  | none => simp [hl] at hrow
  | some b =>
    simp only [hl] at hrow
    exact ⟨b, rfl, hrow⟩

mutual
  theorem sqlOf_total_aux (T : SqlTables) (isPrint : Nat → Bool) (hT : SqlTableOK T = true) :
      ∀ (n : Node), n.sqlShaped T = true →
        (∃ s, sqlOf T isPrint n = some s) ∧ (T.fieldsOf n.kind).all (sqlScalarOK n.scalars) = true
    | .mk k sc kids, hn => by
      rw [Node.sqlShaped] at hn
      simp only [Bool.and_eq_true] at hn
      obtain ⟨⟨⟨hk, hsc⟩, hneed⟩, hkids⟩ := hn
      refine ⟨?_, hsc⟩
      have hK := sqlKids_total T isPrint hT kids hkids
      obtain ⟨b, hl, hb⟩ := kindOK_spec hT hk
      rw [sqlOf, hl]
      simp only [hl, shapeCtx, ← sqlKids_erase T isPrint kids] at hneed
      exact SqlBody.eval_total b ⟨k, sc, sqlKids T isPrint kids, T.fieldsOf k, none, []⟩ false [] hsc hK
        (fun h => by cases h) (fun v hv => by cases hv) hb hneed
  theorem sqlKids_total (T : SqlTables) (isPrint : Nat → Bool) (hT : SqlTableOK T = true) :
      ∀ (kids : Kids), kids.sqlShaped T = true → KidsGood T (sqlKids T isPrint kids)
    | .nil, _ => by
      rw [sqlKids]
      intro k hk
      cases hk
    | .cons f i n r, h => by
      rw [Kids.sqlShaped] at h
      simp only [Bool.and_eq_true] at h
      have hn := sqlOf_total_aux T isPrint hT n h.1
      have hr := sqlKids_total T isPrint hT r h.2
      rw [sqlKids]
      intro k hk
      rcases List.mem_cons.mp hk with rfl | hk
      · exact hn
      · exact hr k hk
end

/-- C04, SQL part: on a well-formed table, `SQL()` of every shaped tree returns (no nil dereference, no
    `exprPrec: unexpected`, no index panic in `QuoteSQLIdent`) -/
theorem sqlOf_total (T : SqlTables) (isPrint : Nat → Bool) (hT : SqlTableOK T = true) (n : Node)
    (hn : SqlShaped T n) : ∃ s, sqlOf T isPrint n = some s :=
  (sqlOf_total_aux T isPrint hT n hn).1

/-! ### a linear-time certificate for `SqlTableOK`

As for pos.go (`zipOK` in TreePos.lean): catalogue and table are both generated in the declaration order of ast.go, so
one lock-step pass replaces the quadratic `lookup`s.  No uniqueness of names is needed. -/

def sqlZipOK (T : SqlTables) : List KindDecl → List (String × SqlBody) → Bool
  | [], [] => true
  | k :: ks, (name, b) :: rs => name == k.name && b.ok T k.fields false [] && sqlZipOK T ks rs
  | _, _ => false

theorem sqlZipOK_lookup (T : SqlTables) :
    ∀ (ks : List KindDecl) (rs : List (String × SqlBody)), sqlZipOK T ks rs = true →
      ∀ (name : String) (d : KindDecl), ks.find? (·.name == name) = some d →
        ∃ b, rs.lookup name = some b ∧ b.ok T d.fields false [] = true
  | [], _, _, name, d, hf => by simp at hf
  | k :: ks, [], h, _, _, _ => by simp [sqlZipOK] at h
  | k :: ks, (rn, b) :: rs, h, name, d, hf => by
    simp only [sqlZipOK, Bool.and_eq_true, beq_iff_eq] at h
    obtain ⟨⟨hn, hb⟩, hrest⟩ := h
    subst hn
    rw [List.find?_cons] at hf
    rw [List.lookup_cons]
    by_cases hk : k.name = name
    · subst hk
      simp only [beq_self_eq_true, Option.some.injEq] at hf
      subst hf
      exact ⟨b, by simp, hb⟩
    · have h1 : (k.name == name) = false := by simpa using hk
      have h2 : (name == k.name) = false := by simpa using fun e => hk e.symm
      rw [h1] at hf
      rw [h2]
      exact sqlZipOK_lookup T ks rs hrest name d hf

theorem SqlTableOK_of_zip (T : SqlTables) (h : sqlZipOK T T.kinds T.bodies = true) (hp : T.precOK = true) :
    SqlTableOK T = true := by
  unfold SqlTableOK
  rw [Bool.and_eq_true]
  refine ⟨?_, hp⟩
  rw [List.all_eq_true]
  intro d hd
  cases hf : T.kinds.find? (·.name == d.name) with
  | none =>
    have := List.find?_eq_none.mp hf d hd
    simp at this
  | some d' =>
    obtain ⟨b, hl, hb⟩ := sqlZipOK_lookup T _ _ h d.name d' hf
    simp only [SqlTables.kindOK, SqlTables.fieldsOf, hl, hf, hb]

/-! ### O1: which fields does a body read? -/

def SqlCond.fields : SqlCond → List String
  | .strEmpty f => [f]
  | .strNonEmpty f => [f]
  | .lenPos f => [f]
  | .posInvalid f => [f]
  | .bool f => [f]
  | .isNil f => [f]
  | .notNil f => [f]
  | .enumEq f _ => [f]
  | .enumNe f _ => [f]
  | .localHasPrefix _ _ => []
  | .kidKindIs f _ => [f]
  | .not a => a.fields
  | .and a b => a.fields ++ b.fields
  | .or a b => a.fields ++ b.fields

def SqlE.fields : SqlE → List String
  | .lit _ => []
  | .cat a b => a.fields ++ b.fields
  | .child f => [f]
  | .sqlOpt l f r => l.fields ++ f :: r.fields
  | .strOpt c s => c.fields ++ s.fields
  | .strIfElse c a b => c.fields ++ a.fields ++ b.fields
  | .sqlJoin f sep => f :: sep.fields
  | .paren _ f => [f]
  | .enumStr f => [f]
  | .strField f => [f]
  | .quoteIdent f => [f]
  | .quoteString f => [f]
  | .quoteBytes f => [f]
  | .boolUpper f => [f]
  | .local _ => []
  | .spaceAfterInt e => e.fields

/-- the fields of the receiver the hand-written bodies read.  HAND-LISTED, next to the hand-written semantics
    (`customSql` in MF/Model/Print.lean) and keyed like it by type name and source text: these are the fields
    `customSql` looks up in the context (`Tokens`; `Name`, `Value`; `Tables`).  A body with another text reads, as
    far as this file knows, nothing — but such a table does not pass `SqlTableOK` either. -/
def customFields (name src : String) : List String :=
  if name == "BadNode" && src == srcBadNode then ["Tokens"]
  else if name == "BadNode" && src == srcBadNodeC then ["Tokens"]
  else if name == "OptionsDef" && src == srcOptionsDef then ["Name", "Value"]
  else if name == "BracedConstructorField" && src == srcBracedConstructorField then ["Name", "Value"]
  else if name == "ChangeStreamForTables" && src == srcChangeStreamForTables then ["Tables"]
  else []

/-- all fields a body mentions, in conditions too -/
def fieldsRead : SqlBody → List String
  | .ret e => e.fields
  | .letPrec rest => fieldsRead rest
  | .letStr _ e rest => e.fields ++ fieldsRead rest
  | .ifRet c a rest => c.fields ++ a.fields ++ fieldsRead rest
  | .custom name src => customFields name src
  | .missing => []

/-- the non-position fields of a struct that a body does not mention -/
def unreadOf (d : KindDecl) (read : List String) : List (String × String) :=
  (d.fields.filter (fun fd => fd.cls != .pos && !read.contains fd.name)).map (fun fd => (d.name, fd.name))

/-- the (kind, field) pairs of the catalogue whose field class is not `.pos` and which the kind's body never mentions
    (a kind without a body reads nothing) -/
def unread (T : SqlTables) : List (String × String) :=
  T.kinds.flatMap (fun d =>
    unreadOf d (match T.bodies.lookup d.name with
      | some b => fieldsRead b
      | none => []))

/-- the same in one lock-step pass (for kernel evaluation) -/
def unreadZip : List KindDecl → List (String × SqlBody) → Option (List (String × String))
  | [], [] => some []
  | d :: ds, (name, b) :: rs =>
    if name == d.name then (unreadZip ds rs).map (unreadOf d (fieldsRead b) ++ ·) else none
  | _, _ => none

/-! ### distinct names, cheaply

`unread` looks every kind up in the table: quadratically many string comparisons, and one comparison of two string
literals costs the kernel a UTF-8 encoding of both.  Instead: the names of the catalogue are pairwise distinct
(`namesDistinct`: every name is turned ONCE into a number — its bytes in base 256 behind a leading 1 — the `match`
forces the kernel to evaluate it to a literal, and numbers are compared by the kernel's GMP arithmetic); with distinct
names the lock-step pass `unreadZip` computes `unread`. -/

def bytesKey : List UInt8 → Nat
  | [] => 1
  | b :: l => bytesKey l * 256 + b.toNat

def nameKey (s : String) : Nat := bytesKey s.toByteArray.data.toList

theorem bytesKey_pos : ∀ (l : List UInt8), 1 ≤ bytesKey l
  | [] => Nat.le_refl 1
  | b :: l => by
    have := bytesKey_pos l
    simp only [bytesKey]
    omega

theorem bytesKey_inj : ∀ (l l' : List UInt8), bytesKey l = bytesKey l' → l = l'
  | [], [], _ => rfl
  | [], b :: l, h => by
    have := bytesKey_pos l
    simp only [bytesKey] at h
    omega
  | b :: l, [], h => by
    have := bytesKey_pos l
    simp only [bytesKey] at h
    omega
  | b :: l, b' :: l', h => by
    have hb := UInt8.toNat_lt b
    have hb' := UInt8.toNat_lt b'
    simp only [bytesKey] at h
    have h1 : b.toNat = b'.toNat := by omega
    have h2 : bytesKey l = bytesKey l' := by omega
    rw [UInt8.toNat_inj.mp h1, bytesKey_inj l l' h2]

theorem nameKey_inj {s t : String} (h : nameKey s = nameKey t) : s = t :=
  String.toByteArray_inj.mp (ByteArray.ext (Array.toList_inj.mp (bytesKey_inj _ _ h)))

/-- `k (ss.map nameKey)`, every key evaluated exactly once -/
def forceKeys : List String → (List Nat → Bool) → Bool
  | [], k => k []
  | s :: ss, k =>
    match nameKey s with
    | 0 => false
    | n + 1 => forceKeys ss (fun l => k ((n + 1) :: l))

theorem forceKeys_eq : ∀ (ss : List String) (k : List Nat → Bool), forceKeys ss k = k (ss.map nameKey)
  | [], _ => rfl
  | s :: ss, k => by
    have hpos : 1 ≤ nameKey s := bytesKey_pos _
    rw [forceKeys]
    split
    · rename_i h0; omega
    · rename_i n hn
      rw [forceKeys_eq ss, List.map_cons, hn]

def memN (a : Nat) : List Nat → Bool
  | [] => false
  | b :: l => Nat.beq a b || memN a l

def nodupN : List Nat → Bool
  | [] => true
  | a :: l => !memN a l && nodupN l

theorem memN_of_mem {a : Nat} : ∀ {l : List Nat}, a ∈ l → memN a l = true
  | b :: l, h => by
    rcases List.mem_cons.mp h with rfl | h
    · simp [memN]
    · simp [memN, memN_of_mem h]

theorem nodupN_nodup : ∀ (l : List Nat), nodupN l = true → l.Nodup
  | [], _ => List.nodup_nil
  | a :: l, h => by
    simp only [nodupN, Bool.and_eq_true, Bool.not_eq_true'] at h
    refine List.nodup_cons.mpr ⟨fun hm => ?_, nodupN_nodup l h.2⟩
    rw [memN_of_mem hm] at h
    cases h.1

/-- the strings are pairwise distinct (one pass to number them, then comparisons of numbers) -/
def namesDistinct (ss : List String) : Bool := forceKeys ss nodupN

theorem namesDistinct_nodup {ss : List String} (h : namesDistinct ss = true) : ss.Nodup := by
  unfold namesDistinct at h
  rw [forceKeys_eq] at h
  exact List.Pairwise.of_map nameKey (fun a b hab e => hab (congrArg nameKey e)) (nodupN_nodup _ h)

theorem unreadZip_spec :
    ∀ (ds : List KindDecl) (rs : List (String × SqlBody)) (r : List (String × String)),
      (ds.map (·.name)).Nodup → unreadZip ds rs = some r →
      ds.flatMap (fun d => unreadOf d (match rs.lookup d.name with
        | some b => fieldsRead b
        | none => [])) = r
  | [], [], r, _, h => by
    simp only [unreadZip, Option.some.injEq] at h
    subst h; rfl
  | [], _ :: _, r, _, h => by simp [unreadZip] at h
  | _ :: _, [], r, _, h => by simp [unreadZip] at h
  | d :: ds, (name, b) :: rs, r, hN, h => by
    rw [unreadZip] at h
    split at h
    · rename_i hname
      have hname : name = d.name := by simpa using hname
      subst hname
      cases hz : unreadZip ds rs with
      | none => simp [hz] at h
      | some r' =>
        simp only [hz, Option.map_some, Option.some.injEq] at h
        subst h
        rw [List.map_cons, List.nodup_cons] at hN
        have ih := unreadZip_spec ds rs r' hN.2 hz
        rw [List.flatMap_cons]
        congr 1
        · simp
        · rw [← ih]
          simp only [List.flatMap]
          congr 1
          apply List.map_congr_left
          intro d' hd'
          have hne : (d'.name == d.name) = false := by
            have : d'.name ≠ d.name := fun e => hN.1 (e ▸ List.mem_map_of_mem hd')
            simpa using this
          simp only [List.lookup_cons, hne]
    · cases h

/-- with distinct names the lock-step pass computes `unread` -/
theorem unread_of_zip (T : SqlTables) (r : List (String × String))
    (hN : namesDistinct (T.kinds.map (·.name)) = true) (h : unreadZip T.kinds T.bodies = some r) : unread T = r :=
  unreadZip_spec T.kinds T.bodies r (namesDistinct_nodup hN) h

end MF.Ast
