/-
  MF.Proofs.PosProv — what the table obligation O2 `offsets_match` MEANS (generic, about every input).

  The obligation (MF/Props/C05Offsets.lean) checks, on facts regenerated from parser.go, that a summand `F + n` of a
  documented position expression is only ever fed by a field whose provenance is "the START of a token of a class whose
  raw text is n bytes long" (`provOK n p`).  `offset_sound` says what follows IF the field really holds what its
  provenance says (`Prov.Holds`): `F + n` is exactly the end of that token — a token boundary, at most `|buf|`, and the
  bytes in between are the token's raw text.  It rests on two lexer theorems: a keyword / punctuation token is as long
  as its kind (`lexAll_len`, MF/Proofs/LexTokLen.lean) and the tokens tile the input (`lexAll_ok`: `TokensOK`).

  The link "the site really executes with that token" is the EXTRACTED fact (tools/extract/posprov.go, a syntactic
  reading of parser.go), not a theorem; `Prov.Holds` is the hypothesis that states it.
-/
import MF.Model.PosProv
import MF.Model.PosLang
import MF.Proofs.LexTokLen
namespace MF.PosProv
open MF MF.Lex MF.Ast

/-- a token of the class -/
def TokAlt.Matches : TokAlt → Token → Prop
  | .sym s, t => t.kind = K s
  | .kwlike w, t => t.isKeywordLike (B w) = true
  | .ident, t => t.kind = .ident
  | .identAs w, t => t.isIdent (B w) = true
  | .special _, _ => True

/-- what a provenance claims about the value `F` of the field, for the token list of the input -/
def Prov.Holds (ts : List Token) (F : Int) : Prov → Prop
  | .tok alts side | .tokvar alts side | .cur alts side =>
    ∃ t ∈ ts, (∃ a ∈ alts, a.Matches t) ∧ F = (match side with | .start => (t.pos : Int) | .end => (t.end : Int))
  | .invalid => F < 0
  | _ => True

/-- every token of a tiling lies in the buffer and its raw text is the slice it covers -/
theorem tokensOK_mem {buf : Bytes} {p : Nat} {ts : List Token} (h : TokensOK buf p ts) :
    ∀ t ∈ ts, t.raw = slice buf t.pos t.end ∧ t.pos ≤ t.end ∧ t.end ≤ buf.length := by
  induction ts generalizing p with
  | nil => intro t ht; cases ht
  | cons t0 ts ih =>
    simp only [TokensOK] at h
    obtain ⟨_, _, _, c4, c5, c6, _, _, _, c10⟩ := h
    intro t ht
    simp only [List.mem_cons] at ht
    rcases ht with rfl | ht
    · exact ⟨c4, c5, c6⟩
    · exact ih c10 t ht

theorem equalFold_length {s t : Bytes} (h : Char.equalFold s t = true) : s.length = t.length := by
  unfold Char.equalFold at h
  simp only [Bool.and_eq_true, beq_iff_eq] at h
  exact h.1

/-- a token of a class with a fixed length is that long -/
theorem alt_len {buf : Bytes} {ts : List Token} (hl : lexAll buf = .ok ts) {t : Token} (ht : t ∈ ts)
    {a : TokAlt} {n : Nat} (ha : a.len = some n) (hm : a.Matches t) : t.end = t.pos + n := by
  cases a with
  | sym s =>
    simp only [TokAlt.len, Option.some.injEq] at ha
    simp only [TokAlt.Matches, K] at hm
    have := (lexAll_len hl t ht).1 (B s) hm
    omega
  | kwlike w =>
    simp only [TokAlt.len, Option.some.injEq] at ha
    simp only [TokAlt.Matches, Token.isKeywordLike, Bool.and_eq_true] at hm
    have hlen := equalFold_length hm.2
    obtain ⟨hraw, h1, h2⟩ := tokensOK_mem (lexAll_ok hl).2 t ht
    have hs : t.raw.length = t.end - t.pos := by rw [hraw]; exact slice_length h1 h2
    omega
  | ident => simp [TokAlt.len] at ha
  | identAs w => simp [TokAlt.len] at ha
  | special k => simp [TokAlt.len] at ha

/-- the shape of a provenance that passes the check -/
theorem provOK_cases {n : Nat} {p : Prov} (h : provOK n p = true) :
    p = .invalid ∨ ∃ alts, (p = .tok alts .start ∨ p = .tokvar alts .start ∨ p = .cur alts .start) ∧
      alts ≠ [] ∧ ∀ a ∈ alts, a.len = some n := by
  have key : ∀ alts : List TokAlt, (!alts.isEmpty && alts.all (fun a => a.len == some n)) = true →
      alts ≠ [] ∧ ∀ a ∈ alts, a.len = some n := by
    intro alts h
    simp only [Bool.and_eq_true, Bool.not_eq_eq_eq_not, Bool.not_true, List.isEmpty_eq_false_iff, List.all_eq_true,
      beq_iff_eq] at h
    exact h
  cases p with
  | invalid => exact .inl rfl
  | tok alts side =>
    cases side with
    | start => exact .inr ⟨alts, .inl rfl, key alts h⟩
    | «end» => simp [provOK] at h
  | tokvar alts side =>
    cases side with
    | start => exact .inr ⟨alts, .inr (.inl rfl), key alts h⟩
    | «end» => simp [provOK] at h
  | cur alts side =>
    cases side with
    | start => exact .inr ⟨alts, .inr (.inr rfl), key alts h⟩
    | «end» => simp [provOK] at h
  | nodePos s => simp [provOK] at h
  | nodeEnd s => simp [provOK] at h
  | param s => simp [provOK] at h
  | unset => simp [provOK] at h
  | other s => simp [provOK] at h

/-- **O2, meaning.**  For an accepted input with token list `ts`: if the provenance `p` of a field passes the check for the
    addend `n` (`provOK n p`) and the field's value `F` is what `p` says (`p.Holds ts F`), then either `F` is invalid, or `F`
    is the start of a token `t` of the input and `F + n` is exactly the end of `t`: a token boundary, inside the buffer,
    with the token's raw text in between. -/
theorem offset_sound {buf : Bytes} {ts : List Token} (hl : lexAll buf = .ok ts) {p : Prov} {n : Nat} {F : Int}
    (hok : provOK n p = true) (hh : p.Holds ts F) :
    F < 0 ∨ ∃ t ∈ ts, F = (t.pos : Int) ∧ F + (n : Int) = (t.end : Int) ∧ t.end ≤ buf.length ∧
      slice buf t.pos t.end = t.raw ∧ t.raw.length = n := by
  rcases provOK_cases hok with rfl | ⟨alts, hp, _, hall⟩
  · exact .inl hh
  · have hex : ∃ t ∈ ts, (∃ a ∈ alts, a.Matches t) ∧ F = (t.pos : Int) := by
      rcases hp with rfl | rfl | rfl <;> exact hh
    obtain ⟨t, ht, ⟨a, ha, hm⟩, hF⟩ := hex
    have hlen := alt_len hl ht (hall a ha) hm
    obtain ⟨hraw, h1, h2⟩ := tokensOK_mem (lexAll_ok hl).2 t ht
    refine .inr ⟨t, ht, hF, ?_, h2, hraw.symm, ?_⟩
    · rw [hF, hlen]; simp
    · rw [hraw, slice_length h1 h2]; omega

/-- the end of a token is a token boundary: the next token's comments, space and raw text start there, or it is the end
    of the input -/
theorem offset_in_range {buf : Bytes} {ts : List Token} (hl : lexAll buf = .ok ts) {p : Prov} {n : Nat} {F : Int}
    (hok : provOK n p = true) (hh : p.Holds ts F) (hF : 0 ≤ F) : 0 ≤ F + n ∧ F + (n : Int) ≤ (buf.length : Int) := by
  rcases offset_sound hl hok hh with h | ⟨t, _, _, h2, h3, _, _⟩
  · omega
  · rw [h2]; exact ⟨Int.natCast_nonneg _, Int.ofNat_le.mpr h3⟩

/-! ### how `F + n` is evaluated (the interpreter of the documented expressions, MF/Model/PosLang.lean) -/

/-- the value of a documented summand `F + n`: `posAdd` keeps an invalid position invalid, otherwise adds -/
theorem summand_eval (c : Ctx) (F : String) (n : Nat) {p : Int} (h : c.posField F = some p) :
    PosTerm.eval c ⟨.var F, [.lit n]⟩ = some (if p < 0 then invalid else p + n) := by
  simp only [PosTerm.eval, PosAtom.eval, h, evalAdds, IntE.eval]
  split <;> rfl

/-! ### the lock-step pass computes what it should -/

theorem mem_dedupKeys' (l : List Key) : ∀ k, k ∈ dedupKeys l ↔ k ∈ l := by
  induction l with
  | nil => intro k; simp [dedupKeys]
  | cons a l ih =>
    intro k
    simp only [dedupKeys]
    split
    · rename_i hc
      have ha : a ∈ l := (ih a).mp (by simpa using hc)
      constructor
      · intro h; exact List.mem_cons_of_mem _ ((ih k).mp h)
      · intro h
        rcases List.mem_cons.mp h with rfl | h
        · exact (ih _).mpr ha
        · exact (ih k).mpr h
    · simp only [List.mem_cons, ih k]

theorem mem_dedupKeys {k : Key} {l : List Key} : k ∈ dedupKeys l ↔ k ∈ l := mem_dedupKeys' l k

theorem siteUndischarged_sound {kind f : String} {n : Nat} {st : PosSite} {fp : FieldProv}
    (hfp : st.fields.find? (·.field == f) = some fp) {p : Prov} (hp : p ∈ fp.provs) :
    provOK n p = true ∨ (⟨st.func, kind, f, n, p⟩ : Undischarged) ∈ siteUndischarged kind f n st := by
  by_cases hok : provOK n p = true
  · exact .inl hok
  · refine .inr ?_
    simp only [siteUndischarged, hfp, List.mem_map, List.mem_filter]
    exact ⟨p, ⟨hp, by simp [hok]⟩, rfl⟩

theorem rowUndischarged_sound {d : String × PosE × PosE} {r : KindSites} {fn : String × Nat}
    (hfn : fn ∈ litSummands d.2.1 ++ litSummands d.2.2) {st : PosSite} (hst : st ∈ r.sites) {fp : FieldProv}
    (hfp : st.fields.find? (·.field == fn.1) = some fp) {p : Prov} (hp : p ∈ fp.provs) :
    provOK fn.2 p = true ∨ (⟨st.func, r.kind, fn.1, fn.2, p⟩ : Undischarged) ∈ rowUndischarged d r := by
  rcases siteUndischarged_sound (kind := r.kind) (n := fn.2) hfp hp with h | h
  · exact .inl h
  · refine .inr ?_
    simp only [rowUndischarged, List.mem_flatMap]
    exact ⟨fn, hfn, st, hst, h⟩

/-- what `undischargedZip … = some us` establishes: the two tables list the same kinds in the same order, and every
    provenance of every field that feeds a literal summand either passes the check or is in `us` -/
theorem undischargedZip_sound {ds : List (String × PosE × PosE)} {rs : List KindSites} {us : List Undischarged}
    (h : undischargedZip ds rs = some us) {d : String × PosE × PosE} {r : KindSites} (hdr : (d, r) ∈ ds.zip rs) :
    d.1 = r.kind ∧
    ∀ fn ∈ litSummands d.2.1 ++ litSummands d.2.2, ∀ st ∈ r.sites, ∀ fp, st.fields.find? (·.field == fn.1) = some fp →
      ∀ p ∈ fp.provs, provOK fn.2 p = true ∨ (⟨st.func, r.kind, fn.1, fn.2, p⟩ : Undischarged) ∈ us := by
  induction ds generalizing rs us with
  | nil => simp at hdr
  | cons d0 ds ih =>
    cases rs with
    | nil => simp at hdr
    | cons r0 rs =>
      simp only [undischargedZip] at h
      split at h
      · rename_i hname
        cases hz : undischargedZip ds rs with
        | none => simp [hz] at h
        | some us' =>
          simp only [hz, Option.map_some, Option.some.injEq] at h
          subst h
          simp only [List.zip_cons_cons, List.mem_cons, Prod.mk.injEq] at hdr
          rcases hdr with ⟨rfl, rfl⟩ | hdr
          · refine ⟨by simpa using hname, ?_⟩
            intro fn hfn st hst fp hfp p hp
            rcases rowUndischarged_sound hfn hst hfp hp with h1 | h1
            · exact .inl h1
            · exact .inr (List.mem_append_left _ h1)
          · obtain ⟨h1, h2⟩ := ih hz hdr
            refine ⟨h1, ?_⟩
            intro fn hfn st hst fp hfp p hp
            rcases h2 fn hfn st hst fp hfp p hp with h3 | h3
            · exact .inl h3
            · exact .inr (List.mem_append_right _ h3)
      · cases h

end MF.PosProv
