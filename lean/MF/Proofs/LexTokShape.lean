/-
  MF.Proofs.LexTokShape — what every token produced by the lexer looks like (used to show that parser-built trees
  have lexer-producible leaves): the text of an integer / floating-point token is, alone, exactly one numeric
  literal of that kind; an identifier value is not empty and its text is either the value itself or starts with a
  back-quote; a parameter name is a letter or `_` followed by identifier characters.
-/
import MF.Proofs.ExprLexToks
set_option linter.unusedSimpArgs false
namespace MF.Concat
open MF MF.Lex MF.Spec.Lexical MF.Expr

/-- the shape of a token record -/
def recOK (r : TRec) : Prop :=
  (r.kind = .int → numOK true r.raw = true) ∧ (r.kind = .float → numOK false r.raw = true) ∧
  (r.kind = .ident → r.value ≠ [] ∧ (r.raw = r.value ∨ r.raw.head? = some 96 ∨ r.raw = [])) ∧
  (r.kind = .param → paramOK r.value = true)

theorem run_pos_of_head {p : UInt8 → Bool} {c : UInt8} (t : Bytes) (h : p c = true) : 1 ≤ run p (c :: t) := by
  simp [run, h]

theorem number_pos {c : UInt8} (t : Bytes) (hc : isDigit c = true) : 1 ≤ (number (c :: t)).2 := by
  rw [number_eq]
  by_cases hh : hexD (c :: t) > 0
  · rw [if_pos hh]; simp only; omega
  · rw [if_neg hh]
    have hip := run_pos_of_head t hc
    cases hd : (c :: t).drop (run isDigit (c :: t)) with
    | nil => rw [decPart_nil_branch hd]; exact hip
    | cons x u =>
      by_cases hx : (x == 46) = true
      · have : x = 46 := by simpa using hx
        subst this
        rw [decPart_dot_branch hd]
        split <;> simp only <;> omega
      · rw [decPart_exp_branch hd (Bool.eq_false_iff.2 hx)]
        split <;> simp only <;> omega

theorem number_dot {d : UInt8} (u : Bytes) (hd : isDigit d = true) :
    2 ≤ (number (46 :: d :: u)).2 ∧ (number (46 :: d :: u)).1 = .float := by
  have h46 : isDigit 46 = false := by decide
  rw [number_eq]
  have hx : hexD (46 :: d :: u) = 0 := by simp [hexD]
  rw [hx, if_neg (by omega)]
  have hdrop : (46 :: d :: u).drop (run isDigit (46 :: d :: u)) = 46 :: d :: u := by simp [run, h46]
  rw [decPart_dot_branch hdrop]
  have := run_pos_of_head u hd
  rw [if_pos (by omega)]
  simp only
  exact ⟨by omega, trivial⟩

/-- the record built from `number` at the head of `s` satisfies `numOK` -/
theorem numTok_recOK {s : Bytes} {k : NumKind} {n : Nat} (hn : number s = (k, n))
    (hs : (∃ c t, s = c :: t ∧ isDigit c = true) ∨ (∃ d u, s = 46 :: d :: u ∧ isDigit d = true)) :
    recOK (srec s (numTok k n)) := by
  have hle : n ≤ s.length := by have := number_len_le s; rw [hn] at this; exact this
  have htake := number_take hn
  have hlen : (s.take n).length = n := by rw [List.length_take]; omega
  have hstart : numStart (s.take n) = true := by
    rcases hs with ⟨c, t, rfl, hc⟩ | ⟨d, u, rfl, hd⟩
    · have := number_pos t hc
      rw [hn] at this
      obtain ⟨m, rfl⟩ : ∃ m, n = m + 1 := ⟨n - 1, by omega⟩
      simp [numStart, hc]
    · have := (number_dot u hd).1
      rw [hn] at this
      obtain ⟨m, rfl⟩ : ∃ m, n = m + 2 := ⟨n - 2, by omega⟩
      simp [numStart, hd]
  have hbase : numOK (!(k == .float)) (s.take n) = true := by
    simp only [numOK, hstart, htake, hlen, beq_self_eq_true, Bool.true_and]
    cases k <;> rfl
  refine ⟨?_, ?_, ?_, ?_⟩
  · intro hk
    have : (k == NumKind.float) = false := by
      cases k <;> simp [srec, numTok] at hk ⊢
    rw [this] at hbase
    simpa [srec, numTok] using hbase
  · intro hk
    have : (k == NumKind.float) = true := by
      cases k <;> simp [srec, numTok] at hk ⊢
    rw [this] at hbase
    simpa [srec, numTok] using hbase
  · intro hk
    cases k <;> simp [srec, numTok] at hk
  · intro hk
    cases k <;> simp [srec, numTok] at hk

theorem recOK_other {r : TRec} (h1 : r.kind ≠ .int) (h2 : r.kind ≠ .float) (h3 : r.kind ≠ .ident)
    (h4 : r.kind ≠ .param) : recOK r :=
  ⟨fun h => absurd h h1, fun h => absurd h h2, fun h => absurd h h3, fun h => absurd h h4⟩

theorem recOK_ident {raw v : Bytes} {b : Nat} (hv : v ≠ []) (hr : raw = v ∨ raw.head? = some 96 ∨ raw = []) :
    recOK ⟨.ident, raw, v, b⟩ :=
  ⟨fun h => (by cases h), fun h => (by cases h), fun _ => ⟨hv, hr⟩, fun h => (by cases h)⟩

theorem recOK_sym (s raw v : Bytes) (b : Nat) : recOK ⟨.sym s, raw, v, b⟩ :=
  ⟨fun h => (by cases h), fun h => (by cases h), fun h => (by cases h), fun h => (by cases h)⟩

theorem take_run_ne_nil {p : UInt8 → Bool} {c : UInt8} (t : Bytes) (h : p c = true) :
    (c :: t).take (run p (c :: t)) ≠ [] := by
  simp [run, h]

theorem numBranch_recOK {s : Bytes} {t : STok}
    (hs : (∃ c u, s = c :: u ∧ isDigit c = true) ∨ (∃ d u, s = 46 :: d :: u ∧ isDigit d = true))
    (h : (match number s with
      | (k, n) =>
        if (match List.drop n s with | x :: _ => isIdentChar x | [] => false) = true then none
        else some { kind := if (k == NumKind.float) = true then TokKind.float else TokKind.int, len := n,
                    base := if (k == NumKind.int16) = true then 16 else if (k == NumKind.int10) = true then 10 else 0 }) =
      some t) : recOK (srec s t) := by
  cases hn : number s with
  | mk k n =>
    simp only [hn] at h
    by_cases hc : (match List.drop n s with | x :: _ => isIdentChar x | [] => false) = true
    · rw [if_pos hc] at h; cases h
    · rw [if_neg hc] at h
      cases h
      exact numTok_recOK hn hs

/-- **the shape of every token of the reference lexer** -/
theorem token_recOK {R : Bytes} {lk : TokKind} {d : Bool} {t : STok} (h : token R lk d = some t) :
    recOK (srec R t) := by
  cases R with
  | nil =>
    simp only [token, Option.some.injEq] at h
    subst h
    exact recOK_other (by simp [srec]) (by simp [srec]) (by simp [srec]) (by simp [srec])
  | cons c s =>
    unfold token at h
    simp only [] at h
    by_cases h1 : (d && isIdentChar c) = true
    · rw [if_pos h1] at h
      cases h
      simp only [Bool.and_eq_true] at h1
      exact recOK_ident (take_run_ne_nil s h1.2) (Or.inl rfl)
    · rw [if_neg h1] at h
      by_cases h2 : (c == 46) = true
      · rw [if_pos h2] at h
        have : c = 46 := by simpa using h2
        subst this
        cases s with
        | nil =>
          simp only [Bool.and_false, Bool.false_eq_true, if_false] at h
          cases h
          exact recOK_sym _ _ _ _
        | cons x u =>
          simp only [] at h
          by_cases hx : (!dotEnables lk && isDigit x) = true
          · rw [if_pos hx] at h
            simp only [Bool.and_eq_true] at hx
            exact numBranch_recOK (Or.inr ⟨x, u, rfl, hx.2⟩) h
          · rw [if_neg hx] at h
            cases h
            exact recOK_sym _ _ _ _
      · rw [if_neg h2] at h
        by_cases h3 : isDigit c = true
        · rw [if_pos h3] at h
          exact numBranch_recOK (Or.inl ⟨c, s, rfl, h3⟩) h
        · rw [if_neg h3] at h
          by_cases h4 : (c == 96) = true
          · rw [if_pos h4] at h
            have : c = 96 := by simpa using h4
            subst this
            split at h
            · rename_i v n _
              split at h
              · cases h
              · rename_i hv
                cases h
                refine recOK_ident (by simpa using hv) ?_
                simp only [srec]
                cases n with
                | zero => right; right; rfl
                | succ n => right; left; rfl
            · cases h
          · rw [if_neg h4] at h
            by_cases h5 : (c == 64) = true
            · rw [if_pos h5] at h
              split at h
              · rename_i x u
                split at h
                · simp only [Option.some.injEq] at h
                  subst h
                  exact recOK_sym _ _ _ _
                · split at h
                  · rename_i hx
                    cases h
                    refine ⟨fun h => (by cases h), fun h => (by cases h), fun h => (by cases h), fun _ => ?_⟩
                    simp only [srec]
                    have hic : isIdentChar x = true := (letter_facts x hx).2.2.2.2.2.1
                    have hall := take_run_all isIdentChar (x :: u)
                    have hpos := run_pos_of_head u hic
                    obtain ⟨m, hm⟩ : ∃ m, run isIdentChar (x :: u) = m + 1 := ⟨run isIdentChar (x :: u) - 1, by omega⟩
                    rw [hm] at hall ⊢
                    simp only [List.take_succ_cons, List.all_cons, Bool.and_eq_true] at hall
                    simp [paramOK, hx, hall.2]
                  · simp only [Option.some.injEq] at h
                    subst h
                    exact recOK_sym _ _ _ _
              · simp only [Option.some.injEq] at h
                subst h
                exact recOK_sym _ _ _ _
            · rw [if_neg h5] at h
              split at h
              · rename_i p _
                split at h
                · simp only [Option.some.injEq] at h
                  subst h
                  exact recOK_other (by simp only [srec]; split <;> simp) (by simp only [srec]; split <;> simp)
                    (by simp only [srec]; split <;> simp) (by simp only [srec]; split <;> simp)
                · cases h
              · by_cases h6 : isLetter c = true
                · rw [if_pos h6] at h
                  split at h
                  · simp only [Option.some.injEq] at h
                    subst h
                    exact recOK_sym _ _ _ _
                  · simp only [Option.some.injEq] at h
                    subst h
                    exact recOK_ident (take_run_ne_nil s (letter_facts c h6).2.2.2.2.2.1) (Or.inl rfl)
                · rw [if_neg h6] at h
                  split at h
                  · simp only [Option.some.injEq] at h
                    subst h
                    exact recOK_sym _ _ _ _
                  · cases h

theorem next_tok {R : Bytes} {lk : TokKind} {d : Bool} {w : Nat} {t : STok} (h : next R lk d = .tok w t) :
    token (R.drop w) lk d = some t := by
  unfold next at h
  split at h
  · cases h
  · rename_i w' hw
    split at h
    · cases h
    · rename_i t' ht
      cases h
      exact ht

/-- every token the model lexer produces has the shape `recOK` -/
theorem nextToken_recOK {buf : Bytes} {s s' : State} (hp : s.pos ≤ buf.length)
    (hn : nextToken buf false s = .ok s') : recOK (trec s'.tok) := by
  obtain ⟨w, t, h0, _, _, h4, h5, h6, h7, _⟩ := spec_step hp hn
  have := token_recOK (next_tok h0)
  have e : trec s'.tok = srec ((buf.drop s.pos).drop w) t := by
    simp only [trec, srec, h4, h5, h6, h7, List.drop_drop]
  rw [e]; exact this

theorem steps_recOK {buf : Bytes} {s : State} {l : List Token} (h : Steps buf s l) (hp : s.pos ≤ buf.length) :
    ∀ t ∈ l, recOK (trec t) := by
  induction h with
  | last hn _ =>
    intro t ht
    simp only [List.mem_singleton] at ht
    subst ht
    exact nextToken_recOK hp hn
  | cons hn _ _ ih =>
    intro t ht
    rcases List.mem_cons.1 ht with rfl | ht
    · exact nextToken_recOK hp hn
    · exact ih (nextToken_frame hn).le_len t ht

/-- **every token of an accepted input has the shape `recOK`** -/
theorem lexAll_recOK {buf : Bytes} {ts : List Token} (h : Lex.lexAll buf = .ok ts) : ∀ t ∈ ts, recOK (trec t) :=
  steps_recOK (lexAll_steps h) (Nat.zero_le _)

end MF.Concat
