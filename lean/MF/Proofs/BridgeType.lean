/-
  MF.Proofs.BridgeType — the hand-written printer `sqlT` and position formulas `posT` / `endT` (and `sqlF`, `posF`,
  `endF` of a `StructField`) of the type fragment ARE the generic interpreters on the regenerated tables: induction over
  `Ty` / `Fields`, each case an application of the per-kind lemmas of BridgeSqlKinds / BridgePosKinds.
-/
import MF.Proofs.BridgeSqlKinds
import MF.Proofs.BridgePosKinds
namespace MF.Bridge
open MF MF.Ast MF.TypeP

/-! ## what the generic interpreters need: identifiers are not empty, a `NamedType` has a path component -/

def wfIdentT (i : Option Ident) : Bool :=
  match i with
  | some i => !i.name.isEmpty
  | none => true

mutual
def wfBridgeT : Ty → Bool
  | .simple _ _ => true
  | .named path => !path.isEmpty && path.all (fun i => !i.name.isEmpty)
  | .array _ _ item => wfBridgeT item
  | .struct _ _ fs => wfBridgeFs fs
def wfBridgeFs : Fields → Bool
  | .nil => true
  | .cons i t rest => wfIdentT i && wfBridgeT t && wfBridgeFs rest
end

/-- the precondition of the bridge theorems for types (decidable) -/
def WFBridgeT (t : Ty) : Prop := wfBridgeT t = true
instance (t : Ty) : Decidable (WFBridgeT t) := inferInstanceAs (Decidable (_ = _))

/-! ## the `StructField` nodes of a field list -/

def fieldNodes : Fields → List Node
  | .nil => []
  | .cons i t rest => nStructField (i.map identT) (toNodeT t) :: fieldNodes rest

theorem toKidsF_eq : (k : Nat) → (fs : Fields) → toKidsF k fs = sliceKids "Fields" k (fieldNodes fs)
  | _, .nil => rfl
  | k, .cons i t rest => by simp [toKidsF, fieldNodes, sliceKids, toKidsF_eq (k + 1) rest]

/-- `SQL()` of the fields -/
def fieldSqls : Fields → List Bytes
  | .nil => []
  | .cons i t rest => sqlF i t :: fieldSqls rest

/-- `(Pos(), End())` of the fields -/
def fieldSpans : Fields → List (Int × Int)
  | .nil => []
  | .cons i t rest => ((posF i t : Int), (endF i t : Int)) :: fieldSpans rest

/-! ## spellings -/

theorem quoteIdent_someT (ip : Nat → Bool) (n : Bytes) (h : n.isEmpty = false) :
    Quote.quoteIdent ip n = some ((Quote.quoteIdent ip n).getD []) := by
  cases n with
  | nil => simp at h
  | cons c t =>
    have : ∃ b, Quote.needQuoteIdent (c :: t) = some b := by
      unfold Quote.needQuoteIdent; split <;> exact ⟨_, rfl⟩
    obtain ⟨b, hb⟩ := this
    unfold Quote.quoteIdent; rw [hb]; cases b <;> rfl

theorem sql_identT (i : Ident) (h : i.name.isEmpty = false) :
    sqlOf ST asciiPrint (identT i) = some (identSQL i) := by
  rw [identT, sql_Ident, quoteIdent_someT _ _ h]; rfl

theorem sql_identsT (ids : List Ident) (h : ids.all (fun i => !i.name.isEmpty) = true) :
    (ids.map identT).map (sqlOf ST asciiPrint) = (ids.map identSQL).map some := by
  induction ids with
  | nil => rfl
  | cons i r ih =>
    simp only [List.all_cons, Bool.and_eq_true, Bool.not_eq_true'] at h
    simp only [List.map_cons, sql_identT i h.1, ih h.2]

theorem joinSql_pathSQL (path : List Ident) : joinSql (B ".") (path.map identSQL) = pathSQL path := by
  induction path with
  | nil => rfl
  | cons a r ih =>
    cases r with
    | nil => rfl
    | cons b r => simp only [List.map_cons, joinSql, pathSQL] at ih ⊢; rw [ih]

theorem joinSql_sqlMore : (a : Bytes) → (rest : Fields) → joinSql (B ", ") (a :: fieldSqls rest) = a ++ sqlMore rest
  | a, .nil => by simp [fieldSqls, joinSql, sqlMore]
  | a, .cons i t rest => by
    have ih := joinSql_sqlMore (sqlF i t) rest
    simp only [sqlF] at ih
    simp only [fieldSqls, joinSql, sqlMore, sqlF, ih, List.append_assoc]

theorem joinSql_sqlFs (fs : Fields) : joinSql (B ", ") (fieldSqls fs) = sqlFs fs := by
  cases fs with
  | nil => rfl
  | cons i t rest => simp only [fieldSqls, joinSql_sqlMore, sqlFs, sqlF]

/-! ## `SQL()` -/

mutual
/-- the hand-written printer of the type nodes is the generic printer on the regenerated table -/
theorem sql_bridge_type : (t : Ty) → wfBridgeT t = true → sqlOf ST asciiPrint (toNodeT t) = some (sqlT t)
  | .simple p n, _ => sql_SimpleType _ p n
  | .named path, h => by
    simp only [wfBridgeT, Bool.and_eq_true] at h
    simp only [toNodeT, sqlT, identKidsT_eq, ← joinSql_pathSQL]
    exact sql_NamedType _ _ _ (sql_identsT path h.2)
  | .array a gt item, h => by
    simp only [wfBridgeT] at h
    exact sql_ArrayType _ a gt _ _ (sql_bridge_type item h)
  | .struct s gt fs, h => by
    simp only [wfBridgeT] at h
    simp only [toNodeT, sqlT, toKidsF_eq, ← joinSql_sqlFs]
    exact sql_StructType _ s gt _ _ (sql_bridge_fields fs h)
/-- … and of the `StructField` nodes -/
theorem sql_bridge_fields : (fs : Fields) → wfBridgeFs fs = true →
    (fieldNodes fs).map (sqlOf ST asciiPrint) = (fieldSqls fs).map some
  | .nil, _ => rfl
  | .cons none t rest, h => by
    simp only [wfBridgeFs, Bool.and_eq_true] at h
    simp only [fieldNodes, fieldSqls, List.map_cons, Option.map_none, sqlF, fieldNameSQL, List.nil_append,
      sql_StructField_none _ _ _ (sql_bridge_type t h.1.2), sql_bridge_fields rest h.2]
  | .cons (some i) t rest, h => by
    simp only [wfBridgeFs, wfIdentT, Bool.and_eq_true, Bool.not_eq_true'] at h
    simp only [fieldNodes, fieldSqls, List.map_cons, Option.map_some, sqlF, fieldNameSQL,
      sql_StructField_some _ _ _ _ _ (sql_identT i h.1.1) (sql_bridge_type t h.1.2), sql_bridge_fields rest h.2]
end

/-- `StructField.SQL()` -/
theorem sql_bridge_field (i : Option Ident) (t : Ty) (hi : wfIdentT i = true) (ht : wfBridgeT t = true) :
    sqlOf ST asciiPrint (nStructField (i.map identT) (toNodeT t)) = some (sqlF i t) := by
  have := sql_bridge_fields (.cons i t .nil) (by simp [wfBridgeFs, hi, ht])
  simpa [fieldNodes, fieldSqls] using this

/-! ## `Pos()` / `End()` -/

theorem pos_identT (i : Ident) : goPosEnd PT (identT i) = some ((i.namePos : Int), (i.nameEnd : Int)) :=
  pos_Ident _ _ _

theorem pos_identsT (ids : List Ident) :
    (ids.map identT).map (goPosEnd PT) = (ids.map (fun i => ((i.namePos : Int), (i.nameEnd : Int)))).map some := by
  induction ids with
  | nil => rfl
  | cons i r ih => simp only [List.map_cons, pos_identT, ih]

mutual
/-- the hand-written position formulas of the type nodes are the compiled `Pos()` / `End()` of the regenerated table -/
theorem pos_bridge_type : (t : Ty) → wfBridgeT t = true →
    goPosEnd PT (toNodeT t) = some ((posT t : Int), (endT t : Int))
  | .simple p n, _ => by simp only [toNodeT, pos_SimpleType, posT, endT, Int.natCast_add]
  | .named path, h => by
    simp only [wfBridgeT, Bool.and_eq_true] at h
    simp only [toNodeT, identKidsT_eq, pos_NamedType _ _ (pos_identsT path), posT, endT]
    cases path with
    | nil => simp at h
    | cons a r =>
      simp only [List.getLast?_map]
      cases hl : (a :: r).getLast? with
      | none => simp at hl
      | some v => rfl
  | .array a gt item, h => by
    simp only [wfBridgeT] at h
    simp only [toNodeT, pos_ArrayType a gt _ _ _ (pos_bridge_type item h), posT, endT, Int.natCast_add]; rfl
  | .struct s gt fs, h => by
    simp only [wfBridgeT] at h
    simp only [toNodeT, toKidsF_eq, pos_StructType s gt _ _ (pos_bridge_fields fs h), posT, endT, Int.natCast_add]; rfl
/-- … and of the `StructField` nodes -/
theorem pos_bridge_fields : (fs : Fields) → wfBridgeFs fs = true →
    (fieldNodes fs).map (goPosEnd PT) = (fieldSpans fs).map some
  | .nil, _ => rfl
  | .cons none t rest, h => by
    simp only [wfBridgeFs, Bool.and_eq_true] at h
    simp only [fieldNodes, fieldSpans, List.map_cons, Option.map_none, posF, endF,
      pos_StructField_none _ _ _ (pos_bridge_type t h.1.2), pos_bridge_fields rest h.2]
  | .cons (some i) t rest, h => by
    simp only [wfBridgeFs, Bool.and_eq_true] at h
    simp only [fieldNodes, fieldSpans, List.map_cons, Option.map_some, posF, endF,
      pos_StructField_some _ _ _ _ _ _ (pos_identT i) (pos_bridge_type t h.1.2), pos_bridge_fields rest h.2]
end

/-- `StructField.Pos()` / `End()` -/
theorem pos_bridge_field (i : Option Ident) (t : Ty) (ht : wfBridgeT t = true) :
    goPosEnd PT (nStructField (i.map identT) (toNodeT t)) = some ((posF i t : Int), (endF i t : Int)) := by
  cases i with
  | none => exact pos_StructField_none _ _ _ (pos_bridge_type t ht)
  | some i => exact pos_StructField_some _ _ _ _ _ _ (pos_identT i) (pos_bridge_type t ht)

end MF.Bridge
