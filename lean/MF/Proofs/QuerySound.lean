/-
  MF.Proofs.QuerySound — soundness of the query model (MF/Model/Query.lean) w.r.t. the documented grammar G_Q
  (MF/Spec/QueryGrammar.lean): an accepted token list splits as `pre ++ rest`, `pre` reads as the yield of the returned
  tree, the tree is well formed (`WFQ`), and the yield of a well-formed tree is derivable in G_Q.
  The expression slots go through `MF.Expr.parseExpr_sound` (C07) and the erasure theorem `parseExpr_eq_erase`.
-/
import MF.Spec.QueryGrammar
import MF.Proofs.ExprSound
import MF.Proofs.ExprPosErase
namespace MF.Query
open MF MF.Expr

/-! ## `matchB`, `Sp` -/

theorem matchB_append {a b : List QD} {p q : List Token} (h1 : matchB a p = true) (h2 : matchB b q = true) :
    matchB (a ++ b) (p ++ q) = true := by
  induction a generalizing p with
  | nil => cases p with
    | nil => simpa using h2
    | cons t p => simp [matchB] at h1
  | cons d a ih => cases p with
    | nil => simp [matchB] at h1
    | cons t p =>
      simp only [matchB, Bool.and_eq_true] at h1
      simp only [List.cons_append, matchB, Bool.and_eq_true]
      exact ⟨h1.1, ih h1.2⟩

theorem matchB_e {pre : List Token} {ys : List Tok'} (h : pre.map proj = ys) : matchB (ys.map QD.e) pre = true := by
  induction pre generalizing ys with
  | nil => subst h; rfl
  | cons t p ih =>
    subst h
    simp only [List.map_cons, matchB, QD.ok, Bool.and_eq_true, beq_self_eq_true, true_and]
    exact ih rfl

/-- `ts = pre ++ rest` and `pre` reads as `ds` -/
def Sp (ts rest : List Token) (ds : List QD) : Prop := ∃ pre, ts = pre ++ rest ∧ matchB ds pre = true

theorem Sp.refl (ts : List Token) : Sp ts ts [] := ⟨[], rfl, rfl⟩

theorem Sp.trans {a b c : List Token} {d1 d2 : List QD} (h1 : Sp a b d1) (h2 : Sp b c d2) : Sp a c (d1 ++ d2) := by
  obtain ⟨p, rfl, hp⟩ := h1
  obtain ⟨q, rfl, hq⟩ := h2
  exact ⟨p ++ q, by simp, matchB_append hp hq⟩

theorem Sp.cast {a b : List Token} {d d' : List QD} (h : Sp a b d) (e : d = d') : Sp a b d' := e ▸ h

theorem Sp.one {t : Token} {ts : List Token} {d : QD} (h : d.ok t = true) : Sp (t :: ts) ts [d] :=
  ⟨[t], rfl, by simp [matchB, h]⟩

theorem qcur_ne_eof {ts : List Token} {k : QK} (h : qcur ts = k) (hk : k ≠ .eof) :
    ∃ t tl, ts = t :: tl ∧ qk t.kind = k := by
  cases ts with
  | nil => exact absurd h.symm hk
  | cons t tl => exact ⟨t, tl, rfl, h⟩

theorem Sp.kw {ts : List Token} {k : QK} (h : qcur ts = k) (hk : k ≠ .eof) : Sp ts ts.tail [.kw k] := by
  obtain ⟨t, tl, rfl, ht⟩ := qcur_ne_eof h hk
  exact Sp.one (by simp [QD.ok, ht])

theorem qk_ident {k : TokKind} (h : qk k = .ident) : k = .ident := by
  cases k with
  | sym s =>
    simp only [qk, qsym] at h
    split at h
    · rename_i p hp
      have := List.find?_some hp
      have hm := List.mem_of_find?_eq_some hp
      simp only [qsymTable, List.mem_cons, List.not_mem_nil, or_false] at hm
      rcases hm with rfl | rfl | rfl | rfl | rfl | rfl | rfl | rfl | rfl | rfl | rfl | rfl | rfl | rfl | rfl | rfl | rfl | rfl | rfl |
        rfl | rfl | rfl | rfl | rfl | rfl | rfl | rfl | rfl | rfl | rfl | rfl | rfl | rfl | rfl | rfl | rfl | rfl | rfl <;> cases h
    · cases h
  | _ => first | rfl | cases h

theorem qk_int {k : TokKind} (h : qk k = .int) : k = .int := by
  cases k with
  | sym s =>
    simp only [qk, qsym] at h
    split at h
    · rename_i p hp
      have hm := List.mem_of_find?_eq_some hp
      simp only [qsymTable, List.mem_cons, List.not_mem_nil, or_false] at hm
      rcases hm with rfl | rfl | rfl | rfl | rfl | rfl | rfl | rfl | rfl | rfl | rfl | rfl | rfl | rfl | rfl | rfl | rfl | rfl | rfl |
        rfl | rfl | rfl | rfl | rfl | rfl | rfl | rfl | rfl | rfl | rfl | rfl | rfl | rfl | rfl | rfl | rfl | rfl | rfl <;> cases h
    · cases h
  | _ => first | rfl | cases h

theorem qk_param {k : TokKind} (h : qk k = .param) : k = .param := by
  cases k with
  | sym s =>
    simp only [qk, qsym] at h
    split at h
    · rename_i p hp
      have hm := List.mem_of_find?_eq_some hp
      simp only [qsymTable, List.mem_cons, List.not_mem_nil, or_false] at hm
      rcases hm with rfl | rfl | rfl | rfl | rfl | rfl | rfl | rfl | rfl | rfl | rfl | rfl | rfl | rfl | rfl | rfl | rfl | rfl | rfl |
        rfl | rfl | rfl | rfl | rfl | rfl | rfl | rfl | rfl | rfl | rfl | rfl | rfl | rfl | rfl | rfl | rfl | rfl | rfl <;> cases h
    · cases h
  | _ => first | rfl | cases h

/-! ## leaves -/

theorem parseIdent_sound {ts rest : List Token} {i : Ident} (h : parseIdent ts = .ok (i, rest)) :
    Sp ts rest [.ident i.name] := by
  unfold parseIdent at h
  split at h
  · rename_i hc
    obtain ⟨t, tl, rfl, ht⟩ := qcur_ne_eof hc (by decide)
    cases h
    exact Sp.one (by simp [QD.ok, identOf, qk_ident ht])
  · cases h

theorem tryParseAsAlias_sound {ts rest : List Token} {a : Option AsAlias} (h : tryParseAsAlias ts = .ok (a, rest)) :
    Sp ts rest (yOptAs a) := by
  unfold tryParseAsAlias at h
  split at h
  · rename_i hc
    obtain ⟨p, hp, hk⟩ := Res.bind_eq_ok.1 h
    cases hk
    obtain ⟨i, r⟩ := p
    exact ((Sp.kw hc (by decide)).trans (parseIdent_sound hp)).cast (by simp [yOptAs, yAs])
  · rename_i hc
    obtain ⟨t, tl, rfl, ht⟩ := qcur_ne_eof hc (by decide)
    cases h
    exact (Sp.one (d := .ident t.asString) (by simp [QD.ok, qk_ident ht])).cast (by simp [yOptAs, yAs, identOf])
  · cases h; exact Sp.refl _

theorem parsePExpr_sound {f : Nat} {ts rest : List Token} {e : PExpr} (h : parsePExpr f ts = .ok (e, rest)) :
    Sp ts rest (yX e) ∧ okX e := by
  have h' := erase_parse h
  simp only [Res.map_ok, er] at h'
  obtain ⟨⟨pre, rfl, hy⟩, hp, hn⟩ := parseExpr_sound h'
  exact ⟨⟨pre, rfl, matchB_e hy⟩, hp, hn⟩

theorem starModifiers_ok {ts : List Token} (h : starModifiers ts = .ok ()) : qcur ts ≠ .except := by
  unfold starModifiers at h
  split at h
  · cases h
  · assumption

/-! ## select items -/

theorem parseSelectItem_sound {f : Nat} {ts rest : List Token} {i : SelectItem}
    (h : parseSelectItem f ts = .ok (i, rest)) : Sp ts rest (yItem i) ∧ okItem i := by
  unfold parseSelectItem at h
  split at h
  · rename_i hc
    obtain ⟨_, _, hk⟩ := Res.bind_eq_ok.1 h
    cases hk
    exact ⟨Sp.kw hc (by decide), trivial⟩
  · obtain ⟨p, hp, h⟩ := Res.bind_eq_ok.1 h
    obtain ⟨e, r⟩ := p
    obtain ⟨se, oke⟩ := parsePExpr_sound hp
    obtain ⟨a, ha, h⟩ := Res.bind_eq_ok.1 h
    obtain ⟨a, r2⟩ := a
    have sa := tryParseAsAlias_sound ha
    simp only at h
    split at h
    · rename_i as has
      cases h
      exact ⟨se.trans sa, oke⟩
    · rename_i has
      -- no alias: nothing was consumed by tryParseAsAlias
      have hr2 : r2 = r := by
        unfold tryParseAsAlias at ha
        split at ha
        · obtain ⟨p, _, hk⟩ := Res.bind_eq_ok.1 ha
          cases hk
        · cases ha
        · cases ha; rfl
      subst hr2
      split at h
      · rename_i hdot
        split at h
        · rename_i hstar
          obtain ⟨_, _, hk⟩ := Res.bind_eq_ok.1 h
          cases hk
          have s1 := Sp.kw hdot (by decide)
          have s2 := Sp.kw hstar (by decide)
          exact ⟨(se.trans (s1.trans s2)).cast (by simp [yItem]), oke⟩
        · cases h
      · cases h
        exact ⟨se, oke⟩

/-- what `resultsLoop` guarantees about the token behind a trailing comma -/
def TrailEnd (rest : List Token) : Prop :=
  qcur rest = .eof ∨ qcur rest = .from_ ∨ qcur rest = .semi ∨ qcur rest = .rparen

theorem resultsLoop_sound : ∀ (f : Nat) {ts rest : List Token} {is : List SelectItem} {tr : Bool},
    resultsLoop f ts = .ok ((is, tr), rest) →
    Sp ts rest (yItems is ++ trailD tr) ∧ (∀ i ∈ is, okItem i) ∧ (tr = true → TrailEnd rest)
  | 0, _, _, _, _, h => by cases h
  | f + 1, ts, rest, is, tr, h => by
    unfold resultsLoop at h
    split at h
    · rename_i hc
      have sc := Sp.kw hc (by decide)
      split at h
      · cases h; exact ⟨sc.cast (by simp [yItems, trailD]), by simp, fun _ => Or.inl ‹_›⟩
      · cases h; exact ⟨sc.cast (by simp [yItems, trailD]), by simp, fun _ => Or.inr (Or.inl ‹_›)⟩
      · cases h; exact ⟨sc.cast (by simp [yItems, trailD]), by simp, fun _ => Or.inr (Or.inr (Or.inl ‹_›))⟩
      · cases h; exact ⟨sc.cast (by simp [yItems, trailD]), by simp, fun _ => Or.inr (Or.inr (Or.inr ‹_›))⟩
      · obtain ⟨p, hp, h⟩ := Res.bind_eq_ok.1 h
        obtain ⟨i, r⟩ := p
        obtain ⟨si, oki⟩ := parseSelectItem_sound hp
        obtain ⟨q, hq, h⟩ := Res.bind_eq_ok.1 h
        obtain ⟨⟨is', tr'⟩, r'⟩ := q
        cases h
        obtain ⟨sl, okl, htr⟩ := resultsLoop_sound f hq
        refine ⟨(sc.trans (si.trans sl)).cast (by simp [yItems]), ?_, htr⟩
        intro j hj
        rcases List.mem_cons.1 hj with rfl | hj
        · exact oki
        · exact okl j hj
    · cases h
      exact ⟨(Sp.refl _).cast (by simp [yItems, trailD]), by simp, by simp⟩

/-! ## FROM -/

theorem pathLoop_sound : ∀ (f : Nat) {ts rest : List Token} {m : List Ident},
    pathLoop f ts = .ok (m, rest) → Sp ts rest (yPathMore m)
  | 0, _, _, _, h => by cases h
  | f + 1, ts, rest, m, h => by
    unfold pathLoop at h
    split at h
    · rename_i hc
      obtain ⟨p, hp, h⟩ := Res.bind_eq_ok.1 h
      obtain ⟨i, r⟩ := p
      obtain ⟨q, hq, h⟩ := Res.bind_eq_ok.1 h
      obtain ⟨m', r'⟩ := q
      cases h
      exact ((Sp.kw hc (by decide)).trans ((parseIdent_sound hp).trans (pathLoop_sound f hq))).cast (by simp [yPathMore])
    · cases h; exact Sp.refl _

theorem parseTableExpr_sound {f : Nat} {ts rest : List Token} {t : TableExpr}
    (h : parseTableExpr f ts = .ok (t, rest)) : Sp ts rest (yTable t) := by
  unfold parseTableExpr at h
  split at h
  · cases h
  · cases h
  · obtain ⟨p, hp, h⟩ := Res.bind_eq_ok.1 h
    obtain ⟨i, r⟩ := p
    obtain ⟨q, hq, h⟩ := Res.bind_eq_ok.1 h
    obtain ⟨m, r'⟩ := q
    have s1 := parseIdent_sound hp
    have s2 := pathLoop_sound f hq
    simp only at h
    split at h
    · cases h
    · cases h
    · obtain ⟨a, ha, h⟩ := Res.bind_eq_ok.1 h
      obtain ⟨a, r''⟩ := a
      have s3 := tryParseAsAlias_sound ha
      obtain ⟨_, _, h⟩ := Res.bind_eq_ok.1 h
      simp only at h
      split at h
      · cases h
        exact (s1.trans (s2.trans s3)).cast (by simp [yTable, yPathMore])
      · cases h
        exact (s1.trans (s2.trans s3)).cast (by simp [yTable])
  · cases h

theorem tryParseFrom_sound {f : Nat} {ts rest : List Token} {fr : Option From}
    (h : tryParseFrom f ts = .ok (fr, rest)) :
    Sp ts rest (yFrom fr) ∧ (fr = none → rest = ts ∧ qcur ts ≠ .from_) ∧ (qcur ts = .from_ → fr.isSome) := by
  unfold tryParseFrom at h
  split at h
  · rename_i hc
    obtain ⟨p, hp, h⟩ := Res.bind_eq_ok.1 h
    obtain ⟨t, r⟩ := p
    cases h
    exact ⟨((Sp.kw hc (by decide)).trans (parseTableExpr_sound hp)).cast (by simp [yFrom]), by simp, by simp⟩
  · rename_i hc
    cases h
    exact ⟨Sp.refl _, fun _ => ⟨rfl, hc⟩, fun h => absurd h hc⟩

/-! ## WHERE, GROUP BY, HAVING -/

theorem tryParseWhere_sound {f : Nat} {ts rest : List Token} {w : Option Where}
    (h : tryParseWhere f ts = .ok (w, rest)) :
    Sp ts rest (yWhere w) ∧ (∀ x, w = some x → okX x.e) ∧ (w = none → rest = ts) ∧ (qcur ts ≠ .where_ → w = none) := by
  unfold tryParseWhere at h
  split at h
  · rename_i hc
    obtain ⟨p, hp, h⟩ := Res.bind_eq_ok.1 h
    obtain ⟨e, r⟩ := p
    cases h
    obtain ⟨se, oke⟩ := parsePExpr_sound hp
    exact ⟨((Sp.kw hc (by decide)).trans se).cast (by simp [yWhere]), by simpa using oke, by simp, fun h => absurd hc h⟩
  · cases h
    exact ⟨Sp.refl _, by simp, fun _ => rfl, fun _ => rfl⟩

theorem exprListLoop_sound : ∀ (f : Nat) {ts rest : List Token} {es : List PExpr},
    exprListLoop f ts = .ok (es, rest) → Sp ts rest (yExprs es) ∧ ∀ e ∈ es, okX e
  | 0, _, _, _, h => by cases h
  | f + 1, ts, rest, es, h => by
    unfold exprListLoop at h
    split at h
    · rename_i hc
      obtain ⟨p, hp, h⟩ := Res.bind_eq_ok.1 h
      obtain ⟨e, r⟩ := p
      obtain ⟨q, hq, h⟩ := Res.bind_eq_ok.1 h
      obtain ⟨es', r'⟩ := q
      cases h
      obtain ⟨se, oke⟩ := parsePExpr_sound hp
      obtain ⟨sl, okl⟩ := exprListLoop_sound f hq
      refine ⟨((Sp.kw hc (by decide)).trans (se.trans sl)).cast (by simp [yExprs]), ?_⟩
      intro x hx
      rcases List.mem_cons.1 hx with rfl | hx
      · exact oke
      · exact okl x hx
    · cases h; exact ⟨Sp.refl _, by simp⟩

theorem tryParseGroupBy_sound {f : Nat} {ts rest : List Token} {g : Option GroupBy}
    (h : tryParseGroupBy f ts = .ok (g, rest)) :
    Sp ts rest (yGroup g) ∧ (∀ x, g = some x → okX x.first ∧ ∀ e ∈ x.more, okX e) ∧ (g = none → rest = ts) ∧
      (qcur ts ≠ .group → g = none) := by
  unfold tryParseGroupBy at h
  split at h
  · rename_i hc
    split at h
    · rename_i hb
      obtain ⟨p, hp, h⟩ := Res.bind_eq_ok.1 h
      obtain ⟨e, r⟩ := p
      obtain ⟨q, hq, h⟩ := Res.bind_eq_ok.1 h
      obtain ⟨es, r'⟩ := q
      cases h
      obtain ⟨se, oke⟩ := parsePExpr_sound hp
      obtain ⟨sl, okl⟩ := exprListLoop_sound f hq
      refine ⟨((Sp.kw hc (by decide)).trans ((Sp.kw hb (by decide)).trans (se.trans sl))).cast (by simp [yGroup]), ?_, by simp,
        fun h => absurd hc h⟩
      intro x hx
      cases hx
      exact ⟨oke, okl⟩
    · cases h
  · cases h
    exact ⟨Sp.refl _, by simp, fun _ => rfl, fun _ => rfl⟩

theorem tryParseHaving_sound {f : Nat} {ts rest : List Token} {w : Option Having}
    (h : tryParseHaving f ts = .ok (w, rest)) :
    Sp ts rest (yHaving w) ∧ (∀ x, w = some x → okX x.e) ∧ (w = none → rest = ts) ∧ (qcur ts ≠ .having → w = none) := by
  unfold tryParseHaving at h
  split at h
  · rename_i hc
    obtain ⟨p, hp, h⟩ := Res.bind_eq_ok.1 h
    obtain ⟨e, r⟩ := p
    cases h
    obtain ⟨se, oke⟩ := parsePExpr_sound hp
    exact ⟨((Sp.kw hc (by decide)).trans se).cast (by simp [yHaving]), by simpa using oke, by simp, fun h => absurd hc h⟩
  · cases h
    exact ⟨Sp.refl _, by simp, fun _ => rfl, fun _ => rfl⟩

theorem tryParseAllOrDistinct_sound (ts : List Token) :
    Sp ts (tryParseAllOrDistinct ts).2 (yAod (tryParseAllOrDistinct ts).1) := by
  unfold tryParseAllOrDistinct
  split
  · rename_i hc; exact (Sp.kw hc (by decide)).cast (by simp [yAod])
  · rename_i hc; exact (Sp.kw hc (by decide)).cast (by simp [yAod])
  · exact Sp.refl _

/-! ## SELECT -/

/-- the trailing comma stands before FROM, or nothing of the SELECT follows and the next token is `<eof>`, `;` or `)` -/
def trailSel (s : Select) (rest : List Token) : Prop :=
  s.trailing = true → s.from_.isSome ∨
    (s.where_ = none ∧ s.groupBy = none ∧ s.having = none ∧ (qcur rest = .eof ∨ qcur rest = .semi ∨ qcur rest = .rparen))

theorem parseSelect_sound {f : Nat} {ts rest : List Token} {s : Select} (h : parseSelect f ts = .ok (s, rest)) :
    Sp ts rest (ySelect s) ∧ okSelect s ∧ trailSel s rest := by
  unfold parseSelect at h
  split at h
  · rename_i hc
    simp only at h
    split at h
    · cases h
    · have sa := tryParseAllOrDistinct_sound ts.tail
      obtain ⟨i, hi, h⟩ := Res.bind_eq_ok.1 h
      obtain ⟨i, r1⟩ := i
      obtain ⟨si, oki⟩ := parseSelectItem_sound hi
      obtain ⟨l, hl, h⟩ := Res.bind_eq_ok.1 h
      obtain ⟨⟨is, tr⟩, r2⟩ := l
      obtain ⟨sl, okl, htr⟩ := resultsLoop_sound f hl
      obtain ⟨fr, hfr, h⟩ := Res.bind_eq_ok.1 h
      obtain ⟨fr, r3⟩ := fr
      obtain ⟨sf, hfn, hfs⟩ := tryParseFrom_sound hfr
      obtain ⟨w, hw, h⟩ := Res.bind_eq_ok.1 h
      obtain ⟨w, r4⟩ := w
      obtain ⟨sw, okw, hwn, hwk⟩ := tryParseWhere_sound hw
      obtain ⟨g, hg, h⟩ := Res.bind_eq_ok.1 h
      obtain ⟨g, r5⟩ := g
      obtain ⟨sg, okg, hgn, hgk⟩ := tryParseGroupBy_sound hg
      obtain ⟨hv, hh, h⟩ := Res.bind_eq_ok.1 h
      obtain ⟨hv, r6⟩ := hv
      obtain ⟨sh, okh, hhn, hhk⟩ := tryParseHaving_sound hh
      cases h
      refine ⟨?_, ⟨oki, okl, okw, okg, okh⟩, ?_⟩
      · exact ((Sp.kw hc (by decide)).trans (sa.trans (si.trans (sl.trans (sf.trans (sw.trans (sg.trans sh))))))).cast
          (by simp [ySelect])
      · intro htr'
        simp only at htr'
        have te := htr htr'
        simp only
        cases fr with
        | some x => exact Or.inl rfl
        | none =>
          right
          obtain ⟨h32, hnf⟩ := hfn rfl
          subst h32
          have w0 := hwk (by rcases te with h | h | h | h <;> simp [h] at hnf ⊢)
          subst w0
          have := hwn rfl
          subst this
          have g0 := hgk (by rcases te with h | h | h | h <;> simp [h] at hnf ⊢)
          subst g0
          have := hgn rfl
          subst this
          have h0 := hhk (by rcases te with h | h | h | h <;> simp [h] at hnf ⊢)
          subst h0
          have := hhn rfl
          subst this
          refine ⟨rfl, rfl, rfl, ?_⟩
          rcases te with h | h | h | h
          · exact Or.inl h
          · exact absurd h hnf
          · exact Or.inr (Or.inl h)
          · exact Or.inr (Or.inr h)
  · cases h

/-! ## ORDER BY, LIMIT -/

theorem tryParseDirection_sound (ts : List Token) :
    Sp ts (tryParseDirection ts).2 (yDir (tryParseDirection ts).1) := by
  unfold tryParseDirection
  split
  · rename_i hc; exact (Sp.kw hc (by decide)).cast (by simp [yDir])
  · rename_i hc; exact (Sp.kw hc (by decide)).cast (by simp [yDir])
  · exact Sp.refl _

theorem parseOrderByItem_sound {f : Nat} {ts rest : List Token} {i : OrderByItem}
    (h : parseOrderByItem f ts = .ok (i, rest)) : Sp ts rest (yOrdItem i) ∧ okX i.e := by
  unfold parseOrderByItem at h
  obtain ⟨p, hp, h⟩ := Res.bind_eq_ok.1 h
  obtain ⟨e, r⟩ := p
  obtain ⟨se, oke⟩ := parsePExpr_sound hp
  simp only at h
  split at h
  · cases h
  · cases h
    exact ⟨se.trans (tryParseDirection_sound r), oke⟩

theorem orderListLoop_sound : ∀ (f : Nat) {ts rest : List Token} {es : List OrderByItem},
    orderListLoop f ts = .ok (es, rest) → Sp ts rest (yOrdItems es) ∧ ∀ e ∈ es, okX e.e
  | 0, _, _, _, h => by cases h
  | f + 1, ts, rest, es, h => by
    unfold orderListLoop at h
    split at h
    · rename_i hc
      obtain ⟨p, hp, h⟩ := Res.bind_eq_ok.1 h
      obtain ⟨e, r⟩ := p
      obtain ⟨q, hq, h⟩ := Res.bind_eq_ok.1 h
      obtain ⟨es', r'⟩ := q
      cases h
      obtain ⟨se, oke⟩ := parseOrderByItem_sound hp
      obtain ⟨sl, okl⟩ := orderListLoop_sound f hq
      refine ⟨((Sp.kw hc (by decide)).trans (se.trans sl)).cast (by simp [yOrdItems]), ?_⟩
      intro x hx
      rcases List.mem_cons.1 hx with rfl | hx
      · exact oke
      · exact okl x hx
    · cases h; exact ⟨Sp.refl _, by simp⟩

theorem tryParseOrderBy_sound {f : Nat} {ts rest : List Token} {o : Option OrderBy}
    (h : tryParseOrderBy f ts = .ok (o, rest)) :
    Sp ts rest (yOrder o) ∧ (∀ x, o = some x → okOrder x) ∧ (o = none → rest = ts) ∧ (qcur ts ≠ .order → o = none) := by
  unfold tryParseOrderBy at h
  split at h
  · rename_i hc
    split at h
    · rename_i hb
      obtain ⟨p, hp, h⟩ := Res.bind_eq_ok.1 h
      obtain ⟨e, r⟩ := p
      obtain ⟨q, hq, h⟩ := Res.bind_eq_ok.1 h
      obtain ⟨es, r'⟩ := q
      cases h
      obtain ⟨se, oke⟩ := parseOrderByItem_sound hp
      obtain ⟨sl, okl⟩ := orderListLoop_sound f hq
      refine ⟨((Sp.kw hc (by decide)).trans ((Sp.kw hb (by decide)).trans (se.trans sl))).cast (by simp [yOrder]), ?_, by simp,
        fun h => absurd hc h⟩
      intro x hx
      cases hx
      exact ⟨oke, okl⟩
    · cases h
  · cases h
    exact ⟨Sp.refl _, by simp, fun _ => rfl, fun _ => rfl⟩

theorem parseIntValue_sound {ts rest : List Token} {v : IntValue} (h : parseIntValue ts = .ok (v, rest)) :
    Sp ts rest [yInt v] := by
  unfold parseIntValue at h
  split at h
  · rename_i hc
    obtain ⟨t, tl, rfl, ht⟩ := qcur_ne_eof hc (by decide)
    cases h
    exact Sp.one (by simp [QD.ok, yInt, qk_param ht])
  · rename_i hc
    obtain ⟨t, tl, rfl, ht⟩ := qcur_ne_eof hc (by decide)
    cases h
    exact Sp.one (by simp [QD.ok, yInt, qk_int ht])
  · cases h
  · cases h

theorem tryParseOffset_sound {ts rest : List Token} {o : Option Offset} (h : tryParseOffset ts = .ok (o, rest)) :
    Sp ts rest (yOffset o) := by
  unfold tryParseOffset at h
  split at h
  · rename_i hc
    obtain ⟨p, hp, h⟩ := Res.bind_eq_ok.1 h
    obtain ⟨v, r⟩ := p
    cases h
    cases ts with
    | nil => simp [hd, Token.isKeywordLike] at hc
    | cons t tl =>
      exact ((Sp.one (d := .offsetKw) (by simpa [QD.ok] using hc)).trans (parseIntValue_sound hp)).cast (by simp [yOffset])
  · cases h; exact Sp.refl _

theorem tryParseLimit_sound {ts rest : List Token} {l : Option Limit} (h : tryParseLimit ts = .ok (l, rest)) :
    Sp ts rest (yLimit l) ∧ (l = none → rest = ts) ∧ (qcur ts ≠ .limit → l = none) := by
  unfold tryParseLimit at h
  split at h
  · rename_i hc
    obtain ⟨p, hp, h⟩ := Res.bind_eq_ok.1 h
    obtain ⟨c, r⟩ := p
    obtain ⟨q, hq, h⟩ := Res.bind_eq_ok.1 h
    obtain ⟨o, r'⟩ := q
    cases h
    exact ⟨((Sp.kw hc (by decide)).trans ((parseIntValue_sound hp).trans (tryParseOffset_sound hq))).cast (by simp [yLimit]),
      by simp, fun h => absurd hc h⟩
  · cases h
    exact ⟨Sp.refl _, fun _ => rfl, fun _ => rfl⟩

/-! ## the query expression and the entry points -/

theorem parseQueryExprSuffix_sound {f : Nat} {s : Select} {ts rest : List Token} {q : QueryExpr}
    (hs : okSelect s) (ht : trailSel s ts) (h : parseQueryExprSuffix f s ts = .ok (q, rest)) :
    Sp ts rest (yOrder (match q with | .select _ => none | .query _ o _ => o) ++
      yLimit (match q with | .select _ => none | .query _ _ l => l)) ∧
    (match q with | .select s' => s' = s | .query s' _ _ => s' = s) ∧ okQE q := by
  unfold parseQueryExprSuffix at h
  obtain ⟨o, ho, h⟩ := Res.bind_eq_ok.1 h
  obtain ⟨o, r1⟩ := o
  obtain ⟨so, oko, hon, hok⟩ := tryParseOrderBy_sound ho
  obtain ⟨l, hl, h⟩ := Res.bind_eq_ok.1 h
  obtain ⟨l, r2⟩ := l
  obtain ⟨sl, hln, hlk⟩ := tryParseLimit_sound hl
  have tr : trailOK s o l := by
    intro htr
    rcases ht htr with h | ⟨h1, h2, h3, h4⟩
    · exact Or.inl h
    · right
      have e1 : qcur ts ≠ .order := by rcases h4 with h | h | h <;> simp [h]
      have o0 := hok e1
      subst o0
      have := hon rfl
      subst this
      have e2 : qcur r1 ≠ .limit := by rcases h4 with h | h | h <;> simp [h]
      exact ⟨h1, h2, h3, rfl, hlk e2⟩
  simp only at h
  split at h
  · cases h
  · cases h
  · split at h
    · cases h
      have := hon rfl
      subst this
      have := hln rfl
      subst this
      exact ⟨(Sp.refl _).cast (by simp [yOrder, yLimit]), rfl, hs, tr⟩
    · cases h
      exact ⟨so.trans sl, rfl, hs, oko, tr⟩

theorem parseQueryExpr_sound {f : Nat} {ts rest : List Token} {q : QueryExpr}
    (h : parseQueryExpr f ts = .ok (q, rest)) : Sp ts rest (yQE q) ∧ okQE q := by
  unfold parseQueryExpr at h
  split at h
  · cases h
  · obtain ⟨s, hs, h⟩ := Res.bind_eq_ok.1 h
    obtain ⟨s, r⟩ := s
    have hs' : parseSelect f ts = .ok (s, r) := by
      unfold parseSimpleQueryExpr at hs
      split at hs
      · cases hs
      · cases hs
      · exact hs
      · cases hs
    obtain ⟨ss, oks, tr⟩ := parseSelect_sound hs'
    simp only at h
    split at h
    · cases h
    · cases h
    · obtain ⟨sq, heq, okq⟩ := parseQueryExprSuffix_sound oks tr h
      refine ⟨?_, okq⟩
      cases q with
      | select s' =>
        simp only at heq; subst heq
        exact (ss.trans sq).cast (by simp [yQE, yOrder, yLimit])
      | query s' o l =>
        simp only at heq; subst heq
        exact (ss.trans sq).cast (by simp [yQE])

theorem parseQueryStatement_sound {f : Nat} {ts rest : List Token} {q : QueryStatement}
    (h : parseQueryStatement f ts = .ok (q, rest)) : Sp ts rest (yieldQ q) ∧ WFQ q := by
  unfold parseQueryStatement at h
  split at h
  · cases h
  · obtain ⟨p, hp, h⟩ := Res.bind_eq_ok.1 h
    cases h
    exact parseQueryExpr_sound hp

/-! ## the yield of a well-formed tree is derivable in G_Q -/

theorem exprY_of_ok {e : PExpr} (h : okX e) : ExprY (yX e) := ⟨erase e, h.1, h.2, rfl⟩

theorem aliasD_yAs (a : AsAlias) : AliasD (yAs a) := by
  unfold yAs
  cases a.as with
  | none => exact AliasD.bare _
  | some p => exact AliasD.as_ _

theorem itemD_yItem {i : SelectItem} (h : okItem i) : ItemD (yItem i) := by
  cases i with
  | star s => exact ItemD.star
  | dotStar s e => exact ItemD.dotStar (exprY_of_ok h)
  | alias e a => exact ItemD.alias (exprY_of_ok h) (aliasD_yAs a)
  | expr e => exact ItemD.expr (exprY_of_ok h)

theorem sepBy_items : ∀ (i : SelectItem) (is : List SelectItem), okItem i → (∀ j ∈ is, okItem j) →
    SepBy ItemD (yItem i ++ yItems is)
  | i, [], hi, _ => by simpa [yItems] using SepBy.one (itemD_yItem hi)
  | i, j :: is, hi, hj => by
    simp only [yItems]
    exact SepBy.cons (itemD_yItem hi) (sepBy_items j is (hj j (by simp)) (fun k hk => hj k (by simp [hk])))

theorem sepBy_exprs : ∀ (e : PExpr) (es : List PExpr), okX e → (∀ j ∈ es, okX j) → SepBy ExprY (yX e ++ yExprs es)
  | e, [], he, _ => by simpa [yExprs] using SepBy.one (exprY_of_ok he)
  | e, j :: es, he, hj => by
    simp only [yExprs]
    exact SepBy.cons (exprY_of_ok he) (sepBy_exprs j es (hj j (by simp)) (fun k hk => hj k (by simp [hk])))

theorem ordItemD_y (i : OrderByItem) (h : okX i.e) : OrdItemD (yOrdItem i) := by
  unfold yOrdItem
  rcases hd : i.dir with _ | ⟨d, p⟩
  · simpa [yDir] using OrdItemD.plain (exprY_of_ok h)
  · cases d
    · exact OrdItemD.asc (exprY_of_ok h)
    · exact OrdItemD.desc (exprY_of_ok h)

theorem sepBy_ord : ∀ (e : OrderByItem) (es : List OrderByItem), okX e.e → (∀ j ∈ es, okX j.e) →
    SepBy OrdItemD (yOrdItem e ++ yOrdItems es)
  | e, [], he, _ => by simpa [yOrdItems] using SepBy.one (ordItemD_y e he)
  | e, j :: es, he, hj => by
    simp only [yOrdItems]
    exact SepBy.cons (ordItemD_y e he) (sepBy_ord j es (hj j (by simp)) (fun k hk => hj k (by simp [hk])))

theorem pathD_y (f : Ident) : ∀ m : List Ident, PathD (.ident f.name :: yPathMore m)
  | [] => PathD.one _
  | i :: m => by simpa [yPathMore] using PathD.cons f.name (pathD_y i m)

theorem fromD_y (f : From) : FromD (yFrom (some f)) := by
  obtain ⟨p, src⟩ := f
  cases src with
  | tableName t a =>
    cases a with
    | none => simpa [yFrom, yTable, yOptAs] using FromD.plain (PathD.one t.name)
    | some a => simpa [yFrom, yTable, yOptAs] using FromD.alias (PathD.one t.name) (aliasD_yAs a)
  | path f m a =>
    cases a with
    | none => simpa [yFrom, yTable, yOptAs] using FromD.plain (pathD_y f m)
    | some a => simpa [yFrom, yTable, yOptAs] using FromD.alias (pathD_y f m) (aliasD_yAs a)

theorem intD_y (v : IntValue) : IntD (yInt v) := by
  cases v with
  | param a n => exact IntD.param n
  | int p e b raw => exact IntD.int raw

theorem limitD_y (l : Limit) : LimitD (yLimit (some l)) := by
  obtain ⟨p, c, o⟩ := l
  cases o with
  | none => simpa [yLimit, yOffset] using LimitD.plain (intD_y c)
  | some o => simpa [yLimit, yOffset] using LimitD.offset (intD_y c) (intD_y o.value)

theorem aodD_y (a : Option AllOrDistinct) : AodD (yAod a) := by
  rcases a with _ | a
  · exact AodD.none
  · cases a
    · exact AodD.all
    · exact AodD.distinct

theorem yFrom_ne_nil {f : Option From} (h : f.isSome) : yFrom f ≠ [] := by
  cases f with
  | none => cases h
  | some f => simp [yFrom]

theorem select_derivable {s : Select} {o : Option OrderBy} {l : Option Limit} (hs : okSelect s)
    (ho : ∀ ob, o = some ob → okOrder ob) (ht : trailOK s o l) : QueryD (ySelect s ++ (yOrder o ++ yLimit l)) := by
  obtain ⟨hi, him, hw, hg, hh⟩ := hs
  have hfr : Opt FromD (yFrom s.from_) := by
    cases hf : s.from_ with
    | none => exact Opt.none
    | some f => exact Opt.some (fromD_y f)
  have hwh : Opt WhereD (yWhere s.where_) := by
    cases hx : s.where_ with
    | none => exact Opt.none
    | some w => exact Opt.some (WhereD.mk (exprY_of_ok (hw w hx)))
  have hgr : Opt GroupD (yGroup s.groupBy) := by
    cases hx : s.groupBy with
    | none => exact Opt.none
    | some g => exact Opt.some (GroupD.mk (sepBy_exprs g.first g.more (hg g hx).1 (hg g hx).2))
  have hha : Opt HavingD (yHaving s.having) := by
    cases hx : s.having with
    | none => exact Opt.none
    | some h => exact Opt.some (HavingD.mk (exprY_of_ok (hh h hx)))
  have hor : Opt OrderD (yOrder o) := by
    cases o with
    | none => exact Opt.none
    | some ob => exact Opt.some (OrderD.mk (sepBy_ord ob.first ob.more (ho ob rfl).1 (ho ob rfl).2))
  have hli : Opt LimitD (yLimit l) := by
    cases l with
    | none => exact Opt.none
    | some l => exact Opt.some (limitD_y l)
  have key : QueryD _ := QueryG.mk s.trailing (aodD_y s.aod) (sepBy_items s.first s.more hi him) hfr hwh hgr hha hor hli (by
    intro htr
    rcases ht htr with h | ⟨h1, h2, h3, h4, h5⟩
    · exact Or.inl (yFrom_ne_nil h)
    · right
      simp [h1, h2, h3, h4, h5, yWhere, yGroup, yHaving, yOrder, yLimit])
  simpa [ySelect, List.append_assoc] using key

theorem yield_derivable {q : QueryStatement} (h : WFQ q) : QueryD (yieldQ q) := by
  obtain ⟨q⟩ := q
  cases q with
  | select s =>
    have := select_derivable (o := none) (l := none) h.1 (by simp) h.2
    simpa [yieldQ, yQE, yOrder, yLimit] using this
  | query s o l =>
    exact select_derivable h.1 h.2.1 h.2.2

end MF.Query
