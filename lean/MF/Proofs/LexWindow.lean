/-
  MF.Proofs.LexWindow — lexing a WINDOW of the input: for a lexer step of `buf` from a position `P + a` whose token ends
  at or before `Q` and is an identifier, a keyword or a punctuation token, the same step on `W = buf[P:Q]` from position
  `a` produces the same token moved down by `P`.  Unlike the cut lemmas of MF/Proofs/LexLocal.lean there is no sentinel
  at the cut (the byte after the window is arbitrary — possibly the second `>` of a `>>`), positions are really shifted
  (`p0` changes), and the previous token's kind may differ when the token is not `.`.
-/
import MF.Proofs.LexLocal
import MF.Proofs.TypeLex
namespace MF.Lex

/-! ## the scanners do not depend on `p0` when they succeed -/

macro "p0_auto" : tactic => `(tactic| (
  all_goals first | (cases ‹_ = _›; done) | (simp_all; done)))

theorem escapeDigits_p0 {R : Bytes} {p0 p0' i : Nat} {pred : UInt8 → Bool} {start size base maxv : Nat}
    {k : ErrKind} {cp : Bool} {bs : Bytes} {i' : Nat}
    (h : escapeDigits R p0 i pred start size base maxv k cp = .bytes bs i') :
    escapeDigits R p0' i pred start size base maxv k cp = .bytes bs i' := by
  unfold escapeDigits at h ⊢
  repeat' split at h
  all_goals first | (cases h; done) | (simp_all; done) | (cases h; simp_all; done)

theorem escape_p0 {R : Bytes} {p0 p0' : Nat} {u : Bool} {i : Nat} {c : UInt8} {bs : Bytes} {i' : Nat}
    (h : escape R p0 u i c = .bytes bs i') : escape R p0' u i c = .bytes bs i' := by
  unfold escape at h ⊢
  repeat' split at h
  all_goals first | (cases h; done) | (simp_all; done) | (cases h; simp_all; done) | (simp_all; exact escapeDigits_p0 h)

theorem quotedStep_p0_next {R : Bytes} {tp tp' p0 p0' : Nat} {q : Bytes} {raw uni isId : Bool} {i : Nat} {ct : Bytes}
    {he : Bool} {i' : Nat} {ct' : Bytes} {he' : Bool}
    (h : quotedStep R tp p0 q raw uni isId false i ct he = .next i' ct' he') :
    quotedStep R tp' p0' q raw uni isId false i ct he = .next i' ct' he' := by
  unfold quotedStep at h ⊢
  simp only [Bool.false_eq_true, if_false] at h ⊢
  repeat' split at h
  all_goals first
    | (cases h; done) | (simp_all; done) | (cases h; simp_all; done)
    | (rename_i bs j hesc; rw [escape_p0 hesc]; cases h; simp_all; done)
    | (rename_i bs j hesc; simp_all [escape_p0 hesc]; done)

theorem quotedStep_p0_done {R : Bytes} {tp tp' p0 p0' : Nat} {q : Bytes} {raw uni isId : Bool} {i : Nat} {ct : Bytes}
    {he : Bool} {qc : QC}
    (h : quotedStep R tp p0 q raw uni isId false i ct he = .done qc) :
    quotedStep R tp' p0' q raw uni isId false i ct he = .done qc := by
  unfold quotedStep at h ⊢
  simp only [Bool.false_eq_true, if_false] at h ⊢
  repeat' split at h
  all_goals first | (cases h; done) | (simp_all; done) | (cases h; simp_all; done)

theorem quotedLoop_p0 {R : Bytes} {tp tp' p0 p0' : Nat} {q : Bytes} {raw uni isId : Bool} {fuel i : Nat} {ct : Bytes}
    {he : Bool} {qc : QC}
    (h : quotedLoop R tp p0 q raw uni isId false fuel i ct he = .ok qc) :
    quotedLoop R tp' p0' q raw uni isId false fuel i ct he = .ok qc := by
  induction fuel generalizing i ct he with
  | zero => simp [quotedLoop] at h
  | succ fuel ih =>
    simp only [quotedLoop] at h ⊢
    cases hs : quotedStep R tp p0 q raw uni isId false i ct he with
    | done qc' =>
      rw [hs] at h
      rw [quotedStep_p0_done hs]
      exact h
    | fail e => rw [hs] at h; cases h
    | crash => rw [hs] at h; cases h
    | next j c2 h2 =>
      rw [hs] at h
      rw [quotedStep_p0_next hs]
      exact ih h

theorem consumeQuotedContent_p0 {R : Bytes} {p0 p0' : Nat} {q : Bytes} {raw uni isId : Bool} {qc : QC}
    (h : consumeQuotedContent R p0 q raw uni isId false = .ok qc) :
    consumeQuotedContent R p0' q raw uni isId false = .ok qc := by
  unfold consumeQuotedContent at h ⊢
  exact quotedLoop_p0 h

theorem skipComment_p0 {R : Bytes} {p0 p0' : Nat} {r : Nat × Bool} (h : skipComment R p0 false = .ok r) :
    skipComment R p0' false = .ok r := by
  unfold skipComment at h ⊢
  repeat' split at h
  all_goals first | (cases h; done) | (simp_all; done) | (cases h; simp_all; done)

/-! ## one token scan on a truncated buffer, with another `p0` and another previous kind -/

/-- the token kinds of the type vocabulary: identifiers, keywords, punctuation -/
def TyKind (k : TokKind) : Prop := k = .ident ∨ ∃ s, k = .sym s

theorem TyKind.ne {k : TokKind} (h : TyKind k) :
    k ≠ .int ∧ k ≠ .float ∧ k ≠ .bad ∧ k ≠ .string ∧ k ≠ .bytes ∧ k ≠ .param ∧ k ≠ .eof := by
  rcases h with rfl | ⟨s, rfl⟩ <;> simp

theorem peekIs_take_two {R : Bytes} {m : Nat} (h : 2 ≤ m) (x : UInt8) : peekIs (R.take m) 1 x = peekIs R 1 x := by
  unfold peekIs; rw [take_getElem?_lt (by omega)]

theorem peekIs_take_one (R : Bytes) (x : UInt8) : peekIs (R.take 1) 1 x = false := by
  unfold peekIs; rw [take_getElem?_ge (Nat.le_refl _)]; rfl

theorem peekSat_take_two {R : Bytes} {m : Nat} (h : 2 ≤ m) (P : UInt8 → Bool) :
    peekSat (R.take m) 1 P = peekSat R 1 P := by
  unfold peekSat; rw [take_getElem?_lt (by omega)]

theorem peekSat_take_one (R : Bytes) (P : UInt8 → Bool) : peekSat (R.take 1) 1 P = false := by
  unfold peekSat; rw [take_getElem?_ge (Nat.le_refl _)]

theorem fallbackTok_win {R : Bytes} {c : UInt8} {p0 p0' : Nat} {sc : Scan} {m : Nat}
    (h : fallbackTok R c p0 false = .ok sc) (hm : sc.len ≤ m) : fallbackTok (R.take m) c p0' false = .ok sc := by
  unfold fallbackTok at h ⊢
  split at h
  · rename_i hs
    simp only [hs, if_true]
    cases h
    have : spanLen Char.isIdentPart R ≤ m := by
      unfold identTok at hm
      simp only at hm
      split at hm <;> exact hm
    rw [identTok_take this]
  · simp at h

theorem stringTok_win {R : Bytes} {c : UInt8} {p0 p0' : Nat} {sc : Scan} {m : Nat}
    (h : stringTok R c p0 false = .ok sc) (hm : sc.len ≤ m) (hk : TyKind sc.kind) :
    stringTok (R.take m) c p0' false = .ok sc := by
  unfold stringTok at h ⊢
  split at h
  · exfalso
    split at h
    · cases h
    · have := (quotedTok_kind h).1
      rcases this with h1 | h1
      · rw [h1] at hk
        rcases hk with hk | ⟨s, hk⟩ <;> split at hk <;> cases hk
      · rw [h1] at hk
        exact hk.ne.2.2.1 rfl
  · rename_i hsp
    rw [strPrefix_take_none hsp]
    exact fallbackTok_win h hm

theorem tokBody_win {R : Bytes} {c : UInt8} {p0 p0' : Nat} {lk lk' : TokKind} {sc : Scan} {m : Nat}
    (h : tokBody R c p0 lk false = .ok sc) (hm : sc.len ≤ m) (hm1 : 1 ≤ m) (hk : TyKind sc.kind)
    (hlk : isNextDotIdent lk' = isNextDotIdent lk ∨ sc.kind ≠ K ".") :
    tokBody (R.take m) c p0' lk' false = .ok sc := by
  have hnum : ∀ {p : Nat}, consumeNumber R p false = .ok sc → False := by
    intro p hn
    have := (consumeNumber_kind hn).1
    rcases this with h1 | h1 | h1
    · exact hk.ne.1 h1
    · exact hk.ne.2.1 h1
    · exact hk.ne.2.2.1 h1
  unfold tokBody at h ⊢
  by_cases h2 : 2 ≤ m
  · -- every look-ahead byte is inside the truncated buffer
    have pI := fun x => peekIs_take_two (R := R) h2 x
    have pS := fun P => peekSat_take_two (R := R) h2 P
    split at h
    · exact h
    · rw [pS]
      split at h
      · exact (hnum h).elim
      · rename_i hc
        cases h
        have hlk' : isNextDotIdent lk' = isNextDotIdent lk := by
          rcases hlk with h | h
          · exact h
          · exact absurd rfl h
        rw [hlk']
        simp only [hc, Bool.false_eq_true, if_false]
    · simp only [pI]; exact h
    · simp only [pI]; exact h
    · simp only [pI]; exact h
    · simp only [pI]; exact h
    · simp only [pI]; exact h
    · simp only [pI]; exact h
    · simp only [pI]; exact h
    · simp only [pI, pS]
      split at h
      · rename_i hc; simp only [hc, if_true]; exact h
      · rename_i hc
        simp only [hc, Bool.false_eq_true, if_false]
        split at h
        · exfalso
          unfold paramTok at h
          cases h
          exact hk.ne.2.2.2.2.2.1 rfl
        · rename_i hc2; simp only [hc2, Bool.false_eq_true, if_false]; exact h
    · unfold quotedTok at h
      split at h
      · rename_i qc hqc
        cases h
        simp only at hm
        rw [consumeQuotedContent_take (consumeQuotedContent_p0 hqc) (by decide) (by omega)]
        rfl
      · cases h
      · cases h
    · exact (hnum h).elim
    · exact stringTok_win h hm hk
    · exact fallbackTok_win h hm
  · -- the token is one byte long and it is the whole truncated buffer
    have hm' : m = 1 := by omega
    subst hm'
    have hlen : sc.len ≤ 1 := hm
    simp only [peekIs_take_one, peekSat_take_one, Bool.false_eq_true, if_false, Bool.and_false]
    split at h
    · exact h
    · split at h
      · exact (hnum h).elim
      · cases h
        have hlk' : isNextDotIdent lk' = isNextDotIdent lk := by
          rcases hlk with h | h
          · exact h
          · exact absurd rfl h
        rw [hlk']
    all_goals first
      | exact (hnum h).elim
      | exact stringTok_win h hm hk
      | exact fallbackTok_win h hm
      | (unfold quotedTok at h
         split at h
         · rename_i qc hqc
           cases h
           simp only at hm
           rw [consumeQuotedContent_take (consumeQuotedContent_p0 hqc) (by decide) (by omega)]
           rfl
         · cases h
         · cases h)
      | ((repeat' split at h) <;>
          first
            | exact h
            | (simp only [tok2, Res.ok.injEq] at h; subst h; simp at hlen)
            | (exfalso; unfold paramTok at h; cases h; exact hk.ne.2.2.2.2.2.1 rfl))

theorem consumeToken_win {R : Bytes} {p0 p0' : Nat} {lk lk' : TokKind} {sc : Scan} {m : Nat}
    (h : consumeToken R p0 lk false = .ok sc) (hm : sc.len ≤ m) (hk : TyKind sc.kind)
    (hlk : isNextDotIdent lk' = isNextDotIdent lk ∨ sc.kind ≠ K ".") :
    consumeToken (R.take m) p0' lk' false = .ok sc := by
  cases R with
  | nil =>
    rw [consumeToken_nil] at h
    cases h
    exact absurd rfl hk.ne.2.2.2.2.2.2
  | cons c t =>
    have hpos := (consumeToken_ok h).pos (by simp)
    cases m with
    | zero => omega
    | succ m =>
      rw [consumeToken_cons] at h
      have := tokBody_win (p0' := p0') (lk' := lk') h hm (by omega) hk hlk
      rw [List.take_succ_cons] at this ⊢
      rw [consumeToken_cons]; exact this

theorem consumeFieldToken_win {R : Bytes} {p0 p0' : Nat} {lk lk' : TokKind} {sc : Scan} {m : Nat}
    (h : consumeFieldToken R p0 lk false = .ok sc) (hm : sc.len ≤ m) (hk : TyKind sc.kind)
    (hlk : isNextDotIdent lk' = isNextDotIdent lk ∨ sc.kind ≠ K ".") :
    consumeFieldToken (R.take m) p0' lk' false = .ok sc := by
  cases R with
  | nil =>
    unfold consumeFieldToken at h
    simp only at h
    rw [consumeToken_nil] at h
    cases h
    exact absurd rfl hk.ne.2.2.2.2.2.2
  | cons c t =>
    have hpos := (consumeFieldToken_ok h).pos (by simp)
    cases m with
    | zero => omega
    | succ m =>
      rw [List.take_succ_cons]
      unfold consumeFieldToken at h ⊢
      simp only at h ⊢
      split at h
      · rename_i hc
        simp only [hc, if_true]
        cases h
        simp only at hm
        rw [← List.take_succ_cons, spanLen_take_le hm, List.take_take, Nat.min_eq_left hm]
      · rename_i hc
        simp only [hc, Bool.false_eq_true, if_false]
        rw [← List.take_succ_cons]
        exact consumeToken_win h hm hk hlk

/-! ## the window -/

/-- `W` is the window `buf[P:Q]` -/
structure Win (buf W : Bytes) (P Q : Nat) : Prop where
  le : P ≤ Q
  leLen : Q ≤ buf.length
  eq : W = slice buf P Q

theorem Win.len {buf W : Bytes} {P Q : Nat} (w : Win buf W P Q) : W.length = Q - P := by
  rw [w.eq, slice_length w.le w.leLen]

theorem Win.drop {buf W : Bytes} {P Q : Nat} (w : Win buf W P Q) (a : Nat) :
    W.drop a = (buf.drop (P + a)).take (Q - P - a) := by
  rw [w.eq]
  unfold slice
  rw [List.drop_take, List.drop_drop]

theorem Win.slice? {buf W : Bytes} {P Q : Nat} (w : Win buf W P Q) {a b : Nat} (hab : a ≤ b) (hb : P + b ≤ Q) :
    MF.slice? W a b = MF.slice? buf (P + a) (P + b) := by
  have h1 : b ≤ W.length := by rw [w.len]; omega
  have h2 : P + b ≤ buf.length := Nat.le_trans hb w.leLen
  rw [slice?_of_le hab h1, slice?_of_le (by omega) h2]
  congr 1
  unfold slice
  rw [w.drop a, List.take_take]
  congr 1
  omega

theorem triviaLoop_win {buf W : Bytes} {P Q : Nat} (w : Win buf W P Q) {f : Nat} :
    ∀ {f' a : Nat} {cs cs0 : List Comment} {pos' : Nat} {cs' : List Comment} {space : Bytes} {he : Bool},
      triviaLoop buf false f (P + a) cs = .ok (pos', cs', space, he) → pos' ≤ Q → Q - P < f' + a →
      ∃ a' cs'', pos' = P + a' ∧ triviaLoop W false f' a cs0 = .ok (a', cs'', space, he) := by
  induction f with
  | zero => intro f' a cs cs0 pos' cs' space he h; simp [triviaLoop] at h
  | succ f ih =>
    intro f' a cs cs0 pos' cs' space he h hpe hf'
    have hle := triviaLoop_pos_le h
    cases f' with
    | zero => omega
    | succ f' =>
    simp only [triviaLoop] at h ⊢
    -- white space
    have hk : P + a + skipSpaces (buf.length + 1) (buf.drop (P + a)) ≤ pos' := by
      split at h
      · cases h
      · split at h
        · cases h
        · cases h
        · split at h
          · cases h; omega
          · split at h
            · cases h
            · split at h
              · cases h; omega
              · have := triviaLoop_pos_le h; omega
    have hsk : skipSpaces (W.length + 1) (W.drop a) = skipSpaces (buf.length + 1) (buf.drop (P + a)) := by
      rw [w.drop a, w.len]
      rw [skipSpaces_fuel (f2 := buf.length + 1) (by rw [List.length_take]; omega)
        (by rw [List.length_take, List.length_drop]; have := w.leLen; omega)]
      exact skipSpaces_take (by omega)
    rw [hsk]
    generalize hkk : skipSpaces (buf.length + 1) (buf.drop (P + a)) = k at h hk ⊢
    split at h
    · cases h
    · rename_i space1 hsp
      rw [w.slice? (Nat.le_add_right _ _) (by omega), ← Nat.add_assoc, hsp]
      simp only
      split at h
      · cases h
      · cases h
      · rename_i n he1 hsc
        have hn : P + a + k + n ≤ pos' := by
          split at h
          · rename_i hn0
            have : n = 0 := by simpa using hn0
            omega
          · split at h
            · cases h
            · split at h
              · rename_i hhe
                exact absurd (skipComment_err_np (by rw [hsc, hhe])) (by simp)
              · have := triviaLoop_pos_le h; omega
        rw [w.drop (a + k), ← Nat.add_assoc, skipComment_take (skipComment_p0 hsc) (by omega)]
        simp only
        split at h
        · rename_i hn0
          simp only [hn0, if_true]
          cases h
          exact ⟨a + k, cs0, by omega, rfl⟩
        · rename_i hn0
          simp only [hn0, Bool.false_eq_true, if_false]
          have hn0' : n ≠ 0 := by simpa using hn0
          split at h
          · cases h
          · rename_i raw hraw
            have e1 : MF.slice? W (a + k) (a + k + n) = some raw := by
              rw [w.slice? (Nat.le_add_right _ _) (by omega), ← hraw]
              congr 1 <;> omega
            rw [e1]
            simp only
            split at h
            · rename_i hhe
              simp only [hhe, if_true]
              cases h
              exact ⟨a + k, cs0, by omega, rfl⟩
            · rename_i hhe
              simp only [hhe, Bool.false_eq_true, if_false]
              have h' : triviaLoop buf false f (P + (a + k + n))
                  (cs ++ [{ space := space1, raw := raw, pos := P + a + k, «end» := P + a + k + n }]) =
                  .ok (pos', cs', space, he) := by
                rw [← Nat.add_assoc, ← Nat.add_assoc]; exact h
              exact ih h' hpe (by omega)

/-- restarting the trivia loop where it stopped (at the start of a token) skips nothing -/
theorem triviaLoop_restart {buf : Bytes} {f : Nat} :
    ∀ {pos : Nat} {cs : List Comment} {pos' : Nat} {cs' : List Comment} {space : Bytes},
      triviaLoop buf false f pos cs = .ok (pos', cs', space, false) → ∀ f', pos' ≤ buf.length →
      triviaLoop buf false (f' + 1) pos' [] = .ok (pos', [], [], false) := by
  induction f with
  | zero => intro pos cs pos' cs' space h; simp [triviaLoop] at h
  | succ f ih =>
    intro pos cs pos' cs' space h f' hlen
    simp only [triviaLoop] at h
    split at h
    · cases h
    · rename_i space1 hsp
      split at h
      · cases h
      · cases h
      · rename_i n he1 hsc
        split at h
        · -- the loop stopped here: `pos' = pos + skipSpaces …` and no comment starts there
          rename_i hn0
          have hn : n = 0 := by simpa using hn0
          cases h
          subst hn
          simp only [triviaLoop]
          have hz : skipSpaces (buf.length + 1) (buf.drop (pos + skipSpaces (buf.length + 1) (buf.drop pos))) = 0 := by
            rcases skipSpaces_idem (buf.length + 1) (buf.drop pos) (buf.length + 1) with h0 | h0
            · rw [List.drop_drop] at h0
              exact h0
            · simp only [List.length_drop] at h0; omega
          rw [hz]
          simp only [Nat.add_zero]
          rw [slice?_of_le (Nat.le_refl _) hlen, slice_self, skipComment_p0 hsc]
          simp
        · split at h
          · cases h
          · split at h
            · cases h
            · exact ih h f' hlen

/-- the trivia loop of the step that produces a window token: from inside the window (`s.pos = P + a`), or — for the
FIRST token of the window — from before it, stopping exactly at the window start -/
theorem trivia_for_window {buf W : Bytes} {P Q : Nat} (w : Win buf W P Q) {spos a pos : Nat} {comments : List Comment}
    {space : Bytes}
    (htl : triviaLoop buf false (buf.length + 2) spos [] = .ok (pos, comments, space, false))
    (hp : spos = P + a ∨ (pos = P ∧ a = 0)) (hq : pos ≤ Q) :
    ∃ a' cs'' sp', pos = P + a' ∧ triviaLoop W false (W.length + 2) a [] = .ok (a', cs'', sp', false) := by
  rcases hp with hp | ⟨hpP, ha0⟩
  · rw [hp] at htl
    obtain ⟨a', cs'', hpa, htl'⟩ := triviaLoop_win w (f' := W.length + 2) (cs0 := []) htl hq (by rw [w.len]; omega)
    exact ⟨a', cs'', space, hpa, htl'⟩
  · subst ha0
    have h0 := triviaLoop_restart htl (buf.length + 1) (by have := w.leLen; omega)
    rw [hpP] at h0
    obtain ⟨a', cs'', hpa, htl'⟩ := triviaLoop_win w (f' := W.length + 2) (a := 0) (cs0 := []) h0 (by omega)
      (by rw [w.len]; omega)
    exact ⟨a', cs'', [], by omega, htl'⟩

/-! ## one lexer step on the window -/

/-- `t'` is `t` moved down by `P` (kind and name unchanged) -/
structure TokShift (P : Nat) (t t' : Token) : Prop where
  kind : t'.kind = t.kind
  asString : t'.asString = t.asString
  pos : t.pos = P + t'.pos
  «end» : t.end = P + t'.end

theorem nextTokenCore_win {buf W : Bytes} {P Q : Nat} (w : Win buf W P Q) {s s' s1 : State} {a : Nat}
    (h : nextTokenCore buf false s = .ok s1) (hp : s.pos = P + a ∨ (s1.tok.pos = P ∧ a = 0)) (hq : s1.pos ≤ Q)
    (hk : TyKind s1.tok.kind) (hpos : s'.pos = a) (hdot : s'.dotIdent = s.dotIdent)
    (hlk : isNextDotIdent s'.tok.kind = isNextDotIdent s.tok.kind ∨ s1.tok.kind ≠ K ".") :
    ∃ s1', nextTokenCore W false s' = .ok s1' ∧ s1.pos = P + s1'.pos ∧ s1'.dotIdent = s1.dotIdent ∧
      TokShift P s1.tok s1'.tok := by
  rw [nextTokenCore_eq] at h ⊢
  split at h
  · cases h
  · cases h
  · rename_i pos comments space hasError htl
    have hne := triviaLoop_noErr htl
    subst hne
    simp only [Bool.false_eq_true, if_false] at h
    obtain ⟨f1, f2, f3, f4, f5⟩ := afterTrivia_facts h
    obtain ⟨a', cs'', sp', hpa, htl'⟩ := trivia_for_window w htl (by rw [← f1]; exact hp) (by omega)
    rw [hpos, htl']
    simp only [Bool.false_eq_true, if_false]
    unfold afterTrivia at h ⊢
    simp only at h ⊢
    split at h
    · cases h
    · cases h
    · rename_i sc hsc
      split at h
      · cases h
      · rename_i raw hraw
        cases h
        simp only at hq hk hlk f1 f2
        have hlen : sc.len ≤ Q - P - a' := by omega
        have hsc' : (if s'.dotIdent = true then consumeFieldToken (W.drop a') a' s'.tok.kind false
            else consumeToken (W.drop a') a' s'.tok.kind false) = .ok sc := by
          rw [w.drop a', hdot, ← hpa]
          by_cases hd : s.dotIdent = true
          · simp only [hd, if_true] at hsc ⊢
            exact consumeFieldToken_win hsc hlen hk hlk
          · simp only [hd, Bool.false_eq_true, if_false] at hsc ⊢
            exact consumeToken_win hsc hlen hk hlk
        rw [hsc']
        simp only
        have hsl : MF.slice? W a' (a' + sc.len) = some raw := by
          rw [w.slice? (Nat.le_add_right _ _) (by omega), ← hraw]
          congr 1 <;> omega
        rw [hsl]
        simp only
        refine ⟨_, rfl, by simp only; omega, by simp only [hdot], ⟨rfl, rfl, by simp only; omega, by simp only; omega⟩⟩

theorem classify_gt : ∀ c : UInt8, classify c = .gt → c = 62 := by
  apply UInt8.forall_of_fin; decide +kernel

theorem K_shr : K ">>" = .sym [62, 62] := by decide

theorem identTok_not_shr (R : Bytes) : (identTok R).kind ≠ K ">>" := by
  unfold identTok
  simp only
  split
  · rename_i hr
    rw [K_shr]
    simp only [ne_eq, TokKind.sym.injEq]
    exact (reserved_ne_puncts _ (by simpa using hr)).2.2.1
  · rw [K_shr]; simp

theorem fallbackTok_not_shr {R : Bytes} {c : UInt8} {p0 : Nat} {np : Bool} {sc : Scan}
    (h : fallbackTok R c p0 np = .ok sc) : sc.kind ≠ K ">>" := by
  unfold fallbackTok at h
  split at h
  · cases h; exact identTok_not_shr R
  · split at h
    · cases h; rw [K_shr]; simp
    · cases h

theorem stringTok_not_shr {R : Bytes} {c : UInt8} {p0 : Nat} {np : Bool} {sc : Scan}
    (h : stringTok R c p0 np = .ok sc) : sc.kind ≠ K ">>" := by
  unfold stringTok at h
  split at h
  · split at h
    · cases h
    · have := (quotedTok_kind h).1
      rcases this with h1 | h1
      · rw [h1, K_shr]; split <;> simp
      · rw [h1, K_shr]; simp
  · exact fallbackTok_not_shr h

/-- a `>>` token starts with the byte `>`, is two bytes long and has no `AsString` -/
theorem tokBody_shr {R : Bytes} {c : UInt8} {p0 : Nat} {lk : TokKind} {np : Bool} {sc : Scan}
    (h : tokBody R c p0 lk np = .ok sc) (hk : sc.kind = K ">>") : c = 62 ∧ sc.asString = [] ∧ sc.len = 2 := by
  have hkind : TyKind sc.kind := Or.inr ⟨_, hk⟩
  have hnum : ∀ {p : Nat}, consumeNumber R p np = .ok sc → False := by
    intro p hn
    have := (consumeNumber_kind hn).1
    rcases this with h1 | h1 | h1
    · exact hkind.ne.1 h1
    · exact hkind.ne.2.1 h1
    · exact hkind.ne.2.2.1 h1
  unfold tokBody at h
  split at h
  · cases h
    rw [K_shr] at hk
    simp at hk
  · split at h
    · exact (hnum h).elim
    · cases h
      exact absurd hk (by dsimp only; decide)
  all_goals first
    | exact (hnum h).elim
    | exact absurd hk (stringTok_not_shr h)
    | exact absurd hk (fallbackTok_not_shr h)
    | (exfalso
       have := (quotedTok_kind h).1
       rcases this with h1 | h1 <;> rw [h1] at hk <;> cases hk)
    | (rename_i hc
       (repeat' split at h) <;>
        (simp only [tok1, tok2, paramTok, Res.ok.injEq] at h
         subst h
         first
           | exact ⟨classify_gt c hc, rfl, rfl⟩
           | exact absurd hk (by dsimp only; decide)))

theorem consumeToken_gt1 (p0 : Nat) (lk : TokKind) :
    consumeToken [62] p0 lk false = .ok { kind := K ">", len := 1 } := by rfl
theorem consumeFieldToken_gt1 (p0 : Nat) (lk : TokKind) :
    consumeFieldToken [62] p0 lk false = .ok { kind := K ">", len := 1 } := by rfl

/-- the window ends in the middle of a `>>` token: the step that produces `>>` on `buf` produces `>` on the window -/
theorem nextTokenCore_win_half {buf W : Bytes} {P Q : Nat} (w : Win buf W P Q) {s s' s1 : State} {a : Nat}
    (h : nextTokenCore buf false s = .ok s1) (hp : s.pos = P + a ∨ (s1.tok.pos = P ∧ a = 0)) (hk : s1.tok.kind = K ">>")
    (hq : s1.tok.pos + 1 = Q) (hpos : s'.pos = a) :
    ∃ s1', nextTokenCore W false s' = .ok s1' ∧ s1'.pos = W.length ∧ s1'.tok.kind = K ">" ∧
      s1'.tok.asString = [] ∧ s1.tok.asString = [] ∧ s1.tok.pos = P + s1'.tok.pos ∧
      s1'.tok.end = s1'.tok.pos + 1 ∧ s1.tok.end = s1.tok.pos + 2 := by
  rw [nextTokenCore_eq] at h ⊢
  split at h
  · cases h
  · cases h
  · rename_i pos comments space hasError htl
    have hne := triviaLoop_noErr htl
    subst hne
    simp only [Bool.false_eq_true, if_false] at h
    obtain ⟨f1, f2, f3, f4, f5⟩ := afterTrivia_facts h
    obtain ⟨a', cs'', sp', hpa, htl'⟩ := trivia_for_window w htl (by rw [← f1]; exact hp) (by omega)
    rw [hpos, htl']
    simp only [Bool.false_eq_true, if_false]
    unfold afterTrivia at h ⊢
    simp only at h ⊢
    split at h
    · cases h
    · cases h
    · rename_i sc hsc
      split at h
      · cases h
      · rename_i raw hraw
        cases h
        simp only at hk hq f1
        -- the scan on `buf`: a `>>` token
        have hshape : ∃ t, buf.drop pos = 62 :: t ∧ sc.asString = [] ∧ sc.len = 2 := by
          cases hR : buf.drop pos with
          | nil =>
            rw [hR] at hsc
            exfalso
            split at hsc
            · rw [consumeFieldToken_nil] at hsc; cases hsc; exact absurd hk (by dsimp only; decide)
            · rw [consumeToken_nil] at hsc; cases hsc; exact absurd hk (by dsimp only; decide)
          | cons c t =>
            rw [hR] at hsc
            have hb : tokBody (c :: t) c pos s.tok.kind false = .ok sc := by
              split at hsc
              · unfold consumeFieldToken at hsc
                simp only at hsc
                split at hsc
                · cases hsc; exact absurd hk (by dsimp only; decide)
                · rw [consumeToken_cons] at hsc; exact hsc
              · rw [consumeToken_cons] at hsc; exact hsc
            obtain ⟨hc, ha, hl⟩ := tokBody_shr hb hk
            exact ⟨t, by rw [hc], ha, hl⟩
        obtain ⟨t, hR, hsa, hsl⟩ := hshape
        have hQ : Q - P - a' = 1 := by omega
        have hWd : W.drop a' = [62] := by
          rw [w.drop a', ← hpa, hR, hQ]; rfl
        have hsc' : (if s'.dotIdent = true then consumeFieldToken (W.drop a') a' s'.tok.kind false
            else consumeToken (W.drop a') a' s'.tok.kind false) = .ok { kind := K ">", len := 1 } := by
          rw [hWd]
          split
          · exact consumeFieldToken_gt1 _ _
          · exact consumeToken_gt1 _ _
        rw [hsc']
        simp only
        have hwl : W.length = a' + 1 := by rw [w.len]; omega
        rw [slice?_of_le (Nat.le_add_right _ _) (by omega)]
        simp only
        refine ⟨_, rfl, ?_, rfl, rfl, hsa, ?_, rfl, ?_⟩
        · show a' + 1 = W.length; omega
        · show pos = P + a'; omega
        · show pos + sc.len = pos + 2; omega

/-- `t'` list is `t` list moved down by `P` -/
def ShiftList (P : Nat) : List Token → List Token → Prop
  | [], [] => True
  | t :: ts, t' :: ts' => TokShift P t t' ∧ ShiftList P ts ts'
  | _, _ => False

theorem steps_cons_inv {buf : Bytes} {s : State} {x : Token} {l : List Token} (h : Steps buf s (x :: l)) (hl : l ≠ []) :
    ∃ s1, nextToken buf false s = .ok s1 ∧ s1.tok = x ∧ x.kind ≠ .eof ∧ Steps buf s1 l := by
  generalize hg : x :: l = g at h
  cases h with
  | last hn hk =>
    exfalso
    simp only [List.cons.injEq] at hg
    exact hl hg.2
  | cons hn hk hrest =>
    simp only [List.cons.injEq] at hg
    obtain ⟨h1, h2⟩ := hg
    subst h2
    exact ⟨_, hn, h1.symm, by rw [h1]; exact hk, hrest⟩

theorem steps_head {buf : Bytes} {s : State} {x : Token} {l : List Token} (h : Steps buf s (x :: l)) :
    ∃ s1, nextToken buf false s = .ok s1 ∧ s1.tok = x := by
  generalize hg : x :: l = g at h
  cases h with
  | last hn hk => simp only [List.cons.injEq] at hg; exact ⟨_, hn, hg.1.symm⟩
  | cons hn hk hrest => simp only [List.cons.injEq] at hg; exact ⟨_, hn, hg.1.symm⟩

/-- the tokens of the window before its last one -/
theorem steps_win_prefix {buf W : Bytes} {P Q : Nat} (w : Win buf W P Q) :
    ∀ (M0 : List Token) (s s' : State) (a : Nat) (rest : List Token),
      Steps buf s (M0 ++ rest) → rest ≠ [] → (∀ t ∈ M0, TyKind t.kind) → (∃ z ∈ rest, z.pos ≤ Q) →
      (s.pos = P + a ∨ ((M0 ++ rest).head?.map (·.pos) = some P ∧ a = 0)) → s.pos ≤ buf.length → s'.pos = a →
      s'.dotIdent = s.dotIdent →
      (isNextDotIdent s'.tok.kind = isNextDotIdent s.tok.kind ∨ (M0 ++ rest).head?.map (·.kind) ≠ some (K ".")) →
      ∃ (M0' : List Token) (s1 s1' : State) (a1 : Nat), Steps buf s1 rest ∧
        (s1.pos = P + a1 ∨ (rest.head?.map (·.pos) = some P ∧ a1 = 0)) ∧ s1.pos ≤ buf.length ∧
        s1'.pos = a1 ∧ s1'.dotIdent = s1.dotIdent ∧
        (isNextDotIdent s1'.tok.kind = isNextDotIdent s1.tok.kind ∨ rest.head?.map (·.kind) ≠ some (K ".")) ∧
        ShiftList P M0 M0' ∧ ∀ l, Steps W s1' l → Steps W s' (M0' ++ l) := by
  intro M0
  induction M0 with
  | nil =>
    intro s s' a rest h _ _ _ hp hlen hpos hdot hlk
    exact ⟨[], s, s', a, h, hp, hlen, hpos, hdot, hlk, trivial, fun l hl => hl⟩
  | cons x M0 ih =>
    intro s s' a rest h hrest hty hz hp hlen hpos hdot hlk
    obtain ⟨s1, hn, hsx, hne, hr⟩ := steps_cons_inv (l := M0 ++ rest) h (by simp [hrest])
    have fr := nextToken_frame hn
    obtain ⟨z, hzm, hzq⟩ := hz
    have hs1q : s1.pos ≤ Q := by
      have := steps_pos_ge hr z (by simp [hzm])
      omega
    have hk : TyKind s1.tok.kind := by rw [hsx]; exact hty x (by simp)
    have hlk' : isNextDotIdent s'.tok.kind = isNextDotIdent s.tok.kind ∨ s1.tok.kind ≠ K "." := by
      rcases hlk with h1 | h1
      · exact Or.inl h1
      · right
        rw [hsx]
        intro hx
        apply h1
        simp [hx]
    have hp' : s.pos = P + a ∨ (s1.tok.pos = P ∧ a = 0) := by
      rcases hp with h1 | ⟨h1, h2⟩
      · exact Or.inl h1
      · right
        simp only [List.cons_append, List.head?_cons, Option.map_some, Option.some.injEq] at h1
        exact ⟨by rw [hsx]; exact h1, h2⟩
    obtain ⟨s1', hc, hpp, hdd, hts⟩ := nextTokenCore_win w (s' := s') (nextToken_ok_core hn) hp' hs1q hk hpos hdot hlk'
    obtain ⟨M0', s2, s2', a2, g1, g2, g3, g4, g5, g6, g7, g8⟩ :=
      ih s1 s1' s1'.pos rest hr hrest (fun t ht => hty t (by simp [ht])) ⟨z, hzm, hzq⟩ (Or.inl hpp) fr.le_len rfl hdd
        (Or.inl (by rw [hts.kind]))
    refine ⟨s1'.tok :: M0', s2, s2', a2, g1, g2, g3, g4, g5, g6, ⟨by rw [← hsx]; exact hts, g7⟩, ?_⟩
    intro l hl
    have hne' : s1'.tok.kind ≠ .eof := by rw [hts.kind, hsx]; exact hne
    exact Steps.cons (nextToken_of_core hc) hne' (g8 l hl)

/-- the `<eof>` step at the end of the window -/
theorem steps_win_eof {W : Bytes} {s : State} (hp : s.pos = W.length) : ∃ e, Steps W s [e] ∧ e.kind = .eof := by
  obtain ⟨s', h1, h2, _, _, _⟩ := eof_stable (buf := W) (np := false) hp
  exact ⟨s'.tok, Steps.last h1 h2, h2⟩

/-! ## a whole window -/

/-- the state in front of the window: after the tokens `A` -/
theorem state_before {buf : Bytes} {A rest : List Token} (h : Steps buf init (A ++ rest)) (hr : rest ≠ [])
    (hprev : ∀ t, A.getLast? = some t → t.kind ≠ K ".") :
    ∃ s, Steps buf s rest ∧ s.pos ≤ buf.length ∧ s.dotIdent = false := by
  rcases List.eq_nil_or_concat A with rfl | ⟨A0, t, rfl⟩
  · exact ⟨init, by simpa using h, by simp [init], rfl⟩
  · have h' : Steps buf init (A0 ++ t :: rest) := by simpa using h
    obtain ⟨sb, h1, h2, h3, h4⟩ := steps_after h' hr (by simp [init])
    refine ⟨sb, h1, h3, ?_⟩
    cases hd : sb.dotIdent with
    | false => rfl
    | true =>
      exfalso
      have := h4 hd
      rw [h2] at this
      exact hprev t (by simp) this

theorem TyKind.ne_eof {k : TokKind} (h : TyKind k) : k ≠ .eof := h.ne.2.2.2.2.2.2

/-- lexing the window `buf[P:Q]` whose last token ends at `Q`: the tokens `M0 ++ [z]` moved down by `P`, then `<eof>` -/
theorem window_full {buf W : Bytes} {P Q : Nat} (w : Win buf W P Q) {A M0 : List Token} {z : Token} {C : List Token}
    (h : lexAll buf = .ok (A ++ (M0 ++ z :: C)))
    (hprev : ∀ t, A.getLast? = some t → t.kind ≠ K ".")
    (hty : ∀ t ∈ M0 ++ [z], TyKind t.kind)
    (hfirst : (M0 ++ [z]).head?.map (·.kind) ≠ some (K "."))
    (hP : (M0 ++ [z]).head?.map (·.pos) = some P) (hzle : z.pos ≤ Q) (hQ : z.end = Q) :
    ∃ M0' z' e, lexAll W = .ok (M0' ++ [z', e]) ∧ ShiftList P M0 M0' ∧ TokShift P z z' ∧ e.kind = .eof := by
  obtain ⟨s, hs, hlen, hdot⟩ := state_before (lexAll_steps h) (by simp) hprev
  have hhead : ∀ {α : Type} (f : Token → α), (M0 ++ z :: C).head?.map f = (M0 ++ [z]).head?.map f := by
    intro α f; cases M0 <;> rfl
  obtain ⟨M0', s1, s1', a1, g1, g2, g3, g4, g5, g6, g7, g8⟩ :=
    steps_win_prefix w M0 s init 0 (z :: C) hs (by simp) (fun t ht => hty t (by simp [ht])) ⟨z, by simp, hzle⟩
      (Or.inr ⟨by rw [hhead]; exact hP, rfl⟩) hlen rfl (by rw [hdot]; rfl) (Or.inr (by rw [hhead]; exact hfirst))
  obtain ⟨s2, hn, hsz⟩ := steps_head g1
  have fr := nextToken_frame hn
  have hp2 : s1.pos = P + a1 ∨ (s2.tok.pos = P ∧ a1 = 0) := by
    rcases g2 with h1 | ⟨h1, h2⟩
    · exact Or.inl h1
    · right
      simp only [List.head?_cons, Option.map_some, Option.some.injEq] at h1
      exact ⟨by rw [hsz]; exact h1, h2⟩
  have hk2 : TyKind s2.tok.kind := by rw [hsz]; exact hty z (by simp)
  have hlk2 : isNextDotIdent s1'.tok.kind = isNextDotIdent s1.tok.kind ∨ s2.tok.kind ≠ K "." := by
    rcases g6 with h1 | h1
    · exact Or.inl h1
    · right
      rw [hsz]
      intro hx
      apply h1
      simp [hx]
  obtain ⟨s2', hc, hpp, _, hts⟩ := nextTokenCore_win w (s' := s1') (nextToken_ok_core hn) hp2
    (by rw [← fr.tok_end, hsz, hQ]; exact Nat.le_refl _) hk2 g4 g5 hlk2
  have hend : s2'.pos = W.length := by
    have : s2.pos = Q := by rw [← fr.tok_end, hsz, hQ]
    rw [w.len]; omega
  obtain ⟨e, he1, he2⟩ := steps_win_eof hend
  have hne : s2'.tok.kind ≠ .eof := by rw [hts.kind]; exact hk2.ne_eof
  have hfin := g8 _ (Steps.cons (nextToken_of_core hc) hne he1)
  exact ⟨M0', s2'.tok, e, steps_lexAll hfin, g7, by rw [← hsz]; exact hts, he2⟩

/-- lexing the window `buf[P:Q]` that ends in the middle of a `>>` token `z`: the tokens `M0` moved down by `P`, a one-byte
`>` token where `z` starts, then `<eof>` -/
theorem window_half {buf W : Bytes} {P Q : Nat} (w : Win buf W P Q) {A M0 : List Token} {z : Token} {C : List Token}
    (h : lexAll buf = .ok (A ++ (M0 ++ z :: C)))
    (hprev : ∀ t, A.getLast? = some t → t.kind ≠ K ".")
    (hty : ∀ t ∈ M0, TyKind t.kind)
    (hfirst : (M0 ++ [z]).head?.map (·.kind) ≠ some (K "."))
    (hP : (M0 ++ [z]).head?.map (·.pos) = some P) (hzk : z.kind = K ">>") (hQ : z.pos + 1 = Q) :
    ∃ M0' g e, lexAll W = .ok (M0' ++ [g, e]) ∧ ShiftList P M0 M0' ∧ e.kind = .eof ∧
      g.kind = K ">" ∧ g.asString = [] ∧ z.asString = [] ∧ z.pos = P + g.pos ∧ g.end = g.pos + 1 ∧ z.end = z.pos + 2 := by
  obtain ⟨s, hs, hlen, hdot⟩ := state_before (lexAll_steps h) (by simp) hprev
  have hhead : ∀ {α : Type} (f : Token → α), (M0 ++ z :: C).head?.map f = (M0 ++ [z]).head?.map f := by
    intro α f; cases M0 <;> rfl
  obtain ⟨M0', s1, s1', a1, g1, g2, g3, g4, g5, g6, g7, g8⟩ :=
    steps_win_prefix w M0 s init 0 (z :: C) hs (by simp) hty ⟨z, by simp, by omega⟩
      (Or.inr ⟨by rw [hhead]; exact hP, rfl⟩) hlen rfl (by rw [hdot]; rfl) (Or.inr (by rw [hhead]; exact hfirst))
  obtain ⟨s2, hn, hsz⟩ := steps_head g1
  have hp2 : s1.pos = P + a1 ∨ (s2.tok.pos = P ∧ a1 = 0) := by
    rcases g2 with h1 | ⟨h1, h2⟩
    · exact Or.inl h1
    · right
      simp only [List.head?_cons, Option.map_some, Option.some.injEq] at h1
      exact ⟨by rw [hsz]; exact h1, h2⟩
  obtain ⟨s2', hc, hend, k1, k2, k3, k4, k5, k6⟩ := nextTokenCore_win_half w (s' := s1') (nextToken_ok_core hn) hp2
    (by rw [hsz]; exact hzk) (by rw [hsz]; exact hQ) g4
  obtain ⟨e, he1, he2⟩ := steps_win_eof hend
  have hne : s2'.tok.kind ≠ .eof := by rw [k1]; decide
  have hfin := g8 _ (Steps.cons (nextToken_of_core hc) hne he1)
  rw [hsz] at k3 k4 k6
  exact ⟨M0', s2'.tok, e, steps_lexAll hfin, g7, he2, k1, k2, k3, k4, k5, k6⟩

end MF.Lex
