/-
  MF.Proofs.DMLLists — the list loop of the DML MODEL (`MF.DML.stmtsLoop`, the transcription of `parseStatements` that
  the DML channel compares with ParseDMLs / ParseStatements) composes: on a well-formed token list it returns the list
  `l` of trees iff the non-empty `;`-free segments of the list are, in order, sentences of G_DML with derivation trees
  `l` — and that is what ParseDML's model returns on each segment followed by `<eof>`.
-/
import MF.Proofs.DMLVoc
import MF.Proofs.ExprRoundTrip
namespace MF.DML
open MF MF.Expr MF.Stmt

/-- the segments and the trees correspond one to one, in order, through `R` -/
inductive AllSegs (R : List Token → Stmt Expr → Prop) : List (List Token) → List (Stmt Expr) → Prop
  | nil : AllSegs R [] []
  | cons {a : List Token} {s : Stmt Expr} {as : List (List Token)} {l : List (Stmt Expr)} :
      R a s → AllSegs R as l → AllSegs R (a :: as) (s :: l)

theorem AllSegs.congr {R R' : List Token → Stmt Expr → Prop} {as : List (List Token)} {l : List (Stmt Expr)}
    (h : ∀ a ∈ as, ∀ s, R a s → R' a s) (hl : AllSegs R as l) : AllSegs R' as l := by
  induction hl with
  | nil => exact .nil
  | cons hr _ ih =>
    exact .cons (h _ List.mem_cons_self _ hr) (ih (fun a ha => h a (List.mem_cons_of_mem _ ha)))

/-- the segments are, in order, sentences of G_DML with derivation trees `l` -/
abbrev SegsD : List (List Token) → List (Stmt Expr) → Prop := AllSegs (fun a s => StmtD s a)

theorem segsAux_mem {ts cur : List Token} : ∀ s ∈ segsAux ts cur, ∀ t ∈ s, t ∈ cur ∨ t ∈ ts := by
  induction ts generalizing cur with
  | nil => intro s hs t ht; simp [segsAux] at hs; subst hs; exact .inl ht
  | cons x ts ih =>
    intro s hs t ht
    simp only [segsAux] at hs
    split at hs
    · rcases List.mem_cons.1 hs with h | h
      · subst h; exact .inl ht
      · rcases ih s h t ht with h2 | h2
        · cases h2
        · exact .inr (List.mem_cons_of_mem _ h2)
    · split at hs
      · simp at hs; subst hs; exact .inl ht
      · rcases ih s hs t ht with h2 | h2
        · rcases List.mem_append.1 h2 with h3 | h3
          · exact .inl h3
          · simp at h3; subst h3; exact .inr List.mem_cons_self
        · exact .inr (List.mem_cons_of_mem _ h2)

/-- the tokens of a segment are tokens of the list -/
theorem stmtSegments_mem {ts : List Token} : ∀ s ∈ stmtSegments ts, ∀ t ∈ s, t ∈ ts := by
  intro s hs t ht
  have hs' : s ∈ segments ts := (List.mem_filter.1 hs).1
  rcases segsAux_mem s hs' t ht with h | h
  · cases h
  · exact h

theorem stmtSegments_free {ts : List Token} : ∀ s ∈ stmtSegments ts, Free s :=
  fun s hs => segments_free ts s (List.mem_filter.1 hs).1

theorem semi_tk {t : Token} (h : t.kind = K ";") : tk t.kind = .other := by rw [h]; decide

theorem stmtFollow_term {t : Token} {rest : List Token} (h : t.kind = K ";" ∨ t.kind = .eof) : StmtFollow (t :: rest) := by
  rcases h with h | h
  · have := semi_tk h
    exact ⟨follow_of_none (by rw [this]; rfl), by simp [this], by simp [this]⟩
  · have : tk t.kind = .eof := by rw [h]; rfl
    exact ⟨follow_of_none (by rw [this]; rfl), by simp [this], by simp [this]⟩

/-- a statement parsed in front of a terminator-free run `a` followed by a terminator, and itself followed by a
terminator, is exactly `a` -/
theorem parse_segment {f : Nat} {a : List Token} (ha : Free a) {t : Token} {rest : List Token}
    (ht : t.kind = K ";" ∨ t.kind = .eof) {s : Stmt Expr} {r1 : List Token}
    (h : parseDML parseExpr f (a ++ t :: rest) = .ok (s, r1)) (h1 : kd r1 = K ";" ∨ kd r1 = .eof) :
    r1 = t :: rest ∧ StmtD s a := by
  obtain ⟨pre, hts, hd⟩ := parseDML_sound h
  have hfr : Free pre := hd.free
  have hpre : pre = a := by
    rcases List.append_eq_append_iff.1 hts with ⟨x, hx1, hx2⟩ | ⟨x, hx1, hx2⟩
    · -- pre = a ++ x, t :: rest = x ++ r1
      cases x with
      | nil => simpa using hx1
      | cons y x' =>
        simp only [List.cons_append, List.cons.injEq] at hx2
        have hy : y ∈ pre := by rw [hx1]; simp
        have := hfr y hy
        rw [← hx2.1] at this
        rcases ht with h2 | h2
        · exact absurd h2 this.1
        · exact absurd h2 this.2
    · -- a = pre ++ x, r1 = x ++ t :: rest
      cases x with
      | nil => simpa using hx1.symm
      | cons y x' =>
        have hy : y ∈ a := by rw [hx1]; simp
        have hfy := ha y hy
        rw [hx2] at h1
        rcases h1 with h2 | h2
        · exact absurd h2 hfy.1
        · exact absurd h2 hfy.2
  subst hpre
  exact ⟨(List.append_cancel_left hts).symm, hd⟩

theorem stmtSegments_semi {a : List Token} (ha : Free a) {t : Token} (ht : t.kind = K ";") (rest : List Token) :
    stmtSegments (a ++ t :: rest) = if a = [] then stmtSegments rest else a :: stmtSegments rest := by
  unfold stmtSegments
  rw [segments_semi ha ht]
  cases a <;> simp

theorem stmtSegments_eof {a : List Token} (ha : Free a) {t : Token} (ht : t.kind = .eof) (rest : List Token) :
    stmtSegments (a ++ t :: rest) = if a = [] then [] else [a] := by
  unfold stmtSegments
  rw [segments_eof ha ht]
  cases a <;> simp

theorem free_head {a : List Token} (ha : Free a) (hne : a ≠ []) (x : List Token) :
    cur (a ++ x) ≠ .eof ∧ kd (a ++ x) ≠ K ";" := by
  obtain ⟨y, a', rfl⟩ := List.exists_cons_of_ne_nil hne
  have := ha y (by simp)
  exact ⟨fun h => this.2 (tk_eq_eof h), this.1⟩

/-- soundness of the list loop -/
theorem stmtsLoop_sound : ∀ (f : Nat) {ts : List Token}, WF ts → ∀ {l : List (Stmt Expr)} {r : List Token},
    stmtsLoop (parseDML parseExpr) f ts = .ok (l, r) → cur r = .eof → SegsD (stmtSegments ts) l
  | 0, _, _, _, _, h, _ => by simp [stmtsLoop] at h
  | f + 1, ts, hts, l, r, h, hr => by
    obtain ⟨a, t, rest, rfl, ha, hcase⟩ := WF_split hts
    have htk : t.kind = K ";" ∨ t.kind = .eof := by
      rcases hcase with ⟨h1, _⟩ | ⟨h1, _⟩
      · exact .inl h1
      · exact .inr h1
    rw [stmtsLoop.eq_2] at h
    by_cases hne : a = []
    · subst hne
      simp only [List.nil_append] at h ⊢
      rcases hcase with ⟨h1, hw⟩ | ⟨h1, hrest⟩
      · have hc : cur (t :: rest) ≠ .eof := by simp [semi_tk h1]
        have hk : kd (t :: rest) = K ";" := h1
        rw [if_neg hc, if_pos hk] at h
        have := stmtsLoop_sound f hw h hr
        have e := stmtSegments_semi (a := []) (fun _ h => (by cases h)) h1 rest
        simp only [List.nil_append, if_true] at e
        rw [e]; exact this
      · have hc : cur (t :: rest) = .eof := by simp [h1, tk]
        rw [if_pos hc] at h
        cases h
        have e := stmtSegments_eof (a := []) (fun _ h => (by cases h)) h1 rest
        simp only [List.nil_append, if_true] at e
        rw [e]; exact .nil
    · obtain ⟨hc, hk⟩ := free_head ha hne (t :: rest)
      rw [if_neg hc, if_neg hk] at h
      obtain ⟨p, hp, h⟩ := Res.bind_eq_ok.1 h
      by_cases hs : kd p.2 = K ";"
      · rw [if_pos hs] at h
        obtain ⟨q, hq, h⟩ := Res.bind_eq_ok.1 h
        cases h
        obtain ⟨hr1, hd⟩ := parse_segment (s := p.1) (r1 := p.2) ha htk hp (.inl hs)
        have h1 : t.kind = K ";" := by rw [hr1] at hs; exact hs
        have hw : WF rest := by
          rcases hcase with ⟨_, hw⟩ | ⟨h2, _⟩
          · exact hw
          · rw [h2] at h1; exact absurd h1 (by simp [K])
        rw [hr1] at hq
        -- one more step of the loop: the `;`
        cases f with
        | zero => simp [stmtsLoop] at hq
        | succ g =>
          rw [stmtsLoop.eq_2] at hq
          have hc2 : cur (t :: rest) ≠ .eof := by simp [semi_tk h1]
          have hk2 : kd (t :: rest) = K ";" := h1
          rw [if_neg hc2, if_pos hk2] at hq
          have := stmtsLoop_sound g hw hq hr
          rw [stmtSegments_semi ha h1, if_neg hne]
          exact .cons hd this
      · rw [if_neg hs] at h
        cases h
        have hterm : kd p.2 = K ";" ∨ kd p.2 = .eof := by
          right
          cases hp2 : p.2 with
          | nil => rfl
          | cons y ys => rw [hp2] at hr; exact tk_eq_eof hr
        obtain ⟨hr1, hd⟩ := parse_segment (s := p.1) (r1 := p.2) ha htk hp hterm
        have h1 : t.kind = .eof := by
          rw [hr1] at hr
          exact tk_eq_eof hr
        rw [stmtSegments_eof ha h1, if_neg hne]
        exact .cons hd .nil

/-- completeness of the list loop: the rest it leaves is the `<eof>` token -/
theorem stmtsLoop_complete : ∀ (n : Nat) {ts : List Token}, ts.length ≤ n → WF ts → NoCast ts →
    ∀ {l : List (Stmt Expr)}, SegsD (stmtSegments ts) l →
    ∃ r, cur r = .eof ∧ Ev (fun f => stmtsLoop (parseDML parseExpr) f ts) (.ok (l, r))
  | 0, ts, hlen, hts, _, _, _ => by
    obtain ⟨body, e, rfl, _, _⟩ := hts
    simp at hlen
  | n + 1, ts, hlen, hts, hc, l, hl => by
    obtain ⟨a, t, rest, rfl, ha, hcase⟩ := WF_split hts
    have hca : NoCast a := hc.left
    have hcr : NoCast rest := (NoCast.right hc).tail
    have hlen' : rest.length ≤ n := by simp at hlen; omega
    by_cases hne : a = []
    · subst hne
      simp only [List.nil_append] at hl ⊢
      rcases hcase with ⟨h1, hw⟩ | ⟨h1, hrest⟩
      · have e := stmtSegments_semi (a := []) (fun _ h => (by cases h)) h1 rest
        simp only [List.nil_append, if_true] at e
        rw [e] at hl
        obtain ⟨r, hr, m, hm⟩ := stmtsLoop_complete n hlen' hw hcr hl
        refine ⟨r, hr, m + 1, fun f hf => ?_⟩
        obtain ⟨g, rfl⟩ : ∃ g, f = g + 1 := ⟨f - 1, by omega⟩
        have hc1 : cur (t :: rest) ≠ .eof := by simp [semi_tk h1]
        have hk : kd (t :: rest) = K ";" := h1
        show stmtsLoop (parseDML parseExpr) (g + 1) (t :: rest) = _
        rw [stmtsLoop.eq_2, if_neg hc1, if_pos hk]
        exact hm g (by omega)
      · have e := stmtSegments_eof (a := []) (fun _ h => (by cases h)) h1 rest
        simp only [List.nil_append, if_true] at e
        rw [e] at hl
        cases hl
        have hc1 : cur (t :: rest) = .eof := by simp [h1, tk]
        refine ⟨t :: rest, hc1, 1, fun f hf => ?_⟩
        obtain ⟨g, rfl⟩ : ∃ g, f = g + 1 := ⟨f - 1, by omega⟩
        show stmtsLoop (parseDML parseExpr) (g + 1) (t :: rest) = _
        rw [stmtsLoop.eq_2, if_pos hc1]
    · obtain ⟨hc0, hk0⟩ := free_head ha hne (t :: rest)
      rcases hcase with ⟨h1, hw⟩ | ⟨h1, hrest⟩
      · rw [stmtSegments_semi ha h1, if_neg hne] at hl
        cases hl with
        | cons hd hl' =>
          rename_i s l'
          obtain ⟨r, hr, m, hm⟩ := stmtsLoop_complete n hlen' hw hcr hl'
          obtain ⟨k, hk⟩ := parseDML_complete hd hca (stmtFollow_term (rest := rest) (.inl h1))
          refine ⟨r, hr, max k m + 2, fun f hf => ?_⟩
          obtain ⟨g, rfl⟩ : ∃ g, f = g + 2 := ⟨f - 2, by omega⟩
          have hk' : parseDML parseExpr (g + 1) (a ++ t :: rest) = .ok (s, t :: rest) := hk (g + 1) (by omega)
          have hc1 : cur (t :: rest) ≠ .eof := by simp [semi_tk h1]
          have hk1 : kd (t :: rest) = K ";" := h1
          show stmtsLoop (parseDML parseExpr) (g + 1 + 1) (a ++ t :: rest) = _
          rw [stmtsLoop.eq_2, if_neg hc0, if_neg hk0, hk']
          simp only [Res.bind_ok, hk1, if_true]
          have hm' : stmtsLoop (parseDML parseExpr) g rest = .ok (l', r) := hm g (by omega)
          rw [stmtsLoop.eq_2, if_neg hc1, if_pos hk1]
          simp only [List.tail_cons, hm', Res.bind_ok]
      · rw [stmtSegments_eof ha h1, if_neg hne] at hl
        cases hl with
        | cons hd hl' =>
          rename_i s l'
          cases hl'
          obtain ⟨k, hk⟩ := parseDML_complete hd hca (stmtFollow_term (rest := rest) (.inr h1))
          have hc1 : cur (t :: rest) = .eof := by simp [h1, tk]
          refine ⟨t :: rest, hc1, k + 1, fun f hf => ?_⟩
          obtain ⟨g, rfl⟩ : ∃ g, f = g + 1 := ⟨f - 1, by omega⟩
          have hk' : parseDML parseExpr g (a ++ t :: rest) = .ok (s, t :: rest) := hk g (by omega)
          have hk1 : kd (t :: rest) ≠ K ";" := by
            show t.kind ≠ K ";"
            rw [h1]; simp [K]
          show stmtsLoop (parseDML parseExpr) (g + 1) (a ++ t :: rest) = _
          rw [stmtsLoop.eq_2, if_neg hc0, if_neg hk0, hk']
          simp [hk1]

/-- ParseDML's model on one segment followed by `<eof>`: it returns `s` iff the segment is a sentence of G_DML with
derivation tree `s` -/
theorem parseDMLTop_segment {a : List Token} (ha : Free a) (hc : NoCast a) {e : Token} (he : e.kind = .eof) (s : Stmt Expr) :
    (∃ fuel, parseDMLTop parseExpr fuel (a ++ [e]) = .ok s) ↔ StmtD s a := by
  constructor
  · rintro ⟨fuel, h⟩
    unfold parseDMLTop finish at h
    obtain ⟨p, hp, h⟩ := Res.bind_eq_ok.1 h
    by_cases hr : cur p.2 = .eof
    · rw [if_pos hr] at h
      cases h
      have hterm : kd p.2 = K ";" ∨ kd p.2 = .eof := by
        right
        cases hp2 : p.2 with
        | nil => rfl
        | cons y ys => rw [hp2] at hr; exact tk_eq_eof hr
      exact (parse_segment (s := p.1) (r1 := p.2) ha (.inr he) hp hterm).2
    · rw [if_neg hr] at h; cases h
  · intro hd
    obtain ⟨n, hn⟩ := parseDML_complete hd hc (stmtFollow_term (t := e) (rest := []) (.inr he))
    refine ⟨n, ?_⟩
    have := hn n (Nat.le_refl _)
    simp only at this
    have hc1 : cur [e] = .eof := by simp [he, tk]
    simp [parseDMLTop, finish, this, hc1]

/-- ParseDMLs' model on a well-formed token list: it returns `l` iff the non-empty `;`-free segments are, in order,
sentences of G_DML with derivation trees `l` -/
theorem parseDMLsTop_segments {ts : List Token} (hts : WF ts) (hc : NoCast ts) (l : List (Stmt Expr)) :
    (∃ fuel, parseDMLsTop parseExpr fuel ts = .ok l) ↔ SegsD (stmtSegments ts) l := by
  constructor
  · rintro ⟨fuel, h⟩
    unfold parseDMLsTop finish at h
    obtain ⟨p, hp, h⟩ := Res.bind_eq_ok.1 h
    by_cases hr : cur p.2 = .eof
    · rw [if_pos hr] at h
      cases h
      exact stmtsLoop_sound fuel hts (l := p.1) (r := p.2) hp hr
    · rw [if_neg hr] at h; cases h
  · intro hl
    obtain ⟨r, hr, n, hn⟩ := stmtsLoop_complete ts.length (Nat.le_refl _) hts hc hl
    refine ⟨n, ?_⟩
    have := hn n (Nat.le_refl _)
    simp only at this
    simp [parseDMLsTop, finish, this, hr]

end MF.DML
