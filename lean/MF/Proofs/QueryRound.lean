/-
  MF.Proofs.QueryRound — C01 / C02 for the SELECT core at TOKEN level: the tokens of `sqlQ q` (`sqlToksQ`,
  MF/Spec/QueryPrintToks.lean) of a well-formed tree without `expr.*` items are a sentence of G_Q (without that
  production), hence (completeness) any token list reading them is accepted again; and what printing loses.
-/
import MF.Spec.QueryPrintToks
import MF.Proofs.QueryComplete
import MF.Proofs.ExprPrint
namespace MF.Query
open MF MF.Expr

theorem exprY_tX {e : PExpr} (h : okX e) : ExprY (tX e) :=
  ⟨canonKw (erase e), by simpa [PrecOK, precOK_canonKw] using h.1, nf_canonKw _ h.2, by
    unfold tX; rw [sqlToks_eq_yield _ h.1]⟩

theorem itemD0_t {i : SelectItem} (h : okItem i) (hn : noDotItem i = true) : ItemD0 (tItem i) := by
  cases i with
  | star s => exact ItemD0.star
  | dotStar s e => cases hn
  | alias e a => exact ItemD0.alias (exprY_tX h) (aliasD_yAs a)
  | expr e => exact ItemD0.expr (exprY_tX h)

theorem sepBy_tItems : ∀ (i : SelectItem) (is : List SelectItem), okItem i → noDotItem i = true →
    (∀ j ∈ is, okItem j) → (∀ j ∈ is, noDotItem j = true) → SepBy ItemD0 (tItem i ++ tItems is)
  | i, [], hi, hn, _, _ => by simpa [tItems] using SepBy.one (itemD0_t hi hn)
  | i, j :: is, hi, hn, hj, hnj => by
    simp only [tItems]
    exact SepBy.cons (itemD0_t hi hn) (sepBy_tItems j is (hj j (by simp)) (hnj j (by simp))
      (fun k hk => hj k (by simp [hk])) (fun k hk => hnj k (by simp [hk])))

theorem sepBy_tExprs : ∀ (e : PExpr) (es : List PExpr), okX e → (∀ j ∈ es, okX j) → SepBy ExprY (tX e ++ tExprs es)
  | e, [], he, _ => by simpa [tExprs] using SepBy.one (exprY_tX he)
  | e, j :: es, he, hj => by
    simp only [tExprs]
    exact SepBy.cons (exprY_tX he) (sepBy_tExprs j es (hj j (by simp)) (fun k hk => hj k (by simp [hk])))

theorem ordItemD_t (i : OrderByItem) (h : okX i.e) : OrdItemD (tOrdItem i) := by
  unfold tOrdItem
  rcases hd : i.dir with _ | ⟨d, p⟩
  · simpa [yDir] using OrdItemD.plain (exprY_tX h)
  · cases d
    · exact OrdItemD.asc (exprY_tX h)
    · exact OrdItemD.desc (exprY_tX h)

theorem sepBy_tOrd : ∀ (e : OrderByItem) (es : List OrderByItem), okX e.e → (∀ j ∈ es, okX j.e) →
    SepBy OrdItemD (tOrdItem e ++ tOrdItems es)
  | e, [], he, _ => by simpa [tOrdItems] using SepBy.one (ordItemD_t e he)
  | e, j :: es, he, hj => by
    simp only [tOrdItems]
    exact SepBy.cons (ordItemD_t e he) (sepBy_tOrd j es (hj j (by simp)) (fun k hk => hj k (by simp [hk])))

theorem tselect_derivable {s : Select} {o : Option OrderBy} {l : Option Limit} (hs : okSelect s)
    (ho : ∀ ob, o = some ob → okOrder ob) (hn1 : noDotItem s.first = true) (hn2 : ∀ j ∈ s.more, noDotItem j = true) :
    QueryD0 (tSelect s ++ (tOrder o ++ yLimit l)) := by
  obtain ⟨hi, him, hw, hg, hh⟩ := hs
  have hfr : Opt FromD (yFrom s.from_) := by
    cases hf : s.from_ with
    | none => exact Opt.none
    | some f => exact Opt.some (fromD_y f)
  have hwh : Opt WhereD (tWhere s.where_) := by
    cases hx : s.where_ with
    | none => exact Opt.none
    | some w => exact Opt.some (WhereD.mk (exprY_tX (hw w hx)))
  have hgr : Opt GroupD (tGroup s.groupBy) := by
    cases hx : s.groupBy with
    | none => exact Opt.none
    | some g => exact Opt.some (GroupD.mk (sepBy_tExprs g.first g.more (hg g hx).1 (hg g hx).2))
  have hha : Opt HavingD (tHaving s.having) := by
    cases hx : s.having with
    | none => exact Opt.none
    | some h => exact Opt.some (HavingD.mk (exprY_tX (hh h hx)))
  have hor : Opt OrderD (tOrder o) := by
    cases o with
    | none => exact Opt.none
    | some ob => exact Opt.some (OrderD.mk (sepBy_tOrd ob.first ob.more (ho ob rfl).1 (ho ob rfl).2))
  have hli : Opt LimitD (yLimit l) := by
    cases l with
    | none => exact Opt.none
    | some l => exact Opt.some (limitD_y l)
  have key : QueryD0 _ := QueryG.mk false (aodD_y s.aod) (sepBy_tItems s.first s.more hi hn1 him hn2) hfr hwh hgr hha hor hli
    (by intro h; cases h)
  simpa [tSelect, List.append_assoc] using key

/-- the printed tokens of a well-formed tree without `expr.*` items are a sentence of G_Q (without that production) -/
theorem sqlToksQ_derivable {q : QueryStatement} (h : WFQ q) (hnd : noDotStar q = true) : QueryD0 (sqlToksQ q) := by
  obtain ⟨q⟩ := q
  simp only [noDotStar, Bool.and_eq_true, List.all_eq_true] at hnd
  cases q with
  | select s =>
    have := tselect_derivable (o := none) (l := none) h.1 (by simp) hnd.1 hnd.2
    simpa [sqlToksQ, tQE, tOrder, yLimit] using this
  | query s o l =>
    exact tselect_derivable h.1 h.2.1 hnd.1 hnd.2

/-! ## what printing loses -/

theorem tX_eq_yX {e : PExpr} (h : slotCanon e) : tX e = yX e := by unfold tX yX; rw [h]

/-- every expression slot of the tree prints its own yield -/
def slotsCanon (q : QueryStatement) : Prop :=
  let s := selectOf q.query
  (∀ i ∈ s.first :: s.more, match i with
    | .star _ => True | .dotStar _ e => slotCanon e | .alias e _ => slotCanon e | .expr e => slotCanon e) ∧
  (∀ w, s.where_ = some w → slotCanon w.e) ∧
  (∀ g, s.groupBy = some g → ∀ e ∈ g.first :: g.more, slotCanon e) ∧
  (∀ h, s.having = some h → slotCanon h.e) ∧
  (∀ o, (match q.query with | .select _ => none | .query _ o _ => o) = some o → ∀ i ∈ o.first :: o.more, slotCanon i.e)

theorem tItem_eq {i : SelectItem} (h : match i with
    | .star _ => True | .dotStar _ e => slotCanon e | .alias e _ => slotCanon e | .expr e => slotCanon e) :
    tItem i = yItem i := by
  cases i <;> simp only [tItem, yItem] <;> rw [tX_eq_yX h]

theorem tItems_eq : ∀ (is : List SelectItem), (∀ i ∈ is, match i with
    | .star _ => True | .dotStar _ e => slotCanon e | .alias e _ => slotCanon e | .expr e => slotCanon e) →
    tItems is = yItems is
  | [], _ => rfl
  | i :: is, h => by
    simp only [tItems, yItems]
    rw [tItem_eq (h i (by simp)), tItems_eq is (fun j hj => h j (by simp [hj]))]

theorem tExprs_eq : ∀ (es : List PExpr), (∀ e ∈ es, slotCanon e) → tExprs es = yExprs es
  | [], _ => rfl
  | e :: es, h => by
    simp only [tExprs, yExprs]
    rw [tX_eq_yX (h e (by simp)), tExprs_eq es (fun j hj => h j (by simp [hj]))]

theorem tOrdItems_eq : ∀ (es : List OrderByItem), (∀ i ∈ es, slotCanon i.e) → tOrdItems es = yOrdItems es
  | [], _ => rfl
  | e :: es, h => by
    simp only [tOrdItems, yOrdItems, tOrdItem, yOrdItem]
    rw [tX_eq_yX (h e (by simp)), tOrdItems_eq es (fun j hj => h j (by simp [hj]))]

theorem tSelect_eq {s : Select} (h1 : ∀ i ∈ s.first :: s.more, match i with
      | .star _ => True | .dotStar _ e => slotCanon e | .alias e _ => slotCanon e | .expr e => slotCanon e)
    (h2 : ∀ w, s.where_ = some w → slotCanon w.e) (h3 : ∀ g, s.groupBy = some g → ∀ e ∈ g.first :: g.more, slotCanon e)
    (h4 : ∀ h, s.having = some h → slotCanon h.e) : tSelect s = ySelect { s with trailing := false } := by
  have e1 : tItem s.first = yItem s.first := tItem_eq (h1 _ (by simp))
  have e2 : tItems s.more = yItems s.more := tItems_eq _ (fun j hj => h1 j (by simp [hj]))
  have e3 : tWhere s.where_ = yWhere s.where_ := by
    cases hx : s.where_ with
    | none => rfl
    | some w => simp only [tWhere, yWhere]; rw [tX_eq_yX (h2 w hx)]
  have e4 : tGroup s.groupBy = yGroup s.groupBy := by
    cases hx : s.groupBy with
    | none => rfl
    | some g =>
      simp only [tGroup, yGroup]
      rw [tX_eq_yX (h3 g hx _ (by simp)), tExprs_eq _ (fun j hj => h3 g hx j (by simp [hj]))]
  have e5 : tHaving s.having = yHaving s.having := by
    cases hx : s.having with
    | none => rfl
    | some h => simp only [tHaving, yHaving]; rw [tX_eq_yX (h4 h hx)]
  simp only [tSelect, ySelect, e1, e2, e3, e4, e5]

/-- **what `SQL()` loses at the query layer**: with expression slots that print their own yield, the printed tokens are
exactly the yield of the tree without its trailing comma — every ALL / DISTINCT, AS, ASC / DESC, OFFSET is kept -/
theorem sqlToksQ_eq_yield {q : QueryStatement} (h : slotsCanon q) : sqlToksQ q = yieldQ (untrail q) := by
  obtain ⟨q⟩ := q
  obtain ⟨h1, h2, h3, h4, h5⟩ := h
  cases q with
  | select s => exact tSelect_eq h1 h2 h3 h4
  | query s o l =>
    simp only [sqlToksQ, tQE, yieldQ, untrail, untrailQE, yQE]
    rw [tSelect_eq (s := s) h1 h2 h3 h4]
    congr 2
    cases o with
    | none => rfl
    | some o =>
      have := h5 o rfl
      simp only [tOrder, yOrder, tOrdItem, yOrdItem]
      rw [tX_eq_yX (this _ (by simp)), tOrdItems_eq _ (fun j hj => this j (by simp [hj]))]

/-- the yield with and without the trailing comma differ by that comma only -/
theorem ySelect_trailing (s : Select) : ∃ A B, ySelect s = A ++ (trailD s.trailing ++ B) ∧
    ySelect { s with trailing := false } = A ++ B :=
  ⟨.kw .select :: (yAod s.aod ++ (yItem s.first ++ yItems s.more)),
    yFrom s.from_ ++ (yWhere s.where_ ++ (yGroup s.groupBy ++ yHaving s.having)),
    by simp [ySelect, List.append_assoc], by simp [ySelect, trailD, List.append_assoc]⟩

end MF.Query
