/-
  MF.Proofs.ExprPosSub — the sub-expressions of a placed tree (for C06).

  * `shiftP d`: subtract `d` from every position field; `placeG_shift`: laying the same shape over tokens whose
    positions are those of another token range minus `d` gives the shifted tree;
  * `erase_placeG`: `placeG` does not change the shape;
  * `subs_ok`: every sub-expression `n` of `placeG (pe all) x i` is itself `placeG (pe all) (erase n) k` for a token
    index `k` inside the range of `x`, the tokens from `k` read `yield (erase n)`, `erase n` is again `PrecOK` / `NF`,
    and the token before index `k` (if any inside the lexed input) is not a `.` (so the lexer was not in its
    field-name mode when it read the first token of `n`).
-/
import MF.Proofs.ExprPosNodes
namespace MF.Expr

/-! ## shifting a tree -/

/-- the tokens `i', i'+1, …, i'+n-1` of `g'` are the tokens `i, …, i+n-1` of `g` moved `d` bytes to the left -/
def Sh (d : Nat) (g : Nat → Nat × Nat) (i : Nat) (g' : Nat → Nat × Nat) (i' n : Nat) : Prop :=
  ∀ k, k < n → g' (i' + k) = ((g (i + k)).1 - d, (g (i + k)).2 - d)

theorem Sh.get {d : Nat} {g g' : Nat → Nat × Nat} {i i' n : Nat} (h : Sh d g i g' i' n) {a a' : Nat} (k : Nat)
    (hk : k < n) (ha : a = i + k) (ha' : a' = i' + k) : g' a' = ((g a).1 - d, (g a).2 - d) := by
  subst ha ha'; exact h k hk

theorem Sh.get0 {d : Nat} {g g' : Nat → Nat × Nat} {i i' n : Nat} (h : Sh d g i g' i' n) (hn : 0 < n) :
    g' i' = ((g i).1 - d, (g i).2 - d) := h 0 hn

theorem Sh.sub {d : Nat} {g g' : Nat → Nat × Nat} {i i' n : Nat} (h : Sh d g i g' i' n) (off n' : Nat) {a a' : Nat}
    (hle : off + n' ≤ n) (ha : a = i + off) (ha' : a' = i' + off) : Sh d g a g' a' n' := by
  subst ha ha'
  intro k hk
  have := h (off + k) (by omega)
  simpa [Nat.add_assoc] using this

theorem placeIds_shift {d : Nat} {g g' : Nat → Nat × Nat} (ns : List Bytes) {k k' : Nat}
    (h : Sh d g k g' k' (2 * ns.length)) :
    (placeIds g' ns k').1 = (placeIds g ns k).1.map (PIdent.shift d) := by
  induction ns generalizing k k' with
  | nil => simp [placeIds]
  | cons n ns ih =>
    simp only [placeIds, List.map_cons, List.cons.injEq]
    refine ⟨?_, ih (h.sub 2 _ (by simp only [List.length_cons]; omega) rfl rfl)⟩
    have := h.get 1 (by simp only [List.length_cons]; omega) rfl rfl
    simp [identAt, PIdent.shift, this]

theorem placePath_shift {d : Nat} {g g' : Nat → Nat × Nat} (ns : List Bytes) {k k' : Nat}
    (h : Sh d g k g' k' (pathToks ns).length) :
    (placePath g' ns k').1 = (placePath g ns k).1.map (PIdent.shift d) := by
  cases ns with
  | nil => simp [placePath]
  | cons a ns =>
    rw [pathToks_length] at h
    have h0 := h.get0 (by omega)
    have hs := placeIds_shift ns (h.sub 1 (2 * ns.length) (by omega) rfl rfl)
    simp [placePath, hs, identAt, PIdent.shift, h0]

mutual
theorem placeG_shift {d : Nat} {g g' : Nat → Nat × Nat} :
    (x : Expr) → (i i' : Nat) → Sh d g i g' i' (ntok x) → (placeG g' x i').1 = shiftP d (placeG g x i).1
  | .null, i, i', h | .bool _, i, i', h | .str _, i, i', h | .bytes _, i, i', h | .param _, i, i', h
  | .ident _, i, i', h => by
    have := h.get0 (by simp [ntok, yield])
    simp [placeG, shiftP, this, identAt, PIdent.shift]
  | .int none _, i, i', h | .float none _, i, i', h => by
    have := h.get0 (by simp [ntok, yield, signToks])
    simp [placeG, shiftP, this]
  | .int (some _) _, i, i', h | .float (some _) _, i, i', h => by
    have h0 := h.get0 (by simp [ntok, yield, signToks])
    have h1 := h.get 1 (by simp [ntok, yield, signToks]) rfl rfl
    simp [placeG, shiftP, h0, h1]
  | .path [], i, i', _ => by simp [placeG, shiftP]
  | .path (a :: ns), i, i', h => by
    have hn : ntok (.path (a :: ns)) = 1 + 2 * ns.length := by simp [ntok, yield, pathToks_length]
    have h0 := h.get0 (by omega)
    have hs := placeIds_shift ns (h.sub 1 (2 * ns.length) (by omega) rfl rfl)
    simp [placeG, shiftP, hs, identAt, PIdent.shift, h0]
  | .paren e, i, i', h => by
    have IH := placeG_shift e (i + 1) (i' + 1) (h.sub 1 _ (by rw [ntok_paren]; omega) rfl rfl)
    have h0 := h.get0 (by rw [ntok_paren]; omega)
    have h1 := h.get (1 + ntok e) (a := i + 1 + ntok e) (a' := i' + 1 + ntok e) (by rw [ntok_paren]; omega)
      (by omega) (by omega)
    simp only [placeG, shiftP, placeG_snd, IH, h0, h1]
  | .unary op e, i, i', h => by
    have IH := placeG_shift e (i + 1) (i' + 1) (h.sub 1 _ (by rw [ntok_unary]; omega) rfl rfl)
    have h0 := h.get0 (by rw [ntok_unary]; omega)
    simp only [placeG, shiftP, IH, h0]
  | .bin op l r, i, i', h => by
    have IHl := placeG_shift l i i' (h.sub 0 _ (by rw [ntok_bin]; omega) rfl rfl)
    have IHr := placeG_shift r (i + ntok l + op.toks.length) (i' + ntok l + op.toks.length)
      (h.sub (ntok l + op.toks.length) _ (by rw [ntok_bin]; omega) (by omega) (by omega))
    simp only [placeG, shiftP, placeG_snd, IHl, IHr]
  | .isNull e n, i, i', h => by
    have IH := placeG_shift e i i' (h.sub 0 _ (by rw [ntok_isNull]; omega) rfl rfl)
    have h1 := h.get (ntok e + 1 + nb n) (a := i + ntok e + 1 + nb n) (a' := i' + ntok e + 1 + nb n)
      (by rw [ntok_isNull]; omega) (by omega) (by omega)
    simp only [placeG, shiftP, placeG_snd, IH, h1]
  | .isBool e n b, i, i', h => by
    have IH := placeG_shift e i i' (h.sub 0 _ (by rw [ntok_isBool]; omega) rfl rfl)
    have h1 := h.get (ntok e + 1 + nb n) (a := i + ntok e + 1 + nb n) (a' := i' + ntok e + 1 + nb n)
      (by rw [ntok_isBool]; omega) (by omega) (by omega)
    simp only [placeG, shiftP, placeG_snd, IH, h1]
  | .between n e lo hi, i, i', h => by
    have IHe := placeG_shift e i i' (h.sub 0 _ (by rw [ntok_between]; omega) rfl rfl)
    have IHlo := placeG_shift lo (i + ntok e + nb n + 1) (i' + ntok e + nb n + 1)
      (h.sub (ntok e + nb n + 1) _ (by rw [ntok_between]; omega) (by omega) (by omega))
    have IHhi := placeG_shift hi (i + ntok e + nb n + 1 + ntok lo + 1) (i' + ntok e + nb n + 1 + ntok lo + 1)
      (h.sub (ntok e + nb n + 1 + ntok lo + 1) _ (by rw [ntok_between]; omega) (by omega) (by omega))
    simp only [placeG, shiftP, placeG_snd, IHe, IHlo, IHhi]
  | .inList n e first more, i, i', h => by
    have IHe := placeG_shift e i i' (h.sub 0 _ (by rw [ntok_inList]; omega) rfl rfl)
    have IHf := placeG_shift first (i + ntok e + nb n + 1 + 1) (i' + ntok e + nb n + 1 + 1)
      (h.sub (ntok e + nb n + 1 + 1) _ (by rw [ntok_inList]; omega) (by omega) (by omega))
    have IHm := placesG_shift more (i + ntok e + nb n + 1 + 1 + ntok first) (i' + ntok e + nb n + 1 + 1 + ntok first)
      (h.sub (ntok e + nb n + 1 + 1 + ntok first) _ (by rw [ntok_inList]; omega) (by omega) (by omega))
    have h1 := h.get (ntok e + nb n + 1) (a := i + ntok e + nb n + 1) (a' := i' + ntok e + nb n + 1)
      (by rw [ntok_inList]; omega) (by omega) (by omega)
    have h2 := h.get (ntok e + nb n + 1 + 1 + ntok first + ntoks more)
      (a := i + ntok e + nb n + 1 + 1 + ntok first + ntoks more)
      (a' := i' + ntok e + nb n + 1 + 1 + ntok first + ntoks more) (by rw [ntok_inList]; omega) (by omega) (by omega)
    simp only [placeG, shiftP, placeG_snd, placesG_snd, IHe, IHf, IHm, h1, h2]
  | .inUnnest n e a, i, i', h => by
    have IHe := placeG_shift e i i' (h.sub 0 _ (by rw [ntok_inUnnest]; omega) rfl rfl)
    have IHa := placeG_shift a (i + ntok e + nb n + 1 + 2) (i' + ntok e + nb n + 1 + 2)
      (h.sub (ntok e + nb n + 1 + 2) _ (by rw [ntok_inUnnest]; omega) (by omega) (by omega))
    have h1 := h.get (ntok e + nb n + 1) (a := i + ntok e + nb n + 1) (a' := i' + ntok e + nb n + 1)
      (by rw [ntok_inUnnest]; omega) (by omega) (by omega)
    have h2 := h.get (ntok e + nb n + 1 + 2 + ntok a) (a := i + ntok e + nb n + 1 + 2 + ntok a)
      (a' := i' + ntok e + nb n + 1 + 2 + ntok a) (by rw [ntok_inUnnest]; omega) (by omega) (by omega)
    simp only [placeG, shiftP, placeG_snd, IHe, IHa, h1, h2]
  | .sel e nm, i, i', h => by
    have IH := placeG_shift e i i' (h.sub 0 _ (by rw [ntok_sel]; omega) rfl rfl)
    have h1 := h.get (ntok e + 1) (a := i + ntok e + 1) (a' := i' + ntok e + 1) (by rw [ntok_sel]; omega)
      (by omega) (by omega)
    simp only [placeG, shiftP, placeG_snd, IH, identAt, PIdent.shift, h1]
  | .index e none ix, i, i', h => by
    have IHe := placeG_shift e i i' (h.sub 0 _ (by rw [ntok_index_none]; omega) rfl rfl)
    have IHx := placeG_shift ix (i + ntok e + 1) (i' + ntok e + 1)
      (h.sub (ntok e + 1) _ (by rw [ntok_index_none]; omega) (by omega) (by omega))
    have h1 := h.get (ntok e + 1 + ntok ix) (a := i + ntok e + 1 + ntok ix) (a' := i' + ntok e + 1 + ntok ix)
      (by rw [ntok_index_none]; omega) (by omega) (by omega)
    simp only [placeG, shiftP, placeG_snd, IHe, IHx, h1, Option.map_none]
  | .index e (some (k, sp)) ix, i, i', h => by
    have IHe := placeG_shift e i i' (h.sub 0 _ (by rw [ntok_index_some]; omega) rfl rfl)
    have IHx := placeG_shift ix (i + ntok e + 3) (i' + ntok e + 3)
      (h.sub (ntok e + 3) _ (by rw [ntok_index_some]; omega) (by omega) (by omega))
    have h1 := h.get (ntok e + 1) (a := i + ntok e + 1) (a' := i' + ntok e + 1)
      (by rw [ntok_index_some]; omega) (by omega) (by omega)
    have h2 := h.get (ntok e + 3 + ntok ix) (a := i + ntok e + 3 + ntok ix) (a' := i' + ntok e + 3 + ntok ix)
      (by rw [ntok_index_some]; omega) (by omega) (by omega)
    have h3 := h.get (ntok e + 3 + ntok ix + 1) (a := i + ntok e + 3 + ntok ix + 1)
      (a' := i' + ntok e + 3 + ntok ix + 1) (by rw [ntok_index_some]; omega) (by omega) (by omega)
    simp only [placeG, shiftP, placeG_snd, IHe, IHx, h1, h2, h3, Option.map_some, PKw.shift]
  | .cast e ns, i, i', h => by
    have IHe := placeG_shift e (i + 2) (i' + 2) (h.sub 2 _ (by rw [ntok_cast]; omega) rfl rfl)
    have IHp := placePath_shift (g := g) (g' := g') (d := d) ns (k := i + 2 + ntok e + 1) (k' := i' + 2 + ntok e + 1)
      (h.sub (2 + ntok e + 1) _ (by rw [ntok_cast]; omega) (by omega) (by omega))
    have h0 := h.get0 (by rw [ntok_cast]; omega)
    have h1 := h.get (2 + ntok e + 1 + (pathToks ns).length) (a := i + 2 + ntok e + 1 + (pathToks ns).length)
      (a' := i' + 2 + ntok e + 1 + (pathToks ns).length) (by rw [ntok_cast]; omega) (by omega) (by omega)
    simp only [placeG, shiftP, placeG_snd, placePath_snd, IHe, IHp, h0, h1]
  | .array .nil, i, i', h => by
    have h0 := h.get0 (by rw [ntok_arr_nil]; omega)
    have h1 := h.get 1 (by rw [ntok_arr_nil]; omega) rfl rfl
    simp only [placeG, shiftP, shiftPs, h0, h1]
  | .array (.cons e es), i, i', h => by
    have IHe := placeG_shift e (i + 1) (i' + 1) (h.sub 1 _ (by rw [ntok_arr_cons]; omega) rfl rfl)
    have IHs := placesG_shift es (i + 1 + ntok e) (i' + 1 + ntok e)
      (h.sub (1 + ntok e) _ (by rw [ntok_arr_cons]; omega) (by omega) (by omega))
    have h0 := h.get0 (by rw [ntok_arr_cons]; omega)
    have h1 := h.get (1 + ntok e + ntoks es) (a := i + 1 + ntok e + ntoks es) (a' := i' + 1 + ntok e + ntoks es)
      (by rw [ntok_arr_cons]; omega) (by omega) (by omega)
    simp only [placeG, shiftP, shiftPs, placeG_snd, placesG_snd, IHe, IHs, h0, h1]
  | .ifE c t e, i, i', h => by
    have IHc := placeG_shift c (i + 2) (i' + 2) (h.sub 2 _ (by rw [ntok_ifE]; omega) rfl rfl)
    have IHt := placeG_shift t (i + 2 + ntok c + 1) (i' + 2 + ntok c + 1)
      (h.sub (2 + ntok c + 1) _ (by rw [ntok_ifE]; omega) (by omega) (by omega))
    have IHe := placeG_shift e (i + 2 + ntok c + 1 + ntok t + 1) (i' + 2 + ntok c + 1 + ntok t + 1)
      (h.sub (2 + ntok c + 1 + ntok t + 1) _ (by rw [ntok_ifE]; omega) (by omega) (by omega))
    have h0 := h.get0 (by rw [ntok_ifE]; omega)
    have h1 := h.get (2 + ntok c + 1 + ntok t + 1 + ntok e) (a := i + 2 + ntok c + 1 + ntok t + 1 + ntok e)
      (a' := i' + 2 + ntok c + 1 + ntok t + 1 + ntok e) (by rw [ntok_ifE]; omega) (by omega) (by omega)
    simp only [placeG, shiftP, placeG_snd, IHc, IHt, IHe, h0, h1]
  | .caseE o c t ws el, i, i', h => by
    have hn := ntok_caseE o el c t ws
    have IHo := placeO_shift false o (i + 1) (i' + 1)
      (h.sub 1 _ (by rw [hn]; simp only [preKw, Bool.false_eq_true, if_false]; omega) rfl rfl)
    have IHc := placeG_shift c (i + 1 + ntokO [] o + 1) (i' + 1 + ntokO [] o + 1)
      (h.sub (1 + ntokO [] o + 1) _ (by rw [hn]; omega) (by omega) (by omega))
    have IHt := placeG_shift t (i + 1 + ntokO [] o + 1 + ntok c + 1) (i' + 1 + ntokO [] o + 1 + ntok c + 1)
      (h.sub (1 + ntokO [] o + 1 + ntok c + 1) _ (by rw [hn]; omega) (by omega) (by omega))
    have IHw := placeW_shift ws (i + 1 + ntokO [] o + 1 + ntok c + 1 + ntok t)
      (i' + 1 + ntokO [] o + 1 + ntok c + 1 + ntok t)
      (h.sub (1 + ntokO [] o + 1 + ntok c + 1 + ntok t) _ (by rw [hn]; omega) (by omega) (by omega))
    have IHe := placeO_shift true el (i + 1 + ntokO [] o + 1 + ntok c + 1 + ntok t + ntokW ws)
      (i' + 1 + ntokO [] o + 1 + ntok c + 1 + ntok t + ntokW ws)
      (h.sub (1 + ntokO [] o + 1 + ntok c + 1 + ntok t + ntokW ws) _
        (by rw [hn]; simp only [preKw, if_true]; omega) (by omega) (by omega))
    have h0 := h.get0 (by rw [hn]; omega)
    have hw := h.get (1 + ntokO [] o) (a := i + 1 + ntokO [] o) (a' := i' + 1 + ntokO [] o) (by rw [hn]; omega)
      (by omega) (by omega)
    have he := h.get (1 + ntokO [] o + 1 + ntok c + 1 + ntok t + ntokW ws + ntokO [T .else_] el)
      (a := i + 1 + ntokO [] o + 1 + ntok c + 1 + ntok t + ntokW ws + ntokO [T .else_] el)
      (a' := i' + 1 + ntokO [] o + 1 + ntok c + 1 + ntok t + ntokW ws + ntokO [T .else_] el)
      (by rw [hn]; omega) (by omega) (by omega)
    simp only [placeG, shiftP, placeG_snd, placeO_snd, placeW_snd, Bool.false_eq_true, if_false, if_true,
      IHo, IHc, IHt, IHw, IHe, h0, hw, he]
theorem placesG_shift {d : Nat} {g g' : Nat → Nat × Nat} :
    (es : Exprs) → (i i' : Nat) → Sh d g i g' i' (ntoks es) → (placesG g' es i').1 = shiftPs d (placesG g es i).1
  | .nil, _, _, _ => by simp [placesG, shiftPs]
  | .cons e es, i, i', h => by
    have IHe := placeG_shift e (i + 1) (i' + 1) (h.sub 1 _ (by rw [ntoks_cons]; omega) rfl rfl)
    have IHs := placesG_shift es (i + 1 + ntok e) (i' + 1 + ntok e)
      (h.sub (1 + ntok e) _ (by rw [ntoks_cons]; omega) (by omega) (by omega))
    simp only [placesG, shiftPs, placeG_snd, IHe, IHs]
theorem placeW_shift {d : Nat} {g g' : Nat → Nat × Nat} :
    (ws : Whens) → (i i' : Nat) → Sh d g i g' i' (ntokW ws) → (placeW g' ws i').1 = shiftPW d (placeW g ws i).1
  | .nil, _, _, _ => by simp [placeW, shiftPW]
  | .cons c t ws, i, i', h => by
    have IHc := placeG_shift c (i + 1) (i' + 1) (h.sub 1 _ (by rw [ntokW_cons]; omega) rfl rfl)
    have IHt := placeG_shift t (i + 1 + ntok c + 1) (i' + 1 + ntok c + 1)
      (h.sub (1 + ntok c + 1) _ (by rw [ntokW_cons]; omega) (by omega) (by omega))
    have IHw := placeW_shift ws (i + 1 + ntok c + 1 + ntok t) (i' + 1 + ntok c + 1 + ntok t)
      (h.sub (1 + ntok c + 1 + ntok t) _ (by rw [ntokW_cons]; omega) (by omega) (by omega))
    have h0 := h.get0 (by rw [ntokW_cons]; omega)
    simp only [placeW, shiftPW, placeG_snd, IHc, IHt, IHw, h0]
theorem placeO_shift {d : Nat} {g g' : Nat → Nat × Nat} (kw : Bool) :
    (o : OExpr) → (i i' : Nat) → Sh d g i g' i' (ntokO (preKw kw) o) →
      (placeO g' kw o i').1 = shiftPO d (placeO g kw o i).1
  | .none, _, _, _ => by simp [placeO, shiftPO]
  | .some e, i, i', h => by
    cases kw with
    | false =>
      have IH := placeG_shift e i i' (h.sub 0 _ (by simp [ntokO_some, preKw]) rfl rfl)
      simp only [placeO, shiftPO, nb, Bool.false_eq_true, if_false, Nat.add_zero, IH, Nat.zero_sub]
    | true =>
      have IH := placeG_shift e (i + 1) (i' + 1) (h.sub 1 _ (by simp [ntokO_some, preKw]) rfl rfl)
      have h0 := h.get0 (by simp [ntokO_some, preKw]; omega)
      simp only [placeO, shiftPO, nb, if_true, IH, h0]
end

/-! ## `placeG` keeps the shape -/

theorem placeIds_names (g : Nat → Nat × Nat) (ns : List Bytes) (k : Nat) :
    (placeIds g ns k).1.map (·.name) = ns := by
  induction ns generalizing k with
  | nil => simp [placeIds]
  | cons n ns ih => simp [placeIds, ih, identAt]

theorem placePath_names (g : Nat → Nat × Nat) (ns : List Bytes) (k : Nat) : (placePath g ns k).1.map (·.name) = ns := by
  cases ns with
  | nil => simp [placePath]
  | cons a ns => simp [placePath, placeIds_names, identAt]

mutual
theorem erase_placeG (g : Nat → Nat × Nat) : (x : Expr) → (i : Nat) → erase (placeG g x i).1 = x
  | .null, _ | .bool _, _ | .str _, _ | .bytes _, _ | .param _, _ | .ident _, _ => by simp [placeG, erase, identAt]
  | .int none _, _ | .float none _, _ | .int (some _) _, _ | .float (some _) _, _ => by simp [placeG, erase]
  | .path [], _ => by simp [placeG, erase]
  | .path (a :: ns), i => by simp [placeG, erase, placeIds_names, identAt]
  | .paren e, i => by simp only [placeG, erase, erase_placeG g e]
  | .unary _ e, i => by simp only [placeG, erase, erase_placeG g e]
  | .bin _ l r, i => by simp only [placeG, erase, erase_placeG g l, erase_placeG g r]
  | .isNull e _, i => by simp only [placeG, erase, erase_placeG g e]
  | .isBool e _ _, i => by simp only [placeG, erase, erase_placeG g e]
  | .between _ e lo hi, i => by simp only [placeG, erase, erase_placeG g e, erase_placeG g lo, erase_placeG g hi]
  | .inList _ e first more, i => by
    simp only [placeG, erase, erase_placeG g e, erase_placeG g first, erases_placesG g more]
  | .inUnnest _ e a, i => by simp only [placeG, erase, erase_placeG g e, erase_placeG g a]
  | .sel e _, i => by simp only [placeG, erase, erase_placeG g e, identAt]
  | .index e none ix, i => by simp only [placeG, erase, erase_placeG g e, erase_placeG g ix, Option.map_none]
  | .index e (some (_, _)) ix, i => by
    simp only [placeG, erase, erase_placeG g e, erase_placeG g ix, Option.map_some, PKw.erase]
  | .caseE o c t ws el, i => by
    simp only [placeG, erase, eraseO_placeO g false o, erase_placeG g c, erase_placeG g t, eraseW_placeW g ws,
      eraseO_placeO g true el]
  | .ifE c t e, i => by simp only [placeG, erase, erase_placeG g c, erase_placeG g t, erase_placeG g e]
  | .cast e ns, i => by simp only [placeG, erase, erase_placeG g e, placePath_names]
  | .array .nil, _ => by simp [placeG, erase, erases]
  | .array (.cons e es), i => by simp only [placeG, erase, erases, erase_placeG g e, erases_placesG g es]
theorem erases_placesG (g : Nat → Nat × Nat) : (es : Exprs) → (i : Nat) → erases (placesG g es i).1 = es
  | .nil, _ => by simp [placesG, erases]
  | .cons e es, i => by simp only [placesG, erases, erase_placeG g e, erases_placesG g es]
theorem eraseW_placeW (g : Nat → Nat × Nat) : (ws : Whens) → (i : Nat) → eraseW (placeW g ws i).1 = ws
  | .nil, _ => by simp [placeW, eraseW]
  | .cons c t ws, i => by simp only [placeW, eraseW, erase_placeG g c, erase_placeG g t, eraseW_placeW g ws]
theorem eraseO_placeO (g : Nat → Nat × Nat) (kw : Bool) : (o : OExpr) → (i : Nat) → eraseO (placeO g kw o i).1 = o
  | .none, _ => by simp [placeO, eraseO]
  | .some e, i => by simp only [placeO, eraseO, erase_placeG g e]
end

/-! ## the sub-expressions -/

/-- the lexer was not in field-name mode before token `k`: there is no token before it, or that token is not `.` -/
def PrevOK (all : List Token) (k : Nat) : Prop := k = 0 ∨ tk (tokAt all (k - 1)).kind ≠ .dot

/-- the sub-expression `n` sits at some token index `k` of the range `[lo, hi)` -/
def SubAt (all : List Token) (lo hi : Nat) (n : PExpr) : Prop :=
  ∃ k, lo ≤ k ∧ k + ntok (erase n) ≤ hi ∧ placeG (pe all) (erase n) k = (n, k + ntok (erase n)) ∧
    Pre all k (yield (erase n)) ∧ PrevOK all k ∧ nf (erase n) = true ∧ precOK (erase n) = true

theorem SubAt.mono {all : List Token} {lo lo' hi hi' : Nat} {n : PExpr} (h : SubAt all lo hi n) (h1 : lo' ≤ lo)
    (h2 : hi ≤ hi') : SubAt all lo' hi' n := by
  obtain ⟨k, a, b, rest⟩ := h
  exact ⟨k, by omega, by omega, rest⟩

theorem prevOK_of_tok {all : List Token} {k : Nat} {c : TK} (h : TokIs all k (T c)) (hc : c ≠ .dot) :
    PrevOK all (k + 1) := by
  right; rw [Nat.add_sub_cancel, h.tk]; exact hc

theorem Pre.last {all : List Token} {k : Nat} {ys : List Tok'} (h : Pre all k ys) (hne : ys ≠ []) :
    TokIs all (k + ys.length - 1) (ys.getLast hne) := by
  induction ys generalizing k with
  | nil => exact absurd rfl hne
  | cons y ys ih =>
    obtain ⟨h1, h2⟩ := Pre_cons'.mp h
    cases ys with
    | nil => simpa using h1
    | cons z zs =>
      have := ih h2 (by simp)
      simp only [List.length_cons, List.getLast_cons_cons] at this ⊢
      rw [show k + (zs.length + 1 + 1) - 1 = k + 1 + (zs.length + 1) - 1 by omega]
      exact this

/-- the class of the last token of a binary operator -/
def BOp.lastTk : BOp → TK
  | .mul => .star | .div => .slash | .concat => .concat | .add => .plus | .sub => .minus
  | .shl => .shl | .shr => .shr | .bitAnd => .amp | .bitXor => .caret | .bitOr => .bar
  | .eq => .eq | .ne => .ne | .lt => .lt | .le => .le | .gt => .gt | .ge => .ge
  | .like => .like | .notLike => .like | .and => .and_ | .or => .or_

theorem optoks_last (op : BOp) : ∃ hne : op.toks ≠ [], op.toks.getLast hne = T op.lastTk := by
  cases op <;> exact ⟨by simp [BOp.toks], rfl⟩

theorem lastTk_ne_dot (op : BOp) : op.lastTk ≠ .dot := by cases op <;> decide

theorem prevOK_op {all : List Token} {k : Nat} {op : BOp} (h : Pre all k op.toks) :
    PrevOK all (k + op.toks.length) := by
  obtain ⟨hne, hl⟩ := optoks_last op
  have := h.last hne
  rw [hl] at this
  have hpos : 0 < op.toks.length := List.length_pos_iff.mpr hne
  have := prevOK_of_tok this (lastTk_ne_dot op)
  rwa [show k + op.toks.length - 1 + 1 = k + op.toks.length by omega] at this

section subs
variable {all : List Token}

/-- the head of the list of sub-expressions -/
theorem subAt_self {x : Expr} {i : Nat} (hpre : Pre all i (yield x)) (hnf : nf x = true) (hp : precOK x = true)
    (hprev : PrevOK all i) : SubAt all i (i + ntok x) (placeG (pe all) x i).1 := by
  refine ⟨i, Nat.le_refl _, by rw [erase_placeG]; omega, ?_, by rw [erase_placeG]; exact hpre, hprev,
    by rw [erase_placeG]; exact hnf, by rw [erase_placeG]; exact hp⟩
  rw [erase_placeG]
  exact Prod.ext rfl (placeG_snd _ _ _)

mutual
theorem subs_ok : (x : Expr) → (i : Nat) → Pre all i (yield x) → nf x = true → precOK x = true → PrevOK all i →
    ∀ n ∈ subsP (placeG (pe all) x i).1, SubAt all i (i + ntok x) n
  | .null, i, hpre, hnf, hp, hprev | .bool _, i, hpre, hnf, hp, hprev | .str _, i, hpre, hnf, hp, hprev
  | .bytes _, i, hpre, hnf, hp, hprev | .param _, i, hpre, hnf, hp, hprev | .ident _, i, hpre, hnf, hp, hprev
  | .int none _, i, hpre, hnf, hp, hprev | .float none _, i, hpre, hnf, hp, hprev
  | .int (some _) _, i, hpre, hnf, hp, hprev | .float (some _) _, i, hpre, hnf, hp, hprev
  | .path [], i, hpre, hnf, hp, hprev | .path (_ :: _), i, hpre, hnf, hp, hprev => by
    intro n hn
    have hs := subAt_self hpre hnf hp hprev
    simp only [placeG, subsP, List.mem_singleton] at hn hs
    subst hn; exact hs
  | .paren e, i, hpre, hnf, hp, hprev => by
    intro n hn
    have hs := subAt_self hpre hnf hp hprev
    simp only [yield, Pre_cons', Pre_append, Pre_nil, and_true, yield_length] at hpre
    obtain ⟨hlp, he, _⟩ := hpre
    have IH := subs_ok e (i + 1) he (by simpa [nf] using hnf) (by simpa [precOK] using hp)
      (prevOK_of_tok hlp (by decide))
    simp only [placeG, subsP, List.mem_cons] at hn hs
    rcases hn with rfl | hn
    · exact hs
    · exact (IH n hn).mono (by omega) (by rw [ntok_paren]; omega)
  | .unary op e, i, hpre, hnf, hp, hprev => by
    intro n hn
    have hs := subAt_self hpre hnf hp hprev
    simp only [yield, Pre_cons'] at hpre
    obtain ⟨hop, he⟩ := hpre
    simp only [nf, Bool.and_eq_true] at hnf
    simp only [precOK, Bool.and_eq_true] at hp
    have IH := subs_ok e (i + 1) he hnf.1 hp.1 (prevOK_of_tok hop (by cases op <;> simp [UOp.tk]))
    simp only [placeG, subsP, List.mem_cons] at hn hs
    rcases hn with rfl | hn
    · exact hs
    · exact (IH n hn).mono (by omega) (by rw [ntok_unary]; omega)
  | .bin op l r, i, hpre, hnf, hp, hprev => by
    intro n hn
    have hs := subAt_self hpre hnf hp hprev
    simp only [yield, Pre_append, yield_length] at hpre
    obtain ⟨hl, hop, hr⟩ := hpre
    simp only [nf, Bool.and_eq_true] at hnf
    simp only [precOK, Bool.and_eq_true] at hp
    have IHl := subs_ok l i hl hnf.1 hp.1.1.1 hprev
    have IHr := subs_ok r (i + ntok l + op.toks.length) hr hnf.2 hp.1.1.2 (prevOK_op hop)
    simp only [placeG, subsP, List.mem_cons, List.mem_append, placeG_snd] at hn hs
    rcases hn with rfl | hn | hn
    · exact hs
    · exact (IHl n hn).mono (Nat.le_refl _) (by rw [ntok_bin]; omega)
    · exact (IHr n hn).mono (by omega) (by rw [ntok_bin]; omega)
  | .isNull e nt, i, hpre, hnf, hp, hprev => by
    intro n hn
    have hs := subAt_self hpre hnf hp hprev
    simp only [yield, Pre_append, yield_length] at hpre
    simp only [precOK, Bool.and_eq_true] at hp
    have IH := subs_ok e i hpre.1 (by simpa [nf] using hnf) hp.1 hprev
    simp only [placeG, subsP, List.mem_cons] at hn hs
    rcases hn with rfl | hn
    · exact hs
    · exact (IH n hn).mono (Nat.le_refl _) (by rw [ntok_isNull]; omega)
  | .isBool e nt b, i, hpre, hnf, hp, hprev => by
    intro n hn
    have hs := subAt_self hpre hnf hp hprev
    simp only [yield, Pre_append, yield_length] at hpre
    simp only [precOK, Bool.and_eq_true] at hp
    have IH := subs_ok e i hpre.1 (by simpa [nf] using hnf) hp.1 hprev
    simp only [placeG, subsP, List.mem_cons] at hn hs
    rcases hn with rfl | hn
    · exact hs
    · exact (IH n hn).mono (Nat.le_refl _) (by rw [ntok_isBool]; omega)
  | .between nt e lo hi, i, hpre, hnf, hp, hprev => by
    intro n hn
    have hs := subAt_self hpre hnf hp hprev
    simp only [yield, Pre_cons', Pre_append, yield_length, notToks_length] at hpre
    obtain ⟨he, _, hbt, hlo, hand, hhi⟩ := hpre
    simp only [nf, Bool.and_eq_true] at hnf
    simp only [precOK, Bool.and_eq_true] at hp
    have IHe := subs_ok e i he hnf.1.1 hp.1.1.1.1.1 hprev
    have IHlo := subs_ok lo (i + ntok e + nb nt + 1) hlo hnf.1.2 hp.1.1.1.1.2 (prevOK_of_tok hbt (by decide))
    have IHhi := subs_ok hi (i + ntok e + nb nt + 1 + ntok lo + 1) hhi hnf.2 hp.1.1.1.2
      (prevOK_of_tok hand (by decide))
    simp only [placeG, subsP, List.mem_cons, List.mem_append, placeG_snd] at hn hs
    rcases hn with rfl | hn | hn | hn
    · exact hs
    · exact (IHe n hn).mono (Nat.le_refl _) (by rw [ntok_between]; omega)
    · exact (IHlo n hn).mono (by omega) (by rw [ntok_between]; omega)
    · exact (IHhi n hn).mono (by omega) (by rw [ntok_between]; omega)
  | .inList nt e first more, i, hpre, hnf, hp, hprev => by
    intro n hn
    have hs := subAt_self hpre hnf hp hprev
    simp only [yield, Pre_cons', Pre_append, Pre_nil, and_true, yield_length, yields_length, notToks_length] at hpre
    obtain ⟨he, _, _, hlp, hf, hm, _⟩ := hpre
    simp only [nf, Bool.and_eq_true] at hnf
    simp only [precOK, Bool.and_eq_true] at hp
    have IHe := subs_ok e i he hnf.1.1 hp.1.1.1 hprev
    have IHf := subs_ok first (i + ntok e + nb nt + 1 + 1) hf hnf.1.2 hp.1.2 (prevOK_of_tok hlp (by decide))
    have IHm := subss_ok more (i + ntok e + nb nt + 1 + 1 + ntok first) hm hnf.2 hp.2
    simp only [placeG, subsP, List.mem_cons, List.mem_append, placeG_snd] at hn hs
    rcases hn with rfl | hn | hn | hn
    · exact hs
    · exact (IHe n hn).mono (Nat.le_refl _) (by rw [ntok_inList]; omega)
    · exact (IHf n hn).mono (by omega) (by rw [ntok_inList]; omega)
    · exact (IHm n hn).mono (by omega) (by rw [ntok_inList]; omega)
  | .inUnnest nt e a, i, hpre, hnf, hp, hprev => by
    intro n hn
    have hs := subAt_self hpre hnf hp hprev
    simp only [yield, Pre_cons', Pre_append, Pre_nil, and_true, yield_length, notToks_length] at hpre
    obtain ⟨he, _, _, _, hlp, ha, _⟩ := hpre
    simp only [nf, Bool.and_eq_true] at hnf
    simp only [precOK, Bool.and_eq_true] at hp
    have IHe := subs_ok e i he hnf.1 hp.1.1 hprev
    have IHa := subs_ok a (i + ntok e + nb nt + 1 + 1 + 1) ha hnf.2 hp.2 (prevOK_of_tok hlp (by decide))
    simp only [placeG, subsP, List.mem_cons, List.mem_append, placeG_snd] at hn hs
    rcases hn with rfl | hn | hn
    · exact hs
    · exact (IHe n hn).mono (Nat.le_refl _) (by rw [ntok_inUnnest]; omega)
    · exact (IHa n (by rwa [show i + ntok e + nb nt + 1 + 1 + 1 = i + ntok e + nb nt + 1 + 2 by omega])).mono (by omega)
        (by rw [ntok_inUnnest]; omega)
  | .sel e nm, i, hpre, hnf, hp, hprev => by
    intro n hn
    have hs := subAt_self hpre hnf hp hprev
    simp only [yield, Pre_append, yield_length] at hpre
    simp only [nf, Bool.and_eq_true] at hnf
    simp only [precOK, Bool.and_eq_true] at hp
    have IH := subs_ok e i hpre.1 hnf.1 hp.1 hprev
    simp only [placeG, subsP, List.mem_cons] at hn hs
    rcases hn with rfl | hn
    · exact hs
    · exact (IH n hn).mono (Nat.le_refl _) (by rw [ntok_sel]; omega)
  | .index e none ix, i, hpre, hnf, hp, hprev => by
    intro n hn
    have hs := subAt_self hpre hnf hp hprev
    simp only [yield, Pre_cons', Pre_append, Pre_nil, and_true, yield_length] at hpre
    obtain ⟨he, hlb, hix, _⟩ := hpre
    simp only [nf, Bool.and_eq_true] at hnf
    simp only [precOK, Bool.and_eq_true] at hp
    have IHe := subs_ok e i he hnf.1 hp.1.1 hprev
    have IHx := subs_ok ix (i + ntok e + 1) hix hnf.2 hp.2 (prevOK_of_tok hlb (by decide))
    simp only [placeG, subsP, List.mem_cons, List.mem_append, placeG_snd] at hn hs
    rcases hn with rfl | hn | hn
    · exact hs
    · exact (IHe n hn).mono (Nat.le_refl _) (by rw [ntok_index_none]; omega)
    · exact (IHx n hn).mono (by omega) (by rw [ntok_index_none]; omega)
  | .index e (some (k, sp)) ix, i, hpre, hnf, hp, hprev => by
    intro n hn
    have hs := subAt_self hpre hnf hp hprev
    simp only [yield, Pre_cons', Pre_append, Pre_nil, and_true, yield_length] at hpre
    obtain ⟨he, _, _, hlp, hix, _⟩ := hpre
    simp only [nf, Bool.and_eq_true] at hnf
    simp only [precOK, Bool.and_eq_true] at hp
    have IHe := subs_ok e i he hnf.1.1 hp.1.1 hprev
    have IHx := subs_ok ix (i + ntok e + 1 + 1 + 1) hix hnf.1.2 hp.2 (prevOK_of_tok hlp (by decide))
    simp only [placeG, subsP, List.mem_cons, List.mem_append, placeG_snd] at hn hs
    rcases hn with rfl | hn | hn
    · exact hs
    · exact (IHe n hn).mono (Nat.le_refl _) (by rw [ntok_index_some]; omega)
    · exact (IHx n (by rwa [show i + ntok e + 1 + 1 + 1 = i + ntok e + 3 by omega])).mono (by omega)
        (by rw [ntok_index_some]; omega)
  | .cast e ns, i, hpre, hnf, hp, hprev => by
    intro n hn
    have hs := subAt_self hpre hnf hp hprev
    simp only [yield, Pre_cons', Pre_append, Pre_nil, and_true, yield_length] at hpre
    obtain ⟨_, hlp, he, _⟩ := hpre
    simp only [nf, Bool.and_eq_true] at hnf
    simp only [precOK] at hp
    have e2 : i + 1 + 1 = i + 2 := by omega
    rw [e2] at he
    have IH := subs_ok e (i + 2) he hnf.1 hp (by rw [← e2]; exact prevOK_of_tok hlp (by decide))
    simp only [placeG, subsP, List.mem_cons] at hn hs
    rcases hn with rfl | hn
    · exact hs
    · exact (IH n hn).mono (by omega) (by rw [ntok_cast]; omega)
  | .array .nil, i, hpre, hnf, hp, hprev => by
    intro n hn
    have hs := subAt_self hpre hnf hp hprev
    simp only [placeG, subsP, subsPs, List.mem_cons, List.not_mem_nil, or_false, List.append_nil] at hn hs
    subst hn; exact hs
  | .array (.cons e es), i, hpre, hnf, hp, hprev => by
    intro n hn
    have hs := subAt_self hpre hnf hp hprev
    simp only [yield, Pre_cons', Pre_append, Pre_nil, and_true, yield_length, yields_length] at hpre
    obtain ⟨hlb, he, hes, _⟩ := hpre
    simp only [nf, nfs, Bool.and_eq_true] at hnf
    simp only [precOK, precOKs, Bool.and_eq_true] at hp
    have IHe := subs_ok e (i + 1) he hnf.1 hp.1 (prevOK_of_tok hlb (by decide))
    have IHs := subss_ok es (i + 1 + ntok e) hes hnf.2 hp.2
    simp only [placeG, subsP, subsPs, List.mem_cons, List.mem_append, placeG_snd] at hn hs
    rcases hn with rfl | hn | hn
    · exact hs
    · exact (IHe n hn).mono (by omega) (by rw [ntok_arr_cons]; omega)
    · exact (IHs n hn).mono (by omega) (by rw [ntok_arr_cons]; omega)
  | .ifE c t e, i, hpre, hnf, hp, hprev => by
    intro n hn
    have hs := subAt_self hpre hnf hp hprev
    simp only [yield, Pre_cons', Pre_append, Pre_nil, and_true, yield_length] at hpre
    obtain ⟨_, hlp, hc, hc1, ht, hc2, he, _⟩ := hpre
    simp only [nf, Bool.and_eq_true] at hnf
    simp only [precOK, Bool.and_eq_true] at hp
    have e2 : i + 1 + 1 = i + 2 := by omega
    rw [e2] at hc hc1 ht hc2 he
    have IHc := subs_ok c (i + 2) hc hnf.1.1 hp.1.1 (by rw [← e2]; exact prevOK_of_tok hlp (by decide))
    have IHt := subs_ok t (i + 2 + ntok c + 1) ht hnf.1.2 hp.1.2 (prevOK_of_tok hc1 (by decide))
    have IHe := subs_ok e (i + 2 + ntok c + 1 + ntok t + 1) he hnf.2 hp.2 (prevOK_of_tok hc2 (by decide))
    simp only [placeG, subsP, List.mem_cons, List.mem_append, placeG_snd] at hn hs
    rcases hn with rfl | hn | hn | hn
    · exact hs
    · exact (IHc n hn).mono (by omega) (by rw [ntok_ifE]; omega)
    · exact (IHt n hn).mono (by omega) (by rw [ntok_ifE]; omega)
    · exact (IHe n hn).mono (by omega) (by rw [ntok_ifE]; omega)
  | .caseE o c t ws el, i, hpre, hnf, hp, hprev => by
    intro n hn
    have hs := subAt_self hpre hnf hp hprev
    simp only [yield, Pre_cons', Pre_append, Pre_nil, and_true, yield_length] at hpre
    obtain ⟨hcase, hO, hwh, hc, hth, ht, hW, hE, _⟩ := hpre
    have lO : (yieldO [] o).length = ntokO [] o := rfl
    have lW : (yieldW ws).length = ntokW ws := rfl
    rw [lO] at hwh hc hth ht hW hE
    rw [lW] at hE
    simp only [nf, Bool.and_eq_true] at hnf
    simp only [precOK, Bool.and_eq_true] at hp
    have IHo := subso_ok false o (i + 1) hO hnf.1.1.1.1 hp.1.1.1.1 (fun _ => prevOK_of_tok hcase (by decide))
    have IHc := subs_ok c (i + 1 + ntokO [] o + 1) hc hnf.1.1.1.2 hp.1.1.1.2 (prevOK_of_tok hwh (by decide))
    have IHt := subs_ok t (i + 1 + ntokO [] o + 1 + ntok c + 1) ht hnf.1.1.2 hp.1.1.2 (prevOK_of_tok hth (by decide))
    have IHw := subsw_ok ws (i + 1 + ntokO [] o + 1 + ntok c + 1 + ntok t) hW hnf.1.2 hp.1.2
    have IHe := subso_ok true el (i + 1 + ntokO [] o + 1 + ntok c + 1 + ntok t + ntokW ws) hE hnf.2 hp.2
      (fun h => by cases h)
    have hcn := ntok_caseE o el c t ws
    simp only [preKw, Bool.false_eq_true, if_false, if_true] at IHo IHe
    simp only [placeG, subsP, List.mem_cons, List.mem_append, placeG_snd, placeO_snd, placeW_snd,
      Bool.false_eq_true, if_false, if_true] at hn hs
    rcases hn with rfl | hn | hn | hn | hn | hn
    · exact hs
    · exact (IHo n hn).mono (by omega) (by omega)
    · exact (IHc n hn).mono (by omega) (by omega)
    · exact (IHt n hn).mono (by omega) (by omega)
    · exact (IHw n hn).mono (by omega) (by omega)
    · exact (IHe n hn).mono (by omega) (by omega)
theorem subss_ok : (es : Exprs) → (i : Nat) → Pre all i (yields es) → nfs es = true → precOKs es = true →
    ∀ n ∈ subsPs (placesG (pe all) es i).1, SubAt all i (i + ntoks es) n
  | .nil, _, _, _, _ => by simp [placesG, subsPs]
  | .cons e es, i, hpre, hnf, hp => by
    intro n hn
    simp only [yields, Pre_cons', Pre_append, yield_length] at hpre
    obtain ⟨hc, he, hes⟩ := hpre
    simp only [nfs, Bool.and_eq_true] at hnf
    simp only [precOKs, Bool.and_eq_true] at hp
    have IHe := subs_ok e (i + 1) he hnf.1 hp.1 (prevOK_of_tok hc (by decide))
    have IHs := subss_ok es (i + 1 + ntok e) hes hnf.2 hp.2
    simp only [placesG, subsPs, List.mem_append, placeG_snd] at hn
    rcases hn with hn | hn
    · exact (IHe n hn).mono (by omega) (by rw [ntoks_cons]; omega)
    · exact (IHs n hn).mono (by omega) (by rw [ntoks_cons]; omega)
theorem subsw_ok : (ws : Whens) → (i : Nat) → Pre all i (yieldW ws) → nfw ws = true → precOKw ws = true →
    ∀ n ∈ subsPW (placeW (pe all) ws i).1, SubAt all i (i + ntokW ws) n
  | .nil, _, _, _, _ => by simp [placeW, subsPW]
  | .cons c t ws, i, hpre, hnf, hp => by
    intro n hn
    simp only [yieldW, Pre_cons', Pre_append, yield_length] at hpre
    obtain ⟨hwh, hc, hth, ht, hW⟩ := hpre
    simp only [nfw, Bool.and_eq_true] at hnf
    simp only [precOKw, Bool.and_eq_true] at hp
    have IHc := subs_ok c (i + 1) hc hnf.1.1 hp.1.1 (prevOK_of_tok hwh (by decide))
    have IHt := subs_ok t (i + 1 + ntok c + 1) ht hnf.1.2 hp.1.2 (prevOK_of_tok hth (by decide))
    have IHw := subsw_ok ws (i + 1 + ntok c + 1 + ntok t) hW hnf.2 hp.2
    simp only [placeW, subsPW, List.mem_append, placeG_snd] at hn
    rcases hn with hn | hn | hn
    · exact (IHc n hn).mono (by omega) (by rw [ntokW_cons]; omega)
    · exact (IHt n hn).mono (by omega) (by rw [ntokW_cons]; omega)
    · exact (IHw n hn).mono (by omega) (by rw [ntokW_cons]; omega)
theorem subso_ok (kw : Bool) : (o : OExpr) → (i : Nat) → Pre all i (yieldO (preKw kw) o) → nfo o = true →
    precOKo o = true → (kw = false → PrevOK all i) →
    ∀ n ∈ subsPO (placeO (pe all) kw o i).1, SubAt all i (i + ntokO (preKw kw) o) n
  | .none, _, _, _, _, _ => by simp [placeO, subsPO]
  | .some e, i, hpre, hnf, hp, hprev => by
    intro n hn
    simp only [nfo] at hnf
    simp only [precOKo] at hp
    cases kw with
    | false =>
      simp only [yieldO, preKw, Bool.false_eq_true, if_false, List.nil_append] at hpre
      have IH := subs_ok e i hpre hnf hp (hprev rfl)
      simp only [placeO, subsPO, nb, Bool.false_eq_true, if_false, Nat.add_zero] at hn
      simp only [preKw, Bool.false_eq_true, if_false, ntokO_some, List.length_nil, Nat.zero_add]
      exact IH n hn
    | true =>
      simp only [yieldO, preKw, if_true, List.cons_append, List.nil_append, Pre_cons'] at hpre
      obtain ⟨hel, he⟩ := hpre
      have IH := subs_ok e (i + 1) he hnf hp (prevOK_of_tok hel (by decide))
      simp only [placeO, subsPO, nb, if_true] at hn
      simp only [preKw, if_true, ntokO_some, List.length_cons, List.length_nil]
      exact (IH n hn).mono (by omega) (by omega)
end

end subs

end MF.Expr
