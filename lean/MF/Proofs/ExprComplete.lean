/-
  MF.Proofs.ExprComplete — completeness of the expression parser model: every tree that is grouped as the
  precedence table says (`PrecOK`) and is in the parser's normal form (`NF`) is what the parser builds from its
  yield.  Structure: a record `Complete e` with one statement per ladder level —
    `Direct k e`  the production of level `k ≥ level e` parses `yield e ++ rest` to `(e, rest)` when `rest` does
                  not continue an expression of level `k`;
    `CPS L e`     for the loop levels, in continuation-passing form: whatever the loop of level `L` eventually
                  makes of accumulator `e` on `rest`, the production of level `L` makes of `yield e ++ rest`;
    `CPS1 e`      the same for the postfix loop of `parseSelector`
  proved by structural induction on `e`.
-/
import MF.Proofs.ExprEv
import MF.Proofs.ExprSound
set_option linter.unusedSimpArgs false
namespace MF.Expr

/-! ## what may follow -/

theorem noCont_mono {k j : Nat} {rest : List Token} (h : noCont k rest = true) (hjk : j ≤ k) :
    noCont j rest = true := by
  unfold noCont at *
  split at h
  · simp only [decide_eq_true_eq] at h ⊢; omega
  · rfl

theorem noCont_cons {t : Token} {ts : List Token} {k l : Nat} (h : contLevel (tk t.kind) = some l) (hkl : k < l) :
    noCont k (t :: ts) = true := by
  simp [noCont, h, hkl]

theorem noCont_cons_none {t : Token} {ts : List Token} {k : Nat} (h : contLevel (tk t.kind) = none) :
    noCont k (t :: ts) = true := by
  simp [noCont, h]

theorem noCont_ne {k : Nat} {rest : List Token} (h : noCont k rest = true) {l : Nat} (hl : l ≤ k) :
    contLevel (cur rest) ≠ some l := by
  intro hc
  simp [noCont, hc] at h
  omega

theorem noCont0 {rest : List Token} (h : noCont 0 rest = true) : cur rest ≠ .lparen ∧ cur rest ≠ .string := by
  have := noCont_ne h (Nat.le_refl 0)
  constructor <;> intro hc <;> simp [hc, contLevel] at this

theorem noCont1 {rest : List Token} (h : noCont 1 rest = true) : cur rest ≠ .dot ∧ cur rest ≠ .lbrack := by
  have := noCont_ne h (Nat.le_refl 1)
  constructor <;> intro hc <;> simp [hc, contLevel] at this

/-! ## loop operators and the table -/

theorem loopOp_cont {L : Nat} {k : TK} {op : BOp} (h : loopOp L k = some op) :
    contLevel k = some L ∧ op.toks = [T k] := by
  unfold loopOp at h
  split at h
  · cases k <;> simp [mulOp?] at h <;> subst h <;> exact ⟨rfl, rfl⟩
  · cases k <;> simp [addOp?] at h <;> subst h <;> exact ⟨rfl, rfl⟩
  · cases k <;> simp [shiftOp?] at h <;> subst h <;> exact ⟨rfl, rfl⟩
  all_goals first | (cases h; exact ⟨rfl, rfl⟩) | cases h

theorem loopOp_none_of_noCont {L : Nat} {rest : List Token} (h : noCont L rest = true) :
    loopOp L (cur rest) = none := by
  cases hop : loopOp L (cur rest) with
  | none => rfl
  | some op => exact absurd (loopOp_cont hop).1 (noCont_ne h (Nat.le_refl L))

theorem loopOp_of_op {op : BOp} (h : op.nonAssoc = false) :
    ∃ k, op.toks = [T k] ∧ loopOp op.level k = some op ∧ BinLoop op.level := by
  cases op <;> first
    | (simp [BOp.nonAssoc, BOp.level] at h; done)
    | exact ⟨_, rfl, rfl, by simp [BinLoop, BOp.level]⟩

theorem BinLoop.pos {L : Nat} (h : BinLoop L) : 3 ≤ L ∧ L ≤ 12 := by
  rcases h with rfl | rfl | rfl | rfl | rfl | rfl | rfl | rfl <;> omega

/-! ## the statements -/

def Direct (k : Nat) (e : Expr) : Prop :=
  ∀ pre rest, Reads pre (yield e) → noCont k rest = true → Ev (fun f => P k f (pre ++ rest)) (.ok (e, rest))

def CPS (L : Nat) (e : Expr) : Prop :=
  ∀ pre rest res, Reads pre (yield e) → noCont (L - 1) rest = true →
    Ev (fun f => Loop L f e rest) res → Ev (fun f => P L f (pre ++ rest)) res

def CPS1 (e : Expr) : Prop :=
  ∀ pre rest res, Reads pre (yield e) → noCont 0 rest = true → (isIdentOrPath e = true → cur rest ≠ .dot) →
    Ev (fun f => selLoop f e rest) res → Ev (fun f => parseSelector f (pre ++ rest)) res

structure Complete (e : Expr) : Prop where
  dir : ∀ k, 1 ≤ k → k ≤ 12 → level e ≤ k → Direct k e
  cps : ∀ L, BinLoop L → level e ≤ L → CPS L e
  cps1 : level e ≤ 1 → CPS1 e

/-! ## the first token of a yield -/

/-- class of the first token -/
def hk : List Tok' → TK
  | y :: _ => y.k
  | [] => .eof

theorem hk_append {a b : List Tok'} (h : a ≠ []) : hk (a ++ b) = hk a := by
  cases a with
  | nil => exact absurd rfl h
  | cons y ys => rfl

theorem cur_reads {pre rest : List Token} {ys : List Tok'} (h : Reads pre ys) (hne : ys ≠ []) :
    cur (pre ++ rest) = hk ys := by
  cases ys with
  | nil => exact absurd rfl hne
  | cons y ys =>
    obtain ⟨t, p, rfl, ht, _, _⟩ := h.cons
    simp [hk, proj_k ht]

/-- after any number of `(` comes a token that is neither `(` nor SELECT -/
def LeadOK (ys : List Tok') : Prop :=
  ∃ n t zs, ys = List.replicate n (T .lparen) ++ t :: zs ∧ t.k ≠ .lparen ∧ t.k ≠ .select

theorem LeadOK.append {a : List Tok'} (b : List Tok') (h : LeadOK a) : LeadOK (a ++ b) := by
  obtain ⟨n, t, zs, rfl, h1, h2⟩ := h
  exact ⟨n, t, zs ++ b, by simp, h1, h2⟩

theorem LeadOK.paren {a : List Tok'} (h : LeadOK a) : LeadOK (T .lparen :: a) := by
  obtain ⟨n, t, zs, rfl, h1, h2⟩ := h
  exact ⟨n + 1, t, zs, by simp [List.replicate_succ], h1, h2⟩

theorem LeadOK.head {t : Tok'} {zs : List Tok'} (h1 : t.k ≠ .lparen) (h2 : t.k ≠ .select) : LeadOK (t :: zs) :=
  ⟨0, t, zs, by simp, h1, h2⟩

theorem selectAhead_false {pre rest : List Token} {ys : List Tok'} (h : pre.map proj = ys) (hl : LeadOK ys) :
    selectAhead (pre ++ rest) = false := by
  obtain ⟨n, t, zs, rfl, h1, h2⟩ := hl
  induction n generalizing pre with
  | zero =>
    cases pre with
    | nil => simp at h
    | cons u p =>
      simp only [List.replicate_zero, List.nil_append, List.map_cons, List.cons.injEq] at h
      have hu : tk u.kind = t.k := proj_k h.1
      simp [selectAhead, hu, h1, h2]
  | succ n ih =>
    cases pre with
    | nil => simp [List.replicate_succ] at h
    | cons u p =>
      simp only [List.replicate_succ, List.cons_append, List.map_cons, List.cons.injEq] at h
      have hu : tk u.kind = .lparen := proj_T h.1
      simp only [List.cons_append, selectAhead, hu, if_true]
      exact ih h.2

structure LeftFacts (e : Expr) : Prop where
  ne : yield e ≠ []
  sign : level e ≤ 1 → unOp? (hk (yield e)) = none
  not_ : level e ≤ 9 → hk (yield e) ≠ .not_
  lead : LeadOK (yield e)

theorem pathToks_ne {a : Bytes} {ns : List Bytes} : pathToks (a :: ns) ≠ [] := by
  cases ns <;> simp [pathToks]

theorem hk_pathToks {a : Bytes} {ns : List Bytes} : hk (pathToks (a :: ns)) = .ident := by
  cases ns <;> simp [pathToks, hk]

/-- facts about the first token of the yield of a left operand -/
theorem LeftFacts.left {e l : Expr} {b : List Tok'} (hy : yield e = yield l ++ b) (ih : LeftFacts l)
    (h1 : level e ≤ 1 → level l ≤ 1) (h9 : level e ≤ 9 → level l ≤ 9) : LeftFacts e where
  ne := by rw [hy]; simp [ih.ne]
  sign := fun h => by rw [hy, hk_append ih.ne]; exact ih.sign (h1 h)
  not_ := fun h => by rw [hy, hk_append ih.ne]; exact ih.not_ (h9 h)
  lead := by rw [hy]; exact ih.lead.append b

theorem leftFacts : (e : Expr) → PrecOK e → NF e → LeftFacts e
  | .null, _, _ => ⟨by simp [yield], by simp [yield, hk, T, unOp?], by simp [yield, hk, T], LeadOK.head (by simp [T, Sign.tk, UOp.tk, boolTK]) (by simp [T, Sign.tk, UOp.tk, boolTK])⟩
  | .bool b, _, _ => by
    cases b <;> exact ⟨by simp [yield], by simp [yield, hk, T, unOp?, boolTK], by simp [yield, hk, T, boolTK],
      LeadOK.head (by simp [T, Sign.tk, UOp.tk, boolTK]) (by simp [T, Sign.tk, UOp.tk, boolTK])⟩
  | .int s raw, _, _ => by
    cases s with
    | none => exact ⟨by simp [yield], by simp [yield, hk, signToks, unOp?], by simp [yield, hk, signToks],
        LeadOK.head (by simp [T, Sign.tk, UOp.tk, boolTK]) (by simp [T, Sign.tk, UOp.tk, boolTK])⟩
    | some s => cases s <;> exact ⟨by simp [yield], by simp [level], by simp [yield, hk, signToks, T, Sign.tk],
        LeadOK.head (by simp [T, Sign.tk, UOp.tk, boolTK]) (by simp [T, Sign.tk, UOp.tk, boolTK])⟩
  | .float s raw, _, _ => by
    cases s with
    | none => exact ⟨by simp [yield], by simp [yield, hk, signToks, unOp?], by simp [yield, hk, signToks],
        LeadOK.head (by simp [T, Sign.tk, UOp.tk, boolTK]) (by simp [T, Sign.tk, UOp.tk, boolTK])⟩
    | some s => cases s <;> exact ⟨by simp [yield], by simp [level], by simp [yield, hk, signToks, T, Sign.tk],
        LeadOK.head (by simp [T, Sign.tk, UOp.tk, boolTK]) (by simp [T, Sign.tk, UOp.tk, boolTK])⟩
  | .str v, _, _ => ⟨by simp [yield], by simp [yield, hk, unOp?], by simp [yield, hk], LeadOK.head (by simp [T, Sign.tk, UOp.tk, boolTK]) (by simp [T, Sign.tk, UOp.tk, boolTK])⟩
  | .bytes v, _, _ => ⟨by simp [yield], by simp [yield, hk, unOp?], by simp [yield, hk], LeadOK.head (by simp [T, Sign.tk, UOp.tk, boolTK]) (by simp [T, Sign.tk, UOp.tk, boolTK])⟩
  | .param v, _, _ => ⟨by simp [yield], by simp [yield, hk, unOp?], by simp [yield, hk], LeadOK.head (by simp [T, Sign.tk, UOp.tk, boolTK]) (by simp [T, Sign.tk, UOp.tk, boolTK])⟩
  | .ident v, _, _ => ⟨by simp [yield], by simp [yield, hk, unOp?], by simp [yield, hk], LeadOK.head (by simp [T, Sign.tk, UOp.tk, boolTK]) (by simp [T, Sign.tk, UOp.tk, boolTK])⟩
  | .path ns, _, hn => by
    cases ns with
    | nil => simp [NF, nf] at hn
    | cons a ns =>
      refine ⟨by simpa [yield] using pathToks_ne, by simp [yield, hk_pathToks, unOp?], by simp [yield, hk_pathToks], ?_⟩
      cases ns <;> exact LeadOK.head (by simp [T, Sign.tk, UOp.tk, boolTK]) (by simp [T, Sign.tk, UOp.tk, boolTK])
  | .paren e, hp, hn => by
    have ih := leftFacts e (by simpa [PrecOK, precOK] using hp) (by simpa [NF, nf] using hn)
    exact ⟨by simp [yield], by simp [yield, hk, T, unOp?], by simp [yield, hk, T], by
      simpa [yield] using (ih.lead.append [T .rparen]).paren⟩
  | .unary op e, _, _ => by
    cases op <;> exact ⟨by simp [yield], by simp [level, UOp.level], by simp [yield, hk, T, UOp.tk, level, UOp.level],
      LeadOK.head (by simp [T, Sign.tk, UOp.tk, boolTK]) (by simp [T, Sign.tk, UOp.tk, boolTK])⟩
  | .bin op l r, hp, hn => by
    have hp' : PrecOK l ∧ level l ≤ op.level := by
      simp only [PrecOK, precOK, Bool.and_eq_true, decide_eq_true_eq] at hp
      refine ⟨hp.1.1.1, ?_⟩
      have := hp.1.2
      split at this <;> simp only [decide_eq_true_eq] at this <;> omega
    have ih := leftFacts l hp'.1 (by simp only [NF, nf, Bool.and_eq_true] at hn; exact hn.1)
    exact LeftFacts.left (by rw [yield]) ih
      (fun h => by simp only [level] at h; have : 3 ≤ op.level := by cases op <;> decide
                   omega)
      (fun h => by simp only [level] at h; omega)
  | .isNull e _, hp, hn => by
    simp only [PrecOK, precOK, Bool.and_eq_true, decide_eq_true_eq] at hp
    have ih := leftFacts e hp.1 (by simpa [NF, nf] using hn)
    exact LeftFacts.left (by rw [yield]) ih (fun h => by simp [level] at h) (fun _ => by omega)
  | .isBool e _ _, hp, hn => by
    simp only [PrecOK, precOK, Bool.and_eq_true, decide_eq_true_eq] at hp
    have ih := leftFacts e hp.1 (by simpa [NF, nf] using hn)
    exact LeftFacts.left (by rw [yield]) ih (fun h => by simp [level] at h) (fun _ => by omega)
  | .between _ e _ _, hp, hn => by
    simp only [PrecOK, precOK, Bool.and_eq_true, decide_eq_true_eq] at hp
    have ih := leftFacts e hp.1.1.1.1.1 (by simp only [NF, nf, Bool.and_eq_true] at hn; exact hn.1.1)
    exact LeftFacts.left (by rw [yield]) ih (fun h => by simp [level] at h) (fun _ => by omega)
  | .inList _ e _ _, hp, hn => by
    simp only [PrecOK, precOK, Bool.and_eq_true, decide_eq_true_eq] at hp
    have ih := leftFacts e hp.1.1.1 (by simp only [NF, nf, Bool.and_eq_true] at hn; exact hn.1.1)
    exact LeftFacts.left (by rw [yield]) ih (fun h => by simp [level] at h) (fun _ => by omega)
  | .inUnnest _ e _, hp, hn => by
    simp only [PrecOK, precOK, Bool.and_eq_true, decide_eq_true_eq] at hp
    have ih := leftFacts e hp.1.1 (by simp only [NF, nf, Bool.and_eq_true] at hn; exact hn.1)
    exact LeftFacts.left (by rw [yield]) ih (fun h => by simp [level] at h) (fun _ => by omega)
  | .sel e _, hp, hn => by
    simp only [PrecOK, precOK, Bool.and_eq_true, decide_eq_true_eq] at hp
    have ih := leftFacts e hp.1 (by simp only [NF, nf, Bool.and_eq_true] at hn; exact hn.1)
    exact LeftFacts.left (by rw [yield]) ih (fun _ => hp.2) (fun _ => by omega)
  | .index e none _, hp, hn => by
    simp only [PrecOK, precOK, Bool.and_eq_true, decide_eq_true_eq] at hp
    have ih := leftFacts e hp.1.1 (by simp only [NF, nf, Bool.and_eq_true] at hn; exact hn.1)
    exact LeftFacts.left (by rw [yield]) ih (fun _ => hp.1.2) (fun _ => by omega)
  | .index e (some (k, sp)) _, hp, hn => by
    simp only [PrecOK, precOK, Bool.and_eq_true, decide_eq_true_eq] at hp
    have ih := leftFacts e hp.1.1 (by simp only [NF, nf, Bool.and_eq_true] at hn; exact hn.1.1)
    exact LeftFacts.left (by rw [yield]) ih (fun _ => hp.1.2) (fun _ => by omega)
  | .caseE .., _, _ => ⟨by simp [yield], by simp [yield, hk, T, unOp?], by simp [yield, hk, T],
      LeadOK.head (by simp [T]) (by simp [T])⟩
  | .ifE .., _, _ => ⟨by simp [yield], by simp [yield, hk, T, unOp?], by simp [yield, hk, T],
      LeadOK.head (by simp [T]) (by simp [T])⟩
  | .cast .., _, _ => ⟨by simp [yield], by simp [yield, hk, T, unOp?], by simp [yield, hk, T],
      LeadOK.head (by simp [T]) (by simp [T])⟩
  | .array .nil, _, _ => ⟨by simp [yield], by simp [yield, hk, T, unOp?], by simp [yield, hk, T],
      LeadOK.head (by simp [T]) (by simp [T])⟩
  | .array (.cons _ _), _, _ => ⟨by simp [yield], by simp [yield, hk, T, unOp?], by simp [yield, hk, T],
      LeadOK.head (by simp [T]) (by simp [T])⟩

/-- the token classes an expression can start with -/
def startTK : TK → Bool
  | .null | .true_ | .false_ | .int | .float | .string | .bytes | .param | .ident | .lparen
  | .plus | .minus | .tilde | .not_ | .case_ | .if_ | .lbrack | .cast => true
  | _ => false

theorem startTK_left {a b : List Tok'} (h : startTK (hk a) = true) : startTK (hk (a ++ b)) = true := by
  cases a with
  | nil => simp [hk, startTK] at h
  | cons y ys => exact h

/-- the yield of a tree in normal form starts with a token that can start an expression (in particular it is not
empty and does not start with WHEN, THEN, ELSE, END, `)`, `]`, `,`) -/
theorem hk_yield_start : (e : Expr) → NF e → startTK (hk (yield e)) = true
  | .null, _ | .str _, _ | .bytes _, _ | .param _, _ | .ident _, _ | .paren _, _ | .caseE .., _ | .ifE .., _ => rfl
  | .array .nil, _ | .array (.cons _ _), _ | .cast .., _ => rfl
  | .bool b, _ => by cases b <;> rfl
  | .int s _, _ => by cases s with
    | none => rfl
    | some s => cases s <;> rfl
  | .float s _, _ => by cases s with
    | none => rfl
    | some s => cases s <;> rfl
  | .path ns, hn => by
    cases ns with
    | nil => simp [NF, nf] at hn
    | cons a ns => simp [yield, hk_pathToks, startTK]
  | .unary op _, _ => by cases op <;> rfl
  | .bin _ l _, hn => by
    simp only [NF, nf, Bool.and_eq_true] at hn
    exact startTK_left (hk_yield_start l hn.1)
  | .isNull e _, hn => startTK_left (hk_yield_start e (by simpa [NF, nf] using hn))
  | .isBool e _ _, hn => startTK_left (hk_yield_start e (by simpa [NF, nf] using hn))
  | .between _ e _ _, hn => by
    simp only [NF, nf, Bool.and_eq_true] at hn
    exact startTK_left (hk_yield_start e hn.1.1)
  | .inList _ e _ _, hn => by
    simp only [NF, nf, Bool.and_eq_true] at hn
    exact startTK_left (hk_yield_start e hn.1.1)
  | .inUnnest _ e _, hn => by
    simp only [NF, nf, Bool.and_eq_true] at hn
    exact startTK_left (hk_yield_start e hn.1)
  | .sel e _, hn => by
    simp only [NF, nf, Bool.and_eq_true] at hn
    exact startTK_left (hk_yield_start e hn.1)
  | .index e none _, hn => by
    simp only [NF, nf, Bool.and_eq_true] at hn
    exact startTK_left (hk_yield_start e hn.1)
  | .index e (some (_, _)) _, hn => by
    simp only [NF, nf, Bool.and_eq_true] at hn
    exact startTK_left (hk_yield_start e hn.1.1)

theorem yield_ne_of_start {e : Expr} (h : startTK (hk (yield e)) = true) : yield e ≠ [] := by
  intro h0; rw [h0] at h; simp [hk, startTK] at h

/-! ## moving between levels -/

theorem direct1_of_cps1 {e : Expr} (h : CPS1 e) : Direct 1 e := by
  intro pre rest hr h1
  have := noCont1 h1
  exact h pre rest _ hr (noCont_mono h1 (by omega)) (fun _ => this.1) (ev_selLoop_stop this.1 this.2)

theorem cps_of_direct {L : Nat} {e : Expr} (hL : BinLoop L) (hd : Direct (L - 1) e) : CPS L e :=
  fun pre rest _ hr hn hl => ev_parse_of_loop hL (hd pre rest hr hn) hl

theorem direct_of_cps {L : Nat} {e : Expr} (hL : BinLoop L) (hc : CPS L e) : Direct L e :=
  fun pre rest hr hn =>
    hc pre rest _ hr (noCont_mono hn (by omega)) (ev_loop_stop hL (loopOp_none_of_noCont hn))

/-- one level up the ladder -/
theorem lift {e : Expr} {k : Nat} (hk1 : 1 ≤ k) (hk : k < 12) (hl : level e ≤ k) (hh : LeftFacts e)
    (hd : Direct k e) : Direct (k + 1) e := by
  have loopCase : BinLoop (k + 1) → Direct (k + 1) e := fun hL => direct_of_cps hL (cps_of_direct hL hd)
  obtain rfl | rfl | rfl | rfl | rfl | rfl | rfl | rfl | rfl | rfl | rfl :
      k = 1 ∨ k = 2 ∨ k = 3 ∨ k = 4 ∨ k = 5 ∨ k = 6 ∨ k = 7 ∨ k = 8 ∨ k = 9 ∨ k = 10 ∨ k = 11 := by omega
  · intro pre rest hr hn
    exact ev_unary_sel (by rw [cur_reads hr hh.ne]; exact hh.sign hl) (hd pre rest hr (noCont_mono hn (by omega)))
  · exact loopCase (by simp [BinLoop])
  · exact loopCase (by simp [BinLoop])
  · exact loopCase (by simp [BinLoop])
  · exact loopCase (by simp [BinLoop])
  · exact loopCase (by simp [BinLoop])
  · exact loopCase (by simp [BinLoop])
  · intro pre rest hr hn
    exact ev_cmp (hd pre rest hr (noCont_mono hn (by omega))) (ev_cmpTail_none (noCont_ne hn (Nat.le_refl 9)))
  · intro pre rest hr hn
    exact ev_not_cmp (by rw [cur_reads hr hh.ne]; exact hh.not_ hl) (hd pre rest hr (noCont_mono hn (by omega)))
  · exact loopCase (by simp [BinLoop])
  · exact loopCase (by simp [BinLoop])

/-- everything follows from the statement at the level of the expression itself -/
theorem Complete.close {e : Expr} (k0 : Nat) (h1 : 1 ≤ k0) (h12 : k0 ≤ 12) (hlev : level e ≤ k0)
    (hmin : ∀ k, 1 ≤ k → level e ≤ k → k0 ≤ k) (hh : LeftFacts e) (hd : Direct k0 e)
    (hc : BinLoop k0 → CPS k0 e) (hc1 : level e ≤ 1 → CPS1 e) : Complete e := by
  have up : ∀ d, k0 + d ≤ 12 → Direct (k0 + d) e := by
    intro d
    induction d with
    | zero => exact fun _ => hd
    | succ d ih =>
      intro h
      have := lift (k := k0 + d) (by omega) (by omega) (by omega) hh (ih (by omega))
      exact this
  have dir : ∀ k, 1 ≤ k → k ≤ 12 → level e ≤ k → Direct k e := by
    intro k hk1 hk12 hle
    have := hmin k hk1 hle
    obtain ⟨d, rfl⟩ : ∃ d, k = k0 + d := ⟨k - k0, by omega⟩
    exact up d hk12
  refine ⟨dir, ?_, hc1⟩
  intro L hL hle
  have hp := hL.pos
  by_cases hLk : L = k0
  · subst hLk; exact hc hL
  · have := hmin L (by omega) hle
    exact cps_of_direct hL (dir (L - 1) (by omega) (by omega) (by omega))

/-- G: the loop of level `L` rebuilds `l op r` -/
theorem cps_bin {L : Nat} {op : BOp} {l r : Expr} {k : TK} (hL : BinLoop L) (hop : loopOp L k = some op)
    (hl : CPS L l) (hr : Direct (L - 1) r) : CPS L (.bin op l r) := by
  intro pre rest res hrd hn hloop
  have htoks := (loopOp_cont hop).2
  have hy : yield (.bin op l r) = yield l ++ (T k :: yield r) := by simp [yield, htoks]
  rw [hy] at hrd
  obtain ⟨pl, p2, rfl, hpl, h2⟩ := hrd.append
  obtain ⟨t, pr, rfl, ht, _, hpr⟩ := h2.cons
  have htk := proj_T ht
  rw [List.append_assoc]
  refine hl pl (t :: pr ++ rest) res hpl ?_ ?_
  · have hp := hL.pos
    exact noCont_cons (by rw [htk]; exact (loopOp_cont hop).1) (by omega)
  · exact ev_loop_iter hL (by rw [htk]; exact hop) (hr pr rest hpr hn) hloop

theorem ev_parseExpr_of {e : Expr} (c : Complete e) {pre rest : List Token} (hr : Reads pre (yield e))
    (hn : noCont 12 rest = true) : Ev (fun f => parseExpr f (pre ++ rest)) (.ok (e, rest)) :=
  ev_expr (c.dir 12 (by omega) (by omega) (level_le_12 e) pre rest hr hn)

/-! ## atoms -/

theorem cps1_of_lit {e : Expr} (h : ∀ pre rest, Reads pre (yield e) → noCont 0 rest = true →
    (isIdentOrPath e = true → cur rest ≠ .dot) → Ev (fun f => parseLit f (pre ++ rest)) (.ok (e, rest))) : CPS1 e :=
  fun pre rest _ hr h0 hd hl => ev_sel_of_loop (h pre rest hr h0 hd) hl

/-- closure for the expressions of level ≤ 1 -/
theorem Complete.of_cps1 {e : Expr} (hl : level e ≤ 1) (hh : LeftFacts e) (h : CPS1 e) : Complete e :=
  Complete.close 1 (by omega) (by omega) hl (fun _ hk _ => hk) hh (direct1_of_cps1 h)
    (fun hL => absurd hL.pos (by omega)) (fun _ => h)

theorem cps1_null : CPS1 .null := cps1_of_lit fun pre rest hr _ _ => by
  obtain ⟨t, rfl, ht, _⟩ := (show Reads pre [T .null] by simpa [yield] using hr).one
  exact ev_lit_of_eq fun f => by simp [parseLit, proj_T ht, parseNullLiteral, expectThen]

theorem cps1_bool (b : Bool) : CPS1 (.bool b) := cps1_of_lit fun pre rest hr _ _ => by
  obtain ⟨t, rfl, ht, _⟩ := (show Reads pre [T (boolTK b)] by simpa [yield] using hr).one
  cases b
  · exact ev_lit_of_eq fun f => by simp [parseLit, proj_T ht, boolTK, parseBoolLiteral]
  · exact ev_lit_of_eq fun f => by simp [parseLit, proj_T ht, boolTK, parseBoolLiteral]

theorem cps1_int (raw : Bytes) : CPS1 (.int none raw) := cps1_of_lit fun pre rest hr _ _ => by
  obtain ⟨t, rfl, ht, _⟩ := (show Reads pre [⟨.int, raw⟩] by simpa [yield, signToks] using hr).one
  obtain ⟨hk, hv⟩ := proj_raw ht (Or.inl rfl)
  exact ev_lit_of_eq fun f => by simp [parseLit, hk, parseIntLiteral, expectThen, hv]

theorem cps1_float (raw : Bytes) : CPS1 (.float none raw) := cps1_of_lit fun pre rest hr _ _ => by
  obtain ⟨t, rfl, ht, _⟩ := (show Reads pre [⟨.float, raw⟩] by simpa [yield, signToks] using hr).one
  obtain ⟨hk, hv⟩ := proj_raw ht (Or.inr rfl)
  exact ev_lit_of_eq fun f => by simp [parseLit, hk, parseFloatLiteral, expectThen, hv]

theorem cps1_str (v : Bytes) : CPS1 (.str v) := cps1_of_lit fun pre rest hr _ _ => by
  obtain ⟨t, rfl, ht, _⟩ := (show Reads pre [⟨.string, v⟩] by simpa [yield] using hr).one
  obtain ⟨hk, hv⟩ := proj_asString ht (Or.inr (Or.inl rfl))
  exact ev_lit_of_eq fun f => by simp [parseLit, hk, parseStringLiteral, expectThen, hv]

theorem cps1_bytes (v : Bytes) : CPS1 (.bytes v) := cps1_of_lit fun pre rest hr _ _ => by
  obtain ⟨t, rfl, ht, _⟩ := (show Reads pre [⟨.bytes, v⟩] by simpa [yield] using hr).one
  obtain ⟨hk, hv⟩ := proj_asString ht (Or.inr (Or.inr rfl))
  exact ev_lit_of_eq fun f => by simp [parseLit, hk, parseBytesLiteral, expectThen, hv]

theorem cps1_param (v : Bytes) : CPS1 (.param v) := cps1_of_lit fun pre rest hr _ _ => by
  obtain ⟨t, rfl, ht, _⟩ := (show Reads pre [⟨.param, v⟩] by simpa [yield] using hr).one
  obtain ⟨hk, hv⟩ := proj_asString ht (Or.inl rfl)
  exact ev_lit_of_eq fun f => by simp [parseLit, hk, parseParam, expectThen, hv]

/-- `lookaheadCallExpr` does not see a call behind an identifier chain that is not followed by `(` or `.` -/
theorem lookahead_dots {rest : List Token} (h1 : cur rest ≠ .lparen) (h2 : cur rest ≠ .dot) :
    ∀ (ns : List Bytes) (t : Token) (pre : List Token), tk t.kind = .ident → Reads pre (dotToks ns) →
      lookaheadCallExpr (t :: (pre ++ rest)) = false
  | [], t, pre, ht, hr => by
    rw [hr.nil]
    cases rest with
    | nil => simp [lookaheadCallExpr, ht]
    | cons u us =>
      simp only [cur_cons] at h1 h2
      simp [lookaheadCallExpr, ht, h1, h2]
  | n :: ns, t, pre, ht, hr => by
    obtain ⟨td, p1, rfl, htd, _, hr1⟩ := hr.cons
    obtain ⟨tn, p2, rfl, htn, _, hr2⟩ := hr1.cons
    have hd := proj_T htd
    have hn := (proj_ident htn).1
    have ih := lookahead_dots h1 h2 ns tn p2 hn hr2
    simp only [List.cons_append, lookaheadCallExpr, ht, hd, if_true]
    simpa using ih

theorem foldl_mkSel_path (l ns : List Bytes) : ns.foldl mkSel (.path l) = .path (l ++ ns) := by
  induction ns generalizing l with
  | nil => simp
  | cons n ns ih => simp [mkSel, ih]

theorem foldl_mkSel_ident (a b : Bytes) (ns : List Bytes) : (b :: ns).foldl mkSel (.ident a) = .path (a :: b :: ns) := by
  simp [mkSel, foldl_mkSel_path]

/-- the postfix loop walks an identifier chain -/
theorem ev_selLoop_dots {rest : List Token} {res : PR} :
    ∀ (ns : List Bytes) (acc : Expr) (pre : List Token), Reads pre (dotToks ns) →
      Ev (fun f => selLoop f (ns.foldl mkSel acc) rest) res → Ev (fun f => selLoop f acc (pre ++ rest)) res
  | [], acc, pre, hr, h => by rw [hr.nil]; exact h
  | n :: ns, acc, pre, hr, h => by
    obtain ⟨td, p1, rfl, htd, _, hr1⟩ := hr.cons
    obtain ⟨tn, p2, rfl, htn, _, hr2⟩ := hr1.cons
    obtain ⟨hn, hv⟩ := proj_ident htn
    refine ev_selLoop_dot (proj_T htd) hn ?_
    rw [hv]
    exact ev_selLoop_dots ns (mkSel acc n) p2 hr2 h

theorem ev_lit_ident {t : Token} {rest : List Token} {a : Bytes} (ht : proj t = ⟨.ident, a⟩)
    (hc : isCastLike t = false) (hla : lookaheadCallExpr (t :: rest) = false) (hs : cur rest ≠ .string) :
    Ev (fun f => parseLit f (t :: rest)) (.ok (.ident a, rest)) := by
  obtain ⟨hk, hv⟩ := proj_ident ht
  exact ev_lit_of_eq fun f => by simp [parseLit, hk, parseLitIdent, hc, hla, hs, hv]

theorem cps1_ident (a : Bytes) : CPS1 (.ident a) := cps1_of_lit fun pre rest hr h0 hd => by
  obtain ⟨t, rfl, ht, hc⟩ := (show Reads pre [⟨.ident, a⟩] by simpa [yield] using hr).one
  have h0' := noCont0 h0
  have := lookahead_dots h0'.1 (hd rfl) [] t [] (proj_ident ht).1 ⟨rfl, by simp⟩
  exact ev_lit_ident ht hc (by simpa using this) h0'.2

theorem cps1_path (a b : Bytes) (ns : List Bytes) : CPS1 (.path (a :: b :: ns)) := by
  intro pre rest res hr h0 hd hl
  have h0' := noCont0 h0
  rw [show yield (.path (a :: b :: ns)) = ⟨.ident, a⟩ :: dotToks (b :: ns) by simp [yield, pathToks_eq]] at hr
  obtain ⟨t, p, rfl, ht, hc, hp⟩ := hr.cons
  have hla := lookahead_dots h0'.1 (hd rfl) (b :: ns) t p (proj_ident ht).1 hp
  have hcur : cur (p ++ rest) = .dot := by rw [cur_reads hp (by simp [dotToks])]; rfl
  refine ev_sel_of_loop (ts' := p ++ rest) (ev_lit_ident ht hc hla (show cur (p ++ rest) ≠ .string by rw [hcur]; decide)) ?_
  refine ev_selLoop_dots (b :: ns) (.ident a) p hp ?_
  rw [foldl_mkSel_ident]; exact hl

/-! ## compound expressions, given the completeness of their operands -/

theorem cps1_paren {e : Expr} (c : Complete e) (hh : LeftFacts e) : CPS1 (.paren e) :=
  cps1_of_lit fun pre rest hr _ _ => by
    rw [show yield (.paren e) = T .lparen :: (yield e ++ [T .rparen]) by simp [yield]] at hr
    obtain ⟨t, p, rfl, ht, _, hp⟩ := hr.cons
    obtain ⟨pe, pr, rfl, hpe, hpr⟩ := hp.append
    obtain ⟨u, rfl, hu, _⟩ := hpr.one
    rw [show (t :: (pe ++ [u])) ++ rest = t :: (pe ++ (u :: rest)) by simp]
    exact ev_paren (proj_T ht) (selectAhead_false hpe.1 hh.lead)
      (ev_parseExpr_of c hpe (noCont_cons_none (by rw [proj_T hu]; rfl))) (proj_T hu)

theorem cps1_sel {e : Expr} {n : Bytes} (c : CPS1 e) (hni : isIdentOrPath e = false) : CPS1 (.sel e n) := by
  intro pre rest res hr _ _ hl
  rw [show yield (.sel e n) = yield e ++ [T .dot, ⟨.ident, n⟩] by simp [yield]] at hr
  obtain ⟨pe, p2, rfl, hpe, h2⟩ := hr.append
  obtain ⟨td, p3, rfl, htd, _, h3⟩ := h2.cons
  obtain ⟨tn, rfl, htn, _⟩ := h3.one
  obtain ⟨hk, hv⟩ := proj_ident htn
  rw [List.append_assoc]
  refine c pe _ res hpe (noCont_cons (l := 1) (by rw [proj_T htd]; rfl) (by omega)) (by simp [hni]) ?_
  refine ev_selLoop_dot (proj_T htd) hk ?_
  rw [hv]
  have : mkSel e n = .sel e n := by cases e <;> simp_all [mkSel, isIdentOrPath]
  rw [this]; exact hl

theorem posKw?_of {t : Token} {ts : List Token} {sp : Bytes} (ht : proj t = ⟨.ident, sp⟩) :
    posKw? (t :: ts) = posKwName sp := by
  obtain ⟨hk, hv⟩ := proj_ident ht
  simp [posKw?, hk, posKwOf_eq hk, hv]

/-- tokens that read the yield of an expression never make `parseIndexSpecifier` take the keyword branch: the first
token is not a position word, or it is, and then the next token is not `(` (`yield_not_call`) -/
theorem posKw?_plain {pre rest : List Token} {i : Expr} (hr : Reads pre (yield i)) (hne : yield i ≠ [])
    (hrest : cur rest ≠ .lparen) : posKw? (pre ++ rest) = none ∨ cur (pre ++ rest).tail ≠ .lparen := by
  by_cases hc : cur (pre ++ rest) = .ident
  · exact .inr (not_call_of_yield hr.1 (by intro h; rw [h] at hr; exact hne hr.1.symm) hrest hc)
  · exact .inl (by simp [posKw?, hc])

theorem cps1_index {e i : Expr} {kw : Option (PosKw × Bytes)} (c : CPS1 e) (ci : Complete i) (hi : LeftFacts i)
    (hkw : match kw with
      | none => True
      | some (k, sp) => posKwName sp = some k) : CPS1 (.index e kw i) := by
  intro pre rest res hr _ _ hl
  cases kw with
  | none =>
    rw [show yield (.index e none i) = yield e ++ (T .lbrack :: (yield i ++ [T .rbrack])) by simp [yield]] at hr
    obtain ⟨pe, p2, rfl, hpe, h2⟩ := hr.append
    obtain ⟨tl, p3, rfl, htl, _, h3⟩ := h2.cons
    obtain ⟨pi, p4, rfl, hpi, h4⟩ := h3.append
    obtain ⟨tr, rfl, htr, _⟩ := h4.one
    rw [List.append_assoc]
    refine c pe _ res hpe (noCont_cons (l := 1) (by rw [proj_T htl]; rfl) (by omega))
      (fun _ => by simp [proj_T htl]) ?_
    rw [show (tl :: (pi ++ [tr])) ++ rest = tl :: (pi ++ (tr :: rest)) by simp]
    refine ev_selLoop_idx (s := .plain i) (proj_T htl) ?_ (proj_T htr) hl
    exact ev_idx_plain (posKw?_plain hpi hi.ne (by rw [cur_cons, proj_T htr]; decide))
      (ev_parseExpr_of ci hpi (noCont_cons_none (by rw [proj_T htr]; rfl)))
  | some ks =>
    obtain ⟨k, sp⟩ := ks
    rw [show yield (.index e (some (k, sp)) i) =
      yield e ++ (T .lbrack :: ⟨.ident, sp⟩ :: T .lparen :: (yield i ++ [T .rparen, T .rbrack])) by simp [yield]] at hr
    obtain ⟨pe, p2, rfl, hpe, h2⟩ := hr.append
    obtain ⟨tl, p3, rfl, htl, _, h3⟩ := h2.cons
    obtain ⟨tk', p4, rfl, htk, _, h4⟩ := h3.cons
    obtain ⟨tp, p5, rfl, htp, _, h5⟩ := h4.cons
    obtain ⟨pi, p6, rfl, hpi, h6⟩ := h5.append
    obtain ⟨tq, p7, rfl, htq, _, h7⟩ := h6.cons
    obtain ⟨tr, rfl, htr, _⟩ := h7.one
    rw [List.append_assoc]
    refine c pe _ res hpe (noCont_cons (l := 1) (by rw [proj_T htl]; rfl) (by omega))
      (fun _ => by simp [proj_T htl]) ?_
    rw [show (tl :: tk' :: tp :: (pi ++ [tq, tr])) ++ rest = tl :: tk' :: tp :: (pi ++ (tq :: tr :: rest)) by simp]
    have hs : Ev (fun f => parseIndexSpecifier f (tk' :: tp :: (pi ++ (tq :: tr :: rest))))
        (.ok (.kw k tk'.asString i, tr :: rest)) :=
      ev_idx_kw (by rw [posKw?_of htk]; exact hkw) (proj_T htp)
        (ev_parseExpr_of ci hpi (noCont_cons_none (by rw [proj_T htq]; rfl))) (proj_T htq)
    rw [(proj_ident htk).2] at hs
    exact ev_selLoop_idx (s := .kw k sp i) (proj_T htl) hs (proj_T htr) hl

theorem foldSign_keep {op : UOp} {e : Expr} (h : (op.sign?.isNone || rawSigned e) = true) :
    foldSign op e = .ok (.unary op e) := by
  cases op <;> simp [UOp.sign?] at h <;> simp [foldSign, UOp.sign?]
  all_goals
    cases e <;> simp_all [rawSigned]
    all_goals (rename_i s raw; cases s <;> simp_all)

theorem direct_unary {op : UOp} {e : Expr} (hop : op.level = 2) (c : Complete e) (hl : level e ≤ 2)
    (hf : foldSign op e = .ok (.unary op e)) : Direct 2 (.unary op e) := by
  intro pre rest hr hn
  rw [show yield (.unary op e) = T op.tk :: yield e by simp [yield]] at hr
  obtain ⟨t, p, rfl, ht, _, hp⟩ := hr.cons
  have hop' : unOp? (tk t.kind) = some op := by
    rw [proj_T ht]; cases op <;> simp_all [UOp.tk, unOp?, UOp.level]
  exact ev_unary_op hop' (c.dir 2 (by omega) (by omega) hl p rest hp hn) hf

theorem direct_not {e : Expr} (c : Complete e) (hl : level e ≤ 10) : Direct 10 (.unary .not e) := by
  intro pre rest hr hn
  rw [show yield (.unary .not e) = T .not_ :: yield e by simp [yield, UOp.tk]] at hr
  obtain ⟨t, p, rfl, ht, _, hp⟩ := hr.cons
  exact ev_not_not (proj_T ht) (c.dir 10 (by omega) (by omega) hl p rest hp hn)

/-- a sign folded into a numeric literal -/
theorem direct_signed {s : Sign} {raw : Bytes} {lit : Option Sign → Bytes → Expr} {k : TK}
    (hlit : (lit = Expr.int ∧ k = .int) ∨ (lit = Expr.float ∧ k = .float))
    (hu : unsignedRaw? raw = some true) (c : Complete (lit none raw)) : Direct 2 (lit (some s) raw) := by
  intro pre rest hr hn
  have hy : yield (lit (some s) raw) = T s.tk :: yield (lit none raw) := by
    rcases hlit with ⟨rfl, _⟩ | ⟨rfl, _⟩ <;> simp [yield, signToks]
  have hlv : level (lit none raw) ≤ 2 := by rcases hlit with ⟨rfl, _⟩ | ⟨rfl, _⟩ <;> simp [level]
  rw [hy] at hr
  obtain ⟨t, p, rfl, ht, _, hp⟩ := hr.cons
  have hop : unOp? (tk t.kind) = some (match s with | .plus => UOp.plus | .minus => UOp.minus) := by
    rw [proj_T ht]; cases s <;> rfl
  refine ev_unary_op hop (c.dir 2 (by omega) (by omega) hlv p rest hp hn) ?_
  rcases hlit with ⟨rfl, _⟩ | ⟨rfl, _⟩ <;> cases s <;> simp [foldSign, UOp.sign?, hu]

/-- `parseComparison` on the left operand of a comparison-level construct, then its tail; `rest` only has to stay
out of the `|` level (so a second comparison operator may follow: it is left in `rest`) -/
theorem cmp8 {e l : Expr} {ys : List Tok'} (hy : yield e = yield l ++ ys) (cl : Complete l) (hl : level l ≤ 8)
    (hys : ∀ p rest, Reads p ys → noCont 8 rest = true →
      noCont 8 (p ++ rest) = true ∧ Ev (fun f => cmpTail f l (p ++ rest)) (.ok (e, rest))) :
    ∀ pre rest, Reads pre (yield e) → noCont 8 rest = true →
      Ev (fun f => parseComparison f (pre ++ rest)) (.ok (e, rest)) := by
  intro pre rest hr hn
  rw [hy] at hr
  obtain ⟨pl, p2, rfl, hpl, h2⟩ := hr.append
  obtain ⟨h8, ht⟩ := hys p2 rest h2 hn
  rw [List.append_assoc]
  exact ev_cmp (cl.dir 8 (by omega) (by omega) hl pl _ hpl h8) ht

theorem direct_cmp {e l : Expr} {ys : List Tok'} (hy : yield e = yield l ++ ys) (cl : Complete l) (hl : level l ≤ 8)
    (hys : ∀ p rest, Reads p ys → noCont 8 rest = true →
      noCont 8 (p ++ rest) = true ∧ Ev (fun f => cmpTail f l (p ++ rest)) (.ok (e, rest))) : Direct 9 e :=
  fun pre rest hr hn => cmp8 hy cl hl hys pre rest hr (noCont_mono hn (by omega))

theorem bin_cmp_tail {op : BOp} {l r : Expr} (hna : op.nonAssoc = true) (cr : Complete r) (hr : level r ≤ 8) :
    ∀ p rest, Reads p (op.toks ++ yield r) → noCont 8 rest = true →
      noCont 8 (p ++ rest) = true ∧ Ev (fun f => cmpTail f l (p ++ rest)) (.ok (.bin op l r, rest)) := by
  intro p rest hp hn
  obtain ⟨po, pr, rfl, hpo, hpr⟩ := hp.append
  have hr8 := cr.dir 8 (by omega) (by omega) hr pr rest hpr hn
  by_cases hnl : op = .notLike
  · subst hnl
    obtain ⟨t, p1, rfl, ht, _, h1⟩ := (show Reads po [T .not_, T .like] from hpo).cons
    obtain ⟨u, rfl, hu, _⟩ := h1.one
    exact ⟨noCont_cons (l := 9) (by rw [proj_T ht]; rfl) (by omega),
      by simpa using ev_cmpTail_notLike (proj_T ht) (proj_T hu) hr8⟩
  · have : ∃ k, op.toks = [T k] ∧ cmpOp? k = some op := by
      cases op <;> first | (simp [BOp.nonAssoc, BOp.level] at hna; done) | exact absurd rfl hnl | exact ⟨_, rfl, rfl⟩
    obtain ⟨k, hk, hc⟩ := this
    rw [hk] at hpo
    obtain ⟨t, rfl, ht, _⟩ := hpo.one
    have hcl : contLevel k = some 9 := by cases k <;> simp [cmpOp?] at hc <;> rfl
    exact ⟨noCont_cons (l := 9) (by rw [proj_T ht]; exact hcl) (by omega),
      by simpa using ev_cmpTail_op (by rw [proj_T ht]; exact hc) hr8⟩

theorem direct_bin_cmp {op : BOp} {l r : Expr} (hna : op.nonAssoc = true) (cl : Complete l) (cr : Complete r)
    (hl : level l ≤ 8) (hr : level r ≤ 8) : Direct 9 (.bin op l r) :=
  direct_cmp (ys := op.toks ++ yield r) (by simp [yield]) cl hl (bin_cmp_tail hna cr hr)

theorem direct_is {e l : Expr} {not : Bool} {last : TK} (cl : Complete l) (hl : level l ≤ 8)
    (hy : yield e = yield l ++ (T .is_ :: (notToks not ++ [T last])))
    (hlast : (last = .null ∧ e = .isNull l not) ∨ (last = .true_ ∧ e = .isBool l not true) ∨
      (last = .false_ ∧ e = .isBool l not false)) : Direct 9 e := by
  refine direct_cmp hy cl hl ?_
  intro p rest hp hn
  obtain ⟨t, p1, rfl, ht, _, h1⟩ := hp.cons
  refine ⟨noCont_cons (l := 9) (by rw [proj_T ht]; rfl) (by omega), ?_⟩
  have key : parseIsTail l (p1 ++ rest) = .ok (e, rest) := by
    cases not
    · obtain ⟨u, rfl, hu, _⟩ := (show Reads p1 [T last] by simpa [notToks] using h1).one
      have hu := proj_T hu
      rcases hlast with ⟨rfl, rfl⟩ | ⟨rfl, rfl⟩ | ⟨rfl, rfl⟩ <;> simp [parseIsTail, hu]
    · obtain ⟨v, p2, rfl, hv, _, h2⟩ := (show Reads p1 [T .not_, T last] by simpa [notToks] using h1).cons
      obtain ⟨u, rfl, hu, _⟩ := h2.one
      have hu := proj_T hu
      have hv := proj_T hv
      rcases hlast with ⟨rfl, rfl⟩ | ⟨rfl, rfl⟩ | ⟨rfl, rfl⟩ <;> simp [parseIsTail, hu, hv]
  rw [← key]
  exact ev_cmpTail_is (proj_T ht)

theorem direct_between {not : Bool} {l lo hi : Expr} (cl : Complete l) (clo : Complete lo) (chi : Complete hi)
    (hl : level l ≤ 8) (hlo : level lo ≤ 8) (hhi : level hi ≤ 8) : Direct 9 (.between not l lo hi) := by
  refine direct_cmp (ys := notToks not ++ (T .between :: (yield lo ++ (T .and_ :: yield hi)))) (by simp [yield]) cl hl ?_
  intro p rest hp hn
  obtain ⟨pn, p1, rfl, hpn, h1⟩ := hp.append
  obtain ⟨tb, p2, rfl, htb, _, h2⟩ := h1.cons
  obtain ⟨plo, p3, rfl, hplo, h3⟩ := h2.append
  obtain ⟨ta, phi, rfl, hta, _, hphi⟩ := h3.cons
  have e1 := clo.dir 8 (by omega) (by omega) hlo plo (ta :: phi ++ rest) hplo
    (noCont_cons (l := 11) (by rw [proj_T hta]; rfl) (by omega))
  have e2 := chi.dir 8 (by omega) (by omega) hhi phi rest hphi hn
  have eb : Ev (fun f => parseBetweenTail f not l (plo ++ (ta :: phi ++ rest))) (.ok (.between not l lo hi, rest)) :=
    ev_btw (proj_T hta) e1 e2
  cases not
  · rw [(show Reads pn [] by simpa [notToks] using hpn).nil]
    exact ⟨noCont_cons (l := 9) (by rw [proj_T htb]; rfl) (by omega),
      by simpa using ev_cmpTail_between (proj_T htb) eb⟩
  · obtain ⟨tn, rfl, htn, _⟩ := (show Reads pn [T .not_] by simpa [notToks] using hpn).one
    exact ⟨noCont_cons (l := 9) (by rw [proj_T htn]; rfl) (by omega),
      by simpa using ev_cmpTail_notBetween (proj_T htn) (proj_T htb) eb⟩

/-- the token that closes a comma-separated list: `)` (IN list) or `]` (array literal) -/
def Closes (rest : List Token) : Prop := cur rest = .rparen ∨ cur rest = .rbrack

/-- the elements of an IN list / array literal after the first (the list is closed by `)` / `]`) -/
def CompleteL (m : Exprs) : Prop :=
  ∀ pre rest, Reads pre (yields m) → Closes rest → Ev (fun f => inListLoop f (pre ++ rest)) (.ok (m, rest))

theorem completeL_nil : CompleteL .nil := by
  intro pre rest hr hc
  rw [(show Reads pre [] by simpa [yields] using hr).nil]
  exact ev_inList_nil (by rw [List.nil_append]; rcases hc with hc | hc <;> rw [hc] <;> decide)

theorem cur_yields {m : Exprs} {pre rest : List Token} (hr : Reads pre (yields m)) (hc : Closes rest) :
    cur (pre ++ rest) = .comma ∨ Closes (pre ++ rest) := by
  cases m with
  | nil => rw [(show Reads pre [] by simpa [yields] using hr).nil]; exact Or.inr hc
  | cons e es =>
    obtain ⟨t, p, rfl, ht, _, _⟩ := (show Reads pre (T .comma :: (yield e ++ yields es)) by simpa [yields] using hr).cons
    exact Or.inl (by simp [proj_T ht])

theorem noCont_yields {m : Exprs} {pre rest : List Token} (hr : Reads pre (yields m)) (hc : Closes rest) :
    noCont 12 (pre ++ rest) = true := by
  rcases cur_yields hr hc with h | h | h <;> simp [noCont, h, contLevel]

theorem completeL_cons {e : Expr} {es : Exprs} (c : Complete e) (cs : CompleteL es) : CompleteL (.cons e es) := by
  intro pre rest hr hc
  obtain ⟨t, p, rfl, ht, _, hp⟩ := (show Reads pre (T .comma :: (yield e ++ yields es)) by simpa [yields] using hr).cons
  obtain ⟨pe, ps, rfl, hpe, hps⟩ := hp.append
  rw [show (t :: (pe ++ ps)) ++ rest = t :: (pe ++ (ps ++ rest)) by simp]
  exact ev_inList_cons (proj_T ht) (ev_parseExpr_of c hpe (noCont_yields hps hc)) (cs ps rest hps hc)

theorem direct_inList {not : Bool} {l first : Expr} {more : Exprs} (cl : Complete l) (hl : level l ≤ 8)
    (cf : Complete first) (hf : LeftFacts first) (cm : CompleteL more) : Direct 9 (.inList not l first more) := by
  refine direct_cmp (ys := notToks not ++ (T .in_ :: T .lparen :: (yield first ++ (yields more ++ [T .rparen]))))
    (by simp [yield]) cl hl ?_
  intro p rest hp hn
  obtain ⟨pn, p1, rfl, hpn, h1⟩ := hp.append
  obtain ⟨ti, p2, rfl, hti, _, h2⟩ := h1.cons
  obtain ⟨tl, p3, rfl, htl, _, h3⟩ := h2.cons
  obtain ⟨pf, p4, rfl, hpf, h4⟩ := h3.append
  obtain ⟨pm, p5, rfl, hpm, h5⟩ := h4.append
  obtain ⟨tr, rfl, htr, _⟩ := h5.one
  have hcr : Closes (tr :: rest) := Or.inl (by simp [proj_T htr])
  have ec : Ev (fun f => parseInCondition f (tl :: (pf ++ (pm ++ (tr :: rest))))) (.ok (.values first more, rest)) :=
    ev_inCond_values (proj_T htl) (selectAhead_false hpf.1 hf.lead)
      (ev_parseExpr_of cf hpf (noCont_yields hpm hcr)) (cm pm (tr :: rest) hpm hcr) (proj_T htr)
  cases not
  · rw [(show Reads pn [] by simpa [notToks] using hpn).nil]
    exact ⟨noCont_cons (l := 9) (by rw [proj_T hti]; rfl) (by omega),
      by simpa [InCond.mk] using ev_cmpTail_in (e1 := l) (proj_T hti) ec⟩
  · obtain ⟨tn, rfl, htn, _⟩ := (show Reads pn [T .not_] by simpa [notToks] using hpn).one
    exact ⟨noCont_cons (l := 9) (by rw [proj_T htn]; rfl) (by omega),
      by simpa [InCond.mk] using ev_cmpTail_notIn (e1 := l) (proj_T htn) (proj_T hti) ec⟩

theorem direct_inUnnest {not : Bool} {l a : Expr} (cl : Complete l) (hl : level l ≤ 8) (ca : Complete a) :
    Direct 9 (.inUnnest not l a) := by
  refine direct_cmp (ys := notToks not ++ (T .in_ :: T .unnest :: T .lparen :: (yield a ++ [T .rparen])))
    (by simp [yield]) cl hl ?_
  intro p rest hp hn
  obtain ⟨pn, p1, rfl, hpn, h1⟩ := hp.append
  obtain ⟨ti, p2, rfl, hti, _, h2⟩ := h1.cons
  obtain ⟨tu, p3, rfl, htu, _, h3⟩ := h2.cons
  obtain ⟨tl, p4, rfl, htl, _, h4⟩ := h3.cons
  obtain ⟨pa, p5, rfl, hpa, h5⟩ := h4.append
  obtain ⟨tr, rfl, htr, _⟩ := h5.one
  have ec : Ev (fun f => parseInCondition f (tu :: tl :: (pa ++ (tr :: rest)))) (.ok (.unnest a, rest)) :=
    ev_inCond_unnest (proj_T htu) (proj_T htl)
      (ev_parseExpr_of ca hpa (noCont_cons_none (by rw [proj_T htr]; rfl))) (proj_T htr)
  cases not
  · rw [(show Reads pn [] by simpa [notToks] using hpn).nil]
    exact ⟨noCont_cons (l := 9) (by rw [proj_T hti]; rfl) (by omega),
      by simpa [InCond.mk] using ev_cmpTail_in (e1 := l) (proj_T hti) ec⟩
  · obtain ⟨tn, rfl, htn, _⟩ := (show Reads pn [T .not_] by simpa [notToks] using hpn).one
    exact ⟨noCont_cons (l := 9) (by rw [proj_T htn]; rfl) (by omega),
      by simpa [InCond.mk] using ev_cmpTail_notIn (e1 := l) (proj_T htn) (proj_T hti) ec⟩

/-! ## CASE and IF -/

theorem noCont_of_cur {k : Nat} {ts : List Token} (h : contLevel (cur ts) = none) : noCont k ts = true := by
  simp [noCont, h]

/-- an optional operand: complete, and in normal form (so that its yield starts like an expression) -/
def CompleteO (o : OExpr) : Prop := ∀ e, o = .some e → Complete e ∧ NF e

/-- the further WHEN clauses (closed by ELSE or END) -/
def CompleteW (ws : Whens) : Prop :=
  ∀ pre rest, Reads pre (yieldW ws) → (cur rest = .else_ ∨ cur rest = .end_) →
    Ev (fun f => caseWhenLoop f (pre ++ rest)) (.ok (ws, rest))

theorem completeW_nil : CompleteW .nil := by
  intro pre rest hr hc
  rw [(show Reads pre [] by simpa [yieldW] using hr).nil]
  exact ev_caseLoop_nil (by rw [List.nil_append]; rcases hc with h | h <;> rw [h] <;> decide)

theorem cur_yieldW {ws : Whens} {pre rest : List Token} (hr : Reads pre (yieldW ws))
    (hc : cur rest = .else_ ∨ cur rest = .end_) :
    cur (pre ++ rest) = .when_ ∨ cur (pre ++ rest) = .else_ ∨ cur (pre ++ rest) = .end_ := by
  cases ws with
  | nil => rw [(show Reads pre [] by simpa [yieldW] using hr).nil]; exact Or.inr hc
  | cons c t ws =>
    obtain ⟨u, p, rfl, hu, _, _⟩ :=
      (show Reads pre (T .when_ :: (yield c ++ (T .then_ :: (yield t ++ yieldW ws)))) by simpa [yieldW] using hr).cons
    exact Or.inl (by simp [proj_T hu])

theorem noCont_yieldW {ws : Whens} {pre rest : List Token} (hr : Reads pre (yieldW ws))
    (hc : cur rest = .else_ ∨ cur rest = .end_) : noCont 12 (pre ++ rest) = true := by
  rcases cur_yieldW hr hc with h | h | h <;> exact noCont_of_cur (by rw [h]; rfl)

/-- one WHEN clause -/
theorem ev_when_of {c t : Expr} (cc : Complete c) (ct : Complete t) {pre rest : List Token}
    (hr : Reads pre (T .when_ :: (yield c ++ (T .then_ :: yield t)))) (hn : noCont 12 rest = true) :
    Ev (fun f => parseCaseWhen f (pre ++ rest)) (.ok ((c, t), rest)) := by
  obtain ⟨t0, p, rfl, ht0, _, hp⟩ := hr.cons
  obtain ⟨pc, p1, rfl, hpc, h1⟩ := hp.append
  obtain ⟨u, pt, rfl, hu, _, hpt⟩ := h1.cons
  rw [show (t0 :: (pc ++ u :: pt)) ++ rest = t0 :: (pc ++ (u :: (pt ++ rest))) by simp]
  exact ev_caseWhen (proj_T ht0) (ev_parseExpr_of cc hpc (noCont_cons_none (by rw [proj_T hu]; rfl))) (proj_T hu)
    (ev_parseExpr_of ct hpt hn)

theorem completeW_cons {c t : Expr} {ws : Whens} (cc : Complete c) (ct : Complete t) (cs : CompleteW ws) :
    CompleteW (.cons c t ws) := by
  intro pre rest hr hc
  obtain ⟨p1, p2, rfl, h1, h2⟩ :=
    (show Reads pre ((T .when_ :: (yield c ++ (T .then_ :: yield t))) ++ yieldW ws) by simpa [yieldW] using hr).append
  rw [List.append_assoc]
  have hcur : cur (p1 ++ (p2 ++ rest)) = .when_ := by rw [cur_reads h1 (by simp)]; rfl
  exact ev_caseLoop_cons hcur (ev_when_of cc ct h1 (noCont_yieldW h2 hc)) (cs p2 rest h2 hc)

theorem cps1_caseE {o el : OExpr} {c t : Expr} {ws : Whens} (co : CompleteO o) (cc : Complete c) (ct : Complete t)
    (cw : CompleteW ws) (cel : CompleteO el) : CPS1 (.caseE o c t ws el) :=
  cps1_of_lit fun pre rest hr _ _ => by
    rw [show yield (.caseE o c t ws el) = T .case_ :: (yieldO [] o ++ ((T .when_ :: (yield c ++ (T .then_ :: yield t))) ++
      (yieldW ws ++ (yieldO [T .else_] el ++ [T .end_])))) by simp [yield]] at hr
    obtain ⟨t0, p, rfl, ht0, _, hp⟩ := hr.cons
    obtain ⟨po, p1, rfl, hpo, h1⟩ := hp.append
    obtain ⟨pw, p2, rfl, hpw, h2⟩ := h1.append
    obtain ⟨pl, p3, rfl, hpl, h3⟩ := h2.append
    obtain ⟨pe, p4, rfl, hpe, h4⟩ := h3.append
    obtain ⟨u, rfl, hu, _⟩ := h4.one
    rw [show (t0 :: (po ++ (pw ++ (pl ++ (pe ++ [u]))))) ++ rest = t0 :: (po ++ (pw ++ (pl ++ (pe ++ (u :: rest))))) by simp]
    have hu' := proj_T hu
    -- what follows the WHEN clauses: ELSE … END, or END
    have hce : cur (pe ++ (u :: rest)) = .else_ ∨ cur (pe ++ (u :: rest)) = .end_ := by
      cases el with
      | none => rw [(show Reads pe [] by simpa [yieldO] using hpe).nil]; exact Or.inr (by simp [hu'])
      | some e =>
        obtain ⟨te, pe', rfl, hte, _, _⟩ := (show Reads pe (T .else_ :: yield e) by simpa [yieldO] using hpe).cons
        exact Or.inl (by simp [proj_T hte])
    have hcw : cur (pw ++ (pl ++ (pe ++ (u :: rest)))) = .when_ := by rw [cur_reads hpw (by simp)]; rfl
    refine ev_caseE (proj_T ht0) ?_ (ev_when_of cc ct hpw (noCont_yieldW hpl hce)) (cw pl _ hpl hce) ?_ hu'
    · cases o with
      | none =>
        rw [(show Reads po [] by simpa [yieldO] using hpo).nil]
        exact ev_caseOperand_none hcw
      | some e =>
        obtain ⟨ce, ne⟩ := co e rfl
        have hpo' : Reads po (yield e) := by simpa [yieldO] using hpo
        have hs := hk_yield_start e ne
        refine ev_caseOperand_some ?_ (ev_parseExpr_of ce hpo' (noCont_of_cur (by rw [hcw]; rfl)))
        rw [cur_reads hpo' (yield_ne_of_start hs)]
        intro h; rw [h] at hs; simp [startTK] at hs
    · cases el with
      | none =>
        rw [(show Reads pe [] by simpa [yieldO] using hpe).nil]
        exact ev_caseEls_none (by simp [hu'])
      | some e =>
        obtain ⟨ce, _⟩ := cel e rfl
        obtain ⟨te, pe', rfl, hte, _, hpe'⟩ := (show Reads pe (T .else_ :: yield e) by simpa [yieldO] using hpe).cons
        exact ev_caseEls_some (proj_T hte) (ev_parseExpr_of ce hpe' (noCont_cons_none (by rw [hu']; rfl)))

theorem cps1_arr_nil : CPS1 (.array .nil) := cps1_of_lit fun pre rest hr _ _ => by
  obtain ⟨t, p, rfl, ht, _, hp⟩ := (show Reads pre [T .lbrack, T .rbrack] by simpa [yield] using hr).cons
  obtain ⟨u, rfl, hu, _⟩ := hp.one
  exact ev_arr_nil (proj_T ht) (proj_T hu)

theorem cps1_arr_cons {e : Expr} {es : Exprs} (c : Complete e) (hn : NF e) (cs : CompleteL es) :
    CPS1 (.array (.cons e es)) := cps1_of_lit fun pre rest hr _ _ => by
  rw [show yield (.array (.cons e es)) = T .lbrack :: (yield e ++ (yields es ++ [T .rbrack])) by simp [yield]] at hr
  obtain ⟨t, p, rfl, ht, _, hp⟩ := hr.cons
  obtain ⟨pe, p1, rfl, hpe, h1⟩ := hp.append
  obtain ⟨ps, p2, rfl, hps, h2⟩ := h1.append
  obtain ⟨u, rfl, hu, _⟩ := h2.one
  rw [show (t :: (pe ++ (ps ++ [u]))) ++ rest = t :: (pe ++ (ps ++ (u :: rest))) by simp]
  have hcl : Closes (u :: rest) := Or.inr (by simp [proj_T hu])
  have hs := hk_yield_start e hn
  refine ev_arr_cons (proj_T ht) ?_ (ev_parseExpr_of c hpe (noCont_yields hps hcl)) (cs ps (u :: rest) hps hcl) (proj_T hu)
  rw [cur_reads hpe (yield_ne_of_start hs)]
  intro h; rw [h] at hs; simp [startTK] at hs

theorem cps1_cast {e : Expr} {ns : List Bytes} (c : Complete e) (hn : nfT ns = true) : CPS1 (.cast e ns) :=
  cps1_of_lit fun pre rest hr _ _ => by
    rw [show yield (.cast e ns) = T .cast :: T .lparen :: (yield e ++ (T .as_ :: (pathToks ns ++ [T .rparen]))) by
      simp [yield]] at hr
    obtain ⟨t0, p, rfl, ht0, _, hp⟩ := hr.cons
    obtain ⟨t1, p0, rfl, ht1, _, hp0⟩ := hp.cons
    obtain ⟨pe, p1, rfl, hpe, h1⟩ := hp0.append
    obtain ⟨v, p2, rfl, hv, _, h2⟩ := h1.cons
    obtain ⟨pt, p3, rfl, hpt, h3⟩ := h2.append
    obtain ⟨w, rfl, hw, _⟩ := h3.one
    rw [show (t0 :: t1 :: (pe ++ v :: (pt ++ [w]))) ++ rest = t0 :: t1 :: (pe ++ (v :: (pt ++ (w :: rest)))) by simp]
    exact ev_cast (proj_T ht0) (proj_T ht1)
      (ev_parseExpr_of c hpe (noCont_cons_none (by rw [proj_T hv]; rfl))) (proj_T hv)
      (ev_castType hpt hn (by simp [proj_T hw])) (proj_T hw)

theorem cps1_ifE {c t e : Expr} (cc : Complete c) (ct : Complete t) (ce : Complete e) : CPS1 (.ifE c t e) :=
  cps1_of_lit fun pre rest hr _ _ => by
    rw [show yield (.ifE c t e) = T .if_ :: T .lparen :: (yield c ++ (T .comma :: (yield t ++ (T .comma ::
      (yield e ++ [T .rparen]))))) by simp [yield]] at hr
    obtain ⟨t0, p, rfl, ht0, _, hp⟩ := hr.cons
    obtain ⟨t1, p0, rfl, ht1, _, hp0⟩ := hp.cons
    obtain ⟨pc, p1, rfl, hpc, h1⟩ := hp0.append
    obtain ⟨v, p2, rfl, hv, _, h2⟩ := h1.cons
    obtain ⟨pt, p3, rfl, hpt, h3⟩ := h2.append
    obtain ⟨w, p4, rfl, hw, _, h4⟩ := h3.cons
    obtain ⟨pe, p5, rfl, hpe, h5⟩ := h4.append
    obtain ⟨x, rfl, hx, _⟩ := h5.one
    rw [show (t0 :: t1 :: (pc ++ v :: (pt ++ w :: (pe ++ [x])))) ++ rest =
      t0 :: t1 :: (pc ++ (v :: (pt ++ (w :: (pe ++ (x :: rest)))))) by simp]
    exact ev_ifE (proj_T ht0) (proj_T ht1)
      (ev_parseExpr_of cc hpc (noCont_cons_none (by rw [proj_T hv]; rfl))) (proj_T hv)
      (ev_parseExpr_of ct hpt (noCont_cons_none (by rw [proj_T hw]; rfl))) (proj_T hw)
      (ev_parseExpr_of ce hpe (noCont_cons_none (by rw [proj_T hx]; rfl))) (proj_T hx)

/-- closure for the expressions whose own level is not a loop level (unary, comparison, NOT) -/
theorem Complete.of_direct {e : Expr} (h2 : 2 ≤ level e) (hnl : ¬ BinLoop (level e)) (hh : LeftFacts e)
    (h : Direct (level e) e) : Complete e :=
  Complete.close (level e) (by omega) (level_le_12 e) (Nat.le_refl _) (fun _ _ hk => hk) hh h
    (fun hL => absurd hL hnl) (fun h1 => by omega)

/-- closure for the left-associative binary expressions -/
theorem Complete.of_cps {e : Expr} (hL : BinLoop (level e)) (hh : LeftFacts e) (h : CPS (level e) e) : Complete e :=
  Complete.close (level e) (by have := hL.pos; omega) (level_le_12 e) (Nat.le_refl _) (fun _ _ hk => hk) hh
    (direct_of_cps hL h) (fun _ => h) (fun h1 => by have := hL.pos; omega)

/-! ## the induction -/

mutual
theorem complete : (e : Expr) → PrecOK e → NF e → Complete e
  | .null, hp, hn => Complete.of_cps1 (by simp [level]) (leftFacts _ hp hn) cps1_null
  | .bool b, hp, hn => Complete.of_cps1 (by simp [level]) (leftFacts _ hp hn) (cps1_bool b)
  | .str v, hp, hn => Complete.of_cps1 (by simp [level]) (leftFacts _ hp hn) (cps1_str v)
  | .bytes v, hp, hn => Complete.of_cps1 (by simp [level]) (leftFacts _ hp hn) (cps1_bytes v)
  | .param v, hp, hn => Complete.of_cps1 (by simp [level]) (leftFacts _ hp hn) (cps1_param v)
  | .ident v, hp, hn => Complete.of_cps1 (by simp [level]) (leftFacts _ hp hn) (cps1_ident v)
  | .int none raw, hp, hn => Complete.of_cps1 (by simp [level]) (leftFacts _ hp hn) (cps1_int raw)
  | .float none raw, hp, hn => Complete.of_cps1 (by simp [level]) (leftFacts _ hp hn) (cps1_float raw)
  | .int (some s) raw, hp, hn => by
    have c0 : Complete (.int none raw) := Complete.of_cps1 (by simp [level]) (leftFacts _ rfl rfl) (cps1_int raw)
    refine Complete.of_direct (by simp [level]) (by simp [level, BinLoop]) (leftFacts _ hp hn) ?_
    exact direct_signed (lit := Expr.int) (Or.inl ⟨rfl, rfl⟩) (by simpa [NF, nf] using hn) c0
  | .float (some s) raw, hp, hn => by
    have c0 : Complete (.float none raw) := Complete.of_cps1 (by simp [level]) (leftFacts _ rfl rfl) (cps1_float raw)
    refine Complete.of_direct (by simp [level]) (by simp [level, BinLoop]) (leftFacts _ hp hn) ?_
    exact direct_signed (lit := Expr.float) (Or.inr ⟨rfl, rfl⟩) (by simpa [NF, nf] using hn) c0
  | .path ns, hp, hn => by
    refine Complete.of_cps1 (by simp [level]) (leftFacts _ hp hn) ?_
    match ns, hn with
    | a :: b :: ns, _ => exact cps1_path a b ns
    | [], hn => simp [NF, nf] at hn
    | [_], hn => simp [NF, nf] at hn
  | .paren e, hp, hn => by
    have hp' : PrecOK e := by simpa [PrecOK, precOK] using hp
    have hn' : NF e := by simpa [NF, nf] using hn
    exact Complete.of_cps1 (by simp [level]) (leftFacts _ hp hn) (cps1_paren (complete e hp' hn') (leftFacts e hp' hn'))
  | .unary op e, hp, hn => by
    simp only [PrecOK, precOK, Bool.and_eq_true, decide_eq_true_eq] at hp
    have hn' : NF e ∧ (op.sign?.isNone || rawSigned e) = true := by
      simpa only [NF, nf, Bool.and_eq_true] using hn
    have c := complete e hp.1 hn'.1
    have hh := leftFacts (.unary op e) (by simp [PrecOK, precOK, hp]) hn
    by_cases hop : op = .not
    · subst hop
      exact Complete.of_direct (by simp [level, UOp.level]) (by simp [level, UOp.level, BinLoop]) hh
        (by simpa [level, UOp.level] using direct_not c (by simpa [UOp.level] using hp.2))
    · have hl2 : op.level = 2 := by cases op <;> simp_all [UOp.level]
      exact Complete.of_direct (by simp [level, hl2]) (by simp [level, hl2, BinLoop]) hh
        (by simpa [level, hl2] using direct_unary hl2 c (by rw [← hl2]; exact hp.2) (foldSign_keep hn'.2))
  | .bin op l r, hp, hn => by
    simp only [PrecOK, precOK, Bool.and_eq_true, decide_eq_true_eq] at hp
    have hn' : NF l ∧ NF r := by simpa only [NF, nf, Bool.and_eq_true] using hn
    have cl := complete l hp.1.1.1 hn'.1
    have cr := complete r hp.1.1.2 hn'.2
    have hh := leftFacts (.bin op l r) (by simp [PrecOK, precOK, hp]) hn
    cases hna : op.nonAssoc
    · obtain ⟨k, _, hop, hL⟩ := loopOp_of_op hna
      have hll : level l ≤ op.level := by simpa [hna] using hp.1.2
      have hp3 := hL.pos
      refine Complete.of_cps (by simpa [level] using hL) hh ?_
      show CPS (level (.bin op l r)) (.bin op l r)
      simp only [level]
      exact cps_bin hL hop (cl.cps _ hL hll) (cr.dir _ (by omega) (by omega) (by omega))
    · have h9 : op.level = 9 := by simpa [BOp.nonAssoc] using hna
      have hll : level l < op.level := by simpa [hna] using hp.1.2
      refine Complete.of_direct (by simp [level, h9]) (by simp [level, h9, BinLoop]) hh ?_
      simp only [level, h9]
      exact direct_bin_cmp hna cl cr (by omega) (by omega)
  | .isNull e not, hp, hn => by
    have hp0 := hp
    simp only [PrecOK, precOK, Bool.and_eq_true, decide_eq_true_eq] at hp
    have c := complete e hp.1 (by simpa [NF, nf] using hn)
    exact Complete.of_direct (by simp [level]) (by simp [level, BinLoop]) (leftFacts _ hp0 hn)
      (direct_is (last := .null) c (by omega) (by simp [yield]) (Or.inl ⟨rfl, rfl⟩))
  | .isBool e not b, hp, hn => by
    have hp0 := hp
    simp only [PrecOK, precOK, Bool.and_eq_true, decide_eq_true_eq] at hp
    have c := complete e hp.1 (by simpa [NF, nf] using hn)
    refine Complete.of_direct (by simp [level]) (by simp [level, BinLoop]) (leftFacts _ hp0 hn) ?_
    cases b
    · exact direct_is (last := .false_) c (by omega) (by simp [yield, boolTK]) (Or.inr (Or.inr ⟨rfl, rfl⟩))
    · exact direct_is (last := .true_) c (by omega) (by simp [yield, boolTK]) (Or.inr (Or.inl ⟨rfl, rfl⟩))
  | .between not e lo hi, hp, hn => by
    have hp0 := hp
    simp only [PrecOK, precOK, Bool.and_eq_true, decide_eq_true_eq] at hp
    have hn' : (NF e ∧ NF lo) ∧ NF hi := by simpa only [NF, nf, Bool.and_eq_true] using hn
    have c := complete e hp.1.1.1.1.1 hn'.1.1
    have clo := complete lo hp.1.1.1.1.2 hn'.1.2
    have chi := complete hi hp.1.1.1.2 hn'.2
    exact Complete.of_direct (by simp [level]) (by simp [level, BinLoop]) (leftFacts _ hp0 hn)
      (direct_between c clo chi (by omega) (by omega) (by omega))
  | .inList not e first more, hp, hn => by
    have hp0 := hp
    simp only [PrecOK, precOK, Bool.and_eq_true, decide_eq_true_eq] at hp
    have hn' : (NF e ∧ NF first) ∧ nfs more = true := by simpa only [NF, nf, Bool.and_eq_true] using hn
    have c := complete e hp.1.1.1 hn'.1.1
    have cf := complete first hp.1.2 hn'.1.2
    have cm := completes more hp.2 hn'.2
    exact Complete.of_direct (by simp [level]) (by simp [level, BinLoop]) (leftFacts _ hp0 hn)
      (direct_inList c (by omega) cf (leftFacts first hp.1.2 hn'.1.2) cm)
  | .inUnnest not e a, hp, hn => by
    have hp0 := hp
    simp only [PrecOK, precOK, Bool.and_eq_true, decide_eq_true_eq] at hp
    have hn' : NF e ∧ NF a := by simpa only [NF, nf, Bool.and_eq_true] using hn
    have c := complete e hp.1.1 hn'.1
    have ca := complete a hp.2 hn'.2
    exact Complete.of_direct (by simp [level]) (by simp [level, BinLoop]) (leftFacts _ hp0 hn)
      (direct_inUnnest c (by omega) ca)
  | .sel e n, hp, hn => by
    have hp0 := hp
    simp only [PrecOK, precOK, Bool.and_eq_true, decide_eq_true_eq] at hp
    have hn' : NF e ∧ isIdentOrPath e = false := by simpa only [NF, nf, Bool.and_eq_true, Bool.not_eq_true'] using hn
    have c := complete e hp.1 hn'.1
    exact Complete.of_cps1 (by simp [level]) (leftFacts _ hp0 hn) (cps1_sel (c.cps1 hp.2) hn'.2)
  | .index e none i, hp, hn => by
    have hp0 := hp
    simp only [PrecOK, precOK, Bool.and_eq_true, decide_eq_true_eq] at hp
    have hn' : NF e ∧ NF i := by
      simpa only [NF, nf, Bool.and_eq_true] using hn
    have c := complete e hp.1.1 hn'.1
    have ci := complete i hp.2 hn'.2
    exact Complete.of_cps1 (by simp [level]) (leftFacts _ hp0 hn)
      (cps1_index (c.cps1 hp.1.2) ci (leftFacts i hp.2 hn'.2) trivial)
  | .index e (some (k, sp)) i, hp, hn => by
    have hp0 := hp
    simp only [PrecOK, precOK, Bool.and_eq_true, decide_eq_true_eq] at hp
    have hn' : (NF e ∧ NF i) ∧ posKwName sp = some k := by
      simpa only [NF, nf, Bool.and_eq_true, beq_iff_eq] using hn
    have c := complete e hp.1.1 hn'.1.1
    have ci := complete i hp.2 hn'.1.2
    exact Complete.of_cps1 (by simp [level]) (leftFacts _ hp0 hn)
      (cps1_index (c.cps1 hp.1.2) ci (leftFacts i hp.2 hn'.1.2) hn'.2)
  | .caseE o c t ws el, hp, hn => by
    have hp0 := hp
    simp only [PrecOK, precOK, Bool.and_eq_true] at hp
    have hn' : (((nfo o = true ∧ NF c) ∧ NF t) ∧ nfw ws = true) ∧ nfo el = true := by
      simpa only [NF, nf, Bool.and_eq_true] using hn
    exact Complete.of_cps1 (by simp [level]) (leftFacts _ hp0 hn)
      (cps1_caseE (completeo o hp.1.1.1.1 hn'.1.1.1.1) (complete c hp.1.1.1.2 hn'.1.1.1.2)
        (complete t hp.1.1.2 hn'.1.1.2) (completew ws hp.1.2 hn'.1.2) (completeo el hp.2 hn'.2))
  | .ifE c t e, hp, hn => by
    have hp0 := hp
    simp only [PrecOK, precOK, Bool.and_eq_true] at hp
    have hn' : (NF c ∧ NF t) ∧ NF e := by simpa only [NF, nf, Bool.and_eq_true] using hn
    exact Complete.of_cps1 (by simp [level]) (leftFacts _ hp0 hn)
      (cps1_ifE (complete c hp.1.1 hn'.1.1) (complete t hp.1.2 hn'.1.2) (complete e hp.2 hn'.2))
  | .cast e ns, hp, hn => by
    have hp' : PrecOK e := by simpa [PrecOK, precOK] using hp
    have hn' : NF e ∧ nfT ns = true := by simpa only [NF, nf, Bool.and_eq_true] using hn
    exact Complete.of_cps1 (by simp [level]) (leftFacts _ hp hn) (cps1_cast (complete e hp' hn'.1) hn'.2)
  | .array .nil, hp, hn => Complete.of_cps1 (by simp [level]) (leftFacts _ hp hn) cps1_arr_nil
  | .array (.cons e es), hp, hn => by
    have hp0 := hp
    simp only [PrecOK, precOK, precOKs, Bool.and_eq_true] at hp
    have hn' : NF e ∧ nfs es = true := by simpa only [NF, nf, nfs, Bool.and_eq_true] using hn
    exact Complete.of_cps1 (by simp [level]) (leftFacts _ hp0 hn)
      (cps1_arr_cons (complete e hp.1 hn'.1) hn'.1 (completes es hp.2 hn'.2))
theorem completes : (m : Exprs) → precOKs m = true → nfs m = true → CompleteL m
  | .nil, _, _ => completeL_nil
  | .cons e es, hp, hn => by
    simp only [precOKs, Bool.and_eq_true] at hp
    simp only [nfs, Bool.and_eq_true] at hn
    exact completeL_cons (complete e hp.1 hn.1) (completes es hp.2 hn.2)
theorem completew : (ws : Whens) → precOKw ws = true → nfw ws = true → CompleteW ws
  | .nil, _, _ => completeW_nil
  | .cons c t ws, hp, hn => by
    simp only [precOKw, Bool.and_eq_true] at hp
    simp only [nfw, Bool.and_eq_true] at hn
    exact completeW_cons (complete c hp.1.1 hn.1.1) (complete t hp.1.2 hn.1.2) (completew ws hp.2 hn.2)
theorem completeo : (o : OExpr) → precOKo o = true → nfo o = true → CompleteO o
  | .none, _, _ => fun _ h => by cases h
  | .some e, hp, hn => fun e' h => by
    cases h
    exact ⟨complete e hp hn, hn⟩
end

/-- **Completeness.**  A tree grouped as the GoogleSQL table says (`PrecOK`), in the parser's normal form (`NF`:
no sign in front of an unsigned numeric literal, merged paths, position keywords), is what `parseExpr` builds from
any token list that reads its yield (and contains no unquoted SAFE_CAST / REPLACE_FIELDS identifier), provided the
following token does not continue an expression (`Follow rest`). -/
theorem parseExpr_complete {e : Expr} (hp : PrecOK e) (hn : NF e) {pre rest : List Token}
    (hr : pre.map proj = yield e) (hc : ∀ t ∈ pre, isCastLike t = false) (hf : Follow rest) :
    ∃ n, ∀ fuel, n ≤ fuel → parseExpr fuel (pre ++ rest) = .ok (e, rest) :=
  ev_parseExpr_of (complete e hp hn) ⟨hr, hc⟩ hf

end MF.Expr
