/-
  MF.Proofs.TypePos — C05 for types: every node of an accepted type starts at a token start, ends at a token end
  (`>>` / `<>` counted as two one-byte tokens), is non-empty, lies inside the input, and its children lie inside it,
  in order, without overlap.  Derived from soundness (`Match (yieldT t) pre`) and the tiling of the token list.
-/
import MF.Proofs.TypeSound
import MF.Proofs.TypeDeriv
import MF.Proofs.TypeLex
import MF.Spec.TypeNodes
namespace MF.TypeP
open MF.TypeG

/-! ## ordered token lists -/

/-- the tokens of `l` lie between `p` and `q`, in order, without overlap; all but `<eof>` are non-empty -/
def Ord : Nat → List Token → Nat → Prop
  | p, [], q => p ≤ q
  | p, t :: ts, q => p ≤ t.pos ∧ (tk t.kind ≠ .eof → t.pos < t.end) ∧ t.pos ≤ t.end ∧ Ord t.end ts q

theorem Ord.le {p q : Nat} {l : List Token} (h : Ord p l q) : p ≤ q := by
  induction l generalizing p with
  | nil => exact h
  | cons t ts ih =>
    obtain ⟨h1, _, h3, h4⟩ := h
    have := ih h4
    omega

theorem Ord.append_inv {p q : Nat} {a b : List Token} (h : Ord p (a ++ b) q) : ∃ m, Ord p a m ∧ Ord m b q := by
  induction a generalizing p with
  | nil => exact ⟨p, Nat.le_refl _, h⟩
  | cons t ts ih =>
    obtain ⟨h1, h2, h3, h4⟩ := h
    obtain ⟨m, hm1, hm2⟩ := ih h4
    exact ⟨m, ⟨h1, h2, h3, hm1⟩, hm2⟩

theorem Ord.append {p m q : Nat} {a b : List Token} (h1 : Ord p a m) (h2 : Ord m b q) : Ord p (a ++ b) q := by
  induction a generalizing p with
  | nil =>
    cases b with
    | nil => exact Nat.le_trans h1 h2
    | cons t ts => exact ⟨Nat.le_trans h1 h2.1, h2.2⟩
  | cons t ts ih => exact ⟨h1.1, h1.2.1, h1.2.2.1, ih h1.2.2.2⟩

/-- per-token facts on the expanded list -/
structure XFacts (t : Token) : Prop where
  gt : tk t.kind = .gt → t.end = t.pos + 1
  ident : tk t.kind = .ident → t.raw.head? ≠ some 96 → t.end = t.pos + t.asString.length

theorem ord_of_tokensOK {buf : Bytes} {p : Nat} {ts : List Token} (h : Lex.TokensOK buf p ts) (hp : p ≤ buf.length) :
    Ord p ts buf.length := by
  induction ts generalizing p with
  | nil => exact hp
  | cons t ts ih =>
    simp only [Lex.TokensOK] at h
    obtain ⟨c1, c2, c3, c4, c5, c6, c7, c8, c9, c10⟩ := h
    have cl := Lex.CommentsOK_le c1
    refine ⟨by omega, fun hk => c8 (fun he => hk (tk_eof.2 he)), c5, ih c10 c6⟩

theorem ord_expand {p q : Nat} {ts : List Token} (h : Ord p ts q) (hf : ∀ t ∈ ts, Lex.TokFacts t) :
    Ord p (expand ts) q := by
  induction ts generalizing p with
  | nil => exact h
  | cons t ts ih =>
    obtain ⟨h1, h2, h3, h4⟩ := h
    have ih' := ih h4 (fun u hu => hf u (by simp [hu]))
    have ft := hf t (by simp)
    by_cases hs : tk t.kind = .shr
    · rw [expand_shr ts hs]
      have he : t.end = t.pos + 2 := ft.shr (kind_of_tk hs (by decide))
      refine ⟨by simpa using h1, fun _ => by simp, by simp, ?_, fun _ => by simp; omega, by simp; omega, ?_⟩
      · simp
      · simpa using ih'
    · by_cases hl : tk t.kind = .ltgt
      · rw [expand_ltgt ts hl]
        have he : t.end = t.pos + 2 := ft.ltgt (kind_of_tk hl (by decide))
        refine ⟨by simpa using h1, fun _ => by simp, by simp, ?_, fun _ => by simp; omega, by simp; omega, ?_⟩
        · simp
        · simpa using ih'
      · rw [expand_plain ts hs hl]
        exact ⟨h1, h2, h3, ih'⟩

theorem xfacts_expand {ts : List Token} (hf : ∀ t ∈ ts, Lex.TokFacts t) : ∀ t ∈ expand ts, XFacts t := by
  induction ts with
  | nil => simp
  | cons u ts ih =>
    have ih' := ih (fun v hv => hf v (by simp [hv]))
    have fu := hf u (by simp)
    intro t ht
    by_cases hs : tk u.kind = .shr
    · rw [expand_shr ts hs] at ht
      have he : u.end = u.pos + 2 := fu.shr (kind_of_tk hs (by decide))
      simp only [List.mem_cons] at ht
      rcases ht with rfl | rfl | ht
      · exact ⟨fun _ => by simp, fun h => by simp at h⟩
      · exact ⟨fun _ => by simp; omega, fun h => by simp at h⟩
      · exact ih' t ht
    · by_cases hl : tk u.kind = .ltgt
      · rw [expand_ltgt ts hl] at ht
        have he : u.end = u.pos + 2 := fu.ltgt (kind_of_tk hl (by decide))
        simp only [List.mem_cons] at ht
        rcases ht with rfl | rfl | ht
        · exact ⟨fun h => by simp at h, fun h => by simp at h⟩
        · exact ⟨fun _ => by simp; omega, fun h => by simp at h⟩
        · exact ih' t ht
      · rw [expand_plain ts hs hl] at ht
        simp only [List.mem_cons] at ht
        rcases ht with rfl | ht
        · exact ⟨fun h => fu.gt (kind_of_tk h (by decide)), fun h => fu.ident (tk_ident.1 h)⟩
        · exact ih' t ht

/-! ## simple type names -/

theorem simpleName?_len {t : Token} {n : Bytes} (h : simpleName? t = some n) :
    t.asString.length = n.length ∧ n ∈ simpleTypes := by
  unfold simpleName? at h
  have h1 := List.find?_some h
  have h2 := List.mem_of_find?_eq_some h
  refine ⟨?_, h2⟩
  simp only [Token.isIdent, Char.equalFold, Bool.and_eq_true, beq_iff_eq] at h1
  exact h1.2.1

/-! ## nodes -/

/-- what C05 says about one node, relative to a list of (expanded) tokens -/
def Good (pre : List Token) (n : Node) : Prop :=
  (∃ tok ∈ pre, tok.pos = n.pos) ∧ (∃ tok ∈ pre, tok.end = n.end) ∧ n.pos < n.end ∧
  InOrder n.pos n.end (children n)

theorem Good.mono {pre pre' : List Token} {n : Node} (h : Good pre n) (hs : ∀ t ∈ pre, t ∈ pre') : Good pre' n := by
  obtain ⟨⟨a, ha, ea⟩, ⟨b, hb, eb⟩, h3, h4⟩ := h
  exact ⟨⟨a, hs a ha, ea⟩, ⟨b, hs b hb, eb⟩, h3, h4⟩

theorem _root_.MF.TypeG.InOrder.mono {lo lo' hi hi' : Nat} {cs : List Node} (h : InOrder lo hi cs) (h1 : lo' ≤ lo) (h2 : hi ≤ hi') :
    InOrder lo' hi' cs := by
  induction cs generalizing lo lo' with
  | nil => simp only [InOrder] at *; omega
  | cons c cs ih =>
    obtain ⟨a, b, c'⟩ := h
    exact ⟨by omega, b, ih c' (Nat.le_refl _)⟩

theorem _root_.MF.TypeG.InOrder.le {lo hi : Nat} {cs : List Node} (h : InOrder lo hi cs) : lo ≤ hi := by
  induction cs generalizing lo with
  | nil => exact h
  | cons c cs ih =>
    obtain ⟨a, b, c'⟩ := h
    have := ih c'
    omega

theorem _root_.MF.TypeG.InOrder.append {lo mid hi : Nat} {as bs : List Node} (h1 : InOrder lo mid as) (h2 : InOrder mid hi bs) :
    InOrder lo hi (as ++ bs) := by
  induction as generalizing lo with
  | nil => exact h2.mono h1 (Nat.le_refl _)
  | cons c cs ih => exact ⟨h1.1, h1.2.1, ih h1.2.2⟩

theorem root_mem (t : Ty) : Node.ty t ∈ nodesT t := by
  cases t <;> simp [nodesT]

theorem ok_ne_eof {y : YT} {t : Token} (h : y.ok t) (hy : y.cls ≠ .eof) : tk t.kind ≠ .eof := by
  rw [YT.ok_cls h]; exact hy

/-! ## paths -/

/-- `Path[$].end` -/
def lastEndI : Ident → List Ident → Nat
  | a, [] => a.nameEnd
  | _, b :: rest => lastEndI b rest

theorem endT_named (a : Ident) (rest : List Ident) : endT (.named (a :: rest)) = lastEndI a rest := by
  induction rest generalizing a with
  | nil => rfl
  | cons b rest ih =>
    have := ih b
    simp only [endT, List.getLast?_cons_cons] at this ⊢
    rw [this]; rfl

theorem path_pos (a : Ident) (rest : List Ident) :
    ∀ (p q : Nat) (pre : List Token), Match (yieldPath (a :: rest)) pre → Ord p pre q →
      p ≤ a.namePos ∧ lastEndI a rest ≤ q ∧
      InOrder a.namePos (lastEndI a rest) ((a :: rest).map Node.ident) ∧
      (∃ tok ∈ pre, tok.pos = a.namePos) ∧ (∃ tok ∈ pre, tok.end = lastEndI a rest) ∧
      ∀ i ∈ a :: rest, Good pre (.ident i) := by
  induction rest generalizing a with
  | nil =>
    intro p q pre hm ho
    obtain ⟨t, r, rfl, hy, hm'⟩ := match_cons_inv hm
    have := hm'.nil_left; subst this
    obtain ⟨ho1, ho2, ho3, ho4⟩ := ho
    obtain ⟨hk, rfl⟩ := hy
    have hlt : t.pos < t.end := ho2 (by rw [hk]; decide)
    refine ⟨ho1, ho4, ⟨Nat.le_refl _, hlt, Nat.le_refl _⟩, ⟨t, by simp, rfl⟩, ⟨t, by simp, rfl⟩, ?_⟩
    intro i hi
    simp only [List.mem_singleton] at hi
    subst hi
    exact ⟨⟨t, by simp, rfl⟩, ⟨t, by simp, rfl⟩, hlt, Nat.le_of_lt hlt⟩
  | cons b rest ih =>
    intro p q pre hm ho
    simp only [yieldPath] at hm
    obtain ⟨t, r, rfl, hy, hm1⟩ := match_cons_inv hm
    obtain ⟨d, r2, rfl, hd, hm2⟩ := match_cons_inv hm1
    obtain ⟨ho1, ho2, ho3, hod1, hod2, hod3, ho4⟩ := ho
    obtain ⟨hk, rfl⟩ := hy
    have hlt : t.pos < t.end := ho2 (by rw [hk]; decide)
    obtain ⟨i1, i2, i3, ⟨tb, htb, etb⟩, ⟨tl, htl, etl⟩, i6⟩ := ih b d.end q r2 hm2 ho4
    refine ⟨ho1, i2, ⟨Nat.le_refl _, hlt, InOrder.mono (cs := (b :: rest).map Node.ident) i3 (by simp only [Node.end]; omega) (Nat.le_refl _)⟩,
      ⟨t, by simp, rfl⟩, ⟨tl, by simp [htl], etl⟩, ?_⟩
    intro i hi
    simp only [List.mem_cons] at hi
    rcases hi with rfl | hi
    · exact ⟨⟨t, by simp, rfl⟩, ⟨t, by simp, rfl⟩, hlt, Nat.le_of_lt hlt⟩
    · exact (i6 i (by simpa using hi)).mono (fun u hu => by simp [hu])

/-! ## the main induction -/

/-- no `SimpleType` node of the tree sits on a back-quoted token -/
def UnqT (t : Ty) (pre : List Token) : Prop :=
  ∀ a n, Node.ty (.simple a n) ∈ nodesT t → ∀ tok ∈ pre, tok.pos = a → tok.raw.head? ≠ some 96

def UnqFs (fs : Fields) (pre : List Token) : Prop :=
  ∀ a n, Node.ty (.simple a n) ∈ nodesFs fs → ∀ tok ∈ pre, tok.pos = a → tok.raw.head? ≠ some 96

def PosT (t : Ty) : Prop :=
  ∀ (p q : Nat) (pre : List Token), Match (yieldT t) pre → Ord p pre q → (∀ tok ∈ pre, XFacts tok) → UnqT t pre →
    p ≤ posT t ∧ endT t ≤ q ∧ ∀ n ∈ nodesT t, Good pre n

def PosMore (fs : Fields) : Prop :=
  ∀ (p q : Nat) (pre : List Token), Match (yieldMore fs) pre → Ord p pre q → (∀ tok ∈ pre, XFacts tok) → UnqFs fs pre →
    (∀ n ∈ nodesFs fs, Good pre n) ∧ InOrder p q (fieldNodes fs)

theorem field_body {i : Option Ident} {t : Ty} {rest : Fields} (iht : PosT t) (ihm : PosMore rest)
    {p q : Nat} {pre : List Token} (hm : Match (yieldName i ++ yieldT t ++ yieldMore rest) pre) (ho : Ord p pre q)
    (hx : ∀ tok ∈ pre, XFacts tok) (hu : UnqFs (.cons i t rest) pre) :
    (∀ n ∈ nodesFs (.cons i t rest), Good pre n) ∧ InOrder p q (fieldNodes (.cons i t rest)) := by
  obtain ⟨p12, pm, rfl, hm12, hmm⟩ := hm.append_inv
  obtain ⟨pn, pt, rfl, hmn, hmt⟩ := hm12.append_inv
  obtain ⟨m2, ho12, hom⟩ := ho.append_inv
  obtain ⟨m1, hon, hot⟩ := ho12.append_inv
  have hsub_t : ∀ u ∈ pt, u ∈ pn ++ pt ++ pm := fun u hu => by simp [hu]
  have hsub_m : ∀ u ∈ pm, u ∈ pn ++ pt ++ pm := fun u hu => by simp [hu]
  have hsub_n : ∀ u ∈ pn, u ∈ pn ++ pt ++ pm := fun u hu => by simp [hu]
  obtain ⟨t1, t2, t3⟩ := iht m1 m2 pt hmt hot (fun u hu => hx u (hsub_t u hu))
    (fun a n hn tok htok => hu a n (by simp [nodesFs, hn]) tok (hsub_t tok htok))
  obtain ⟨r1, r2⟩ := ihm m2 q pm hmm hom (fun u hu => hx u (hsub_m u hu))
    (fun a n hn tok htok => hu a n (by simp [nodesFs, hn]) tok (hsub_m tok htok))
  have groot := t3 _ (root_mem t)
  obtain ⟨⟨ta, hta, eta⟩, ⟨tb, htb, etb⟩, g3, g4⟩ := groot
  simp only [Node.pos, Node.end] at eta etb g3
  -- the field node itself
  have hfield : Good (pn ++ pt ++ pm) (.field i t) ∧ p ≤ posF i t := by
    cases i with
    | none =>
      have := hmn.nil_left; subst this
      have hp : p ≤ m1 := hon
      refine ⟨⟨⟨ta, hsub_t ta hta, eta⟩, ⟨tb, hsub_t tb htb, etb⟩, g3, ?_⟩, by simp only [posF]; omega⟩
      simp only [children, optIdent, List.nil_append, Node.pos, Node.end, posF, endF, InOrder]
      exact ⟨Nat.le_refl _, g3, Nat.le_refl _⟩
    | some id =>
      simp only [yieldName] at hmn
      obtain ⟨tok, r, rfl, hy, hr⟩ := match_cons_inv hmn
      have := hr.nil_left; subst this
      obtain ⟨hk, rfl⟩ := hy
      obtain ⟨o1, o2, o3, o4⟩ := hon
      have hlt : tok.pos < tok.end := o2 (by rw [hk]; decide)
      have o4' : tok.end ≤ m1 := o4
      refine ⟨⟨⟨tok, by simp, rfl⟩, ⟨tb, hsub_t tb htb, etb⟩, by simp only [Node.pos, Node.end, posF, endF]; omega, ?_⟩, o1⟩
      simp only [children, optIdent, Node.pos, Node.end, posF, endF, InOrder, List.cons_append, List.nil_append]
      exact ⟨Nat.le_refl _, hlt, by omega, g3, Nat.le_refl _⟩
  constructor
  · intro n hn
    simp only [nodesFs, List.mem_cons, List.mem_append] at hn
    rcases hn with (rfl | hn | hn) | hn
    · exact hfield.1
    · -- the name identifier
      cases i with
      | none => simp [optIdent] at hn
      | some id =>
        simp only [optIdent, List.mem_singleton] at hn
        subst hn
        simp only [yieldName] at hmn
        obtain ⟨tok, r, rfl, hy, hr⟩ := match_cons_inv hmn
        have := hr.nil_left; subst this
        obtain ⟨hk, rfl⟩ := hy
        have hlt : tok.pos < tok.end := hon.2.1 (by rw [hk]; decide)
        exact ⟨⟨tok, by simp, rfl⟩, ⟨tok, by simp, rfl⟩, hlt, Nat.le_of_lt hlt⟩
    · exact (t3 n hn).mono hsub_t
    · exact (r1 n hn).mono hsub_m
  · simp only [fieldNodes, InOrder]
    refine ⟨hfield.2, hfield.1.2.2.1, ?_⟩
    exact r2.mono (by simp only [Node.end, endF]; omega) (Nat.le_refl _)

theorem unq_sub {t : Ty} {pre pre' : List Token} {N : List Node}
    (hu : ∀ a n, Node.ty (.simple a n) ∈ N → ∀ tok ∈ pre', tok.pos = a → tok.raw.head? ≠ some 96)
    (hN : ∀ x ∈ nodesT t, x ∈ N) (hs : ∀ u ∈ pre, u ∈ pre') : UnqT t pre :=
  fun a n hn tok htok => hu a n (hN _ hn) tok (hs tok htok)

mutual
theorem posT_ok : ∀ t : Ty, wf t = true → PosT t
  | .simple a n, _ => by
    intro p q pre hm ho hx hu
    simp only [yieldT] at hm
    obtain ⟨tok, r, rfl, hy, hr⟩ := match_cons_inv hm
    have := hr.nil_left; subst this
    obtain ⟨hk, rfl, hn⟩ := hy
    obtain ⟨o1, o2, o3, o4⟩ := ho
    have hlt : tok.pos < tok.end := o2 (by rw [hk]; decide)
    have hq := hu tok.pos n (by simp [nodesT]) tok (by simp) rfl
    have he := (hx tok (by simp)).ident hk hq
    have hl := (simpleName?_len hn).1
    have o4' : tok.end ≤ q := o4
    refine ⟨o1, by simp only [endT]; omega, ?_⟩
    intro x hxm
    simp only [nodesT, List.mem_singleton] at hxm
    subst hxm
    refine ⟨⟨tok, by simp, rfl⟩, ⟨tok, by simp, by simp only [Node.end, endT]; omega⟩,
      by simp only [Node.pos, Node.end, posT, endT]; omega, ?_⟩
    simp only [children, InOrder, Node.pos, Node.end, posT, endT]; omega
  | .named [], h => by simp [wf] at h
  | .named (a :: rest), _ => by
    intro p q pre hm ho hx hu
    simp only [yieldT] at hm
    obtain ⟨h1, h2, h3, h4, h5, h6⟩ := path_pos a rest p q pre hm ho
    refine ⟨h1, by rw [endT_named]; exact h2, ?_⟩
    intro x hxm
    simp only [nodesT, List.mem_cons, List.mem_map] at hxm
    rcases hxm with rfl | ⟨i, hi, rfl⟩
    · refine ⟨h4, by simpa only [Node.end, endT_named] using h5, ?_, ?_⟩
      · have := h3.le
        have := h3.2.1
        simp only [Node.pos, Node.end, endT_named] at *
        have h7 := h3.2.2.le
        simp only [Node.end] at h7
        simp only [posT, List.head?_cons, Option.map_some, Option.getD_some]
        omega
      · simp only [children, Node.pos, Node.end, endT_named]
        exact h3
    · exact h6 i (by simpa using hi)
  | .array a g item, h => by
    intro p q pre hm ho hx hu
    have ih := posT_ok item (by simpa [wf] using h)
    simp only [yieldT] at hm
    obtain ⟨ta, r1, rfl, hya, hm1⟩ := match_cons_inv hm
    obtain ⟨tl, r2, rfl, hyl, hm2⟩ := match_cons_inv hm1
    obtain ⟨mid, last, rfl, hmi, hml⟩ := hm2.append_inv
    obtain ⟨tg, r3, rfl, hyg, hr3⟩ := match_cons_inv hml
    have := hr3.nil_left; subst this
    obtain ⟨hka, rfl⟩ := hya
    obtain ⟨hkg, rfl⟩ := hyg
    have hkl : tk tl.kind = .lt := hyl
    obtain ⟨a1, a2, a3, l1, l2, l3, ho2⟩ := ho
    obtain ⟨m, homid, hog⟩ := ho2.append_inv
    obtain ⟨g1, g2, g3, g4⟩ := hog
    have g4' : tg.end ≤ q := g4
    have halt := a2 (by rw [hka]; decide)
    have hglt := g2 (by rw [hkg]; decide)
    have hge := (hx tg (by simp)).gt hkg
    have hsub : ∀ u ∈ mid, u ∈ ta :: tl :: (mid ++ [tg]) := fun u hu => by simp [hu]
    obtain ⟨i1, i2, i3⟩ := ih tl.end m mid hmi homid (fun u hu => hx u (hsub u hu))
      (unq_sub hu (fun x hxm => by simp [nodesT, hxm]) hsub)
    have groot := i3 _ (root_mem item)
    have g3' := groot.2.2.1
    simp only [Node.pos, Node.end] at g3'
    refine ⟨a1, by simp only [endT]; omega, ?_⟩
    intro x hxm
    simp only [nodesT, List.mem_cons] at hxm
    rcases hxm with rfl | hxm
    · refine ⟨⟨ta, by simp, rfl⟩, ⟨tg, by simp, by simp only [Node.end, endT]; omega⟩,
        by simp only [Node.pos, Node.end, posT, endT]; omega, ?_⟩
      show ta.pos ≤ posT item ∧ posT item < endT item ∧ endT item ≤ tg.pos + 1
      exact ⟨by omega, g3', by omega⟩
    · exact (i3 x hxm).mono hsub
  | .struct s g fs, h => by
    intro p q pre hm ho hx hu
    have hw : wfs fs = true := by simpa [wf] using h
    simp only [yieldT] at hm
    obtain ⟨ts, r1, rfl, hys, hm1⟩ := match_cons_inv hm
    obtain ⟨tl, r2, rfl, hyl, hm2⟩ := match_cons_inv hm1
    obtain ⟨mid, last, rfl, hmi, hml⟩ := hm2.append_inv
    obtain ⟨tg, r3, rfl, hyg, hr3⟩ := match_cons_inv hml
    have := hr3.nil_left; subst this
    obtain ⟨hks, rfl⟩ := hys
    obtain ⟨hkg, rfl⟩ := hyg
    have hkl : tk tl.kind = .lt := hyl
    obtain ⟨a1, a2, a3, l1, l2, l3, ho2⟩ := ho
    obtain ⟨m, homid, hog⟩ := ho2.append_inv
    obtain ⟨g1, g2, g3, g4⟩ := hog
    have g4' : tg.end ≤ q := g4
    have halt := a2 (by rw [hks]; decide)
    have hglt := g2 (by rw [hkg]; decide)
    have hge := (hx tg (by simp)).gt hkg
    have hsub : ∀ u ∈ mid, u ∈ ts :: tl :: (mid ++ [tg]) := fun u hu => by simp [hu]
    obtain ⟨f1, f2⟩ := posFs_ok fs hw tl.end m mid hmi homid (fun u hu => hx u (hsub u hu))
      (fun a n hn tok htok => hu a n (by simp [nodesT, hn]) tok (hsub tok htok))
    have hle := homid.le
    refine ⟨a1, by simp only [endT]; omega, ?_⟩
    intro x hxm
    simp only [nodesT, List.mem_cons] at hxm
    rcases hxm with rfl | hxm
    · refine ⟨⟨ts, by simp, rfl⟩, ⟨tg, by simp, by simp only [Node.end, endT]; omega⟩,
        by simp only [Node.pos, Node.end, posT, endT]; omega, ?_⟩
      simp only [children, Node.pos, Node.end, posT, endT]
      exact f2.mono (by omega) (by omega)
    · exact (f1 x hxm).mono hsub
theorem posFs_ok : ∀ fs : Fields, wfs fs = true →
    ∀ (p q : Nat) (pre : List Token), Match (yieldFs fs) pre → Ord p pre q → (∀ tok ∈ pre, XFacts tok) → UnqFs fs pre →
      (∀ n ∈ nodesFs fs, Good pre n) ∧ InOrder p q (fieldNodes fs)
  | .nil, _ => by
    intro p q pre hm ho _ _
    simp only [yieldFs] at hm
    have := hm.nil_left; subst this
    exact ⟨by simp [nodesFs], ho⟩
  | .cons i t rest, h => by
    intro p q pre hm ho hx hu
    have hw : wf t = true ∧ wfs rest = true := by simpa [wfs] using h
    simp only [yieldFs] at hm
    exact field_body (posT_ok t hw.1) (posMore_ok rest hw.2) hm ho hx hu
theorem posMore_ok : ∀ fs : Fields, wfs fs = true → PosMore fs
  | .nil, _ => by
    intro p q pre hm ho _ _
    simp only [yieldMore] at hm
    have := hm.nil_left; subst this
    exact ⟨by simp [nodesFs], ho⟩
  | .cons i t rest, h => by
    intro p q pre hm ho hx hu
    have hw : wf t = true ∧ wfs rest = true := by simpa [wfs] using h
    simp only [yieldMore, List.cons_append] at hm
    obtain ⟨c, r, rfl, hyc, hm1⟩ := match_cons_inv hm
    obtain ⟨c1, c2, c3, ho1⟩ := ho
    have hsub : ∀ u ∈ r, u ∈ c :: r := fun u hu => by simp [hu]
    obtain ⟨b1, b2⟩ := field_body (posT_ok t hw.1) (posMore_ok rest hw.2) hm1 ho1 (fun u hu => hx u (hsub u hu))
      (fun a n hn tok htok => hu a n hn tok (hsub tok htok))
    exact ⟨fun n hn => (b1 n hn).mono hsub, b2.mono (by omega) (Nat.le_refl _)⟩
end

/-! ## the theorem -/

theorem Ord.mem {p q : Nat} {l : List Token} (h : Ord p l q) : ∀ t ∈ l, p ≤ t.pos ∧ t.end ≤ q := by
  induction l generalizing p with
  | nil => simp
  | cons u l ih =>
    obtain ⟨h1, h2, h3, h4⟩ := h
    intro t ht
    simp only [List.mem_cons] at ht
    rcases ht with rfl | ht
    · exact ⟨h1, h4.le⟩
    · have := ih h4 t ht
      omega

/-- a token of the expanded list is a token of the list, or a one-byte half of a `>>` / `<>` -/
theorem mem_expand {ts : List Token} {t : Token} (h : t ∈ expand ts) : t ∈ ts ∨ t.raw = B ">" ∨ t.raw = B "<" := by
  induction ts with
  | nil => simp at h
  | cons u ts ih =>
    simp only [expand] at h
    split at h
    · simp only [List.mem_cons] at h
      rcases h with rfl | rfl | h
      · right; left; rfl
      · right; left; rfl
      · rcases ih h with h | h
        · left; simp [h]
        · right; exact h
    · simp only [List.mem_cons] at h
      rcases h with rfl | rfl | h
      · right; right; rfl
      · right; left; rfl
      · rcases ih h with h | h
        · left; simp [h]
        · right; exact h
    · simp only [List.mem_cons] at h
      rcases h with rfl | h
      · left; simp
      · rcases ih h with h | h
        · left; simp [h]
        · right; exact h

/-- C05 for the `ParseType` entry point -/
theorem type_positions {buf : Bytes} {ts : List Token} {fuel : Nat} {t : Ty}
    (hl : Lex.lexAll buf = .ok ts) (hp : parseTypeTop fuel ts = .ok t)
    (hq : ∀ a n, Node.ty (.simple a n) ∈ nodesT t → ∀ tok ∈ ts, tok.pos = a → tok.raw.head? ≠ some 96) :
    ∀ n ∈ nodesT t,
      (∃ tok ∈ expand ts, tok.pos = n.pos) ∧ (∃ tok ∈ expand ts, tok.end = n.end) ∧
      n.pos < n.end ∧ n.end ≤ buf.length ∧ InOrder n.pos n.end (children n) := by
  obtain ⟨pre, rest, he, _, hm, hw⟩ := parseTypeTop_sound hp
  obtain ⟨_, hok⟩ := Lex.lexAll_ok hl
  have hf := Lex.lexAll_facts hl
  have ho : Ord 0 (expand ts) buf.length := ord_expand (ord_of_tokensOK hok (Nat.zero_le _)) hf
  have hx := xfacts_expand hf
  rw [he] at ho hx
  obtain ⟨m, ho1, ho2⟩ := ho.append_inv
  have hsub : ∀ u ∈ pre, u ∈ expand ts := fun u hu => by rw [he]; simp [hu]
  have hu : UnqT t pre := by
    intro a n hn tok htok hpos
    rcases mem_expand (hsub tok htok) with h | h | h
    · exact hq a n hn tok h hpos
    · rw [h]; decide
    · rw [h]; decide
  obtain ⟨_, _, h3⟩ := posT_ok t hw 0 m pre hm ho1 (fun u hu => hx u (by simp [hu])) hu
  intro n hn
  obtain ⟨⟨a, ha, ea⟩, ⟨b, hb, eb⟩, g3, g4⟩ := h3 n hn
  refine ⟨⟨a, hsub a ha, ea⟩, ⟨b, hsub b hb, eb⟩, g3, ?_, g4⟩
  have := (ho1.mem b hb).2
  have := ho2.le
  omega

end MF.TypeP
