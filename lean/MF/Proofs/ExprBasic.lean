/-
  MF.Proofs.ExprBasic — vocabulary shared by the C07 proofs: the result monad, "more fuel refines" (`Le`),
  "eventually" (`Ev`), and the relation between a token list and a yield (`Spells`).
-/
import MF.Model.Expr
import MF.Spec.Precedence
import MF.Proofs.TypeBasic
namespace MF.Expr

/-! ## `Res` -/

@[simp] theorem Res.bind_ok {α β : Type} (a : α) (k : α → Res β) : (Res.ok a).bind k = k a := rfl
@[simp] theorem Res.bind_raise {α β : Type} (k : α → Res β) : (Res.raise : Res α).bind k = .raise := rfl
@[simp] theorem Res.bind_outside {α β : Type} (k : α → Res β) : (Res.outside : Res α).bind k = .outside := rfl
@[simp] theorem Res.bind_crash {α β : Type} (k : α → Res β) : (Res.crash : Res α).bind k = .crash := rfl
@[simp] theorem Res.bind_oof {α β : Type} (k : α → Res β) : (Res.outOfFuel : Res α).bind k = .outOfFuel := rfl

theorem Res.bind_eq_ok {α β : Type} {r : Res α} {k : α → Res β} {b : β} :
    r.bind k = .ok b ↔ ∃ a, r = .ok a ∧ k a = .ok b := by
  cases r <;> simp [Res.bind]

/-! ## more fuel refines: `Le a b` — `a` ran out of fuel, or `b` is the same answer -/

def Le {α : Type} (a b : Res α) : Prop := a = .outOfFuel ∨ a = b

theorem Le.refl {α : Type} (a : Res α) : Le a a := Or.inr rfl
theorem Le.oof {α : Type} (b : Res α) : Le .outOfFuel b := Or.inl rfl

theorem Le.bind {α β : Type} {p p' : Res α} {k k' : α → Res β}
    (h : Le p p') (hk : ∀ a, Le (k a) (k' a)) : Le (p.bind k) (p'.bind k') := by
  rcases h with h | h
  · subst h; exact Le.oof _
  · subst h
    cases p with
    | ok a => exact hk a
    | _ => exact Le.refl _

theorem Le.eq {α : Type} {a b r : Res α} (h : Le a b) (ha : a = r) (hr : r ≠ .outOfFuel) : b = r := by
  rcases h with h | h
  · exact absurd (ha ▸ h) hr
  · rw [← h, ha]

/-! ## eventually: `Ev p r` — for all sufficiently large fuel `p fuel = r` -/

def Ev {α : Type} (p : Nat → Res α) (r : Res α) : Prop := ∃ n, ∀ f, n ≤ f → p f = r

theorem Ev.const {α : Type} (r : Res α) : Ev (fun _ => r) r := ⟨0, fun _ _ => rfl⟩

theorem Ev.congr {α : Type} {p q : Nat → Res α} {r : Res α} (h : ∀ f, p f = q f) (hq : Ev q r) : Ev p r := by
  obtain ⟨n, hn⟩ := hq
  exact ⟨n, fun f hf => (h f).trans (hn f hf)⟩

/-- one unit of fuel for the call itself -/
theorem Ev.step {α : Type} {p q : Nat → Res α} {r : Res α} (h : ∀ f, p (f + 1) = q f) (hq : Ev q r) : Ev p r := by
  obtain ⟨n, hn⟩ := hq
  refine ⟨n + 1, fun f hf => ?_⟩
  obtain ⟨g, rfl⟩ : ∃ g, f = g + 1 := ⟨f - 1, by omega⟩
  rw [h g]; exact hn g (by omega)

theorem Ev.bind {α β : Type} {p : Nat → Res α} {k : Nat → α → Res β} {a : α} {r : Res β}
    (hp : Ev p (.ok a)) (hk : Ev (fun f => k f a) r) : Ev (fun f => (p f).bind (k f)) r := by
  obtain ⟨n, hn⟩ := hp
  obtain ⟨m, hm⟩ := hk
  refine ⟨max n m, fun f hf => ?_⟩
  show (p f).bind (k f) = r
  rw [hn f (by omega)]; exact hm f (by omega)

theorem Ev.unique {α : Type} {p : Nat → Res α} {r s : Res α} (h1 : Ev p r) (h2 : Ev p s) : r = s := by
  obtain ⟨n, hn⟩ := h1
  obtain ⟨m, hm⟩ := h2
  rw [← hn (max n m) (by omega), hm (max n m) (by omega)]

/-! ## reading tokens -/

@[simp] theorem cur_cons (t : Token) (ts : List Token) : cur (t :: ts) = tk t.kind := rfl
@[simp] theorem cur_nil : cur [] = .eof := rfl
@[simp] theorem hd_cons (t : Token) (ts : List Token) : hd (t :: ts) = t := rfl

theorem cur_ne_eof {ts : List Token} {k : TK} (h : cur ts = k) (hk : k ≠ .eof) :
    ∃ t tl, ts = t :: tl ∧ tk t.kind = k := by
  cases ts with
  | nil => exact absurd h.symm hk
  | cons t tl => exact ⟨t, tl, rfl, h⟩

theorem proj_of_tk {t : Token} {k : TK} (h : tk t.kind = k)
    (hk : k ≠ .ident ∧ k ≠ .param ∧ k ≠ .string ∧ k ≠ .bytes ∧ k ≠ .int ∧ k ≠ .float) : proj t = T k := by
  obtain ⟨h1, h2, h3, h4, h5, h6⟩ := hk
  subst h
  unfold proj T tokVal
  cases hh : tk t.kind <;> simp_all

/-! ## `Spells ts rest ys`: `ts` is `rest` preceded by tokens that read `ys` -/

def Spells (ts rest : List Token) (ys : List Tok') : Prop := ∃ pre, ts = pre ++ rest ∧ pre.map proj = ys

theorem Spells.nil (ts : List Token) : Spells ts ts [] := ⟨[], rfl, rfl⟩

theorem Spells.cons {t : Token} {ts rest : List Token} {y : Tok'} {ys : List Tok'}
    (h : proj t = y) (hs : Spells ts rest ys) : Spells (t :: ts) rest (y :: ys) := by
  obtain ⟨pre, rfl, rfl⟩ := hs
  exact ⟨t :: pre, rfl, by simp [h]⟩

theorem Spells.append {ts mid rest : List Token} {ys zs : List Tok'}
    (h1 : Spells ts mid ys) (h2 : Spells mid rest zs) : Spells ts rest (ys ++ zs) := by
  obtain ⟨p1, rfl, rfl⟩ := h1
  obtain ⟨p2, rfl, rfl⟩ := h2
  exact ⟨p1 ++ p2, by simp, by simp⟩

theorem Spells.one {t : Token} {ts : List Token} {y : Tok'} (h : proj t = y) : Spells (t :: ts) ts [y] :=
  Spells.cons h (Spells.nil ts)

/-- consume one token of a known class without value -/
theorem Spells.tok {ts : List Token} {k : TK} (h : cur ts = k) (hk : k ≠ .eof)
    (hv : k ≠ .ident ∧ k ≠ .param ∧ k ≠ .string ∧ k ≠ .bytes ∧ k ≠ .int ∧ k ≠ .float) :
    Spells ts ts.tail [T k] := by
  obtain ⟨t, tl, rfl, ht⟩ := cur_ne_eof h hk
  exact Spells.one (proj_of_tk ht hv)

theorem Spells.cast {ts rest : List Token} {ys zs : List Tok'} (h : Spells ts rest ys) (e : ys = zs) :
    Spells ts rest zs := e ▸ h

/-! ## paths, and the token classes of the type model (`MF.TypeP`) seen from here -/

/-- the identifier chain `. n₁ . n₂ …` -/
def dotToks : List Bytes → List Tok'
  | [] => []
  | n :: ns => T .dot :: ⟨.ident, n⟩ :: dotToks ns

theorem pathToks_eq (a : Bytes) (ns : List Bytes) : pathToks (a :: ns) = ⟨.ident, a⟩ :: dotToks ns := by
  induction ns generalizing a with
  | nil => rfl
  | cons b ns ih => simp [pathToks, dotToks, ih b]

theorem symTK_of_find {s : Bytes} {c : TK} (h : symTK s = c) (hc : c ≠ .other) :
    ∃ p ∈ symTable, B p.1 = s ∧ p.2 = c := by
  unfold symTK at h
  cases hf : symTable.find? (fun p => B p.1 == s) with
  | none => rw [hf] at h; exact absurd h.symm hc
  | some p =>
    rw [hf] at h
    exact ⟨p, List.mem_of_find?_eq_some hf, by simpa using List.find?_some hf, h⟩

theorem tk_dot {k : TokKind} : tk k = .dot ↔ k = K "." := by
  constructor
  · intro h
    cases k with
    | sym s =>
      obtain ⟨p, hp, hs, hc⟩ := symTK_of_find (show symTK s = .dot from h) (by decide)
      have : ∀ p ∈ symTable, p.2 = TK.dot → p.1 = "." := by decide
      rw [← hs, this p hp hc]; rfl
    | _ => simp [tk] at h
  · rintro rfl; decide

theorem ttk_dot {k : TokKind} : TypeP.tk k = .dot ↔ k = K "." := by
  constructor
  · intro h
    cases k with
    | sym s =>
      simp only [TypeP.tk, TypeP.symTK] at h
      cases hf : TypeP.symTable.find? (fun p => B p.1 == s) with
      | none => rw [hf] at h; cases h
      | some p =>
        rw [hf] at h
        have hm := List.mem_of_find?_eq_some hf
        have hs : B p.1 = s := by simpa using List.find?_some hf
        have : ∀ p ∈ TypeP.symTable, p.2 = TypeP.TK.dot → p.1 = "." := by decide
        rw [← hs, this p hm h]; rfl
    | _ => simp [TypeP.tk] at h
  · rintro rfl; decide

theorem tk_ident' {k : TokKind} : tk k = .ident ↔ k = .ident := by
  constructor
  · intro h
    cases k with
    | sym s =>
      obtain ⟨p, hp, _, hc⟩ := symTK_of_find (show symTK s = .ident from h) (by decide)
      have : ∀ p ∈ symTable, p.2 ≠ TK.ident := by decide
      exact absurd hc (this p hp)
    | _ => first | rfl | simp [tk] at h
  · rintro rfl; rfl

/-- the two models read the same token as an identifier / as `.` -/
theorem tcur_ident {ts : List Token} : TypeP.cur ts = .ident ↔ cur ts = .ident := by
  cases ts with
  | nil => simp [TypeP.cur, cur]
  | cons t ts => simp only [TypeP.cur, cur, TypeP.tk_ident, tk_ident']

theorem tcur_dot {ts : List Token} : TypeP.cur ts = .dot ↔ cur ts = .dot := by
  cases ts with
  | nil => simp [TypeP.cur, cur]
  | cons t ts => simp only [TypeP.cur, cur, ttk_dot, tk_dot]

/-- `simpleName?` of the type model reads the identifier VALUE -/
theorem simpleName?_eq {t : Token} (h : t.kind = .ident) : TypeP.simpleName? t = simpleNameOf t.asString := by
  simp [TypeP.simpleName?, simpleNameOf, Token.isIdent, h]

/-- the type of a CAST, unfolded: an identifier that is not a scalar type name, then the loop of `parseIdentOrPath` -/
theorem castType_succ {f : Nat} {t : Token} {ts : List Token} (hk : t.kind = .ident)
    (hs : TypeP.lookaheadSimpleType (t :: ts) = false) :
    castType (f + 1) (t :: ts) =
      match TypeP.pathLoop f ts with
      | .ok (ids, rest) => .ok (t.asString :: ids.map (·.name), rest)
      | .raise => .raise
      | .outOfFuel => .outOfFuel := by
  have hc : TypeP.cur (t :: ts) = .ident := by simp [TypeP.cur, TypeP.tk_ident, hk]
  simp only [castType, hc, hs, Bool.false_eq_true, if_false, TypeP.parseType, Bool.not_false, if_true,
    TypeP.parseNamedType, TypeP.parseIdentOrPath, TypeP.parseIdent, TypeP.expect, TypeP.hd, List.headD_cons,
    List.tail_cons, TypeP.Res.bind]
  cases TypeP.pathLoop f ts with
  | ok a => obtain ⟨ids, rest⟩ := a; simp [TypeP.Res.bind]
  | raise => rfl
  | outOfFuel => rfl

theorem castType_zero (ts : List Token) (hc : TypeP.cur ts = .ident) (hs : TypeP.lookaheadSimpleType ts = false) :
    castType 0 ts = .outOfFuel := by
  simp [castType, hc, hs, TypeP.parseType]

/-- whatever else `castType` sees, it does not succeed -/
theorem castType_ok_inv {f : Nat} {ts : List Token} {ns : List Bytes} {rest : List Token}
    (h : castType f ts = .ok (ns, rest)) :
    ∃ t tl, ts = t :: tl ∧ t.kind = .ident ∧ TypeP.lookaheadSimpleType ts = false := by
  unfold castType at h
  split at h
  · rename_i hc
    obtain ⟨t, tl, rfl, ht⟩ := TypeP.cur_ne_eof hc (by decide)
    split at h
    · cases h
    · rename_i hs
      exact ⟨t, tl, rfl, TypeP.tk_ident.1 ht, by simpa using hs⟩
  · cases h
  · cases h
  · cases h

/-! ## no yield starts like a call (identifier directly followed by `(`)

Calls are outside the fragment: in a yield an identifier is followed by `(` only inside `[ OFFSET ( … ) ]`, behind the
`[`.  This is what makes the repaired `parseIndexSpecifier` (position keyword only when the next token is `(`) read
every plain subscript as a plain subscript, without any side condition on the tree. -/

theorem startsCall_append {A : List Tok'} {b : Tok'} (B : List Tok') (hA : startsCall A = false)
    (h1 : b.k ≠ .ident) (h2 : b.k ≠ .lparen) : startsCall (A ++ b :: B) = false := by
  match A, hA with
  | [], _ =>
    cases B <;> simp [startsCall, h1]
  | [a], _ => simp [startsCall, h2]
  | a :: c :: tl, hA => simpa [startsCall] using hA

theorem startsCall_cons {a : Tok'} (L : List Tok') (h : a.k ≠ .ident) : startsCall (a :: L) = false := by
  cases L <;> simp [startsCall, h]

theorem startsCall_pathToks (ns : List Bytes) : startsCall (pathToks ns) = false := by
  match ns with
  | [] => rfl
  | [_] => rfl
  | _ :: _ :: _ => rfl

theorem BOp.toks_eq (op : BOp) : ∃ b B, op.toks = b :: B ∧ b.k ≠ .ident ∧ b.k ≠ .lparen := by
  cases op <;> exact ⟨_, _, rfl, by decide, by decide⟩

theorem notToks_cons (not : Bool) (b : Tok') (B : List Tok') (h1 : b.k ≠ .ident) (h2 : b.k ≠ .lparen) :
    ∃ c C, notToks not ++ b :: B = c :: C ∧ c.k ≠ .ident ∧ c.k ≠ .lparen := by
  cases not
  · exact ⟨b, B, rfl, h1, h2⟩
  · exact ⟨T .not_, b :: B, rfl, by decide, by decide⟩

/-- the yield of an expression never starts with an identifier directly followed by `(` -/
theorem yield_not_call : (e : Expr) → startsCall (yield e) = false
  | .null | .str _ | .bytes _ | .param _ | .ident _ => rfl
  | .bool b => by cases b <;> rfl
  | .int s raw => by cases s <;> simp [yield, signToks, startsCall, T]
  | .float s raw => by cases s <;> simp [yield, signToks, startsCall, T]
  | .path ns => startsCall_pathToks ns
  | .paren e => startsCall_cons _ (by decide)
  | .unary op e => by cases op <;> exact startsCall_cons _ (by decide)
  | .bin op l r => by
    obtain ⟨b, B, hb, h1, h2⟩ := op.toks_eq
    simp only [yield, hb, List.cons_append]
    exact startsCall_append _ (yield_not_call l) h1 h2
  | .isNull e not => startsCall_append _ (yield_not_call e) (by decide) (by decide)
  | .isBool e not r => startsCall_append _ (yield_not_call e) (by decide) (by decide)
  | .between not e lo hi => by
    obtain ⟨c, C, hc, h1, h2⟩ := notToks_cons not (T .between) (yield lo ++ (T .and_ :: yield hi)) (by decide) (by decide)
    simp only [yield, hc]
    exact startsCall_append _ (yield_not_call e) h1 h2
  | .inList not e first more => by
    obtain ⟨c, C, hc, h1, h2⟩ := notToks_cons not (T .in_) (T .lparen :: (yield first ++ (yields more ++ [T .rparen])))
      (by decide) (by decide)
    simp only [yield, hc]
    exact startsCall_append _ (yield_not_call e) h1 h2
  | .inUnnest not e a => by
    obtain ⟨c, C, hc, h1, h2⟩ := notToks_cons not (T .in_) (T .unnest :: T .lparen :: (yield a ++ [T .rparen]))
      (by decide) (by decide)
    simp only [yield, hc]
    exact startsCall_append _ (yield_not_call e) h1 h2
  | .sel e n => startsCall_append _ (yield_not_call e) (by decide) (by decide)
  | .index e none i => startsCall_append _ (yield_not_call e) (by decide) (by decide)
  | .index e (some (_, sp)) i => startsCall_append _ (yield_not_call e) (by decide) (by decide)
  | .caseE .. => startsCall_cons _ (by decide)
  | .ifE .. => startsCall_cons _ (by decide)
  | .array .nil => rfl
  | .array (.cons _ _) => startsCall_cons _ (by decide)
  | .cast .. => startsCall_cons _ (by decide)

/-- in tokens that read a yield (followed by anything that is not `(`), the token after a leading identifier is
not `(`: the look-ahead of `parseIndexSpecifier` answers "no keyword" on every plain subscript -/
theorem not_call_of_yield {pre rest : List Token} {e : Expr} (hr : pre.map proj = yield e) (hne : pre ≠ [])
    (hrest : cur rest ≠ .lparen) (hc : cur (pre ++ rest) = .ident) : cur (pre ++ rest).tail ≠ .lparen := by
  have h := yield_not_call e
  rw [← hr] at h
  match pre, hne, h with
  | [t], _, _ => simpa using hrest
  | t :: u :: tl, _, h =>
    simp only [List.cons_append, cur_cons, List.tail_cons] at hc ⊢
    intro hu
    simp [startsCall, proj, hc, hu] at h

end MF.Expr
