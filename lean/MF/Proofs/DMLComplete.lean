/-
  MF.Proofs.DMLComplete — completeness of the DML model w.r.t. G_DML: every derivation (with its tree) is what the
  model builds from the derived token list, for all sufficiently large fuel (`Ev`).  The expression slots go through
  `MF.Props.C07.parse_complete` as a black box; its hypothesis "no unquoted SAFE_CAST / REPLACE_FIELDS identifier among
  the tokens" is `NoCast` here.
-/
import MF.Proofs.DMLSound
namespace MF.DML
open MF MF.Expr

/-- no token reads as the pseudo keywords on which `parseLit` leaves the fragment M1 -/
def NoCast (pre : List Token) : Prop := ∀ t ∈ pre, isCastLike t = false

theorem NoCast.left {a b : List Token} (h : NoCast (a ++ b)) : NoCast a := fun t ht => h t (List.mem_append_left _ ht)
theorem NoCast.right {a b : List Token} (h : NoCast (a ++ b)) : NoCast b := fun t ht => h t (List.mem_append_right _ ht)
theorem NoCast.tail {a : Token} {b : List Token} (h : NoCast (a :: b)) : NoCast b := fun t ht => h t (List.mem_cons_of_mem _ ht)

/-! ## kinds -/

theorem tk_into : tk (K "INTO") = .other := by decide
theorem tk_from : tk (K "FROM") = .other := by decide
theorem tk_where : tk (K "WHERE") = .other := by decide
theorem tk_set : tk (K "SET") = .other := by decide
theorem tk_default : tk (K "DEFAULT") = .other := by decide
theorem tk_at : tk (K "@") = .other := by decide

theorem follow_of_none {t : Token} {x : List Token} (h : contLevel (tk t.kind) = none) : Follow (t :: x) := by
  simp [Follow, noCont, h]

theorem kind_ne_of_tk {t : Token} {k : TK} {s : String} (h : tk t.kind = k) (hs : tk (K s) ≠ k) : t.kind ≠ K s := by
  intro he; rw [he] at h; exact hs h

theorem not_hint_of_tk {t : Token} {x : List Token} {k : TK} (h : tk t.kind = k) (hk : k ≠ .other) :
    hintAhead (t :: x) = false := by
  have : t.kind ≠ K "@" := kind_ne_of_tk h (by rw [tk_at]; exact fun e => hk e.symm)
  simp [hintAhead, kd, this]

theorem not_hint_of_kind {t : Token} {x : List Token} {s : String} (h : t.kind = K s) (hs : K s ≠ K "@") :
    hintAhead (t :: x) = false := by
  simp [hintAhead, kd, h, hs]

/-! ## first tokens -/

theorem PathD.head {ids : List PIdent} {p : List Token} (h : PathD ids p) : ∃ t tl, p = t :: tl ∧ tk t.kind = .ident := by
  cases h with
  | mk ht _ => exact ⟨_, _, rfl, ht⟩

theorem IdListD.head {ids : List PIdent} {p : List Token} (h : IdListD ids p) :
    ∃ t tl, p = t :: tl ∧ tk t.kind = .ident := by
  cases h with
  | one ht => exact ⟨_, _, rfl, ht⟩
  | cons ht _ _ => exact ⟨_, _, rfl, ht⟩

theorem ColsD.head {ids : List PIdent} {p : List Token} (h : ColsD ids p) : ∃ t tl, p = t :: tl ∧ tk t.kind = .lparen := by
  cases h with
  | empty hl _ => exact ⟨_, _, rfl, hl⟩
  | list hl _ _ => exact ⟨_, _, rfl, hl⟩

theorem RowD.head {r : ValuesRow Expr} {p : List Token} (h : RowD r p) : ∃ t tl, p = t :: tl ∧ tk t.kind = .lparen := by
  cases h with
  | empty hl _ => exact ⟨_, _, rfl, hl⟩
  | list hl _ _ => exact ⟨_, _, rfl, hl⟩

/-- the first token of an expression slot can start an expression: it is not `)`, `,`, `<eof>`, nor a reserved word
outside the expression vocabulary (black box: `hk_yield_start`) -/
theorem ExprD.start {e : Expr} {pre : List Token} (h : ExprD e pre) :
    ∃ t tl, pre = t :: tl ∧ startTK (tk t.kind) = true := by
  have hs := hk_yield_start e h.2.1
  rw [← h.2.2] at hs
  cases pre with
  | nil => simp [hk, startTK] at hs
  | cons t tl => exact ⟨t, tl, rfl, hs⟩

theorem ExprD.ne {e : Expr} {pre : List Token} (h : ExprD e pre) : pre ≠ [] := by
  obtain ⟨t, tl, rfl, _⟩ := h.start; simp

theorem startTK_other {t : Token} (h : startTK (tk t.kind) = true) {s : String} (hs : tk (K s) = .other) : t.kind ≠ K s := by
  intro he; rw [he, hs] at h; cases h

/-- the first token of a `default`: DEFAULT or the start of an expression -/
theorem DefaultD.start {d : DefaultExpr Expr} {pre : List Token} (h : DefaultD d pre) :
    ∃ t tl, pre = t :: tl ∧ (t.kind = K "DEFAULT" ∨ startTK (tk t.kind) = true) := by
  cases h with
  | dflt hk => exact ⟨_, _, rfl, .inl hk⟩
  | expr he => obtain ⟨t, tl, rfl, ht⟩ := he.start; exact ⟨t, tl, rfl, .inr ht⟩

theorem DefaultD.ne {d : DefaultExpr Expr} {pre : List Token} (h : DefaultD d pre) : pre ≠ [] := by
  obtain ⟨t, tl, rfl, _⟩ := h.start; simp

theorem start_cur {t : Token} (h : t.kind = K "DEFAULT" ∨ startTK (tk t.kind) = true) :
    tk t.kind ≠ .eof ∧ tk t.kind ≠ .rparen := by
  rcases h with h | h
  · rw [h, tk_default]; exact ⟨by decide, by decide⟩
  · constructor <;> (intro he; rw [he] at h; cases h)

theorem EntriesD.start {ds : List (DefaultExpr Expr)} {p : List Token} (h : EntriesD ds p) :
    ∃ t tl, p = t :: tl ∧ tk t.kind ≠ .eof ∧ tk t.kind ≠ .rparen := by
  cases h with
  | one hd => obtain ⟨t, tl, rfl, ht⟩ := hd.start; exact ⟨t, tl, rfl, start_cur ht⟩
  | cons hd _ _ => obtain ⟨t, tl, rfl, ht⟩ := hd.start; exact ⟨t, _, rfl, start_cur ht⟩

/-! ## identifier-only productions -/

theorem parsePIdent_cons {t : Token} {x : List Token} (h : tk t.kind = .ident) :
    parsePIdent (t :: x) = .ok (identOf t, x) := by
  simp [parsePIdent, h]

theorem pathLoop_stop : ∀ (rest : List Token), cur rest ≠ .dot → pathLoop rest = .ok ([], rest)
  | [], _ => by simp [pathLoop]
  | [t], h => by
    have : tk t.kind ≠ .dot := h
    simp [pathLoop, this]
  | t :: u :: r, h => by
    have : tk t.kind ≠ .dot := h
    rw [pathLoop, if_neg this]

theorem pathLoop_complete {ids : List PIdent} {pre : List Token} (h : PathTailD ids pre) {rest : List Token}
    (hr : cur rest ≠ .dot) : pathLoop (pre ++ rest) = .ok (ids, rest) := by
  induction h with
  | nil => exact pathLoop_stop rest hr
  | cons hd ht _ ih =>
    rw [List.cons_append, List.cons_append, pathLoop, if_pos hd, if_pos ht, ih]
    rfl

theorem parseIdentOrPath_complete {ids : List PIdent} {pre : List Token} (h : PathD ids pre) {rest : List Token}
    (hr : cur rest ≠ .dot) : parseIdentOrPath (pre ++ rest) = .ok (ids, rest) := by
  cases h with
  | mk ht htl =>
    rw [List.cons_append, parseIdentOrPath, parsePIdent_cons ht]
    simp only [Res.bind_ok]
    rw [pathLoop_complete htl hr]
    rfl

theorem colLoop_complete {ids : List PIdent} {pre : List Token} (h : IdListD ids pre) {rest : List Token}
    (hr : cur rest ≠ .comma) : colLoop (pre ++ rest) = .ok (ids, rest) := by
  induction h with
  | one ht =>
    cases rest with
    | nil => simp [colLoop, ht]
    | cons c r =>
      have : tk c.kind ≠ .comma := hr
      simp only [List.cons_append, List.nil_append]
      rw [colLoop, if_pos ht, if_neg this]
  | cons ht hc _ ih =>
    rw [List.cons_append, List.cons_append, colLoop, if_pos ht, if_pos hc, ih]
    rfl

theorem parseColumns_complete {ids : List PIdent} {pre : List Token} (h : ColsD ids pre) (rest : List Token) :
    parseColumns (pre ++ rest) = .ok (ids, rest) := by
  cases h with
  | empty hl hr =>
    simp [parseColumns, hl, hr]
  | @list l r ids ts hl hd hr =>
    obtain ⟨t, tl, rfl, ht⟩ := hd.head
    have h1 : colLoop ((t :: tl) ++ (r :: rest)) = .ok (ids, r :: rest) := colLoop_complete hd (by simp [hr])
    simp only [List.cons_append, List.append_assoc, List.nil_append] at h1 ⊢
    simp [parseColumns, hl, ht, h1, hr]

theorem tryParseAsAlias_complete {a : Option AsAlias} {pre : List Token} (h : AliasD a pre) {rest : List Token}
    (h1 : cur rest ≠ .as_) (h2 : cur rest ≠ .ident) : tryParseAsAlias (pre ++ rest) = .ok (a, rest) := by
  cases h with
  | none => simp [tryParseAsAlias, h1, h2]
  | as_ ha ht => simp [tryParseAsAlias, ha, parsePIdent_cons ht]
  | bare ht => simp [tryParseAsAlias, ht]

theorem parseInsertOr_complete {o : InsertOrType} {pre : List Token} (h : OrD o pre) {rest : List Token}
    (h1 : cur rest ≠ .or_) : parseInsertOr (pre ++ rest) = .ok (o, rest) := by
  cases h with
  | none => simp [parseInsertOr, h1]
  | update ho hu => simp [parseInsertOr, ho, kwLike, hu]
  | @ignore o u ho hu =>
    have : u.isKeywordLike (B "UPDATE") = false := by
      simp [Token.isKeywordLike, hu, K]
    simp [parseInsertOr, ho, kwLike, this, kd, hu]

theorem opt_complete {s : String} {pre : List Token} (h : OptD s pre) {rest : List Token} (hr : kd rest ≠ K s) :
    (if kd (pre ++ rest) = K s then (pre ++ rest).tail else pre ++ rest) = rest := by
  cases h with
  | none => simp [hr]
  | some ht => simp [kd, ht]

/-! ## productions with expression slots -/

theorem expr_complete {e : Expr} {pre : List Token} (h : ExprD e pre) (hc : NoCast pre) {rest : List Token}
    (hf : Follow rest) : Ev (fun f => parseExpr f (pre ++ rest)) (.ok (e, rest)) :=
  MF.Props.C07.parse_complete h.1 h.2.1 h.2.2 hc hf

theorem default_complete {d : DefaultExpr Expr} {pre : List Token} (h : DefaultD d pre) (hc : NoCast pre)
    {rest : List Token} (hf : Follow rest) :
    Ev (fun f => parseDefaultExpr parseExpr f (pre ++ rest)) (.ok (d, rest)) := by
  cases h with
  | dflt ht => exact ⟨0, fun f _ => by simp [parseDefaultExpr, kd, ht]⟩
  | expr he =>
    obtain ⟨n, hn⟩ := expr_complete he hc hf
    refine ⟨n, fun f hf => ?_⟩
    obtain ⟨t, tl, rfl, ht⟩ := he.start
    have : t.kind ≠ K "DEFAULT" := startTK_other ht tk_default
    have hn' := hn f hf
    simp only [List.cons_append] at hn'
    simp [parseDefaultExpr, kd, this, hn']

theorem follow_comma {c : Token} {x : List Token} (h : tk c.kind = .comma) : Follow (c :: x) :=
  follow_of_none (by rw [h]; rfl)
theorem follow_rparen {c : Token} {x : List Token} (h : tk c.kind = .rparen) : Follow (c :: x) :=
  follow_of_none (by rw [h]; rfl)
theorem follow_kind {c : Token} {x : List Token} {s : String} (h : c.kind = K s) (hs : tk (K s) = .other) :
    Follow (c :: x) :=
  follow_of_none (by rw [h, hs]; rfl)

theorem rowLoop_complete {ds : List (DefaultExpr Expr)} {pre : List Token} (h : EntriesD ds pre) :
    NoCast pre → ∀ {rest : List Token}, cur rest ≠ .comma → Follow rest →
    Ev (fun f => rowLoop parseExpr f (pre ++ rest)) (.ok (ds, rest)) := by
  induction h with
  | @one d ts hd =>
    intro hc rest hr hf
    obtain ⟨n, hn⟩ := default_complete hd hc hf
    refine ⟨n + 1, fun f hf => ?_⟩
    obtain ⟨g, rfl⟩ : ∃ g, f = g + 1 := ⟨f - 1, by omega⟩
    have h0 : cur (ts ++ rest) ≠ .eof := by
      obtain ⟨t, tl, rfl, ht⟩ := hd.start; exact (start_cur ht).1
    have hn' : parseDefaultExpr parseExpr g (ts ++ rest) = .ok (d, rest) := hn g (by omega)
    show rowLoop parseExpr (g + 1) (ts ++ rest) = _
    rw [rowLoop.eq_2, if_neg h0, hn']
    simp [hr]
  | @cons d ts c ds us hd hck _ ih =>
    intro hc rest hr hf
    have hc1 : NoCast ts := hc.left
    have hc2 : NoCast us := (NoCast.right hc).tail
    obtain ⟨n, hn⟩ := default_complete hd hc1 (follow_comma (x := us ++ rest) hck)
    obtain ⟨m, hm⟩ := ih hc2 hr hf
    refine ⟨max n m + 1, fun f hf => ?_⟩
    obtain ⟨g, rfl⟩ : ∃ g, f = g + 1 := ⟨f - 1, by omega⟩
    have h0 : cur (ts ++ (c :: (us ++ rest))) ≠ .eof := by
      obtain ⟨t, tl, rfl, ht⟩ := hd.start; exact (start_cur ht).1
    have e : (ts ++ c :: us) ++ rest = ts ++ (c :: (us ++ rest)) := by simp
    have hn' : parseDefaultExpr parseExpr g (ts ++ (c :: (us ++ rest))) = .ok (d, c :: (us ++ rest)) := hn g (by omega)
    have hm' : rowLoop parseExpr g (us ++ rest) = .ok (ds, rest) := hm g (by omega)
    show rowLoop parseExpr (g + 1) ((ts ++ c :: us) ++ rest) = _
    rw [e, rowLoop.eq_2, if_neg h0, hn']
    simp [hck, hm']

theorem parseValuesRow_complete {r : ValuesRow Expr} {pre : List Token} (h : RowD r pre) (hc : NoCast pre)
    (rest : List Token) : Ev (fun f => parseValuesRow parseExpr f (pre ++ rest)) (.ok (r, rest)) := by
  cases h with
  | empty hl hr => exact ⟨0, fun f _ => by simp [parseValuesRow, hl, hr]⟩
  | @list l rp ds ts hl hd hr =>
    have hc1 : NoCast ts := (NoCast.left (NoCast.tail hc))
    obtain ⟨n, hn⟩ := rowLoop_complete hd hc1 (rest := rp :: rest) (by simp [hr]) (follow_rparen hr)
    refine ⟨n, fun f hf => ?_⟩
    have h3 : cur (ts ++ (rp :: rest)) ≠ .rparen := by
      obtain ⟨t, tl, rfl, ht⟩ := hd.start; exact ht.2
    have e : (l :: ts ++ [rp]) ++ rest = l :: (ts ++ (rp :: rest)) := by simp
    rw [e]
    simp [parseValuesRow, hl, h3, hn f hf, hr]

theorem rowsLoop_complete {rs : List (ValuesRow Expr)} {pre : List Token} (h : RowsD rs pre) :
    NoCast pre → ∀ {rest : List Token}, cur rest ≠ .comma →
    Ev (fun f => rowsLoop parseExpr f (pre ++ rest)) (.ok (rs, rest)) := by
  induction h with
  | @one r ts hd =>
    intro hc rest hr
    obtain ⟨n, hn⟩ := parseValuesRow_complete hd hc rest
    refine ⟨n + 1, fun f hf => ?_⟩
    obtain ⟨g, rfl⟩ : ∃ g, f = g + 1 := ⟨f - 1, by omega⟩
    have hn' : parseValuesRow parseExpr g (ts ++ rest) = .ok (r, rest) := hn g (by omega)
    show rowsLoop parseExpr (g + 1) (ts ++ rest) = _
    rw [rowsLoop.eq_2, hn']
    simp [hr]
  | @cons r ts c rs us hd hck _ ih =>
    intro hc rest hr
    obtain ⟨n, hn⟩ := parseValuesRow_complete hd hc.left (c :: (us ++ rest))
    obtain ⟨m, hm⟩ := ih (NoCast.right hc).tail hr
    refine ⟨max n m + 1, fun f hf => ?_⟩
    obtain ⟨g, rfl⟩ : ∃ g, f = g + 1 := ⟨f - 1, by omega⟩
    have hn' : parseValuesRow parseExpr g (ts ++ (c :: (us ++ rest))) = .ok (r, c :: (us ++ rest)) := hn g (by omega)
    have hm' : rowsLoop parseExpr g (us ++ rest) = .ok (rs, rest) := hm g (by omega)
    have e : (ts ++ c :: us) ++ rest = ts ++ (c :: (us ++ rest)) := by simp
    show rowsLoop parseExpr (g + 1) ((ts ++ c :: us) ++ rest) = _
    rw [e, rowsLoop.eq_2, hn']
    simp [hck, hm']

theorem parseValuesInput_complete {v : Token} (hv : v.isKeywordLike (B "VALUES") = true) {rs : List (ValuesRow Expr)}
    {r : List Token} (h : RowsD rs r) (hc : NoCast r) {rest : List Token} (hr : cur rest ≠ .comma) :
    Ev (fun f => parseValuesInput parseExpr f (v :: (r ++ rest))) (.ok (⟨v.pos, rs⟩, rest)) := by
  obtain ⟨n, hn⟩ := rowsLoop_complete h hc hr
  refine ⟨n, fun f hf => ?_⟩
  have hn' : rowsLoop parseExpr f (r ++ rest) = .ok (rs, rest) := hn f hf
  simp [parseValuesInput, kwLike, hv, hn']

theorem parseWhere_complete {w : Where Expr} {pre : List Token} (h : WhereD w pre) (hc : NoCast pre)
    {rest : List Token} (hf : Follow rest) : Ev (fun f => parseWhere parseExpr f (pre ++ rest)) (.ok (w, rest)) := by
  cases h with
  | @mk t e pre ht he =>
    obtain ⟨n, hn⟩ := expr_complete he hc.tail hf
    refine ⟨n, fun f hf => ?_⟩
    have hn' : parseExpr f (pre ++ rest) = .ok (e, rest) := hn f hf
    simp [parseWhere, kd, ht, hn']

theorem parseUpdateItem_complete {u : UpdateItem Expr} {pre : List Token} (h : ItemD u pre) (hc : NoCast pre)
    {rest : List Token} (hf : Follow rest) :
    Ev (fun f => parseUpdateItem parseExpr f (pre ++ rest)) (.ok (u, rest)) := by
  cases h with
  | @mk p ps e d ds hp hek hd =>
    obtain ⟨n, hn⟩ := default_complete hd (NoCast.right hc).tail hf
    refine ⟨n, fun f hf => ?_⟩
    have hn' : parseDefaultExpr parseExpr f (ds ++ rest) = .ok (d, rest) := hn f hf
    have hp' : parseIdentOrPath (ps ++ (e :: (ds ++ rest))) = .ok (p, e :: (ds ++ rest)) :=
      parseIdentOrPath_complete hp (by simp [hek])
    have e1 : (ps ++ e :: ds) ++ rest = ps ++ (e :: (ds ++ rest)) := by simp
    show parseUpdateItem parseExpr f ((ps ++ e :: ds) ++ rest) = _
    rw [e1, parseUpdateItem, hp']
    simp [hek, hn']

theorem itemsLoop_complete {us : List (UpdateItem Expr)} {pre : List Token} (h : ItemsD us pre) :
    NoCast pre → ∀ {rest : List Token}, cur rest ≠ .comma → Follow rest →
    Ev (fun f => itemsLoop parseExpr f (pre ++ rest)) (.ok (us, rest)) := by
  induction h with
  | @one u ts hd =>
    intro hc rest hr hf
    obtain ⟨n, hn⟩ := parseUpdateItem_complete hd hc hf
    refine ⟨n + 1, fun f hf => ?_⟩
    obtain ⟨g, rfl⟩ : ∃ g, f = g + 1 := ⟨f - 1, by omega⟩
    have hn' : parseUpdateItem parseExpr g (ts ++ rest) = .ok (u, rest) := hn g (by omega)
    show itemsLoop parseExpr (g + 1) (ts ++ rest) = _
    rw [itemsLoop.eq_2, hn']
    simp [hr]
  | @cons u ts c us vs hd hck _ ih =>
    intro hc rest hr hf
    obtain ⟨n, hn⟩ := parseUpdateItem_complete hd hc.left (follow_comma (x := vs ++ rest) hck)
    obtain ⟨m, hm⟩ := ih (NoCast.right hc).tail hr hf
    refine ⟨max n m + 1, fun f hf => ?_⟩
    obtain ⟨g, rfl⟩ : ∃ g, f = g + 1 := ⟨f - 1, by omega⟩
    have hn' : parseUpdateItem parseExpr g (ts ++ (c :: (vs ++ rest))) = .ok (u, c :: (vs ++ rest)) := hn g (by omega)
    have hm' : itemsLoop parseExpr g (vs ++ rest) = .ok (us, rest) := hm g (by omega)
    have e : (ts ++ c :: vs) ++ rest = ts ++ (c :: (vs ++ rest)) := by simp
    show itemsLoop parseExpr (g + 1) ((ts ++ c :: vs) ++ rest) = _
    rw [e, itemsLoop.eq_2, hn']
    simp [hck, hm']

theorem thenReturn_complete {rest : List Token} (h : cur rest ≠ .then_) : thenReturn rest = .ok () := by
  simp [thenReturn, h]

/-! ## the statements -/

/-- an optional alias followed by a reserved word (WHERE, SET) -/
theorem alias_next {al : Option AsAlias} {a : List Token} (h : AliasD al a) {t : Token} {x : List Token} {s : String}
    (ht : t.kind = K s) (hs : tk (K s) = .other) (hs2 : K s ≠ K "@") :
    cur (a ++ t :: x) ≠ .dot ∧ hintAhead (a ++ t :: x) = false ∧ tryParseAsAlias (a ++ t :: x) = .ok (al, t :: x) := by
  have hcur : cur (t :: x) = .other := by simp [ht, hs]
  have h3 := tryParseAsAlias_complete h (rest := t :: x) (by rw [hcur]; decide) (by rw [hcur]; decide)
  refine ⟨?_, ?_, h3⟩
  · cases h with
    | none => simp [ht, hs]
    | as_ ha _ => simp [ha]
    | bare hi => simp [hi]
  · cases h with
    | none => exact not_hint_of_kind ht hs2
    | as_ ha _ => exact not_hint_of_tk ha (by decide)
    | bare hi => exact not_hint_of_tk hi (by decide)

theorem WhereD.head {w : Where Expr} {p : List Token} (h : WhereD w p) : ∃ t tl, p = t :: tl ∧ t.kind = K "WHERE" := by
  cases h with
  | mk ht _ => exact ⟨_, _, rfl, ht⟩

theorem parseDelete_complete {f p a w : List Token} {tbl : List PIdent} {al : Option AsAlias} {wh : Where Expr}
    (hf : OptD "FROM" f) (hp : PathD tbl p) (ha : AliasD al a) (hw : WhereD wh w) (hc : NoCast w) (pos : Nat)
    {rest : List Token} (hr : StmtFollow rest) :
    Ev (fun fu => parseDelete parseExpr fu pos ((f ++ (p ++ (a ++ w))) ++ rest)) (.ok (.delete pos tbl al wh, rest)) := by
  obtain ⟨n, hn⟩ := parseWhere_complete hw hc hr.1
  refine ⟨n, fun fu hfu => ?_⟩
  have hn' : parseWhere parseExpr fu (w ++ rest) = .ok (wh, rest) := hn fu hfu
  obtain ⟨wt, wtl, hwe, hwk⟩ := hw.head
  obtain ⟨pt, ptl, hpe, hpk⟩ := hp.head
  have e : (f ++ (p ++ (a ++ w))) ++ rest = f ++ (p ++ (a ++ (w ++ rest))) := by simp
  have h1 : (if kd (f ++ (p ++ (a ++ (w ++ rest)))) = K "FROM" then (f ++ (p ++ (a ++ (w ++ rest)))).tail
      else f ++ (p ++ (a ++ (w ++ rest)))) = p ++ (a ++ (w ++ rest)) :=
    opt_complete hf (by rw [hpe]; exact kind_ne_of_tk hpk (by rw [tk_from]; decide))
  have hx : w ++ rest = wt :: (wtl ++ rest) := by rw [hwe]; rfl
  obtain ⟨h2, h3, h4⟩ := alias_next ha (t := wt) (x := wtl ++ rest) hwk tk_where (by decide)
  rw [← hx] at h2 h3 h4
  have h5 := parseIdentOrPath_complete hp h2
  show parseDelete parseExpr fu pos ((f ++ (p ++ (a ++ w))) ++ rest) = _
  rw [e]
  unfold parseDelete
  simp only [h1, h5, Res.bind_ok, h3, h4, hn', thenReturn_complete hr.2.2]
  simp

theorem parseUpdate_complete {s : Token} {p a u w : List Token} {tbl : List PIdent} {al : Option AsAlias}
    {us : List (UpdateItem Expr)} {wh : Where Expr}
    (hp : PathD tbl p) (ha : AliasD al a) (hs : s.kind = K "SET") (hu : ItemsD us u) (hw : WhereD wh w)
    (hcu : NoCast u) (hc : NoCast w) (pos : Nat) {rest : List Token} (hr : StmtFollow rest) :
    Ev (fun fu => parseUpdate parseExpr fu pos ((p ++ (a ++ s :: (u ++ w))) ++ rest)) (.ok (.update pos tbl al us wh, rest)) := by
  obtain ⟨wt, wtl, hwe, hwk⟩ := hw.head
  have hfw : Follow (w ++ rest) := by rw [hwe]; exact follow_kind hwk tk_where
  have hcw : cur (w ++ rest) ≠ .comma := by rw [hwe]; simp [hwk, tk_where]
  obtain ⟨n, hn⟩ := parseWhere_complete hw hc hr.1
  obtain ⟨m, hm⟩ := itemsLoop_complete hu hcu hcw hfw
  refine ⟨max n m, fun fu hfu => ?_⟩
  have hn' : parseWhere parseExpr fu (w ++ rest) = .ok (wh, rest) := hn fu (by omega)
  have hm' : itemsLoop parseExpr fu (u ++ (w ++ rest)) = .ok (us, w ++ rest) := hm fu (by omega)
  have e : (p ++ (a ++ s :: (u ++ w))) ++ rest = p ++ (a ++ s :: (u ++ (w ++ rest))) := by simp
  obtain ⟨h2, h3, h4⟩ := alias_next ha (t := s) (x := u ++ (w ++ rest)) hs tk_set (by decide)
  have h5 := parseIdentOrPath_complete hp h2
  show parseUpdate parseExpr fu pos ((p ++ (a ++ s :: (u ++ w))) ++ rest) = _
  rw [e]
  unfold parseUpdate
  simp only [h5, Res.bind_ok, h3, h4, kd, hs, List.tail_cons, hm', hn', thenReturn_complete hr.2.2]
  simp

theorem parseInsert_complete {v : Token} {o i p c r : List Token} {ot : InsertOrType} {tbl cs : List PIdent}
    {rs : List (ValuesRow Expr)}
    (ho : OrD ot o) (hi : OptD "INTO" i) (hp : PathD tbl p) (hcs : ColsD cs c) (hv : v.isKeywordLike (B "VALUES") = true)
    (hrs : RowsD rs r) (hc : NoCast r) (pos : Nat) {rest : List Token} (hr : StmtFollow rest) :
    Ev (fun fu => parseInsert parseExpr fu pos ((o ++ (i ++ (p ++ (c ++ v :: r)))) ++ rest))
      (.ok (.insert pos ot tbl cs ⟨v.pos, rs⟩, rest)) := by
  obtain ⟨n, hn⟩ := parseValuesInput_complete hv hrs hc hr.2.1
  refine ⟨n, fun fu hfu => ?_⟩
  have hn' : parseValuesInput parseExpr fu (v :: (r ++ rest)) = .ok (⟨v.pos, rs⟩, rest) := hn fu hfu
  obtain ⟨pt, ptl, hpe, hpk⟩ := hp.head
  obtain ⟨ct, ctl, hce, hck⟩ := hcs.head
  have e : (o ++ (i ++ (p ++ (c ++ v :: r)))) ++ rest = o ++ (i ++ (p ++ (c ++ (v :: (r ++ rest))))) := by simp
  have h0 : cur (i ++ (p ++ (c ++ (v :: (r ++ rest))))) ≠ .or_ := by
    cases hi with
    | none => rw [hpe]; simp [hpk]
    | some ht => simp [ht, tk_into]
  have h1 := parseInsertOr_complete ho h0
  have h2 : (if kd (i ++ (p ++ (c ++ (v :: (r ++ rest))))) = K "INTO" then (i ++ (p ++ (c ++ (v :: (r ++ rest))))).tail
      else i ++ (p ++ (c ++ (v :: (r ++ rest))))) = p ++ (c ++ (v :: (r ++ rest))) :=
    opt_complete hi (by rw [hpe]; exact kind_ne_of_tk hpk (by rw [tk_into]; decide))
  have h3 : parseIdentOrPath (p ++ (c ++ (v :: (r ++ rest)))) = .ok (tbl, c ++ (v :: (r ++ rest))) :=
    parseIdentOrPath_complete hp (by rw [hce]; simp [hck])
  have h4 : hintAhead (c ++ (v :: (r ++ rest))) = false := by rw [hce]; exact not_hint_of_tk hck (by decide)
  have h5 := parseColumns_complete hcs (v :: (r ++ rest))
  have h6 : kwLike "VALUES" (v :: (r ++ rest)) = true := by simp [kwLike, hv]
  show parseInsert parseExpr fu pos ((o ++ (i ++ (p ++ (c ++ v :: r)))) ++ rest) = _
  rw [e]
  unfold parseInsert
  simp only [h1, Res.bind_ok, h2, h3, h4, h5, h6, hn', thenReturn_complete hr.2.2]
  simp

theorem kw_excl {t : Token} {a b : String} (ha : t.isKeywordLike (B a) = true)
    (hab : (B a).map Char.upperByte ≠ (B b).map Char.upperByte) : t.isKeywordLike (B b) = false := by
  cases hb : t.isKeywordLike (B b) with
  | false => rfl
  | true =>
    simp only [Token.isKeywordLike, Char.equalFold, Bool.and_eq_true, beq_iff_eq] at ha hb
    exact absurd (ha.2.2.symm.trans hb.2.2) hab

theorem NoCast.sub {pre : List Token} (h : NoCast pre) {x : List Token} (hx : ∀ t ∈ x, t ∈ pre) : NoCast x :=
  fun t ht => h t (hx t ht)

theorem parseDMLInternal_complete {s : Stmt Expr} {pre : List Token} (h : StmtD s pre) (hc : NoCast pre)
    {rest : List Token} (hr : StmtFollow rest) :
    Ev (fun f => parseDMLInternal parseExpr f (pre ++ rest)) (.ok (s, rest)) := by
  cases h with
  | @insert k v o i p c r ot tbl cs rs hk ho hi hp hcs hv hrs =>
    have hcr : NoCast r := hc.sub (fun t ht => by simp [ht])
    obtain ⟨n, hn⟩ := parseInsert_complete ho hi hp hcs hv hrs hcr k.pos hr
    refine ⟨n, fun f hf => ?_⟩
    have hn' := hn f hf
    simp only [List.cons_append] at hn' ⊢
    simp only [parseDMLInternal, cur_cons, kwLike_ident hk, kwLike, hd_cons, hk, if_true, List.tail_cons]
    exact hn'
  | @delete k f p a w tbl al wh hk hf hp ha hw =>
    have hcw : NoCast w := hc.sub (fun t ht => by simp [ht])
    obtain ⟨n, hn⟩ := parseDelete_complete hf hp ha hw hcw k.pos hr
    refine ⟨n, fun fu hfu => ?_⟩
    have hn' := hn fu hfu
    have h1 : k.isKeywordLike (B "INSERT") = false := kw_excl hk (by decide)
    simp only [List.cons_append] at hn' ⊢
    simp only [parseDMLInternal, cur_cons, kwLike_ident hk, kwLike, hd_cons, hk, h1, if_true, List.tail_cons]
    exact hn'
  | @update k s p a u w tbl al us wh hk hp ha hs hu hw =>
    have hcw : NoCast w := hc.sub (fun t ht => by simp [ht])
    have hcu : NoCast u := hc.sub (fun t ht => by simp [ht])
    obtain ⟨n, hn⟩ := parseUpdate_complete hp ha hs hu hw hcu hcw k.pos hr
    refine ⟨n, fun fu hfu => ?_⟩
    have hn' := hn fu hfu
    have h1 : k.isKeywordLike (B "INSERT") = false := kw_excl hk (by decide)
    have h2 : k.isKeywordLike (B "DELETE") = false := kw_excl hk (by decide)
    simp only [List.cons_append] at hn' ⊢
    simp only [parseDMLInternal, cur_cons, kwLike_ident hk, kwLike, hd_cons, hk, h1, h2, if_true, List.tail_cons]
    exact hn'

theorem StmtD.head {s : Stmt Expr} {pre : List Token} (h : StmtD s pre) :
    ∃ k tl, pre = k :: tl ∧ tk k.kind = .ident ∧
      (k.isKeywordLike (B "INSERT") = true ∨ k.isKeywordLike (B "DELETE") = true ∨ k.isKeywordLike (B "UPDATE") = true) := by
  cases h with
  | insert hk => exact ⟨_, _, rfl, kwLike_ident hk, .inl hk⟩
  | delete hk => exact ⟨_, _, rfl, kwLike_ident hk, .inr (.inl hk)⟩
  | update hk => exact ⟨_, _, rfl, kwLike_ident hk, .inr (.inr hk)⟩

theorem parseDML_complete {s : Stmt Expr} {pre : List Token} (h : StmtD s pre) (hc : NoCast pre)
    {rest : List Token} (hr : StmtFollow rest) :
    Ev (fun f => parseDML parseExpr f (pre ++ rest)) (.ok (s, rest)) := by
  obtain ⟨n, hn⟩ := parseDMLInternal_complete h hc hr
  refine ⟨n, fun f hf => ?_⟩
  obtain ⟨k, tl, rfl, hk, _⟩ := h.head
  have : hintAhead ((k :: tl) ++ rest) = false := not_hint_of_tk hk (by decide)
  show parseDML parseExpr f ((k :: tl) ++ rest) = _
  rw [parseDML, this]
  exact hn f hf

end MF.DML
