/-
  MF.Proofs.TypeBasic — vocabulary shared by the proofs about the `ParseType` model: the result monad, "more fuel
  refines" (`Le`), "eventually" (`Ev`), facts about token classes, the expansion of `>>` / `<>`, `Match`, and the relation
  `Sp ts ts' ys` ("from state `ts` to state `ts'` the parser consumed tokens that read `ys`", split-aware).
-/
import MF.Model.TypeParse
import MF.Spec.TypeGrammar
namespace MF.TypeP
open MF.TypeG

/-! ## `Res` -/

@[simp] theorem Res.bind_ok {α β : Type} (a : α) (k : α → Res β) : (Res.ok a).bind k = k a := rfl
@[simp] theorem Res.bind_raise {α β : Type} (k : α → Res β) : (Res.raise : Res α).bind k = .raise := rfl
@[simp] theorem Res.bind_oof {α β : Type} (k : α → Res β) : (Res.outOfFuel : Res α).bind k = .outOfFuel := rfl

theorem Res.bind_eq_ok {α β : Type} {r : Res α} {k : α → Res β} {b : β} :
    r.bind k = .ok b ↔ ∃ a, r = .ok a ∧ k a = .ok b := by
  cases r <;> simp [Res.bind]

/-! ## more fuel refines -/

def Le {α : Type} (a b : Res α) : Prop := a = .outOfFuel ∨ a = b

theorem Le.refl {α : Type} (a : Res α) : Le a a := Or.inr rfl
theorem Le.oof {α : Type} (b : Res α) : Le .outOfFuel b := Or.inl rfl

theorem Le.bind {α β : Type} {p p' : Res α} {k k' : α → Res β}
    (h : Le p p') (hk : ∀ a, Le (k a) (k' a)) : Le (p.bind k) (p'.bind k') := by
  rcases h with h | h
  · subst h; exact Le.oof _
  · subst h
    cases p with
    | ok a => exact hk a
    | _ => exact Le.refl _

theorem Le.eq {α : Type} {a b r : Res α} (h : Le a b) (ha : a = r) (hr : r ≠ .outOfFuel) : b = r := by
  rcases h with h | h
  · exact absurd (ha ▸ h) hr
  · rw [← h, ha]

/-! ## token classes -/

theorem symTK_cases (s : Bytes) : symTK s = .other ∨ ∃ p ∈ symTable, symTK s = p.2 := by
  unfold symTK
  cases h : symTable.find? (fun p => B p.1 == s) with
  | none => left; rfl
  | some p => right; exact ⟨p, List.mem_of_find?_eq_some h, rfl⟩

theorem symTK_ne_ident (s : Bytes) : symTK s ≠ .ident := by
  rcases symTK_cases s with h | ⟨p, hp, h⟩
  · rw [h]; decide
  · rw [h]
    simp only [symTable, List.mem_cons, List.not_mem_nil, or_false] at hp
    rcases hp with rfl | rfl | rfl | rfl | rfl | rfl | rfl | rfl <;> decide

theorem symTK_ne_eof (s : Bytes) : symTK s ≠ .eof := by
  rcases symTK_cases s with h | ⟨p, hp, h⟩
  · rw [h]; decide
  · rw [h]
    simp only [symTable, List.mem_cons, List.not_mem_nil, or_false] at hp
    rcases hp with rfl | rfl | rfl | rfl | rfl | rfl | rfl | rfl <;> decide

theorem tk_ident {k : TokKind} : tk k = .ident ↔ k = .ident := by
  cases k <;> simp [tk, symTK_ne_ident]

theorem tk_eof {k : TokKind} : tk k = .eof ↔ k = .eof := by
  cases k <;> simp [tk, symTK_ne_eof]

@[simp] theorem cur_cons (t : Token) (ts : List Token) : cur (t :: ts) = tk t.kind := rfl
@[simp] theorem cur_nil : cur [] = .eof := rfl
@[simp] theorem hd_cons (t : Token) (ts : List Token) : hd (t :: ts) = t := rfl

theorem cur_ne_eof {ts : List Token} {k : TK} (h : cur ts = k) (hk : k ≠ .eof) :
    ∃ t tl, ts = t :: tl ∧ tk t.kind = k := by
  cases ts with
  | nil => exact absurd h.symm hk
  | cons t tl => exact ⟨t, tl, rfl, h⟩

theorem tk_K_gt : tk (K ">") = .gt := by decide
theorem tk_K_lt : tk (K "<") = .lt := by decide
@[simp] theorem tk_splitTok (t : Token) : tk (splitTok t).kind = .gt := tk_K_gt
@[simp] theorem tk_gt2 (t : Token) : tk (gt2 t).kind = .gt := tk_K_gt
@[simp] theorem tk_gt1 (t : Token) : tk (gt1 t).kind = .gt := tk_K_gt
@[simp] theorem tk_lt1 (t : Token) : tk (lt1 t).kind = .lt := tk_K_lt
@[simp] theorem pos_gt1 (t : Token) : (gt1 t).pos = t.pos := rfl
@[simp] theorem pos_lt1 (t : Token) : (lt1 t).pos = t.pos := rfl
@[simp] theorem pos_gt2 (t : Token) : (gt2 t).pos = t.pos + 1 := rfl
@[simp] theorem pos_splitTok (t : Token) : (splitTok t).pos = t.pos + 1 := rfl
@[simp] theorem end_gt1 (t : Token) : (gt1 t).end = t.pos + 1 := rfl
@[simp] theorem end_lt1 (t : Token) : (lt1 t).end = t.pos + 1 := rfl
@[simp] theorem end_gt2 (t : Token) : (gt2 t).end = t.end := rfl
@[simp] theorem end_splitTok (t : Token) : (splitTok t).end = t.end := rfl

/-- `p.expect(k)` succeeded: the state was `t :: ts'` with `t` of class `k` -/
theorem expect_ok {k : TK} {ts ts' : PState} {t : Token} (h : expect k ts = .ok (t, ts')) (hk : k ≠ .eof) :
    ts = t :: ts' ∧ tk t.kind = k := by
  unfold expect at h
  split at h
  · rename_i hc
    obtain ⟨u, tl, rfl, hu⟩ := cur_ne_eof hc hk
    simp at h
    obtain ⟨rfl, rfl⟩ := h
    exact ⟨rfl, hu⟩
  · cases h

theorem expect_cons {k : TK} {t : Token} {ts : PState} (h : tk t.kind = k) : expect k (t :: ts) = .ok (t, ts) := by
  simp [expect, h]

/-! ## the expansion -/

theorem expand_plain {t : Token} (ts : List Token) (h1 : tk t.kind ≠ .shr) (h2 : tk t.kind ≠ .ltgt) :
    expand (t :: ts) = t :: expand ts := by
  simp only [expand]

theorem expand_shr {t : Token} (ts : List Token) (h : tk t.kind = .shr) :
    expand (t :: ts) = gt1 t :: gt2 t :: expand ts := by
  simp only [expand, h]

theorem expand_ltgt {t : Token} (ts : List Token) (h : tk t.kind = .ltgt) :
    expand (t :: ts) = lt1 t :: gt2 t :: expand ts := by
  simp only [expand, h]

@[simp] theorem expand_nil : expand [] = [] := rfl

@[simp] theorem expand_splitTok (t : Token) (ts : List Token) : expand (splitTok t :: ts) = splitTok t :: expand ts :=
  expand_plain ts (by simp) (by simp)

theorem expand_append (a b : List Token) : expand (a ++ b) = expand a ++ expand b := by
  induction a with
  | nil => rfl
  | cons t a ih =>
    simp only [List.cons_append, expand]
    split <;> simp [ih]

/-- an expanded list contains no `>>` and no `<>` -/
theorem expand_no_two (ts : List Token) : ∀ t ∈ expand ts, tk t.kind ≠ .shr ∧ tk t.kind ≠ .ltgt := by
  induction ts with
  | nil => simp
  | cons u ts ih =>
    intro t ht
    simp only [expand] at ht
    split at ht
    · simp only [List.mem_cons] at ht
      rcases ht with rfl | rfl | ht
      · simp
      · simp
      · exact ih t ht
    · simp only [List.mem_cons] at ht
      rcases ht with rfl | rfl | ht
      · simp
      · simp
      · exact ih t ht
    · rename_i h1 h2
      simp only [List.mem_cons] at ht
      rcases ht with rfl | ht
      · exact ⟨h1, h2⟩
      · exact ih t ht

theorem expand_id {ts : List Token} (h : ∀ t ∈ ts, tk t.kind ≠ .shr ∧ tk t.kind ≠ .ltgt) : expand ts = ts := by
  induction ts with
  | nil => rfl
  | cons t ts ih =>
    rw [expand_plain ts (h t (by simp)).1 (h t (by simp)).2, ih (fun u hu => h u (by simp [hu]))]

theorem expand_expand (ts : List Token) : expand (expand ts) = expand ts := expand_id (expand_no_two ts)

/-! ## `Match` -/

end MF.TypeP
namespace MF.TypeG
open MF.TypeP

@[simp] theorem match_nil_nil : Match [] [] := trivial
@[simp] theorem match_cons_cons {y : YT} {ys : List YT} {t : Token} {ts : List Token} :
    Match (y :: ys) (t :: ts) ↔ y.ok t ∧ Match ys ts := Iff.rfl
@[simp] theorem match_nil_cons {t : Token} {ts : List Token} : ¬ Match [] (t :: ts) := fun h => h
@[simp] theorem match_cons_nil {y : YT} {ys : List YT} : ¬ Match (y :: ys) [] := fun h => h

theorem Match.length {ys : List YT} {ts : List Token} (h : Match ys ts) : ys.length = ts.length := by
  induction ys generalizing ts with
  | nil => cases ts with
    | nil => rfl
    | cons => exact absurd h match_nil_cons
  | cons y ys ih => cases ts with
    | nil => exact absurd h match_cons_nil
    | cons t ts => simp [ih h.2]

theorem Match.append {a b : List YT} {p q : List Token} (h1 : Match a p) (h2 : Match b q) : Match (a ++ b) (p ++ q) := by
  induction a generalizing p with
  | nil => cases p with
    | nil => exact h2
    | cons => exact absurd h1 match_nil_cons
  | cons y ys ih => cases p with
    | nil => exact absurd h1 match_cons_nil
    | cons t ts => exact ⟨h1.1, ih h1.2⟩

theorem Match.append_inv {a b : List YT} {p : List Token} (h : Match (a ++ b) p) :
    ∃ p1 p2, p = p1 ++ p2 ∧ Match a p1 ∧ Match b p2 := by
  induction a generalizing p with
  | nil => exact ⟨[], p, rfl, trivial, h⟩
  | cons y ys ih => cases p with
    | nil => exact absurd h match_cons_nil
    | cons t ts =>
      obtain ⟨p1, p2, rfl, h1, h2⟩ := ih h.2
      exact ⟨t :: p1, p2, rfl, ⟨h.1, h1⟩, h2⟩

theorem Match.nil_left {p : List Token} (h : Match [] p) : p = [] := by
  cases p with
  | nil => rfl
  | cons => exact absurd h match_nil_cons

/-- the class sequence of the tokens is the class sequence of the descriptions -/
theorem YT.ok_cls {y : YT} {t : Token} (h : y.ok t) : tk t.kind = y.cls := by
  cases y with
  | simple p n => exact h.1
  | ident i => exact h.1
  | «at» k p => exact h.1
  | sym k => exact h

theorem Match.cls {ys : List YT} {ts : List Token} (h : Match ys ts) : ts.map (fun t => tk t.kind) = ys.map YT.cls := by
  induction ys generalizing ts with
  | nil => rw [h.nil_left]; rfl
  | cons y ys ih => cases ts with
    | nil => exact absurd h match_cons_nil
    | cons t ts => simp [YT.ok_cls h.1, ih h.2]

end MF.TypeG
namespace MF.TypeP
open MF.TypeG

/-! ## `Sp`: the split-aware "consumed" relation -/

/-- from state `ts` the parser reached state `ts'`, and the tokens in between — with every `>>` / `<>` counted as two
one-byte tokens, the in-place split of `ts'`'s head included — read `ys` -/
def Sp (ts ts' : PState) (ys : List YT) : Prop := ∃ pre, expand ts = pre ++ expand ts' ∧ Match ys pre

theorem Sp.nil (ts : PState) : Sp ts ts [] := ⟨[], rfl, trivial⟩

theorem Sp.append {ts mid ts' : PState} {ys zs : List YT} (h1 : Sp ts mid ys) (h2 : Sp mid ts' zs) :
    Sp ts ts' (ys ++ zs) := by
  obtain ⟨p1, e1, m1⟩ := h1
  obtain ⟨p2, e2, m2⟩ := h2
  exact ⟨p1 ++ p2, by rw [e1, e2, List.append_assoc], m1.append m2⟩

theorem Sp.cast {ts ts' : PState} {ys zs : List YT} (h : Sp ts ts' ys) (e : ys = zs) : Sp ts ts' zs := e ▸ h

theorem match_cons_inv {y : YT} {ys : List YT} {pre : List Token} (h : Match (y :: ys) pre) :
    ∃ t rest, pre = t :: rest ∧ y.ok t ∧ Match ys rest := by
  cases pre with
  | nil => exact absurd h match_cons_nil
  | cons t rest => exact ⟨t, rest, rfl, h.1, h.2⟩

/-- one ordinary token -/
theorem Sp.one {t : Token} {ts : PState} {y : YT} (hy : y.ok t) (h1 : tk t.kind ≠ .shr) (h2 : tk t.kind ≠ .ltgt) :
    Sp (t :: ts) ts [y] :=
  ⟨[t], by rw [expand_plain ts h1 h2]; rfl, ⟨hy, trivial⟩⟩

/-- `p.expect(k)` consumed one token of class `k` -/
theorem Sp.expect {k : TK} {ts ts' : PState} {t : Token} (h : expect k ts = .ok (t, ts'))
    (hk : k ≠ .eof) (h1 : k ≠ .shr) (h2 : k ≠ .ltgt) {y : YT} (hy : tk t.kind = k → y.ok t) : Sp ts ts' [y] := by
  obtain ⟨rfl, ht⟩ := expect_ok h hk
  exact Sp.one (hy ht) (by rw [ht]; exact h1) (by rw [ht]; exact h2)

end MF.TypeP
