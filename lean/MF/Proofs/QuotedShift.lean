import MF.Proofs.LexScan
namespace MF.Lex

/-! Locality of the quoted-content scanner: running it at index `k + i` of `rest` is running it at index `i`
of `rest.drop k` (with positions shifted by `k`). -/

theorem getElem?_drop' (rest : Bytes) (k i : Nat) : (rest.drop k)[i]? = rest[k + i]? := by
  rw [List.getElem?_drop]

theorem lslice?_drop {rest : Bytes} {k a b : Nat} (hk : k ≤ rest.length) :
    lslice? (rest.drop k) a b = lslice? rest (k + a) (k + b) := by
  unfold lslice? slice?
  simp only [List.length_drop]
  by_cases h1 : rest.length - k < b
  · have h2 : rest.length < k + b := by omega
    simp only [h1, h2, if_true]
    by_cases h3 : a ≤ rest.length - k
    · have h4 : k + a ≤ rest.length := by omega
      simp only [h3, h4, Nat.le_refl, and_self, if_true]
      unfold slice
      rw [List.drop_drop]
      congr 2
      omega
    · have h4 : ¬ (k + a ≤ rest.length) := by omega
      simp [h3, h4]
  · have h2 : ¬ (rest.length < k + b) := by omega
    simp only [h1, h2, if_false]
    by_cases h3 : a ≤ b
    · have h4 : k + a ≤ k + b := by omega
      have h5 : b ≤ rest.length - k := by omega
      have h6 : k + b ≤ rest.length := by omega
      simp only [h3, h4, h5, h6, and_self, if_true]
      unfold slice
      rw [List.drop_drop]
      congr 2
      omega
    · have h4 : ¬ (k + a ≤ k + b) := by omega
      simp [h3, h4]

theorem firstBad_drop (rest : Bytes) (pred : UInt8 → Bool) (k i n : Nat) :
    firstBad (rest.drop k) pred i n = firstBad rest pred (k + i) n := by
  unfold firstBad
  congr 1
  funext j
  rw [getElem?_drop', Nat.add_assoc]

def Esc.shift (k : Nat) : Esc → Esc
  | .bytes bs i' => .bytes bs (k + i')
  | .bad kk a b => .bad kk a b
  | .crash => .crash

theorem escapeDigits_drop {rest : Bytes} {k p0 i : Nat} {pred : UInt8 → Bool} {start size base maxv : Nat}
    {kind : ErrKind} {cp : Bool} (hk : k ≤ rest.length) :
    escapeDigits rest p0 (k + i) pred (k + start) size base maxv kind cp =
      (escapeDigits (rest.drop k) (p0 + k) i pred start size base maxv kind cp).shift k := by
  unfold escapeDigits
  rw [firstBad_drop, lslice?_drop hk]
  have e1 : p0 + (k + i) - 2 = p0 + k + i - 2 := by omega
  have e2 : ∀ j, p0 + (k + i) + j + 1 = p0 + k + i + j + 1 := by intro j; omega
  have e3 : p0 + (k + i) + size = p0 + k + i + size := by omega
  have e4 : k + (i + size) = k + i + size := by omega
  split
  · simp only [Esc.shift, e1, e2]
  · rw [e4]
    split
    · rfl
    · split
      · simp only [Esc.shift, e1, e3]
      · split
        · split
          · simp only [Esc.shift, e1, e3]
          · simp only [Esc.shift, e4]
        · simp only [Esc.shift, e4]

theorem escape_drop {rest : Bytes} {k p0 i : Nat} {u : Bool} {c : UInt8} (hk : k ≤ rest.length) (hi : 1 ≤ i) :
    escape rest p0 u (k + i) c = (escape (rest.drop k) (p0 + k) u i c).shift k := by
  unfold escape
  have e1 : p0 + (k + i) - 2 = p0 + k + i - 2 := by omega
  have e2 : p0 + (k + i) = p0 + k + i := by omega
  have e3 : k + i - 1 = k + (i - 1) := by omega
  split
  · simp only [Esc.shift]
  · split
    · exact escapeDigits_drop (start := i) hk
    · split
      · split
        · simp only [Esc.shift, e1, e2]
        · exact escapeDigits_drop (start := i) hk
      · split
        · rw [e3]; exact escapeDigits_drop (start := i - 1) hk
        · simp only [Esc.shift, e1, e2]

def QStep.shift (k : Nat) : QStep → QStep
  | .done qc => .done { qc with len := k + qc.len }
  | .fail e => .fail e
  | .crash => .crash
  | .next i c he => .next (k + i) c he

theorem quotedStep_drop {rest : Bytes} {k tp p0 : Nat} {q : Bytes} {raw uni isId np : Bool} {i : Nat}
    {content : Bytes} {he : Bool} (hk : k ≤ rest.length) :
    quotedStep rest tp p0 q raw uni isId np (k + i) content he =
      (quotedStep (rest.drop k) tp (p0 + k) q raw uni isId np i content he).shift k := by
  unfold quotedStep
  rw [getElem?_drop', lslice?_drop hk]
  have e0 : k + i + q.length = k + (i + q.length) := by omega
  have e1 : p0 + (k + i) = p0 + k + i := by omega
  have e2 : p0 + (k + i) + q.length = p0 + k + i + q.length := by omega
  have e3 : k + i + 1 = k + (i + 1) := by omega
  have e4 : k + i + 2 = k + (i + 2) := by omega
  have e5 : p0 + (k + i) + 1 = p0 + k + i + 1 := by omega
  rw [e0]
  split
  · split
    · simp only [QStep.shift]
    · simp only [QStep.shift, e1]
  · split
    · rfl
    · split
      · split
        · split
          · simp only [QStep.shift, Nat.add_assoc]
          · simp only [QStep.shift, e1, e2]
        · split
          · simp only [QStep.shift, Nat.add_assoc]
          · simp only [QStep.shift, Nat.add_assoc]
      · split
        · rw [e3, getElem?_drop', ← e3]
          split
          · split
            · simp only [QStep.shift, e3]
            · simp only [QStep.shift, e1, e5]
          · split
            · simp only [QStep.shift, e4]
            · rw [e4, escape_drop hk (by omega)]
              cases escape (List.drop k rest) (p0 + k) uni (i + 2) _ with
              | bytes bs i' => simp only [Esc.shift, QStep.shift]
              | bad kk a b => simp only [Esc.shift]; split <;> simp only [QStep.shift, e4]
              | crash => simp only [Esc.shift, QStep.shift]
        · split
          · split
            · simp only [QStep.shift, e3]
            · simp only [QStep.shift, e1]
          · simp only [QStep.shift, e3]

def shiftRes (k : Nat) : Res QC → Res QC
  | .ok qc => .ok { qc with len := k + qc.len }
  | .err e => .err e
  | .crash => .crash

theorem quotedLoop_drop {rest : Bytes} {k tp p0 : Nat} {q : Bytes} {raw uni isId np : Bool} {fuel i : Nat}
    {content : Bytes} {he : Bool} (hk : k ≤ rest.length) :
    quotedLoop rest tp p0 q raw uni isId np fuel (k + i) content he =
      shiftRes k (quotedLoop (rest.drop k) tp (p0 + k) q raw uni isId np fuel i content he) := by
  induction fuel generalizing i content he with
  | zero => simp [quotedLoop, shiftRes]
  | succ fuel ih =>
    simp only [quotedLoop]
    rw [quotedStep_drop hk]
    cases quotedStep (List.drop k rest) tp (p0 + k) q raw uni isId np i content he with
    | done qc => simp only [QStep.shift, shiftRes]
    | fail e => simp only [QStep.shift, shiftRes]
    | crash => simp only [QStep.shift, shiftRes]
    | next i' c' he' => simp only [QStep.shift]; exact ih

end MF.Lex
