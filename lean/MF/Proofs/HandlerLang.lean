/-
  MF.Proofs.HandlerLang — the hand-written `Handlers.action` IS the interpretation of the switch that
  `tools/extract/handlers.go` translates out of parser.go.

  Two steps, so that a change of parser.go breaks exactly one kernel computation and never a tactic proof:
   (1) `action_eq_expected` (proved once, for all nesting values and all token kinds): `action` is the interpretation
       of the literal table `expected`;
   (2) `MF/Props/C10Handlers.lean`: the regenerated table equals `expected` (`decide +kernel`, re-run on every change).
-/
import MF.Model.HandlerLang
namespace MF.HandlerLang
open MF MF.Lex MF.Handlers

/-- the switches of the four handlers, as translated from the pinned parser.go -/
def expected : List HFn := [
  ⟨"handleParseStatementError", true, false,
    [⟨[";"], [.stop]⟩]⟩,
  ⟨"handleParseQueryExprError", true, true,
    [⟨[";"], [.stop]⟩, ⟨["("], [.add 1]⟩, ⟨[")"], [.ifEqStop false 0, .sub 1]⟩,
     ⟨["UNION", "INTERSECT", "EXCEPT"], [.ifEqStop true 0]⟩]⟩,
  ⟨"handleParseExprError", true, true,
    [⟨[";"], [.stop]⟩, ⟨["(", "[", "CASE", "WHEN"], [.add 1]⟩,
     ⟨[")", "]", "}", "END", "THEN"], [.ifEqStop false 0, .sub 1]⟩,
     ⟨[",", "AS", "FROM", "GROUP", "HAVING", "ORDER", "LIMIT", "OFFSET", "AT", "UNION", "INTERSECT", "EXCEPT"], [.ifEqStop false 0]⟩]⟩,
  ⟨"handleParseTypeError", true, true,
    [⟨[";", ")"], [.stop]⟩, ⟨["<"], [.add 1]⟩, ⟨[">"], [.ifEqStop false 0, .sub 1]⟩,
     ⟨[">>"], [.ifEqStop false 0, .ifEqSplit 1, .sub 2]⟩, ⟨[","], [.ifEqStop false 0]⟩]⟩]

theorem cases_statement : casesOf expected .statement = [⟨[";"], [.stop]⟩] := by decide
theorem cases_query (s : Bool) : casesOf expected (.query s) =
    [⟨[";"], [.stop]⟩, ⟨["("], [.add 1]⟩, ⟨[")"], [.ifEqStop false 0, .sub 1]⟩,
     ⟨["UNION", "INTERSECT", "EXCEPT"], [.ifEqStop true 0]⟩] := by cases s <;> decide
theorem cases_expr : casesOf expected .expr =
    [⟨[";"], [.stop]⟩, ⟨["(", "[", "CASE", "WHEN"], [.add 1]⟩,
     ⟨[")", "]", "}", "END", "THEN"], [.ifEqStop false 0, .sub 1]⟩,
     ⟨[",", "AS", "FROM", "GROUP", "HAVING", "ORDER", "LIMIT", "OFFSET", "AT", "UNION", "INTERSECT", "EXCEPT"], [.ifEqStop false 0]⟩] := by decide
theorem cases_type : casesOf expected .type =
    [⟨[";", ")"], [.stop]⟩, ⟨["<"], [.add 1]⟩, ⟨[">"], [.ifEqStop false 0, .sub 1]⟩,
     ⟨[">>"], [.ifEqStop false 0, .ifEqSplit 1, .sub 2]⟩, ⟨[","], [.ifEqStop false 0]⟩] := by decide

/-- `action` is the interpretation of `expected`, for every handler, nesting value and token kind; in particular the
    interpretation is defined everywhere: the translated switches never decrement `nesting` below zero -/
theorem action_eq_expected (h : HKind) (n : Nat) (k : TokKind) : actionGo expected h n k = some (action h n k) := by
  cases h with
  | statement =>
    simp only [actionGo, cases_statement, run, exec, action, isSimple]
    split <;> rfl
  | query s =>
    simp only [actionGo, cases_query, run, exec, action, isSimple]
    repeat' split
    all_goals first | rfl | (simp_all; done) | (simp_all; omega)
  | expr =>
    simp only [actionGo, cases_expr, run, exec, action, isSimple]
    repeat' split
    all_goals first | rfl | (simp_all; done) | (simp_all; omega)
  | type =>
    simp only [actionGo, cases_type, run, exec, action, isSimple]
    repeat' split
    all_goals first | rfl | (simp_all; done) | (simp_all; omega)

end MF.HandlerLang
