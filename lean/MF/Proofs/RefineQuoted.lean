import MF.Proofs.RefineBasic
namespace MF.Refine
open MF MF.Lex MF.Spec.Lexical

/-! ### quoted bodies: string / bytes literals and back-quoted identifiers -/

theorem lslice?_zero (S : Bytes) (n : Nat) : lslice? S 0 n = some (S.take n) := by
  unfold lslice? slice? slice
  simp only [List.drop_zero, Nat.sub_zero, Nat.zero_le, true_and]
  split
  · rename_i h
    simp only [Nat.le_refl, if_true]
    rw [List.take_of_length_le (Nat.le_refl _), List.take_of_length_le (by omega)]
  · rename_i h
    have : n ≤ S.length := by omega
    simp [this]

theorem firstBad_succ (rest : Bytes) (pred : UInt8 → Bool) (i n : Nat) :
    firstBad rest pred i (n + 1) = none ↔
      firstBad rest pred i n = none ∧ ∃ c, rest[i + n]? = some c ∧ pred c = true := by
  unfold firstBad
  rw [List.range_succ, List.find?_append]
  cases h : List.find? (fun j => match rest[i + j]? with | some c => !pred c | none => true) (List.range n) with
  | some x => simp
  | none =>
    simp only [Option.none_or, true_and]
    cases h2 : rest[i + n]? with
    | none => simp [h2]
    | some c => cases hp : pred c <;> simp [h2, hp]

theorem firstBad_none_iff (rest : Bytes) (pred : UInt8 → Bool) (i n : Nat) :
    firstBad rest pred i n = none ↔
      ((rest.drop i).take n).length = n ∧ ((rest.drop i).take n).all pred = true := by
  induction n with
  | zero => simp [firstBad]
  | succ n ih =>
    rw [firstBad_succ, ih, List.take_add_one, List.getElem?_drop]
    cases h2 : rest[i + n]? with
    | none =>
      simp only [Option.toList_none, List.append_nil, List.length_take, List.length_drop]
      have := List.getElem?_eq_none_iff.1 h2
      constructor
      · rintro ⟨_, c, hc, _⟩; cases hc
      · rintro ⟨hl, _⟩; omega
    | some c =>
      have hlt := getElem?_some_lt h2
      simp only [Option.toList_some, List.length_append, List.length_take, List.length_drop, List.length_cons,
        List.length_nil, List.all_append, List.all_cons, List.all_nil, Bool.and_true, Bool.and_eq_true,
        Option.some.injEq, exists_eq_left']
      constructor
      · rintro ⟨⟨h1, h2⟩, h3⟩; exact ⟨by omega, h2, h3⟩
      · rintro ⟨h1, h2, h3⟩; exact ⟨⟨by omega, h2⟩, h3⟩

theorem hexVal_le : ∀ c, isHex c = true → hexVal c ≤ 15 := by
  apply UInt8.forall_of_fin; decide +kernel

theorem octVal_le : ∀ c : UInt8, isOct c = true → c.toNat - 48 ≤ 7 := by
  apply UInt8.forall_of_fin; decide +kernel

theorem parseUintAux_hex (ds : Bytes) (acc : Nat) (h : ds.all isHex = true) :
    parseUintAux 16 ds acc = some (hexNum ds acc) := by
  induction ds generalizing acc with
  | nil => rfl
  | cons c t ih =>
    simp only [List.all_cons, Bool.and_eq_true] at h
    have hc : Char.isHexDigit c = true := by rw [isHexDigit_eq]; exact h.1
    simp only [parseUintAux, digitVal?, beq_self_eq_true, if_true, hc, hexNum]
    rw [ih _ h.2, hexVal_eq c hc]

theorem hexNum_bound (ds : Bytes) (acc : Nat) (h : ds.all isHex = true) :
    hexNum ds acc + 1 ≤ (acc + 1) * 16 ^ ds.length := by
  induction ds generalizing acc with
  | nil => simp [hexNum]
  | cons c t ih =>
    simp only [List.all_cons, Bool.and_eq_true] at h
    have hv := hexVal_le c h.1
    have := ih (acc * 16 + hexVal c) h.2
    simp only [hexNum, List.length_cons]
    have h2 : (acc * 16 + hexVal c + 1) * 16 ^ t.length ≤ ((acc + 1) * 16) * 16 ^ t.length :=
      Nat.mul_le_mul_right _ (by omega)
    rw [Nat.pow_succ, Nat.mul_comm (16 ^ t.length) 16, ← Nat.mul_assoc]
    omega

theorem parseUint_hex (ds : Bytes) (maxv : Nat) (hne : ds ≠ []) (h : ds.all isHex = true)
    (hm : 16 ^ ds.length ≤ maxv + 1) : parseUint? ds 16 maxv = some (hexNum ds 0) := by
  have hb := hexNum_bound ds 0 h
  unfold parseUint?
  cases ds with
  | nil => exact absurd rfl hne
  | cons c t =>
    simp only [parseUintAux_hex _ 0 h]
    have : hexNum (c :: t) 0 ≤ maxv := by omega
    simp [this]

theorem lslice?_of_le {rest : Bytes} {a b : Nat} (h1 : a ≤ b) (h2 : b ≤ rest.length) :
    lslice? rest a b = some (slice rest a b) := by
  unfold lslice?
  have : ¬ rest.length < b := by omega
  simp only [this, if_false]
  exact slice?_of_le h1 h2

theorem take_len_le {rest : Bytes} {i size : Nat} (h : ((rest.drop i).take size).length = size) (hs : 0 < size) :
    i + size ≤ rest.length := by
  simp only [List.length_take, List.length_drop] at h
  omega

theorem hexEsc_good {rest : Bytes} {p0 i size maxv : Nat} {k : ErrKind} {cp : Bool} (hs : 0 < size)
    (hl : ((rest.drop i).take size).length = size) (ha : ((rest.drop i).take size).all isHex = true)
    (hm : 16 ^ size ≤ maxv + 1) :
    escapeDigits rest p0 i Char.isHexDigit i size 16 maxv k cp =
      (if cp then
        (if (0xD800 ≤ hexNum ((rest.drop i).take size) 0 && hexNum ((rest.drop i).take size) 0 ≤ 0xDFFF)
              || 0x10FFFF < hexNum ((rest.drop i).take size) 0
          then .bad .invalidCodePoint (p0 + i - 2) (p0 + i + size)
          else .bytes (Utf8.encodeRune (hexNum ((rest.drop i).take size) 0)) (i + size))
       else .bytes [(hexNum ((rest.drop i).take size) 0).toUInt8] (i + size)) := by
  have hle := take_len_le hl hs
  have hfb : firstBad rest Char.isHexDigit i size = none := by
    rw [firstBad_none_iff, isHexDigit_eq]; exact ⟨hl, ha⟩
  unfold escapeDigits
  rw [hfb, lslice?_of_le (Nat.le_add_right _ _) hle, slice_drop]
  have hne : (rest.drop i).take size ≠ [] := by
    intro h0; rw [h0] at hl; simp at hl; omega
  simp only
  rw [parseUint_hex _ maxv hne ha (by rw [hl]; exact hm)]

theorem hexEsc_bad {rest : Bytes} {p0 i size maxv : Nat} {k : ErrKind} {cp : Bool}
    (h : ¬ (((rest.drop i).take size).length = size ∧ ((rest.drop i).take size).all isHex = true)) :
    ∃ j, escapeDigits rest p0 i Char.isHexDigit i size 16 maxv k cp = .bad k (p0 + i - 2) (p0 + i + j + 1) := by
  unfold escapeDigits
  cases hfb : firstBad rest Char.isHexDigit i size with
  | some j => exact ⟨j, rfl⟩
  | none =>
    rw [firstBad_none_iff, isHexDigit_eq] at hfb
    exact absurd hfb h

theorem octEsc_good {c e a b : UInt8} {u' : Bytes} {p0 : Nat} (he : e = 48 ∨ e = 49 ∨ e = 50 ∨ e = 51)
    (ha : isOct a = true) (hb : isOct b = true) :
    escapeDigits (c :: e :: a :: b :: u') p0 2 Char.isOctalDigit (2 - 1) 2 8 255 .octalEscape false =
      .bytes [((e.toNat - 48) * 64 + (a.toNat - 48) * 8 + (b.toNat - 48)).toUInt8] (2 + 2) := by
  have hfb : firstBad (c :: e :: a :: b :: u') Char.isOctalDigit 2 2 = none := by
    rw [firstBad_none_iff, isOctalDigit_eq]; simp [ha, hb]
  have heo : Char.isOctalDigit e = true := by rcases he with rfl | rfl | rfl | rfl <;> decide
  have hel : e.toNat - 48 ≤ 3 := by rcases he with rfl | rfl | rfl | rfl <;> decide
  have hal := octVal_le a ha
  have hbl := octVal_le b hb
  rw [← isOctalDigit_eq] at ha hb
  unfold escapeDigits
  rw [hfb, lslice?_of_le (by omega) (by simp)]
  have hs : slice (c :: e :: a :: b :: u') (2 - 1) (2 + 2) = [e, a, b] := by simp [slice]
  rw [hs]
  have hp : parseUint? [e, a, b] 8 255 = some ((e.toNat - 48) * 64 + (a.toNat - 48) * 8 + (b.toNat - 48)) := by
    have h8 : ((8 : Nat) == 16) = false := by decide
    simp only [parseUint?, parseUintAux, digitVal?, h8, Bool.false_eq_true, if_false, heo, ha, hb, if_true]
    have e1 : ((0 * 8 + (e.toNat - 48)) * 8 + (a.toNat - 48)) * 8 + (b.toNat - 48) =
        (e.toNat - 48) * 64 + (a.toNat - 48) * 8 + (b.toNat - 48) := by omega
    rw [e1]
    have : (e.toNat - 48) * 64 + (a.toNat - 48) * 8 + (b.toNat - 48) ≤ 255 := by omega
    simp [this]
  simp only [hp]
  simp

theorem octEsc_bad {rest : Bytes} {p0 i start : Nat}
    (h : ¬ (((rest.drop i).take 2).length = 2 ∧ ((rest.drop i).take 2).all isOct = true)) :
    ∃ j, escapeDigits rest p0 i Char.isOctalDigit start 2 8 255 .octalEscape false =
      .bad .octalEscape (p0 + i - 2) (p0 + i + j + 1) := by
  unfold escapeDigits
  cases hfb : firstBad rest Char.isOctalDigit i 2 with
  | some j => exact ⟨j, rfl⟩
  | none =>
    rw [firstBad_none_iff, isOctalDigit_eq] at hfb
    exact absurd hfb h

theorem esc_sim_x {q : Bytes} {isBytes : Bool} {fuel : Nat} {e : UInt8} {u acc : Bytes} {n p0 : Nat}
    (he : e = 120 ∨ e = 88) (hns : startsWith (92 :: e :: u) q = false) :
    match escape (92 :: e :: u) p0 (!isBytes) 2 e with
    | .bytes bs i' => 2 ≤ i' ∧ i' ≤ u.length + 2 ∧
        body q false isBytes (fuel + 1) (92 :: e :: u) acc n = body q false isBytes fuel (u.drop (i' - 2)) (acc ++ bs) (n + i')
    | .bad _ _ _ => body q false isBytes (fuel + 1) (92 :: e :: u) acc n = none
    | .crash => False := by
  by_cases hc : ((List.take 2 u).length = 2 ∧ (List.take 2 u).all isHex = true)
  · have hg := hexEsc_good (rest := 92 :: e :: u) (p0 := p0) (i := 2) (size := 2) (maxv := 255) (k := .hexEscape)
      (cp := false) (by decide) (by simpa using hc.1) (by simpa using hc.2) (by decide)
    simp only [List.drop_succ_cons, List.drop_zero] at hg
    have hl : u.length ≥ 2 := by have := hc.1; simp at this; omega
    rcases he with rfl | rfl <;>
    · simp [body, hns, escape, simpleEscape?, hg, hc.1, hc.2]
      omega
  · obtain ⟨j, hb⟩ := hexEsc_bad (rest := 92 :: e :: u) (p0 := p0) (i := 2) (size := 2) (maxv := 255) (k := .hexEscape)
      (cp := false) (by simpa using hc)
    have hcb : ((List.take 2 u).length == 2 && (List.take 2 u).all isHex) = false := by
      rw [Bool.eq_false_iff]; intro h
      simp only [Bool.and_eq_true, beq_iff_eq] at h; exact hc h
    rcases he with rfl | rfl <;>
    · simp only [body, hcb]
      simp [hns, escape, simpleEscape?, hb]

theorem esc_sim_u_aux {q : Bytes} {isBytes : Bool} {fuel : Nat} {e : UInt8} {u acc : Bytes} {n p0 k : Nat}
    (he : (e = 117 ∧ k = 4) ∨ (e = 85 ∧ k = 8)) (hns : startsWith (92 :: e :: u) q = false) :
    match escape (92 :: e :: u) p0 (!isBytes) 2 e with
    | .bytes bs i' => 2 ≤ i' ∧ i' ≤ u.length + 2 ∧
        body q false isBytes (fuel + 1) (92 :: e :: u) acc n = body q false isBytes fuel (u.drop (i' - 2)) (acc ++ bs) (n + i')
    | .bad _ _ _ => body q false isBytes (fuel + 1) (92 :: e :: u) acc n = none
    | .crash => False := by
  cases isBytes with
  | true => rcases he with ⟨rfl, rfl⟩ | ⟨rfl, rfl⟩ <;> simp [body, hns, escape, simpleEscape?]
  | false =>
    by_cases hc : ((List.take k u).length = k ∧ (List.take k u).all isHex = true)
    · have hk : 0 < k ∧ 16 ^ k ≤ 0xFFFFFFFF + 1 := by rcases he with ⟨_, rfl⟩ | ⟨_, rfl⟩ <;> decide
      have hg := hexEsc_good (rest := 92 :: e :: u) (p0 := p0) (i := 2) (size := k) (maxv := 0xFFFFFFFF) (k := .unicodeEscape)
        (cp := true) hk.1 (by simpa using hc.1) (by simpa using hc.2) hk.2
      simp only [List.drop_succ_cons, List.drop_zero] at hg
      have hl : u.length ≥ k := by have := hc.1; simp at this; omega
      have hcb : ((List.take k u).length == k && (List.take k u).all isHex) = true := by
        simp only [Bool.and_eq_true, beq_iff_eq]; exact hc
      rcases he with ⟨rfl, rfl⟩ | ⟨rfl, rfl⟩ <;>
      · simp only [body]
        have h1 : ((117 : UInt8) == 85) = false := by decide
        have h2 : ((85 : UInt8) == 85) = true := by decide
        simp only [h1, h2, Bool.false_eq_true, if_false, if_true, hcb]
        simp [hns, escape, simpleEscape?, hg]
        generalize hexNum (List.take _ u) 0 = v
        by_cases hs : (55296 ≤ v ∧ v ≤ 57343 ∨ 1114111 < v)
        · simp only [hs, if_true]
          intro h1 h2
          rcases hs with ⟨a, b⟩ | c
          · have := h1 a; omega
          · omega
        · simp only [hs, if_false]
          refine ⟨by omega, by omega, ?_⟩
          trivial
    · obtain ⟨j, hb⟩ := hexEsc_bad (rest := 92 :: e :: u) (p0 := p0) (i := 2) (size := k) (maxv := 0xFFFFFFFF)
        (k := .unicodeEscape) (cp := true) (by simpa using hc)
      have hcb : ((List.take k u).length == k && (List.take k u).all isHex) = false := by
        rw [Bool.eq_false_iff]; intro h
        simp only [Bool.and_eq_true, beq_iff_eq] at h; exact hc h
      rcases he with ⟨rfl, rfl⟩ | ⟨rfl, rfl⟩ <;>
      · simp only [body]
        have h1 : ((117 : UInt8) == 85) = false := by decide
        have h2 : ((85 : UInt8) == 85) = true := by decide
        simp only [h1, h2, Bool.false_eq_true, if_false, if_true, hcb]
        simp [hns, escape, simpleEscape?, hb]

theorem esc_sim_oct {q : Bytes} {isBytes : Bool} {fuel : Nat} {e : UInt8} {u acc : Bytes} {n p0 : Nat}
    (he : e = 48 ∨ e = 49 ∨ e = 50 ∨ e = 51) (hns : startsWith (92 :: e :: u) q = false) :
    match escape (92 :: e :: u) p0 (!isBytes) 2 e with
    | .bytes bs i' => 2 ≤ i' ∧ i' ≤ u.length + 2 ∧
        body q false isBytes (fuel + 1) (92 :: e :: u) acc n = body q false isBytes fuel (u.drop (i' - 2)) (acc ++ bs) (n + i')
    | .bad _ _ _ => body q false isBytes (fuel + 1) (92 :: e :: u) acc n = none
    | .crash => False := by
  by_cases hc : ((List.take 2 u).length = 2 ∧ (List.take 2 u).all isOct = true)
  · obtain ⟨a, b, u', rfl⟩ : ∃ a b u', u = a :: b :: u' := by
      match u, hc with
      | [], h => simp at h
      | [_], h => simp at h
      | a :: b :: u', _ => exact ⟨a, b, u', rfl⟩
    have hab : isOct a = true ∧ isOct b = true := by simpa using hc.2
    have hg := octEsc_good (c := 92) (u' := u') (p0 := p0) he hab.1 hab.2
    rcases he with rfl | rfl | rfl | rfl <;>
    · simp [body, hns, escape, simpleEscape?, hg, hab.1, hab.2]
  · obtain ⟨j, hb⟩ := octEsc_bad (rest := 92 :: e :: u) (p0 := p0) (i := 2) (start := 2 - 1) (by simpa using hc)
    have hcb : ((List.take 2 u).length == 2 && (List.take 2 u).all isOct) = false := by
      rw [Bool.eq_false_iff]; intro h
      simp only [Bool.and_eq_true, beq_iff_eq] at h; exact hc h
    rcases he with rfl | rfl | rfl | rfl <;>
    · simp only [body, hcb]
      simp [hns, escape, simpleEscape?, hb]

theorem esc_class : ∀ e : UInt8,
    e = 97 ∨ e = 98 ∨ e = 102 ∨ e = 110 ∨ e = 114 ∨ e = 116 ∨ e = 118 ∨ e = 92 ∨ e = 63 ∨ e = 34 ∨ e = 39 ∨ e = 96 ∨
    (e = 120 ∨ e = 88) ∨ (e = 117 ∨ e = 85) ∨ (e = 48 ∨ e = 49 ∨ e = 50 ∨ e = 51) ∨
    (simpleEscape? e = none ∧ (e == 97) = false ∧ (e == 98) = false ∧ (e == 102) = false ∧ (e == 110) = false ∧
      (e == 114) = false ∧ (e == 116) = false ∧ (e == 118) = false ∧
      (e == 92 || e == 63 || e == 34 || e == 39 || e == 96) = false ∧ (e == 120 || e == 88) = false ∧
      (e == 117 || e == 85) = false ∧ (decide (48 ≤ e) && decide (e ≤ 51)) = false ∧
      (e == 48 || e == 49 || e == 50 || e == 51) = false) := by
  apply UInt8.forall_of_fin; decide +kernel

/-- the escape sequences: the model's `escape` at index 2 of `\ e u…` against one unfolding of `body` -/
theorem esc_sim {q : Bytes} {isBytes : Bool} {fuel : Nat} {e : UInt8} {u acc : Bytes} {n p0 : Nat}
    (hns : startsWith (92 :: e :: u) q = false) :
    match escape (92 :: e :: u) p0 (!isBytes) 2 e with
    | .bytes bs i' => 2 ≤ i' ∧ i' ≤ u.length + 2 ∧
        body q false isBytes (fuel + 1) (92 :: e :: u) acc n = body q false isBytes fuel (u.drop (i' - 2)) (acc ++ bs) (n + i')
    | .bad _ _ _ => body q false isBytes (fuel + 1) (92 :: e :: u) acc n = none
    | .crash => False := by
  rcases esc_class e with h | h | h | h | h | h | h | h | h | h | h | h | h | h | h | h
  iterate 12 (subst h; simp [body, hns, escape, simpleEscape?])
  · exact esc_sim_x h hns
  · exact esc_sim_u_aux (k := if e = 85 then 8 else 4) (by rcases h with rfl | rfl <;> simp) hns
  · exact esc_sim_oct h hns
  · obtain ⟨h0, h1, h2, h3, h4, h5, h6, h7, h8, h9, h10, h11, h12⟩ := h
    simp only [body, hns, escape, h0, h1, h2, h3, h4, h5, h6, h7, h8, h9, h10, h11, h12]
    simp

/-- one iteration of the model's loop at index 0 of `S` against one unfolding of the reference `body` on `S` -/
theorem step_sim (q : Bytes) (hq : q.length = 1 ∨ q.length = 3) (raw isBytes isId : Bool) (S content : Bytes)
    (tp p0 fuel n : Nat) :
    match quotedStep S tp p0 q raw (!isBytes) isId false 0 content false with
    | .done qc => qc.hasError = false ∧ qc.content = content ∧ qc.len = q.length ∧ (isId = true → content ≠ []) ∧
        q.length ≤ S.length ∧ body q raw isBytes (fuel + 1) S content n = some (content, n + q.length)
    | .fail _ => body q raw isBytes (fuel + 1) S content n = none ∨
        (isId = true ∧ content = [] ∧ body q raw isBytes (fuel + 1) S content n = some ([], n + q.length))
    | .crash => False
    | .next i' c' he' => he' = false ∧ 0 < i' ∧ i' ≤ S.length ∧
        body q raw isBytes (fuel + 1) S content n = body q raw isBytes fuel (S.drop i') c' (n + i') := by
  cases S with
  | nil => simp [quotedStep, body]
  | cons c t =>
    by_cases hsw : startsWith (c :: t) q = true
    · -- closing delimiter
      have hsw' : (List.take q.length (c :: t) == q) = true := hsw
      have hlen : q.length ≤ (c :: t).length := by
        have : List.take q.length (c :: t) = q := by simpa using hsw'
        have := congrArg List.length this
        simp only [List.length_take] at this
        omega
      simp only [quotedStep, List.getElem?_cons_zero, lslice?_zero, Nat.zero_add, hsw', if_true, body, hsw]
      by_cases hce : (content.isEmpty && isId) = true
      · simp only [hce, if_true, Bool.false_eq_true, if_false]
        right
        simp only [Bool.and_eq_true, List.isEmpty_iff] at hce
        exact ⟨hce.2, hce.1, by rw [hce.1]⟩
      · simp only [hce, Bool.false_eq_true, if_false]
        refine ⟨by trivial, by trivial, by trivial, ?_, hlen, by trivial⟩
        intro hid hc
        apply hce
        simp [hid, hc]
    · have hsw0 := Bool.eq_false_iff.2 hsw
      have hsw' : (List.take q.length (c :: t) == q) = false := hsw0
      by_cases h92 : (c == 92) = true
      · have hc : c = 92 := by simpa using h92
        subst hc
        cases t with
        | nil => simp [quotedStep, lslice?_zero, hsw', body, hsw0]
        | cons e u =>
          cases raw with
          | true =>
            simp [quotedStep, lslice?_zero, hsw', body, hsw0]
          | false =>
            have hes := esc_sim (q := q) (isBytes := isBytes) (fuel := fuel) (acc := content) (n := n) (p0 := p0) hsw0
            simp only [quotedStep, List.getElem?_cons_zero, lslice?_zero, Nat.zero_add, hsw', Bool.false_eq_true,
              if_false, beq_self_eq_true, if_true, List.getElem?_cons_succ]
            revert hes
            cases escape (92 :: e :: u) p0 (!isBytes) 2 e with
            | bytes bs i' =>
              simp only
              intro ⟨h1, h2, h3⟩
              refine ⟨by trivial, by omega, by simp; omega, ?_⟩
              rw [h3]
              congr 1
              have : i' = (i' - 2) + 2 := by omega
              rw [this]; simp
            | bad k a b => simp only; intro h; exact Or.inl h
            | crash => simp
      · have h92' := Bool.eq_false_iff.2 h92
        by_cases hnl : (c == 10) = true
        · rcases hq with hq | hq
          · simp only [quotedStep, List.getElem?_cons_zero, lslice?_zero, Nat.zero_add, hsw', body, hsw0]
            simp [h92', hnl, hq]
          · simp only [quotedStep, List.getElem?_cons_zero, lslice?_zero, Nat.zero_add, hsw', body, hsw0]
            simp [h92', hnl, hq]
        · have hnl' := Bool.eq_false_iff.2 hnl
          simp only [quotedStep, List.getElem?_cons_zero, lslice?_zero, Nat.zero_add, hsw', body, hsw0]
          simp [h92', hnl']

/-- the model's quoted-content loop from index `i` against the reference `body` on the suffix `rest.drop i` -/
theorem loop_sim (q : Bytes) (hq : q.length = 1 ∨ q.length = 3) (raw isBytes isId : Bool) (rest : Bytes) (tp p0 : Nat) :
    ∀ (fuel fuel' i : Nat) (content : Bytes) (n : Nat), i ≤ rest.length → rest.length < fuel + i →
      rest.length < fuel' + i →
    match quotedLoop rest tp p0 q raw (!isBytes) isId false fuel i content false with
    | .ok qc => qc.hasError = false ∧ i ≤ qc.len ∧ qc.len ≤ rest.length ∧ (isId = true → qc.content ≠ []) ∧
        body q raw isBytes fuel' (rest.drop i) content n = some (qc.content, n + (qc.len - i))
    | .err _ => body q raw isBytes fuel' (rest.drop i) content n = none ∨
        (isId = true ∧ ∃ m, body q raw isBytes fuel' (rest.drop i) content n = some ([], m))
    | .crash => False := by
  intro fuel
  induction fuel with
  | zero => intro fuel' i content n hi hf; omega
  | succ fuel ih =>
    intro fuel' i content n hi hf hf'
    cases fuel' with
    | zero => omega
    | succ fuel' =>
      have hd := quotedStep_drop (rest := rest) (k := i) (tp := tp) (p0 := p0) (q := q) (raw := raw)
        (uni := !isBytes) (isId := isId) (np := false) (i := 0) (content := content) (he := false) hi
      rw [Nat.add_zero] at hd
      simp only [quotedLoop]
      rw [hd]
      have hs := step_sim q hq raw isBytes isId (rest.drop i) content tp (p0 + i) fuel' n
      revert hs
      cases quotedStep (rest.drop i) tp (p0 + i) q raw (!isBytes) isId false 0 content false with
      | done qc =>
        simp only [QStep.shift, List.length_drop]
        intro ⟨h1, h2, h3, h4, h5, h6⟩
        refine ⟨h1, by omega, by omega, ?_, ?_⟩
        · rw [h2]; exact h4
        · rw [h6, h2]; congr 2; omega
      | fail e =>
        simp only [QStep.shift]
        intro h
        rcases h with h | ⟨h1, h2, h3⟩
        · exact Or.inl h
        · exact Or.inr ⟨h1, _, h3⟩
      | crash => simp only [QStep.shift]; exact id
      | next i' c' he' =>
        simp only [QStep.shift, List.length_drop, List.drop_drop]
        intro ⟨h1, h2, h3, h4⟩
        subst h1
        have := ih fuel' (i + i') c' (n + i') (by omega) (by omega) (by omega)
        revert this
        cases quotedLoop rest tp p0 q raw (!isBytes) isId false fuel (i + i') c' false with
        | ok qc =>
          simp only
          intro ⟨g1, g2, g3, g4, g5⟩
          refine ⟨g1, by omega, g3, g4, ?_⟩
          rw [h4, g5]; congr 2; omega
        | err e =>
          simp only
          intro g
          rw [h4]; exact g
        | crash => exact id

theorem lit_class : ∀ c : UInt8,
    ((c == 34 || c == 39) = true ∧ (c == 82 || c == 114) = false ∧ (c == 66 || c == 98) = false) ∨
    ((c == 34 || c == 39) = false ∧ (c == 82 || c == 114) = true ∧ (c == 66 || c == 98) = false) ∨
    ((c == 34 || c == 39) = false ∧ (c == 82 || c == 114) = false ∧ (c == 66 || c == 98) = true) ∨
    ((c == 34 || c == 39) = false ∧ (c == 82 || c == 114) = false ∧ (c == 66 || c == 98) = false) := by
  apply UInt8.forall_of_fin; decide +kernel

theorem strPrefix_eq (s : Bytes) :
    strPrefix s 3 0 false false = (literalPrefix s).map (fun p => (p.len, p.isBytes, p.isRaw)) := by
  match s with
  | [] => simp [strPrefix, literalPrefix]
  | [a] =>
    rcases lit_class a with ⟨h1, h2, h3⟩ | ⟨h1, h2, h3⟩ | ⟨h1, h2, h3⟩ | ⟨h1, h2, h3⟩ <;>
      simp [strPrefix, literalPrefix, h1, h2, h3]
  | [a, b] =>
    rcases lit_class a with ⟨h1, h2, h3⟩ | ⟨h1, h2, h3⟩ | ⟨h1, h2, h3⟩ | ⟨h1, h2, h3⟩ <;>
    rcases lit_class b with ⟨g1, g2, g3⟩ | ⟨g1, g2, g3⟩ | ⟨g1, g2, g3⟩ | ⟨g1, g2, g3⟩ <;>
      simp [strPrefix, literalPrefix, h1, h2, h3, g1, g2, g3]
  | a :: b :: c :: t =>
    rcases lit_class a with ⟨h1, h2, h3⟩ | ⟨h1, h2, h3⟩ | ⟨h1, h2, h3⟩ | ⟨h1, h2, h3⟩ <;>
    rcases lit_class b with ⟨g1, g2, g3⟩ | ⟨g1, g2, g3⟩ | ⟨g1, g2, g3⟩ | ⟨g1, g2, g3⟩ <;>
    rcases lit_class c with ⟨k1, k2, k3⟩ | ⟨k1, k2, k3⟩ | ⟨k1, k2, k3⟩ | ⟨k1, k2, k3⟩ <;>
      simp [strPrefix, literalPrefix, h1, h2, h3, g1, g2, g3, k1, k2, k3]

theorem peekDelimiter_eq {a : UInt8} {t : Bytes} (ha : (a == 34 || a == 39) = true) :
    peekDelimiter (a :: t) = some (delimiter (a :: t)) := by
  have hn : (a != 34 && a != 39) = false := by
    simp only [Bool.or_eq_true, beq_iff_eq] at ha
    rcases ha with rfl | rfl <;> decide
  match t with
  | [] => simp [peekDelimiter, delimiter, hn]
  | [b] => simp [peekDelimiter, delimiter, hn]
  | b :: c :: u =>
    simp only [peekDelimiter, delimiter, List.getElem?_cons_zero, hn, Bool.false_eq_true, if_false,
      List.getElem?_cons_succ]
    by_cases h1 : a = b
    · subst h1
      by_cases h2 : a = c
      · subst h2; simp
      · have : ¬ c = a := fun h => h2 h.symm
        simp [h2, this]
    · have : ¬ b = a := fun h => h1 h.symm
      simp [h1, this]

theorem delimiter_len {a : UInt8} {t : Bytes} :
    (delimiter (a :: t)).length = 1 ∨ (delimiter (a :: t)).length = 3 := by
  match t with
  | [] => simp [delimiter]
  | [b] => simp [delimiter]
  | b :: c :: u => simp only [delimiter]; split <;> simp

/-- back-quoted identifiers -/
theorem bquote_refines (t : Bytes) (p0 : Nat) :
    (∃ v n, body [96] false false (t.length + 1 + 1) t [] 1 = some (v, n) ∧ v ≠ [] ∧
      quotedTok .ident 0 (consumeQuotedContent (96 :: t) p0 [96] false true true false) =
        .ok { kind := .ident, len := n, asString := v }) ∨
    ((body [96] false false (t.length + 1 + 1) t [] 1 = none ∨
        ∃ n, body [96] false false (t.length + 1 + 1) t [] 1 = some ([], n)) ∧
      ∃ e, quotedTok .ident 0 (consumeQuotedContent (96 :: t) p0 [96] false true true false) = .err e) := by
  have h := loop_sim [96] (Or.inl rfl) false false true (96 :: t) p0 p0 ((96 :: t).length + 2) (t.length + 1 + 1) 1 [] 1
    (by simp) (by simp) (by simp)
  simp only [Bool.not_false, List.drop_succ_cons, List.drop_zero] at h
  unfold consumeQuotedContent
  simp only [List.length_singleton]
  revert h
  cases quotedLoop (96 :: t) p0 p0 [96] false true true false ((96 :: t).length + 2) 1 [] false with
  | ok qc =>
    simp only
    intro ⟨h1, h2, h3, h4, h5⟩
    left
    refine ⟨qc.content, 1 + (qc.len - 1), h5, h4 (by trivial), ?_⟩
    simp only [quotedTok, h1, Bool.false_eq_true, if_false, Nat.zero_add]
    congr 2; omega
  | err e =>
    simp only
    intro h
    right
    refine ⟨?_, e, rfl⟩
    rcases h with h | ⟨_, m, h⟩
    · exact Or.inl h
    · exact Or.inr ⟨m, h⟩
  | crash => exact fun h => h.elim

theorem literalPrefix_some {s : Bytes} {p : Prefix} (hp : literalPrefix s = some p) :
    p.len < s.length ∧ ∃ a t, s.drop p.len = a :: t ∧ (a == 34 || a == 39) = true := by
  have h1 := strPrefix_eq s
  rw [hp] at h1
  simp only [Option.map_some] at h1
  obtain ⟨hlt, hq⟩ := strPrefix_some h1
  refine ⟨hlt, ?_⟩
  rcases hq with hq | hq
  · exact ⟨34, _, drop_of_getElem? hq, by decide⟩
  · exact ⟨39, _, drop_of_getElem? hq, by decide⟩

/-- string and bytes literals -/
theorem string_refines (s : Bytes) (c : UInt8) (p0 : Nat) (p : Prefix) (hp : literalPrefix s = some p) :
    (∃ v n, body (delimiter (s.drop p.len)) p.isRaw p.isBytes (s.length + 1)
          ((s.drop p.len).drop (delimiter (s.drop p.len)).length) [] (p.len + (delimiter (s.drop p.len)).length) = some (v, n) ∧
        stringTok s c p0 false = .ok { kind := if p.isBytes then .bytes else .string, len := n, asString := v }) ∨
    (body (delimiter (s.drop p.len)) p.isRaw p.isBytes (s.length + 1)
          ((s.drop p.len).drop (delimiter (s.drop p.len)).length) [] (p.len + (delimiter (s.drop p.len)).length) = none ∧
      ∃ e, stringTok s c p0 false = .err e) := by
  obtain ⟨hlt, a, t, hd, ha⟩ := literalPrefix_some hp
  have hsp := strPrefix_eq s
  rw [hp] at hsp
  simp only [Option.map_some] at hsp
  have hpd := peekDelimiter_eq (t := t) ha
  have hql := delimiter_len (a := a) (t := t)
  have hqle := (peekDelimiter_some hpd).2
  unfold stringTok
  simp only [hsp, hd, hpd]
  generalize delimiter (a :: t) = q at hql hqle ⊢
  have hlen : (a :: t).length = s.length - p.len := by rw [← hd]; simp
  have h := loop_sim q hql p.isRaw p.isBytes false (a :: t) (p0 + p.len) (p0 + p.len) ((a :: t).length + 2)
    (s.length + 1) q.length [] (p.len + q.length) hqle (by omega) (by omega)
  unfold consumeQuotedContent
  revert h
  cases quotedLoop (a :: t) (p0 + p.len) (p0 + p.len) q p.isRaw (!p.isBytes) false false ((a :: t).length + 2)
      q.length [] false with
  | ok qc =>
    simp only
    intro ⟨h1, h2, h3, h4, h5⟩
    left
    refine ⟨qc.content, _, h5, ?_⟩
    simp only [quotedTok, h1, Bool.false_eq_true, if_false]
    congr 2; omega
  | err e =>
    simp only
    intro h
    right
    refine ⟨?_, e, rfl⟩
    rcases h with h | ⟨h, _⟩
    · exact h
    · cases h
  | crash => exact fun h => h.elim

end MF.Refine
