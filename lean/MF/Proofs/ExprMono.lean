/-
  MF.Proofs.ExprMono — fuel monotonicity of the expression parser model: an answer other than `outOfFuel`
  survives more fuel (ok / raise / outside / crash are stable).  One record over all mutually recursive functions,
  by induction on fuel.
-/
import MF.Proofs.ExprBasic
namespace MF.Expr

/-! ## the type of a CAST (the loop of `parseIdentOrPath` in the type model) -/

theorem pathLoop_mono : ∀ (f : Nat) (ts : List Token),
    TypeP.pathLoop f ts = .outOfFuel ∨ TypeP.pathLoop (f + 1) ts = TypeP.pathLoop f ts
  | 0, _ => Or.inl rfl
  | f + 1, ts => by
    have e1 : TypeP.pathLoop (f + 1) ts = (if TypeP.cur ts = .dot then
        (TypeP.parseIdent ts.tail).bind fun p => (TypeP.pathLoop f p.2).bind fun q => .ok (p.1 :: q.1, q.2)
      else .ok ([], ts)) := by simp only [TypeP.pathLoop]
    have e2 : TypeP.pathLoop (f + 1 + 1) ts = (if TypeP.cur ts = .dot then
        (TypeP.parseIdent ts.tail).bind fun p => (TypeP.pathLoop (f + 1) p.2).bind fun q => .ok (p.1 :: q.1, q.2)
      else .ok ([], ts)) := by simp only [TypeP.pathLoop]
    rw [e1, e2]
    split
    · cases hi : TypeP.parseIdent ts.tail with
      | ok p =>
        simp only [TypeP.Res.bind_ok]
        rcases pathLoop_mono f p.2 with h | h
        · left; rw [h]; rfl
        · right; rw [h]
      | raise => right; rfl
      | outOfFuel => left; rfl
    · right; rfl

theorem castType_le (f : Nat) (ts : List Token) : Le (castType f ts) (castType (f + 1) ts) := by
  by_cases hc : TypeP.cur ts = .ident
  · by_cases hs : TypeP.lookaheadSimpleType ts = true
    · right; simp [castType, hc, hs]
    · have hs' : TypeP.lookaheadSimpleType ts = false := by simpa using hs
      obtain ⟨t, tl, rfl, ht⟩ := TypeP.cur_ne_eof hc (by decide)
      have hk := TypeP.tk_ident.1 ht
      cases f with
      | zero => left; exact castType_zero _ hc hs'
      | succ f =>
        rw [castType_succ hk hs', castType_succ hk hs']
        rcases pathLoop_mono f tl with h | h
        · left; rw [h]
        · right; rw [h]
  · right
    unfold castType
    split
    · rename_i h; exact absurd h hc
    all_goals rfl

structure MonoAt (f : Nat) : Prop where
  expr : ∀ ts, Le (parseExpr f ts) (parseExpr (f + 1) ts)
  or_ : ∀ ts, Le (parseOr f ts) (parseOr (f + 1) ts)
  orLoop : ∀ e ts, Le (orLoop f e ts) (orLoop (f + 1) e ts)
  and_ : ∀ ts, Le (parseAnd f ts) (parseAnd (f + 1) ts)
  andLoop : ∀ e ts, Le (andLoop f e ts) (andLoop (f + 1) e ts)
  not_ : ∀ ts, Le (parseNot f ts) (parseNot (f + 1) ts)
  cmp : ∀ ts, Le (parseComparison f ts) (parseComparison (f + 1) ts)
  btw : ∀ n e ts, Le (parseBetweenTail f n e ts) (parseBetweenTail (f + 1) n e ts)
  inCond : ∀ ts, Le (parseInCondition f ts) (parseInCondition (f + 1) ts)
  inList : ∀ ts, Le (inListLoop f ts) (inListLoop (f + 1) ts)
  bitOr : ∀ ts, Le (parseBitOr f ts) (parseBitOr (f + 1) ts)
  bitOrLoop : ∀ e ts, Le (bitOrLoop f e ts) (bitOrLoop (f + 1) e ts)
  bitXor : ∀ ts, Le (parseBitXor f ts) (parseBitXor (f + 1) ts)
  bitXorLoop : ∀ e ts, Le (bitXorLoop f e ts) (bitXorLoop (f + 1) e ts)
  bitAnd : ∀ ts, Le (parseBitAnd f ts) (parseBitAnd (f + 1) ts)
  bitAndLoop : ∀ e ts, Le (bitAndLoop f e ts) (bitAndLoop (f + 1) e ts)
  shift : ∀ ts, Le (parseBitShift f ts) (parseBitShift (f + 1) ts)
  shiftLoop : ∀ e ts, Le (shiftLoop f e ts) (shiftLoop (f + 1) e ts)
  add : ∀ ts, Le (parseAddSub f ts) (parseAddSub (f + 1) ts)
  addLoop : ∀ e ts, Le (addLoop f e ts) (addLoop (f + 1) e ts)
  mul : ∀ ts, Le (parseMulDiv f ts) (parseMulDiv (f + 1) ts)
  mulLoop : ∀ e ts, Le (mulLoop f e ts) (mulLoop (f + 1) e ts)
  unary : ∀ ts, Le (parseUnary f ts) (parseUnary (f + 1) ts)
  sel : ∀ ts, Le (parseSelector f ts) (parseSelector (f + 1) ts)
  selLoop : ∀ e ts, Le (selLoop f e ts) (selLoop (f + 1) e ts)
  idx : ∀ ts, Le (parseIndexSpecifier f ts) (parseIndexSpecifier (f + 1) ts)
  lit : ∀ ts, Le (parseLit f ts) (parseLit (f + 1) ts)
  paren : ∀ ts, Le (parseParenExpr f ts) (parseParenExpr (f + 1) ts)
  caseE : ∀ ts, Le (parseCaseExpr f ts) (parseCaseExpr (f + 1) ts)
  caseLoop : ∀ ts, Le (caseWhenLoop f ts) (caseWhenLoop (f + 1) ts)
  caseWhen : ∀ ts, Le (parseCaseWhen f ts) (parseCaseWhen (f + 1) ts)
  caseElse : ∀ ts, Le (parseCaseElse f ts) (parseCaseElse (f + 1) ts)
  ifE : ∀ ts, Le (parseIfExpr f ts) (parseIfExpr (f + 1) ts)
  arr : ∀ ts, Le (parseSimpleArrayLiteral f ts) (parseSimpleArrayLiteral (f + 1) ts)
  cast : ∀ ts, Le (parseCastExpr f ts) (parseCastExpr (f + 1) ts)

theorem mono_zero : MonoAt 0 := by
  constructor <;> intros <;> exact Le.oof _

/-- close a goal `Le (body at f) (body at f+1)` after both sides have been unfolded once -/
macro "le_auto" ih:ident : tactic => `(tactic| (
  repeat' first
    | exact Le.refl _
    | exact ($ih).expr _ | exact ($ih).or_ _ | exact ($ih).orLoop _ _ | exact ($ih).and_ _ | exact ($ih).andLoop _ _
    | exact ($ih).not_ _ | exact ($ih).cmp _ | exact ($ih).btw _ _ _ | exact ($ih).inCond _ | exact ($ih).inList _
    | exact ($ih).bitOr _ | exact ($ih).bitOrLoop _ _ | exact ($ih).bitXor _ | exact ($ih).bitXorLoop _ _
    | exact ($ih).bitAnd _ | exact ($ih).bitAndLoop _ _ | exact ($ih).shift _ | exact ($ih).shiftLoop _ _
    | exact ($ih).add _ | exact ($ih).addLoop _ _ | exact ($ih).mul _ | exact ($ih).mulLoop _ _
    | exact ($ih).unary _ | exact ($ih).sel _ | exact ($ih).selLoop _ _ | exact ($ih).idx _ | exact ($ih).lit _
    | exact ($ih).paren _
    | exact ($ih).caseE _ | exact ($ih).caseLoop _ | exact ($ih).caseWhen _ | exact ($ih).caseElse _ | exact ($ih).ifE _
    | exact ($ih).arr _ | exact ($ih).cast _ | exact castType_le _ _
    | apply Le.bind
    | intro _
    | split))

theorem mono_succ {f : Nat} (ih : MonoAt f) : MonoAt (f + 1) where
  expr := by intro ts; simp only [parseExpr]; le_auto ih
  or_ := by intro ts; simp only [parseOr]; le_auto ih
  orLoop := by intro e ts; simp only [orLoop]; le_auto ih
  and_ := by intro ts; simp only [parseAnd]; le_auto ih
  andLoop := by intro e ts; simp only [andLoop]; le_auto ih
  not_ := by intro ts; simp only [parseNot]; le_auto ih
  cmp := by intro ts; simp only [parseComparison]; le_auto ih
  btw := by intro n e ts; simp only [parseBetweenTail]; le_auto ih
  inCond := by intro ts; simp only [parseInCondition]; le_auto ih
  inList := by intro ts; simp only [inListLoop]; le_auto ih
  bitOr := by intro ts; simp only [parseBitOr]; le_auto ih
  bitOrLoop := by intro e ts; simp only [bitOrLoop]; le_auto ih
  bitXor := by intro ts; simp only [parseBitXor]; le_auto ih
  bitXorLoop := by intro e ts; simp only [bitXorLoop]; le_auto ih
  bitAnd := by intro ts; simp only [parseBitAnd]; le_auto ih
  bitAndLoop := by intro e ts; simp only [bitAndLoop]; le_auto ih
  shift := by intro ts; simp only [parseBitShift]; le_auto ih
  shiftLoop := by intro e ts; simp only [shiftLoop]; le_auto ih
  add := by intro ts; simp only [parseAddSub]; le_auto ih
  addLoop := by intro e ts; simp only [addLoop]; le_auto ih
  mul := by intro ts; simp only [parseMulDiv]; le_auto ih
  mulLoop := by intro e ts; simp only [mulLoop]; le_auto ih
  unary := by intro ts; simp only [parseUnary]; le_auto ih
  sel := by intro ts; simp only [parseSelector]; le_auto ih
  selLoop := by intro e ts; simp only [selLoop]; le_auto ih
  idx := by intro ts; simp only [parseIndexSpecifier]; le_auto ih
  lit := by intro ts; simp only [parseLit]; le_auto ih
  paren := by intro ts; simp only [parseParenExpr]; le_auto ih
  caseE := by intro ts; simp only [parseCaseExpr]; le_auto ih
  caseLoop := by intro ts; simp only [caseWhenLoop]; le_auto ih
  caseWhen := by intro ts; simp only [parseCaseWhen]; le_auto ih
  caseElse := by intro ts; simp only [parseCaseElse]; le_auto ih
  ifE := by intro ts; simp only [parseIfExpr]; le_auto ih
  arr := by intro ts; simp only [parseSimpleArrayLiteral]; le_auto ih
  cast := by intro ts; simp only [parseCastExpr]; le_auto ih

theorem mono_all : ∀ f, MonoAt f
  | 0 => mono_zero
  | f + 1 => mono_succ (mono_all f)

theorem le_of_le {α : Type} {p : Nat → Res α} (h : ∀ f, Le (p f) (p (f + 1))) {n m : Nat} (hnm : n ≤ m) :
    Le (p n) (p m) := by
  induction hnm with
  | refl => exact Le.refl _
  | step _ ih =>
    rcases ih with ih | ih
    · exact Or.inl ih
    · rw [ih]; exact h _

/-- **Fuel monotonicity.**  Once `parseExpr` answers (a tree, a syntax error, "outside the fragment"), every larger
fuel gives the same answer. -/
theorem parseExpr_mono {n m : Nat} {ts : List Token} {r : PR} (hnm : n ≤ m) (h : parseExpr n ts = r)
    (hr : r ≠ .outOfFuel) : parseExpr m ts = r :=
  (le_of_le (p := fun f => parseExpr f ts) (fun f => (mono_all f).expr ts) hnm).eq h hr

/-- an answer with some fuel is the eventual answer -/
theorem parseExpr_ev {n : Nat} {ts : List Token} {r : PR} (h : parseExpr n ts = r) (hr : r ≠ .outOfFuel) :
    Ev (fun f => parseExpr f ts) r :=
  ⟨n, fun _ hf => parseExpr_mono hf h hr⟩

end MF.Expr
