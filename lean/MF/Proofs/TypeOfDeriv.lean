/-
  MF.Proofs.TypeOfDeriv — from a derivation of G_T over the kinds of a token list to THE tree of that derivation:
  `typeD_tree`: if `TypeD (toks.map kind)`, there is a `wf` tree whose yield matches `toks` (no side condition since
  the repair of `lookaheadSimpleType`: `date.T` is the named type the grammar says it is).
  (Together with `parseTypeTop_complete` this is C08 for types; `Match` + `wf` determine the tree uniquely, see
  `MF.Proofs.TypeUnique`.)
-/
import MF.Proofs.TypeDeriv
namespace MF.TypeP
open MF.TypeG

/-- what the induction proves for one kind sequence -/
def TreeOf (ks : List TokKind) : Prop :=
  ∀ (mid : List Token), mid.map (·.kind) = ks → ∃ t, wf t = true ∧ Match (yieldT t) mid

theorem tk_of_kind {t : Token} {c : TK} (h : t.kind = kindOf c) (hc : c ≠ .other) : tk t.kind = c := by
  rw [h]; exact tk_kindOf c hc

/-- the identifiers of `ident { "." ident }` -/
theorem path_idents (n : Nat) : ∀ (mid : List Token), mid.map (·.kind) = pathKinds n →
    ∃ a ids, Match (yieldPath (a :: ids)) mid ∧ ids.length = n ∧
      ∃ t0 r, mid = t0 :: r ∧ t0.kind = .ident ∧ a.name = t0.asString ∧ (n = 0 → r = []) := by
  induction n with
  | zero =>
    intro mid h
    simp only [pathKinds, List.map_eq_cons_iff, List.map_eq_nil_iff] at h
    obtain ⟨t0, r, rfl, hk, rfl⟩ := h
    refine ⟨⟨t0.pos, t0.end, t0.asString⟩, [], ?_, rfl, t0, [], rfl, hk, rfl, fun _ => rfl⟩
    exact ⟨⟨tk_of_kind (c := .ident) hk (by decide), rfl⟩, trivial⟩
  | succ n ih =>
    intro mid h
    simp only [pathKinds, List.map_eq_cons_iff] at h
    obtain ⟨t0, r, rfl, hk, d, r', rfl, hd, hr⟩ := h
    obtain ⟨b, ids, hm, hl, _⟩ := ih r' hr
    refine ⟨⟨t0.pos, t0.end, t0.asString⟩, b :: ids, ?_, by simp [hl], t0, d :: r', rfl, hk, rfl,
      fun h => by omega⟩
    simp only [yieldPath]
    exact ⟨⟨tk_of_kind (c := .ident) hk (by decide), rfl⟩, tk_of_kind (c := .dot) hd (by decide), hm⟩

/-- `ident { "." ident }`: ONE identifier that reads as a simple type name is that `SimpleType`; everything else —
in particular every dotted path, whatever its first component spells (`date.T`) — is a `NamedType` -/
theorem path_tree (n : Nat) : TreeOf (pathKinds n) := by
  intro mid hk
  obtain ⟨a, ids, hm, hl, t0, r, rfl, hk0, ha, h0⟩ := path_idents n mid hk
  cases ids with
  | nil =>
    have hn : n = 0 := by simpa using hl.symm
    have := h0 hn; subst this
    cases hs : simpleOf t0.asString with
    | none =>
      refine ⟨.named [a], by simp [wf, ha, hs], hm⟩
    | some nm =>
      refine ⟨.simple t0.pos nm, rfl, ?_⟩
      simp only [yieldT]
      refine ⟨⟨tk_of_kind (c := .ident) hk0 (by decide), rfl, ?_⟩, trivial⟩
      rw [simpleName?_eq' hk0, hs]
  | cons b ids => exact ⟨.named (a :: b :: ids), rfl, hm⟩
where
  simpleName?_eq' {t : Token} (h : t.kind = .ident) : simpleName? t = simpleOf t.asString := by
    unfold simpleName? simpleOf
    congr 1
    funext n
    simp [Token.isIdent, h]

theorem array_tree {ks : List TokKind} (ih : TreeOf ks) : TreeOf (K "ARRAY" :: K "<" :: ks ++ [K ">"]) := by
  intro mid hk
  simp only [List.map_eq_cons_iff, List.map_eq_append_iff, List.map_eq_nil_iff] at hk
  obtain ⟨l1, l2, rfl, ⟨tA, r1, rfl, hA, tL, inner, rfl, hL, hi⟩, tG, r3, rfl, hG, rfl⟩ := hk
  obtain ⟨t, hw, hm⟩ := ih inner hi
  refine ⟨.array tA.pos tG.pos t, by simpa [wf] using hw, ?_⟩
  simp only [yieldT]
  refine ⟨⟨tk_of_kind (c := .array) hA (by decide), rfl⟩, tk_of_kind (c := .lt) hL (by decide), ?_⟩
  exact hm.append ⟨⟨tk_of_kind (c := .gt) hG (by decide), rfl⟩, trivial⟩

/-- one field -/
theorem field_tree {f : Bool × List TokKind} (ih : TreeOf f.2) :
    ∀ (mid : List Token), mid.map (·.kind) = fieldKinds f →
      ∃ i t, wf t = true ∧ Match (yieldName i ++ yieldT t) mid := by
  intro mid hk
  obtain ⟨named, ks⟩ := f
  cases named with
  | false =>
    simp only [fieldKinds, Bool.false_eq_true, if_false, List.nil_append] at hk
    obtain ⟨t, hw, hm⟩ := ih mid hk
    exact ⟨none, t, hw, by simpa [yieldName] using hm⟩
  | true =>
    simp only [fieldKinds, if_true, List.cons_append, List.nil_append, List.map_eq_cons_iff] at hk
    obtain ⟨n, r, rfl, hn, hr⟩ := hk
    obtain ⟨t, hw, hm⟩ := ih r hr
    refine ⟨some ⟨n.pos, n.end, n.asString⟩, t, hw, ?_⟩
    simp only [yieldName, List.cons_append, List.nil_append]
    exact ⟨⟨tk_of_kind (c := .ident) hn (by decide), rfl⟩, hm⟩

/-- the fields after the first, each preceded by its comma -/
theorem more_tree (fs : List (Bool × List TokKind)) (ih : ∀ f ∈ fs, TreeOf f.2) :
    ∀ (mid : List Token), mid.map (·.kind) = (fs.map (fun f => [K ","] ++ fieldKinds f)).flatten →
      ∃ F, wfs F = true ∧ Match (yieldMore F) mid := by
  induction fs with
  | nil =>
    intro mid hk
    simp only [List.map_nil, List.flatten_nil, List.map_eq_nil_iff] at hk
    subst hk
    exact ⟨.nil, rfl, trivial⟩
  | cons f fs ihf =>
    intro mid hk
    simp only [List.map_cons, List.flatten_cons, List.cons_append, List.nil_append, List.map_eq_cons_iff,
      List.map_eq_append_iff] at hk
    obtain ⟨c, r, rfl, hc, pf, pm, rfl, hpf, hpm⟩ := hk
    obtain ⟨i, t, hw, hm⟩ := field_tree (ih f (by simp)) pf hpf
    obtain ⟨F, hwF, hmF⟩ := ihf (fun g hg => ih g (by simp [hg])) pm hpm
    refine ⟨.cons i t F, by simp [wfs, hw, hwF], ?_⟩
    simp only [yieldMore, List.cons_append]
    refine ⟨tk_of_kind (c := .comma) hc (by decide), ?_⟩
    exact hm.append hmF

theorem struct_tree (fs : List (Bool × List TokKind)) (ih : ∀ f ∈ fs, TreeOf f.2) :
    TreeOf (K "STRUCT" :: K "<" :: sepBy [K ","] (fs.map fieldKinds) ++ [K ">"]) := by
  intro mid hk
  simp only [List.map_eq_cons_iff, List.map_eq_append_iff, List.map_eq_nil_iff] at hk
  obtain ⟨l1, l2, rfl, ⟨tS, r1, rfl, hS, tL, inner, rfl, hL, hi⟩, tG, r3, rfl, hG, rfl⟩ := hk
  have hfields : ∃ F, wfs F = true ∧ Match (yieldFs F) inner := by
    cases fs with
    | nil =>
      simp only [List.map_nil, sepBy, List.map_eq_nil_iff] at hi
      subst hi
      exact ⟨.nil, rfl, trivial⟩
    | cons f fs =>
      rw [List.map_cons, sepBy_cons] at hi
      simp only [List.map_map, List.map_eq_append_iff] at hi
      obtain ⟨pf, pm, rfl, hpf, hpm⟩ := hi
      obtain ⟨i, t, hw, hm⟩ := field_tree (ih f (by simp)) pf hpf
      obtain ⟨F, hwF, hmF⟩ := more_tree fs (fun g hg => ih g (by simp [hg])) pm
        (by simpa [Function.comp_def] using hpm)
      exact ⟨.cons i t F, by simp [wfs, hw, hwF], by simpa only [yieldFs] using hm.append hmF⟩
  obtain ⟨F, hwF, hmF⟩ := hfields
  refine ⟨.struct tS.pos tG.pos F, by simpa [wf] using hwF, ?_⟩
  simp only [yieldT]
  refine ⟨⟨tk_of_kind (c := .struct_) hS (by decide), rfl⟩, tk_of_kind (c := .lt) hL (by decide), ?_⟩
  exact hmF.append ⟨⟨tk_of_kind (c := .gt) hG (by decide), rfl⟩, trivial⟩

theorem typeD_treeOf {ks : List TokKind} (h : TypeD ks) : TreeOf ks := by
  induction h with
  | path n => exact path_tree n
  | array _ ih => exact array_tree ih
  | struct fs _ ih => exact struct_tree fs ih

/-- every sentence of G_T (as the kinds of ANY token list, no side condition) has a tree -/
theorem typeD_tree {toks : List Token} (h : TypeD (toks.map (·.kind))) :
    ∃ t, wf t = true ∧ Match (yieldT t) toks :=
  typeD_treeOf h toks rfl

end MF.TypeP
