/-
  MF.Proofs.ExprRoundTrip — the printed text of an expression lexes to the printer's tokens.

  `lex_expr`: for every tree whose leaves are lexer-producible (`LexWF`), the model lexer reads `sqlE e` (the model
  of the `SQL()` methods), in any context that starts with a blank, `)`, `]`, `,`, `[` or the end of the input, as
  exactly the tokens `sqlToks e`.  The proof is a structural induction carried out on runs of the reference lexer
  (`MF.Concat.SRun`, seen through the C07 projection: `PRun`); every constructor case composes one-token runs
  (MF/Proofs/ExprLexToks.lean) and the induction hypotheses by concatenation.
-/
import MF.Proofs.ExprLexToks
import MF.Proofs.LexTokShape
import MF.Proofs.ExprPrint
import MF.Proofs.ExprMono
import MF.Proofs.StmtList
set_option linter.unusedSimpArgs false
set_option linter.unusedVariables false
namespace MF.Expr
open MF MF.Lex MF.Spec.Lexical MF.Concat

/-! ## well-formed leaves -/

/-- an identifier value the lexer can produce: not empty -/
def identOK (n : Bytes) : Bool := !n.isEmpty

mutual
/-- every leaf of the tree carries a value the lexer can produce: integer / floating-point spellings are, alone,
exactly one numeric literal of that kind; identifier names are not empty; parameter names are a letter or `_`
followed by identifier characters; a path has at least one name.  String and bytes values are arbitrary. -/
def lexWF : Expr → Bool
  | .null | .bool _ | .str _ | .bytes _ => true
  | .int _ raw => numOK true raw
  | .float _ raw => numOK false raw
  | .param n => paramOK n
  | .ident n => identOK n
  | .path ns => !ns.isEmpty && ns.all identOK
  | .paren e => lexWF e
  | .unary _ e => lexWF e
  | .bin _ l r => lexWF l && lexWF r
  | .isNull e _ => lexWF e
  | .isBool e _ _ => lexWF e
  | .between _ e lo hi => lexWF e && lexWF lo && lexWF hi
  | .inList _ e f m => lexWF e && lexWF f && lexWFs m
  | .inUnnest _ e a => lexWF e && lexWF a
  | .sel e n => lexWF e && identOK n
  | .index e _ i => lexWF e && lexWF i
  | .caseE o c t ws el => lexWFo o && lexWF c && lexWF t && lexWFw ws && lexWFo el
  | .ifE c t e => lexWF c && lexWF t && lexWF e
  | .array es => lexWFs es
  | .cast e ns => lexWF e && (!ns.isEmpty && ns.all identOK)
def lexWFs : Exprs → Bool
  | .nil => true
  | .cons e es => lexWF e && lexWFs es
def lexWFw : Whens → Bool
  | .nil => true
  | .cons c t ws => lexWF c && lexWF t && lexWFw ws
def lexWFo : OExpr → Bool
  | .none => true
  | .some e => lexWF e
end

def LexWF (e : Expr) : Prop := lexWF e = true
instance (e : Expr) : Decidable (LexWF e) := inferInstanceAs (Decidable (_ = _))

/-! ## the spellings the printer uses -/

theorem B_vals :
    B "NULL" = [78, 85, 76, 76] ∧ B "TRUE" = [84, 82, 85, 69] ∧ B "FALSE" = [70, 65, 76, 83, 69] ∧
    B "@" = [64] ∧ B "." = [46] ∧ B "(" = [40] ∧ B ")" = [41] ∧ B " " = [32] ∧ B "[" = [91] ∧ B "]" = [93] ∧
    B ", " = [44, 32] ∧ B " IS " = [32, 73, 83, 32] ∧ B "NOT " = [78, 79, 84, 32] ∧ B " NOT" = [32, 78, 79, 84] ∧
    B " BETWEEN " = [32, 66, 69, 84, 87, 69, 69, 78, 32] ∧ B " AND " = [32, 65, 78, 68, 32] ∧
    B " IN " = [32, 73, 78, 32] ∧ B "UNNEST(" = [85, 78, 78, 69, 83, 84, 40] ∧
    B "+" = [43] ∧ B "-" = [45] ∧ B "~" = [126] ∧ B "NOT" = [78, 79, 84] := by decide

theorem kw_vals :
    kwOK [78, 85, 76, 76] = true ∧ kwOK [84, 82, 85, 69] = true ∧ kwOK [70, 65, 76, 83, 69] = true ∧
    kwOK [78, 79, 84] = true ∧ kwOK [73, 83] = true ∧ kwOK [66, 69, 84, 87, 69, 69, 78] = true ∧
    kwOK [65, 78, 68] = true ∧ kwOK [73, 78] = true ∧ kwOK [85, 78, 78, 69, 83, 84] = true := by decide +kernel

theorem kw_tks :
    symTK [78, 85, 76, 76] = .null ∧ symTK [84, 82, 85, 69] = .true_ ∧ symTK [70, 65, 76, 83, 69] = .false_ ∧
    symTK [78, 79, 84] = .not_ ∧ symTK [73, 83] = .is_ ∧ symTK [66, 69, 84, 87, 69, 69, 78] = .between ∧
    symTK [65, 78, 68] = .and_ ∧ symTK [73, 78] = .in_ ∧ symTK [85, 78, 78, 69, 83, 84] = .unnest ∧
    symTK [40] = .lparen ∧ symTK [41] = .rparen ∧ symTK [91] = .lbrack ∧ symTK [93] = .rbrack ∧
    symTK [44] = .comma ∧ symTK [126] = .tilde := by decide

/-- keyword run with the class given explicitly -/
theorem prun_kw' (w : Bytes) (hw : kwOK w = true) {c : TK} (hc : symTK w = c) (k : Nat) (lk : TokKind) {X : Bytes}
    (hX : headSat isIdentChar X = false) (hQ : headSat isQuote X = false) :
    PRun (List.replicate k 32 ++ (w ++ X)) lk false [T c] X (.sym w) false := hc ▸ prun_kw w hw k lk hX hQ

theorem prun_single' (c : UInt8) (hc : c ∈ singles) (h47 : c ≠ 47) {tkc : TK} (htk : symTK [c] = tkc) (k : Nat)
    (lk : TokKind) (X : Bytes) :
    PRun (List.replicate k 32 ++ (c :: X)) lk false [T tkc] X (.sym [c]) false := htk ▸ prun_single c hc h47 k lk X

/-! ## the induction hypothesis -/

/-- what may follow the text of `e`: end of input, blank, `)`, `]`, `,`, `[`; or `.` when `e` is printed without
parentheses as the operand of a field access (and is not an integer literal, after which the printer puts a blank) -/
def FolOK (e : Expr) (X : Bytes) : Prop :=
  folB X = true ∨ (folDot X = true ∧ exprPrec e ≤ 1 ∧ isIntLit e = false)

/-- `sqlE e`, after `k` blanks and a token that does not enable dot-identifier mode, in front of any admissible
suffix, is lexed as `sqlToks e` -/
def LexIH (e : Expr) : Prop :=
  ∀ (k : Nat) (lk : TokKind) (X : Bytes), dotEnables lk = false → FolOK e X →
    ∃ lk', PRun (List.replicate k 32 ++ (sqlE e ++ X)) lk false (sqlToks e) X lk' false

theorem FolOK.fol {e : Expr} {X : Bytes} (h : FolOK e X) : folB X = true ∨ folDot X = true := h.imp id (·.1)

theorem FolOK.folB_of_prec {e : Expr} {X : Bytes} (h : FolOK e X) (hp : 1 < exprPrec e) : folB X = true := by
  rcases h with h | ⟨_, h2, _⟩
  · exact h
  · omega

/-- `paren(p, e)`: the operand in place, or between parentheses (then anything may follow) -/
theorem lex_parenS {e : Expr} (ih : LexIH e) (p k : Nat) (lk : TokKind) (X : Bytes) (hlk : dotEnables lk = false)
    (hX : folB X = true ∨ (folDot X = true ∧ (exprPrec e ≤ p → exprPrec e ≤ 1 ∧ isIntLit e = false))) :
    ∃ lk', PRun (List.replicate k 32 ++ (parenS p e (sqlE e) ++ X)) lk false (parenT p e (sqlToks e)) X lk' false := by
  obtain ⟨_, _, _, _, _, bL, bR, _⟩ := B_vals
  obtain ⟨_, _, _, _, _, _, _, _, _, tL, tR, _⟩ := kw_tks
  unfold parenS parenT
  by_cases h : exprPrec e ≤ p
  · simp only [h, if_true]
    exact ih k lk X hlk (hX.imp id (fun ⟨a, b⟩ => ⟨a, b h⟩))
  · simp only [h, if_false, bL, bR, List.append_assoc, List.cons_append, List.nil_append]
    have h1 := prun_single' 40 (by decide) (by decide) tL k lk (sqlE e ++ 41 :: X)
    obtain ⟨lk2, h2⟩ := ih 0 (.sym [40]) (41 :: X) (by decide) (Or.inl rfl)
    have h3 := prun_single' 41 (by decide) (by decide) tR 0 lk2 X
    exact ⟨_, h1.append (h2.append h3)⟩

/-! ## the first byte of a printed expression -/

/-- first bytes of expression texts: a letter or `_`, a digit, `.`, a quote, `@`, a back-quote, `(`, `+`, `-`, `~`, `[` -/
def startOK (c : UInt8) : Bool :=
  isLetter c || isDigit c || c == 46 || c == 34 || c == 39 || c == 64 || c == 96 || c == 40 || c == 43 ||
    c == 45 || c == 126 || c == 91

def StartsOK (s : Bytes) : Prop := ∃ c t, s = c :: t ∧ startOK c = true

theorem startOK_facts : ∀ c : UInt8, startOK c = true → (c == 61) = false ∧ (c == 62) = false := by
  apply UInt8.forall_of_fin; decide +kernel

theorem starts_head {s : Bytes} (c : UInt8) (h : s.head? = some c) (hc : startOK c = true) : StartsOK s := by
  cases s with
  | nil => simp at h
  | cons a t => simp only [List.head?_cons, Option.some.injEq] at h; subst h; exact ⟨a, t, rfl, hc⟩

theorem StartsOK.append {s : Bytes} (h : StartsOK s) (X : Bytes) : StartsOK (s ++ X) := by
  obtain ⟨c, t, rfl, hc⟩ := h
  exact ⟨c, t ++ X, rfl, hc⟩

theorem StartsOK.parenS {s : Bytes} (h : StartsOK s) (p : Nat) (e : Expr) : StartsOK (parenS p e s) := by
  unfold Expr.parenS
  split
  · exact h
  · exact ⟨40, s ++ B ")", by simp [B_vals.2.2.2.2.2.1], by decide⟩

/-- the head of `Ident.SQL()`: a letter, `_`, or a back-quote -/
theorem identSQL_head {n : Bytes} (hn : identOK n = true) :
    ∃ c t, identSQL n = c :: t ∧ (isLetter c = true ∨ c = 96) := by
  match n, hn with
  | c :: t, _ =>
    unfold identSQL Quote.quoteIdent Quote.needQuoteIdent
    by_cases hkw : isKeyword (c :: t) = true
    · simp only [hkw, if_true, Option.getD_some]
      exact ⟨96, _, rfl, Or.inr rfl⟩
    · have hkw' : isKeyword (c :: t) = false := by simpa using hkw
      simp only [hkw', Bool.false_eq_true, if_false]
      by_cases hq : (!Char.isIdentStart c || !(c :: t).all Char.isIdentPart) = true
      · simp only [hq, Option.getD_some]
        exact ⟨96, _, rfl, Or.inr rfl⟩
      · have hq' : (!Char.isIdentStart c || !(c :: t).all Char.isIdentPart) = false := by simpa using hq
        simp only [hq', Option.getD_some]
        simp only [Bool.or_eq_false_iff, Bool.not_eq_false'] at hq'
        exact ⟨c, t, rfl, Or.inl (MF.Refine.isIdentStart_eq ▸ hq'.1)⟩

theorem letter_startOK : ∀ c : UInt8, isLetter c = true ∨ c = 96 → startOK c = true ∧ isDigit c = false := by
  apply UInt8.forall_of_fin; decide +kernel

theorem digit_startOK : ∀ c : UInt8, isDigit c = true ∨ c = 46 → startOK c = true ∧ (c == 61) = false ∧
    (c == 62) = false ∧ c ≠ 45 := by
  apply UInt8.forall_of_fin; decide +kernel

theorem identSQL_starts {n : Bytes} (hn : identOK n = true) : StartsOK (identSQL n) := by
  obtain ⟨c, t, h, hc⟩ := identSQL_head hn
  exact ⟨c, t, h, (letter_startOK c hc).1⟩

theorem identSQL_noDigit {n : Bytes} (hn : identOK n = true) (X : Bytes) : headSat isDigit (identSQL n ++ X) = false := by
  obtain ⟨c, t, h, hc⟩ := identSQL_head hn
  rw [h]
  exact (letter_startOK c hc).2

theorem joinBytes_cons2 (sep a b : Bytes) (rest : List Bytes) :
    joinBytes sep (a :: b :: rest) = a ++ sep ++ joinBytes sep (b :: rest) := rfl

theorem numOK_starts {isInt : Bool} {raw : Bytes} (h : numOK isInt raw = true) : StartsOK raw := by
  simp only [numOK, Bool.and_eq_true] at h
  obtain ⟨c, t, rfl, hc⟩ := numStart_head h.1.1
  exact ⟨c, t, rfl, (digit_startOK c hc).1⟩

mutual
theorem sqlE_starts : (e : Expr) → lexWF e = true → StartsOK (sqlE e)
  | .null, _ => starts_head 78 (by simp [sqlE, B_vals.1]) (by decide)
  | .bool true, _ => starts_head 84 (by simp [sqlE, boolUpper, B_vals.2.1]) (by decide)
  | .bool false, _ => starts_head 70 (by simp [sqlE, boolUpper, B_vals.2.2.1]) (by decide)
  | .int none raw, h => by simp only [lexWF] at h; simpa [sqlE, signStr] using numOK_starts h
  | .int (some .plus) raw, _ => starts_head 43 (by simp [sqlE, signStr, Sign.str, B_vals]) (by decide)
  | .int (some .minus) raw, _ => starts_head 45 (by simp [sqlE, signStr, Sign.str, B_vals]) (by decide)
  | .float none raw, h => by simp only [lexWF] at h; simpa [sqlE, signStr] using numOK_starts h
  | .float (some .plus) raw, _ => starts_head 43 (by simp [sqlE, signStr, Sign.str, B_vals]) (by decide)
  | .float (some .minus) raw, _ => starts_head 45 (by simp [sqlE, signStr, Sign.str, B_vals]) (by decide)
  | .str v, _ => by
    simp only [sqlE, Quote.quoteString]
    refine ⟨_, _, rfl, ?_⟩
    rcases Quote.suitableQuote_cases v with h | h <;> rw [h] <;> decide
  | .bytes v, _ => starts_head 98 (by simp [sqlE, Quote.quoteBytes]) (by decide)
  | .param n, _ => starts_head 64 (by simp [sqlE, B_vals]) (by decide)
  | .ident n, h => by simp only [lexWF] at h; simpa [sqlE] using identSQL_starts h
  | .path ns, h => by
    simp only [lexWF, Bool.and_eq_true, Bool.not_eq_true', List.isEmpty_eq_false_iff] at h
    match ns, h with
    | [a], h =>
      simp only [List.all_cons, List.all_nil, Bool.and_true] at h
      simpa [sqlE, joinBytes] using identSQL_starts h.2
    | a :: b :: rest, h =>
      simp only [List.all_cons, Bool.and_eq_true] at h
      simp only [sqlE, List.map_cons, joinBytes_cons2, List.append_assoc]
      exact (identSQL_starts h.2.1).append _
  | .paren e, _ => starts_head 40 (by simp [sqlE, B_vals]) (by decide)
  | .unary .plus e, _ => starts_head 43 (by simp [sqlE, UOp.str, B_vals]) (by decide)
  | .unary .minus e, _ => starts_head 45 (by simp [sqlE, UOp.str, B_vals]) (by decide)
  | .unary .bitNot e, _ => starts_head 126 (by simp [sqlE, UOp.str, B_vals]) (by decide)
  | .unary .not e, _ => starts_head 78 (by simp [sqlE, UOp.str, B_vals]) (by decide)
  | .bin op l r, h => by
    simp only [lexWF, Bool.and_eq_true] at h
    simp only [sqlE, List.append_assoc]
    exact ((sqlE_starts l h.1).parenS _ _).append _
  | .isNull e _, h => by
    simp only [lexWF] at h
    simp only [sqlE, List.append_assoc]
    exact ((sqlE_starts e h).parenS _ _).append _
  | .isBool e _ _, h => by
    simp only [lexWF] at h
    simp only [sqlE, List.append_assoc]
    exact ((sqlE_starts e h).parenS _ _).append _
  | .between _ e _ _, h => by
    simp only [lexWF, Bool.and_eq_true] at h
    simp only [sqlE, List.append_assoc]
    exact ((sqlE_starts e h.1.1).parenS _ _).append _
  | .inList _ e _ _, h => by
    simp only [lexWF, Bool.and_eq_true] at h
    simp only [sqlE, List.append_assoc]
    exact ((sqlE_starts e h.1.1).parenS _ _).append _
  | .inUnnest _ e _, h => by
    simp only [lexWF, Bool.and_eq_true] at h
    simp only [sqlE, List.append_assoc]
    exact ((sqlE_starts e h.1).parenS _ _).append _
  | .sel e _, h => by
    simp only [lexWF, Bool.and_eq_true] at h
    simp only [sqlE, List.append_assoc]
    exact ((sqlE_starts e h.1).parenS _ _).append _
  | .index e none _, h => by
    simp only [lexWF, Bool.and_eq_true] at h
    simp only [sqlE, List.append_assoc]
    exact ((sqlE_starts e h.1).parenS _ _).append _
  | .index e (some (_, _)) _, h => by
    simp only [lexWF, Bool.and_eq_true] at h
    simp only [sqlE, List.append_assoc]
    exact ((sqlE_starts e h.1).parenS _ _).append _
  | .caseE .., _ => starts_head 67 (by simp [sqlE, show B "CASE " = [67, 65, 83, 69, 32] by decide]) (by decide)
  | .ifE .., _ => starts_head 73 (by simp [sqlE, show B "IF(" = [73, 70, 40] by decide]) (by decide)
  | .array .nil, _ => starts_head 91 (by simp [sqlE, B_vals]) (by decide)
  | .array (.cons _ _), _ => starts_head 91 (by simp [sqlE, B_vals]) (by decide)
  | .cast .., _ => starts_head 67 (by simp [sqlE, show B "CAST(" = [67, 65, 83, 84, 40] by decide]) (by decide)
end

/-! ## the constructor cases -/

theorem lex_null : LexIH .null := by
  intro k lk X _ hX
  obtain ⟨h1, h2⟩ := fol_facts hX.fol
  simp only [sqlE, sqlToks, B_vals.1]
  exact ⟨_, prun_kw' _ kw_vals.1 kw_tks.1 k lk h1 h2⟩

theorem lex_bool (b : Bool) : LexIH (.bool b) := by
  intro k lk X _ hX
  obtain ⟨h1, h2⟩ := fol_facts hX.fol
  cases b
  · simp only [sqlE, sqlToks, boolUpper, B_vals.2.2.1, boolTK, Bool.false_eq_true, if_false]
    exact ⟨_, prun_kw' _ kw_vals.2.2.1 kw_tks.2.2.1 k lk h1 h2⟩
  · simp only [sqlE, sqlToks, boolUpper, B_vals.2.1, boolTK, if_true]
    exact ⟨_, prun_kw' _ kw_vals.2.1 kw_tks.2.1 k lk h1 h2⟩

theorem numOK_head {isInt : Bool} {raw : Bytes} (h : numOK isInt raw = true) (X : Bytes) :
    headSat (· == 61) (raw ++ X) = false ∧ headSat (fun c => c == 61 || c == 62) (raw ++ X) = false ∧
      (raw ++ X).head? ≠ some 45 := by
  simp only [numOK, Bool.and_eq_true] at h
  obtain ⟨c, t, rfl, hc⟩ := numStart_head h.1.1
  obtain ⟨_, a1, a2, a3⟩ := digit_startOK c hc
  simp [a1, a2, a3]

theorem lex_int (s : Option Sign) (raw : Bytes) (h : numOK true raw = true) : LexIH (.int s raw) := by
  intro k lk X _ hX
  have hB : folB X = true := by
    rcases hX with h | ⟨_, _, h3⟩
    · exact h
    · simp [isIntLit] at h3
  obtain ⟨h1, _, h3⟩ := folB_facts hB
  obtain ⟨n1, n2, n3⟩ := numOK_head h X
  match s with
  | none =>
    simp only [sqlE, sqlToks, signStr, signToks, List.nil_append]
    obtain ⟨lk', hr, _⟩ := prun_int raw h k lk h1 h3
    exact ⟨lk', hr⟩
  | some .plus =>
    simp only [sqlE, sqlToks, signStr, signToks, Sign.str, Sign.tk, B_vals.2.2.2.2.2.2.2.2.2.2.2.2.2.2.2.2.2.2.1,
      List.cons_append, List.nil_append]
    obtain ⟨lk', hr, _⟩ := prun_int raw h 0 (.sym [43]) h1 h3
    exact ⟨lk', (prun_plus k lk n1).append hr⟩
  | some .minus =>
    simp only [sqlE, sqlToks, signStr, signToks, Sign.str, Sign.tk, B_vals.2.2.2.2.2.2.2.2.2.2.2.2.2.2.2.2.2.2.2.1,
      List.cons_append, List.nil_append]
    obtain ⟨lk', hr, _⟩ := prun_int raw h 0 (.sym [45]) h1 h3
    exact ⟨lk', (prun_minus k lk n2 n3).append hr⟩

theorem lex_float (s : Option Sign) (raw : Bytes) (h : numOK false raw = true) : LexIH (.float s raw) := by
  intro k lk X hlk hX
  obtain ⟨h1, _⟩ := fol_facts hX.fol
  obtain ⟨n1, n2, n3⟩ := numOK_head h X
  match s with
  | none =>
    simp only [sqlE, sqlToks, signStr, signToks, List.nil_append]
    obtain ⟨lk', hr, _⟩ := prun_float raw h k lk hlk h1
    exact ⟨lk', hr⟩
  | some .plus =>
    simp only [sqlE, sqlToks, signStr, signToks, Sign.str, Sign.tk, B_vals.2.2.2.2.2.2.2.2.2.2.2.2.2.2.2.2.2.2.1,
      List.cons_append, List.nil_append]
    obtain ⟨lk', hr, _⟩ := prun_float raw h 0 (.sym [43]) (by decide) h1
    exact ⟨lk', (prun_plus k lk n1).append hr⟩
  | some .minus =>
    simp only [sqlE, sqlToks, signStr, signToks, Sign.str, Sign.tk, B_vals.2.2.2.2.2.2.2.2.2.2.2.2.2.2.2.2.2.2.2.1,
      List.cons_append, List.nil_append]
    obtain ⟨lk', hr, _⟩ := prun_float raw h 0 (.sym [45]) (by decide) h1
    exact ⟨lk', (prun_minus k lk n2 n3).append hr⟩

theorem lex_str (v : Bytes) : LexIH (.str v) := by
  intro k lk X _ hX
  simp only [sqlE, sqlToks]
  exact ⟨_, prun_str v k lk (fol_facts hX.fol).2⟩

theorem lex_bytes (v : Bytes) : LexIH (.bytes v) := by
  intro k lk X _ hX
  simp only [sqlE, sqlToks]
  exact ⟨_, prun_bytes v k lk (fol_facts hX.fol).2⟩

theorem lex_param (n : Bytes) (h : paramOK n = true) : LexIH (.param n) := by
  intro k lk X _ hX
  simp only [sqlE, sqlToks, B_vals.2.2.2.1, List.cons_append, List.nil_append]
  exact ⟨_, prun_param n h k lk false (fol_facts hX.fol).1⟩

theorem lex_ident (n : Bytes) (h : identOK n = true) : LexIH (.ident n) := by
  intro k lk X _ hX
  obtain ⟨h1, h2⟩ := fol_facts hX.fol
  simp only [sqlE, sqlToks]
  exact ⟨_, prun_ident n (by simpa [identOK] using h) k lk false h1 h2⟩

/-- a path: `Ident.SQL()` of each name, joined by `.`; the first name in the given mode, the others in field mode -/
theorem lex_path_aux : ∀ (ns : List Bytes), ns ≠ [] → ns.all identOK = true → ∀ (k : Nat) (lk : TokKind) (d : Bool)
    (X : Bytes), headSat isIdentChar X = false → headSat isQuote X = false →
    PRun (List.replicate k 32 ++ (joinBytes [46] (ns.map identSQL) ++ X)) lk d (pathToks ns) X .ident false
  | [], h, _, _, _, _, _, _, _ => absurd rfl h
  | [a], _, h, k, lk, d, X, h1, h2 => by
    simp only [List.all_cons, List.all_nil, Bool.and_true] at h
    simp only [List.map_cons, List.map_nil, joinBytes, pathToks]
    exact prun_ident a (by simpa [identOK] using h) k lk d h1 h2
  | a :: b :: rest, _, h, k, lk, d, X, h1, h2 => by
    simp only [List.all_cons, Bool.and_eq_true] at h
    have ih := lex_path_aux (b :: rest) (by simp) (by simp [h.2.1, h.2.2]) 0 (.sym [46]) true X h1 h2
    simp only [List.map_cons, joinBytes_cons2, pathToks, List.append_assoc, List.cons_append, List.nil_append]
    have hd : headSat isDigit (joinBytes [46] (identSQL b :: rest.map identSQL) ++ X) = false := by
      cases rest with
      | nil => simp only [List.map_nil, joinBytes]; exact identSQL_noDigit h.2.1 X
      | cons c r =>
        simp only [List.map_cons, joinBytes_cons2, List.append_assoc]
        exact identSQL_noDigit h.2.1 _
    have r1 := prun_ident a (by simpa [identOK] using h.1) k lk d
      (X := 46 :: (joinBytes [46] (identSQL b :: rest.map identSQL) ++ X)) (by simp only [headSat_cons]; decide)
      (by simp only [headSat_cons]; decide)
    have r2 := prun_dot 0 .ident false hd
    simp only [List.map_cons] at ih
    exact r1.append (r2.append ih)

theorem lex_path (ns : List Bytes) (h : (!ns.isEmpty && ns.all identOK) = true) : LexIH (.path ns) := by
  intro k lk X _ hX
  obtain ⟨h1, h2⟩ := fol_facts hX.fol
  simp only [Bool.and_eq_true, Bool.not_eq_true', List.isEmpty_eq_false_iff] at h
  simp only [sqlE, sqlToks, B_vals.2.2.2.2.1]
  exact ⟨_, lex_path_aux ns h.1 h.2 k lk false X h1 h2⟩

theorem lex_paren {e : Expr} (ih : LexIH e) : LexIH (.paren e) := by
  intro k lk X _ _
  obtain ⟨_, _, _, _, _, bL, bR, _⟩ := B_vals
  obtain ⟨_, _, _, _, _, _, _, _, _, tL, tR, _⟩ := kw_tks
  simp only [sqlE, sqlToks, bL, bR, List.append_assoc, List.cons_append, List.nil_append]
  have h1 := prun_single' 40 (by decide) (by decide) tL k lk (sqlE e ++ 41 :: X)
  obtain ⟨lk2, h2⟩ := ih 0 (.sym [40]) (41 :: X) (by decide) (Or.inl rfl)
  have h3 := prun_single' 41 (by decide) (by decide) tR 0 lk2 X
  exact ⟨_, h1.append (h2.append h3)⟩

theorem head?_append_of_starts {s : Bytes} (h : StartsOK s) (X : Bytes) : (s ++ X).head? = s.head? := by
  obtain ⟨c, t, rfl, _⟩ := h
  rfl

theorem starts_ne {s : Bytes} (h : StartsOK s) (X : Bytes) :
    headSat (· == 61) (s ++ X) = false ∧ headSat (fun c => c == 61 || c == 62) (s ++ X) = false := by
  obtain ⟨c, t, rfl, hc⟩ := h
  obtain ⟨a1, a2⟩ := startOK_facts c hc
  simp [a1, a2]

theorem lex_unary (op : UOp) {e : Expr} (hwf : lexWF e = true) (ih : LexIH e) : LexIH (.unary op e) := by
  intro k lk X _ hX
  have hB : folB X = true := hX.folB_of_prec (by cases op <;> simp [exprPrec, UOp.prec])
  obtain ⟨_, _, _, _, _, _, _, bSp, _, _, _, _, _, _, _, _, _, _, bPlus, bMinus, bTilde, bNot⟩ := B_vals
  have hst := (sqlE_starts e hwf).parenS op.prec e
  obtain ⟨s1, s2⟩ := starts_ne hst X
  cases op with
  | plus =>
    simp only [sqlE, sqlToks, UOp.str, UOp.tk, bPlus, List.cons_append, List.nil_append, List.append_assoc,
      Bool.false_or, Bool.false_and, Bool.false_eq_true, if_false, beq_iff_eq, reduceCtorEq, decide_false]
    obtain ⟨lk2, h2⟩ := lex_parenS ih UOp.plus.prec 0 (.sym [43]) X (by decide) (Or.inl hB)
    exact ⟨_, (prun_plus k lk s1).append h2⟩
  | bitNot =>
    simp only [sqlE, sqlToks, UOp.str, UOp.tk, bTilde, List.cons_append, List.nil_append, List.append_assoc,
      Bool.false_or, Bool.false_and, Bool.false_eq_true, if_false, beq_iff_eq, reduceCtorEq, decide_false]
    obtain ⟨lk2, h2⟩ := lex_parenS ih UOp.bitNot.prec 0 (.sym [126]) X (by decide) (Or.inl hB)
    exact ⟨_, (prun_single' 126 (by decide) (by decide) kw_tks.2.2.2.2.2.2.2.2.2.2.2.2.2.2 k lk _).append h2⟩
  | not =>
    simp only [sqlE, sqlToks, UOp.str, UOp.tk, bNot, bSp, List.cons_append, List.nil_append, List.append_assoc,
      beq_self_eq_true, Bool.true_or, if_true]
    obtain ⟨lk2, h2⟩ := lex_parenS ih UOp.not.prec 1 (.sym [78, 79, 84]) X (by decide) (Or.inl hB)
    have hb := blank_follow (parenS UOp.not.prec e (sqlE e) ++ X)
    exact ⟨_, (prun_kw' [78, 79, 84] kw_vals.2.2.2.1 kw_tks.2.2.2.1 k lk hb.1 hb.2).append h2⟩
  | minus =>
    have e1 : (UOp.minus == UOp.not) = false := by decide
    simp only [sqlE, sqlToks, UOp.str, UOp.tk, bMinus, bSp, List.cons_append, List.nil_append, List.append_assoc,
      e1, Bool.false_or, beq_self_eq_true, Bool.true_and, beq_iff_eq]
    by_cases h45 : (parenS UOp.minus.prec e (sqlE e)).head? = some 45
    · simp only [h45, if_true, List.cons_append, List.nil_append]
      obtain ⟨lk2, h2⟩ := lex_parenS ih UOp.minus.prec 1 (.sym [45]) X (by decide) (Or.inl hB)
      exact ⟨_, (prun_minus k lk (X := 32 :: (parenS UOp.minus.prec e (sqlE e) ++ X)) (by simp only [headSat_cons]; decide)
        (by simp)).append h2⟩
    · simp only [h45, if_false, List.nil_append]
      obtain ⟨lk2, h2⟩ := lex_parenS ih UOp.minus.prec 0 (.sym [45]) X (by decide) (Or.inl hB)
      have hne : (parenS UOp.minus.prec e (sqlE e) ++ X).head? ≠ some 45 := by
        rw [head?_append_of_starts hst]; exact h45
      exact ⟨_, (prun_minus k lk s2 hne).append h2⟩

theorem lex_bin (op : BOp) {l r : Expr} (ihl : LexIH l) (ihr : LexIH r) : LexIH (.bin op l r) := by
  intro k lk X hlk hX
  have hB : folB X = true := hX.folB_of_prec (by cases op <;> simp [exprPrec, BOp.prec])
  simp only [sqlE, sqlToks, B_vals.2.2.2.2.2.2.2.1, List.append_assoc, List.cons_append, List.nil_append]
  obtain ⟨lk1, h1⟩ := lex_parenS ihl op.prec k lk (32 :: (op.str ++ 32 :: (parenS op.prec r (sqlE r) ++ X))) hlk
    (Or.inl rfl)
  obtain ⟨lk2, h2, hd2⟩ := prun_binop op lk1 (parenS op.prec r (sqlE r) ++ X)
  obtain ⟨lk3, h3⟩ := lex_parenS ihr op.prec 1 lk2 X hd2 (Or.inl hB)
  exact ⟨_, h1.append (h2.append h3)⟩

/-- a keyword followed by a blank -/
theorem prun_kwb (w : Bytes) (hw : kwOK w = true) {c : TK} (hc : symTK w = c) (k : Nat) (lk : TokKind) (X : Bytes) :
    PRun (List.replicate k 32 ++ (w ++ 32 :: X)) lk false [T c] (32 :: X) (.sym w) false :=
  prun_kw' w hw hc k lk (blank_follow X).1 (blank_follow X).2

/-- the optional ` NOT` of BETWEEN / IN -/
theorem prun_optNot (not : Bool) (lk : TokKind) (Y : Bytes) :
    ∃ lk', PRun ((if not then [32, 78, 79, 84] else []) ++ (32 :: Y)) lk false (notToks not) (32 :: Y) lk' false := by
  cases not
  · exact ⟨lk, PRun.nil _ _ _⟩
  · exact ⟨_, prun_kwb [78, 79, 84] kw_vals.2.2.2.1 kw_tks.2.2.2.1 1 lk Y⟩

/-- the optional `NOT ` of IS -/
theorem prun_optNotIs (not : Bool) (lk : TokKind) (Y : Bytes) :
    ∃ lk', PRun (32 :: ((if not then [78, 79, 84, 32] else []) ++ Y)) lk false (notToks not) (32 :: Y) lk' false := by
  cases not
  · exact ⟨lk, PRun.nil _ _ _⟩
  · exact ⟨_, prun_kwb [78, 79, 84] kw_vals.2.2.2.1 kw_tks.2.2.2.1 1 lk Y⟩

theorem lex_isNull {e : Expr} (ih : LexIH e) (not : Bool) : LexIH (.isNull e not) := by
  intro k lk X hlk hX
  have hB : folB X = true := hX.folB_of_prec (by simp [exprPrec])
  obtain ⟨f1, f2, _⟩ := folB_facts hB
  obtain ⟨bNull, _, _, _, _, _, _, _, _, _, _, bIs, bNotSp, _⟩ := B_vals
  simp only [sqlE, sqlToks, bNull, bIs, bNotSp, List.append_assoc, List.cons_append, List.nil_append]
  obtain ⟨lk1, h1⟩ := lex_parenS ih 9 k lk
    (32 :: 73 :: 83 :: 32 :: ((if not then [78, 79, 84, 32] else []) ++ (78 :: 85 :: 76 :: 76 :: X))) hlk (Or.inl rfl)
  have h2 := prun_kwb [73, 83] kw_vals.2.2.2.2.1 kw_tks.2.2.2.2.1 1 lk1
    ((if not then [78, 79, 84, 32] else []) ++ (78 :: 85 :: 76 :: 76 :: X))
  obtain ⟨lk3, h3⟩ := prun_optNotIs not (.sym [73, 83]) (78 :: 85 :: 76 :: 76 :: X)
  have h4 := prun_kw' [78, 85, 76, 76] kw_vals.1 kw_tks.1 1 lk3 f1 f2
  exact ⟨_, h1.append (h2.append (h3.append h4))⟩

theorem lex_isBool {e : Expr} (ih : LexIH e) (not r : Bool) : LexIH (.isBool e not r) := by
  intro k lk X hlk hX
  have hB : folB X = true := hX.folB_of_prec (by simp [exprPrec])
  obtain ⟨f1, f2, _⟩ := folB_facts hB
  obtain ⟨_, bTrue, bFalse, _, _, _, _, _, _, _, _, bIs, bNotSp, _⟩ := B_vals
  cases r
  · simp only [sqlE, sqlToks, boolUpper, boolTK, bFalse, bIs, bNotSp, List.append_assoc, List.cons_append,
      List.nil_append, Bool.false_eq_true, if_false]
    obtain ⟨lk1, h1⟩ := lex_parenS ih 9 k lk
      (32 :: 73 :: 83 :: 32 :: ((if not then [78, 79, 84, 32] else []) ++ (70 :: 65 :: 76 :: 83 :: 69 :: X))) hlk
      (Or.inl rfl)
    have h2 := prun_kwb [73, 83] kw_vals.2.2.2.2.1 kw_tks.2.2.2.2.1 1 lk1
      ((if not then [78, 79, 84, 32] else []) ++ (70 :: 65 :: 76 :: 83 :: 69 :: X))
    obtain ⟨lk3, h3⟩ := prun_optNotIs not (.sym [73, 83]) (70 :: 65 :: 76 :: 83 :: 69 :: X)
    have h4 := prun_kw' [70, 65, 76, 83, 69] kw_vals.2.2.1 kw_tks.2.2.1 1 lk3 f1 f2
    exact ⟨_, h1.append (h2.append (h3.append h4))⟩
  · simp only [sqlE, sqlToks, boolUpper, boolTK, bTrue, bIs, bNotSp, List.append_assoc, List.cons_append,
      List.nil_append, if_true]
    obtain ⟨lk1, h1⟩ := lex_parenS ih 9 k lk
      (32 :: 73 :: 83 :: 32 :: ((if not then [78, 79, 84, 32] else []) ++ (84 :: 82 :: 85 :: 69 :: X))) hlk
      (Or.inl rfl)
    have h2 := prun_kwb [73, 83] kw_vals.2.2.2.2.1 kw_tks.2.2.2.2.1 1 lk1
      ((if not then [78, 79, 84, 32] else []) ++ (84 :: 82 :: 85 :: 69 :: X))
    obtain ⟨lk3, h3⟩ := prun_optNotIs not (.sym [73, 83]) (84 :: 82 :: 85 :: 69 :: X)
    have h4 := prun_kw' [84, 82, 85, 69] kw_vals.2.1 kw_tks.2.1 1 lk3 f1 f2
    exact ⟨_, h1.append (h2.append (h3.append h4))⟩

theorem dotEnables_kw : dotEnables (.sym [66, 69, 84, 87, 69, 69, 78]) = false ∧ dotEnables (.sym [65, 78, 68]) = false ∧
    dotEnables (.sym [73, 78]) = false ∧ dotEnables (.sym [40]) = false ∧ dotEnables (.sym [91]) = false ∧
    dotEnables (.sym [44]) = false ∧ dotEnables (.sym [85, 78, 78, 69, 83, 84]) = false := by decide

theorem lex_between {e lo hi : Expr} (ih : LexIH e) (ihlo : LexIH lo) (ihhi : LexIH hi) (not : Bool) :
    LexIH (.between not e lo hi) := by
  intro k lk X hlk hX
  have hB : folB X = true := hX.folB_of_prec (by simp [exprPrec])
  obtain ⟨_, _, _, _, _, _, _, _, _, _, _, _, _, bSpNot, bBetween, bAnd, _⟩ := B_vals
  simp only [sqlE, sqlToks, bSpNot, bBetween, bAnd, List.append_assoc, List.cons_append, List.nil_append]
  obtain ⟨lk1, h1⟩ := lex_parenS ih 9 k lk
    ((if not then [32, 78, 79, 84] else []) ++ (32 :: 66 :: 69 :: 84 :: 87 :: 69 :: 69 :: 78 :: 32 ::
      (parenS 9 lo (sqlE lo) ++ (32 :: 65 :: 78 :: 68 :: 32 :: (parenS 9 hi (sqlE hi) ++ X))))) hlk
    (Or.inl (by cases not <;> rfl))
  obtain ⟨lk2, h2⟩ := prun_optNot not lk1 (66 :: 69 :: 84 :: 87 :: 69 :: 69 :: 78 :: 32 ::
      (parenS 9 lo (sqlE lo) ++ (32 :: 65 :: 78 :: 68 :: 32 :: (parenS 9 hi (sqlE hi) ++ X))))
  have h3 := prun_kwb [66, 69, 84, 87, 69, 69, 78] kw_vals.2.2.2.2.2.1 kw_tks.2.2.2.2.2.1 1 lk2
    (parenS 9 lo (sqlE lo) ++ (32 :: 65 :: 78 :: 68 :: 32 :: (parenS 9 hi (sqlE hi) ++ X)))
  obtain ⟨lk4, h4⟩ := lex_parenS ihlo 9 1 (.sym [66, 69, 84, 87, 69, 69, 78])
    (32 :: 65 :: 78 :: 68 :: 32 :: (parenS 9 hi (sqlE hi) ++ X)) dotEnables_kw.1 (Or.inl rfl)
  have h5 := prun_kwb [65, 78, 68] kw_vals.2.2.2.2.2.2.1 kw_tks.2.2.2.2.2.2.1 1 lk4 (parenS 9 hi (sqlE hi) ++ X)
  obtain ⟨lk6, h6⟩ := lex_parenS ihhi 9 1 (.sym [65, 78, 68]) X dotEnables_kw.2.1 (Or.inl hB)
  exact ⟨_, h1.append (h2.append (h3.append (h4.append (h5.append h6))))⟩

/-- the elements of an IN list / array literal after the first: `, e` … in front of the closing `)` / `]` -/
def LexIHs (es : Exprs) : Prop :=
  ∀ (c : UInt8), c = 41 ∨ c = 93 → ∀ (lk : TokKind) (X : Bytes),
    ∃ lk', PRun (sqlEs es ++ c :: X) lk false (sqlToksL es) (c :: X) lk' false

theorem sqlEs_folB (es : Exprs) {c : UInt8} (hc : c = 41 ∨ c = 93) (X : Bytes) : folB (sqlEs es ++ c :: X) = true := by
  cases es with
  | nil => rcases hc with rfl | rfl <;> simp [sqlEs, folB]
  | cons e es => simp [sqlEs, B_vals.2.2.2.2.2.2.2.2.2.2.1, folB]

theorem lex_nil : LexIHs .nil :=
  fun c _ lk X => ⟨lk, by simpa [sqlEs, sqlToksL] using PRun.nil (c :: X) lk false⟩

theorem lex_cons {e : Expr} {es : Exprs} (ih : LexIH e) (ihs : LexIHs es) : LexIHs (.cons e es) := by
  intro c hc lk X
  simp only [sqlEs, sqlToksL, B_vals.2.2.2.2.2.2.2.2.2.2.1, List.append_assoc, List.cons_append, List.nil_append]
  have h1 := prun_single' 44 (by decide) (by decide) kw_tks.2.2.2.2.2.2.2.2.2.2.2.2.2.1 0 lk
    (32 :: (sqlE e ++ (sqlEs es ++ c :: X)))
  obtain ⟨lk2, h2⟩ := ih 1 (.sym [44]) (sqlEs es ++ c :: X) dotEnables_kw.2.2.2.2.2.1 (Or.inl (sqlEs_folB es hc X))
  obtain ⟨lk3, h3⟩ := ihs c hc lk2 X
  exact ⟨_, h1.append (h2.append h3)⟩

theorem lex_inList {e first : Expr} {more : Exprs} (ih : LexIH e) (ihf : LexIH first) (ihm : LexIHs more)
    (not : Bool) : LexIH (.inList not e first more) := by
  intro k lk X hlk _
  obtain ⟨_, _, _, _, _, bL, bR, _, _, _, _, _, _, bSpNot, _, _, bIn, _⟩ := B_vals
  obtain ⟨_, _, _, _, _, _, _, _, _, tL, tR, _⟩ := kw_tks
  simp only [sqlE, sqlToks, bSpNot, bIn, bL, bR, List.append_assoc, List.cons_append, List.nil_append]
  obtain ⟨lk1, h1⟩ := lex_parenS ih 9 k lk
    ((if not then [32, 78, 79, 84] else []) ++ (32 :: 73 :: 78 :: 32 :: 40 ::
      (sqlE first ++ (sqlEs more ++ 41 :: X)))) hlk (Or.inl (by cases not <;> rfl))
  obtain ⟨lk2, h2⟩ := prun_optNot not lk1 (73 :: 78 :: 32 :: 40 :: (sqlE first ++ (sqlEs more ++ 41 :: X)))
  have h3 := prun_kwb [73, 78] kw_vals.2.2.2.2.2.2.2.1 kw_tks.2.2.2.2.2.2.2.1 1 lk2
    (40 :: (sqlE first ++ (sqlEs more ++ 41 :: X)))
  have h4 := prun_single' 40 (by decide) (by decide) tL 1 (.sym [73, 78]) (sqlE first ++ (sqlEs more ++ 41 :: X))
  obtain ⟨lk5, h5⟩ := ihf 0 (.sym [40]) (sqlEs more ++ 41 :: X) dotEnables_kw.2.2.2.1
    (Or.inl (sqlEs_folB more (Or.inl rfl) X))
  obtain ⟨lk6, h6⟩ := ihm 41 (Or.inl rfl) lk5 X
  have h7 := prun_single' 41 (by decide) (by decide) tR 0 lk6 X
  exact ⟨_, h1.append (h2.append (h3.append (h4.append (h5.append (h6.append h7)))))⟩

theorem lex_inUnnest {e a : Expr} (ih : LexIH e) (iha : LexIH a) (not : Bool) : LexIH (.inUnnest not e a) := by
  intro k lk X hlk _
  obtain ⟨_, _, _, _, _, _, bR, _, _, _, _, _, _, bSpNot, _, _, bIn, bUnnest, _⟩ := B_vals
  obtain ⟨_, _, _, _, _, _, _, _, _, tL, tR, _⟩ := kw_tks
  simp only [sqlE, sqlToks, bSpNot, bIn, bUnnest, bR, List.append_assoc, List.cons_append, List.nil_append]
  obtain ⟨lk1, h1⟩ := lex_parenS ih 9 k lk
    ((if not then [32, 78, 79, 84] else []) ++ (32 :: 73 :: 78 :: 32 :: 85 :: 78 :: 78 :: 69 :: 83 :: 84 :: 40 ::
      (sqlE a ++ 41 :: X))) hlk (Or.inl (by cases not <;> rfl))
  obtain ⟨lk2, h2⟩ := prun_optNot not lk1 (73 :: 78 :: 32 :: 85 :: 78 :: 78 :: 69 :: 83 :: 84 :: 40 ::
      (sqlE a ++ 41 :: X))
  have h3 := prun_kwb [73, 78] kw_vals.2.2.2.2.2.2.2.1 kw_tks.2.2.2.2.2.2.2.1 1 lk2
    (85 :: 78 :: 78 :: 69 :: 83 :: 84 :: 40 :: (sqlE a ++ 41 :: X))
  have h4 := prun_kw' [85, 78, 78, 69, 83, 84] kw_vals.2.2.2.2.2.2.2.2 kw_tks.2.2.2.2.2.2.2.2.1 1 (.sym [73, 78])
    (X := 40 :: (sqlE a ++ 41 :: X)) (by simp only [headSat_cons]; decide) (by simp only [headSat_cons]; decide)
  have h5 := prun_single' 40 (by decide) (by decide) tL 0 (.sym [85, 78, 78, 69, 83, 84]) (sqlE a ++ 41 :: X)
  obtain ⟨lk6, h6⟩ := iha 0 (.sym [40]) (41 :: X) dotEnables_kw.2.2.2.1 (Or.inl rfl)
  have h7 := prun_single' 41 (by decide) (by decide) tR 0 lk6 X
  exact ⟨_, h1.append (h2.append (h3.append (h4.append (h5.append (h6.append h7)))))⟩

theorem lex_sel {e : Expr} (ih : LexIH e) (n : Bytes) (hn : identOK n = true) : LexIH (.sel e n) := by
  intro k lk X hlk hX
  obtain ⟨f1, f2⟩ := fol_facts hX.fol
  obtain ⟨_, _, _, _, bDot, _, _, bSp, _⟩ := B_vals
  have hne : n ≠ [] := by simpa [identOK] using hn
  have hd := identSQL_noDigit hn X
  cases hi : isIntLit e
  · simp only [sqlE, sqlToks, bDot, bSp, hi, Bool.false_eq_true, if_false, List.append_assoc, List.cons_append,
      List.nil_append]
    obtain ⟨lk1, h1⟩ := lex_parenS ih 1 k lk (46 :: (identSQL n ++ X)) hlk (Or.inr ⟨rfl, fun hp => ⟨hp, hi⟩⟩)
    have h2 := prun_dot 0 lk1 false hd
    have h3 := prun_ident n hne 0 (.sym [46]) (!false && dotEnables lk1) f1 f2
    exact ⟨_, h1.append (h2.append h3)⟩
  · simp only [sqlE, sqlToks, bDot, bSp, hi, if_true, List.append_assoc, List.cons_append, List.nil_append]
    obtain ⟨lk1, h1⟩ := lex_parenS ih 1 k lk (32 :: 46 :: (identSQL n ++ X)) hlk (Or.inl rfl)
    have h2 := prun_dot 1 lk1 false hd
    have h3 := prun_ident n hne 0 (.sym [46]) (!false && dotEnables lk1) f1 f2
    exact ⟨_, h1.append (h2.append h3)⟩

theorem posKw_identSQL (kw : PosKw) : identSQL kw.str = kw.str ∧ kw.str ≠ [] := by
  cases kw <;> exact ⟨by decide +kernel, by decide⟩

theorem lex_index {e i : Expr} (ih : LexIH e) (ihi : LexIH i) (kw : Option (PosKw × Bytes)) :
    LexIH (.index e kw i) := by
  intro k lk X hlk _
  obtain ⟨_, _, _, _, _, bL, bR, _, bLb, bRb, _⟩ := B_vals
  obtain ⟨_, _, _, _, _, _, _, _, _, tL, tR, tLb, tRb, _⟩ := kw_tks
  match kw with
  | none =>
    simp only [sqlE, sqlToks, bLb, bRb, List.append_assoc, List.cons_append, List.nil_append]
    obtain ⟨lk1, h1⟩ := lex_parenS ih 1 k lk (91 :: (sqlE i ++ 93 :: X)) hlk (Or.inl rfl)
    have h2 := prun_single' 91 (by decide) (by decide) tLb 0 lk1 (sqlE i ++ 93 :: X)
    obtain ⟨lk3, h3⟩ := ihi 0 (.sym [91]) (93 :: X) dotEnables_kw.2.2.2.2.1 (Or.inl rfl)
    have h4 := prun_single' 93 (by decide) (by decide) tRb 0 lk3 X
    exact ⟨_, h1.append (h2.append (h3.append h4))⟩
  | some (pk, sp) =>
    simp only [sqlE, sqlToks, bLb, bRb, bL, bR, List.append_assoc, List.cons_append, List.nil_append]
    obtain ⟨lk1, h1⟩ := lex_parenS ih 1 k lk (91 :: (pk.str ++ 40 :: (sqlE i ++ 41 :: 93 :: X))) hlk (Or.inl rfl)
    have h2 := prun_single' 91 (by decide) (by decide) tLb 0 lk1 (pk.str ++ 40 :: (sqlE i ++ 41 :: 93 :: X))
    have h3 := prun_ident pk.str (posKw_identSQL pk).2 0 (.sym [91]) false (X := 40 :: (sqlE i ++ 41 :: 93 :: X))
      (by simp only [headSat_cons]; decide) (by simp only [headSat_cons]; decide)
    rw [(posKw_identSQL pk).1] at h3
    have h4 := prun_single' 40 (by decide) (by decide) tL 0 .ident (sqlE i ++ 41 :: 93 :: X)
    obtain ⟨lk5, h5⟩ := ihi 0 (.sym [40]) (41 :: 93 :: X) dotEnables_kw.2.2.2.1 (Or.inl rfl)
    have h6 := prun_single' 41 (by decide) (by decide) tR 0 lk5 (93 :: X)
    have h7 := prun_single' 93 (by decide) (by decide) tRb 0 (.sym [41]) X
    exact ⟨_, h1.append (h2.append (h3.append (h4.append (h5.append (h6.append h7)))))⟩

/-! ### CASE and IF -/

theorem PRun.cast {R : Bytes} {lk : TokKind} {d : Bool} {l l' : List Tok'} {R' : Bytes} {lk' : TokKind} {d' : Bool}
    (h : PRun R lk d l R' lk' d') (e : l = l') : PRun R lk d l' R' lk' d' := e ▸ h

theorem case_vals :
    B "CASE " = [67, 65, 83, 69, 32] ∧ B "WHEN " = [87, 72, 69, 78, 32] ∧ B " THEN " = [32, 84, 72, 69, 78, 32] ∧
    B " WHEN " = [32, 87, 72, 69, 78, 32] ∧ B "ELSE " = [69, 76, 83, 69, 32] ∧ B "END" = [69, 78, 68] ∧
    B "IF(" = [73, 70, 40] := by decide

theorem case_kw :
    kwOK [67, 65, 83, 69] = true ∧ kwOK [87, 72, 69, 78] = true ∧ kwOK [84, 72, 69, 78] = true ∧
    kwOK [69, 76, 83, 69] = true ∧ kwOK [69, 78, 68] = true ∧ kwOK [73, 70] = true := by decide +kernel

theorem case_tks :
    symTK [67, 65, 83, 69] = .case_ ∧ symTK [87, 72, 69, 78] = .when_ ∧ symTK [84, 72, 69, 78] = .then_ ∧
    symTK [69, 76, 83, 69] = .else_ ∧ symTK [69, 78, 68] = .end_ ∧ symTK [73, 70] = .if_ := by decide

theorem case_dot :
    dotEnables (.sym [67, 65, 83, 69]) = false ∧ dotEnables (.sym [87, 72, 69, 78]) = false ∧
    dotEnables (.sym [84, 72, 69, 78]) = false ∧ dotEnables (.sym [69, 76, 83, 69]) = false := by decide

/-- one clause ` WHEN c THEN t` (with the blank in front of it), in front of an admissible suffix -/
theorem lex_whenClause {c t : Expr} (ihc : LexIH c) (iht : LexIH t) (lk : TokKind) (Y : Bytes) (hY : folB Y = true) :
    ∃ lk', PRun (32 :: 87 :: 72 :: 69 :: 78 :: 32 :: (sqlE c ++ 32 :: 84 :: 72 :: 69 :: 78 :: 32 :: (sqlE t ++ Y))) lk false
      (T .when_ :: (sqlToks c ++ (T .then_ :: sqlToks t))) Y lk' false := by
  have h1 := prun_kwb [87, 72, 69, 78] case_kw.2.1 case_tks.2.1 1 lk (sqlE c ++ 32 :: 84 :: 72 :: 69 :: 78 :: 32 :: (sqlE t ++ Y))
  obtain ⟨lk2, h2⟩ := ihc 1 (.sym [87, 72, 69, 78]) (32 :: 84 :: 72 :: 69 :: 78 :: 32 :: (sqlE t ++ Y)) case_dot.2.1 (Or.inl rfl)
  have h3 := prun_kwb [84, 72, 69, 78] case_kw.2.2.1 case_tks.2.2.1 1 lk2 (sqlE t ++ Y)
  obtain ⟨lk4, h4⟩ := iht 1 (.sym [84, 72, 69, 78]) Y case_dot.2.2.1 (Or.inl hY)
  exact ⟨_, (h1.append (h2.append (h3.append h4))).cast (by simp)⟩

/-- the further WHEN clauses, in front of the blank that `CaseExpr.SQL()` prints after the clauses -/
def LexIHw (ws : Whens) : Prop :=
  ∀ (lk : TokKind) (X : Bytes), ∃ lk', PRun (sqlWs ws ++ 32 :: X) lk false (sqlToksW ws) (32 :: X) lk' false

theorem sqlWs_folB (ws : Whens) (X : Bytes) : folB (sqlWs ws ++ 32 :: X) = true := by
  cases ws with
  | nil => simp [sqlWs, folB]
  | cons c t ws => simp [sqlWs, case_vals.2.2.2.1, folB]

theorem lex_wnil : LexIHw .nil := fun lk X => ⟨lk, by simpa [sqlWs, sqlToksW] using PRun.nil (32 :: X) lk false⟩

theorem lex_wcons {c t : Expr} {ws : Whens} (ihc : LexIH c) (iht : LexIH t) (ihw : LexIHw ws) : LexIHw (.cons c t ws) := by
  intro lk X
  simp only [sqlWs, sqlToksW, case_vals.2.2.2.1, case_vals.2.2.1, List.append_assoc, List.cons_append, List.nil_append]
  obtain ⟨lk1, h1⟩ := lex_whenClause ihc iht lk (sqlWs ws ++ 32 :: X) (sqlWs_folB ws X)
  obtain ⟨lk2, h2⟩ := ihw lk1 X
  exact ⟨_, (h1.append h2).cast (by simp)⟩

/-- an optional expression -/
def LexIHo (o : OExpr) : Prop := ∀ e, o = .some e → LexIH e

/-- the operand of CASE (if any) followed by its blank, after `CASE` -/
theorem lex_caseOperand {o : OExpr} (iho : LexIHo o) (lk : TokKind) (hlk : dotEnables lk = false) (Y : Bytes) :
    ∃ lk', PRun (32 :: (sqlO [] o ++ Y)) lk false (sqlToksO [] o) (32 :: Y) lk' false ∧ (o = .none → lk' = lk) := by
  cases o with
  | none => exact ⟨lk, by simpa [sqlO, sqlToksO] using PRun.nil (32 :: Y) lk false, fun _ => rfl⟩
  | some e =>
    obtain ⟨lk1, h1⟩ := iho e rfl 1 lk (32 :: Y) hlk (Or.inl rfl)
    exact ⟨lk1, by simpa [sqlO, sqlToksO, B_vals.2.2.2.2.2.2.2.1] using h1, fun h => by cases h⟩

/-- the ELSE clause (if any) followed by its blank, then `END` -/
theorem lex_caseEls {el : OExpr} (ihe : LexIHo el) (lk : TokKind) {X : Bytes}
    (f1 : headSat isIdentChar X = false) (f2 : headSat isQuote X = false) :
    ∃ lk', PRun (32 :: (sqlO [69, 76, 83, 69, 32] el ++ 69 :: 78 :: 68 :: X)) lk false
      (sqlToksO [T .else_] el ++ [T .end_]) X lk' false := by
  cases el with
  | none =>
    have h := prun_kw' [69, 78, 68] case_kw.2.2.2.2.1 case_tks.2.2.2.2.1 1 lk f1 f2
    exact ⟨_, by simpa [sqlO, sqlToksO] using h⟩
  | some e =>
    have h1 := prun_kwb [69, 76, 83, 69] case_kw.2.2.2.1 case_tks.2.2.2.1 1 lk (sqlE e ++ 32 :: 69 :: 78 :: 68 :: X)
    obtain ⟨lk2, h2⟩ := ihe e rfl 1 (.sym [69, 76, 83, 69]) (32 :: 69 :: 78 :: 68 :: X) case_dot.2.2.2 (Or.inl rfl)
    have h3 := prun_kw' [69, 78, 68] case_kw.2.2.2.2.1 case_tks.2.2.2.2.1 1 lk2 f1 f2
    have h := h1.append (h2.append h3)
    exact ⟨.sym [69, 78, 68], by simpa [sqlO, sqlToksO, B_vals.2.2.2.2.2.2.2.1] using h⟩

theorem lex_caseE {o el : OExpr} {c t : Expr} {ws : Whens} (iho : LexIHo o) (ihc : LexIH c) (iht : LexIH t)
    (ihw : LexIHw ws) (ihe : LexIHo el) : LexIH (.caseE o c t ws el) := by
  intro k lk X _ hX
  obtain ⟨f1, f2⟩ := fol_facts hX.fol
  obtain ⟨bCase, bWhen, bThen, _, bElse, bEnd, _⟩ := case_vals
  simp only [sqlE, sqlToks, bCase, bWhen, bThen, bElse, bEnd, B_vals.2.2.2.2.2.2.2.1, List.append_assoc,
    List.cons_append, List.nil_append]
  have h1 := prun_kw' [67, 65, 83, 69] case_kw.1 case_tks.1 k lk
    (X := 32 :: (sqlO [] o ++ (87 :: 72 :: 69 :: 78 :: 32 :: (sqlE c ++ (32 :: 84 :: 72 :: 69 :: 78 :: 32 ::
      (sqlE t ++ (sqlWs ws ++ (32 :: (sqlO [69, 76, 83, 69, 32] el ++ (69 :: 78 :: 68 :: X))))))))))
    (blank_follow _).1 (blank_follow _).2
  obtain ⟨lk2, h2, _⟩ := lex_caseOperand iho (.sym [67, 65, 83, 69]) case_dot.1
    (87 :: 72 :: 69 :: 78 :: 32 :: (sqlE c ++ (32 :: 84 :: 72 :: 69 :: 78 :: 32 ::
      (sqlE t ++ (sqlWs ws ++ (32 :: (sqlO [69, 76, 83, 69, 32] el ++ (69 :: 78 :: 68 :: X))))))))
  obtain ⟨lk3, h3⟩ := lex_whenClause ihc iht lk2
    (sqlWs ws ++ (32 :: (sqlO [69, 76, 83, 69, 32] el ++ (69 :: 78 :: 68 :: X)))) (sqlWs_folB ws _)
  obtain ⟨lk4, h4⟩ := ihw lk3 (sqlO [69, 76, 83, 69, 32] el ++ (69 :: 78 :: 68 :: X))
  obtain ⟨lk5, h5⟩ := lex_caseEls ihe lk4 f1 f2
  exact ⟨_, (h1.append (h2.append (h3.append (h4.append h5)))).cast (by simp)⟩

theorem lex_ifE {c t e : Expr} (ihc : LexIH c) (iht : LexIH t) (ihe : LexIH e) : LexIH (.ifE c t e) := by
  intro k lk X _ _
  obtain ⟨_, _, _, _, _, _, bR, _, _, _, bComma, _⟩ := B_vals
  obtain ⟨_, _, _, _, _, _, _, _, _, tL, tR, _, _, tC, _⟩ := kw_tks
  simp only [sqlE, sqlToks, case_vals.2.2.2.2.2.2, bR, bComma, List.append_assoc, List.cons_append, List.nil_append]
  have h1 := prun_kw' [73, 70] case_kw.2.2.2.2.2 case_tks.2.2.2.2.2 k lk
    (X := 40 :: (sqlE c ++ (44 :: 32 :: (sqlE t ++ (44 :: 32 :: (sqlE e ++ 41 :: X))))))
    (by simp only [headSat_cons]; decide) (by simp only [headSat_cons]; decide)
  have h2 := prun_single' 40 (by decide) (by decide) tL 0 (.sym [73, 70])
    (sqlE c ++ (44 :: 32 :: (sqlE t ++ (44 :: 32 :: (sqlE e ++ 41 :: X)))))
  obtain ⟨lk3, h3⟩ := ihc 0 (.sym [40]) (44 :: 32 :: (sqlE t ++ (44 :: 32 :: (sqlE e ++ 41 :: X))))
    dotEnables_kw.2.2.2.1 (Or.inl rfl)
  have h4 := prun_single' 44 (by decide) (by decide) tC 0 lk3 (32 :: (sqlE t ++ (44 :: 32 :: (sqlE e ++ 41 :: X))))
  obtain ⟨lk5, h5⟩ := iht 1 (.sym [44]) (44 :: 32 :: (sqlE e ++ 41 :: X)) dotEnables_kw.2.2.2.2.2.1 (Or.inl rfl)
  have h6 := prun_single' 44 (by decide) (by decide) tC 0 lk5 (32 :: (sqlE e ++ 41 :: X))
  obtain ⟨lk7, h7⟩ := ihe 1 (.sym [44]) (41 :: X) dotEnables_kw.2.2.2.2.2.1 (Or.inl rfl)
  have h8 := prun_single' 41 (by decide) (by decide) tR 0 lk7 X
  exact ⟨_, (h1.append (h2.append (h3.append (h4.append (h5.append (h6.append (h7.append h8))))))).cast (by simp)⟩

/-! ### CAST -/

theorem cast_vals : B "CAST(" = [67, 65, 83, 84, 40] ∧ B " AS " = [32, 65, 83, 32] := by decide

theorem cast_kw : kwOK [67, 65, 83, 84] = true ∧ kwOK [65, 83] = true := by decide +kernel

theorem cast_tks : symTK [67, 65, 83, 84] = .cast ∧ symTK [65, 83] = .as_ := by decide

theorem lex_cast {e : Expr} (ih : LexIH e) (ns : List Bytes) (hns : (!ns.isEmpty && ns.all identOK) = true) :
    LexIH (.cast e ns) := by
  intro k lk X _ _
  obtain ⟨_, _, _, _, bDot, _, bR, _⟩ := B_vals
  obtain ⟨_, _, _, _, _, _, _, _, _, tL, tR, _⟩ := kw_tks
  simp only [Bool.and_eq_true, Bool.not_eq_true', List.isEmpty_eq_false_iff] at hns
  simp only [sqlE, sqlToks, cast_vals.1, cast_vals.2, bDot, bR, List.append_assoc, List.cons_append, List.nil_append]
  have h1 := prun_kw' [67, 65, 83, 84] cast_kw.1 cast_tks.1 k lk
    (X := 40 :: (sqlE e ++ (32 :: 65 :: 83 :: 32 :: (joinBytes [46] (ns.map identSQL) ++ 41 :: X))))
    (by simp only [headSat_cons]; decide) (by simp only [headSat_cons]; decide)
  have h2 := prun_single' 40 (by decide) (by decide) tL 0 (.sym [67, 65, 83, 84])
    (sqlE e ++ (32 :: 65 :: 83 :: 32 :: (joinBytes [46] (ns.map identSQL) ++ 41 :: X)))
  obtain ⟨lk3, h3⟩ := ih 0 (.sym [40]) (32 :: 65 :: 83 :: 32 :: (joinBytes [46] (ns.map identSQL) ++ 41 :: X))
    dotEnables_kw.2.2.2.1 (Or.inl rfl)
  have h4 := prun_kwb [65, 83] cast_kw.2 cast_tks.2 1 lk3 (joinBytes [46] (ns.map identSQL) ++ 41 :: X)
  have h5 := lex_path_aux ns hns.1 hns.2 1 (.sym [65, 83]) false (41 :: X) (by simp only [headSat_cons]; decide)
    (by simp only [headSat_cons]; decide)
  have h6 := prun_single' 41 (by decide) (by decide) tR 0 .ident X
  exact ⟨_, (h1.append (h2.append (h3.append (h4.append (h5.append h6))))).cast (by simp)⟩

/-! ### array literals -/

theorem lex_arr_nil : LexIH (.array .nil) := by
  intro k lk X _ _
  obtain ⟨_, _, _, _, _, _, _, _, bLb, bRb, _⟩ := B_vals
  obtain ⟨_, _, _, _, _, _, _, _, _, _, _, tLb, tRb, _⟩ := kw_tks
  simp only [sqlE, sqlToks, bLb, bRb, List.cons_append, List.nil_append]
  have h1 := prun_single' 91 (by decide) (by decide) tLb k lk (93 :: X)
  have h2 := prun_single' 93 (by decide) (by decide) tRb 0 (.sym [91]) X
  exact ⟨_, h1.append h2⟩

theorem lex_arr_cons {e : Expr} {es : Exprs} (ih : LexIH e) (ihs : LexIHs es) : LexIH (.array (.cons e es)) := by
  intro k lk X _ _
  obtain ⟨_, _, _, _, _, _, _, _, bLb, bRb, _⟩ := B_vals
  obtain ⟨_, _, _, _, _, _, _, _, _, _, _, tLb, tRb, _⟩ := kw_tks
  simp only [sqlE, sqlToks, bLb, bRb, List.append_assoc, List.cons_append, List.nil_append]
  have h1 := prun_single' 91 (by decide) (by decide) tLb k lk (sqlE e ++ (sqlEs es ++ 93 :: X))
  obtain ⟨lk2, h2⟩ := ih 0 (.sym [91]) (sqlEs es ++ 93 :: X) dotEnables_kw.2.2.2.2.1
    (Or.inl (sqlEs_folB es (Or.inr rfl) X))
  obtain ⟨lk3, h3⟩ := ihs 93 (Or.inr rfl) lk2 X
  have h4 := prun_single' 93 (by decide) (by decide) tRb 0 lk3 X
  exact ⟨_, h1.append (h2.append (h3.append h4))⟩

/-! ## the induction -/

mutual
theorem lex_expr : (e : Expr) → lexWF e = true → LexIH e
  | .null, _ => lex_null
  | .bool b, _ => lex_bool b
  | .int s raw, h => lex_int s raw (by simpa [lexWF] using h)
  | .float s raw, h => lex_float s raw (by simpa [lexWF] using h)
  | .str v, _ => lex_str v
  | .bytes v, _ => lex_bytes v
  | .param n, h => lex_param n (by simpa [lexWF] using h)
  | .ident n, h => lex_ident n (by simpa [lexWF] using h)
  | .path ns, h => lex_path ns (by simpa [lexWF] using h)
  | .paren e, h => lex_paren (lex_expr e (by simpa [lexWF] using h))
  | .unary op e, h => lex_unary op (by simpa [lexWF] using h) (lex_expr e (by simpa [lexWF] using h))
  | .bin op l r, h => by
    simp only [lexWF, Bool.and_eq_true] at h
    exact lex_bin op (lex_expr l h.1) (lex_expr r h.2)
  | .isNull e n, h => lex_isNull (lex_expr e (by simpa [lexWF] using h)) n
  | .isBool e n b, h => lex_isBool (lex_expr e (by simpa [lexWF] using h)) n b
  | .between n e lo hi, h => by
    simp only [lexWF, Bool.and_eq_true] at h
    exact lex_between (lex_expr e h.1.1) (lex_expr lo h.1.2) (lex_expr hi h.2) n
  | .inList n e f m, h => by
    simp only [lexWF, Bool.and_eq_true] at h
    exact lex_inList (lex_expr e h.1.1) (lex_expr f h.1.2) (lex_exprs m h.2) n
  | .inUnnest n e a, h => by
    simp only [lexWF, Bool.and_eq_true] at h
    exact lex_inUnnest (lex_expr e h.1) (lex_expr a h.2) n
  | .sel e n, h => by
    simp only [lexWF, Bool.and_eq_true] at h
    exact lex_sel (lex_expr e h.1) n h.2
  | .index e kw i, h => by
    simp only [lexWF, Bool.and_eq_true] at h
    exact lex_index (lex_expr e h.1) (lex_expr i h.2) kw
  | .caseE o c t ws el, h => by
    simp only [lexWF, Bool.and_eq_true] at h
    exact lex_caseE (lex_expro o h.1.1.1.1) (lex_expr c h.1.1.1.2) (lex_expr t h.1.1.2) (lex_exprw ws h.1.2)
      (lex_expro el h.2)
  | .ifE c t e, h => by
    simp only [lexWF, Bool.and_eq_true] at h
    exact lex_ifE (lex_expr c h.1.1) (lex_expr t h.1.2) (lex_expr e h.2)
  | .cast e ns, h => by
    simp only [lexWF, Bool.and_eq_true] at h
    exact lex_cast (lex_expr e h.1) ns (by simpa using h.2)
  | .array .nil, _ => lex_arr_nil
  | .array (.cons e es), h => by
    simp only [lexWF, lexWFs, Bool.and_eq_true] at h
    exact lex_arr_cons (lex_expr e h.1) (lex_exprs es h.2)
theorem lex_exprs : (es : Exprs) → lexWFs es = true → LexIHs es
  | .nil, _ => lex_nil
  | .cons e es, h => by
    simp only [lexWFs, Bool.and_eq_true] at h
    exact lex_cons (lex_expr e h.1) (lex_exprs es h.2)
theorem lex_exprw : (ws : Whens) → lexWFw ws = true → LexIHw ws
  | .nil, _ => lex_wnil
  | .cons c t ws, h => by
    simp only [lexWFw, Bool.and_eq_true] at h
    exact lex_wcons (lex_expr c h.1.1) (lex_expr t h.1.2) (lex_exprw ws h.2)
theorem lex_expro : (o : OExpr) → lexWFo o = true → LexIHo o
  | .none, _ => fun _ h => by cases h
  | .some e, h => fun e' h' => by
    cases h'
    exact lex_expr e (by simpa [lexWFo] using h)
end

/-! ## the printed text lexes to the printer's tokens -/

/-- **The lexer reads the printed text as the printer's tokens.** -/
theorem printed_lexes_tokens {e : Expr} (h : LexWF e) :
    ∃ ts, Lex.lexAll (sqlE e) = .ok ts ∧ ts.map proj = sqlToks e ++ [T .eof] := by
  obtain ⟨lk', l, hs, hm⟩ := lex_expr e h 0 (.sym []) [] (by decide) (Or.inl rfl)
  simp only [List.replicate_zero, List.nil_append, List.append_nil] at hs
  obtain ⟨ts, h1, h2⟩ := lexAll_of_srun hs (atEnd_nil lk' false)
  refine ⟨ts, h1, ?_⟩
  have : ts.map proj = (ts.map trec).map projR := by
    rw [List.map_map]; rfl
  rw [this, h2, List.map_append, hm]
  rfl

theorem printed_lexes {e : Expr} (h : LexWF e) : rtOK e = true := by
  obtain ⟨ts, h1, h2⟩ := printed_lexes_tokens h
  simp only [rtOK, h1, h2, beq_self_eq_true]

/-! ## parser-built trees have lexer-producible leaves -/

/-- a projected token carries a value the lexer can produce -/
def tokWF (x : Tok') : Bool :=
  match x.k with
  | .int => numOK true x.v
  | .float => numOK false x.v
  | .ident => identOK x.v
  | .param => paramOK x.v
  | _ => true

theorem recOK_tokWF {r : TRec} (h : recOK r) : tokWF (projR r) = true := by
  obtain ⟨h1, h2, h3, h4⟩ := h
  obtain ⟨k, raw, v, b⟩ := r
  cases k with
  | sym s =>
    obtain ⟨n1, n2, n3, n4, n5, n6⟩ := symTK_noval s
    simp only [tokWF, projR, tk]
  | int => simpa [tokWF, projR, tk] using h1 rfl
  | float => simpa [tokWF, projR, tk] using h2 rfl
  | ident => simpa [tokWF, projR, tk, identOK] using (h3 rfl).1
  | param => simpa [tokWF, projR, tk] using h4 rfl
  | bad => simp [tokWF, projR, tk]
  | eof => simp [tokWF, projR, tk]
  | string => simp [tokWF, projR, tk]
  | bytes => simp [tokWF, projR, tk]

theorem lexAll_tokWF {buf : Bytes} {ts : List Token} (h : Lex.lexAll buf = .ok ts) : ∀ t ∈ ts, tokWF (proj t) = true :=
  fun t ht => recOK_tokWF (lexAll_recOK h t ht)

theorem mem_pathToks : ∀ (ns : List Bytes) (n : Bytes), n ∈ ns → (⟨.ident, n⟩ : Tok') ∈ pathToks ns
  | [a], n, h => by simp only [List.mem_singleton] at h; subst h; simp [pathToks]
  | a :: b :: rest, n, h => by
    rcases List.mem_cons.1 h with rfl | h
    · simp [pathToks]
    · have := mem_pathToks (b :: rest) n h
      simp only [pathToks, List.mem_cons]
      exact Or.inr (Or.inr this)

mutual
theorem lexWF_of_yield : (e : Expr) → (∀ x ∈ yield e, tokWF x = true) → nf e = true → lexWF e = true
  | .null, _, _ | .bool _, _, _ | .str _, _, _ | .bytes _, _, _ => rfl
  | .int s raw, h, _ => by simpa [lexWF, tokWF] using h ⟨.int, raw⟩ (by simp [yield])
  | .float s raw, h, _ => by simpa [lexWF, tokWF] using h ⟨.float, raw⟩ (by simp [yield])
  | .param n, h, _ => by simpa [lexWF, tokWF] using h ⟨.param, n⟩ (by simp [yield])
  | .ident n, h, _ => by simpa [lexWF, tokWF] using h ⟨.ident, n⟩ (by simp [yield])
  | .path ns, h, hn => by
    simp only [nf, decide_eq_true_eq] at hn
    simp only [lexWF, Bool.and_eq_true, Bool.not_eq_true', List.isEmpty_eq_false_iff, List.all_eq_true]
    refine ⟨by intro h0; subst h0; simp at hn, fun n hm => ?_⟩
    simpa [tokWF] using h ⟨.ident, n⟩ (by simpa [yield] using mem_pathToks ns n hm)
  | .paren e, h, hn => by
    simp only [nf] at hn
    simp only [lexWF]
    exact lexWF_of_yield e (fun x hx => h x (by simp [yield, hx])) hn
  | .unary op e, h, hn => by
    simp only [nf, Bool.and_eq_true] at hn
    simp only [lexWF]
    exact lexWF_of_yield e (fun x hx => h x (by simp [yield, hx])) hn.1
  | .bin op l r, h, hn => by
    simp only [nf, Bool.and_eq_true] at hn
    simp only [lexWF, Bool.and_eq_true]
    exact ⟨lexWF_of_yield l (fun x hx => h x (by simp [yield, hx])) hn.1,
      lexWF_of_yield r (fun x hx => h x (by simp [yield, hx])) hn.2⟩
  | .isNull e _, h, hn => by
    simp only [nf] at hn
    simp only [lexWF]
    exact lexWF_of_yield e (fun x hx => h x (by simp [yield, hx])) hn
  | .isBool e _ _, h, hn => by
    simp only [nf] at hn
    simp only [lexWF]
    exact lexWF_of_yield e (fun x hx => h x (by simp [yield, hx])) hn
  | .between _ e lo hi, h, hn => by
    simp only [nf, Bool.and_eq_true] at hn
    simp only [lexWF, Bool.and_eq_true]
    exact ⟨⟨lexWF_of_yield e (fun x hx => h x (by simp [yield, hx])) hn.1.1,
      lexWF_of_yield lo (fun x hx => h x (by simp [yield, hx])) hn.1.2⟩,
      lexWF_of_yield hi (fun x hx => h x (by simp [yield, hx])) hn.2⟩
  | .inList _ e f m, h, hn => by
    simp only [nf, Bool.and_eq_true] at hn
    simp only [lexWF, Bool.and_eq_true]
    exact ⟨⟨lexWF_of_yield e (fun x hx => h x (by simp [yield, hx])) hn.1.1,
      lexWF_of_yield f (fun x hx => h x (by simp [yield, hx])) hn.1.2⟩,
      lexWFs_of_yields m (fun x hx => h x (by simp [yield, hx])) hn.2⟩
  | .inUnnest _ e a, h, hn => by
    simp only [nf, Bool.and_eq_true] at hn
    simp only [lexWF, Bool.and_eq_true]
    exact ⟨lexWF_of_yield e (fun x hx => h x (by simp [yield, hx])) hn.1,
      lexWF_of_yield a (fun x hx => h x (by simp [yield, hx])) hn.2⟩
  | .sel e n, h, hn => by
    simp only [nf, Bool.and_eq_true] at hn
    simp only [lexWF, Bool.and_eq_true]
    exact ⟨lexWF_of_yield e (fun x hx => h x (by simp [yield, hx])) hn.1,
      by simpa [tokWF] using h ⟨.ident, n⟩ (by simp [yield])⟩
  | .index e none i, h, hn => by
    simp only [nf, Bool.and_eq_true] at hn
    simp only [lexWF, Bool.and_eq_true]
    exact ⟨lexWF_of_yield e (fun x hx => h x (by simp [yield, hx])) hn.1,
      lexWF_of_yield i (fun x hx => h x (by simp [yield, hx])) hn.2⟩
  | .index e (some (k, sp)) i, h, hn => by
    simp only [nf, Bool.and_eq_true] at hn
    simp only [lexWF, Bool.and_eq_true]
    exact ⟨lexWF_of_yield e (fun x hx => h x (by simp [yield, hx])) hn.1.1,
      lexWF_of_yield i (fun x hx => h x (by simp [yield, hx])) hn.1.2⟩
  | .caseE o c t ws el, h, hn => by
    simp only [nf, Bool.and_eq_true] at hn
    simp only [lexWF, Bool.and_eq_true]
    exact ⟨⟨⟨⟨lexWFo_of_yieldO [] o (fun x hx => h x (by simp [yield, hx])) hn.1.1.1.1,
      lexWF_of_yield c (fun x hx => h x (by simp [yield, hx])) hn.1.1.1.2⟩,
      lexWF_of_yield t (fun x hx => h x (by simp [yield, hx])) hn.1.1.2⟩,
      lexWFw_of_yieldW ws (fun x hx => h x (by simp [yield, hx])) hn.1.2⟩,
      lexWFo_of_yieldO [T .else_] el (fun x hx => h x (by simp [yield, hx])) hn.2⟩
  | .ifE c t e, h, hn => by
    simp only [nf, Bool.and_eq_true] at hn
    simp only [lexWF, Bool.and_eq_true]
    exact ⟨⟨lexWF_of_yield c (fun x hx => h x (by simp [yield, hx])) hn.1.1,
      lexWF_of_yield t (fun x hx => h x (by simp [yield, hx])) hn.1.2⟩,
      lexWF_of_yield e (fun x hx => h x (by simp [yield, hx])) hn.2⟩
  | .cast e ns, h, hn => by
    simp only [nf, Bool.and_eq_true] at hn
    simp only [lexWF, Bool.and_eq_true, Bool.not_eq_true', List.isEmpty_eq_false_iff, List.all_eq_true]
    refine ⟨lexWF_of_yield e (fun x hx => h x (by simp [yield, hx])) hn.1, ?_, fun n hm => ?_⟩
    · intro h0; subst h0; simp [nfT] at hn
    · have hne : ns ≠ [] := by intro h0; subst h0; cases hm
      simpa [tokWF] using h ⟨.ident, n⟩ (by
        simp only [yield, List.mem_cons, List.mem_append]
        exact Or.inr (Or.inr (Or.inr (Or.inr (Or.inl (mem_pathToks ns n hm))))))
  | .array .nil, _, _ => rfl
  | .array (.cons e es), h, hn => by
    simp only [nf, nfs, Bool.and_eq_true] at hn
    simp only [lexWF, lexWFs, Bool.and_eq_true]
    exact ⟨lexWF_of_yield e (fun x hx => h x (by simp [yield, hx])) hn.1,
      lexWFs_of_yields es (fun x hx => h x (by simp [yield, hx])) hn.2⟩
theorem lexWFs_of_yields : (es : Exprs) → (∀ x ∈ yields es, tokWF x = true) → nfs es = true → lexWFs es = true
  | .nil, _, _ => rfl
  | .cons e es, h, hn => by
    simp only [nfs, Bool.and_eq_true] at hn
    simp only [lexWFs, Bool.and_eq_true]
    exact ⟨lexWF_of_yield e (fun x hx => h x (by simp [yields, hx])) hn.1,
      lexWFs_of_yields es (fun x hx => h x (by simp [yields, hx])) hn.2⟩
theorem lexWFw_of_yieldW : (ws : Whens) → (∀ x ∈ yieldW ws, tokWF x = true) → nfw ws = true → lexWFw ws = true
  | .nil, _, _ => rfl
  | .cons c t ws, h, hn => by
    simp only [nfw, Bool.and_eq_true] at hn
    simp only [lexWFw, Bool.and_eq_true]
    exact ⟨⟨lexWF_of_yield c (fun x hx => h x (by simp [yieldW, hx])) hn.1.1,
      lexWF_of_yield t (fun x hx => h x (by simp [yieldW, hx])) hn.1.2⟩,
      lexWFw_of_yieldW ws (fun x hx => h x (by simp [yieldW, hx])) hn.2⟩
theorem lexWFo_of_yieldO (pre : List Tok') : (o : OExpr) → (∀ x ∈ yieldO pre o, tokWF x = true) → nfo o = true →
    lexWFo o = true
  | .none, _, _ => rfl
  | .some e, h, hn => by
    simp only [nfo] at hn
    simp only [lexWFo]
    exact lexWF_of_yield e (fun x hx => h x (by simp [yieldO, hx])) hn
end

/-- **Parser-built trees have lexer-producible leaves.** -/
theorem parse_lexwf {buf : Bytes} {ts : List Token} {fuel : Nat} {e : Expr} (h1 : Lex.lexAll buf = .ok ts)
    (h2 : parseExprTop fuel ts = .ok e) : LexWF e := by
  obtain ⟨pre, rest, hts, _, hy, _, hn⟩ := parseExprTop_sound h2
  apply lexWF_of_yield e _ hn
  intro x hx
  rw [← hy] at hx
  obtain ⟨t, ht, rfl⟩ := List.mem_map.1 hx
  exact lexAll_tokWF h1 t (by rw [hts]; exact List.mem_append_left _ ht)

/-! ## `canonKw`: what the printed tokens are, relative to the parsed ones -/

/-- `a` is `b`, or `b` is an identifier that reads as the position keyword `k` and `a` is `k`'s canonical spelling -/
def CanonRel (a b : Tok') : Prop :=
  a = b ∨ ∃ k : PosKw, a = ⟨.ident, k.str⟩ ∧ b.k = .ident ∧ posKwName b.v = some k

/-- pointwise relation of two lists of the same length -/
inductive RelL (R : Tok' → Tok' → Prop) : List Tok' → List Tok' → Prop
  | nil : RelL R [] []
  | cons {a b : Tok'} {l1 l2 : List Tok'} : R a b → RelL R l1 l2 → RelL R (a :: l1) (b :: l2)

theorem RelL.refl {R : Tok' → Tok' → Prop} (hR : ∀ a, R a a) : ∀ l, RelL R l l
  | [] => .nil
  | a :: l => .cons (hR a) (RelL.refl hR l)

theorem RelL.append {R : Tok' → Tok' → Prop} {a b c d : List Tok'} (h1 : RelL R a b) (h2 : RelL R c d) :
    RelL R (a ++ c) (b ++ d) := by
  induction h1 with
  | nil => exact h2
  | cons h _ ih => exact .cons h ih

theorem RelL.mem {R : Tok' → Tok' → Prop} {a b : List Tok'} (h : RelL R a b) : ∀ x ∈ a, ∃ y ∈ b, R x y := by
  induction h with
  | nil => intro x hx; cases hx
  | cons h _ ih =>
    intro x hx
    rcases List.mem_cons.1 hx with rfl | hx
    · exact ⟨_, List.mem_cons_self, h⟩
    · obtain ⟨y, hy, hr⟩ := ih x hx
      exact ⟨y, List.mem_cons_of_mem _ hy, hr⟩

theorem RelL.map_eq {R : Tok' → Tok' → Prop} {f : Tok' → Tok'} (hf : ∀ a b, R a b → f a = f b) {a b : List Tok'}
    (h : RelL R a b) : a.map f = b.map f := by
  induction h with
  | nil => rfl
  | cons h _ ih => simp only [List.map_cons, hf _ _ h, ih]

abbrev CanonL := RelL CanonRel

theorem canonL_refl (l : List Tok') : CanonL l l := RelL.refl (fun _ => Or.inl rfl) l

theorem canonL_cons (x : Tok') {a b : List Tok'} (h : CanonL a b) : CanonL (x :: a) (x :: b) := .cons (Or.inl rfl) h

mutual
/-- the yield of the canonically spelled tree is the yield of the tree, token by token, except that an identifier
spelling a position keyword in `[KW(…)]` is replaced by the keyword's canonical spelling -/
theorem yield_canonKw : (e : Expr) → nf e = true → CanonL (yield (canonKw e)) (yield e)
  | .null, _ | .bool _, _ | .int _ _, _ | .float _ _, _ | .str _, _ | .bytes _, _ | .param _, _ | .ident _, _
  | .path _, _ => canonL_refl _
  | .paren e, h => by
    simp only [nf] at h
    simp only [canonKw, yield]
    exact canonL_cons _ ((yield_canonKw e h).append (canonL_refl _))
  | .unary op e, h => by
    simp only [nf, Bool.and_eq_true] at h
    simp only [canonKw, yield]
    exact canonL_cons _ (yield_canonKw e h.1)
  | .bin op l r, h => by
    simp only [nf, Bool.and_eq_true] at h
    simp only [canonKw, yield]
    exact (yield_canonKw l h.1).append ((canonL_refl _).append (yield_canonKw r h.2))
  | .isNull e _, h => by
    simp only [nf] at h
    simp only [canonKw, yield]
    exact (yield_canonKw e h).append (canonL_refl _)
  | .isBool e _ _, h => by
    simp only [nf] at h
    simp only [canonKw, yield]
    exact (yield_canonKw e h).append (canonL_refl _)
  | .between n e lo hi, h => by
    simp only [nf, Bool.and_eq_true] at h
    simp only [canonKw, yield]
    exact (yield_canonKw e h.1.1).append ((canonL_refl _).append (canonL_cons _
      ((yield_canonKw lo h.1.2).append (canonL_cons _ (yield_canonKw hi h.2)))))
  | .inList n e f m, h => by
    simp only [nf, Bool.and_eq_true] at h
    simp only [canonKw, yield]
    exact (yield_canonKw e h.1.1).append ((canonL_refl _).append (canonL_cons _ (canonL_cons _
      ((yield_canonKw f h.1.2).append ((yields_canonKwL m h.2).append (canonL_refl _))))))
  | .inUnnest n e a, h => by
    simp only [nf, Bool.and_eq_true] at h
    simp only [canonKw, yield]
    exact (yield_canonKw e h.1).append ((canonL_refl _).append (canonL_cons _ (canonL_cons _ (canonL_cons _
      ((yield_canonKw a h.2).append (canonL_refl _))))))
  | .sel e _, h => by
    simp only [nf, Bool.and_eq_true] at h
    simp only [canonKw, yield]
    exact (yield_canonKw e h.1).append (canonL_refl _)
  | .index e none i, h => by
    simp only [nf, Bool.and_eq_true] at h
    simp only [canonKw, yield]
    exact (yield_canonKw e h.1).append (canonL_cons _ ((yield_canonKw i h.2).append (canonL_refl _)))
  | .index e (some (k, sp)) i, h => by
    simp only [nf, Bool.and_eq_true, beq_iff_eq] at h
    simp only [canonKw, yield]
    exact (yield_canonKw e h.1.1).append (canonL_cons _ (.cons (Or.inr ⟨k, rfl, rfl, h.2⟩)
      (canonL_cons _ ((yield_canonKw i h.1.2).append (canonL_refl _)))))
  | .caseE o c t ws el, h => by
    simp only [nf, Bool.and_eq_true] at h
    simp only [canonKw, yield]
    exact canonL_cons _ ((yieldO_canonKwO [] o h.1.1.1.1).append (canonL_cons _ ((yield_canonKw c h.1.1.1.2).append
      (canonL_cons _ ((yield_canonKw t h.1.1.2).append ((yieldW_canonKwW ws h.1.2).append
        ((yieldO_canonKwO [T .else_] el h.2).append (canonL_refl _))))))))
  | .ifE c t e, h => by
    simp only [nf, Bool.and_eq_true] at h
    simp only [canonKw, yield]
    exact canonL_cons _ (canonL_cons _ ((yield_canonKw c h.1.1).append (canonL_cons _ ((yield_canonKw t h.1.2).append
      (canonL_cons _ ((yield_canonKw e h.2).append (canonL_refl _)))))))
  | .cast e ns, h => by
    simp only [nf, Bool.and_eq_true] at h
    simp only [canonKw, yield]
    exact canonL_cons _ (canonL_cons _ ((yield_canonKw e h.1).append (canonL_refl _)))
  | .array .nil, _ => canonL_refl _
  | .array (.cons e es), h => by
    simp only [nf, nfs, Bool.and_eq_true] at h
    simp only [canonKw, canonKwL, yield]
    exact canonL_cons _ ((yield_canonKw e h.1).append ((yields_canonKwL es h.2).append (canonL_refl _)))
theorem yields_canonKwL : (m : Exprs) → nfs m = true → CanonL (yields (canonKwL m)) (yields m)
  | .nil, _ => canonL_refl _
  | .cons e es, h => by
    simp only [nfs, Bool.and_eq_true] at h
    simp only [canonKwL, yields]
    exact canonL_cons _ ((yield_canonKw e h.1).append (yields_canonKwL es h.2))
theorem yieldW_canonKwW : (ws : Whens) → nfw ws = true → CanonL (yieldW (canonKwW ws)) (yieldW ws)
  | .nil, _ => canonL_refl _
  | .cons c t ws, h => by
    simp only [nfw, Bool.and_eq_true] at h
    simp only [canonKwW, yieldW]
    exact canonL_cons _ ((yield_canonKw c h.1.1).append (canonL_cons _ ((yield_canonKw t h.1.2).append
      (yieldW_canonKwW ws h.2))))
theorem yieldO_canonKwO (pre : List Tok') : (o : OExpr) → nfo o = true →
    CanonL (yieldO pre (canonKwO o)) (yieldO pre o)
  | .none, _ => canonL_refl _
  | .some e, h => by
    simp only [nfo] at h
    simp only [canonKwO, yieldO]
    exact (canonL_refl _).append (yield_canonKw e h)
end

/-- the token-wise normalisation under which printing is lossless: an identifier that reads as a position keyword
(`offset`, `Safe_Ordinal`, …) is replaced by the keyword's canonical spelling; every other token is kept -/
def canonTok (x : Tok') : Tok' :=
  if x.k = .ident then
    match posKwName x.v with
    | some k => ⟨.ident, k.str⟩
    | none => x
  else x

theorem canonTok_rel (a b : Tok') (h : CanonRel a b) : canonTok a = canonTok b := by
  rcases h with rfl | ⟨k, rfl, hb, hk⟩
  · rfl
  · obtain ⟨bk, bv⟩ := b
    simp only at hb hk
    subst hb
    simp [canonTok, hk, posKwName_str]

/-! ## the printer's output is a fixed point -/

theorem exprPrec_canonKw (e : Expr) : exprPrec (canonKw e) = exprPrec e := by
  cases e <;> simp [canonKw, exprPrec]
  rename_i e kw i
  cases kw with
  | none => simp [canonKw, exprPrec]
  | some ks => obtain ⟨k, sp⟩ := ks; simp [canonKw, exprPrec]

theorem isIntLit_canonKw (e : Expr) : isIntLit (canonKw e) = isIntLit e := by
  cases e <;> simp [canonKw, isIntLit]
  rename_i e kw i
  cases kw with
  | none => simp [canonKw, isIntLit]
  | some ks => obtain ⟨k, sp⟩ := ks; simp [canonKw, isIntLit]

theorem parenS_canonKw {e : Expr} (h : sqlE (canonKw e) = sqlE e) (p : Nat) :
    parenS p (canonKw e) (sqlE (canonKw e)) = parenS p e (sqlE e) := by
  simp only [parenS, exprPrec_canonKw, h]

mutual
/-- `SQL()` does not depend on how a position keyword was spelled -/
theorem sqlE_canonKw : (e : Expr) → sqlE (canonKw e) = sqlE e
  | .null | .bool _ | .int _ _ | .float _ _ | .str _ | .bytes _ | .param _ | .ident _ | .path _ => by simp [canonKw]
  | .paren e => by simp [canonKw, sqlE, sqlE_canonKw e]
  | .unary op e => by simp only [canonKw, sqlE, parenS_canonKw (sqlE_canonKw e)]
  | .bin op l r => by simp only [canonKw, sqlE, parenS_canonKw (sqlE_canonKw l), parenS_canonKw (sqlE_canonKw r)]
  | .isNull e _ => by simp only [canonKw, sqlE, parenS_canonKw (sqlE_canonKw e)]
  | .isBool e _ _ => by simp only [canonKw, sqlE, parenS_canonKw (sqlE_canonKw e)]
  | .between _ e lo hi => by
    simp only [canonKw, sqlE, parenS_canonKw (sqlE_canonKw e), parenS_canonKw (sqlE_canonKw lo),
      parenS_canonKw (sqlE_canonKw hi)]
  | .inList _ e f m => by
    simp only [canonKw, sqlE, parenS_canonKw (sqlE_canonKw e), sqlE_canonKw f, sqlEs_canonKwL m]
  | .inUnnest _ e a => by simp only [canonKw, sqlE, parenS_canonKw (sqlE_canonKw e), sqlE_canonKw a]
  | .sel e _ => by simp only [canonKw, sqlE, parenS_canonKw (sqlE_canonKw e), isIntLit_canonKw]
  | .index e none i => by simp only [canonKw, sqlE, parenS_canonKw (sqlE_canonKw e), sqlE_canonKw i]
  | .index e (some (k, sp)) i => by simp only [canonKw, sqlE, parenS_canonKw (sqlE_canonKw e), sqlE_canonKw i]
  | .caseE o c t ws el => by
    simp only [canonKw, sqlE, sqlO_canonKwO _ o, sqlE_canonKw c, sqlE_canonKw t, sqlWs_canonKwW ws, sqlO_canonKwO _ el]
  | .ifE c t e => by simp only [canonKw, sqlE, sqlE_canonKw c, sqlE_canonKw t, sqlE_canonKw e]
  | .array .nil => by simp [canonKw, canonKwL]
  | .array (.cons e es) => by simp only [canonKw, canonKwL, sqlE, sqlE_canonKw e, sqlEs_canonKwL es]
  | .cast e ns => by simp only [canonKw, sqlE, sqlE_canonKw e]
theorem sqlEs_canonKwL : (m : Exprs) → sqlEs (canonKwL m) = sqlEs m
  | .nil => by simp [canonKwL]
  | .cons e es => by simp only [canonKwL, sqlEs, sqlE_canonKw e, sqlEs_canonKwL es]
theorem sqlWs_canonKwW : (ws : Whens) → sqlWs (canonKwW ws) = sqlWs ws
  | .nil => by simp [canonKwW]
  | .cons c t ws => by simp only [canonKwW, sqlWs, sqlE_canonKw c, sqlE_canonKw t, sqlWs_canonKwW ws]
theorem sqlO_canonKwO (pre : Bytes) : (o : OExpr) → sqlO pre (canonKwO o) = sqlO pre o
  | .none => by simp [canonKwO]
  | .some e => by simp only [canonKwO, sqlO, sqlE_canonKw e]
end

/-! ## the byte-level round trip -/

/-- the name reads `SAFE_CAST` or `REPLACE_FIELDS`: an UNQUOTED identifier with such a spelling makes `parseLit`
enter a production outside the fragment (`Token.IsKeywordLike` reads `Raw`), a quoted one is an ordinary identifier -/
def castName (n : Bytes) : Bool := Char.equalFold n (B "SAFE_CAST") || Char.equalFold n (B "REPLACE_FIELDS")

/-- no identifier token of the input, quoted or not, reads `SAFE_CAST` or `REPLACE_FIELDS` -/
def NoCastIdent (ts : List Token) : Prop := ∀ t ∈ ts, t.kind = .ident → castName t.asString = false
instance (ts : List Token) : Decidable (NoCastIdent ts) :=
  inferInstanceAs (Decidable (∀ t ∈ ts, t.kind = .ident → castName t.asString = false))

theorem symTK_ne_eof (s : Bytes) : symTK s ≠ .eof := by
  unfold symTK
  cases h : symTable.find? (fun p => B p.1 == s) with
  | none => simp
  | some p =>
    have : ∀ q ∈ symTable, q.2 ≠ TK.eof := by decide
    exact this p (List.mem_of_find?_eq_some h)

theorem tk_eq_eof {k : TokKind} (h : tk k = .eof) : k = .eof := by
  cases k <;> simp [tk] at h ⊢
  exact absurd h (symTK_ne_eof _)

theorem tk_eq_ident {k : TokKind} (h : tk k = .ident) : k = .ident := by
  cases k <;> simp [tk] at h ⊢
  exact absurd h (symTK_noval _).1

theorem proj_eof {t : Token} (h : t.kind = .eof) : proj t = T .eof := by
  simp [proj, tokVal, h, tk, T]

theorem equalFold_head {a b : UInt8} {r s : Bytes} (h : Char.equalFold (a :: r) (b :: s) = true) :
    Char.upperByte a = Char.upperByte b := by
  simp only [Char.equalFold, List.map_cons, Bool.and_eq_true, beq_iff_eq, List.cons.injEq] at h
  exact h.2.1

theorem castName_bquote (r : Bytes) : castName (96 :: r) = false := by
  have e1 : B "SAFE_CAST" = 83 :: B "AFE_CAST" := by decide
  have e2 : B "REPLACE_FIELDS" = 82 :: B "EPLACE_FIELDS" := by decide
  simp only [castName, Bool.or_eq_false_iff]
  constructor
  · rw [e1, Bool.eq_false_iff]
    intro h
    exact absurd (equalFold_head h) (by decide)
  · rw [e2, Bool.eq_false_iff]
    intro h
    exact absurd (equalFold_head h) (by decide)

theorem castName_nil : castName [] = false := by decide

theorem castName_posKw (k : PosKw) : castName k.str = false := by cases k <;> decide

theorem isCastLike_eq (t : Token) : isCastLike t = (t.kind == .ident && castName t.raw) := by
  simp only [isCastLike, Token.isKeywordLike, castName]
  cases (t.kind == TokKind.ident) <;> simp

/-- a token the lexer produced is cast-like only if its identifier VALUE reads `SAFE_CAST` / `REPLACE_FIELDS` -/
theorem isCastLike_of_recOK {t : Token} (h : recOK (trec t)) (hc : t.kind = .ident → castName t.asString = false) :
    isCastLike t = false := by
  rw [isCastLike_eq]
  by_cases hk : t.kind = .ident
  · obtain ⟨_, hr⟩ := h.2.2.1 hk
    simp only [trec] at hr
    simp only [hk, beq_self_eq_true, Bool.true_and]
    rcases hr with hr | hr | hr
    · rw [hr]; exact hc hk
    · cases hraw : t.raw with
      | nil => exact castName_nil
      | cons a r =>
        rw [hraw] at hr
        simp only [List.head?_cons, Option.some.injEq] at hr
        subst hr
        exact castName_bquote r
    · rw [hr]; exact castName_nil
  · have : (t.kind == TokKind.ident) = false := by simpa using hk
    simp [this]

theorem RelL.mem_right {R : Tok' → Tok' → Prop} {a b : List Tok'} (h : RelL R a b) : ∀ y ∈ b, ∃ x ∈ a, R x y := by
  induction h with
  | nil => intro x hx; cases hx
  | cons h _ ih =>
    intro y hy
    rcases List.mem_cons.1 hy with rfl | hy
    · exact ⟨_, List.mem_cons_self, h⟩
    · obtain ⟨x, hx, hr⟩ := ih y hy
      exact ⟨x, List.mem_cons_of_mem _ hx, hr⟩

theorem CanonRel.kind {a b : Tok'} (h : CanonRel a b) : a.k = b.k := by
  rcases h with rfl | ⟨k, rfl, hb, _⟩
  · rfl
  · exact hb.symm

/-- the token list of an accepted input is its non-`<eof>` tokens followed by one `<eof>` token -/
theorem split_eof {ts : List Token} {a : List Tok'} (hwf : MF.Stmt.WF ts) (hm : ts.map proj = a ++ [T .eof]) :
    ∃ pre x, ts = pre ++ [x] ∧ pre.map proj = a ∧ x.kind = .eof ∧ ∀ t ∈ pre, t.kind ≠ .eof := by
  obtain ⟨body, e0, rfl, he0, hbody⟩ := hwf
  rw [List.map_append, List.map_cons, List.map_nil] at hm
  obtain ⟨h1, _⟩ := List.append_inj' hm rfl
  exact ⟨body, e0, rfl, h1, he0, hbody⟩

/-- everything the two runs (input, printed text) have in common, in one place -/
theorem roundtrip_core {buf : Bytes} {ts : List Token} {fuel : Nat} {e : Expr} (h1 : Lex.lexAll buf = .ok ts)
    (h2 : parseExprTop fuel ts = .ok e) :
    PrecOK e ∧ NF e ∧ LexWF e ∧
    ∃ pre x, ts = pre ++ [x] ∧ pre.map proj = yield e ∧ x.kind = .eof ∧
    ∃ ts' pre' x', Lex.lexAll (sqlE e) = .ok ts' ∧ ts' = pre' ++ [x'] ∧ pre'.map proj = yield (canonKw e) ∧
      x'.kind = .eof ∧ (∀ t ∈ ts', recOK (trec t)) := by
  obtain ⟨pre, rest, hts, hcur, hy, hp, hn⟩ := parseExprTop_sound h2
  have hwf := parse_lexwf h1 h2
  obtain ⟨ts', hl, hm⟩ := printed_lexes_tokens hwf
  rw [sqlToks_eq_yield e hp] at hm
  obtain ⟨pre', x', hts', hpre', hx', hne'⟩ := split_eof (MF.Stmt.lexAll_WF hl) hm
  refine ⟨hp, hn, hwf, ?_⟩
  -- no `<eof>` class in the yield: it is, token by token, the kinds of `pre'`
  have hnoeof : ∀ y ∈ yield e, y.k ≠ .eof := by
    intro y hy
    obtain ⟨x, hx, hr⟩ := (yield_canonKw e hn).mem_right y hy
    rw [← hpre'] at hx
    obtain ⟨t, ht, rfl⟩ := List.mem_map.1 hx
    rw [← hr.kind]
    intro h
    exact hne' t ht (tk_eq_eof h)
  have hpre_ne : ∀ t ∈ pre, t.kind ≠ .eof := by
    intro t ht hk
    exact hnoeof (proj t) (by rw [← hy]; exact List.mem_map_of_mem ht) (by simp [proj, hk, tk])
  obtain ⟨body, e0, hb, he0, hbody⟩ := MF.Stmt.lexAll_WF h1
  have hrest : rest = [e0] ∧ pre = body := by
    cases rest with
    | nil =>
      exfalso
      rw [List.append_nil] at hts
      rw [hts] at hb
      exact hpre_ne e0 (by rw [hb]; simp) he0
    | cons r rs =>
      have hr : r.kind = .eof := tk_eq_eof hcur
      rw [hts] at hb
      -- the first `<eof>` token of both decompositions is the same position
      have key : ∀ (p b : List Token), (∀ t ∈ p, t.kind ≠ .eof) → (∀ t ∈ b, t.kind ≠ .eof) →
          p ++ r :: rs = b ++ [e0] → r :: rs = [e0] ∧ p = b := by
        intro p
        induction p with
        | nil =>
          intro b _ hb' h
          cases b with
          | nil => exact ⟨by simpa using h, rfl⟩
          | cons y b =>
            simp only [List.nil_append, List.cons_append, List.cons.injEq] at h
            exact absurd hr (h.1 ▸ hb' y List.mem_cons_self)
        | cons q p ih =>
          intro b hp' hb' h
          cases b with
          | nil =>
            simp only [List.cons_append, List.nil_append, List.cons.injEq] at h
            exact absurd he0 (h.1 ▸ hp' q List.mem_cons_self)
          | cons y b =>
            simp only [List.cons_append, List.cons.injEq] at h
            obtain ⟨g1, g2⟩ := ih b (fun t ht => hp' t (List.mem_cons_of_mem _ ht))
              (fun t ht => hb' t (List.mem_cons_of_mem _ ht)) h.2
            exact ⟨g1, by rw [h.1, g2]⟩
      exact key pre body hpre_ne hbody hb
  obtain ⟨hr1, _⟩ := hrest
  subst hr1
  exact ⟨pre, e0, hts, hy, he0, ts', pre', x', hl, hts', hpre', hx', lexAll_recOK hl⟩

/-- **Byte-level round trip of the expression fragment.**  If the input lexes and parses to `e`, and no identifier
token of the input reads `SAFE_CAST` / `REPLACE_FIELDS`, then the text `SQL()` prints is accepted by the lexer and
parses (with any sufficient fuel) to the same tree, position keywords in canonical spelling. -/
theorem roundtrip_expr {buf : Bytes} {ts : List Token} {fuel : Nat} {e : Expr} (h1 : Lex.lexAll buf = .ok ts)
    (h2 : parseExprTop fuel ts = .ok e) (hc : NoCastIdent ts) :
    ∃ ts', Lex.lexAll (sqlE e) = .ok ts' ∧ ∃ n, ∀ fuel', n ≤ fuel' → parseExprTop fuel' ts' = .ok (canonKw e) := by
  obtain ⟨hp, hn, _, pre, x, hts, hy, _, ts', pre', x', hl, hts', hpre', hx', hrec⟩ := roundtrip_core h1 h2
  refine ⟨ts', hl, ?_⟩
  have hp' : PrecOK (canonKw e) := by simpa [PrecOK, precOK_canonKw] using hp
  have hn' : NF (canonKw e) := nf_canonKw e hn
  have hcast : ∀ t ∈ pre', isCastLike t = false := by
    intro t ht
    apply isCastLike_of_recOK (hrec t (by rw [hts']; exact List.mem_append_left _ ht))
    intro hk
    have hmem : proj t ∈ yield (canonKw e) := by rw [← hpre']; exact List.mem_map_of_mem ht
    have hpt : proj t = ⟨.ident, t.asString⟩ := by simp [proj, tokVal, hk, tk]
    obtain ⟨y, hy', hr⟩ := (yield_canonKw e hn).mem _ hmem
    rcases hr with hr | ⟨k, hr, _⟩
    · rw [← hr, ← hy] at hy'
      obtain ⟨t0, ht0, he0⟩ := List.mem_map.1 hy'
      rw [hpt] at he0
      have hk0 : t0.kind = .ident := tk_eq_ident (by have := congrArg Tok'.k he0; simpa [proj] using this)
      have hv0 : t0.asString = t.asString := by
        have := congrArg Tok'.v he0
        simpa [proj, tokVal, hk0, tk] using this
      rw [← hv0]
      exact hc t0 (by rw [hts]; exact List.mem_append_left _ ht0) hk0
    · rw [hpt] at hr
      have : t.asString = k.str := by simpa using congrArg Tok'.v hr
      rw [this]
      exact castName_posKw k
  rw [hts']
  exact parseExprTop_complete hp' hn' hpre' hcast (by simp [cur, hx', tk])

/-- **The printer's output is a fixed point**: printing the re-parsed tree gives the same text. -/
theorem fixed_point_expr (e : Expr) : sqlE (canonKw e) = sqlE e := sqlE_canonKw e

/-- **Lossless at the token level (C02 for the fragment).**  The tokens of the printed text are the tokens of the
input, seen through `proj` (kind class and value: keyword case, `<>`/`!=`, quoting style of identifiers and strings,
positions and trivia are erased by `proj`; a folded sign stays a separate token), except that an identifier
spelling a position keyword in `x[kw(…)]` comes back in canonical spelling: the two projected token lists are the
yields of `canonKw e` and of `e`, related token by token by `CanonRel`, and equal after `canonTok`. -/
theorem lossless_expr {buf : Bytes} {ts : List Token} {fuel : Nat} {e : Expr} (h1 : Lex.lexAll buf = .ok ts)
    (h2 : parseExprTop fuel ts = .ok e) :
    ∃ ts', Lex.lexAll (sqlE e) = .ok ts' ∧
      ts.map proj = yield e ++ [T .eof] ∧ ts'.map proj = yield (canonKw e) ++ [T .eof] ∧
      CanonL (ts'.map proj) (ts.map proj) ∧ (ts'.map proj).map canonTok = (ts.map proj).map canonTok := by
  obtain ⟨_, hn, _, pre, x, hts, hy, hx, ts', pre', x', hl, hts', hpre', hx', _⟩ := roundtrip_core h1 h2
  have e1 : ts.map proj = yield e ++ [T .eof] := by
    rw [hts, List.map_append, hy, List.map_cons, List.map_nil, proj_eof hx]
  have e2 : ts'.map proj = yield (canonKw e) ++ [T .eof] := by
    rw [hts', List.map_append, hpre', List.map_cons, List.map_nil, proj_eof hx']
  have hrel : CanonL (ts'.map proj) (ts.map proj) := by
    rw [e1, e2]; exact (yield_canonKw e hn).append (canonL_refl _)
  exact ⟨ts', hl, e1, e2, hrel, hrel.map_eq canonTok_rel⟩

/-! ## what `numOK` means for the lexer -/

theorem tk_eq_int {k : TokKind} (h : tk k = .int) : k = .int := by
  cases k <;> simp [tk] at h ⊢
  exact absurd h (symTK_noval _).2.2.2.2.1

theorem tk_eq_float {k : TokKind} (h : tk k = .float) : k = .float := by
  cases k <;> simp [tk] at h ⊢
  exact absurd h (symTK_noval _).2.2.2.2.2

/-- a numeric spelling accepted by `numOK` lexes, alone, to exactly one token of that kind with that text -/
theorem numOK_lexes {isInt : Bool} {raw : Bytes} (h : numOK isInt raw = true) :
    ∃ t1 t2, Lex.lexAll raw = .ok [t1, t2] ∧ t1.kind = (if isInt then .int else .float) ∧ t1.raw = raw ∧
      t2.kind = .eof := by
  have key : ∃ lk', PRun raw (.sym []) false [⟨if isInt then TK.int else TK.float, raw⟩] [] lk' false := by
    cases isInt
    · obtain ⟨lk', hr, _⟩ := prun_float raw h 0 (.sym []) (by decide) (X := []) rfl
      exact ⟨lk', by simpa using hr⟩
    · obtain ⟨lk', hr, _⟩ := prun_int raw h 0 (.sym []) (X := []) rfl rfl
      exact ⟨lk', by simpa using hr⟩
  obtain ⟨lk', l, hs, hm⟩ := key
  obtain ⟨ts, h1, h2⟩ := lexAll_of_srun hs (atEnd_nil lk' false)
  obtain ⟨r, rfl⟩ : ∃ r, l = [r] := by
    match l, hm with
    | [], hm => simp at hm
    | [r], _ => exact ⟨r, rfl⟩
    | _ :: _ :: _, hm => simp at hm
  simp only [List.map_cons, List.map_nil, List.cons.injEq, and_true] at hm
  obtain ⟨t1, t2, rfl⟩ : ∃ t1 t2, ts = [t1, t2] := by
    match ts, h2 with
    | [], h2 => simp at h2
    | [_], h2 => simp at h2
    | [t1, t2], _ => exact ⟨t1, t2, rfl⟩
    | _ :: _ :: _ :: _, h2 => simp at h2
  simp only [List.map_cons, List.map_nil, List.cons_append, List.nil_append, List.cons.injEq, and_true] at h2
  have hk : tk t1.kind = (if isInt then TK.int else TK.float) := by
    have := congrArg Tok'.k hm
    rw [← h2.1] at this
    simpa [projR, trec] using this
  have hv := congrArg Tok'.v hm
  rw [← h2.1] at hv
  refine ⟨t1, t2, h1, ?_, ?_, ?_⟩
  · cases isInt
    · exact tk_eq_float (by simpa using hk)
    · exact tk_eq_int (by simpa using hk)
  · cases isInt
    · have : t1.kind = .float := tk_eq_float (by simpa using hk)
      simpa [projR, trec, this, tk] using hv
    · have : t1.kind = .int := tk_eq_int (by simpa using hk)
      simpa [projR, trec, this, tk] using hv
  · have := congrArg TRec.kind h2.2
    simpa [trec, eofRec] using this

/-! ## the finding: a quoted identifier reading `SAFE_CAST` does not survive `SQL()` -/

theorem roundtrip_fails_quoted_cast_word :
    ∃ (ts : List Token) (e : Expr), Lex.lexAll (B "`SAFE_CAST`") = .ok ts ∧ parseExprTop (topFuel ts) ts = .ok e ∧
      sqlE e = B "SAFE_CAST" ∧
      ∃ ts', Lex.lexAll (sqlE e) = .ok ts' ∧ ∀ fuel, parseExprTop fuel ts' ≠ .ok (canonKw e) := by
  -- both runs are evaluated by the kernel
  have c1 : (match Lex.lexAll (B "`SAFE_CAST`") with
      | .ok ts => (match parseExprTop (topFuel ts) ts with
        | .ok e => sqlE e == B "SAFE_CAST"
        | _ => false)
      | _ => false) = true := by decide +kernel
  have c2 : (match Lex.lexAll (B "SAFE_CAST") with
      | .ok ts' => (match parseExpr 40 ts' with
        | .outside => true
        | _ => false)
      | _ => false) = true := by decide +kernel
  cases h1 : Lex.lexAll (B "`SAFE_CAST`") with
  | err _ _ => rw [h1] at c1; cases c1
  | crash _ => rw [h1] at c1; cases c1
  | ok ts =>
    rw [h1] at c1
    simp only at c1
    cases h2 : parseExprTop (topFuel ts) ts with
    | ok e =>
      rw [h2] at c1
      have hs : sqlE e = B "SAFE_CAST" := by simpa using c1
      refine ⟨ts, e, rfl, h2, hs, ?_⟩
      rw [hs]
      cases h3 : Lex.lexAll (B "SAFE_CAST") with
      | err _ _ => rw [h3] at c2; cases c2
      | crash _ => rw [h3] at c2; cases c2
      | ok ts' =>
        rw [h3] at c2
        simp only at c2
        refine ⟨ts', rfl, ?_⟩
        intro fuel hf
        unfold parseExprTop at hf
        obtain ⟨⟨e1, rest⟩, h4, _⟩ := Res.bind_eq_ok.1 hf
        have h40 : parseExpr 40 ts' = .outside := by
          cases h5 : parseExpr 40 ts' <;> rw [h5] at c2 <;> first | rfl | cases c2
        have a := parseExpr_mono (Nat.le_max_left fuel 40) h4 (by simp)
        have b := parseExpr_mono (Nat.le_max_right fuel 40) h40 (by simp)
        rw [a] at b
        cases b
    | raise => rw [h2] at c1; cases c1
    | outside => rw [h2] at c1; cases c1
    | crash => rw [h2] at c1; cases c1
    | outOfFuel => rw [h2] at c1; cases c1

end MF.Expr
