/-
  MF.Proofs.StmtList — C11, the parser half: `ParseStatements` is `ParseStatement` on every non-empty `;`-free
  segment of the token list.

  This is a THEORY about the loop `parseStatements` of parser.go (transcribed below as `stmtLoop`) over an ABSTRACT
  statement parser `P`; nothing about the grammar is modelled.  The only assumption on `P` is `Local P`: a `;` token
  and the `<eof>` token are interchangeable as the terminator of a statement, and nothing after the terminator is
  looked at.

      func parseStatements[T ast.Node](p *Parser, doParse func() T) []T {
        var nodes []T
        for p.Token.Kind != token.TokenEOF {
          if p.Token.Kind == ";" { p.nextTokenOrBad(); continue }
          nodes = append(nodes, doParse())
          if p.Token.Kind != ";" { break }
        }
        return nodes
      }
      ParseStatements: p.nextTokenOrBad(); stmts := parseStatements(p, p.parseStatement)
                       if p.Token.Kind != EOF { error }; if len(p.errors) > 0 { return MultiError }
      ParseStatement : p.nextTokenOrBad(); stmt := p.parseStatement()
                       if p.Token.Kind != EOF { error }; if len(p.errors) > 0 { return MultiError }

  The parser state is the list of tokens not yet consumed (its head is `p.Token`); a well-formed token list ends
  with its only `<eof>` token (`WF`), as every `lexAll` result does.
-/
import MF.Proofs.SplitTokens
namespace MF.Stmt
open MF MF.Lex MF.Split

/-- what `doParse` leaves behind: an abstract value and whether it recorded an error (`len(p.errors)` grew) -/
structure PRes (α : Type) where
  val : α
  err : Bool

/-- a statement parser: consumes a prefix of the remaining tokens, returns the result and the unconsumed suffix -/
abbrev StmtParser (α : Type) := List Token → PRes α × List Token

/-- a run of tokens without `;` and without `<eof>` -/
def Free (a : List Token) : Prop := ∀ t ∈ a, t.kind ≠ K ";" ∧ t.kind ≠ .eof

/-- a statement terminator in context: a `;` token followed by anything, or the `<eof>` token, followed by nothing -/
def Term (t : Token) (rest : List Token) : Prop := t.kind = K ";" ∨ (t.kind = .eof ∧ rest = [])

/-- `;` and `<eof>` are interchangeable as terminator and nothing after the terminator is looked at: on a non-empty
`;`-free run `a` followed by a terminator, `P` leaves a suffix `a'` of `a` (plus the terminator and everything after
it) unconsumed, and `a'`, the error flag and — when there is no error — the value are the same for every terminator
and every continuation.  (The value of a FAILED parse may depend on the terminator: error messages quote it.) -/
def Local {α : Type} (P : StmtParser α) : Prop :=
  ∀ a, a ≠ [] → Free a →
    ∃ (e : Bool) (v : α) (a' : List Token), (∃ pre, a = pre ++ a') ∧
      ∀ t rest, Term t rest →
        ∃ r, P (a ++ t :: rest) = (r, a' ++ t :: rest) ∧ r.err = e ∧ (e = false → r.val = v)

/-- the stronger reading: the whole result is the same -/
def LocalStrict {α : Type} (P : StmtParser α) : Prop :=
  ∀ a, a ≠ [] → Free a →
    ∃ (r : PRes α) (a' : List Token), (∃ pre, a = pre ++ a') ∧
      ∀ t rest, Term t rest → P (a ++ t :: rest) = (r, a' ++ t :: rest)

theorem LocalStrict.local {α : Type} {P : StmtParser α} (h : LocalStrict P) : Local P := by
  intro a hne hf
  obtain ⟨r, a', hpre, hP⟩ := h a hne hf
  exact ⟨r.err, r.val, a', hpre, fun t rest ht => ⟨r, hP t rest ht, rfl, fun _ => rfl⟩⟩

/-- the loop of `parseStatements`; `none` = the fuel ran out (the Go loop would not terminate) or the token list
ran out (impossible for a list ending in `<eof>`: the Go lexer keeps returning `<eof>`) -/
def stmtLoop {α : Type} (P : StmtParser α) : Nat → List Token → Option (List (PRes α) × List Token)
  | 0, _ => none
  | _ + 1, [] => none
  | fuel + 1, t :: rest =>
    if t.kind = .eof then some ([], t :: rest)                       -- for p.Token.Kind != EOF
    else if t.kind = K ";" then stmtLoop P fuel rest                 -- p.nextTokenOrBad(); continue
    else
      match P (t :: rest) with                                       -- nodes = append(nodes, doParse())
      | (_, []) => none
      | (r, t' :: rest') =>
        if t'.kind = K ";" then (stmtLoop P fuel (t' :: rest')).map (fun x => (r :: x.1, x.2))
        else some ([r], t' :: rest')                                 -- break

def headIsEof : List Token → Bool
  | t :: _ => t.kind == .eof
  | [] => false

/-- the checks after the loop: no error recorded and the current token is `<eof>` -/
def finishList {α : Type} (x : List (PRes α) × List Token) : Option (List α) :=
  if x.1.all (fun r => !r.err) && headIsEof x.2 then some (x.1.map (·.val)) else none

/-- `ParseStatements` on a token list: `some` of the statements when it returns a nil error -/
def parseStatements {α : Type} (P : StmtParser α) (ts : List Token) : Option (List α) :=
  (stmtLoop P ts.length ts).bind finishList

/-- `ParseStatement` on a token list: `some` of the statement when it returns a nil error -/
def parseStatement {α : Type} (P : StmtParser α) (ts : List Token) : Option α :=
  if !(P ts).1.err && headIsEof (P ts).2 then some (P ts).1.val else none

/-- all-or-nothing -/
def optAll {β : Type} : List (Option β) → Option (List β)
  | [] => some []
  | none :: _ => none
  | some v :: l => (optAll l).map (v :: ·)

/-- a token list as the lexer produces it: some tokens other than `<eof>`, then `<eof>` -/
def WF (ts : List Token) : Prop := ∃ body e, ts = body ++ [e] ∧ e.kind = .eof ∧ ∀ t ∈ body, t.kind ≠ .eof

/-- the maximal `;`-free segments of a token list, in order (`cur` is the segment being collected) -/
def segsAux : List Token → List Token → List (List Token)
  | [], cur => [cur]
  | t :: ts, cur =>
    if t.kind = K ";" then cur :: segsAux ts []
    else if t.kind = .eof then [cur]
    else segsAux ts (cur ++ [t])

def segments (ts : List Token) : List (List Token) := segsAux ts []

/-- the segments that contain at least one token -/
def stmtSegments (ts : List Token) : List (List Token) := (segments ts).filter (fun s => !s.isEmpty)

/-! ### the segments of a list -/

theorem eof_ne_semi : TokKind.eof ≠ K ";" := semi_ne_eof.symm

theorem segsAux_free {a : List Token} (ha : Free a) (t : Token) (rest cur : List Token) :
    segsAux (a ++ t :: rest) cur = segsAux (t :: rest) (cur ++ a) := by
  induction a generalizing cur with
  | nil => simp
  | cons x a ih =>
    have hx := ha x List.mem_cons_self
    rw [List.cons_append, segsAux, if_neg hx.1, if_neg hx.2, ih (fun t ht => ha t (List.mem_cons_of_mem _ ht))]
    simp

/-- the defining equations of `segments` on well-formed lists -/
theorem segments_semi {a : List Token} (ha : Free a) {t : Token} (ht : t.kind = K ";") (rest : List Token) :
    segments (a ++ t :: rest) = a :: segments rest := by
  unfold segments
  rw [segsAux_free ha]
  simp [segsAux, ht]

theorem segments_eof {a : List Token} (ha : Free a) {t : Token} (ht : t.kind = .eof) (rest : List Token) :
    segments (a ++ t :: rest) = [a] := by
  unfold segments
  rw [segsAux_free ha]
  simp [segsAux, ht, eof_ne_semi]

theorem segsAux_mem_free {ts cur : List Token} (hc : Free cur) : ∀ s ∈ segsAux ts cur, Free s := by
  induction ts generalizing cur with
  | nil => intro s hs; simp [segsAux] at hs; subst hs; exact hc
  | cons t ts ih =>
    intro s hs
    simp only [segsAux] at hs
    split at hs
    · rcases List.mem_cons.1 hs with h | h
      · subst h; exact hc
      · exact ih (cur := []) (fun _ h => (by cases h)) s h
    · split at hs
      · simp at hs; subst hs; exact hc
      · rename_i h1 h2
        refine ih (cur := cur ++ [t]) ?_ s hs
        intro x hx
        rcases List.mem_append.1 hx with h | h
        · exact hc x h
        · simp at h; subst h; exact ⟨h1, h2⟩

/-- every segment is free of `;` and `<eof>` -/
theorem segments_free (ts : List Token) : ∀ s ∈ segments ts, Free s :=
  segsAux_mem_free (fun _ h => (by cases h))

/-- the first terminator of a well-formed list -/
theorem WF_split {ts : List Token} (h : WF ts) :
    ∃ a t rest, ts = a ++ t :: rest ∧ Free a ∧
      ((t.kind = K ";" ∧ WF rest) ∨ (t.kind = .eof ∧ rest = [])) := by
  obtain ⟨body, e, rfl, he, hb⟩ := h
  induction body with
  | nil => exact ⟨[], e, [], rfl, fun _ h => (by cases h), Or.inr ⟨he, rfl⟩⟩
  | cons x body ih =>
    by_cases hx : x.kind = K ";"
    · exact ⟨[], x, body ++ [e], rfl, fun _ h => (by cases h),
        Or.inl ⟨hx, body, e, rfl, he, fun t ht => hb t (List.mem_cons_of_mem _ ht)⟩⟩
    · obtain ⟨a, t, rest, h1, h2, h3⟩ := ih (fun t ht => hb t (List.mem_cons_of_mem _ ht))
      refine ⟨x :: a, t, rest, by simp [h1], ?_, h3⟩
      intro y hy
      rcases List.mem_cons.1 hy with h | h
      · subst h; exact ⟨hx, hb y List.mem_cons_self⟩
      · exact h2 y h

theorem WF_tail_of_semi {t : Token} {rest : List Token} (h : WF (t :: rest)) (ht : t.kind ≠ .eof) : WF rest := by
  obtain ⟨body, e, h1, he, hb⟩ := h
  cases body with
  | nil => simp at h1; rw [h1.1] at ht; exact absurd he ht
  | cons x body =>
    simp at h1
    exact ⟨body, e, h1.2, he, fun t ht => hb t (List.mem_cons_of_mem _ ht)⟩

theorem WF_eof_head {t : Token} {rest : List Token} (h : WF (t :: rest)) (ht : t.kind = .eof) : rest = [] := by
  obtain ⟨body, e, h1, he, hb⟩ := h
  cases body with
  | nil => simp at h1; exact h1.2
  | cons x body =>
    simp at h1
    exact absurd (h1.1 ▸ ht) (hb x List.mem_cons_self)

/-! ### the loop -/

theorem optAll_cons {β : Type} (o : Option β) (l : List (Option β)) :
    optAll (o :: l) = o.bind (fun v => (optAll l).map (v :: ·)) := by
  cases o <;> rfl

theorem finishList_cons {α : Type} (r : PRes α) (rs : List (PRes α)) (rest : List Token) :
    finishList (r :: rs, rest) = if r.err then none else (finishList (rs, rest)).map (r.val :: ·) := by
  unfold finishList
  cases hr : r.err
  · simp only [List.all_cons, hr, Bool.not_false, Bool.true_and, List.map_cons, Bool.false_eq_true, if_false]
    split <;> simp
  · simp [hr]

theorem headIsEof_free_append {a' : List Token} {t : Token} {rest : List Token} (ha : Free a') :
    headIsEof (a' ++ t :: rest) = true ↔ a' = [] ∧ t.kind = .eof := by
  cases a' with
  | nil => simp [headIsEof]
  | cons x a' =>
    have := (ha x List.mem_cons_self).2
    simp [headIsEof, this]

/-- the loop against the segments: on a well-formed list and with enough fuel the loop terminates, and the checks
of the list entry point succeed exactly when the single-statement entry point succeeds on every non-empty segment
(terminated by any `<eof>` token `e`), with the same values -/
theorem stmtLoop_segments {α : Type} {P : StmtParser α} (hP : Local P) {e : Token} (he : e.kind = .eof)
    (fuel : Nat) (ts : List Token) (hts : WF ts) (hf : ts.length ≤ fuel) :
    ∃ x, stmtLoop P fuel ts = some x ∧
      finishList x = optAll ((stmtSegments ts).map (fun s => parseStatement P (s ++ [e]))) := by
  induction fuel generalizing ts with
  | zero =>
    obtain ⟨body, e', rfl, _, _⟩ := hts
    simp at hf
  | succ fuel ih =>
    cases ts with
    | nil => obtain ⟨body, e', h, _, _⟩ := hts; simp at h
    | cons t rest =>
      by_cases hte : t.kind = .eof
      · -- the loop condition fails at once
        have hr := WF_eof_head hts hte
        subst hr
        refine ⟨([], [t]), by simp [stmtLoop, hte], ?_⟩
        have hns : t.kind ≠ K ";" := by rw [hte]; exact semi_ne_eof.symm
        simp [finishList, headIsEof, hte, stmtSegments, segments, segsAux, eof_ne_semi, optAll]
      · by_cases hts' : t.kind = K ";"
        · -- an empty statement: skip the `;`
          have hw := WF_tail_of_semi hts hte
          obtain ⟨x, h1, h2⟩ := ih rest hw (by simp at hf; omega)
          refine ⟨x, by simp [stmtLoop, hts', semi_ne_eof, h1], ?_⟩
          rw [h2]
          have : stmtSegments (t :: rest) = stmtSegments rest := by
            simp [stmtSegments, segments, segsAux, hts']
          rw [this]
        · -- a statement starts here
          obtain ⟨a, t', rest', hsplit, hfree, hterm⟩ := WF_split hts
          have hane : a ≠ [] := by
            intro h; subst h
            simp at hsplit
            rcases hterm with ⟨h, _⟩ | ⟨h, _⟩
            · exact hts' (hsplit.1 ▸ h)
            · exact hte (hsplit.1 ▸ h)
          obtain ⟨eflag, v, a', ⟨pre, hpre⟩, hloc⟩ := hP a hane hfree
          have hfree' : Free a' := fun x hx => hfree x (by rw [hpre]; exact List.mem_append_right _ hx)
          have hT : Term t' rest' := by
            rcases hterm with ⟨h, _⟩ | ⟨h, h'⟩
            · exact Or.inl h
            · exact Or.inr ⟨h, h'⟩
          obtain ⟨r, hr, hre, hrv⟩ := hloc t' rest' hT
          obtain ⟨r1, hr1, hre1, hrv1⟩ := hloc e [] (Or.inr ⟨he, rfl⟩)
          -- the single-statement entry point on this segment
          have hone : parseStatement P (a ++ [e]) =
              if eflag = false ∧ a' = [] then some v else none := by
            unfold parseStatement
            rw [hr1]
            simp only
            by_cases h1 : eflag = false ∧ a' = []
            · obtain ⟨h1a, h1b⟩ := h1
              subst h1b
              have := hrv1 h1a
              simp [hre1, h1a, headIsEof, he, this]
            · have : ¬ ((!r1.err && headIsEof (a' ++ [e])) = true) := by
                intro hh
                simp only [Bool.and_eq_true, Bool.not_eq_true'] at hh
                have := (headIsEof_free_append hfree').1 hh.2
                exact h1 ⟨by rw [← hre1]; exact hh.1, this.1⟩
              simp [this, h1]
          have hlen : (t :: rest).length = a.length + 1 + rest'.length := by
            rw [hsplit]; simp; omega
          have hapos : 0 < a.length := List.length_pos_iff.2 hane
          rw [← hsplit] at hr
          -- the segments of the list
          have hsegs : stmtSegments (t :: rest) =
              a :: (if t'.kind = K ";" then stmtSegments rest' else []) := by
            rw [hsplit]
            have hane' : (!a.isEmpty) = true := by
              cases a with
              | nil => exact absurd rfl hane
              | cons _ _ => rfl
            rcases hterm with ⟨h, _⟩ | ⟨h, _⟩
            · simp [stmtSegments, segments_semi hfree h, hane', h]
            · have : t'.kind ≠ K ";" := by rw [h]; exact semi_ne_eof.symm
              simp [stmtSegments, segments_eof hfree h, hane', this]
          rw [hsegs, List.map_cons, optAll_cons, hone]
          cases a' with
          | cons y a'' =>
            -- the statement parser stopped early: the loop breaks, the entry point reports `expected <eof>`
            have hy := hfree' y List.mem_cons_self
            refine ⟨([r], (y :: a'') ++ t' :: rest'), ?_, ?_⟩
            · simp only [stmtLoop, hte, hts', if_false, hr, List.cons_append, hy.1]
            · simp [finishList, headIsEof, hy.2]
          | nil =>
            simp only [List.nil_append] at hr
            rcases hterm with ⟨h, hw⟩ | ⟨h, h'⟩
            · -- terminated by `;`: continue with the rest
              obtain ⟨x, h1, h2⟩ := ih (t' :: rest') (by
                  obtain ⟨b, e', hb1, hb2, hb3⟩ := hw
                  refine ⟨t' :: b, e', by simp [hb1], hb2, ?_⟩
                  intro z hz
                  rcases List.mem_cons.1 hz with hz | hz
                  · subst hz; rw [h]; exact semi_ne_eof
                  · exact hb3 z hz)
                (by simp at hf hlen ⊢; omega)
              refine ⟨(r :: x.1, x.2), ?_, ?_⟩
              · simp only [stmtLoop, hte, hts', if_false, hr, h, if_true, h1, Option.map_some]
              · rw [finishList_cons, h2, hre]
                have hss : stmtSegments (t' :: rest') = stmtSegments rest' := by
                  simp [stmtSegments, segments, segsAux, h]
                rw [hss]
                simp only [h, if_true, and_true]
                cases heq : eflag
                · simp [hrv heq]
                · simp
            · -- terminated by `<eof>`: the last statement
              subst h'
              have hns : t'.kind ≠ K ";" := by rw [h]; exact semi_ne_eof.symm
              refine ⟨([r], [t']), ?_, ?_⟩
              · simp only [stmtLoop, hte, hts', if_false, hr, hns]
              · simp only [hns, if_false, List.map_nil, optAll, and_true]
                cases heq : eflag
                · simp [finishList, headIsEof, h, hre, heq, hrv heq]
                · simp [finishList, hre, heq]

/-- C11 (parser half), as one equation: `ParseStatements` returns without error exactly when `ParseStatement`
does so on every non-empty `;`-free segment terminated by `<eof>`, and then returns the same statements in order -/
theorem parseStatements_eq {α : Type} {P : StmtParser α} (hP : Local P) {ts : List Token} (hts : WF ts)
    {e : Token} (he : e.kind = .eof) :
    parseStatements P ts = optAll ((stmtSegments ts).map (fun s => parseStatement P (s ++ [e]))) := by
  obtain ⟨x, h1, h2⟩ := stmtLoop_segments hP he ts.length ts hts (Nat.le_refl _)
  unfold parseStatements
  rw [h1, ← h2]; rfl

theorem optAll_eq_some {β : Type} {l : List (Option β)} {vs : List β} :
    optAll l = some vs ↔ l = vs.map some := by
  induction l generalizing vs with
  | nil => cases vs <;> simp [optAll]
  | cons o l ih =>
    cases o with
    | none => cases vs <;> simp [optAll]
    | some v =>
      simp only [optAll, Option.map_eq_some_iff]
      constructor
      · rintro ⟨w, hw, rfl⟩
        simp [ih.1 hw]
      · intro h
        cases vs with
        | nil => simp at h
        | cons w ws =>
          simp at h
          exact ⟨ws, ih.2 h.2, by rw [h.1]⟩

theorem optAll_isSome {β : Type} {l : List (Option β)} :
    (optAll l).isSome = true ↔ ∀ o ∈ l, o.isSome = true := by
  induction l with
  | nil => simp [optAll]
  | cons o l ih =>
    cases o with
    | none => simp [optAll]
    | some v => simp [optAll, ih]

/-- C11 (parser half): `lists_compose` -/
theorem lists_compose {α : Type} {P : StmtParser α} (hP : Local P) {ts : List Token} (hts : WF ts)
    {e : Token} (he : e.kind = .eof) :
    -- the list entry point succeeds iff the single-statement entry point succeeds on every non-empty segment
    ((parseStatements P ts).isSome = true ↔
        ∀ s ∈ stmtSegments ts, (parseStatement P (s ++ [e])).isSome = true) ∧
    -- and then there is one statement per non-empty segment, the `i`-th one being that of the `i`-th segment
    (∀ vs, parseStatements P ts = some vs →
        vs.length = (stmtSegments ts).length ∧
        ∀ (i : Nat) s, (stmtSegments ts)[i]? = some s → (parseStatement P (s ++ [e])) = vs[i]?) := by
  rw [parseStatements_eq hP hts he]
  constructor
  · rw [optAll_isSome]
    simp
  · intro vs hvs
    have h := optAll_eq_some.1 hvs
    have hl := congrArg List.length h
    simp only [List.length_map] at hl
    refine ⟨hl.symm, ?_⟩
    intro i s hs
    have := congrArg (fun l => l[i]?) h
    simp only [List.getElem?_map, hs, Option.map_some] at this
    cases hv : vs[i]? with
    | none => rw [hv] at this; simp at this
    | some w => rw [hv] at this; simpa using this

/-! ### the segments against the pieces of `SplitRawStatements` -/

/-- the tokens of `ts` lying inside the piece `x` (`<eof>`, which is empty, is never counted) -/
def tokensIn (ts : List Token) (x : Piece) : List Token :=
  ts.filter (fun t => decide (x.pos ≤ t.pos ∧ t.end ≤ x.end ∧ t.kind ≠ .eof))

theorem tokensIn_append (a b : List Token) (x : Piece) : tokensIn (a ++ b) x = tokensIn a x ++ tokensIn b x := by
  unfold tokensIn; rw [List.filter_append]

theorem tokensIn_eq_nil {a : List Token} {x : Piece}
    (h : ∀ t ∈ a, ¬ (x.pos ≤ t.pos ∧ t.end ≤ x.end ∧ t.kind ≠ .eof)) : tokensIn a x = [] := by
  unfold tokensIn
  rw [List.filter_eq_nil_iff]
  intro t ht
  simpa using h t ht

theorem tokensIn_eq_self {a : List Token} {x : Piece}
    (h : ∀ t ∈ a, x.pos ≤ t.pos ∧ t.end ≤ x.end ∧ t.kind ≠ .eof) : tokensIn a x = a := by
  unfold tokensIn
  rw [List.filter_eq_self]
  intro t ht
  simpa using h t ht

/-- the piece starting at `fp` and ending at the terminator `t0` holds exactly the tokens collected so far -/
theorem tokensIn_first {buf : Bytes} {p fp : Nat} {t0 : Token} {ts done cur : List Token}
    (h : TokensOK buf p (t0 :: ts)) (hfp : FpOK fp (t0 :: ts))
    (hdone : ∀ t ∈ done, t.pos < fp)
    (hcur : ∀ t ∈ cur, fp ≤ t.pos ∧ t.pos < t.end ∧ t.end ≤ p ∧ t.kind ≠ .eof)
    (hk : t0.kind = K ";" ∨ t0.kind = .eof) (st : Bytes) :
    tokensIn (done ++ cur ++ t0 :: ts) { pos := fp, «end» := t0.pos, statement := st } = cur := by
  obtain ⟨f0, hiff, hts⟩ := TokensOK_head h
  have hfp0 : fp ≤ startOf t0 := hfp
  have hsg := f0.start_ge
  have hsl := f0.start_le
  have hpl := f0.pos_le
  rw [tokensIn_append, tokensIn_append]
  rw [tokensIn_eq_nil (a := done), tokensIn_eq_self (a := cur), tokensIn_eq_nil (a := t0 :: ts)]
  · simp
  · intro t ht
    simp only
    rcases List.mem_cons.1 ht with rfl | ht
    · rcases hk with hk | hk
      · have := f0.nonempty (by rw [hk]; exact semi_ne_eof)
        omega
      · intro hh; exact hh.2.2 hk
    · have ft := TokensOK_mem_tail h ht
      have := ft.start_ge; have := ft.start_le; have := ft.pos_le
      rcases hk with hk | hk
      · have := f0.nonempty (by rw [hk]; exact semi_ne_eof)
        omega
      · rw [hiff.1 hk] at ht; cases ht
  · intro t ht
    have := hcur t ht
    simp only
    exact ⟨this.1, by omega, this.2.2.2⟩
  · intro t ht
    have := hdone t ht
    simp only
    omega

/-- the collecting loop of `segments` and the recursion of `specPieces` run in lockstep -/
theorem segsAux_pieces {buf : Bytes} {p fp : Nat} {ts done cur : List Token}
    (h : TokensOK buf p ts) (hne : ts ≠ []) (hfp : FpOK fp ts)
    (hdone : ∀ t ∈ done, t.pos < fp)
    (hcur : ∀ t ∈ cur, fp ≤ t.pos ∧ t.pos < t.end ∧ t.end ≤ p ∧ t.kind ≠ .eof) :
    (segsAux ts cur).filter (fun s => !s.isEmpty) =
      ((specPieces buf ts fp).map (tokensIn (done ++ cur ++ ts))).filter (fun s => !s.isEmpty) := by
  induction ts generalizing p fp done cur with
  | nil => exact absurd rfl hne
  | cons t0 ts ih =>
    obtain ⟨f0, hiff, hts⟩ := TokensOK_head h
    have hfp0 : fp ≤ startOf t0 := hfp
    have hsg := f0.start_ge
    have hsl := f0.start_le
    have hpl := f0.pos_le
    have hfirst : ∀ st, t0.kind = K ";" ∨ t0.kind = .eof →
        tokensIn (done ++ cur ++ t0 :: ts) { pos := fp, «end» := t0.pos, statement := st } = cur :=
      fun st hk => tokensIn_first h hfp hdone hcur hk st
    by_cases hs : t0.kind = K ";"
    · have hne0 := f0.nonempty (by rw [hs]; exact semi_ne_eof)
      have hns := nextStart_ge h
      have htne := TokensOK_tail_ne h (by rw [hs]; exact semi_ne_eof)
      rw [specPieces_semi hs, segsAux, if_pos hs, List.map_cons, hfirst _ (Or.inl hs)]
      have := ih (p := t0.end) (fp := nextStart t0 ts) (done := done ++ cur ++ [t0]) (cur := []) hts htne FpOK_next
        (by
          intro t ht
          rcases List.mem_append.1 ht with ht | ht
          · rcases List.mem_append.1 ht with ht | ht
            · have := hdone t ht; omega
            · have := hcur t ht; omega
          · simp at ht; subst ht; omega)
        (fun _ h => (by cases h))
      simp only [List.filter_cons]
      have e : done ++ cur ++ [t0] ++ [] ++ ts = done ++ cur ++ t0 :: ts := by simp
      rw [e] at this
      rw [this]
    · by_cases he : t0.kind = .eof
      · have hnil := hiff.1 he
        subst hnil
        rw [specPieces_eof he, segsAux, if_neg hs, if_pos he]
        have hpos := f0.eof_pos he
        split
        · rw [List.map_cons, hfirst _ (Or.inr he)]
          simp
        · rename_i hh
          have hh' : t0.pos = fp := by simpa using hh
          have : cur = [] := by
            cases cur with
            | nil => rfl
            | cons c cs =>
              have := hcur c List.mem_cons_self
              omega
          subst this
          simp
      · rw [specPieces_other hs he, segsAux, if_neg hs, if_neg he]
        have hne0 := f0.nonempty he
        have := ih (p := t0.end) (fp := fp) (done := done) (cur := cur ++ [t0]) hts (TokensOK_tail_ne h he)
          (FpOK_tail h hfp) hdone
          (by
            intro t ht
            rcases List.mem_append.1 ht with ht | ht
            · have := hcur t ht
              exact ⟨this.1, this.2.1, by omega, this.2.2.2⟩
            · simp at ht; subst ht
              exact ⟨by omega, hne0, Nat.le_refl _, he⟩)
        have e : done ++ (cur ++ [t0]) ++ ts = done ++ cur ++ t0 :: ts := by simp
        rw [e] at this
        exact this

/-- a lexer result is well-formed -/
theorem TokensOK_WF {buf : Bytes} {p : Nat} {ts : List Token} (h : TokensOK buf p ts) (hne : ts ≠ []) : WF ts := by
  induction ts generalizing p with
  | nil => exact absurd rfl hne
  | cons t ts ih =>
    obtain ⟨_, hiff, hts⟩ := TokensOK_head h
    by_cases he : t.kind = .eof
    · rw [hiff.1 he]
      exact ⟨[], t, rfl, he, fun _ h => (by cases h)⟩
    · obtain ⟨body, e, h1, h2, h3⟩ := ih hts (fun hh => he (hiff.2 hh))
      refine ⟨t :: body, e, by simp [h1], h2, ?_⟩
      intro x hx
      rcases List.mem_cons.1 hx with rfl | hx
      · exact he
      · exact h3 x hx

theorem lexAll_WF {buf : Bytes} {ts : List Token} (h : lexAll buf = .ok ts) : WF ts :=
  TokensOK_WF (lexAll_ok h).2 (lexAll_ok h).1

/-- C11: the non-empty segments of the token list are, in order, the token contents of the pieces of
`SplitRawStatements` that contain a token: the `j`-th non-empty segment is exactly the list of tokens of `ts` lying
inside the `j`-th token-containing piece (pieces holding only comments, and the empty pieces of `;;`, contain no
token and correspond to the skipped empty segments) -/
theorem segments_pieces {buf : Bytes} {ts : List Token} (h : lexAll buf = .ok ts) :
    stmtSegments ts = ((specPieces buf ts 0).map (tokensIn ts)).filter (fun s => !s.isEmpty) := by
  obtain ⟨hne, hok⟩ := lexAll_ok h
  have := segsAux_pieces (done := []) (cur := []) hok hne (FpOK_zero hok) (fun _ h => (by cases h))
    (fun _ h => (by cases h))
  simpa [stmtSegments, segments] using this

end MF.Stmt
