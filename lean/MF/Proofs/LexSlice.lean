/-
  MF.Proofs.LexSlice — lexing a slice of the input (C06, lexer half).

  `Win buf X d m`: `X = buf[d:m]`.  From a lexer state at or after `d`, every `nextToken` step of `buf` whose token ends
  at or before `m` is, with all positions moved `d` bytes to the left, the same step on `X` (`nextTokenCore_win`);
  no `;` is needed behind the window (Task K's lemmas needed one) and the positions are really shifted (Task K kept
  them by padding with blanks).
-/
import MF.Proofs.LexLocal
import MF.Proofs.LexSliceScan
namespace MF.Lex.S

structure Win (buf X : Bytes) (d m : Nat) : Prop where
  dm : d ≤ m
  le : m ≤ buf.length
  eq : X = slice buf d m

namespace Win
variable {buf X : Bytes} {d m : Nat}

theorem len (hw : Win buf X d m) : X.length = m - d := by
  rw [hw.eq, slice_length hw.dm hw.le]

theorem drop (hw : Win buf X d m) {q : Nat} (hq : d ≤ q) : X.drop (q - d) = (buf.drop q).take (m - q) := by
  rw [hw.eq]
  unfold slice
  rw [List.drop_take, List.drop_drop]
  congr 1
  · omega
  · congr 1; omega

theorem slice?_eq (hw : Win buf X d m) {a b : Nat} (ha : d ≤ a) (hab : a ≤ b) (hb : b ≤ m) :
    MF.slice? X (a - d) (b - d) = (MF.slice? buf a b) := by
  unfold MF.slice? MF.slice
  have h1 : b ≤ buf.length := Nat.le_trans hb hw.le
  rw [hw.len]
  have c1 : (a - d ≤ b - d ∧ b - d ≤ m - d) := by omega
  have c2 : (a ≤ b ∧ b ≤ buf.length) := ⟨hab, h1⟩
  simp only [c1, c2, and_self, if_true]
  rw [hw.drop ha, List.take_take]
  congr 2
  omega

end Win

/-- comments moved `d` bytes to the left -/
def shiftC (d : Nat) (c : Comment) : Comment := { c with pos := c.pos - d, «end» := c.end - d }
def shiftCs (d : Nat) (cs : List Comment) : List Comment := cs.map (shiftC d)

theorem skipComment_p0 {R : Bytes} {p0 p0' : Nat} {r : Nat × Bool} (h : skipComment R p0 false = .ok r) :
    skipComment R p0' false = .ok r := by
  unfold skipComment at h ⊢
  split at h
  · rename_i hl; simp only [hl, if_true]; exact h
  · rename_i hl
    simp only [hl, Bool.false_eq_true, if_false]
    split at h
    · rename_i hb
      simp only [hb, if_true]
      split at h
      · exact h
      · simp at h
    · rename_i hb; simp only [hb, Bool.false_eq_true, if_false]; exact h

theorem shiftCs_append (d : Nat) (a b : List Comment) : shiftCs d (a ++ b) = shiftCs d a ++ shiftCs d b := by
  simp [shiftCs]

/-- the trivia loop on the window (adapted from Task K's `triviaLoop_cut`) -/
theorem triviaLoop_win {buf X : Bytes} {d m : Nat} (hw : Win buf X d m) {f f' pos : Nat}
    {cs : List Comment} {pos' : Nat} {cs' : List Comment} {space : Bytes} {he : Bool}
    (h : triviaLoop buf false f pos cs = .ok (pos', cs', space, he)) (hp : d ≤ pos) (hpe : pos' ≤ m)
    (hf' : m < f' + pos) :
    triviaLoop X false f' (pos - d) (shiftCs d cs) = .ok (pos' - d, shiftCs d cs', space, he) := by
  induction f generalizing f' pos cs with
  | zero => simp [triviaLoop] at h
  | succ f ih =>
    have hle := triviaLoop_pos_le h
    cases f' with
    | zero => omega
    | succ f' =>
    simp only [triviaLoop] at h ⊢
    -- white space
    have hsk : skipSpaces (X.length + 1) (X.drop (pos - d)) = skipSpaces (buf.length + 1) (buf.drop pos) ∧
        pos + skipSpaces (buf.length + 1) (buf.drop pos) ≤ pos' := by
      have hk : pos + skipSpaces (buf.length + 1) (buf.drop pos) ≤ pos' := by
        split at h
        · cases h
        · split at h
          · cases h
          · cases h
          · split at h
            · cases h; omega
            · split at h
              · cases h
              · split at h
                · cases h; omega
                · have := triviaLoop_pos_le h; omega
      refine ⟨?_, hk⟩
      rw [hw.drop hp, hw.len]
      rw [skipSpaces_fuel (f2 := buf.length + 1) (by rw [List.length_take]; omega)
        (by rw [List.length_take, List.length_drop]; have := hw.le; omega)]
      exact skipSpaces_take (by omega)
    rw [hsk.1]
    have hpos1 := hsk.2
    have e1 : pos - d + skipSpaces (buf.length + 1) (buf.drop pos) =
        pos + skipSpaces (buf.length + 1) (buf.drop pos) - d := by omega
    rw [e1]
    split at h
    · cases h
    · rename_i space1 hsp
      rw [hw.slice?_eq hp (by omega) (by omega), hsp]
      simp only
      split at h
      · cases h
      · cases h
      · rename_i n he1 hsc
        have hn : pos + skipSpaces (buf.length + 1) (buf.drop pos) + n ≤ pos' := by
          split at h
          · rename_i hn0
            have : n = 0 := by simpa using hn0
            omega
          · split at h
            · cases h
            · split at h
              · rename_i hhe
                exact absurd (skipComment_err_np (by rw [hsc, hhe])) (by simp)
              · have := triviaLoop_pos_le h; omega
        rw [hw.drop (by omega), skipComment_p0 (skipComment_take hsc (by omega))]
        simp only
        split at h
        · rename_i hn0
          simp only [hn0, if_true]
          cases h
          rfl
        · rename_i hn0
          simp only [hn0, Bool.false_eq_true, if_false]
          have hn0' : n ≠ 0 := by simpa using hn0
          have e2 : pos + skipSpaces (buf.length + 1) (buf.drop pos) - d + n =
              pos + skipSpaces (buf.length + 1) (buf.drop pos) + n - d := by omega
          rw [e2]
          split at h
          · cases h
          · rename_i raw hraw
            rw [hw.slice?_eq (by omega) (by omega) (by omega), hraw]
            simp only
            split at h
            · rename_i hhe
              exact absurd (skipComment_err_np (by rw [hsc, hhe])) (by simp)
            · rename_i hhe
              simp only [hhe, Bool.false_eq_true, if_false]
              have := ih h (f' := f') (by omega) (by omega)
              rw [shiftCs_append] at this
              exact this

/-! ## one step on the window -/

/-- a token moved `d` bytes to the left (with its comments) -/
def shiftT (d : Nat) (t : Token) : Token :=
  { t with pos := t.pos - d, «end» := t.end - d, comments := shiftCs d t.comments }

theorem afterTrivia_win {buf X : Bytes} {d m : Nat} (hw : Win buf X d m) {dot : Bool} {lk lk' : TokKind}
    {pos : Nat} {cs cs' : List Comment} {sp sp' : Bytes} {s1 : State}
    (h : afterTrivia buf dot lk pos cs sp = .ok s1) (hp : d ≤ pos) (he : s1.pos ≤ m)
    (hk : isNextDotIdent lk' = isNextDotIdent lk) :
    afterTrivia X dot lk' (pos - d) cs' sp' =
      .ok { pos := s1.pos - d, lastKind := lk', dotIdent := s1.dotIdent,
            tok := { s1.tok with comments := cs', space := sp', pos := s1.tok.pos - d, «end» := s1.tok.end - d } } := by
  unfold afterTrivia at h ⊢
  simp only at h ⊢
  split at h
  · cases h
  · cases h
  · rename_i sc hsc
    split at h
    · cases h
    · rename_i raw hraw
      cases h
      simp only at he
      have hsc' : (if dot = true then consumeFieldToken (X.drop (pos - d)) (pos - d) lk' false
          else consumeToken (X.drop (pos - d)) (pos - d) lk' false) = .ok sc := by
        rw [hw.drop hp, consumeFieldToken_lk hk, consumeToken_lk hk]
        by_cases hd : dot = true
        · simp only [hd, if_true] at hsc ⊢
          exact consumeFieldToken_p0 (consumeFieldToken_take0 hsc (by omega))
        · simp only [hd, Bool.false_eq_true, if_false] at hsc ⊢
          exact consumeToken_p0 (consumeToken_take0 hsc (by omega))
      rw [hsc']
      simp only
      have e1 : pos - d + sc.len = pos + sc.len - d := by omega
      rw [e1, hw.slice?_eq hp (by omega) he, hraw]

/-- **one step on the window**: a token of `buf` that ends at or before `m`, read from a state at or after `d`, is read
from the shifted state on `X = buf[d:m]` as the same token moved `d` bytes to the left -/
theorem nextTokenCore_win {buf X : Bytes} {d m : Nat} (hw : Win buf X d m) {s s' s1 : State}
    (h : nextTokenCore buf false s = .ok s1) (hp : d ≤ s.pos) (he : s1.pos ≤ m)
    (hpos : s'.pos = s.pos - d) (hdot : s'.dotIdent = s.dotIdent)
    (hk : isNextDotIdent s'.tok.kind = isNextDotIdent s.tok.kind) :
    nextTokenCore X false s' =
      .ok { pos := s1.pos - d, lastKind := s'.tok.kind, dotIdent := s1.dotIdent, tok := shiftT d s1.tok } := by
  rw [nextTokenCore_eq] at h ⊢
  split at h
  · cases h
  · cases h
  · rename_i pos comments space hasError htl
    have hne := triviaLoop_noErr htl
    subst hne
    simp only [Bool.false_eq_true, if_false] at h
    obtain ⟨f1, f2, f3, f4, _⟩ := afterTrivia_facts h
    have htl' := triviaLoop_win hw htl hp (by omega) (f' := X.length + 2) (by rw [hw.len]; omega)
    simp only [shiftCs, List.map_nil] at htl'
    rw [hpos, htl']
    simp only [Bool.false_eq_true, if_false]
    rw [hdot, afterTrivia_win hw h (by have := triviaLoop_pos_le htl; omega) he hk]
    unfold shiftT
    rw [← f3, ← f4]
    rfl

/-! ## restarting at the token -/

/-- where the trivia loop stops there is neither white space nor a comment -/
theorem triviaLoop_end {buf : Bytes} {f pos : Nat} {cs : List Comment} {pos' : Nat} {cs' : List Comment}
    {space : Bytes} {he : Bool} (h : triviaLoop buf false f pos cs = .ok (pos', cs', space, he)) :
    skipSpaces (buf.length + 1) (buf.drop pos') = 0 ∧ skipComment (buf.drop pos') pos' false = .ok (0, false) ∧
      pos' ≤ buf.length := by
  induction f generalizing pos cs with
  | zero => simp [triviaLoop] at h
  | succ f ih =>
    simp only [triviaLoop] at h
    split at h
    · cases h
    · rename_i space1 hsp
      have hle := (slice?_some hsp).2.1
      split at h
      · cases h
      · cases h
      · rename_i n he1 hsc
        split at h
        · rename_i hn0
          have hn : n = 0 := by simpa using hn0
          subst hn
          cases h
          refine ⟨?_, ?_, hle⟩
          · rcases skipSpaces_idem (buf.length + 1) (buf.drop pos) (buf.length + 1) with h0 | h0
            · rw [List.drop_drop] at h0; exact h0
            · simp only [List.length_drop] at h0; omega
          · cases he1 with
            | false => exact hsc
            | true => exact absurd (skipComment_err_np hsc) (by simp)
        · split at h
          · cases h
          · split at h
            · rename_i hhe
              exact absurd (skipComment_err_np (by rw [hsc, hhe])) (by simp)
            · exact ih h

theorem triviaLoop_at_end {buf : Bytes} {pos : Nat} {f : Nat}
    (h1 : skipSpaces (buf.length + 1) (buf.drop pos) = 0)
    (h2 : skipComment (buf.drop pos) pos false = .ok (0, false)) (h3 : pos ≤ buf.length) :
    triviaLoop buf false (f + 1) pos [] = .ok (pos, [], [], false) := by
  simp only [triviaLoop, h1, Nat.add_zero]
  rw [slice?_of_le (Nat.le_refl _) h3, slice_self]
  simp only [h2, beq_self_eq_true, if_true]

/-- the `.` case of `consumeToken` is the only one that reads the previous token kind -/
theorem tokBody_lk0 {R : Bytes} {c : UInt8} {p0 : Nat} {lk lk' : TokKind} {sc : Scan}
    (h : tokBody R c p0 lk false = .ok sc) (hk : sc.kind ≠ K ".") (hlk' : isNextDotIdent lk' = false) :
    tokBody R c p0 lk' false = .ok sc := by
  unfold tokBody at h ⊢
  split at h
  · exact h
  · rw [hlk']
    cases hl : isNextDotIdent lk with
    | false => rw [hl] at h; exact h
    | true =>
      rw [hl] at h
      simp only [Bool.not_true, Bool.false_and, Bool.false_eq_true, if_false, Res.ok.injEq] at h
      subst h
      exact absurd rfl hk
  all_goals exact h

theorem consumeToken_lk0 {R : Bytes} {p0 : Nat} {lk lk' : TokKind} {sc : Scan}
    (h : consumeToken R p0 lk false = .ok sc) (hk : sc.kind ≠ K ".") (hlk' : isNextDotIdent lk' = false) :
    consumeToken R p0 lk' false = .ok sc := by
  cases R with
  | nil => simpa [consumeToken] using h
  | cons c t => rw [consumeToken_cons] at h ⊢; exact tokBody_lk0 h hk hlk'

/-- reading from a fresh state placed exactly at a token gives the same token, without trivia in front -/
theorem nextTokenCore_restart {buf : Bytes} {s s1 s0 : State} (h : nextTokenCore buf false s = .ok s1)
    (hpos : s0.pos = s1.tok.pos) (hdot : s.dotIdent = false) (hdot0 : s0.dotIdent = false)
    (hk0 : isNextDotIdent s0.tok.kind = false) (hkind : s1.tok.kind ≠ K ".") :
    nextTokenCore buf false s0 =
      .ok { s1 with lastKind := s0.tok.kind, tok := { s1.tok with comments := [], space := [] } } := by
  rw [nextTokenCore_eq] at h ⊢
  split at h
  · cases h
  · cases h
  · rename_i pos comments space hasError htl
    have hne := triviaLoop_noErr htl
    subst hne
    simp only [Bool.false_eq_true, if_false] at h
    obtain ⟨f1, f2, f3, f4, _⟩ := afterTrivia_facts h
    obtain ⟨e1, e2, e3⟩ := triviaLoop_end htl
    rw [hpos, f1, triviaLoop_at_end e1 e2 e3]
    simp only [Bool.false_eq_true, if_false]
    rw [hdot0]
    rw [hdot] at h
    unfold afterTrivia at h ⊢
    simp only [Bool.false_eq_true, if_false] at h ⊢
    split at h
    · cases h
    · cases h
    · rename_i sc hsc
      split at h
      · cases h
      · rename_i raw hraw
        cases h
        simp only at hkind
        rw [consumeToken_lk0 hsc hkind hk0]
        simp only [hraw]

/-! ## runs -/

theorem steps_head {buf : Bytes} {s : State} {x : Token} {l : List Token} (h : Steps buf s (x :: l)) (hl : l ≠ []) :
    ∃ s1, nextToken buf false s = .ok s1 ∧ s1.tok = x ∧ s1.tok.kind ≠ .eof ∧ Steps buf s1 l := by
  generalize hx : x :: l = l' at h
  cases h with
  | last hn hk' =>
    exfalso
    simp only [List.cons.injEq] at hx
    exact hl hx.2
  | cons hn hk' hrest =>
    simp only [List.cons.injEq] at hx
    rw [← hx.2] at hrest
    exact ⟨_, hn, hx.1.symm, hk', hrest⟩

/-- a whole run on the window: the tokens `seg` (the last of which ends at `m`), then `<eof>` -/
theorem steps_win {buf X : Bytes} {d m : Nat} (hw : Win buf X d m) :
    ∀ (seg : List Token) (s s' : State) (t : Token) (more : List Token),
      Steps buf s (seg ++ t :: more) → (∀ y ∈ seg, y.end ≤ m) → (∀ hne : seg ≠ [], (seg.getLast hne).end = m) →
      (seg = [] → s.pos = m) → d ≤ s.pos →
      s'.pos = s.pos - d → s'.dotIdent = s.dotIdent → isNextDotIdent s'.tok.kind = isNextDotIdent s.tok.kind →
      ∃ eofT, Steps X s' (seg.map (shiftT d) ++ [eofT]) ∧ eofT.kind = .eof ∧ eofT.pos = m - d ∧ eofT.end = m - d := by
  intro seg
  induction seg with
  | nil =>
    intro s s' t more _ _ _ hsm hp hpos _ _
    have hpx : s'.pos = X.length := by rw [hpos, hsm rfl, hw.len]
    obtain ⟨s1, h1, h2, h3, _, h5⟩ := eof_stable (buf := X) (np := false) (s := s') hpx
    have fr := nextToken_frame h1
    refine ⟨s1.tok, Steps.last h1 h2, h2, ?_, ?_⟩
    · rw [h5, hw.len]
    · rw [fr.tok_end, h3, hw.len]
  | cons x seg ih =>
    intro s s' t more h hend hlast _ hp hpos hdot hk
    obtain ⟨s1, hn, hsx, hne, hrest⟩ := steps_head (l := seg ++ t :: more) h (by simp)
    have fr := nextToken_frame hn
    have hs1 : s1.pos = x.end := by rw [← hsx]; exact fr.tok_end.symm
    have hs1m : s1.pos ≤ m := by rw [hs1]; exact hend x (by simp)
    have hwin := nextTokenCore_win (s' := s') hw (nextToken_ok_core hn) hp hs1m hpos hdot hk
    have hrec := ih s1 { pos := s1.pos - d, lastKind := s'.tok.kind, dotIdent := s1.dotIdent, tok := shiftT d s1.tok }
      t more hrest (fun y hy => hend y (List.mem_cons_of_mem _ hy))
      (fun hne' => by have := hlast (by simp); rwa [List.getLast_cons hne'] at this)
      (fun he => by subst he; have := hlast (by simp); simp only [List.getLast_singleton] at this; omega)
      (by have := fr.pos_le; omega) rfl rfl rfl
    obtain ⟨eofT, hsteps, e1, e2, e3⟩ := hrec
    refine ⟨eofT, ?_, e1, e2, e3⟩
    have := Steps.cons (nextToken_of_core hwin) (by exact hne) hsteps
    rw [← hsx]
    exact this

/-- the first token of a slice: no trivia in front -/
def bareT (t : Token) : Token := { t with comments := [], space := [] }

/-- **Lexing a slice.**  If `buf` lexes to `pre ++ x :: seg ++ t :: more`, the token before `x` (if any) is not `.`
(so the lexer is not in field-name mode at `x`), `x` itself is not `.`, and the last token of `x :: seg` ends at `m`,
then `buf[x.pos : m]` lexes to `x :: seg` moved `x.pos` bytes to the left (`x` without the trivia in front of it),
followed by `<eof>` at `m - x.pos`. -/
theorem slice_lex {buf : Bytes} {pre seg : List Token} {x t : Token} {more : List Token} {m : Nat}
    (h : lexAll buf = .ok (pre ++ x :: (seg ++ t :: more)))
    (hprev : ∀ hne : pre ≠ [], (pre.getLast hne).kind ≠ K ".") (hfirst : x.kind ≠ K ".")
    (hend : ∀ y ∈ x :: seg, y.end ≤ m) (hlast : ((x :: seg).getLast (by simp)).end = m) (hm : m ≤ buf.length) :
    ∃ eofT, lexAll (slice buf x.pos m) = .ok (bareT (shiftT x.pos x) :: (seg.map (shiftT x.pos) ++ [eofT])) ∧
      eofT.kind = .eof ∧ eofT.pos = m - x.pos ∧ eofT.end = m - x.pos := by
  have hsteps := lexAll_steps h
  -- the state in front of `x`
  have hsb : ∃ sb, Steps buf sb (x :: (seg ++ t :: more)) ∧ sb.dotIdent = false := by
    rcases List.eq_nil_or_concat pre with hp | ⟨pre', p, hp⟩
    · subst hp
      exact ⟨init, hsteps, rfl⟩
    · subst hp
      rw [List.concat_eq_append, List.append_assoc] at hsteps
      simp only [List.concat_eq_append] at hprev
      obtain ⟨sb, h1, h2, _, h4⟩ := steps_after (pre := pre') (t := p) hsteps (by simp) (by simp [init])
      refine ⟨sb, h1, ?_⟩
      have hpk := hprev (by simp)
      simp only [List.getLast_concat] at hpk
      cases hd : sb.dotIdent with
      | false => rfl
      | true => exact absurd (h2 ▸ h4 hd) hpk
  obtain ⟨sb, hsb1, hsb2⟩ := hsb
  obtain ⟨s1, hn, hsx, hne, hrest⟩ := steps_head hsb1 (by simp)
  have fr := nextToken_frame hn
  have hs1 : s1.pos = x.end := by rw [← hsx]; exact fr.tok_end.symm
  have hxle : x.pos ≤ x.end := by rw [← hsx]; exact fr.tok_le
  have hxm : x.end ≤ m := hend x (by simp)
  have hw : Win buf (slice buf x.pos m) x.pos m := ⟨by omega, hm, rfl⟩
  -- restart exactly at `x`, then move to the window
  have hres := nextTokenCore_restart (s0 := { pos := x.pos }) (nextToken_ok_core hn) (by rw [hsx]) hsb2 rfl
    isNextDotIdent_init (by rw [hsx]; exact hfirst)
  have hwin := nextTokenCore_win (s' := init) hw hres (Nat.le_refl _) (by simp only; omega) (by simp [init]) rfl rfl
  obtain ⟨eofT, hst, e1, e2, e3⟩ := steps_win hw seg s1
    { pos := s1.pos - x.pos, lastKind := init.tok.kind, dotIdent := s1.dotIdent,
      tok := shiftT x.pos { s1.tok with comments := [], space := [] } } t more hrest
    (fun y hy => hend y (List.mem_cons_of_mem _ hy))
    (fun hne' => by have := hlast; rwa [List.getLast_cons hne'] at this)
    (fun he => by subst he; simp only [List.getLast_singleton] at hlast; omega)
    (by omega) rfl rfl rfl
  refine ⟨eofT, ?_, e1, e2, e3⟩
  apply steps_lexAll
  have := Steps.cons (nextToken_of_core hwin) (by exact hne) hst
  rw [hsx] at this
  exact this

end MF.Lex.S
