import MF.Proofs.LexAll
namespace MF.Lex

/-- the bytes `buf[lo, hi)` are a sequence of whitespace runes (decoded in place, as Go does) -/
inductive AllSpaceIn (buf : Bytes) : Nat → Nat → Prop
  | nil (p : Nat) : AllSpaceIn buf p p
  | cons {lo hi : Nat} : lo < buf.length → Utf8.isSpace (Utf8.decodeRune (buf.drop lo)).1 = true →
      0 < (Utf8.decodeRune (buf.drop lo)).2 →
      AllSpaceIn buf (lo + (Utf8.decodeRune (buf.drop lo)).2) hi → AllSpaceIn buf lo hi

theorem skipSpaces_allSpace (buf : Bytes) (fuel p : Nat) :
    AllSpaceIn buf p (p + skipSpaces fuel (buf.drop p)) := by
  induction fuel generalizing p with
  | zero => simp only [skipSpaces, Nat.add_zero]; exact .nil p
  | succ fuel ih =>
    simp only [skipSpaces]
    split
    · exact .nil p
    · rename_i hne
      split
      · rename_i hsp
        have hne' : buf.drop p ≠ [] := by simpa using hne
        have hlt : p < buf.length := by
          rcases Nat.lt_or_ge p buf.length with h | h
          · exact h
          · exact absurd (List.drop_eq_nil_iff.2 h) hne'
        have hpos := (decodeRune_size (buf.drop p)).2 hne'
        refine .cons hlt hsp hpos ?_
        have := ih (p + (Utf8.decodeRune (buf.drop p)).2)
        rw [List.drop_drop, ← Nat.add_assoc]
        exact this
      · exact .nil p

/-- a complete comment: `#`, `--` or `//` up to and including the first newline (or up to the end
of input when there is none), or `/*`, a body, and `*/` (opener and closer do not share their `*`) -/
def CompleteComment (buf : Bytes) (c : Comment) : Prop :=
  (isLineCommentStart (buf.drop c.pos) = true ∧
     ((∃ body, c.raw = body ++ [10] ∧ 10 ∉ body) ∨ (10 ∉ c.raw ∧ c.end = buf.length)))
  ∨ (isBlockCommentStart (buf.drop c.pos) = true ∧ ∃ body, c.raw = [47, 42] ++ body ++ [42, 47])

theorem scanUntil_nl_min {r : Bytes} {k : Nat} (h : scanUntil [10] r = some k) : 10 ∉ r.take (k - 1) := by
  induction r generalizing k with
  | nil => simp [scanUntil] at h
  | cons c t ih =>
    simp only [scanUntil] at h
    split at h
    · cases h; simp
    · rename_i hc
      cases hh : scanUntil [10] t with
      | none => simp [hh] at h
      | some k' =>
        simp [hh] at h
        subst h
        have hk := (scanUntil_some hh).1
        simp at hk
        have : k' + 1 - 1 = (k' - 1) + 1 := by omega
        rw [this]
        simp only [List.take_succ_cons, List.mem_cons, not_or]
        refine ⟨?_, ih hh⟩
        intro hc'
        apply hc
        simp [← hc']

theorem scanUntil_nl_none {r : Bytes} (h : scanUntil [10] r = none) : 10 ∉ r := by
  induction r with
  | nil => simp
  | cons c t ih =>
    simp only [scanUntil] at h
    split at h
    · cases h
    · rename_i hc
      cases hh : scanUntil [10] t with
      | some k' => simp [hh] at h
      | none =>
        simp only [List.mem_cons, not_or]
        refine ⟨?_, ih hh⟩
        intro hc'
        apply hc
        simp [← hc']

/-- what `skipComment` consumed is a complete comment (panic mode) -/
theorem skipComment_complete {buf : Bytes} {p n : Nat} {he : Bool} {raw : Bytes}
    (h : skipComment (buf.drop p) p false = .ok (n, he)) (hn : n ≠ 0) (hp : p + n ≤ buf.length)
    (hraw : raw = slice buf p (p + n)) :
    CompleteComment buf { space := [], raw := raw, pos := p, «end» := p + n } := by
  have hraw' : raw = (buf.drop p).take n := by rw [hraw, slice_drop]
  unfold skipComment at h
  split at h
  · rename_i hl
    left
    refine ⟨hl, ?_⟩
    cases hs : scanUntil [10] (buf.drop p) with
    | some k =>
      rw [hs] at h
      simp only [Option.getD_some] at h
      cases h
      left
      obtain ⟨a, b, c⟩ := scanUntil_some hs
      refine ⟨(buf.drop p).take (n - 1), ?_, scanUntil_nl_min hs⟩
      simp only
      rw [hraw', c]; simp
    | none =>
      rw [hs] at h
      simp only [Option.getD_none] at h
      cases h
      right
      simp only [List.length_drop] at hp hraw' ⊢
      refine ⟨?_, by omega⟩
      rw [hraw']
      have := scanUntil_nl_none hs
      intro hm
      exact this (List.mem_of_mem_take hm)
  · split at h
    · rename_i hb
      split at h
      · rename_i k hs
        cases h
        right
        obtain ⟨a, b, c⟩ := scanUntil_some hs
        refine ⟨hb, ((buf.drop p).drop 2).take (k - 2), ?_⟩
        simp only
        have hopen : (buf.drop p).take 2 = [47, 42] := by
          unfold isBlockCommentStart at hb
          match hbd : buf.drop p with
          | [] => rw [hbd] at hb; simp at hb
          | [_] => rw [hbd] at hb; simp at hb
          | x :: y :: t =>
            rw [hbd] at hb
            simp only [Bool.and_eq_true, beq_iff_eq] at hb
            have h1 : x = 47 := hb.1
            have h2 : y = 42 := by simpa using hb.2
            simp [h1, h2]
        have hsplit : (buf.drop p).take (k + 2) = (buf.drop p).take 2 ++ ((buf.drop p).drop 2).take k := by
          rw [Nat.add_comm, List.take_add]
        rw [hraw', hsplit, hopen, c]
        simp
      · simp at h
    · cases h; exact absurd rfl hn

theorem lastEnd_append (p : Nat) (cs : List Comment) (c : Comment) : lastEnd p (cs ++ [c]) = c.end := by
  induction cs generalizing p with
  | nil => simp [lastEnd]
  | cons d ds ih => simp only [List.cons_append, lastEnd]; exact ih _

/-- spaces and comments recorded by the trivia loop -/
def TriviaOK (buf : Bytes) : Nat → List Comment → Prop
  | _, [] => True
  | p, c :: cs => AllSpaceIn buf p c.pos ∧ CompleteComment buf c ∧ TriviaOK buf c.end cs

theorem TriviaOK_append {buf : Bytes} {p : Nat} {cs : List Comment} {c : Comment}
    (h : TriviaOK buf p cs) (h1 : AllSpaceIn buf (lastEnd p cs) c.pos) (h2 : CompleteComment buf c) :
    TriviaOK buf p (cs ++ [c]) := by
  induction cs generalizing p with
  | nil => simp [TriviaOK, lastEnd] at *; exact ⟨h1, h2⟩
  | cons d ds ih =>
    simp only [TriviaOK, lastEnd, List.cons_append] at *
    exact ⟨h.1, h.2.1, ih h.2.2 h1⟩

theorem triviaLoop_trivia {buf : Bytes} {fuel pos : Nat} {cs : List Comment} {p0 : Nat}
    {pos' : Nat} {cs' : List Comment} {space : Bytes} {he : Bool}
    (h : triviaLoop buf false fuel pos cs = .ok (pos', cs', space, he))
    (hcs : TriviaOK buf p0 cs) (hle : lastEnd p0 cs = pos) :
    TriviaOK buf p0 cs' ∧ AllSpaceIn buf (lastEnd p0 cs') pos' := by
  induction fuel generalizing pos cs with
  | zero => simp [triviaLoop] at h
  | succ fuel ih =>
    simp only [triviaLoop] at h
    split at h
    · cases h
    · rename_i space1 hsp
      have hsa := skipSpaces_allSpace buf (buf.length + 1) pos
      split at h
      · cases h
      · cases h
      · rename_i n he1 hsc
        split at h
        · cases h
          exact ⟨hcs, by rw [hle]; exact hsa⟩
        · rename_i hn0
          have hn0' : n ≠ 0 := by simpa using hn0
          split at h
          · cases h
          · rename_i raw hraw
            obtain ⟨hr1, hr2, hr3⟩ := slice?_some hraw
            have hcc := skipComment_complete hsc hn0' hr2 hr3
            have happ := TriviaOK_append (c := { space := space1, raw := raw, pos := pos + skipSpaces (buf.length + 1) (List.drop pos buf), «end» := pos + skipSpaces (buf.length + 1) (List.drop pos buf) + n })
              hcs (by rw [hle]; exact hsa) (by
                unfold CompleteComment at hcc ⊢
                exact hcc)
            split at h
            · rename_i hhe
              exact absurd (skipComment_err_np (by rw [hsc, hhe])) (by simp)
            · exact ih h happ (lastEnd_append _ _ _)

/-- C13 (8), (9): in an accepted step every `Space` is a run of whitespace runes and every comment
is complete -/
theorem nextToken_trivia {buf : Bytes} {s s' : State} (h : nextToken buf false s = .ok s') :
    TriviaOK buf s.pos s'.tok.comments ∧ AllSpaceIn buf (lastEnd s.pos s'.tok.comments) s'.tok.pos := by
  have h := nextToken_ok_core h
  unfold nextTokenCore at h
  simp only at h
  split at h
  · cases h
  · cases h
  · rename_i pos comments space he htl
    have inv := triviaLoop_trivia (p0 := s.pos) htl (by simp [TriviaOK]) (by simp [lastEnd])
    split at h
    · split at h
      · cases h
      · cases h; exact inv
    · split at h
      · cases h
      · cases h
      · split at h
        · cases h
        · cases h; exact inv

end MF.Lex
