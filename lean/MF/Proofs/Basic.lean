import MF.Model.Basic
namespace MF

theorem slice?_some {b : Bytes} {lo hi : Nat} {r : Bytes} (h : slice? b lo hi = some r) :
    lo ≤ hi ∧ hi ≤ b.length ∧ r = slice b lo hi := by
  unfold slice? at h
  split at h
  · rename_i hc; cases h; exact ⟨hc.1, hc.2, rfl⟩
  · cases h

theorem slice?_of_le {b : Bytes} {lo hi : Nat} (h1 : lo ≤ hi) (h2 : hi ≤ b.length) :
    slice? b lo hi = some (slice b lo hi) := by
  unfold slice?; simp [h1, h2]

theorem slice_length {b : Bytes} {lo hi : Nat} (h1 : lo ≤ hi) (h2 : hi ≤ b.length) :
    (slice b lo hi).length = hi - lo := by
  unfold slice; simp; omega

theorem slice_self (b : Bytes) (lo : Nat) : slice b lo lo = [] := by
  unfold slice; simp

theorem slice_append (b : Bytes) {a c d : Nat} (h1 : a ≤ c) (h2 : c ≤ d) :
    slice b a c ++ slice b c d = slice b a d := by
  unfold slice
  have : b.drop c = (b.drop a).drop (c - a) := by rw [List.drop_drop]; congr 1; omega
  rw [this]
  have hd : d - a = (c - a) + (d - c) := by omega
  rw [hd, List.take_add]

theorem slice_zero_length (b : Bytes) : slice b 0 b.length = b := by
  unfold slice; simp

theorem slice_drop (b : Bytes) (p n : Nat) : slice b p (p + n) = (b.drop p).take n := by
  unfold slice; simp


/-- every statement about all bytes reduces to 256 instances, which the kernel can evaluate -/
theorem UInt8.forall_of_fin {p : UInt8 → Prop} (h : ∀ n : Fin 256, p (UInt8.ofNat n.val)) : ∀ c, p c := by
  intro c
  have := h ⟨c.toNat, c.toNat_lt⟩
  simpa using this

end MF
