/-
  MF.Proofs.ExprPosErase — the positioned parser `parseP…` (MF/Model/ExprPos.lean) erases to the proved parser
  (MF/Model/Expr.lean): for every fuel and token list, `parseExpr f ts = (parsePExpr f ts).map (erase × id)`, for ALL
  results (ok / raise / outside / crash / outOfFuel).  Hence every Task F theorem transfers.
-/
import MF.Model.ExprPos
import MF.Proofs.ExprBasic
namespace MF.Expr

/-! ## `Res.map` -/

def Res.map {α β : Type} (g : α → β) : Res α → Res β
  | .ok a => .ok (g a)
  | .raise => .raise
  | .outside => .outside
  | .crash => .crash
  | .outOfFuel => .outOfFuel

@[simp] theorem Res.map_ok {α β : Type} (g : α → β) (a : α) : (Res.ok a).map g = .ok (g a) := rfl
@[simp] theorem Res.map_raise {α β : Type} (g : α → β) : (Res.raise : Res α).map g = .raise := rfl
@[simp] theorem Res.map_outside {α β : Type} (g : α → β) : (Res.outside : Res α).map g = .outside := rfl
@[simp] theorem Res.map_crash {α β : Type} (g : α → β) : (Res.crash : Res α).map g = .crash := rfl
@[simp] theorem Res.map_oof {α β : Type} (g : α → β) : (Res.outOfFuel : Res α).map g = .outOfFuel := rfl

theorem Res.map_bind {α β γ : Type} (r : Res α) (k : α → Res β) (g : β → γ) :
    (r.bind k).map g = r.bind (fun a => (k a).map g) := by cases r <;> rfl

theorem Res.bind_map {α β γ : Type} (r : Res α) (g : α → β) (k : β → Res γ) :
    (r.map g).bind k = r.bind (fun a => k (g a)) := by cases r <;> rfl

theorem Res.bind_congr {α β : Type} (r : Res α) {k k' : α → Res β} (h : ∀ a, k a = k' a) :
    r.bind k = r.bind k' := by cases r <;> simp [h]

/-- two binds correspond when their first computations and their continuations do -/
theorem Res.bind_map_congr {α α' β β' : Type} {r : Res α} {r' : Res α'} {h : α' → α} {k : α → Res β}
    {k' : α' → Res β'} {g : β' → β} (hr : r = r'.map h) (hk : ∀ a, k (h a) = (k' a).map g) :
    r.bind k = (r'.bind k').map g := by
  subst hr; cases r' <;> simp [Res.map, hk]

theorem Res.map_eq_ok {α β : Type} {g : α → β} {r : Res α} {b : β} :
    r.map g = .ok b ↔ ∃ a, r = .ok a ∧ g a = b := by cases r <;> simp [Res.map]

/-! ## erasing results -/

/-- erase the tree of a `(tree, rest)` result -/
def er (p : PExpr × List Token) : Expr × List Token := (erase p.1, p.2)
def erIC : PInCond → InCond
  | .values _ _ f m => .values (erase f) (erases m)
  | .unnest _ _ e => .unnest (erase e)
def erIS : PIdxSpec → IdxSpec
  | .plain e => .plain (erase e)
  | .kw w e => .kw w.k w.spelled (erase e)

@[simp] theorem er_fst (p : PExpr × List Token) : (er p).1 = erase p.1 := rfl
@[simp] theorem er_snd (p : PExpr × List Token) : (er p).2 = p.2 := rfl
@[simp] theorem er_mk (e : PExpr) (ts : List Token) : er (e, ts) = (erase e, ts) := rfl

@[simp] theorem erase_icmk (n : Bool) (l : PExpr) (c : PInCond) : erase (c.mk n l) = (erIC c).mk n (erase l) := by
  cases c <;> simp [PInCond.mk, InCond.mk, erIC, erase]

@[simp] theorem erase_ismk (rb : Nat) (l : PExpr) (c : PIdxSpec) : erase (c.mk rb l) = (erIS c).mk (erase l) := by
  cases c <;> simp [PIdxSpec.mk, IdxSpec.mk, erIS, erase, PKw.erase]

theorem erase_mkSelP (e : PExpr) (id : PIdent) : erase (mkSelP e id) = mkSel (erase e) id.name := by
  cases e <;> simp [mkSelP, mkSel, erase]

theorem foldSign_erase (pos : Nat) (op : UOp) (e : PExpr) :
    foldSign op (erase e) = (foldSignP pos op e).map erase := by
  unfold foldSign foldSignP
  cases hs : op.sign? with
  | none => simp [erase]
  | some s =>
    cases e with
    | int vp ve sg raw =>
      cases sg with
      | none =>
        simp only [erase]
        cases unsignedRaw? raw with
        | none => rfl
        | some b => cases b <;> simp [erase]
      | some _ => simp [erase]
    | float vp ve sg raw =>
      cases sg with
      | none =>
        simp only [erase]
        cases unsignedRaw? raw with
        | none => rfl
        | some b => cases b <;> simp [erase]
      | some _ => simp [erase]
    | _ => simp [erase]

/-! leaf productions -/

theorem expectThen_erase (k : TK) (ts : List Token) (mk : Token → Expr) (mkP : Token → PExpr)
    (h : ∀ t, erase (mkP t) = mk t) : expectThen k ts mk = (expectThenP k ts mkP).map er := by
  unfold expectThen expectThenP
  split <;> simp [h]

theorem parseNull_erase (ts : List Token) : parseNullLiteral ts = (parsePNullLiteral ts).map er :=
  expectThen_erase _ _ _ _ (fun _ => by simp [erase])
theorem parseBool_erase (ts : List Token) : parseBoolLiteral ts = (parsePBoolLiteral ts).map er := by
  unfold parseBoolLiteral parsePBoolLiteral
  cases hc : cur ts <;> simp only [] <;> first | rfl | simp [erase]
theorem parseInt_erase (ts : List Token) : parseIntLiteral ts = (parsePIntLiteral ts).map er :=
  expectThen_erase _ _ _ _ (fun _ => by simp [erase])
theorem parseFloat_erase (ts : List Token) : parseFloatLiteral ts = (parsePFloatLiteral ts).map er :=
  expectThen_erase _ _ _ _ (fun _ => by simp [erase])
theorem parseString_erase (ts : List Token) : parseStringLiteral ts = (parsePStringLiteral ts).map er :=
  expectThen_erase _ _ _ _ (fun _ => by simp [erase])
theorem parseBytes_erase (ts : List Token) : parseBytesLiteral ts = (parsePBytesLiteral ts).map er :=
  expectThen_erase _ _ _ _ (fun _ => by simp [erase])
theorem parseParam_erase (ts : List Token) : parseParam ts = (parsePParam ts).map er :=
  expectThen_erase _ _ _ _ (fun _ => by simp [erase])

theorem parseIdent_erase (ts : List Token) :
    parseIdent ts = (parsePIdent ts).map (fun p => (p.1.name, p.2)) := by
  unfold parseIdent parsePIdent
  split <;> simp [identOf]

theorem parseLitIdent_erase (ts : List Token) : parseLitIdent ts = (parsePLitIdent ts).map er := by
  unfold parseLitIdent parsePLitIdent
  simp only
  split
  · rfl
  · split
    · rfl
    · split <;> simp [erase, identOf]

theorem parseIsTail_erase (e : PExpr) (ts : List Token) :
    parseIsTail (erase e) ts = (parsePIsTail e ts).map er := by
  unfold parseIsTail parsePIsTail
  simp only
  generalize (if (cur ts == TK.not_) = true then ts.tail else ts) = ts'
  cases cur ts' <;> simp [erase]

theorem castType_erase (f : Nat) (ts : List Token) :
    castType f ts = (castTypeP f ts).map (fun p => (p.1.map (·.name), p.2)) := by
  unfold castType castTypeP
  cases hc : TypeP.cur ts <;> simp only [] <;> try rfl
  by_cases hs : TypeP.lookaheadSimpleType ts = true
  · simp only [hs, if_true]; rfl
  · simp only [hs, Bool.false_eq_true, if_false]
    cases TypeP.parseType f ts with
    | ok a =>
      obtain ⟨ty, rest⟩ := a
      cases ty <;> simp [ofTyIdent, Function.comp_def]
    | raise => rfl
    | outOfFuel => rfl

/-! ## the 28 functions -/

structure EraseAt (f : Nat) : Prop where
  expr : ∀ ts, parseExpr f ts = (parsePExpr f ts).map er
  or_ : ∀ ts, parseOr f ts = (parsePOr f ts).map er
  orLoop : ∀ e ts, orLoop f (erase e) ts = (orLoopP f e ts).map er
  and_ : ∀ ts, parseAnd f ts = (parsePAnd f ts).map er
  andLoop : ∀ e ts, andLoop f (erase e) ts = (andLoopP f e ts).map er
  not_ : ∀ ts, parseNot f ts = (parsePNot f ts).map er
  cmp : ∀ ts, parseComparison f ts = (parsePComparison f ts).map er
  btw : ∀ n e ts, parseBetweenTail f n (erase e) ts = (parsePBetweenTail f n e ts).map er
  inCond : ∀ ts, parseInCondition f ts = (parsePInCondition f ts).map (fun p => (erIC p.1, p.2))
  inList : ∀ ts, inListLoop f ts = (inListLoopP f ts).map (fun p => (erases p.1, p.2))
  bitOr : ∀ ts, parseBitOr f ts = (parsePBitOr f ts).map er
  bitOrLoop : ∀ e ts, bitOrLoop f (erase e) ts = (bitOrLoopP f e ts).map er
  bitXor : ∀ ts, parseBitXor f ts = (parsePBitXor f ts).map er
  bitXorLoop : ∀ e ts, bitXorLoop f (erase e) ts = (bitXorLoopP f e ts).map er
  bitAnd : ∀ ts, parseBitAnd f ts = (parsePBitAnd f ts).map er
  bitAndLoop : ∀ e ts, bitAndLoop f (erase e) ts = (bitAndLoopP f e ts).map er
  shift : ∀ ts, parseBitShift f ts = (parsePBitShift f ts).map er
  shiftLoop : ∀ e ts, shiftLoop f (erase e) ts = (shiftLoopP f e ts).map er
  add : ∀ ts, parseAddSub f ts = (parsePAddSub f ts).map er
  addLoop : ∀ e ts, addLoop f (erase e) ts = (addLoopP f e ts).map er
  mul : ∀ ts, parseMulDiv f ts = (parsePMulDiv f ts).map er
  mulLoop : ∀ e ts, mulLoop f (erase e) ts = (mulLoopP f e ts).map er
  unary : ∀ ts, parseUnary f ts = (parsePUnary f ts).map er
  sel : ∀ ts, parseSelector f ts = (parsePSelector f ts).map er
  selLoop : ∀ e ts, selLoop f (erase e) ts = (selLoopP f e ts).map er
  idx : ∀ ts, parseIndexSpecifier f ts = (parsePIndexSpecifier f ts).map (fun p => (erIS p.1, p.2))
  lit : ∀ ts, parseLit f ts = (parsePLit f ts).map er
  paren : ∀ ts, parseParenExpr f ts = (parsePParenExpr f ts).map er
  caseE : ∀ ts, parseCaseExpr f ts = (parsePCaseExpr f ts).map er
  caseLoop : ∀ ts, caseWhenLoop f ts = (caseWhenLoopP f ts).map (fun p => (eraseW p.1, p.2))
  caseWhen : ∀ ts, parseCaseWhen f ts = (parsePCaseWhen f ts).map (fun p => ((erase p.1.2.1, erase p.1.2.2), p.2))
  caseElse : ∀ ts, parseCaseElse f ts = (parsePCaseElse f ts).map er
  ifE : ∀ ts, parseIfExpr f ts = (parsePIfExpr f ts).map er
  arr : ∀ ts, parseSimpleArrayLiteral f ts = (parsePSimpleArrayLiteral f ts).map er
  cast : ∀ ts, parseCastExpr f ts = (parsePCastExpr f ts).map er

theorem erase_zero : EraseAt 0 := by
  constructor <;> intros <;> rfl

/-- case analysis on a token class that both sides match on; the default branches close by `rfl` -/
macro "tkcases" x:term : tactic => `(tactic| (cases hc : $x <;> simp only [] <;> try rfl))

/-- case analysis on a condition that both sides test -/
macro "ifcases" c:term : tactic => `(tactic| (by_cases hc : $c <;> simp only [hc, ↓reduceIte, Bool.false_eq_true] <;> try rfl))

theorem erase_succ {f : Nat} (ih : EraseAt f) : EraseAt (f + 1) where
  expr := by intro ts; simp only [parseExpr, parsePExpr, ih.or_]
  or_ := by
    intro ts; simp only [parseOr, parsePOr, ih.and_, Res.bind_map, Res.map_bind, er_fst, er_snd, ih.orLoop]
  orLoop := by
    intro e ts; simp only [orLoop, orLoopP]
    tkcases cur ts
    simp only [ih.and_, Res.bind_map, Res.map_bind, er_fst, er_snd]
    apply Res.bind_congr; intro p
    rw [← ih.orLoop]; simp [erase]
  and_ := by
    intro ts; simp only [parseAnd, parsePAnd, ih.not_, Res.bind_map, Res.map_bind, er_fst, er_snd, ih.andLoop]
  andLoop := by
    intro e ts; simp only [andLoop, andLoopP]
    tkcases cur ts
    simp only [ih.not_, Res.bind_map, Res.map_bind, er_fst, er_snd]
    apply Res.bind_congr; intro p
    rw [← ih.andLoop]; simp [erase]
  not_ := by
    intro ts; simp only [parseNot, parsePNot]
    tkcases cur ts
    all_goals first
      | exact ih.cmp ts
      | (simp only [ih.not_, Res.bind_map, Res.map_bind, er_fst, er_snd]
         apply Res.bind_congr; intro p; simp [erase])
  cmp := by
    intro ts; simp only [parseComparison, parsePComparison, ih.bitOr, Res.bind_map, Res.map_bind, er_fst, er_snd]
    apply Res.bind_congr; intro p
    have hbin : ∀ (op : BOp) (tl : List Token),
        ((parsePBitOr f tl).bind fun a => Res.ok (Expr.bin op (erase p.1) (erase a.1), a.2)) =
          Res.map er ((parsePBitOr f tl).bind fun q => .ok (.bin op p.1 q.1, q.2)) := by
      intro op tl
      simp only [Res.map_bind]
      apply Res.bind_congr; intro q; simp [erase]
    have hin : ∀ (n : Bool) (tl : List Token),
        ((parseInCondition f tl).bind fun q => Res.ok (q.1.mk n (erase p.1), q.2)) =
          Res.map er ((parsePInCondition f tl).bind fun q => .ok (q.1.mk n p.1, q.2)) := by
      intro n tl
      simp only [ih.inCond, Res.bind_map, Res.map_bind]
      apply Res.bind_congr; intro q; simp
    cases hc : cur p.2 <;> simp only [cmpOp?] <;> try rfl
    all_goals first
      | exact hbin _ _
      | exact hin _ _
      | exact ih.btw _ _ _
      | exact parseIsTail_erase _ _
      | skip
    -- NOT
    cases hc2 : cur p.2.tail <;> simp only [] <;> try rfl
    all_goals first
      | exact hbin _ _
      | exact hin _ _
      | exact ih.btw _ _ _
  btw := by
    intro n e ts; simp only [parseBetweenTail, parsePBetweenTail, ih.bitOr, Res.bind_map, Res.map_bind, er_fst, er_snd]
    apply Res.bind_congr; intro lo
    ifcases cur lo.2 = .and_
    simp only [Res.map_bind]
    apply Res.bind_congr; intro hi; simp [erase]
  inCond := by
    intro ts; simp only [parseInCondition, parsePInCondition]
    ifcases lookaheadSubQuery ts = true
    tkcases cur ts
    · simp only [ih.expr, ih.inList, Res.bind_map, Res.map_bind, er_fst, er_snd]
      apply Res.bind_congr; intro p
      apply Res.bind_congr; intro q
      ifcases cur q.2 = .rparen
    · ifcases cur ts.tail = .lparen
      simp only [ih.expr, Res.bind_map, Res.map_bind, er_fst, er_snd]
      apply Res.bind_congr; intro p
      ifcases cur p.2 = .rparen
  inList := by
    intro ts; simp only [inListLoop, inListLoopP]
    cases hc : cur ts <;> simp only [] <;> try (simp [erases]; done)
    simp only [ih.expr, ih.inList, Res.bind_map, Res.map_bind, er_fst, er_snd]
    apply Res.bind_congr; intro p
    apply Res.bind_congr; intro q
    simp [erases]
  bitOr := by
    intro ts; simp only [parseBitOr, parsePBitOr, ih.bitXor, Res.bind_map, Res.map_bind, er_fst, er_snd, ih.bitOrLoop]
  bitOrLoop := by
    intro e ts; simp only [bitOrLoop, bitOrLoopP]
    tkcases cur ts
    simp only [ih.bitXor, Res.bind_map, Res.map_bind, er_fst, er_snd]
    apply Res.bind_congr; intro p
    rw [← ih.bitOrLoop]; simp [erase]
  bitXor := by
    intro ts; simp only [parseBitXor, parsePBitXor, ih.bitAnd, Res.bind_map, Res.map_bind, er_fst, er_snd, ih.bitXorLoop]
  bitXorLoop := by
    intro e ts; simp only [bitXorLoop, bitXorLoopP]
    tkcases cur ts
    simp only [ih.bitAnd, Res.bind_map, Res.map_bind, er_fst, er_snd]
    apply Res.bind_congr; intro p
    rw [← ih.bitXorLoop]; simp [erase]
  bitAnd := by
    intro ts; simp only [parseBitAnd, parsePBitAnd, ih.shift, Res.bind_map, Res.map_bind, er_fst, er_snd, ih.bitAndLoop]
  bitAndLoop := by
    intro e ts; simp only [bitAndLoop, bitAndLoopP]
    tkcases cur ts
    simp only [ih.shift, Res.bind_map, Res.map_bind, er_fst, er_snd]
    apply Res.bind_congr; intro p
    rw [← ih.bitAndLoop]; simp [erase]
  shift := by
    intro ts; simp only [parseBitShift, parsePBitShift, ih.add, Res.bind_map, Res.map_bind, er_fst, er_snd, ih.shiftLoop]
  shiftLoop := by
    intro e ts; simp only [shiftLoop, shiftLoopP]
    cases hc : shiftOp? (cur ts) <;> simp only [] <;> try rfl
    simp only [ih.add, Res.bind_map, Res.map_bind, er_fst, er_snd]
    apply Res.bind_congr; intro p
    rw [← ih.shiftLoop]; simp [erase]
  add := by
    intro ts; simp only [parseAddSub, parsePAddSub, ih.mul, Res.bind_map, Res.map_bind, er_fst, er_snd, ih.addLoop]
  addLoop := by
    intro e ts; simp only [addLoop, addLoopP]
    cases hc : addOp? (cur ts) <;> simp only [] <;> try rfl
    simp only [ih.mul, Res.bind_map, Res.map_bind, er_fst, er_snd]
    apply Res.bind_congr; intro p
    rw [← ih.addLoop]; simp [erase]
  mul := by
    intro ts; simp only [parseMulDiv, parsePMulDiv, ih.unary, Res.bind_map, Res.map_bind, er_fst, er_snd, ih.mulLoop]
  mulLoop := by
    intro e ts; simp only [mulLoop, mulLoopP]
    cases hc : mulOp? (cur ts) <;> simp only [] <;> try rfl
    simp only [ih.unary, Res.bind_map, Res.map_bind, er_fst, er_snd]
    apply Res.bind_congr; intro p
    rw [← ih.mulLoop]; simp [erase]
  unary := by
    intro ts; simp only [parseUnary, parsePUnary]
    cases hc : unOp? (cur ts) <;> simp only []
    · exact ih.sel ts
    · simp only [ih.unary, Res.bind_map, Res.map_bind, er_fst, er_snd]
      apply Res.bind_congr; intro p
      rw [foldSign_erase (hd ts).pos, Res.bind_map]
      apply Res.bind_congr; intro e; simp
  sel := by
    intro ts; simp only [parseSelector, parsePSelector, ih.lit, Res.bind_map, Res.map_bind, er_fst, er_snd, ih.selLoop]
  selLoop := by
    intro e ts; simp only [selLoop, selLoopP]
    tkcases cur ts
    · simp only [ih.idx, Res.bind_map, Res.map_bind]
      apply Res.bind_congr; intro p
      ifcases cur p.2 = .rbrack
      rw [← ih.selLoop, erase_ismk]
    · ifcases cur ts.tail = .star
      simp only [parseIdent_erase, Res.bind_map, Res.map_bind]
      apply Res.bind_congr; intro p
      rw [← ih.selLoop, erase_mkSelP]
  idx := by
    intro ts; simp only [parseIndexSpecifier, parsePIndexSpecifier]
    cases hc : posKw? ts <;> simp only []
    · simp only [ih.expr, Res.bind_map, Res.map_bind, er_fst, er_snd]
      apply Res.bind_congr; intro p; simp [erIS]
    · by_cases hc2 : cur ts.tail = .lparen
      · simp only [hc2, ↓reduceIte, ih.expr, Res.bind_map, Res.map_bind, er_fst, er_snd]
        apply Res.bind_congr; intro p
        ifcases cur p.2 = .rparen
      · simp only [hc2, ↓reduceIte, ih.expr, Res.bind_map, Res.map_bind, er_fst, er_snd]
        apply Res.bind_congr; intro p; simp [erIS]
  lit := by
    intro ts; simp only [parseLit, parsePLit]
    tkcases cur ts
    all_goals first
      | exact parseNull_erase ts
      | exact parseBool_erase ts
      | exact parseInt_erase ts
      | exact parseFloat_erase ts
      | exact parseString_erase ts
      | exact parseBytes_erase ts
      | exact parseParam_erase ts
      | exact ih.paren ts
      | exact ih.caseE ts
      | exact ih.ifE ts
      | exact ih.arr ts
      | exact ih.cast ts
      | exact parseLitIdent_erase ts
  paren := by
    intro ts; simp only [parseParenExpr, parsePParenExpr]
    ifcases lookaheadSubQuery ts = true
    simp only [ih.expr, Res.bind_map, Res.map_bind, er_fst, er_snd]
    apply Res.bind_congr; intro p
    cases hc : cur p.2 <;> simp [erase]
  caseE := by
    intro ts; simp only [parseCaseExpr, parsePCaseExpr]
    ifcases cur ts = .case_
    refine Res.bind_map_congr (h := fun p => (eraseO p.1, p.2)) ?_ fun o => ?_
    · ifcases cur ts.tail = .when_
      exact Res.bind_map_congr (ih.expr _) fun p => rfl
    · refine Res.bind_map_congr (ih.caseWhen _) fun w => ?_
      refine Res.bind_map_congr (ih.caseLoop _) fun ws => ?_
      refine Res.bind_map_congr (h := fun p => (eraseO p.1, p.2)) ?_ fun el => ?_
      · dsimp only
        ifcases cur ws.2 = .else_
        exact Res.bind_map_congr (ih.caseElse _) fun p => rfl
      · dsimp only
        ifcases cur el.2 = .end_
  caseLoop := by
    intro ts; simp only [caseWhenLoop, caseWhenLoopP]
    cases hc : cur ts <;> simp only [] <;> try rfl
    refine Res.bind_map_congr (ih.caseWhen _) fun w => ?_
    exact Res.bind_map_congr (ih.caseLoop _) fun q => rfl
  caseWhen := by
    intro ts; simp only [parseCaseWhen, parsePCaseWhen]
    ifcases cur ts = .when_
    refine Res.bind_map_congr (ih.expr _) fun c => ?_
    dsimp only [er_snd]
    ifcases cur c.2 = .then_
    exact Res.bind_map_congr (ih.expr _) fun t => rfl
  caseElse := by
    intro ts; simp only [parseCaseElse, parsePCaseElse]
    ifcases cur ts = .else_
    exact ih.expr _
  ifE := by
    intro ts; simp only [parseIfExpr, parsePIfExpr]
    ifcases cur ts = .if_
    ifcases cur ts.tail = .lparen
    refine Res.bind_map_congr (ih.expr _) fun c => ?_
    dsimp only [er_snd]
    ifcases cur c.2 = .comma
    refine Res.bind_map_congr (ih.expr _) fun t => ?_
    dsimp only [er_snd]
    ifcases cur t.2 = .comma
    refine Res.bind_map_congr (ih.expr _) fun e => ?_
    dsimp only [er_snd]
    ifcases cur e.2 = .rparen
  cast := by
    intro ts; simp only [parseCastExpr, parsePCastExpr]
    ifcases cur ts = .cast
    ifcases cur ts.tail = .lparen
    refine Res.bind_map_congr (ih.expr _) fun p => ?_
    dsimp only [er_snd]
    ifcases cur p.2 = .as_
    refine Res.bind_map_congr (castType_erase _ _) fun t => ?_
    dsimp only
    ifcases cur t.2 = .rparen
  arr := by
    intro ts; simp only [parseSimpleArrayLiteral, parsePSimpleArrayLiteral]
    ifcases cur ts = .lbrack
    ifcases cur ts.tail = .rbrack
    refine Res.bind_map_congr (ih.expr _) fun p => ?_
    refine Res.bind_map_congr (ih.inList _) fun q => ?_
    dsimp only [er_snd]
    ifcases cur q.2 = .rbrack

theorem erase_all : ∀ f, EraseAt f
  | 0 => erase_zero
  | f + 1 => erase_succ (erase_all f)

/-- **Erasure.**  Whatever the positioned parser answers, the proved parser of Task F answers the same with the
positions erased (all five kinds of result). -/
theorem parseExpr_eq_erase (fuel : Nat) (ts : List Token) :
    parseExpr fuel ts = (parsePExpr fuel ts).map er := (erase_all fuel).expr ts

theorem parseExprTop_eq_erase (fuel : Nat) (ts : List Token) :
    parseExprTop fuel ts = (parsePTop fuel ts).map erase := by
  unfold parseExprTop parsePTop
  rw [parseExpr_eq_erase, Res.bind_map, Res.map_bind]
  apply Res.bind_congr; intro p
  simp only [er_snd, er_fst]
  ifcases cur p.2 = .eof

theorem erase_parse {fuel : Nat} {ts : List Token} {r : PPR} (h : parsePExpr fuel ts = r) :
    parseExpr fuel ts = r.map er := h ▸ parseExpr_eq_erase fuel ts

theorem erase_parseTop {fuel : Nat} {ts : List Token} {r : Res PExpr} (h : parsePTop fuel ts = r) :
    parseExprTop fuel ts = r.map erase := h ▸ parseExprTop_eq_erase fuel ts

end MF.Expr
