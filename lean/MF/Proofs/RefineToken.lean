import MF.Proofs.RefineNumber
import MF.Proofs.RefineQuoted
namespace MF.Refine
open MF MF.Lex MF.Spec.Lexical
set_option linter.unusedSimpArgs false

/-! ### one token: `consumeToken` / `consumeFieldToken` against the reference `token` -/

theorem isNextDotIdent_eq (lk : TokKind) : isNextDotIdent lk = dotEnables lk := by
  cases lk <;> simp [isNextDotIdent, dotEnables]
  rw [Bool.eq_iff_iff]; simp

abbrev NS (c : UInt8) : Prop :=
  (c == 46) = false ∧ isDigit c = false ∧ (c == 96) = false ∧ (c == 64) = false ∧ isIdentChar c = false ∧
  (c == 34 || c == 39) = false ∧ (c == 82 || c == 114) = false ∧ (c == 66 || c == 98) = false


theorem classify_single : ∀ c : UInt8, classify c = .single → c ∈ singles ∧ NS c := by
  apply UInt8.forall_of_fin; decide +kernel

theorem classify_conc : ∀ c : UInt8,
    (classify c = .dot → c = 46) ∧ (classify c = .lt → c = 60) ∧ (classify c = .gt → c = 62) ∧
    (classify c = .plus → c = 43) ∧ (classify c = .minus → c = 45) ∧ (classify c = .eq → c = 61) ∧
    (classify c = .bar → c = 124) ∧ (classify c = .bang → c = 33) ∧ (classify c = .at → c = 64) ∧
    (classify c = .bquote → c = 96) := by
  apply UInt8.forall_of_fin; decide +kernel

theorem classify_digit' : ∀ c : UInt8,
    classify c = .digit → isDigit c = true ∧ (c == 46) = false ∧ isIdentChar c = true := by
  apply UInt8.forall_of_fin; decide +kernel

theorem classify_str : ∀ c : UInt8,
    classify c = .strStart → (c == 46) = false ∧ isDigit c = false ∧ (c == 96) = false ∧ (c == 64) = false ∧
        ((c == 34 || c == 39) = true ∨ isLetter c = true) := by
  apply UInt8.forall_of_fin; decide +kernel

theorem classify_other : ∀ c : UInt8,
    classify c = .other → (c == 46) = false ∧ isDigit c = false ∧ (c == 96) = false ∧ (c == 64) = false ∧
        (c == 34 || c == 39) = false ∧ (c == 82 || c == 114) = false ∧ (c == 66 || c == 98) = false ∧
        (isLetter c = false → ∀ p ∈ puncts, p.head? ≠ some c) := by
  apply UInt8.forall_of_fin; decide +kernel

theorem NS_punct : ∀ c : UInt8, c = 60 ∨ c = 62 ∨ c = 43 ∨ c = 45 ∨ c = 61 ∨ c = 124 ∨ c = 33 → NS c := by
  apply UInt8.forall_of_fin; decide +kernel

theorem literalPrefix_none_of_first {c : UInt8} {t : Bytes} (h1 : (c == 34 || c == 39) = false)
    (h2 : (c == 82 || c == 114) = false) (h3 : (c == 66 || c == 98) = false) : literalPrefix (c :: t) = none := by
  match t with
  | [] => simp [literalPrefix, h1]
  | [b] => simp [literalPrefix, h1, h2, h3]
  | b :: d :: u => simp [literalPrefix, h1, h2, h3]

theorem K_sym (s : String) : K s = .sym (B s) := rfl

theorem punctLen_single {c : UInt8} (t : Bytes) (h : c ∈ singles) : punctLen (c :: t) = some [c] := by
  simp only [singles, List.mem_cons, List.not_mem_nil, or_false] at h
  rcases h with rfl | rfl | rfl | rfl | rfl | rfl | rfl | rfl | rfl | rfl | rfl | rfl | rfl | rfl | rfl | rfl | rfl | rfl <;>
    simp [punctLen, puncts, startsWith]

/-- for a first byte that starts no other token class, the reference lexer's answer is the punctuation table's -/
theorem token_punct {c : UInt8} (t : Bytes) (lk : TokKind) (h : NS c) :
    token (c :: t) lk false =
      (punctLen (c :: t)).map (fun p => ({ kind := .sym p, len := p.length } : STok)) := by
  obtain ⟨h1, h2, h3, h4, h5, h6, h7, h8⟩ := h
  have hl : isLetter c = false := by
    unfold isIdentChar at h5
    simp only [Bool.or_eq_false_iff] at h5
    exact h5.1
  unfold token
  simp only [Bool.false_and, Bool.false_eq_true, if_false, h1, h2, h3, h4, literalPrefix_none_of_first h6 h7 h8, hl]
  cases punctLen (c :: t) <;> rfl

set_option linter.unusedSimpArgs false

/-- agreement of a model scan result with a reference token (`lk` = kind of the previous token) -/
def TokRel (lk : TokKind) (r : Res Scan) (o : Option STok) : Prop :=
  match r, o with
  | .ok sc, some t => sc.kind = t.kind ∧ sc.len = t.len ∧ sc.asString = t.value ∧ sc.base = t.base ∧
      sc.dot = (t.kind == .sym [46] && dotEnables lk)
  | .err _, none => True
  | _, _ => False

theorem K_vals :
    K "<<" = .sym [60, 60] ∧ K "<=" = .sym [60, 61] ∧ K "<>" = .sym [60, 62] ∧ K "<" = .sym [60] ∧
    K ">>" = .sym [62, 62] ∧ K ">=" = .sym [62, 61] ∧ K ">" = .sym [62] ∧ K "+=" = .sym [43, 61] ∧ K "+" = .sym [43] ∧
    K "-=" = .sym [45, 61] ∧ K "->" = .sym [45, 62] ∧ K "-" = .sym [45] ∧ K "=>" = .sym [61, 62] ∧ K "=" = .sym [61] ∧
    K "|>" = .sym [124, 62] ∧ K "||" = .sym [124, 124] ∧ K "|" = .sym [124] ∧ K "!=" = .sym [33, 61] ∧ K "!" = .sym [33] ∧
    K "@@" = .sym [64, 64] ∧ K "@" = .sym [64] ∧ K "." = .sym [46] := by decide

theorem single_refines {c : UInt8} (t : Bytes) (p0 : Nat) (lk : TokKind) (hc : classify c = .single) :
    TokRel lk (consumeToken (c :: t) p0 lk false) (token (c :: t) lk false) := by
  obtain ⟨hm, hns⟩ := classify_single c hc
  rw [token_punct t lk hns, punctLen_single t hm]
  simp only [consumeToken, hc, Option.map_some, TokRel]
  refine ⟨by trivial, by trivial, by trivial, by trivial, ?_⟩
  have : (c == 46) = false := hns.1
  have h2 : (TokKind.sym [c] == TokKind.sym [46]) = false := by
    rw [Bool.eq_false_iff]; intro h
    have : c = 46 := by simpa using h
    simp [this] at *
  simp [h2]

theorem lt_refines (t : Bytes) (p0 : Nat) (lk : TokKind) :
    TokRel lk (consumeToken (60 :: t) p0 lk false) (token (60 :: t) lk false) := by
  rw [token_punct t lk (NS_punct 60 (by simp))]
  have hcl : classify 60 = .lt := by decide
  obtain ⟨k1, k2, k3, k4, k5, k6, k7, k8, k9, k10, k11, k12, k13, k14, k15, k16, k17, k18, k19, k20, k21, k22⟩ := K_vals
  simp only [consumeToken, hcl]
  cases t with
  | nil => simp [peekIs, tok1, tok2, k1, k2, k3, k4, k5, k6, k7, k8, k9, k10, k11, k12, k13, k14, k15, k16, k17, k18, k19, k20, k21, k22, punctLen, puncts, startsWith, TokRel]
  | cons d u =>
    have hd : d = 60 ∨ d = 61 ∨ d = 62 ∨ (d ≠ 60 ∧ d ≠ 61 ∧ d ≠ 62) := by
      by_cases h0 : d = 60 <;> by_cases h1 : d = 61 <;> by_cases h2 : d = 62 <;> simp [h0, h1, h2]
    rcases hd with rfl | rfl | rfl | ⟨h0, h1, h2⟩
    · simp [peekIs, tok1, tok2, k1, k2, k3, k4, k5, k6, k7, k8, k9, k10, k11, k12, k13, k14, k15, k16, k17, k18, k19, k20, k21, k22, punctLen, puncts, startsWith, TokRel]
    · simp [peekIs, tok1, tok2, k1, k2, k3, k4, k5, k6, k7, k8, k9, k10, k11, k12, k13, k14, k15, k16, k17, k18, k19, k20, k21, k22, punctLen, puncts, startsWith, TokRel]
    · simp [peekIs, tok1, tok2, k1, k2, k3, k4, k5, k6, k7, k8, k9, k10, k11, k12, k13, k14, k15, k16, k17, k18, k19, k20, k21, k22, punctLen, puncts, startsWith, TokRel]
    · simp [peekIs, tok1, tok2, k1, k2, k3, k4, k5, k6, k7, k8, k9, k10, k11, k12, k13, k14, k15, k16, k17, k18, k19, k20, k21, k22, punctLen, puncts, startsWith, TokRel, h0, h1, h2]

theorem gt_refines (t : Bytes) (p0 : Nat) (lk : TokKind) :
    TokRel lk (consumeToken (62 :: t) p0 lk false) (token (62 :: t) lk false) := by
  rw [token_punct t lk (NS_punct 62 (by simp))]
  have hcl : classify 62 = .gt := by decide
  obtain ⟨k1, k2, k3, k4, k5, k6, k7, k8, k9, k10, k11, k12, k13, k14, k15, k16, k17, k18, k19, k20, k21, k22⟩ := K_vals
  simp only [consumeToken, hcl]
  cases t with
  | nil => simp [peekIs, tok1, tok2, k1, k2, k3, k4, k5, k6, k7, k8, k9, k10, k11, k12, k13, k14, k15, k16, k17, k18, k19, k20, k21, k22, punctLen, puncts, startsWith, TokRel]
  | cons d u =>
    have hd : d = 62 ∨ d = 61 ∨ (d ≠ 62 ∧ d ≠ 61) := by
      by_cases h0 : d = 62 <;> by_cases h1 : d = 61 <;> simp [h0, h1]
    rcases hd with rfl | rfl | ⟨h0, h1⟩
    · simp [peekIs, tok1, tok2, k1, k2, k3, k4, k5, k6, k7, k8, k9, k10, k11, k12, k13, k14, k15, k16, k17, k18, k19, k20, k21, k22, punctLen, puncts, startsWith, TokRel]
    · simp [peekIs, tok1, tok2, k1, k2, k3, k4, k5, k6, k7, k8, k9, k10, k11, k12, k13, k14, k15, k16, k17, k18, k19, k20, k21, k22, punctLen, puncts, startsWith, TokRel]
    · simp [peekIs, tok1, tok2, k1, k2, k3, k4, k5, k6, k7, k8, k9, k10, k11, k12, k13, k14, k15, k16, k17, k18, k19, k20, k21, k22, punctLen, puncts, startsWith, TokRel, h0, h1]

theorem plus_refines (t : Bytes) (p0 : Nat) (lk : TokKind) :
    TokRel lk (consumeToken (43 :: t) p0 lk false) (token (43 :: t) lk false) := by
  rw [token_punct t lk (NS_punct 43 (by simp))]
  have hcl : classify 43 = .plus := by decide
  obtain ⟨k1, k2, k3, k4, k5, k6, k7, k8, k9, k10, k11, k12, k13, k14, k15, k16, k17, k18, k19, k20, k21, k22⟩ := K_vals
  simp only [consumeToken, hcl]
  cases t with
  | nil => simp [peekIs, tok1, tok2, k1, k2, k3, k4, k5, k6, k7, k8, k9, k10, k11, k12, k13, k14, k15, k16, k17, k18, k19, k20, k21, k22, punctLen, puncts, startsWith, TokRel]
  | cons d u =>
    have hd : d = 61 ∨ (d ≠ 61) := by
      by_cases h0 : d = 61 <;> simp [h0]
    rcases hd with rfl | ⟨h0⟩
    · simp [peekIs, tok1, tok2, k1, k2, k3, k4, k5, k6, k7, k8, k9, k10, k11, k12, k13, k14, k15, k16, k17, k18, k19, k20, k21, k22, punctLen, puncts, startsWith, TokRel]
    · simp [peekIs, tok1, tok2, k1, k2, k3, k4, k5, k6, k7, k8, k9, k10, k11, k12, k13, k14, k15, k16, k17, k18, k19, k20, k21, k22, punctLen, puncts, startsWith, TokRel, h0]

theorem minus_refines (t : Bytes) (p0 : Nat) (lk : TokKind) :
    TokRel lk (consumeToken (45 :: t) p0 lk false) (token (45 :: t) lk false) := by
  rw [token_punct t lk (NS_punct 45 (by simp))]
  have hcl : classify 45 = .minus := by decide
  obtain ⟨k1, k2, k3, k4, k5, k6, k7, k8, k9, k10, k11, k12, k13, k14, k15, k16, k17, k18, k19, k20, k21, k22⟩ := K_vals
  simp only [consumeToken, hcl]
  cases t with
  | nil => simp [peekIs, tok1, tok2, k1, k2, k3, k4, k5, k6, k7, k8, k9, k10, k11, k12, k13, k14, k15, k16, k17, k18, k19, k20, k21, k22, punctLen, puncts, startsWith, TokRel]
  | cons d u =>
    have hd : d = 61 ∨ d = 62 ∨ (d ≠ 61 ∧ d ≠ 62) := by
      by_cases h0 : d = 61 <;> by_cases h1 : d = 62 <;> simp [h0, h1]
    rcases hd with rfl | rfl | ⟨h0, h1⟩
    · simp [peekIs, tok1, tok2, k1, k2, k3, k4, k5, k6, k7, k8, k9, k10, k11, k12, k13, k14, k15, k16, k17, k18, k19, k20, k21, k22, punctLen, puncts, startsWith, TokRel]
    · simp [peekIs, tok1, tok2, k1, k2, k3, k4, k5, k6, k7, k8, k9, k10, k11, k12, k13, k14, k15, k16, k17, k18, k19, k20, k21, k22, punctLen, puncts, startsWith, TokRel]
    · simp [peekIs, tok1, tok2, k1, k2, k3, k4, k5, k6, k7, k8, k9, k10, k11, k12, k13, k14, k15, k16, k17, k18, k19, k20, k21, k22, punctLen, puncts, startsWith, TokRel, h0, h1]

theorem eq_refines (t : Bytes) (p0 : Nat) (lk : TokKind) :
    TokRel lk (consumeToken (61 :: t) p0 lk false) (token (61 :: t) lk false) := by
  rw [token_punct t lk (NS_punct 61 (by simp))]
  have hcl : classify 61 = .eq := by decide
  obtain ⟨k1, k2, k3, k4, k5, k6, k7, k8, k9, k10, k11, k12, k13, k14, k15, k16, k17, k18, k19, k20, k21, k22⟩ := K_vals
  simp only [consumeToken, hcl]
  cases t with
  | nil => simp [peekIs, tok1, tok2, k1, k2, k3, k4, k5, k6, k7, k8, k9, k10, k11, k12, k13, k14, k15, k16, k17, k18, k19, k20, k21, k22, punctLen, puncts, startsWith, TokRel]
  | cons d u =>
    have hd : d = 62 ∨ (d ≠ 62) := by
      by_cases h0 : d = 62 <;> simp [h0]
    rcases hd with rfl | ⟨h0⟩
    · simp [peekIs, tok1, tok2, k1, k2, k3, k4, k5, k6, k7, k8, k9, k10, k11, k12, k13, k14, k15, k16, k17, k18, k19, k20, k21, k22, punctLen, puncts, startsWith, TokRel]
    · simp [peekIs, tok1, tok2, k1, k2, k3, k4, k5, k6, k7, k8, k9, k10, k11, k12, k13, k14, k15, k16, k17, k18, k19, k20, k21, k22, punctLen, puncts, startsWith, TokRel, h0]

theorem bar_refines (t : Bytes) (p0 : Nat) (lk : TokKind) :
    TokRel lk (consumeToken (124 :: t) p0 lk false) (token (124 :: t) lk false) := by
  rw [token_punct t lk (NS_punct 124 (by simp))]
  have hcl : classify 124 = .bar := by decide
  obtain ⟨k1, k2, k3, k4, k5, k6, k7, k8, k9, k10, k11, k12, k13, k14, k15, k16, k17, k18, k19, k20, k21, k22⟩ := K_vals
  simp only [consumeToken, hcl]
  cases t with
  | nil => simp [peekIs, tok1, tok2, k1, k2, k3, k4, k5, k6, k7, k8, k9, k10, k11, k12, k13, k14, k15, k16, k17, k18, k19, k20, k21, k22, punctLen, puncts, startsWith, TokRel]
  | cons d u =>
    have hd : d = 62 ∨ d = 124 ∨ (d ≠ 62 ∧ d ≠ 124) := by
      by_cases h0 : d = 62 <;> by_cases h1 : d = 124 <;> simp [h0, h1]
    rcases hd with rfl | rfl | ⟨h0, h1⟩
    · simp [peekIs, tok1, tok2, k1, k2, k3, k4, k5, k6, k7, k8, k9, k10, k11, k12, k13, k14, k15, k16, k17, k18, k19, k20, k21, k22, punctLen, puncts, startsWith, TokRel]
    · simp [peekIs, tok1, tok2, k1, k2, k3, k4, k5, k6, k7, k8, k9, k10, k11, k12, k13, k14, k15, k16, k17, k18, k19, k20, k21, k22, punctLen, puncts, startsWith, TokRel]
    · simp [peekIs, tok1, tok2, k1, k2, k3, k4, k5, k6, k7, k8, k9, k10, k11, k12, k13, k14, k15, k16, k17, k18, k19, k20, k21, k22, punctLen, puncts, startsWith, TokRel, h0, h1]

theorem bang_refines (t : Bytes) (p0 : Nat) (lk : TokKind) :
    TokRel lk (consumeToken (33 :: t) p0 lk false) (token (33 :: t) lk false) := by
  rw [token_punct t lk (NS_punct 33 (by simp))]
  have hcl : classify 33 = .bang := by decide
  obtain ⟨k1, k2, k3, k4, k5, k6, k7, k8, k9, k10, k11, k12, k13, k14, k15, k16, k17, k18, k19, k20, k21, k22⟩ := K_vals
  simp only [consumeToken, hcl]
  cases t with
  | nil => simp [peekIs, tok1, tok2, k1, k2, k3, k4, k5, k6, k7, k8, k9, k10, k11, k12, k13, k14, k15, k16, k17, k18, k19, k20, k21, k22, punctLen, puncts, startsWith, TokRel]
  | cons d u =>
    have hd : d = 61 ∨ (d ≠ 61) := by
      by_cases h0 : d = 61 <;> simp [h0]
    rcases hd with rfl | ⟨h0⟩
    · simp [peekIs, tok1, tok2, k1, k2, k3, k4, k5, k6, k7, k8, k9, k10, k11, k12, k13, k14, k15, k16, k17, k18, k19, k20, k21, k22, punctLen, puncts, startsWith, TokRel]
    · simp [peekIs, tok1, tok2, k1, k2, k3, k4, k5, k6, k7, k8, k9, k10, k11, k12, k13, k14, k15, k16, k17, k18, k19, k20, k21, k22, punctLen, puncts, startsWith, TokRel, h0]

set_option linter.unusedSimpArgs false

theorem reserved_not_dot {w : Bytes} (h : reserved.contains w = true) : (TokKind.sym w == TokKind.sym [46]) = false := by
  rw [Bool.eq_false_iff]; intro h2
  have : w = [46] := by simpa using h2
  subst this
  have : reserved.contains [46] = false := by decide +kernel
  rw [this] at h; cases h

/-- identifiers and keywords -/
theorem ident_refines {c : UInt8} (t : Bytes) (lk : TokKind) :
    TokRel lk (.ok (identTok (c :: t)))
      (let n := run isIdentChar (c :: t)
       let w := ((c :: t).take n).map upper
       if reserved.contains w then some { kind := .sym w, len := n }
       else some { kind := .ident, len := n, value := (c :: t).take n }) := by
  unfold identTok
  simp only [spanLen_eq_run, isIdentPart_eq, toUpper_eq]
  by_cases hr : reserved.contains (((c :: t).take (run isIdentChar (c :: t))).map upper) = true
  · simp only [hr, if_true, TokRel]
    refine ⟨by trivial, by trivial, by trivial, by trivial, ?_⟩
    rw [reserved_not_dot hr]; rfl
  · simp only [hr, if_false, TokRel]
    refine ⟨by trivial, by trivial, by trivial, by trivial, ?_⟩
    simp

set_option linter.unusedSimpArgs false

theorem puncts_ne_nil : ∀ p ∈ puncts, p ≠ [] := by decide

theorem punctLen_none {c : UInt8} (t : Bytes) (h : ∀ p ∈ puncts, p.head? ≠ some c) : punctLen (c :: t) = none := by
  unfold punctLen
  rw [List.find?_eq_none]
  intro p hp hs
  cases p with
  | nil => exact puncts_ne_nil [] hp rfl
  | cons a p' =>
    apply h _ hp
    simp only [startsWith, List.length_cons, List.take_succ_cons, beq_iff_eq, List.cons.injEq] at hs
    simp [hs.1]

theorem fallback_refines {c : UInt8} (t : Bytes) (p0 : Nat) (lk : TokKind)
    (h1 : (c == 46) = false) (h2 : isDigit c = false) (h3 : (c == 96) = false) (h4 : (c == 64) = false)
    (h5 : literalPrefix (c :: t) = none) (h6 : isLetter c = false → punctLen (c :: t) = none) :
    TokRel lk (fallbackTok (c :: t) c p0 false) (token (c :: t) lk false) := by
  unfold token fallbackTok
  simp only [Bool.false_and, Bool.false_eq_true, if_false, h1, h2, h3, h4, h5, isIdentStart_eq]
  by_cases hl : isLetter c = true
  · simp only [hl, if_true]
    exact ident_refines t lk
  · have hl' := Bool.eq_false_iff.2 hl
    simp only [hl', Bool.false_eq_true, if_false, h6 hl']
    trivial

set_option linter.unusedSimpArgs false

theorem at_refines (t : Bytes) (p0 : Nat) (lk : TokKind) :
    TokRel lk (consumeToken (64 :: t) p0 lk false) (token (64 :: t) lk false) := by
  have hcl : classify 64 = .at := by decide
  obtain ⟨k1, k2, k3, k4, k5, k6, k7, k8, k9, k10, k11, k12, k13, k14, k15, k16, k17, k18, k19, k20, k21, k22⟩ := K_vals
  have e1 : ((64 : UInt8) == 46) = false := by decide
  have e2 : isDigit 64 = false := by decide
  have e3 : ((64 : UInt8) == 96) = false := by decide
  unfold token
  simp only [consumeToken, hcl, Bool.false_and, Bool.false_eq_true, if_false, e1, e2, e3, beq_self_eq_true, if_true]
  cases t with
  | nil => simp [peekIs, peekSat, tok1, k21, TokRel]
  | cons d u =>
    by_cases h1 : d = 64
    · subst h1; simp [peekIs, tok2, k20, TokRel]
    · by_cases h2 : isLetter d = true
      · simp [peekIs, peekSat, h1, isIdentStart_eq, h2, paramTok, TokRel, spanLen_eq_run, isIdentPart_eq, slice]
        omega
      · simp [peekIs, peekSat, h1, isIdentStart_eq, h2, tok1, k21, TokRel]

set_option linter.unusedSimpArgs false

theorem numScan_rel (lk : TokKind) (k : NumKind) (n : Nat) :
    TokRel lk (.ok (numScan k n))
      (some { kind := if k == .float then .float else .int, len := n,
              base := if k == .int16 then 16 else if k == .int10 then 10 else 0 }) := by
  simp only [TokRel, numScan]
  refine ⟨by trivial, by trivial, by trivial, by trivial, ?_⟩
  cases k <;> simp

theorem digit_refines {c : UInt8} (t : Bytes) (p0 : Nat) (lk : TokKind) (hc : classify c = .digit) :
    TokRel lk (consumeToken (c :: t) p0 lk false) (token (c :: t) lk false) := by
  obtain ⟨hd, h46, _⟩ := classify_digit' c hc
  obtain ⟨k, n, hn, hdisj⟩ := consumeNumber_refines (c :: t) p0 (Or.inl ⟨c, t, rfl, hd⟩)
  unfold token
  simp only [consumeToken, hc, Bool.false_and, Bool.false_eq_true, if_false, h46, hd, if_true, hn]
  rcases hdisj with ⟨x, u, hdr, hx, e, he⟩ | ⟨hall, hok⟩
  · rw [he]
    simp only [hdr, hx, if_true]
    trivial
  · rw [hok]
    cases hdr : (c :: t).drop n with
    | nil => simp only [Bool.false_eq_true, if_false]; exact numScan_rel lk k n
    | cons x u =>
      simp only [hall x u hdr, Bool.false_eq_true, if_false]; exact numScan_rel lk k n

set_option linter.unusedSimpArgs false

theorem dot_refines (t : Bytes) (p0 : Nat) (lk : TokKind) :
    TokRel lk (consumeToken (46 :: t) p0 lk false) (token (46 :: t) lk false) := by
  have hcl : classify 46 = .dot := by decide
  obtain ⟨k1, k2, k3, k4, k5, k6, k7, k8, k9, k10, k11, k12, k13, k14, k15, k16, k17, k18, k19, k20, k21, k22⟩ := K_vals
  unfold token
  simp only [consumeToken, hcl, Bool.false_and, Bool.false_eq_true, if_false, beq_self_eq_true, if_true,
    isNextDotIdent_eq]
  have hdot : ∀ b : Bool, TokRel lk (.ok { kind := K ".", len := 1, dot := dotEnables lk })
      (some { kind := .sym [46], len := 1 }) := by
    intro _
    simp [TokRel, k22]
  cases t with
  | nil =>
    simp only [peekSat, List.getElem?_cons_succ, List.getElem?_nil, Bool.and_false, Bool.false_eq_true, if_false]
    exact hdot true
  | cons d u =>
    simp only [peekSat, List.getElem?_cons_succ, List.getElem?_cons_zero, isDigit_eq]
    by_cases hc : (!dotEnables lk && isDigit d) = true
    · simp only [hc, if_true]
      have hd : isDigit d = true := by simp only [Bool.and_eq_true] at hc; exact hc.2
      obtain ⟨k, n, hn, hdisj⟩ := consumeNumber_refines (46 :: d :: u) p0 (Or.inr ⟨d, u, rfl, hd⟩)
      simp only [hn]
      rcases hdisj with ⟨x, u', hdr, hx, e, he⟩ | ⟨hall, hok⟩
      · rw [he]
        simp only [hdr, hx, if_true]
        trivial
      · rw [hok]
        cases hdr : (46 :: d :: u).drop n with
        | nil => simp only [Bool.false_eq_true, if_false]; exact numScan_rel lk k n
        | cons x u' =>
          simp only [hall x u' hdr, Bool.false_eq_true, if_false]; exact numScan_rel lk k n
    · simp only [hc, if_false]
      exact hdot true

set_option linter.unusedSimpArgs false

theorem bquote_tok_refines (t : Bytes) (p0 : Nat) (lk : TokKind) :
    TokRel lk (consumeToken (96 :: t) p0 lk false) (token (96 :: t) lk false) := by
  have hcl : classify 96 = .bquote := by decide
  have e1 : ((96 : UInt8) == 46) = false := by decide
  have e2 : isDigit 96 = false := by decide
  unfold token
  simp only [consumeToken, hcl, Bool.false_and, Bool.false_eq_true, if_false, e1, e2, beq_self_eq_true, if_true,
    List.length_cons]
  rcases bquote_refines t p0 with ⟨v, n, hb, hv, hm⟩ | ⟨hb, e, hm⟩
  · rw [hm, hb]
    have : v.isEmpty = false := by cases v with | nil => exact absurd rfl hv | cons _ _ => rfl
    simp [this, TokRel]
  · rw [hm]
    rcases hb with hb | ⟨n, hb⟩
    · rw [hb]; trivial
    · rw [hb]; simp [TokRel]

theorem str_refines {c : UInt8} (t : Bytes) (p0 : Nat) (lk : TokKind) (hc : classify c = .strStart) :
    TokRel lk (consumeToken (c :: t) p0 lk false) (token (c :: t) lk false) := by
  obtain ⟨h1, h2, h3, h4, h5⟩ := classify_str c hc
  cases hp : literalPrefix (c :: t) with
  | none =>
    have hsp := strPrefix_eq (c :: t)
    rw [hp] at hsp
    simp only [consumeToken, hc, stringTok, hsp, Option.map_none]
    refine fallback_refines t p0 lk h1 h2 h3 h4 hp ?_
    intro hl
    rcases h5 with h5 | h5
    · exfalso
      simp [literalPrefix, h5] at hp
    · rw [hl] at h5; cases h5
  | some p =>
    unfold token
    simp only [consumeToken, hc, Bool.false_and, Bool.false_eq_true, if_false, h1, h2, h3, h4, hp]
    rcases string_refines (c :: t) c p0 p hp with ⟨v, n, hb, hm⟩ | ⟨hb, e, hm⟩
    · rw [hm, hb]
      simp only [TokRel]
      refine ⟨by trivial, by trivial, by trivial, by trivial, ?_⟩
      cases p.isBytes <;> simp
    · rw [hm, hb]; trivial

theorem other_refines {c : UInt8} (t : Bytes) (p0 : Nat) (lk : TokKind) (hc : classify c = .other) :
    TokRel lk (consumeToken (c :: t) p0 lk false) (token (c :: t) lk false) := by
  obtain ⟨h1, h2, h3, h4, h5, h6, h7, h8⟩ := classify_other c hc
  simp only [consumeToken, hc]
  exact fallback_refines t p0 lk h1 h2 h3 h4 (literalPrefix_none_of_first h5 h6 h7)
    (fun hl => punctLen_none t (h8 hl))

/-- `consumeToken` (panic mode) against the reference `token` outside dot-identifier mode -/
theorem consumeToken_refines (rest : Bytes) (p0 : Nat) (lk : TokKind) :
    TokRel lk (consumeToken rest p0 lk false) (token rest lk false) := by
  cases rest with
  | nil => simp [consumeToken, token, TokRel]
  | cons c t =>
    obtain ⟨c1, c2, c3, c4, c5, c6, c7, c8, c9, c10⟩ := classify_conc c
    cases hc : classify c with
    | single => exact single_refines t p0 lk hc
    | dot => rw [c1 hc]; exact dot_refines t p0 lk
    | lt => rw [c2 hc]; exact lt_refines t p0 lk
    | gt => rw [c3 hc]; exact gt_refines t p0 lk
    | plus => rw [c4 hc]; exact plus_refines t p0 lk
    | minus => rw [c5 hc]; exact minus_refines t p0 lk
    | eq => rw [c6 hc]; exact eq_refines t p0 lk
    | bar => rw [c7 hc]; exact bar_refines t p0 lk
    | bang => rw [c8 hc]; exact bang_refines t p0 lk
    | «at» => rw [c9 hc]; exact at_refines t p0 lk
    | bquote => rw [c10 hc]; exact bquote_tok_refines t p0 lk
    | digit => exact digit_refines t p0 lk hc
    | strStart => exact str_refines t p0 lk hc
    | other => exact other_refines t p0 lk hc

set_option linter.unusedSimpArgs false

theorem token_dot_irrelevant {c : UInt8} (t : Bytes) (lk : TokKind) (h : isIdentChar c = false) :
    token (c :: t) lk true = token (c :: t) lk false := by
  unfold token
  simp only [h, Bool.and_false, Bool.false_and]

/-- one token: the model's scanners (panic mode) against the reference `token`, in either dot mode -/
theorem token_refines (rest : Bytes) (p0 : Nat) (lk : TokKind) (dot : Bool) :
    match (if dot then consumeFieldToken rest p0 lk false else consumeToken rest p0 lk false), token rest lk dot with
    | .ok sc, some t => sc.kind = t.kind ∧ sc.len = t.len ∧ sc.asString = t.value ∧ sc.base = t.base ∧
        (if dot then false else sc.dot) = dotAfter lk dot t
    | .err _, none => True
    | _, _ => False := by
  have hct := consumeToken_refines rest p0 lk
  cases dot with
  | false =>
    simp only [Bool.false_eq_true, if_false]
    revert hct
    unfold TokRel
    cases consumeToken rest p0 lk false <;> cases token rest lk false <;> simp [dotAfter]
  | true =>
    simp only [if_true]
    cases rest with
    | nil => simp [consumeFieldToken, consumeToken, token, dotAfter]
    | cons c t =>
      by_cases hi : isIdentChar c = true
      · simp [consumeFieldToken, token, isIdentPart_eq, hi, spanLen_eq_run, dotAfter]
      · have hi' := Bool.eq_false_iff.2 hi
        rw [token_dot_irrelevant t lk hi']
        simp only [consumeFieldToken, isIdentPart_eq, hi', Bool.false_eq_true, if_false]
        revert hct
        unfold TokRel
        cases consumeToken (c :: t) p0 lk false <;> cases token (c :: t) lk false <;> simp [dotAfter]
        intro a b c d _; exact ⟨a, b, c, d⟩

end MF.Refine
