/-
  MF.Proofs.LexLocal — C11, the lexer half: lexing is local to the pieces of `SplitRawStatements`.

  `CutAt buf buf' p e`: `buf'` is `buf` cut at offset `e` (where `buf` has a `;`, or ends), with the first `p` bytes
  replaced by anything of the same length.  From a lexer state at or after `p`, every `nextToken` step of `buf` whose
  token ends at or before `e` is the same step on `buf'`, and the step that produces the token starting at `e`
  produces `<eof>` on `buf'` (with the same comments and space).
-/
import MF.Proofs.LexLocalScan
import MF.Proofs.SplitTokens
namespace MF.Lex

structure CutAt (buf buf' : Bytes) (p e : Nat) : Prop where
  le : e ≤ buf.length
  len : buf'.length = e
  drop : ∀ q, p ≤ q → buf'.drop q = (buf.drop q).take (e - q)
  sent : e < buf.length → buf[e]? = some 59

theorem CutAt.slice_eq {buf buf' : Bytes} {p e : Nat} (hc : CutAt buf buf' p e) {a b : Nat} (ha : p ≤ a) (hb : b ≤ e) :
    MF.slice? buf' a b = MF.slice? buf a b := by
  unfold MF.slice? slice
  rw [hc.drop a ha, hc.len, List.take_take]
  have h1 : b ≤ buf.length := Nat.le_trans hb hc.le
  have h2 : min (b - a) (e - a) = b - a := by omega
  simp only [hb, h1, and_true, h2]

theorem CutAt.sentinel {buf buf' : Bytes} {p e : Nat} (hc : CutAt buf buf' p e) {q : Nat} (hq : q ≤ e) :
    Sentinel (buf.drop q) (e - q) := by
  intro h
  simp only [List.length_drop] at h
  rw [List.getElem?_drop]
  have : q + (e - q) = e := by omega
  rw [this]
  exact hc.sent (by omega)

theorem cutAt_take (buf : Bytes) {e : Nat} (he : e ≤ buf.length) (hs : e < buf.length → buf[e]? = some 59) :
    CutAt buf (buf.take e) 0 e :=
  ⟨he, by rw [List.length_take]; omega, fun q _ => List.drop_take, hs⟩

theorem cutAt_shift (buf : Bytes) {p e : Nat} (hp : p ≤ e) (he : e ≤ buf.length)
    (hs : e < buf.length → buf[e]? = some 59) :
    CutAt buf (List.replicate p 32 ++ slice buf p e) p e := by
  refine ⟨he, ?_, ?_, hs⟩
  · rw [List.length_append, List.length_replicate, slice_length hp he]; omega
  · intro q hq
    rw [List.drop_append, List.length_replicate, List.drop_replicate]
    have : p - q = 0 := by omega
    rw [this]
    simp only [List.replicate_zero, List.nil_append]
    unfold slice
    rw [List.drop_take, List.drop_drop]
    congr 1
    · omega
    · congr 1; omega

/-! ## the trivia loop -/

theorem triviaLoop_pos_le {buf : Bytes} {np : Bool} {fuel pos : Nat} {cs : List Comment}
    {pos' : Nat} {cs' : List Comment} {space : Bytes} {he : Bool}
    (h : triviaLoop buf np fuel pos cs = .ok (pos', cs', space, he)) : pos ≤ pos' := by
  induction fuel generalizing pos cs with
  | zero => simp [triviaLoop] at h
  | succ fuel ih =>
    simp only [triviaLoop] at h
    split at h
    · cases h
    · split at h
      · cases h
      · cases h
      · split at h
        · cases h; omega
        · split at h
          · cases h
          · split at h
            · cases h; omega
            · have := ih h; omega

def mapComments (f : List Comment → List Comment) : Res (Nat × List Comment × Bytes × Bool) → Res (Nat × List Comment × Bytes × Bool)
  | .ok (a, cs, sp, he) => .ok (a, f cs, sp, he)
  | .err e => .err e
  | .crash => .crash

/-- the comments collected so far are only passed along -/
theorem triviaLoop_acc2 (buf : Bytes) (np : Bool) (fuel pos : Nat) (cs1 cs2 : List Comment) :
    triviaLoop buf np fuel pos (cs1 ++ cs2) = mapComments (cs1 ++ ·) (triviaLoop buf np fuel pos cs2) := by
  induction fuel generalizing pos cs2 with
  | zero => simp [triviaLoop, mapComments]
  | succ fuel ih =>
    simp only [triviaLoop]
    split
    · rfl
    · split
      · rfl
      · rfl
      · split
        · simp [mapComments]
        · split
          · rfl
          · split
            · simp [mapComments]
            · rw [List.append_assoc]
              exact ih _ _

theorem triviaLoop_acc (buf : Bytes) (np : Bool) (fuel pos : Nat) (cs : List Comment) :
    triviaLoop buf np fuel pos cs = mapComments (cs ++ ·) (triviaLoop buf np fuel pos []) := by
  have := triviaLoop_acc2 buf np fuel pos cs []
  simpa using this

theorem triviaLoop_cut {buf buf' : Bytes} {p e : Nat} (hc : CutAt buf buf' p e) {f f' pos : Nat}
    {cs : List Comment} {pos' : Nat} {cs' : List Comment} {space : Bytes} {he : Bool}
    (h : triviaLoop buf false f pos cs = .ok (pos', cs', space, he)) (hp : p ≤ pos) (hpe : pos' ≤ e)
    (hf' : e < f' + pos) :
    triviaLoop buf' false f' pos cs = .ok (pos', cs', space, he) := by
  induction f generalizing f' pos cs with
  | zero => simp [triviaLoop] at h
  | succ f ih =>
    have hle := triviaLoop_pos_le h
    cases f' with
    | zero => omega
    | succ f' =>
    simp only [triviaLoop] at h ⊢
    -- white space
    have hsk : skipSpaces (buf'.length + 1) (buf'.drop pos) = skipSpaces (buf.length + 1) (buf.drop pos) ∧
        pos + skipSpaces (buf.length + 1) (buf.drop pos) ≤ pos' := by
      have hk : pos + skipSpaces (buf.length + 1) (buf.drop pos) ≤ pos' := by
        split at h
        · cases h
        · split at h
          · cases h
          · cases h
          · split at h
            · cases h; omega
            · split at h
              · cases h
              · split at h
                · cases h; omega
                · have := triviaLoop_pos_le h; omega
      refine ⟨?_, hk⟩
      rw [hc.drop pos hp, hc.len]
      rw [skipSpaces_fuel (f2 := buf.length + 1) (by rw [List.length_take]; omega)
        (by rw [List.length_take, List.length_drop]; have := hc.le; omega)]
      exact skipSpaces_take (by omega)
    rw [hsk.1]
    have hpos1 := hsk.2
    split at h
    · cases h
    · rename_i space1 hsp
      rw [hc.slice_eq hp (by omega), hsp]
      simp only
      split at h
      · cases h
      · cases h
      · rename_i n he1 hsc
        have hn : pos + skipSpaces (buf.length + 1) (buf.drop pos) + n ≤ pos' := by
          split at h
          · rename_i hn0
            have : n = 0 := by simpa using hn0
            omega
          · split at h
            · cases h
            · split at h
              · rename_i hhe
                exact absurd (skipComment_err_np (by rw [hsc, hhe])) (by simp)
              · have := triviaLoop_pos_le h; omega
        rw [hc.drop _ (by omega), skipComment_take hsc (by omega)]
        simp only
        split at h
        · rename_i hn0
          simp only [hn0, if_true]
          exact h
        · rename_i hn0
          simp only [hn0, Bool.false_eq_true, if_false]
          have hn0' : n ≠ 0 := by simpa using hn0
          split at h
          · cases h
          · rename_i raw hraw
            rw [hc.slice_eq (by omega) (by omega), hraw]
            simp only
            split at h
            · rename_i hhe
              simp only [hhe, if_true]
              exact h
            · rename_i hhe
              simp only [hhe, Bool.false_eq_true, if_false]
              exact ih h (by omega) (by omega)

/-! ## the token after the trivia -/

theorem consumeToken_lk {R : Bytes} {p0 : Nat} {lk lk' : TokKind} {np : Bool}
    (h : isNextDotIdent lk' = isNextDotIdent lk) : consumeToken R p0 lk' np = consumeToken R p0 lk np := by
  cases R with
  | nil => rfl
  | cons c t =>
    rw [consumeToken_cons, consumeToken_cons]
    unfold tokBody
    rw [h]

theorem consumeFieldToken_lk {R : Bytes} {p0 : Nat} {lk lk' : TokKind} {np : Bool}
    (h : isNextDotIdent lk' = isNextDotIdent lk) : consumeFieldToken R p0 lk' np = consumeFieldToken R p0 lk np := by
  unfold consumeFieldToken
  rw [consumeToken_lk h]

/-- `nextTokenCore` after the trivia loop (panic mode, no unclosed comment) -/
def afterTrivia (buf : Bytes) (dot : Bool) (lastKind : TokKind) (pos : Nat) (comments : List Comment)
    (space : Bytes) : Res State :=
  let rest := buf.drop pos
  let r := if dot then consumeFieldToken rest pos lastKind false
           else consumeToken rest pos lastKind false
  match r with
  | .crash => .crash
  | .err e => .err e
  | .ok sc =>
    let pos' := pos + sc.len
    match slice? buf pos pos' with
    | none => .crash
    | some raw =>
      .ok { pos := pos', lastKind := lastKind,
            dotIdent := if dot then false else sc.dot,
            tok := { kind := sc.kind, comments := comments, space := space, raw := raw,
                     asString := sc.asString, base := sc.base, pos := pos, «end» := pos' } }

theorem nextTokenCore_eq (buf : Bytes) (s : State) :
    nextTokenCore buf false s =
      match triviaLoop buf false (buf.length + 2) s.pos [] with
      | .crash => .crash
      | .err e => .err e
      | .ok (pos, comments, space, hasError) =>
        if hasError then
          match slice? buf pos buf.length with
          | none => .crash
          | some raw =>
            .ok { pos := buf.length, lastKind := s.tok.kind, dotIdent := s.dotIdent,
                  tok := { kind := .bad, comments := comments, space := space, raw := raw, pos := pos, «end» := buf.length } }
        else afterTrivia buf s.dotIdent s.tok.kind pos comments space := by
  unfold nextTokenCore afterTrivia
  rfl

/-- in panic mode the trivia loop never reports an unclosed comment -/
theorem triviaLoop_noErr {buf : Bytes} {fuel pos : Nat} {cs : List Comment}
    {pos' : Nat} {cs' : List Comment} {space : Bytes} {he : Bool}
    (h : triviaLoop buf false fuel pos cs = .ok (pos', cs', space, he)) : he = false := by
  induction fuel generalizing pos cs with
  | zero => simp [triviaLoop] at h
  | succ fuel ih =>
    simp only [triviaLoop] at h
    split at h
    · cases h
    · split at h
      · cases h
      · cases h
      · rename_i n he1 hsc
        split at h
        · cases h; rfl
        · split at h
          · cases h
          · split at h
            · rename_i hhe
              exact absurd (skipComment_err_np (by rw [hsc, hhe])) (by simp)
            · exact ih h

theorem afterTrivia_cut {buf buf' : Bytes} {p e : Nat} (hc : CutAt buf buf' p e) {dot : Bool} {lk lk' : TokKind}
    {pos : Nat} {cs cs' : List Comment} {sp sp' : Bytes} {s1 : State}
    (h : afterTrivia buf dot lk pos cs sp = .ok s1) (hp : p ≤ pos) (he : s1.pos ≤ e)
    (hk : isNextDotIdent lk' = isNextDotIdent lk) :
    afterTrivia buf' dot lk' pos cs' sp' =
      .ok { s1 with lastKind := lk', tok := { s1.tok with comments := cs', space := sp' } } := by
  unfold afterTrivia at h ⊢
  simp only at h ⊢
  split at h
  · cases h
  · cases h
  · rename_i sc hsc
    split at h
    · cases h
    · rename_i raw hraw
      cases h
      simp only at he
      have hsent := hc.sentinel (q := pos) (by omega)
      have hsc' : (if dot = true then consumeFieldToken (buf'.drop pos) pos lk' false
          else consumeToken (buf'.drop pos) pos lk' false) = .ok sc := by
        rw [hc.drop pos hp, consumeFieldToken_lk hk, consumeToken_lk hk]
        by_cases hd : dot = true
        · simp only [hd, if_true] at hsc ⊢
          exact consumeFieldToken_take hsc (by omega) hsent
        · simp only [hd, Bool.false_eq_true, if_false] at hsc ⊢
          exact consumeToken_take hsc (by omega) hsent
      rw [hsc']
      simp only
      rw [hc.slice_eq hp he, hraw]

theorem afterTrivia_end {buf' : Bytes} {e : Nat} (hlen : buf'.length = e) (dot : Bool) (lk' : TokKind)
    (cs' : List Comment) (sp' : Bytes) :
    afterTrivia buf' dot lk' e cs' sp' =
      .ok { pos := e, lastKind := lk', dotIdent := false,
            tok := { kind := .eof, comments := cs', space := sp', raw := [], asString := [], base := 0,
                     pos := e, «end» := e } } := by
  unfold afterTrivia
  have hd : buf'.drop e = [] := by rw [List.drop_eq_nil_iff]; omega
  simp only [hd]
  have hsc : (if dot = true then consumeFieldToken [] e lk' false else consumeToken [] e lk' false) =
      .ok { kind := .eof, len := 0 } := by
    split
    · exact consumeFieldToken_nil
    · exact consumeToken_nil
  rw [hsc]
  simp only [Nat.add_zero]
  rw [slice?_of_le (Nat.le_refl _) (by omega), slice_self]
  simp

theorem afterTrivia_facts {buf : Bytes} {dot : Bool} {lk : TokKind} {pos : Nat} {cs : List Comment} {sp : Bytes}
    {s1 : State} (h : afterTrivia buf dot lk pos cs sp = .ok s1) :
    s1.tok.pos = pos ∧ pos ≤ s1.pos ∧ s1.tok.comments = cs ∧ s1.tok.space = sp ∧ s1.tok.end = s1.pos := by
  unfold afterTrivia at h
  simp only at h
  split at h
  · cases h
  · cases h
  · split at h
    · cases h
    · cases h
      exact ⟨rfl, Nat.le_add_right _ _, rfl, rfl, rfl⟩

/-- what `<eof>` looks like when it replaces the token `t` at offset `e` -/
def eofOf (t : Token) (e : Nat) : Token :=
  { kind := .eof, comments := t.comments, space := t.space, raw := [], asString := [], base := 0, pos := e, «end» := e }

/-- C11, lexer half, one step: a token that ends at or before the cut is produced identically on the cut buffer -/
theorem nextTokenCore_cut {buf buf' : Bytes} {p e : Nat} (hc : CutAt buf buf' p e) {s s' s1 : State}
    (h : nextTokenCore buf false s = .ok s1) (hp : p ≤ s.pos) (he : s1.pos ≤ e)
    (hpos : s'.pos = s.pos) (hdot : s'.dotIdent = s.dotIdent)
    (hk : isNextDotIdent s'.tok.kind = isNextDotIdent s.tok.kind) :
    nextTokenCore buf' false s' = .ok { s1 with lastKind := s'.tok.kind } := by
  rw [nextTokenCore_eq] at h ⊢
  split at h
  · cases h
  · cases h
  · rename_i pos comments space hasError htl
    have hne := triviaLoop_noErr htl
    subst hne
    simp only [Bool.false_eq_true, if_false] at h
    obtain ⟨f1, f2, f3, f4, _⟩ := afterTrivia_facts h
    rw [hpos, triviaLoop_cut hc htl hp (by omega) (by rw [hc.len]; omega)]
    simp only [Bool.false_eq_true, if_false]
    rw [hdot, afterTrivia_cut hc h (by have := triviaLoop_pos_le htl; omega) he hk]
    rw [← f3, ← f4]

/-- the step that produces the token starting at the cut produces `<eof>` on the cut buffer -/
theorem nextTokenCore_cut_end {buf buf' : Bytes} {p e : Nat} (hc : CutAt buf buf' p e) {s s' s1 : State}
    (h : nextTokenCore buf false s = .ok s1) (hp : p ≤ s.pos) (he : s1.tok.pos = e)
    (hpos : s'.pos = s.pos) :
    nextTokenCore buf' false s' =
      .ok { pos := e, lastKind := s'.tok.kind, dotIdent := false, tok := eofOf s1.tok e } := by
  rw [nextTokenCore_eq] at h ⊢
  split at h
  · cases h
  · cases h
  · rename_i pos comments space hasError htl
    have hne := triviaLoop_noErr htl
    subst hne
    simp only [Bool.false_eq_true, if_false] at h
    obtain ⟨f1, f2, f3, f4, _⟩ := afterTrivia_facts h
    have hpe : pos = e := by omega
    subst hpe
    rw [hpos, triviaLoop_cut hc htl hp (Nat.le_refl _) (by rw [hc.len]; omega)]
    simp only [Bool.false_eq_true, if_false]
    rw [afterTrivia_end hc.len]
    unfold eofOf
    rw [f3, f4]

/-! ## the first token of a piece shifted back to its offset by blanks -/

theorem skipSpaces_blanks (g k : Nat) (X : Bytes) :
    skipSpaces (g + k) (List.replicate k 32 ++ X) = k + skipSpaces g X := by
  induction k with
  | zero => simp
  | succ k ih =>
    have e1 : g + (k + 1) = (g + k) + 1 := by omega
    rw [e1, List.replicate_succ, List.cons_append]
    simp only [skipSpaces]
    have hd : Utf8.decodeRune (32 :: (List.replicate k 32 ++ X)) = (32, 1) := by
      simp [Utf8.decodeRune]
    rw [hd]
    have hsp : Utf8.isSpace 32 = true := by decide
    simp only [List.isEmpty_cons, Bool.false_eq_true, if_false, hsp, if_true, List.drop_succ_cons, List.drop_zero]
    rw [ih]; omega

/-- the comments and the space of the first token of a shifted piece: the blanks replace the space in front of the
first comment, or of the token itself when it has no comment -/
def shiftComments (p : Nat) (cs : List Comment) : List Comment :=
  match cs with
  | [] => []
  | c :: cs => { c with space := List.replicate p 32 } :: cs

def shiftSpace (p : Nat) (cs : List Comment) (sp : Bytes) : Bytes :=
  match cs with
  | [] => List.replicate p 32
  | _ :: _ => sp

/-- where the first comment starts, else `pos` -/
def firstStart (cs : List Comment) (pos : Nat) : Nat :=
  match cs with
  | [] => pos
  | c :: _ => c.pos

theorem triviaLoop_shift_first {buf : Bytes} {p e : Nat} (hc : CutAt buf (List.replicate p 32 ++ slice buf p e) p e)
    (hpe : p ≤ e) {f f' pos0 pos : Nat} {comments : List Comment} {space : Bytes} {he : Bool}
    (h : triviaLoop buf false (f + 1) pos0 [] = .ok (pos, comments, space, he))
    (hstart : firstStart comments pos = p) (hpos : pos ≤ e) (hf' : e < f') :
    triviaLoop (List.replicate p 32 ++ slice buf p e) false (f' + 1) 0 [] =
      .ok (pos, shiftComments p comments, shiftSpace p comments space, he) := by
  simp only [triviaLoop] at h
  split at h
  · cases h
  · rename_i space1 hsp
    split at h
    · cases h
    · cases h
    · rename_i n he1 hsc
      -- the piece starts where the white space after the `;` ends
      have hp1 : pos0 + skipSpaces (buf.length + 1) (buf.drop pos0) = p := by
        split at h
        · cases h; exact hstart
        · split at h
          · cases h
          · split at h
            · cases h; exact hstart
            · rw [triviaLoop_acc] at h
              cases hr : triviaLoop buf false f (pos0 + skipSpaces (buf.length + 1) (buf.drop pos0) + n) [] with
              | crash => rw [hr] at h; simp [mapComments] at h
              | err e => rw [hr] at h; simp [mapComments] at h
              | ok r =>
                obtain ⟨a, cs2, sp2, he2⟩ := r
                rw [hr] at h
                simp only [mapComments, List.nil_append, List.cons_append, Res.ok.injEq, Prod.mk.injEq] at h
                obtain ⟨_, h2, _, _⟩ := h
                subst h2
                exact hstart
      rw [hp1] at h hsc
      have hidem : skipSpaces (e - p + 1) (buf.drop p) = 0 := by
        rcases skipSpaces_idem (buf.length + 1) (buf.drop pos0) (e - p + 1) with h0 | h0
        · rw [List.drop_drop, hp1] at h0; exact h0
        · simp only [List.length_drop] at h0; omega
      have hblank : skipSpaces ((List.replicate p 32 ++ slice buf p e).length + 1)
          (List.replicate p 32 ++ slice buf p e) = p := by
        rw [hc.len]
        have e1 : e + 1 = (e - p + 1) + p := by omega
        rw [e1, skipSpaces_blanks]
        unfold slice
        rw [skipSpaces_take (by rw [hidem]; omega), hidem]
        rfl
      simp only [triviaLoop, List.drop_zero, Nat.zero_add, hblank]
      have hsl : slice? (List.replicate p 32 ++ slice buf p e) 0 p = some (List.replicate p 32) := by
        rw [slice?_of_le (Nat.zero_le _) (by rw [hc.len]; exact hpe)]
        unfold slice
        simp
      rw [hsl]
      simp only
      have hn : p + n ≤ pos := by
        split at h
        · rename_i hn0
          have : n = 0 := by simpa using hn0
          cases h; omega
        · split at h
          · cases h
          · split at h
            · rename_i hhe
              exact absurd (skipComment_err_np (by rw [hsc, hhe])) (by simp)
            · have := triviaLoop_pos_le h; omega
      rw [hc.drop p (Nat.le_refl _), skipComment_take hsc (by omega)]
      simp only
      split at h
      · rename_i hn0
        simp only [hn0, if_true]
        cases h
        rfl
      · rename_i hn0
        simp only [hn0, Bool.false_eq_true, if_false]
        split at h
        · cases h
        · rename_i raw hraw
          rw [hc.slice_eq (Nat.le_refl _) (by omega), hraw]
          simp only
          split at h
          · rename_i hhe
            exact absurd (skipComment_err_np (by rw [hsc, hhe])) (by simp)
          · rename_i hhe
            simp only [hhe, Bool.false_eq_true, if_false]
            rw [triviaLoop_acc] at h ⊢
            cases hr : triviaLoop buf false f (p + n) [] with
            | crash => rw [hr] at h; simp [mapComments] at h
            | err e => rw [hr] at h; simp [mapComments] at h
            | ok r =>
              obtain ⟨a, cs2, sp2, he2⟩ := r
              rw [hr] at h
              simp only [mapComments, List.nil_append, List.cons_append, Res.ok.injEq, Prod.mk.injEq] at h
              obtain ⟨h1, h2, h3, h4⟩ := h
              subst h1 h2 h3 h4
              rw [triviaLoop_cut hc hr (by omega) hpos (by omega)]
              rfl

def shiftTok (p : Nat) (t : Token) : Token :=
  { t with comments := shiftComments p t.comments, space := shiftSpace p t.comments t.space }

theorem isNextDotIdent_init : isNextDotIdent init.tok.kind = false := by decide

/-- the first `nextToken` of a piece that was shifted back to its offset `p` by blanks: from the initial state it
produces the token that the original lexer produces after the preceding `;` (only the space in front differs) -/
theorem nextTokenCore_shift_first {buf : Bytes} {p e : Nat}
    (hc : CutAt buf (List.replicate p 32 ++ slice buf p e) p e) (hpe : p ≤ e) {s s1 : State}
    (h : nextTokenCore buf false s = .ok s1) (hstart : MF.Split.startOf s1.tok = p)
    (hdot : s.dotIdent = false) (hk : isNextDotIdent s.tok.kind = false) :
    (s1.pos ≤ e → nextTokenCore (List.replicate p 32 ++ slice buf p e) false init =
        .ok { s1 with lastKind := init.tok.kind, tok := shiftTok p s1.tok }) ∧
    (s1.tok.pos = e → nextTokenCore (List.replicate p 32 ++ slice buf p e) false init =
        .ok { pos := e, lastKind := init.tok.kind, dotIdent := false, tok := eofOf (shiftTok p s1.tok) e }) := by
  have hso := MF.Split.startOf_le (nextTokenCore_frame h)
  rw [nextTokenCore_eq] at h
  split at h
  · cases h
  · cases h
  · rename_i pos comments space hasError htl
    have hne := triviaLoop_noErr htl
    subst hne
    simp only [Bool.false_eq_true, if_false] at h
    obtain ⟨f1, f2, f3, f4, _⟩ := afterTrivia_facts h
    have hstart' : firstStart comments pos = p := by
      rw [← hstart, ← f3, ← f1]
      unfold MF.Split.startOf firstStart
      cases s1.tok.comments <;> rfl
    have hppos : p ≤ pos := by rw [← hstart, ← f1]; exact hso.2
    have key : ∀ (hpos : pos ≤ e),
        triviaLoop (List.replicate p 32 ++ slice buf p e) false
          ((List.replicate p 32 ++ slice buf p e).length + 2) init.pos [] =
          .ok (pos, shiftComments p comments, shiftSpace p comments space, false) := by
      intro hpos
      rw [hc.len]
      exact triviaLoop_shift_first (f := buf.length + 1) (f' := e + 1) hc hpe htl hstart' hpos (by omega)
    have hk' : isNextDotIdent init.tok.kind = isNextDotIdent s.tok.kind := by
      rw [hk]; exact isNextDotIdent_init
    have hdi : init.dotIdent = s.dotIdent := by rw [hdot]; rfl
    constructor
    · intro he
      rw [nextTokenCore_eq, key (by omega)]
      simp only [Bool.false_eq_true, if_false]
      rw [hdi, afterTrivia_cut hc h hppos he hk']
      unfold shiftTok
      rw [f3, f4]
    · intro he
      have hpe' : pos = e := by omega
      subst hpe'
      rw [nextTokenCore_eq, key (Nat.le_refl _)]
      simp only [Bool.false_eq_true, if_false]
      rw [afterTrivia_end hc.len]
      unfold eofOf shiftTok
      rw [f3, f4]

/-! ## which token is `;` -/

theorem K_semi : K ";" = .sym [59] := by decide

theorem consumeNumber_kind {R : Bytes} {p0 : Nat} {np : Bool} {sc : Scan} (h : consumeNumber R p0 np = .ok sc) :
    (sc.kind = .int ∨ sc.kind = .float ∨ sc.kind = .bad) ∧ sc.dot = false := by
  unfold consumeNumber at h
  simp only at h
  split at h
  · cases h
  · rename_i i isInt _
    cases isInt <;> simp only [Bool.false_eq_true, if_false, if_true] at h <;>
      (split at h
       · split at h
         · split at h
           · cases h; simp
           · cases h
         · cases h; simp
       · cases h; simp)

theorem quotedTok_kind {k : TokKind} {pre : Nat} {r : Res QC} {sc : Scan} (h : quotedTok k pre r = .ok sc) :
    (sc.kind = k ∨ sc.kind = .bad) ∧ sc.dot = false := by
  unfold quotedTok at h
  split at h
  · cases h
    simp only
    split <;> simp
  · cases h
  · cases h

theorem reserved_ne_semi : ∀ k ∈ reserved, k ≠ [59] := by decide

theorem fallbackTok_kind {R : Bytes} {c : UInt8} {p0 : Nat} {np : Bool} {sc : Scan}
    (h : fallbackTok R c p0 np = .ok sc) : sc.kind ≠ .sym [59] ∧ sc.dot = false := by
  unfold fallbackTok at h
  split at h
  · cases h
    unfold identTok
    simp only
    split
    · rename_i hr
      refine ⟨?_, rfl⟩
      simp only [ne_eq, TokKind.sym.injEq]
      exact reserved_ne_semi _ (by simpa using hr)
    · simp
  · split at h
    · cases h; simp
    · cases h

theorem stringTok_kind {R : Bytes} {c : UInt8} {p0 : Nat} {np : Bool} {sc : Scan}
    (h : stringTok R c p0 np = .ok sc) : sc.kind ≠ .sym [59] ∧ sc.dot = false := by
  unfold stringTok at h
  split at h
  · split at h
    · cases h
    · have := quotedTok_kind h
      refine ⟨?_, this.2⟩
      rcases this.1 with h1 | h1 <;> rw [h1]
      · split <;> simp
      · simp
  · exact fallbackTok_kind h

/-- a `;` token starts with the byte `;`; a token that switches dot-identifier mode on is `.` -/
theorem tokBody_semi {R : Bytes} {c : UInt8} {p0 : Nat} {lk : TokKind} {np : Bool} {sc : Scan}
    (h : tokBody R c p0 lk np = .ok sc) : (sc.kind = K ";" → c = 59) ∧ (sc.dot = true → sc.kind = K ".") := by
  rw [K_semi]
  unfold tokBody at h
  split at h
  · cases h
    simp
  · split at h
    · have := consumeNumber_kind h
      refine ⟨?_, by simp [this.2]⟩
      intro hk
      rcases this.1 with h1 | h1 | h1 <;> rw [h1] at hk <;> cases hk
    · cases h
      exact ⟨fun hk => absurd hk (by dsimp only; decide), fun _ => rfl⟩
  all_goals first
    | (have := stringTok_kind h; exact ⟨fun hk => absurd hk this.1, by simp [this.2]⟩)
    | (have := fallbackTok_kind h; exact ⟨fun hk => absurd hk this.1, by simp [this.2]⟩)
    | (have := consumeNumber_kind h
       refine ⟨?_, by simp [this.2]⟩
       intro hk
       rcases this.1 with h1 | h1 | h1 <;> rw [h1] at hk <;> cases hk)
    | (have := quotedTok_kind h
       refine ⟨?_, by simp [this.2]⟩
       intro hk
       rcases this.1 with h1 | h1 <;> rw [h1] at hk <;> cases hk)
    | ((repeat' split at h) <;>
        (simp only [tok1, tok2, paramTok, Res.ok.injEq] at h
         subst h
         exact ⟨fun hk => absurd hk (by dsimp only; decide), by simp⟩))

theorem consumeToken_semi {R : Bytes} {p0 : Nat} {lk : TokKind} {np : Bool} {sc : Scan}
    (h : consumeToken R p0 lk np = .ok sc) : (sc.kind = K ";" → R[0]? = some 59) ∧ (sc.dot = true → sc.kind = K ".") := by
  cases R with
  | nil =>
    rw [consumeToken_nil] at h
    cases h
    exact ⟨fun hk => absurd hk (by dsimp only; decide), by simp⟩
  | cons c t =>
    rw [consumeToken_cons] at h
    have := tokBody_semi h
    exact ⟨fun hk => by rw [this.1 hk]; rfl, this.2⟩

theorem consumeFieldToken_semi {R : Bytes} {p0 : Nat} {lk : TokKind} {np : Bool} {sc : Scan}
    (h : consumeFieldToken R p0 lk np = .ok sc) :
    (sc.kind = K ";" → R[0]? = some 59) ∧ (sc.dot = true → sc.kind = K ".") := by
  unfold consumeFieldToken at h
  split at h
  · split at h
    · cases h
      exact ⟨fun hk => absurd hk (by dsimp only; decide), by simp⟩
    · exact consumeToken_semi h
  · exact consumeToken_semi h

/-- a `;` token starts with the byte `;`, and after a `;` token the lexer is not in dot-identifier mode -/
theorem nextTokenCore_semi {buf : Bytes} {s s1 : State} (h : nextTokenCore buf false s = .ok s1) :
    (s1.tok.kind = K ";" → buf[s1.tok.pos]? = some 59) ∧ (s1.dotIdent = true → s1.tok.kind = K ".") := by
  rw [nextTokenCore_eq] at h
  split at h
  · cases h
  · cases h
  · rename_i pos comments space hasError htl
    have hne := triviaLoop_noErr htl
    subst hne
    simp only [Bool.false_eq_true, if_false] at h
    unfold afterTrivia at h
    simp only at h
    split at h
    · cases h
    · cases h
    · rename_i sc hsc
      split at h
      · cases h
      · cases h
        simp only
        have hfacts : (sc.kind = K ";" → (buf.drop pos)[0]? = some 59) ∧ (sc.dot = true → sc.kind = K ".") := by
          split at hsc
          · exact consumeFieldToken_semi hsc
          · exact consumeToken_semi hsc
        refine ⟨fun hk => ?_, fun hd => ?_⟩
        · have := hfacts.1 hk
          rw [List.getElem?_drop] at this
          simpa using this
        · split at hd
          · cases hd
          · exact hfacts.2 hd

/-! ## runs of the lexer -/

theorem nextToken_of_core {buf : Bytes} {np : Bool} {s s1 : State} (h : nextTokenCore buf np s = .ok s1) :
    nextToken buf np s = .ok s1 := by
  unfold nextToken; rw [h]

/-- `Steps buf s l`: from state `s` the lexer produces exactly the tokens `l`, the last one being `<eof>` -/
inductive Steps (buf : Bytes) : State → List Token → Prop
  | last {s s1 : State} : nextToken buf false s = .ok s1 → s1.tok.kind = .eof → Steps buf s [s1.tok]
  | cons {s s1 : State} {l : List Token} : nextToken buf false s = .ok s1 → s1.tok.kind ≠ .eof →
      Steps buf s1 l → Steps buf s (s1.tok :: l)

theorem lexAllFrom_steps {buf : Bytes} {fuel : Nat} {s : State} {acc ts : List Token}
    (h : lexAllFrom buf fuel s acc = .ok ts) : ∃ new, ts = acc.reverse ++ new ∧ Steps buf s new := by
  induction fuel generalizing s acc with
  | zero => simp [lexAllFrom] at h
  | succ fuel ih =>
    simp only [lexAllFrom] at h
    split at h
    · cases h
    · cases h
    · rename_i s1 hn
      split at h
      · rename_i hk
        cases h
        exact ⟨[s1.tok], by simp, Steps.last hn (by simpa using hk)⟩
      · rename_i hk
        obtain ⟨new, h1, h2⟩ := ih h
        exact ⟨s1.tok :: new, by simp [h1], Steps.cons hn (by simpa using hk) h2⟩

theorem lexAll_steps {buf : Bytes} {ts : List Token} (h : lexAll buf = .ok ts) : Steps buf init ts := by
  unfold lexAll at h
  obtain ⟨new, h1, h2⟩ := lexAllFrom_steps h
  simp at h1
  rw [h1]; exact h2

theorem steps_lexAllFrom {buf : Bytes} {s : State} {l : List Token} (h : Steps buf s l) :
    ∀ (fuel : Nat) (acc : List Token), s.pos ≤ buf.length → buf.length - s.pos + 1 ≤ fuel →
      lexAllFrom buf fuel s acc = .ok (acc.reverse ++ l) := by
  induction h with
  | last hn hk =>
    intro fuel acc hp hf
    cases fuel with
    | zero => omega
    | succ fuel => simp [lexAllFrom, hn, hk]
  | @cons s s1 l hn hk _ ih =>
    intro fuel acc hp hf
    cases fuel with
    | zero => omega
    | succ fuel =>
      have fr := nextToken_frame hn
      have pg := nextToken_progress hn hp
      have := pg.2.2.1 hk
      have hk' : (s1.tok.kind == TokKind.eof) = false := by simpa using hk
      simp only [lexAllFrom, hn, hk', Bool.false_eq_true, if_false]
      have hll := fr.le_len
      rw [ih fuel (s1.tok :: acc) fr.le_len (by omega)]
      simp

theorem steps_lexAll {buf : Bytes} {l : List Token} (h : Steps buf init l) : lexAll buf = .ok l := by
  unfold lexAll
  have := steps_lexAllFrom h (buf.length + 2) [] (by simp [init]) (by omega)
  simpa using this

/-- every token of a run starts at or after the cursor of the starting state -/
theorem steps_pos_ge {buf : Bytes} {s : State} {l : List Token} (h : Steps buf s l) :
    ∀ t ∈ l, s.pos ≤ t.pos := by
  induction h with
  | last hn hk =>
    intro t ht
    simp at ht; subst ht
    have fr := nextToken_frame hn
    have := (MF.Split.startOf_le fr)
    omega
  | cons hn hk _ ih =>
    intro t ht
    have fr := nextToken_frame hn
    have := (MF.Split.startOf_le fr)
    rcases List.mem_cons.1 ht with rfl | ht
    · omega
    · have := ih t ht
      have := fr.pos_le
      omega

/-- the state reached after a prefix of a run -/
theorem steps_after' {buf : Bytes} {s : State} {l : List Token} (h : Steps buf s l) :
    ∀ (pre : List Token) (t : Token) (rest : List Token), l = pre ++ t :: rest → rest ≠ [] → s.pos ≤ buf.length →
    ∃ sb, Steps buf sb rest ∧ sb.tok = t ∧ sb.pos ≤ buf.length ∧ (sb.dotIdent = true → sb.tok.kind = K ".") := by
  induction h with
  | last hn hk =>
    intro pre t rest heq hne _
    exfalso
    have := congrArg List.length heq
    simp at this
    have : rest.length = 0 := by omega
    exact hne (List.eq_nil_of_length_eq_zero this)
  | @cons s s1 l hn hk hrest ih =>
    intro pre t rest heq hne hp
    cases pre with
    | nil =>
      simp only [List.nil_append, List.cons.injEq] at heq
      obtain ⟨h1, h2⟩ := heq
      subst h2
      exact ⟨s1, hrest, h1, (nextToken_frame hn).le_len, (nextTokenCore_semi (nextToken_ok_core hn)).2⟩
    | cons x pre =>
      simp only [List.cons_append, List.cons.injEq] at heq
      exact ih pre t rest heq.2 hne (nextToken_frame hn).le_len

theorem steps_after {buf : Bytes} {s : State} {pre : List Token} {t : Token} {rest : List Token}
    (h : Steps buf s (pre ++ t :: rest)) (hne : rest ≠ []) (hp : s.pos ≤ buf.length) :
    ∃ sb, Steps buf sb rest ∧ sb.tok = t ∧ sb.pos ≤ buf.length ∧ (sb.dotIdent = true → sb.tok.kind = K ".") :=
  steps_after' h pre t rest rfl hne hp

/-- C11, lexer half, a whole run: up to the token `t` that starts at the cut, the run on the cut buffer produces
the same tokens, then `<eof>` -/
theorem steps_cut {buf buf' : Bytes} {p e : Nat} (hc : CutAt buf buf' p e) :
    ∀ (seg : List Token) (s s' : State) (t : Token) (more : List Token),
      Steps buf s (seg ++ t :: more) → t.pos = e → p ≤ s.pos → s.pos ≤ buf.length →
      s'.pos = s.pos → s'.dotIdent = s.dotIdent → isNextDotIdent s'.tok.kind = isNextDotIdent s.tok.kind →
      Steps buf' s' (seg ++ [eofOf t e]) := by
  intro seg
  induction seg with
  | nil =>
    intro s s' t more h ht hp hlen hpos hdot hk
    have hstep : ∃ s1, nextToken buf false s = .ok s1 ∧ s1.tok = t := by
      generalize hl : [] ++ t :: more = l at h
      cases h with
      | last hn hk' => simp at hl; exact ⟨_, hn, hl.1.symm⟩
      | cons hn hk' _ => simp at hl; exact ⟨_, hn, hl.1.symm⟩
    obtain ⟨s1, hn, hst⟩ := hstep
    have := nextTokenCore_cut_end (s' := s') hc (nextToken_ok_core hn) hp (by rw [hst]; exact ht) hpos
    rw [hst] at this
    exact Steps.last (nextToken_of_core this) rfl
  | cons x seg ih =>
    intro s s' t more h ht hp hlen hpos hdot hk
    have hstep : ∃ s1, nextToken buf false s = .ok s1 ∧ s1.tok = x ∧ s1.tok.kind ≠ .eof ∧
        Steps buf s1 (seg ++ t :: more) := by
      generalize hl : x :: seg ++ t :: more = l at h
      cases h with
      | last hn hk' =>
        exfalso
        have := congrArg List.length hl
        simp at this
      | cons hn hk' hrest =>
        simp only [List.cons_append, List.cons.injEq] at hl
        rw [← hl.2] at hrest
        exact ⟨_, hn, hl.1.symm, hk', hrest⟩
    obtain ⟨s1, hn, hsx, hne, hrest⟩ := hstep
    have fr := nextToken_frame hn
    have hs1e : s1.pos ≤ e := by
      have := steps_pos_ge hrest t (by simp)
      omega
    have hcut := nextTokenCore_cut (s' := s') hc (nextToken_ok_core hn) hp hs1e hpos hdot hk
    have hrec := ih s1 { s1 with lastKind := s'.tok.kind } t more hrest ht (by have := fr.pos_le; omega) fr.le_len
      rfl rfl rfl
    have := Steps.cons (nextToken_of_core hcut) hne hrec
    rw [← hsx]
    exact this

/-! ## what is compared: everything but the white space in front -/

def commentCore (c : Comment) : Bytes × Nat × Nat := (c.raw, c.pos, c.end)

/-- kind, raw text, value, base, position, and the comments in front (text and position) -/
def tokCore (t : Token) : TokKind × Bytes × Bytes × Nat × Nat × Nat × List (Bytes × Nat × Nat) :=
  (t.kind, t.raw, t.asString, t.base, t.pos, t.end, t.comments.map commentCore)

theorem shiftTok_core (p : Nat) (t : Token) : tokCore (shiftTok p t) = tokCore t := by
  unfold shiftTok tokCore shiftComments
  cases t.comments <;> rfl

theorem eofOf_shiftTok_core (p : Nat) (t : Token) (e : Nat) : tokCore (eofOf (shiftTok p t) e) = tokCore (eofOf t e) := by
  unfold eofOf shiftTok tokCore shiftComments
  cases t.comments <;> rfl

/-- the lexer state at the start of a piece: the initial state, or the state after a `;` token -/
structure Fresh (s : State) : Prop where
  dot : s.dotIdent = false
  kind : isNextDotIdent s.tok.kind = false

/-- C11, lexer half, one piece: from a fresh state `sa` the lexer produces the tokens `cur`, then the token `t`
at offset `e` (a `;`, or `<eof>` at the end of the input).  The piece `[fp, e)` starts at offset 0 (and `sa` is at 0),
or at the first leading comment of its first token, else at that token.  Then the text of the piece, shifted back to
its offset by blanks, lexes to the same tokens followed by `<eof>` at `e`. -/
theorem piece_steps {buf : Bytes} {fp e : Nat} {sa : State} {cur : List Token} {t : Token} {more : List Token}
    (h : Steps buf sa (cur ++ t :: more)) (ht : t.pos = e) (hf : Fresh sa) (hlen : sa.pos ≤ buf.length)
    (hcase : (sa.pos = 0 ∧ fp = 0) ∨ (∀ h0 rest0, cur ++ t :: more = h0 :: rest0 → fp = MF.Split.startOf h0))
    (hsent : e < buf.length → buf[e]? = some 59) (hfe : fp ≤ e) (he : e ≤ buf.length) :
    ∃ ts', lexAll (List.replicate fp 32 ++ slice buf fp e) = .ok ts' ∧
      ts'.map tokCore = cur.map tokCore ++ [tokCore (eofOf t e)] := by
  have hc := cutAt_shift buf hfe he hsent
  rcases hcase with ⟨h0, hfp0⟩ | hcase
  · -- the first piece: no shift at all
    subst hfp0
    have := steps_cut hc cur sa init t more h ht (Nat.zero_le _) hlen (by rw [h0]; rfl) (by rw [hf.dot]; rfl)
      (by rw [hf.kind]; exact isNextDotIdent_init)
    exact ⟨_, steps_lexAll this, by simp⟩
  · cases cur with
    | nil =>
      have hstep : ∃ s1, nextToken buf false sa = .ok s1 ∧ s1.tok = t := by
        generalize hl : [] ++ t :: more = l at h
        cases h with
        | last hn hk' => simp at hl; exact ⟨_, hn, hl.1.symm⟩
        | cons hn hk' _ => simp at hl; exact ⟨_, hn, hl.1.symm⟩
      obtain ⟨s1, hn, hst⟩ := hstep
      have hfp := hcase t more rfl
      have := (nextTokenCore_shift_first hc hfe (nextToken_ok_core hn) (by rw [hst, hfp]) hf.dot hf.kind).2
        (by rw [hst]; exact ht)
      have hsteps : Steps (List.replicate fp 32 ++ slice buf fp e) init [eofOf (shiftTok fp s1.tok) e] :=
        Steps.last (nextToken_of_core this) rfl
      refine ⟨_, steps_lexAll hsteps, ?_⟩
      rw [hst]
      simp [eofOf_shiftTok_core]
    | cons x cur =>
      have hstep : ∃ s1, nextToken buf false sa = .ok s1 ∧ s1.tok = x ∧ s1.tok.kind ≠ .eof ∧
          Steps buf s1 (cur ++ t :: more) := by
        generalize hl : x :: cur ++ t :: more = l at h
        cases h with
        | last hn hk' =>
          exfalso
          have := congrArg List.length hl
          simp at this
        | cons hn hk' hrest =>
          simp only [List.cons_append, List.cons.injEq] at hl
          rw [← hl.2] at hrest
          exact ⟨_, hn, hl.1.symm, hk', hrest⟩
      obtain ⟨s1, hn, hsx, hne, hrest⟩ := hstep
      have fr := nextToken_frame hn
      have hfp := hcase x (cur ++ t :: more) rfl
      have hs1e : s1.pos ≤ e := by
        have := steps_pos_ge hrest t (by simp)
        omega
      have hfirst := (nextTokenCore_shift_first hc hfe (nextToken_ok_core hn) (by rw [hsx, hfp]) hf.dot hf.kind).1 hs1e
      have hso := MF.Split.startOf_le fr
      have hrec := steps_cut hc cur s1 { s1 with lastKind := init.tok.kind, tok := shiftTok fp s1.tok } t more hrest ht
        (by rw [hfp, ← hsx]; have := fr.tok_le; have := fr.tok_end; omega) fr.le_len rfl rfl rfl
      have hsteps := Steps.cons (nextToken_of_core hfirst) (by exact hne) hrec
      refine ⟨_, steps_lexAll hsteps, ?_⟩
      simp only [List.map_cons, List.map_append, shiftTok_core, hsx, List.cons_append, List.map_nil]

theorem steps_semi_byte {buf : Bytes} {s : State} {l : List Token} (h : Steps buf s l) :
    ∀ t ∈ l, t.kind = K ";" → buf[t.pos]? = some 59 := by
  induction h with
  | last hn hk =>
    intro t ht hkt
    simp at ht; subst ht
    exact (nextTokenCore_semi (nextToken_ok_core hn)).1 hkt
  | cons hn hk _ ih =>
    intro t ht hkt
    rcases List.mem_cons.1 ht with rfl | ht
    · exact (nextTokenCore_semi (nextToken_ok_core hn)).1 hkt
    · exact ih t ht hkt

/-- C11, lexer half, prefix locality: cutting the input at a `;` token does not change the tokens before it; the
`;` becomes `<eof>` (with the same comments and space in front) -/
theorem lexAll_take_semi {buf : Bytes} {seg : List Token} {t : Token} {more : List Token}
    (h : lexAll buf = .ok (seg ++ t :: more)) (hk : t.kind = K ";") :
    lexAll (buf.take t.pos) = .ok (seg ++ [eofOf t t.pos]) := by
  have hsteps := lexAll_steps h
  have hbyte := steps_semi_byte hsteps t (by simp) hk
  have hle : t.pos ≤ buf.length := by
    have := getElem?_some_lt hbyte; omega
  have hc := cutAt_take buf hle (fun _ => hbyte)
  exact steps_lexAll (steps_cut hc seg init init t more hsteps rfl (Nat.zero_le _) (by simp [init]) rfl rfl rfl)

end MF.Lex
