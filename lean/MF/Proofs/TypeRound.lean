/-
  MF.Proofs.TypeRound — C01 / C02 for types at the token level: a token list that READS as the yield of a `wf` tree
  `t` (positions aside) followed by `<eof>` is parsed to a tree equal to `t` up to positions, which prints the same text.
-/
import MF.Proofs.TypeUnique
import MF.Spec.TypeReads
namespace MF.TypeP
open MF.TypeG

/-! ## `Reads` -/

theorem reads_cons_inv {y : YT} {ys : List YT} {pre : List Token} (h : Reads (y :: ys) pre) :
    ∃ t rest, pre = t :: rest ∧ y.readsB t = true ∧ Reads ys rest := by
  cases pre with
  | nil => simp [Reads, readsB] at h
  | cons t rest =>
    simp only [Reads, readsB, Bool.and_eq_true] at h
    exact ⟨t, rest, rfl, h.1, h.2⟩

theorem reads_nil_left {pre : List Token} (h : Reads [] pre) : pre = [] := by
  cases pre with
  | nil => rfl
  | cons t r => simp [Reads, readsB] at h

theorem reads_append_inv {a b : List YT} {p : List Token} (h : Reads (a ++ b) p) :
    ∃ p1 p2, p = p1 ++ p2 ∧ Reads a p1 ∧ Reads b p2 := by
  induction a generalizing p with
  | nil => exact ⟨[], p, rfl, rfl, h⟩
  | cons y ys ih =>
    obtain ⟨t, r, rfl, hy, hr⟩ := reads_cons_inv h
    obtain ⟨p1, p2, rfl, h1, h2⟩ := ih hr
    refine ⟨t :: p1, p2, rfl, ?_, h2⟩
    simp only [Reads, readsB, hy, Bool.true_and]
    exact h1

theorem YT.reads_of_ok {y : YT} {t : Token} (h : y.ok t) : y.readsB t = true := by
  cases y with
  | simple p n => obtain ⟨h1, _, h3⟩ := h; simp [YT.readsB, h1, h3]
  | ident i => obtain ⟨h1, rfl⟩ := h; simp [YT.readsB, h1]
  | «at» k p => obtain ⟨h1, _⟩ := h; simp [YT.readsB, h1]
  | sym k => have h1 : tk t.kind = k := h; simp [YT.readsB, h1]

/-- the tokens the parser consumed read as the yield of its tree -/
theorem match_reads {ys : List YT} {ts : List Token} (h : Match ys ts) : Reads ys ts := by
  induction ys generalizing ts with
  | nil => rw [h.nil_left]; rfl
  | cons y ys ih =>
    obtain ⟨t, r, rfl, hy, hr⟩ := match_cons_inv h
    simp only [Reads, readsB, YT.reads_of_ok hy, Bool.true_and]
    exact ih hr

/-! ## erasing positions -/

theorem identSQL_erase (i : Ident) : identSQL (eraseI i) = identSQL i := rfl

theorem pathSQL_erase (p : List Ident) : pathSQL (p.map eraseI) = pathSQL p := by
  induction p with
  | nil => rfl
  | cons a rest ih =>
    cases rest with
    | nil => rfl
    | cons b r =>
      simp only [List.map_cons, pathSQL] at ih ⊢
      rw [ih, identSQL_erase]

theorem fieldNameSQL_erase (i : Option Ident) : fieldNameSQL (i.map eraseI) = fieldNameSQL i := by
  cases i <;> rfl

mutual
theorem sqlT_erase : ∀ t : Ty, sqlT (eraseT t) = sqlT t
  | .simple _ _ => rfl
  | .named p => by simp only [eraseT, sqlT, pathSQL_erase]
  | .array _ _ item => by simp only [eraseT, sqlT, sqlT_erase item]
  | .struct _ _ fs => by simp only [eraseT, sqlT, (sqlFs_erase fs).1]
theorem sqlFs_erase : ∀ fs : Fields, sqlFs (eraseFs fs) = sqlFs fs ∧ sqlMore (eraseFs fs) = sqlMore fs
  | .nil => ⟨rfl, rfl⟩
  | .cons i t rest => by
    simp only [eraseFs, sqlFs, sqlMore, fieldNameSQL_erase, sqlT_erase t, (sqlFs_erase rest).2, and_self]
end

mutual
theorem wf_erase : ∀ t : Ty, wf (eraseT t) = wf t
  | .simple _ _ => rfl
  | .named [] => rfl
  | .named [_] => rfl
  | .named (_ :: _ :: _) => rfl
  | .array _ _ item => by simp only [eraseT, wf, wf_erase item]
  | .struct _ _ fs => by simp only [eraseT, wf, wfs_erase fs]
theorem wfs_erase : ∀ fs : Fields, wfs (eraseFs fs) = wfs fs
  | .nil => rfl
  | .cons _ t rest => by simp only [eraseFs, wfs, wf_erase t, wfs_erase rest]
end

/-! ## from `Reads` to `Match`: put the tokens' positions into the tree -/

theorem path_retag (path : List Ident) : ∀ pre, Reads (yieldPath path) pre →
    ∃ path', path'.map eraseI = path.map eraseI ∧ Match (yieldPath path') pre := by
  induction path with
  | nil =>
    intro pre h
    simp only [yieldPath] at h
    rw [reads_nil_left h]
    exact ⟨[], rfl, trivial⟩
  | cons a rest ih =>
    intro pre h
    cases rest with
    | nil =>
      simp only [yieldPath] at h
      obtain ⟨t, r, rfl, hy, hr⟩ := reads_cons_inv h
      rw [reads_nil_left hr]
      simp only [YT.readsB, Bool.and_eq_true, beq_iff_eq] at hy
      refine ⟨[⟨t.pos, t.end, t.asString⟩], by simp [eraseI, hy.2], ?_⟩
      exact ⟨⟨hy.1, rfl⟩, trivial⟩
    | cons b r =>
      simp only [yieldPath] at h
      obtain ⟨t, r1, rfl, hy, hr⟩ := reads_cons_inv h
      obtain ⟨d, r2, rfl, hd, hr2⟩ := reads_cons_inv hr
      obtain ⟨path', e', hm'⟩ := ih r2 hr2
      simp only [YT.readsB, Bool.and_eq_true, beq_iff_eq] at hy hd
      cases path' with
      | nil => simp at e'
      | cons b' r' =>
        refine ⟨⟨t.pos, t.end, t.asString⟩ :: b' :: r', ?_, ?_⟩
        · simp only [List.map_cons] at e' ⊢
          rw [e']
          simp [eraseI, hy.2]
        · simp only [yieldPath]
          exact ⟨⟨hy.1, rfl⟩, hd, hm'⟩

mutual
theorem retagT : ∀ t : Ty, ∀ pre, Reads (yieldT t) pre → ∃ t', eraseT t' = eraseT t ∧ Match (yieldT t') pre
  | .simple p n, pre, h => by
    simp only [yieldT] at h
    obtain ⟨t, r, rfl, hy, hr⟩ := reads_cons_inv h
    rw [reads_nil_left hr]
    simp only [YT.readsB, Bool.and_eq_true, beq_iff_eq] at hy
    exact ⟨.simple t.pos n, rfl, ⟨hy.1, rfl, hy.2⟩, trivial⟩
  | .named path, pre, h => by
    simp only [yieldT] at h
    obtain ⟨path', e', hm'⟩ := path_retag path pre h
    exact ⟨.named path', by simp only [eraseT, e'], hm'⟩
  | .array a g item, pre, h => by
    simp only [yieldT] at h
    obtain ⟨ta, r1, rfl, hya, h1⟩ := reads_cons_inv h
    obtain ⟨tl, r2, rfl, hyl, h2⟩ := reads_cons_inv h1
    obtain ⟨mid, last, rfl, hmi, hml⟩ := reads_append_inv h2
    obtain ⟨tg, r3, rfl, hyg, hr3⟩ := reads_cons_inv hml
    rw [reads_nil_left hr3]
    obtain ⟨item', e', hm'⟩ := retagT item mid hmi
    simp only [YT.readsB, beq_iff_eq] at hya hyl hyg
    refine ⟨.array ta.pos tg.pos item', by simp only [eraseT, e'], ?_⟩
    simp only [yieldT]
    exact ⟨⟨hya, rfl⟩, hyl, hm'.append ⟨⟨hyg, rfl⟩, trivial⟩⟩
  | .struct s g fs, pre, h => by
    simp only [yieldT] at h
    obtain ⟨ta, r1, rfl, hya, h1⟩ := reads_cons_inv h
    obtain ⟨tl, r2, rfl, hyl, h2⟩ := reads_cons_inv h1
    obtain ⟨mid, last, rfl, hmi, hml⟩ := reads_append_inv h2
    obtain ⟨tg, r3, rfl, hyg, hr3⟩ := reads_cons_inv hml
    rw [reads_nil_left hr3]
    obtain ⟨fs', e', hm'⟩ := (retagFs fs).1 mid hmi
    simp only [YT.readsB, beq_iff_eq] at hya hyl hyg
    refine ⟨.struct ta.pos tg.pos fs', by simp only [eraseT, e'], ?_⟩
    simp only [yieldT]
    exact ⟨⟨hya, rfl⟩, hyl, hm'.append ⟨⟨hyg, rfl⟩, trivial⟩⟩
theorem retagFs : ∀ fs : Fields,
    (∀ pre, Reads (yieldFs fs) pre → ∃ fs', eraseFs fs' = eraseFs fs ∧ Match (yieldFs fs') pre) ∧
    (∀ pre, Reads (yieldMore fs) pre → ∃ fs', eraseFs fs' = eraseFs fs ∧ Match (yieldMore fs') pre)
  | .nil => by
    constructor <;> intro pre h
    · simp only [yieldFs] at h
      rw [reads_nil_left h]; exact ⟨.nil, rfl, trivial⟩
    · simp only [yieldMore] at h
      rw [reads_nil_left h]; exact ⟨.nil, rfl, trivial⟩
  | .cons i t rest => by
    have body : ∀ pre, Reads (yieldName i ++ yieldT t ++ yieldMore rest) pre →
        ∃ i' t' rest', i'.map eraseI = i.map eraseI ∧ eraseT t' = eraseT t ∧ eraseFs rest' = eraseFs rest ∧
          Match (yieldName i' ++ yieldT t' ++ yieldMore rest') pre := by
      intro pre h
      obtain ⟨p12, pm, rfl, h12, hmm⟩ := reads_append_inv h
      obtain ⟨pn, pt, rfl, hn, ht⟩ := reads_append_inv h12
      obtain ⟨t', et, hmt⟩ := retagT t pt ht
      obtain ⟨rest', er, hmr⟩ := (retagFs rest).2 pm hmm
      cases i with
      | none =>
        simp only [yieldName] at hn
        rw [reads_nil_left hn]
        exact ⟨none, t', rest', rfl, et, er, by simpa [yieldName] using hmt.append hmr⟩
      | some id =>
        simp only [yieldName] at hn
        obtain ⟨u, r, rfl, hy, hr⟩ := reads_cons_inv hn
        rw [reads_nil_left hr]
        simp only [YT.readsB, Bool.and_eq_true, beq_iff_eq] at hy
        refine ⟨some ⟨u.pos, u.end, u.asString⟩, t', rest', by simp [eraseI, hy.2], et, er, ?_⟩
        simp only [yieldName, List.cons_append, List.nil_append]
        exact ⟨⟨hy.1, rfl⟩, hmt.append hmr⟩
    constructor <;> intro pre h
    · simp only [yieldFs] at h
      obtain ⟨i', t', rest', e1, e2, e3, hm⟩ := body pre h
      exact ⟨.cons i' t' rest', by simp only [eraseFs, e1, e2, e3], by simpa only [yieldFs] using hm⟩
    · simp only [yieldMore, List.cons_append] at h
      obtain ⟨c, r, rfl, hc, hr⟩ := reads_cons_inv h
      obtain ⟨i', t', rest', e1, e2, e3, hm⟩ := body r hr
      simp only [YT.readsB, beq_iff_eq] at hc
      refine ⟨.cons i' t' rest', by simp only [eraseFs, e1, e2, e3], ?_⟩
      simp only [yieldMore, List.cons_append]
      exact ⟨hc, hm⟩
end

/-! ## the round trip at the token level -/

theorem printLexB_spec {t : Ty} {ts : List Token} (h : printLexB t ts = true) :
    ∃ pre e, expand ts = pre ++ [e] ∧ tk e.kind = .eof ∧ Reads (yieldT t) pre := by
  simp only [printLexB, Bool.and_eq_true, beq_iff_eq] at h
  obtain ⟨h1, h2⟩ := h
  cases hx : (expand ts).getLast? with
  | none => rw [hx] at h2; cases h2
  | some e =>
    rw [hx] at h2
    simp only [Option.map_some, Option.some.injEq] at h2
    have hne : expand ts ≠ [] := by
      intro hn; rw [hn] at hx; cases hx
    have hl : (expand ts).getLast hne = e := by
      rw [List.getLast?_eq_some_getLast hne] at hx
      exact Option.some.inj hx
    have := List.dropLast_concat_getLast hne
    rw [hl] at this
    exact ⟨(expand ts).dropLast, e, this.symm, h2, h1⟩

/-- C01 for types, token level: tokens that read as the print of `t` parse back to `t` up to positions, and the result
prints the same text -/
theorem roundtrip_tokens {t : Ty} (hw : wf t = true) {ts2 : PState} (h : printLexB t ts2 = true) :
    ∃ t', parseTypeTop (topFuel ts2) ts2 = .ok t' ∧ eraseT t' = eraseT t ∧ sqlT t' = sqlT t := by
  obtain ⟨pre, e, he, hk, hr⟩ := printLexB_spec h
  obtain ⟨t', et, hm⟩ := retagT t pre hr
  have hw' : wf t' = true := by rw [← wf_erase, et, wf_erase]; exact hw
  refine ⟨t', ?_, et, by rw [← sqlT_erase, et, sqlT_erase]⟩
  exact parseTypeTop_complete hw' hm he (by simp [curX, hk]) _ (need_le_topFuel hw' hm he)

end MF.TypeP
