/-
  C15 (identifiers): `QuoteSQLIdent(s)` (for non-empty `s`) lexes as exactly one identifier token whose value is `s`;
  it is `s` itself exactly when `s` is identifier-shaped and not a keyword.
-/
import MF.Proofs.QuoteString
namespace MF.Quote
open MF.Lex MF.Utf8

/-! ### a buffer that is exactly one token, with no trivia in front (generalises `lexAll_single`) -/

theorem lexAll_single' {buf : Bytes}
    (htriv : triviaLoop buf false (buf.length + 1 + 1) 0 [] = .ok (0, [], [], false))
    {k : TokKind} {a : Bytes} {bse : Nat} (hk : k ≠ .eof)
    (hs : consumeToken buf 0 (.sym []) false = .ok { kind := k, len := buf.length, asString := a, base := bse }) :
    ∃ t1 t2, lexAll buf = .ok [t1, t2] ∧ t1.kind = k ∧ t1.asString = a ∧ t1.raw = buf ∧ t1.space = [] ∧
      t1.comments = [] ∧ t1.pos = 0 ∧ t1.end = buf.length ∧ t2.kind = .eof := by
  have h1 : nextToken buf false Lex.init = .ok
      { pos := buf.length, lastKind := .sym [], dotIdent := false,
        tok := { kind := k, comments := [], space := [], raw := buf, asString := a, base := bse, pos := 0, «end» := buf.length } } := by
    have hcore : nextTokenCore buf false Lex.init = .ok
        { pos := buf.length, lastKind := .sym [], dotIdent := false,
          tok := { kind := k, comments := [], space := [], raw := buf, asString := a, base := bse, pos := 0, «end» := buf.length } } := by
      unfold nextTokenCore
      simp only [Lex.init]
      have hf : buf.length + 2 = (buf.length + 1) + 1 := rfl
      rw [hf, htriv]
      simp only [Bool.false_eq_true, if_false, List.drop_zero, hs, Nat.zero_add]
      rw [slice?_of_le (Nat.zero_le _) (Nat.le_refl _)]
      simp [slice_zero_length]
    unfold nextToken
    rw [hcore]
  obtain ⟨s2, e1, e2, e3, e4, e5⟩ := eof_stable (buf := buf) (np := false)
    (s := { pos := buf.length, lastKind := .sym [], dotIdent := false,
            tok := { kind := k, comments := [], space := [], raw := buf, asString := a, base := bse, pos := 0, «end» := buf.length } }) rfl
  refine ⟨{ kind := k, comments := [], space := [], raw := buf, asString := a, base := bse, pos := 0, «end» := buf.length }, s2.tok, ?_, rfl, rfl, rfl, rfl, rfl, rfl, rfl, e2⟩
  unfold lexAll
  have hf : buf.length + 2 = (buf.length + 1) + 1 := rfl
  rw [hf]
  simp only [lexAllFrom, h1]
  have hk' : (k == TokKind.eof) = false := by simpa using hk
  simp only [hk', Bool.false_eq_true, if_false, e1, e2, beq_self_eq_true, if_true]
  simp

theorem identStart_facts : ∀ c : UInt8, Char.isIdentStart c = true →
    c.toNat < 0x80 ∧ Utf8.isSpace c.toNat = false ∧ c ≠ 35 ∧ c ≠ 47 ∧ c ≠ 45 ∧ Char.isIdentPart c = true ∧
      (classify c = .strStart ∨ classify c = .other) := by
  apply UInt8.forall_of_fin; decide +kernel

/-- no trivia in front of an identifier-start byte -/
theorem triviaLoop_none_ident {np : Bool} {fuel : Nat} {c : UInt8} {t : Bytes} (hc : Char.isIdentStart c = true) :
    triviaLoop (c :: t) np (fuel + 1) 0 [] = .ok (0, [], [], false) := by
  obtain ⟨h1, h2, h3, h4, h5, _, _⟩ := identStart_facts c hc
  have hsp : skipSpaces ((c :: t).length + 1) (c :: t) = 0 := by
    simp [skipSpaces, Utf8.decodeRune, h1, h2]
  simp only [triviaLoop, List.drop_zero, hsp, Nat.add_zero]
  rw [slice?_of_le (Nat.le_refl _) (Nat.zero_le _)]
  have hcm : skipComment (c :: t) 0 np = .ok (0, false) := by
    simp [skipComment, isLineCommentStart, isBlockCommentStart, h3, h4, h5]
  simp [hcm, slice_self]

/-! ### the unquoted case: an identifier-shaped non-keyword -/

theorem identPart_not_quote : ∀ c : UInt8, Char.isIdentPart c = true → (c == 34 || c == 39) = false := by
  apply UInt8.forall_of_fin; decide +kernel

theorem strPrefix_none {s : Bytes} (hall : s.all Char.isIdentPart = true) :
    ∀ (fuel i : Nat) (bytes raw : Bool), strPrefix s fuel i bytes raw = none := by
  intro fuel
  induction fuel with
  | zero => intro i b r; rfl
  | succ fuel ih =>
    intro i b r
    unfold strPrefix
    cases hg : s[i]? with
    | none => rfl
    | some c =>
      have hmem : c ∈ s := List.mem_of_getElem? hg
      have hc : Char.isIdentPart c = true := (List.all_eq_true.1 hall) c hmem
      simp only [identPart_not_quote c hc, ih, Bool.false_eq_true, if_false]
      split <;> (try split) <;> rfl

theorem spanLen_all {s : Bytes} (hall : s.all Char.isIdentPart = true) : spanLen Char.isIdentPart s = s.length := by
  induction s with
  | nil => rfl
  | cons c t ih =>
    simp only [List.all_cons, Bool.and_eq_true] at hall
    simp only [spanLen, hall.1, if_true, ih hall.2, List.length_cons]

theorem identTok_plain {s : Bytes} (hall : s.all Char.isIdentPart = true) (hk : isKeyword s = false) :
    identTok s = { kind := .ident, len := s.length, asString := s } := by
  unfold identTok
  simp only [spanLen_all hall, List.take_length]
  have : reserved.contains (Char.toUpper s) = false := hk
  simp only [this, Bool.false_eq_true, if_false]

theorem consumeToken_plainIdent {c : UInt8} {t : Bytes} (hc : Char.isIdentStart c = true)
    (hall : (c :: t).all Char.isIdentPart = true) (hk : isKeyword (c :: t) = false) (lk : TokKind) :
    consumeToken (c :: t) 0 lk false = .ok { kind := .ident, len := (c :: t).length, asString := c :: t } := by
  obtain ⟨_, _, _, _, _, _, hcl⟩ := identStart_facts c hc
  have hfb : fallbackTok (c :: t) c 0 false = .ok { kind := .ident, len := (c :: t).length, asString := c :: t } := by
    simp only [fallbackTok, hc, if_true, identTok_plain hall hk]
  rcases hcl with hcl | hcl
  · simp only [consumeToken, hcl, stringTok, strPrefix_none hall, hfb]
  · simp only [consumeToken, hcl, hfb]

/-! ### lengths: quoting never shrinks -/

theorem encodeRune_length_le (r : Nat) : (encodeRune r).length ≤ 4 := by
  unfold encodeRune
  split
  · simp
  · split
    · simp
    · split
      · simp
      · split <;> simp

theorem RuneCase.len {Q : UInt8} {U tk : Bytes} (hc : RuneCase Q U tk) : tk.length ≤ U.length := by
  cases hc with
  | hex2 v hv hU htk => subst hU htk; simp [hex2_length]
  | simple e x he hU htk => subst hU htk; simp
  | plain hU hne hp => subst hU; exact Nat.le_refl _
  | hex4 r hr hs hU htk =>
    subst hU htk
    have := encodeRune_length_le r
    simp only [List.length_append, List.length_cons, List.length_nil, hex4_length]; omega
  | hex8 r hr hs hU htk =>
    subst hU htk
    have := encodeRune_length_le r
    simp only [List.length_append, List.length_cons, List.length_nil, hex8_length]; omega

theorem qsc_length (ip : Nat → Bool) {Q : UInt8} (hQ : IsQ Q) :
    ∀ (F : Nat) (s : Bytes), s.length < F → s.length ≤ (quoteStringContent ip Q.toNat F s).length := by
  intro F
  induction F with
  | zero => intro s hs; omega
  | succ F ih =>
    intro s hs
    cases s with
    | nil => simp
    | cons b t =>
      obtain ⟨h1, hl, _, hcase⟩ := quoteRune_cases ip Q hQ (b :: t) (by simp)
      have hlen := hcase.len
      simp only [quoteStringContent, List.isEmpty_cons, Bool.false_eq_true, if_false, List.length_append]
      generalize (decodeRune (b :: t)).2 = n at *
      have hd : (List.drop n (b :: t)).length < F := by
        simp only [List.length_drop]; simp only [List.length_cons] at hs hl ⊢; omega
      have := ih _ hd
      simp only [List.length_take, List.length_drop] at hlen this
      omega

/-! ### `QuoteSQLIdent` -/

theorem consumeToken_bquote (ip : Nat → Bool) (s : Bytes) (hs : s ≠ []) (lk : TokKind) :
    consumeToken ([96] ++ quoteStringContent ip 96 (s.length + 1) s ++ [96]) 0 lk false =
      .ok { kind := .ident, len := ([96] ++ quoteStringContent ip 96 (s.length + 1) s ++ [96]).length, asString := s } := by
  have hQ : IsQ 96 := Or.inr (Or.inr rfl)
  have hcq := consumeQuoted_qsc ip hQ true s 0 (Or.inl hs)
  have h96 : (96 : UInt8).toNat = 96 := rfl
  rw [h96] at hcq
  have hcl : classify 96 = .bquote := by decide
  simp only [List.cons_append, List.nil_append, consumeToken, hcl, hcq]
  simp [quotedTok]

/-- C15 (identifiers): `QuoteSQLIdent(s)` lexes as exactly one identifier token whose value is `s`. -/
theorem quoteIdent_lex (isPrint : Nat → Bool) (s : Bytes) (hs : s ≠ []) :
    ∃ q, quoteIdent isPrint s = some q ∧ ∃ t1 t2, lexAll q = .ok [t1, t2] ∧
      t1.kind = .ident ∧ t1.asString = s ∧ t2.kind = .eof := by
  cases s with
  | nil => exact absurd rfl hs
  | cons c t =>
    unfold quoteIdent needQuoteIdent
    by_cases hk : isKeyword (c :: t) = true
    · simp only [hk, if_true]
      refine ⟨_, rfl, ?_⟩
      have hct := consumeToken_bquote isPrint (c :: t) hs (.sym [])
      obtain ⟨t1, t2, h1, h2, h3, _, _, _, _, _, h9⟩ :=
        lexAll_single (buf := [96] ++ quoteStringContent isPrint 96 ((c :: t).length + 1) (c :: t) ++ [96])
          (c := 96) (t := quoteStringContent isPrint 96 ((c :: t).length + 1) (c :: t) ++ [96]) (by simp)
          (Or.inr (Or.inr (Or.inr rfl))) (k := .ident) (a := c :: t) (bse := 0) (by simp) hct
      exact ⟨t1, t2, h1, h2, h3, h9⟩
    · have hk' : isKeyword (c :: t) = false := by simpa using hk
      simp only [hk', Bool.false_eq_true, if_false]
      by_cases hshape : Char.isIdentStart c = true ∧ (c :: t).all Char.isIdentPart = true
      · have hnq : (!Char.isIdentStart c || !(c :: t).all Char.isIdentPart) = false := by
          simp only [hshape.1, hshape.2, Bool.not_true, Bool.or_self]
        rw [hnq]
        refine ⟨_, rfl, ?_⟩
        have hct := consumeToken_plainIdent hshape.1 hshape.2 hk' (.sym [])
        obtain ⟨t1, t2, h1, h2, h3, _, _, _, _, _, h9⟩ :=
          lexAll_single' (buf := c :: t) (triviaLoop_none_ident hshape.1) (k := .ident) (a := c :: t) (bse := 0)
            (by simp) hct
        exact ⟨t1, t2, h1, h2, h3, h9⟩
      · have hnq : (!Char.isIdentStart c || !(c :: t).all Char.isIdentPart) = true := by
          cases h1 : Char.isIdentStart c <;> cases h2 : (c :: t).all Char.isIdentPart <;> simp_all
        rw [hnq]
        refine ⟨_, rfl, ?_⟩
        have hct := consumeToken_bquote isPrint (c :: t) hs (.sym [])
        obtain ⟨t1, t2, h1, h2, h3, _, _, _, _, _, h9⟩ :=
          lexAll_single (buf := [96] ++ quoteStringContent isPrint 96 ((c :: t).length + 1) (c :: t) ++ [96])
            (c := 96) (t := quoteStringContent isPrint 96 ((c :: t).length + 1) (c :: t) ++ [96]) (by simp)
            (Or.inr (Or.inr (Or.inr rfl))) (k := .ident) (a := c :: t) (bse := 0) (by simp) hct
        exact ⟨t1, t2, h1, h2, h3, h9⟩

/-- the back-quoted form is never the input itself -/
theorem bquote_ne (ip : Nat → Bool) (s : Bytes) :
    [96] ++ quoteStringContent ip 96 (s.length + 1) s ++ [96] ≠ s := by
  intro h
  have hl := congrArg List.length h
  have := qsc_length ip (Q := 96) (Or.inr (Or.inr rfl)) (s.length + 1) s (by omega)
  have h96 : (96 : UInt8).toNat = 96 := rfl
  rw [h96] at this
  simp only [List.length_append, List.length_cons, List.length_nil] at hl
  omega

/-- `QuoteSQLIdent(s)` is `s` itself exactly for identifier-shaped non-keywords. -/
theorem quoteIdent_unquoted_iff (isPrint : Nat → Bool) (s : Bytes) (hs : s ≠ []) :
    quoteIdent isPrint s = some s ↔
      (isKeyword s = false ∧
        match s with
        | c :: _ => Char.isIdentStart c = true ∧ s.all Char.isIdentPart = true
        | [] => False) := by
  cases s with
  | nil => exact absurd rfl hs
  | cons c t =>
    have hne := bquote_ne isPrint (c :: t)
    unfold quoteIdent needQuoteIdent
    by_cases hk : isKeyword (c :: t) = true
    · simp only [hk, if_true, Option.some.injEq, Bool.true_eq_false, false_and, iff_false]
      exact hne
    · have hk' : isKeyword (c :: t) = false := by simpa using hk
      simp only [hk', Bool.false_eq_true, if_false, true_and]
      by_cases hshape : Char.isIdentStart c = true ∧ (c :: t).all Char.isIdentPart = true
      · have hnq : (!Char.isIdentStart c || !(c :: t).all Char.isIdentPart) = false := by
          simp only [hshape.1, hshape.2, Bool.not_true, Bool.or_self]
        rw [hnq]
        exact ⟨fun _ => hshape, fun _ => rfl⟩
      · have hnq : (!Char.isIdentStart c || !(c :: t).all Char.isIdentPart) = true := by
          cases h1 : Char.isIdentStart c <;> cases h2 : (c :: t).all Char.isIdentPart <;> simp_all
        rw [hnq]
        simp only [Option.some.injEq]
        exact ⟨fun h => absurd h hne, fun h => absurd h hshape⟩

end MF.Quote
