/-
  MF.Proofs.LexQuoteCtx — the C15 theorems in context: the text produced by `QuoteSQLString`, `QuoteSQLBytes`
  and the back-quoted form of `QuoteSQLIdent`, followed by ANY suffix `X` (for string/bytes literals: one that
  does not start with a quote character, which could turn an empty literal into a triple-quoted one), is scanned
  as one token with the quoted value.  The loop lemmas of C15 (`string_loop`, `bytes_loop`) already carry an
  arbitrary suffix; this file redoes the thin wrappers around them with the suffix, and transports the result to
  the reference lexer (`token_refines`).
-/
import MF.Proofs.LexTokCtx
set_option linter.unusedSimpArgs false
namespace MF.Concat
open MF MF.Lex MF.Quote MF.Spec.Lexical

/-- the quoted-content scanner on `Q ++ quoteStringContent s ++ Q ++ X`, started after the opening quote -/
theorem consumeQuoted_qsc_ctx (ip : Nat → Bool) {Q : UInt8} (hQ : IsQ Q) (isId : Bool) (s : Bytes) (p0 : Nat)
    (hne : s ≠ [] ∨ isId = false) (X : Bytes) :
    consumeQuotedContent (Q :: (quoteStringContent ip Q.toNat (s.length + 1) s ++ [Q] ++ X)) p0 [Q] false true isId false =
      .ok { content := s, hasError := false, len := (quoteStringContent ip Q.toNat (s.length + 1) s).length + 2 } := by
  unfold consumeQuotedContent
  generalize hC : quoteStringContent ip Q.toNat (s.length + 1) s = C
  have hd := quotedLoop_drop (rest := Q :: (C ++ [Q] ++ X)) (k := 1) (tp := p0) (p0 := p0) (q := [Q])
    (raw := false) (uni := true) (isId := isId) (np := false) (fuel := (Q :: (C ++ [Q] ++ X)).length + 2) (i := 0)
    (content := []) (he := false) (by simp)
  simp only [List.length_cons, List.length_nil, Nat.zero_add, Nat.add_zero] at hd ⊢
  rw [hd]
  simp only [List.drop_succ_cons, List.drop_zero]
  have hl := string_loop ip hQ isId (s.length + 1) s (by omega) X p0 (p0 + 1) [] ((C ++ [Q] ++ X).length + 1 + 2)
    (by rw [hC]; simp only [List.length_append, List.length_cons, List.length_nil]; omega) (by simpa using hne)
  rw [hC] at hl
  simp only [List.nil_append] at hl
  rw [hl]
  simp only [shiftRes]
  congr 2
  omega

theorem headSat_quote_ne {X : Bytes} (h : headSat isQuote X = false) {q : UInt8} (hq : q = 34 ∨ q = 39) :
    X.head? ≠ some q := by
  cases X with
  | nil => simp
  | cons x t =>
    simp only [headSat_cons, isQuote, Bool.or_eq_false_iff, beq_eq_false_iff_ne] at h
    simp only [List.head?_cons, ne_eq, Option.some.injEq]
    rcases hq with rfl | rfl
    · exact h.1
    · exact h.2

/-- `QuoteSQLString(s)` followed by `X` -/
theorem consumeToken_quoteString_ctx (ip : Nat → Bool) (s : Bytes) (lk : TokKind) {X : Bytes}
    (hX : headSat isQuote X = false) :
    consumeToken (quoteString ip s ++ X) 0 lk false =
      .ok { kind := .string, len := (quoteString ip s).length, asString := s } := by
  unfold quoteString
  simp only
  have hQ := suitableQuote_isQ s
  have hq := suitableQuote_cases s
  have hcq := consumeQuoted_qsc_ctx ip hQ false s 0 (Or.inr rfl) X
  have hxq := headSat_quote_ne hX hq
  have hpd : peekDelimiter (suitableQuote s :: (quoteStringContent ip (suitableQuote s).toNat (s.length + 1) s ++
      [suitableQuote s] ++ X)) = some [suitableQuote s] := by
    cases s with
    | nil =>
      generalize suitableQuote [] = q at hq hxq
      cases X with
      | nil => rcases hq with rfl | rfl <;> simp [peekDelimiter, quoteStringContent]
      | cons x t =>
        simp only [List.head?_cons, ne_eq, Option.some.injEq] at hxq
        rcases hq with rfl | rfl <;> simp [peekDelimiter, quoteStringContent, hxq]
    | cons b t =>
      obtain ⟨c, r, h1, h2⟩ := qsc_head ip hQ (t.length + 1) b t
      simp only [List.length_cons]
      rw [h1]
      generalize suitableQuote (b :: t) = q at hq h2
      rcases hq with rfl | rfl <;> simp [peekDelimiter, h2]
  generalize suitableQuote s = q at *
  generalize quoteStringContent ip q.toNat (s.length + 1) s = C at *
  have hcl : classify q = .strStart := by rcases hq with rfl | rfl <;> decide
  simp only [List.cons_append, List.nil_append, List.append_assoc, consumeToken, hcl, stringTok] at hpd hcq ⊢
  have hsp : strPrefix (q :: (C ++ q :: X)) 3 0 false false = some (0, false, false) := by
    rcases hq with rfl | rfl <;> simp [strPrefix]
  rw [hsp]
  simp only [List.drop_zero, hpd, Nat.add_zero, Bool.not_false, Bool.false_eq_true, if_false, hcq]
  simp [quotedTok]

theorem flatMap_quoteByte_length (q : UInt8) (hq : q = 34 ∨ q = 39) (bs : Bytes) :
    bs.length ≤ (bs.flatMap (quoteByte q)).length := by
  induction bs with
  | nil => simp
  | cons b bs ih =>
    simp only [List.flatMap_cons, List.length_cons, List.length_append]
    have : 1 ≤ (quoteByte q b).length := by
      rcases quoteByte_cases q hq b with ⟨_, h2⟩ | ⟨_, h2⟩ | ⟨_, _, _, h4⟩ | ⟨h1, _⟩
      · rw [h2]; simp
      · rw [h2]; simp
      · rw [h4]; simp
      · rw [h1]; simp [hex2]
    omega

/-- `QuoteSQLBytes(bs)` followed by `X` -/
theorem consumeToken_quoteBytes_ctx (bs : Bytes) (lk : TokKind) {X : Bytes} (hX : headSat isQuote X = false) :
    consumeToken (quoteBytes bs ++ X) 0 lk false =
      .ok { kind := .bytes, len := (quoteBytes bs).length, asString := bs } := by
  unfold quoteBytes
  simp only
  generalize hqq : suitableQuote bs = q
  have hq : q = 34 ∨ q = 39 := by rw [← hqq]; exact suitableQuote_cases bs
  have hxq := headSat_quote_ne hX hq
  have hcl : classify 98 = .strStart := by decide
  simp only [List.cons_append, List.nil_append, List.append_assoc, consumeToken, hcl, stringTok]
  have hsp : strPrefix (98 :: q :: (bs.flatMap (quoteByte q) ++ q :: X)) 3 0 false false = some (1, true, false) := by
    rcases hq with rfl | rfl <;> simp [strPrefix]
  rw [hsp]
  simp only [List.drop_succ_cons, List.drop_zero]
  have hpd : peekDelimiter (q :: (bs.flatMap (quoteByte q) ++ q :: X)) = some [q] := by
    cases bs with
    | nil =>
      cases X with
      | nil => rcases hq with rfl | rfl <;> simp [peekDelimiter]
      | cons x t =>
        simp only [List.head?_cons, ne_eq, Option.some.injEq] at hxq
        rcases hq with rfl | rfl <;> simp [peekDelimiter, hxq]
    | cons b bs' =>
      obtain ⟨c, t, h1, h2⟩ := body_head q hq b bs'
      rw [h1]
      rcases hq with rfl | rfl <;> simp [peekDelimiter, h2]
  rw [hpd]
  simp only
  have hl := bytes_loop q hq bs [q] X (0 + 1) (0 + 1) []
    ((q :: (bs.flatMap (quoteByte q) ++ q :: X)).length + 2) (by
      simp only [List.length_cons, List.length_append]
      have := flatMap_quoteByte_length q hq bs
      omega)
  simp only [List.length_cons, List.length_nil, List.nil_append, List.cons_append, Nat.zero_add,
    List.append_assoc] at hl
  simp only [consumeQuotedContent, Bool.not_true, List.length_cons, List.length_nil, Nat.zero_add]
  rw [hl]
  simp [quotedTok]
  omega

/-- the back-quoted form of `QuoteSQLIdent(s)` followed by `X` -/
theorem consumeToken_bquote_ctx (ip : Nat → Bool) (s : Bytes) (hs : s ≠ []) (lk : TokKind) (X : Bytes) :
    consumeToken ([96] ++ quoteStringContent ip 96 (s.length + 1) s ++ [96] ++ X) 0 lk false =
      .ok { kind := .ident, len := ([96] ++ quoteStringContent ip 96 (s.length + 1) s ++ [96]).length, asString := s } := by
  have hQ : IsQ 96 := Or.inr (Or.inr rfl)
  have hcq := consumeQuoted_qsc_ctx ip hQ true s 0 (Or.inl hs) X
  have h96 : (96 : UInt8).toNat = 96 := rfl
  rw [h96] at hcq
  have hcl : classify 96 = .bquote := by decide
  simp only [List.cons_append, List.nil_append, List.append_assoc, consumeToken, hcl] at hcq ⊢
  rw [hcq]
  simp [quotedTok]

/-! ## transport to the reference lexer -/

/-- what the model's scanner accepts in normal mode, the reference lexer accepts with the same record -/
theorem token_of_consume {R : Bytes} {p0 : Nat} {lk : TokKind} {sc : Scan}
    (h : consumeToken R p0 lk false = .ok sc) :
    token R lk false = some { kind := sc.kind, len := sc.len, value := sc.asString, base := sc.base } := by
  have := MF.Refine.token_refines R p0 lk false
  simp only [Bool.false_eq_true, if_false, h] at this
  cases ht : token R lk false with
  | none => rw [ht] at this; exact this.elim
  | some t =>
    rw [ht] at this
    obtain ⟨h1, h2, h3, h4, _⟩ := this
    cases t
    simp_all

/-- in field mode a first byte that is not an identifier character is scanned as in normal mode -/
theorem token_field_eq {c : UInt8} (t : Bytes) (lk : TokKind) (hc : isIdentChar c = false) :
    token (c :: t) lk true = token (c :: t) lk false := by
  unfold token
  simp only [hc, Bool.and_false, Bool.false_and]

end MF.Concat
