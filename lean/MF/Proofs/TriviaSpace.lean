/-
  MF.Proofs.TriviaSpace — the trivia loop of `nextToken` consumes exactly a `Trivia` string when what follows
  does not start trivia.
-/
import MF.Proofs.TriviaBytes
namespace MF.Props.C16
open MF MF.Lex

/-! ### decoding one whitespace rune is independent of what follows -/

theorem isSpace_runeError : Utf8.isSpace Utf8.runeError = false := by decide

theorem dec2_append (b0 : Nat) (t X : Bytes) (h : (Utf8.dec2 b0 t).1 ≠ Utf8.runeError) :
    Utf8.dec2 b0 (t ++ X) = Utf8.dec2 b0 t := by
  match t with
  | [] => simp [Utf8.dec2] at h
  | _ :: _ => rfl

theorem dec3_append (b0 : Nat) (t X : Bytes) (h : (Utf8.dec3 b0 t).1 ≠ Utf8.runeError) :
    Utf8.dec3 b0 (t ++ X) = Utf8.dec3 b0 t := by
  match t with
  | [] => simp [Utf8.dec3] at h
  | [_] => simp [Utf8.dec3] at h
  | _ :: _ :: _ => rfl

theorem dec4_append (b0 : Nat) (t X : Bytes) (h : (Utf8.dec4 b0 t).1 ≠ Utf8.runeError) :
    Utf8.dec4 b0 (t ++ X) = Utf8.dec4 b0 t := by
  match t with
  | [] => simp [Utf8.dec4] at h
  | [_] => simp [Utf8.dec4] at h
  | [_, _] => simp [Utf8.dec4] at h
  | _ :: _ :: _ :: _ => rfl

theorem decodeRune_append (w X : Bytes) (h : (Utf8.decodeRune w).1 ≠ Utf8.runeError) :
    Utf8.decodeRune (w ++ X) = Utf8.decodeRune w := by
  match w with
  | [] => simp [Utf8.decodeRune] at h
  | s0 :: t =>
    simp only [Utf8.decodeRune, List.cons_append] at h ⊢
    split
    · rfl
    · split
      · rfl
      · split
        · rename_i h1 h2 h3
          simp only [h1, h2, h3, if_false, if_true] at h
          exact dec2_append _ _ _ h
        · split
          · rename_i h1 h2 h3 h4
            simp only [h1, h2, h3, h4, if_false, if_true] at h
            exact dec3_append _ _ _ h
          · split
            · rename_i h1 h2 h3 h4 h5
              simp only [h1, h2, h3, h4, h5, if_false, if_true] at h
              exact dec4_append _ _ _ h
            · rfl

theorem SpaceRune.decode {w : Bytes} (h : SpaceRune w) (X : Bytes) :
    Utf8.decodeRune (w ++ X) = Utf8.decodeRune w := by
  apply decodeRune_append
  intro he
  have := h.2.2
  rw [he, isSpace_runeError] at this
  cases this

theorem ascii_space_lead : ∀ c : UInt8, c.toNat < 128 → Utf8.isSpace c.toNat = true → wsLead c = true := by
  apply UInt8.forall_of_fin; decide +kernel

theorem nonascii_lead : ∀ c : UInt8, ¬ c.toNat < 128 → wsLead c = true := by
  apply UInt8.forall_of_fin; decide +kernel

theorem SpaceRune.pos {w : Bytes} (h : SpaceRune w) : 0 < w.length := by
  cases w with
  | nil => exact absurd rfl h.1
  | cons _ _ => simp

theorem SpaceRune.head {w : Bytes} (h : SpaceRune w) : ∃ c t, w = c :: t ∧ wsLead c = true := by
  match w, h with
  | [], h => exact absurd rfl h.1
  | c :: t, h =>
    refine ⟨c, t, rfl, ?_⟩
    by_cases hc : c.toNat < 128
    · have h3 := h.2.2
      have hc' : c.toNat < 0x80 := hc
      simp only [Utf8.decodeRune, hc', if_true] at h3
      exact ascii_space_lead c hc h3
    · exact nonascii_lead c hc

/-! ### `skipSpaces` -/

theorem skipSpaces_rune {w : Bytes} (h : SpaceRune w) (X : Bytes) (fuel : Nat) :
    skipSpaces (fuel + 1) (w ++ X) = w.length + skipSpaces fuel X := by
  have hne : (w ++ X).isEmpty = false := by
    have := h.pos
    cases w with
    | nil => simp at this
    | cons _ _ => rfl
  simp only [skipSpaces, hne, Bool.false_eq_true, if_false, h.decode X, h.2.2, if_true, h.2.1,
    List.drop_left]

theorem skipSpaces_ascii {c : UInt8} (t : Bytes) (hc : c.toNat < 128) (hs : Utf8.isSpace c.toNat = false)
    (fuel : Nat) : skipSpaces fuel (c :: t) = 0 := by
  cases fuel with
  | zero => rfl
  | succ f =>
    have hc' : c.toNat < 0x80 := hc
    simp [skipSpaces, Utf8.decodeRune, hc', hs]

theorem skipSpaces_nil (fuel : Nat) : skipSpaces fuel [] = 0 := by
  cases fuel <;> simp [skipSpaces]

/-- a run of whitespace runes -/
inductive Spaces : Bytes → Prop
  | nil : Spaces []
  | cons {w s : Bytes} : SpaceRune w → Spaces s → Spaces (w ++ s)

theorem skipSpaces_spaces {s : Bytes} (hs : Spaces s) {X : Bytes} (hX : ∀ f, skipSpaces f X = 0) :
    ∀ fuel, s.length ≤ fuel → skipSpaces fuel (s ++ X) = s.length := by
  induction hs with
  | nil => intro fuel _; simpa using hX fuel
  | @cons w s hw _ ih =>
    intro fuel hf
    have hwl : 0 < w.length := hw.pos
    simp only [List.length_append] at hf
    cases fuel with
    | zero => omega
    | succ f =>
      rw [List.append_assoc, skipSpaces_rune hw, ih f (by omega)]
      simp

/-! ### comments -/

theorem scanUntil_nl {u : Bytes} (h : 10 ∉ u) (X : Bytes) : scanUntil [10] (u ++ 10 :: X) = some (u.length + 1) := by
  induction u with
  | nil => simp [scanUntil]
  | cons c t ih =>
    simp only [List.mem_cons, not_or] at h
    have hc : ¬ (c = 10) := fun e => h.1 e.symm
    simp [scanUntil, hc, ih h.2]

theorem scanUntil_nl_none' {u : Bytes} (h : 10 ∉ u) : scanUntil [10] u = none := by
  induction u with
  | nil => simp [scanUntil]
  | cons c t ih =>
    simp only [List.mem_cons, not_or] at h
    have hc : ¬ (c = 10) := fun e => h.1 e.symm
    simp [scanUntil, hc, ih h.2]

theorem scanUntil_close {b : Bytes} (h : ¬ ([42, 47] <:+: b ++ [42])) (X : Bytes) :
    scanUntil [42, 47] (b ++ 42 :: 47 :: X) = some (b.length + 2) := by
  induction b with
  | nil => simp [scanUntil]
  | cons c t ih =>
    have ht : ¬ ([42, 47] <:+: t ++ [42]) := by
      intro ⟨u, v, e⟩
      exact h ⟨c :: u, v, by simp [← e]⟩
    have hc : ¬ ((c :: (t ++ 42 :: 47 :: X)).take 2 = [42, 47]) := by
      intro e
      match t, e with
      | [], e => simp at e
      | d :: t', e =>
        simp at e
        apply h
        refine ⟨[], t' ++ [42], ?_⟩
        simp [e.1, e.2]
    simp only [List.cons_append, scanUntil, List.length_cons, List.length_nil]
    rw [if_neg (by simpa using hc), ih ht]
    simp

/-- `c` followed by `X` is skipped as exactly one comment -/
structure IsComment (c X : Bytes) : Prop where
  ne : c ≠ []
  nsp : ∀ f, skipSpaces f (c ++ X) = 0
  skip : ∀ p, skipComment (c ++ X) p false = .ok (c.length, false)

theorem isComment_line {o b : Bytes} (ho : LineOpener o) (hb : 10 ∉ b) (X : Bytes) :
    IsComment (o ++ b ++ [10]) X := by
  have h10 : 10 ∉ o ++ b := by
    rcases ho with rfl | rfl | rfl <;> simpa using hb
  have hsu := scanUntil_nl h10 X
  refine ⟨by rcases ho with rfl | rfl | rfl <;> simp, ?_, ?_⟩
  · intro f
    rcases ho with rfl | rfl | rfl <;> exact skipSpaces_ascii _ (by decide) (by decide) f
  · intro p
    have hl : isLineCommentStart (o ++ b ++ [10] ++ X) = true := by
      rcases ho with rfl | rfl | rfl <;> simp [isLineCommentStart]
    have e : o ++ b ++ [10] ++ X = (o ++ b) ++ 10 :: X := by simp
    unfold skipComment
    rw [if_pos hl, e, hsu]
    simp [Nat.add_assoc]

theorem isComment_lineEnd {o b : Bytes} (ho : LineOpener o) (hb : 10 ∉ b) : IsComment (o ++ b) [] := by
  have h10 : 10 ∉ o ++ b := by
    rcases ho with rfl | rfl | rfl <;> simpa using hb
  have hsu := scanUntil_nl_none' h10
  refine ⟨by rcases ho with rfl | rfl | rfl <;> simp, ?_, ?_⟩
  · intro f
    rcases ho with rfl | rfl | rfl <;> exact skipSpaces_ascii _ (by decide) (by decide) f
  · intro p
    have hl : isLineCommentStart (o ++ b ++ []) = true := by
      rcases ho with rfl | rfl | rfl <;> simp [isLineCommentStart]
    unfold skipComment
    rw [if_pos hl, List.append_nil, hsu]
    simp

theorem isComment_block {b : Bytes} (hb : ¬ ([42, 47] <:+: b ++ [42])) (X : Bytes) :
    IsComment ([47, 42] ++ b ++ [42, 47]) X := by
  refine ⟨by simp, ?_, ?_⟩
  · intro f
    exact skipSpaces_ascii _ (by decide) (by decide) f
  · intro p
    have h1 : isLineCommentStart ([47, 42] ++ b ++ [42, 47] ++ X) = false := by
      simp [isLineCommentStart]
    have h2 : isBlockCommentStart ([47, 42] ++ b ++ [42, 47] ++ X) = true := by
      simp [isBlockCommentStart]
    have e : ([47, 42] ++ b ++ [42, 47] ++ X).drop 2 = b ++ 42 :: 47 :: X := by simp
    unfold skipComment
    rw [h1, h2, e, scanUntil_close hb]
    simp

/-- what follows the trivia does not start trivia -/
structure NoTriviaStart (X : Bytes) : Prop where
  nsp : ∀ f, skipSpaces f X = 0
  ncm : ∀ p, skipComment X p false = .ok (0, false)

theorem noTriviaStart_nil : NoTriviaStart [] :=
  ⟨skipSpaces_nil, fun _ => by simp [skipComment, isLineCommentStart, isBlockCommentStart]⟩

/-- trivia strings in the shape the loop sees them: `spaces (comment spaces)*` -/
inductive TriviaS (X : Bytes) : Bytes → Prop
  | spaces {s : Bytes} : Spaces s → TriviaS X s
  | comment {s c τ : Bytes} : Spaces s → IsComment c (τ ++ X) → TriviaS X τ → TriviaS X (s ++ c ++ τ)

theorem TriviaS.space {X w τ : Bytes} (hw : SpaceRune w) (h : TriviaS X τ) : TriviaS X (w ++ τ) := by
  cases h with
  | spaces hs => exact .spaces (.cons hw hs)
  | comment hs hc ht =>
    rename_i s c τ'
    have : w ++ (s ++ c ++ τ') = (w ++ s) ++ c ++ τ' := by simp
    rw [this]
    exact .comment (.cons hw hs) hc ht

theorem TriviaS.cmt {X c τ : Bytes} (hc : IsComment c (τ ++ X)) (h : TriviaS X τ) : TriviaS X (c ++ τ) := by
  have := TriviaS.comment (X := X) Spaces.nil hc h
  simpa using this

theorem Trivia.toS {e : Bool} {τ : Bytes} (h : Trivia e τ) {X : Bytes} (hX : e = true → X = []) : TriviaS X τ := by
  induction h with
  | nil => exact .spaces .nil
  | space hw _ ih => exact (ih hX).space hw
  | @line e o b τ ho hb _ ih =>
    have := isComment_line ho hb (τ ++ X)
    exact TriviaS.cmt this (ih hX)
  | @block e b τ hb _ ih =>
    have := isComment_block hb (τ ++ X)
    exact TriviaS.cmt this (ih hX)
  | lineEnd ho hb =>
    have hx := hX rfl
    subst hx
    have := TriviaS.cmt (X := []) (τ := []) (by simpa using isComment_lineEnd ho hb) (.spaces .nil)
    simpa using this

/-- the trivia loop consumes exactly the trivia string -/
theorem triviaLoop_triviaS {buf X τ : Bytes} (hτ : TriviaS X τ) (hX : NoTriviaStart X) :
    ∀ (fuel pos : Nat) (cs : List Comment), buf.drop pos = τ ++ X → pos ≤ buf.length → τ.length < fuel →
      ∃ cs' sp, triviaLoop buf false fuel pos cs = .ok (pos + τ.length, cs', sp, false) := by
  induction hτ with
  | @spaces s hs =>
    intro fuel pos cs hd hp hf
    have hlen : s.length + X.length = buf.length - pos := by
      have := congrArg List.length hd
      simp only [List.length_drop, List.length_append] at this
      omega
    cases fuel with
    | zero => omega
    | succ f =>
      simp only [triviaLoop]
      rw [hd, skipSpaces_spaces hs hX.nsp _ (by omega), slice?_of_le (by omega) (by omega)]
      simp only
      have hd2 : buf.drop (pos + s.length) = X := by
        rw [← List.drop_drop, hd, List.drop_left]
      rw [hd2, hX.ncm]
      exact ⟨_, _, rfl⟩
  | @comment s c τ hs hc _ ih =>
    intro fuel pos cs hd hp hf
    simp only [List.length_append] at hf
    have hlen : s.length + c.length + τ.length + X.length = buf.length - pos := by
      have := congrArg List.length hd
      simp only [List.length_drop, List.length_append] at this
      omega
    have hcl : 0 < c.length := by
      have := hc.ne
      cases c with
      | nil => exact absurd rfl this
      | cons _ _ => simp
    cases fuel with
    | zero => omega
    | succ f =>
      simp only [triviaLoop]
      have e1 : s ++ c ++ τ ++ X = s ++ (c ++ (τ ++ X)) := by simp
      rw [hd, e1, skipSpaces_spaces hs hc.nsp _ (by omega), slice?_of_le (by omega) (by omega)]
      simp only
      have hd2 : buf.drop (pos + s.length) = c ++ (τ ++ X) := by
        rw [← List.drop_drop, hd, e1, List.drop_left]
      rw [hd2, hc.skip]
      simp only
      have hn0 : (c.length == 0) = false := by rw [beq_eq_false_iff_ne]; omega
      rw [hn0]
      simp only [Bool.false_eq_true, if_false]
      rw [slice?_of_le (by omega) (by omega)]
      simp only
      have hd3 : buf.drop (pos + s.length + c.length) = τ ++ X := by
        rw [← List.drop_drop, hd2, List.drop_left]
      obtain ⟨cs', sp, h⟩ := ih f (pos + s.length + c.length) _ hd3 (by omega) (by omega)
      refine ⟨cs', sp, ?_⟩
      rw [h]
      simp only [List.length_append]
      have : pos + s.length + c.length + τ.length = pos + (s.length + c.length + τ.length) := by omega
      rw [this]

theorem triviaLoop_trivia_ok {buf X τ : Bytes} {e : Bool} (hτ : Trivia e τ) (he : e = true → X = [])
    (hX : NoTriviaStart X) {pos : Nat} (hd : buf.drop pos = τ ++ X) (hp : pos ≤ buf.length) :
    ∃ cs' sp, triviaLoop buf false (buf.length + 2) pos [] = .ok (pos + τ.length, cs', sp, false) := by
  apply triviaLoop_triviaS (hτ.toS he) hX _ _ _ hd hp
  have := congrArg List.length hd
  simp only [List.length_drop, List.length_append] at this
  omega

end MF.Props.C16
