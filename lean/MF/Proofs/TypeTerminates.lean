/-
  MF.Proofs.TypeTerminates — TOTAL termination of the model of `ParseType`: on EVERY token list, accepted or rejected,
  the fuel-driven model answers `ok` or `raise` — never `outOfFuel` — as soon as the fuel is at least

      typeFuel ts = 3 * (expand ts).length + 2        (≤ 6 * ts.length + 2 ≤ topFuel ts = 6 * (ts.length + 2))

  and from there on the answer does not depend on the fuel.

  Why a bound in the number of tokens exists.  Fuel is CALL DEPTH (every recursive function passes `fuel - 1` to its
  callees; a loop iteration is a call).  The look-ahead functions `lookaheadType` / `lookaheadSimpleType` /
  `lookaheadKind` are not recursive (they read one or two tokens), and the leaves `expect`, `parseIdent`,
  `parseSimpleType`, `parseGt` take no fuel.  The measure of a state is `msz ts = (expand ts).length` — the number of
  tokens left with every `>>` / `<>` counted twice, so that the in-place split of a `>>` (head REWRITTEN, list not
  shortened) decreases it by one like a consumed token.  The longest call chain that consumes nothing is
  `parseFieldList → parseFieldType → parseType → parseStructType → parseStructTypeFields → parseFieldList`: five calls for
  the two tokens `STRUCT` `<`; every other cycle of the call graph consumes at least as many tokens per call.  Hence the
  per-function bounds `3 * msz ts + d` below (`TermAt`), proved by induction on the fuel; the only place where the state
  AFTER a callee matters is the `fieldLoop` that follows a `parseFieldType`, and there soundness (`SoundAt.field`: the
  consumed tokens match the non-empty yield of the field) gives the decrease of the measure.

  Fuel monotonicity (`MonoAt`, `Le`): an answer other than `outOfFuel` survives more fuel.  Together:
  `parseType_stable`, `parseTypeTop_stable`.
-/
import MF.Proofs.TypeSound
import MF.Proofs.TypeComplete
import MF.Proofs.TypeUnique
namespace MF.TypeP
open MF.TypeG

/-! ## `Res`: never out of fuel -/

theorem Res.bind_ne_oof {α β : Type} {r : Res α} {k : α → Res β} (hr : r ≠ .outOfFuel)
    (hk : ∀ a, r = .ok a → k a ≠ .outOfFuel) : r.bind k ≠ .outOfFuel := by
  cases r with
  | ok a => exact hk a rfl
  | raise => intro h; cases h
  | outOfFuel => exact absurd rfl hr

theorem Res.ok_ne_oof {α : Type} (a : α) : (Res.ok a : Res α) ≠ .outOfFuel := fun h => by cases h
theorem Res.raise_ne_oof {α : Type} : (Res.raise : Res α) ≠ .outOfFuel := fun h => by cases h

theorem Le.trans {α : Type} {a b c : Res α} (h1 : Le a b) (h2 : Le b c) : Le a c := by
  rcases h1 with h | h
  · exact Or.inl h
  · rw [h]; exact h2

/-! ## the leaves take no fuel -/

theorem expect_ne_oof (k : TK) (ts : PState) : expect k ts ≠ .outOfFuel := by
  unfold expect; split
  · exact Res.ok_ne_oof _
  · exact Res.raise_ne_oof

theorem parseIdent_ne_oof (ts : PState) : parseIdent ts ≠ .outOfFuel :=
  Res.bind_ne_oof (expect_ne_oof _ _) (fun _ _ => Res.ok_ne_oof _)

theorem parseSimpleType_ne_oof (ts : PState) : parseSimpleType ts ≠ .outOfFuel := by
  refine Res.bind_ne_oof (expect_ne_oof _ _) (fun p _ => ?_)
  cases simpleName? p.1 with
  | some n => exact Res.ok_ne_oof _
  | none => exact Res.raise_ne_oof

theorem parseGt_ne_oof (ts : PState) : parseGt ts ≠ .outOfFuel := by
  unfold parseGt; split
  · exact Res.ok_ne_oof _
  · exact Res.bind_ne_oof (expect_ne_oof _ _) (fun _ _ => Res.ok_ne_oof _)

/-! ## the measure: tokens left, `>>` and `<>` counted twice -/

/-- number of tokens in front of the parser with every `>>` / `<>` counted as two: consuming a token AND splitting a
`>>` in place both decrease it -/
def msz (ts : PState) : Nat := (expand ts).length

theorem msz_cons (t : Token) (ts : PState) : msz ts + 1 ≤ msz (t :: ts) := by
  simp only [msz, expand]
  split <;> simp only [List.length_cons] <;> omega

theorem msz_le (ts : PState) : msz ts ≤ 2 * ts.length := expand_length ts

/-- the in-place split of a `>>` decreases the measure by exactly one -/
theorem msz_split {t : Token} (ts : PState) (h : tk t.kind = .shr) : msz (splitTok t :: ts) + 1 = msz (t :: ts) := by
  simp only [msz, expand_splitTok, expand_shr ts h, List.length_cons]

/-- `p.expect(k)` (k not `<eof>`) consumed a token -/
theorem expect_msz {k : TK} {ts : PState} {a : Token × PState} (h : expect k ts = .ok a) (hk : k ≠ .eof) :
    msz a.2 + 1 ≤ msz ts := by
  obtain ⟨t, ts'⟩ := a
  obtain ⟨rfl, _⟩ := expect_ok h hk
  exact msz_cons _ _

theorem parseIdent_msz {ts : PState} {a : Ident × PState} (h : parseIdent ts = .ok a) : msz a.2 + 1 ≤ msz ts := by
  obtain ⟨i, ts'⟩ := a
  obtain ⟨t, rfl, _, _⟩ := parseIdent_ok h
  exact msz_cons _ _

/-- what soundness says about the measure: the consumed tokens are as many as the descriptions they match -/
theorem Sp.msz_eq {ts ts' : PState} {ys : List YT} (h : Sp ts ts' ys) : msz ts = ys.length + msz ts' := by
  obtain ⟨pre, e, m⟩ := h
  simp only [msz, e, List.length_append, m.length]

/-- a successful `parseType` consumed at least one (expanded) token -/
theorem parseType_msz {f : Nat} {ts : PState} {a : Ty × PState} (h : parseType f ts = .ok a) :
    msz a.2 + 1 ≤ msz ts := by
  obtain ⟨t, ts'⟩ := a
  obtain ⟨s, w⟩ := (sound_all f).type _ _ _ h
  obtain ⟨y, ys, e, _⟩ := yieldT_head t w
  have := s.msz_eq
  rw [e, List.length_cons] at this
  simp only; omega

/-- a successful `parseFieldType` consumed at least one (expanded) token -/
theorem parseFieldType_msz {f : Nat} {ts : PState} {a : (Option Ident × Ty) × PState}
    (h : parseFieldType f ts = .ok a) : msz a.2 + 1 ≤ msz ts := by
  obtain ⟨⟨i, t⟩, ts'⟩ := a
  obtain ⟨s, w⟩ := (sound_all f).field _ _ _ _ h
  obtain ⟨y, ys, e, _⟩ := yieldT_head t w
  have := s.msz_eq
  rw [e, List.length_append, List.length_cons] at this
  simp only; omega

/-! ## termination of the path loop and of `parseNamedType` -/

theorem pathLoop_ne_oof : ∀ (f : Nat) (ts : PState), msz ts + 1 ≤ f → pathLoop f ts ≠ .outOfFuel
  | 0, _, h => by omega
  | f + 1, ts, h => by
    simp only [pathLoop]
    split
    · rename_i hc
      obtain ⟨d, tl, rfl, _⟩ := cur_ne_eof hc (by decide)
      refine Res.bind_ne_oof (parseIdent_ne_oof _) (fun p hp => ?_)
      have h1 := parseIdent_msz hp
      have h2 := msz_cons d tl
      simp only [List.tail_cons] at h1
      exact Res.bind_ne_oof (pathLoop_ne_oof f p.2 (by omega)) (fun _ _ => Res.ok_ne_oof _)
    · exact Res.ok_ne_oof _

theorem parseNamedType_ne_oof {f : Nat} {ts : PState} (h : msz ts ≤ f) : parseNamedType f ts ≠ .outOfFuel := by
  unfold parseNamedType parseIdentOrPath
  refine Res.bind_ne_oof (Res.bind_ne_oof (parseIdent_ne_oof _) (fun p hp => ?_)) (fun _ _ => Res.ok_ne_oof _)
  have h1 := parseIdent_msz hp
  exact Res.bind_ne_oof (pathLoop_ne_oof f p.2 (by omega)) (fun _ _ => Res.ok_ne_oof _)

/-! ## termination of the mutually recursive productions -/

/-- with fuel `f`, every production answers on every state whose measure `m` satisfies `3 * m + d ≤ f` -/
structure TermAt (f : Nat) : Prop where
  type : ∀ ts, 3 * msz ts + 2 ≤ f → parseType f ts ≠ .outOfFuel
  array : ∀ ts, 3 * msz ts + 1 ≤ f → parseArrayType f ts ≠ .outOfFuel
  struct : ∀ ts, 3 * msz ts + 1 ≤ f → parseStructType f ts ≠ .outOfFuel
  fields : ∀ ts, 3 * msz ts + 2 ≤ f → parseStructTypeFields f ts ≠ .outOfFuel
  list : ∀ ts, 3 * msz ts + 4 ≤ f → parseFieldList f ts ≠ .outOfFuel
  loop : ∀ ts, 3 * msz ts + 1 ≤ f → fieldLoop f ts ≠ .outOfFuel
  field : ∀ ts, 3 * msz ts + 3 ≤ f → parseFieldType f ts ≠ .outOfFuel

theorem term_zero : TermAt 0 := by
  constructor <;> intro ts h <;> omega

theorem term_succ {f : Nat} (ih : TermAt f) : TermAt (f + 1) where
  type := by
    intro ts h
    simp only [parseType]
    split
    · split
      · exact parseNamedType_ne_oof (by omega)
      · exact parseSimpleType_ne_oof ts
    · exact ih.array ts (by omega)
    · exact ih.struct ts (by omega)
    · exact Res.raise_ne_oof
  array := by
    intro ts h
    simp only [parseArrayType]
    refine Res.bind_ne_oof (expect_ne_oof _ _) (fun a ha => ?_)
    refine Res.bind_ne_oof (expect_ne_oof _ _) (fun l hl => ?_)
    have h1 := expect_msz ha (by decide)
    have h2 := expect_msz hl (by decide)
    refine Res.bind_ne_oof (ih.type l.2 (by omega)) (fun t _ => ?_)
    exact Res.bind_ne_oof (parseGt_ne_oof _) (fun _ _ => Res.ok_ne_oof _)
  struct := by
    intro ts h
    simp only [parseStructType]
    refine Res.bind_ne_oof (expect_ne_oof _ _) (fun s hs => ?_)
    have h1 := expect_msz hs (by decide)
    split
    · exact Res.raise_ne_oof
    · exact Res.bind_ne_oof (ih.fields s.2 (by omega)) (fun _ _ => Res.ok_ne_oof _)
  fields := by
    intro ts h
    simp only [parseStructTypeFields]
    split
    · exact Res.ok_ne_oof _
    · refine Res.bind_ne_oof (expect_ne_oof _ _) (fun l hl => ?_)
      have h1 := expect_msz hl (by decide)
      refine Res.bind_ne_oof ?_ (fun fs _ => Res.bind_ne_oof (parseGt_ne_oof _) (fun _ _ => Res.ok_ne_oof _))
      split
      · exact ih.list l.2 (by omega)
      · exact Res.ok_ne_oof _
  list := by
    intro ts h
    simp only [parseFieldList]
    refine Res.bind_ne_oof (ih.field ts (by omega)) (fun x hx => ?_)
    have h1 := parseFieldType_msz hx
    exact Res.bind_ne_oof (ih.loop x.2 (by omega)) (fun _ _ => Res.ok_ne_oof _)
  loop := by
    intro ts h
    simp only [fieldLoop]
    split
    · rename_i hc
      obtain ⟨c, tl, rfl, _⟩ := cur_ne_eof hc (by decide)
      have h0 := msz_cons c tl
      simp only [List.tail_cons]
      refine Res.bind_ne_oof (ih.field tl (by omega)) (fun x hx => ?_)
      have h1 := parseFieldType_msz hx
      exact Res.bind_ne_oof (ih.loop x.2 (by omega)) (fun _ _ => Res.ok_ne_oof _)
    · exact Res.ok_ne_oof _
  field := by
    intro ts h
    simp only [parseFieldType]
    split
    · refine Res.bind_ne_oof (parseIdent_ne_oof _) (fun i hi => ?_)
      have h1 := parseIdent_msz hi
      exact Res.bind_ne_oof (ih.type i.2 (by omega)) (fun _ _ => Res.ok_ne_oof _)
    · exact Res.bind_ne_oof (ih.type ts (by omega)) (fun _ _ => Res.ok_ne_oof _)

theorem term_all : ∀ f, TermAt f
  | 0 => term_zero
  | f + 1 => term_succ (term_all f)

/-! ## fuel monotonicity -/

theorem pathLoop_le : ∀ (f : Nat) (ts : PState), Le (pathLoop f ts) (pathLoop (f + 1) ts)
  | 0, _ => Le.oof _
  | f + 1, ts => by
    rw [pathLoop, pathLoop]
    split
    · exact Le.bind (Le.refl _) (fun p => Le.bind (pathLoop_le f p.2) (fun _ => Le.refl _))
    · exact Le.refl _

theorem parseNamedType_le (f : Nat) (ts : PState) : Le (parseNamedType f ts) (parseNamedType (f + 1) ts) := by
  unfold parseNamedType parseIdentOrPath
  exact Le.bind (Le.bind (Le.refl _) (fun p => Le.bind (pathLoop_le f p.2) (fun _ => Le.refl _))) (fun _ => Le.refl _)

structure MonoAt (f : Nat) : Prop where
  type : ∀ ts, Le (parseType f ts) (parseType (f + 1) ts)
  array : ∀ ts, Le (parseArrayType f ts) (parseArrayType (f + 1) ts)
  struct : ∀ ts, Le (parseStructType f ts) (parseStructType (f + 1) ts)
  fields : ∀ ts, Le (parseStructTypeFields f ts) (parseStructTypeFields (f + 1) ts)
  list : ∀ ts, Le (parseFieldList f ts) (parseFieldList (f + 1) ts)
  loop : ∀ ts, Le (fieldLoop f ts) (fieldLoop (f + 1) ts)
  field : ∀ ts, Le (parseFieldType f ts) (parseFieldType (f + 1) ts)

theorem mono_zero : MonoAt 0 := by
  constructor <;> intros <;> exact Le.oof _

/-- close a goal `Le (body at f) (body at f+1)` after both sides have been unfolded once -/
macro "le_auto" ih:ident : tactic => `(tactic| (
  repeat' first
    | exact Le.refl _
    | exact ($ih).type _ | exact ($ih).array _ | exact ($ih).struct _ | exact ($ih).fields _ | exact ($ih).list _
    | exact ($ih).loop _ | exact ($ih).field _
    | exact parseNamedType_le _ _
    | apply Le.bind
    | intro _
    | split))

theorem mono_succ {f : Nat} (ih : MonoAt f) : MonoAt (f + 1) where
  type := by intro ts; simp only [parseType]; le_auto ih
  array := by intro ts; simp only [parseArrayType]; le_auto ih
  struct := by intro ts; simp only [parseStructType]; le_auto ih
  fields := by intro ts; simp only [parseStructTypeFields]; le_auto ih
  list := by intro ts; simp only [parseFieldList]; le_auto ih
  loop := by intro ts; simp only [fieldLoop]; le_auto ih
  field := by intro ts; simp only [parseFieldType]; le_auto ih

theorem mono_all : ∀ f, MonoAt f
  | 0 => mono_zero
  | f + 1 => mono_succ (mono_all f)

theorem le_of_le {α : Type} {p : Nat → Res α} (h : ∀ f, Le (p f) (p (f + 1))) {n m : Nat} (hnm : n ≤ m) :
    Le (p n) (p m) := by
  induction hnm with
  | refl => exact Le.refl _
  | step _ ih => exact ih.trans (h _)

/-- once `parseType` answers (a tree or a syntax error), every larger fuel gives the same answer -/
theorem parseType_mono {n m : Nat} {ts : PState} (hnm : n ≤ m) (h : parseType n ts ≠ .outOfFuel) :
    parseType m ts = parseType n ts :=
  (le_of_le (p := fun f => parseType f ts) (fun f => (mono_all f).type ts) hnm).eq rfl h

theorem parseTypeTop_mono {n m : Nat} {ts : PState} (hnm : n ≤ m) (h : parseTypeTop n ts ≠ .outOfFuel) :
    parseTypeTop m ts = parseTypeTop n ts := by
  unfold parseTypeTop at h ⊢
  have h' : parseType n ts ≠ .outOfFuel := by
    intro e; rw [e] at h; exact h rfl
  rw [parseType_mono hnm h']

/-! ## the bound -/

/-- fuel that suffices for EVERY token list: three per (expanded) token, plus two -/
def typeFuel (ts : PState) : Nat := 3 * (expand ts).length + 2

theorem typeFuel_le (ts : PState) : typeFuel ts ≤ 6 * ts.length + 2 := by
  have := expand_length ts
  unfold typeFuel; omega

/-- the driver's fuel is above the bound -/
theorem typeFuel_le_topFuel (ts : PState) : typeFuel ts ≤ topFuel ts := by
  have := typeFuel_le ts
  unfold topFuel; omega

/-- **`parseType` terminates on every state** -/
theorem parseType_ne_oof {f : Nat} {ts : PState} (h : typeFuel ts ≤ f) : parseType f ts ≠ .outOfFuel :=
  (term_all f).type ts h

/-- **`ParseType` (model) terminates on every token list** -/
theorem parseTypeTop_ne_oof {f : Nat} {ts : PState} (h : typeFuel ts ≤ f) : parseTypeTop f ts ≠ .outOfFuel := by
  unfold parseTypeTop
  refine Res.bind_ne_oof (parseType_ne_oof h) (fun p _ => ?_)
  split
  · exact Res.ok_ne_oof _
  · exact Res.raise_ne_oof

/-- from the bound on, the answer of `parseType` does not depend on the fuel -/
theorem parseType_stable {f g : Nat} {ts : PState} (hf : typeFuel ts ≤ f) (hg : typeFuel ts ≤ g) :
    parseType f ts = parseType g ts := by
  rw [parseType_mono hf (parseType_ne_oof (Nat.le_refl _)), parseType_mono hg (parseType_ne_oof (Nat.le_refl _))]

/-- from the bound on, the answer of the entry point does not depend on the fuel -/
theorem parseTypeTop_stable {f g : Nat} {ts : PState} (hf : typeFuel ts ≤ f) (hg : typeFuel ts ≤ g) :
    parseTypeTop f ts = parseTypeTop g ts := by
  rw [parseTypeTop_mono hf (parseTypeTop_ne_oof (Nat.le_refl _)),
    parseTypeTop_mono hg (parseTypeTop_ne_oof (Nat.le_refl _))]

/-! ## frame: what is left after a success is a suffix of the input, modulo the split -/

/-- after `ok` the expanded remaining state is a proper suffix of the expanded input state (the head of the remaining
state may be the second half of a split `>>`: that is what `expand` accounts for) -/
theorem parseType_ok_suffix {f : Nat} {ts ts' : PState} {t : Ty} (h : parseType f ts = .ok (t, ts')) :
    expand ts' <:+ expand ts ∧ (expand ts').length < (expand ts).length := by
  obtain ⟨⟨pre, e, _⟩, _⟩ := parseType_sound h
  have := parseType_msz h
  exact ⟨⟨pre, e.symm⟩, by simp only [msz] at this; omega⟩

end MF.TypeP
