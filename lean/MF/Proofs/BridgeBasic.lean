/-
  MF.Proofs.BridgeBasic — what the bridge theorems share: the regenerated tables as seen by the two generic
  interpreters, one-step unfolding of `sqlOf` / `goPosEnd` at a node whose table rows are known, node slices, `paren`.
-/
import MF.Model.Bridge
import MF.Gen.Catalog
import MF.Gen.SqlGo
import MF.Gen.PosDoc
import MF.Gen.PosGo
namespace MF.Bridge
open MF MF.Ast

/-- the regenerated `SQL()` tables -/
abbrev ST : SqlTables := Gen.sqlTables

/-- the regenerated position tables (the same value as `MF.Props.C04.genTables` and the driver's `posTables`) -/
def posTables : PosTables := ⟨Gen.kinds, Gen.posDoc, Gen.posGo⟩

abbrev PT : PosTables := posTables

/-! ## one step of the interpreters -/

/-- `SQL()` of a node whose body and field list are known: the body, evaluated on the node's context -/
theorem sqlOf_mk {T : SqlTables} {ip : Nat → Bool} {k : String} {sc : List (String × Scalar)} {kids : Kids}
    {body : SqlBody} {fields : List FieldDecl} (hb : T.bodies.lookup k = some body) (hf : T.fieldsOf k = fields) :
    sqlOf T ip (.mk k sc kids) = body.eval T ip ⟨k, sc, sqlKids T ip kids, fields, none, []⟩ := by
  rw [sqlOf, hb, hf]

/-- `(Pos(), End())` of a node whose row and field list are known and whose children evaluate -/
theorem goPosEnd_mk {T : PosTables} {k : String} {sc : List (String × Scalar)} {kids : Kids} {ks : List KidPE}
    {pe ee : GoPos} {fields : List FieldDecl} (hk : goKids T kids = some ks) (hr : T.go.lookup k = some (pe, ee))
    (hf : T.fieldsOf k = fields) :
    goPosEnd T (.mk k sc kids) =
      match pe.eval ⟨sc, ks, fields⟩, ee.eval ⟨sc, ks, fields⟩ with
      | some p, some e => some (p, e)
      | _, _ => none := by
  rw [goPosEnd, hk, hr, hf]
  rfl

theorem eval_cat (T : SqlTables) (ip : Nat → Bool) (c : SqlCtx) (a b : SqlE) :
    (SqlE.cat a b).eval T ip c =
      match a.eval T ip c, b.eval T ip c with
      | some x, some y => some (x ++ y)
      | _, _ => none := by rw [SqlE.eval]; rfl

theorem eval_lit (T : SqlTables) (ip : Nat → Bool) (c : SqlCtx) (s : String) : (SqlE.lit s).eval T ip c = some (B s) := by
  rw [SqlE.eval]

/-- a position stored by the parser is never `InvalidPos` -/
theorem natCast_not_neg (n : Nat) : ((n : Int) < 0) = False := by
  simp only [eq_iff_iff, iff_false]; omega

/-! ## `paren` -/

/-- `paren(p, e)` given `exprPrec(e)` and the text of `e` -/
def parenB (p ep : Nat) (s : Bytes) : Bytes := if ep ≤ p then s else B "(" ++ s ++ B ")"

theorem parenS_eq (p : Nat) (e : Expr.Expr) (s : Bytes) : Expr.parenS p e s = parenB p (Expr.exprPrec e) s := rfl

/-- a kind of the `exprPrec` switch without an inner switch -/
theorem exprPrecOf_plain {T : SqlTables} {k : String} {n : Nat} (hr : T.exprPrec.filter (·.1 == k) = [(k, none, n)])
    (sc : List (String × Scalar)) : T.exprPrecOf k sc = some n := by
  simp [SqlTables.exprPrecOf, hr, precMatch]

/-! ## node slices -/

/-- the elements of a slice field `f` from index `k` on -/
def sliceKids (f : String) : Nat → List Node → Kids
  | _, [] => .nil
  | k, n :: r => .cons f (some k) n (sliceKids f (k + 1) r)

theorem identKidsP_eq (f : String) (k : Nat) (ids : List Expr.PIdent) :
    identKidsP f k ids = sliceKids f k (ids.map identP) := by
  induction ids generalizing k with
  | nil => rfl
  | cons i r ih => simp [identKidsP, sliceKids, ih]

theorem identKidsT_eq (f : String) (k : Nat) (ids : List TypeP.Ident) :
    identKidsT f k ids = sliceKids f k (ids.map identT) := by
  induction ids generalizing k with
  | nil => rfl
  | cons i r ih => simp [identKidsT, sliceKids, ih]

theorem allSome_map_some (ss : List Bytes) : allSome (ss.map some) = some ss := by
  induction ss with
  | nil => rfl
  | cons a r ih => simp [allSome, ih]

theorem sqlKids_slice_filter (T : SqlTables) (ip : Nat → Bool) (f : String) (k : Nat) (nodes : List Node) :
    (sqlKids T ip (sliceKids f k nodes)).filter (fun kd => kd.field == f && kd.idx != none) =
      sqlKids T ip (sliceKids f k nodes) := by
  induction nodes generalizing k with
  | nil => rfl
  | cons n r ih => simp [sliceKids, sqlKids, ih]

theorem sqlKids_slice_contiguous (T : SqlTables) (ip : Nat → Bool) (f : String) (k : Nat) (nodes : List Node) :
    contiguous k (sqlKids T ip (sliceKids f k nodes)) = true := by
  induction nodes generalizing k with
  | nil => rfl
  | cons n r ih => simp [sliceKids, sqlKids, contiguous, ih]

theorem sqlKids_slice_sql (T : SqlTables) (ip : Nat → Bool) (f : String) (k : Nat) (nodes : List Node) :
    (sqlKids T ip (sliceKids f k nodes)).map (·.sql) = nodes.map (sqlOf T ip) := by
  induction nodes generalizing k with
  | nil => rfl
  | cons n r ih => simp [sliceKids, sqlKids, ih]

/-- `sqlJoin(x.F, sep)` when the children of the node are exactly the elements of `F` -/
theorem eval_sqlJoin_slice {T : SqlTables} {ip : Nat → Bool} {c : SqlCtx} {f : String} {sep : SqlE} {sepB : Bytes}
    {nodes : List Node} {ss : List Bytes} (hk : c.kids = sqlKids T ip (sliceKids f 0 nodes))
    (hc : c.cls f = some .nodes) (hsep : sep.eval T ip c = some sepB) (hs : nodes.map (sqlOf T ip) = ss.map some) :
    (SqlE.sqlJoin f sep).eval T ip c = some (joinSql sepB ss) := by
  rw [SqlE.eval, hsep]
  simp only [SqlCtx.slice, hc, hk, sqlKids_slice_filter, sqlKids_slice_contiguous, sqlKids_slice_sql, hs,
    allSome_map_some, beq_self_eq_true, if_true, Option.map_some]

/-- no element of a slice is a single child -/
theorem sqlKids_slice_single (T : SqlTables) (ip : Nat → Bool) (f g : String) (k : Nat) (nodes : List Node) :
    (sqlKids T ip (sliceKids f k nodes)).find? (fun kd => kd.field == g && kd.idx == none) = none := by
  induction nodes generalizing k with
  | nil => rfl
  | cons n r ih =>
    simp only [sliceKids, sqlKids, List.find?_cons]
    rw [ih]; simp

theorem sqlKids_slice_single' (T : SqlTables) (ip : Nat → Bool) (f g : String) (k : Nat) (nodes : List Node) :
    (sqlKids T ip (sliceKids f k nodes)).find? (fun kd => kd.field == g && kd.idx.isNone) = none := by
  induction nodes generalizing k with
  | nil => rfl
  | cons n r ih =>
    simp only [sliceKids, sqlKids, List.find?_cons]
    rw [ih]; simp

theorem sqlKids_app (T : SqlTables) (ip : Nat → Bool) : (a b : Kids) →
    sqlKids T ip (appKids a b) = sqlKids T ip a ++ sqlKids T ip b
  | .nil, b => by simp [appKids, sqlKids]
  | .cons f i n r, b => by simp [appKids, sqlKids, sqlKids_app T ip r b]

theorem goKids_app {T : PosTables} : (a b : Kids) → (ka kb : List KidPE) → goKids T a = some ka →
    goKids T b = some kb → goKids T (appKids a b) = some (ka ++ kb)
  | .nil, b, ka, kb, ha, hb => by
    simp only [goKids, Option.some.injEq] at ha; subst ha; simpa [appKids] using hb
  | .cons f i n r, b, ka, kb, ha, hb => by
    simp only [goKids] at ha
    cases hn : goPosEnd T n with
    | none => simp [hn] at ha
    | some pe =>
      cases hr : goKids T r with
      | none => simp [hn, hr] at ha
      | some kr =>
        simp only [hn, hr, Option.some.injEq] at ha
        subst ha
        simp [appKids, goKids, hn, goKids_app r b kr kb hr hb]

/-- the position view of the elements of a slice field -/
def kidsPE (f : String) : Nat → List (Int × Int) → List KidPE
  | _, [] => []
  | k, (p, e) :: r => ⟨f, some k, p, e⟩ :: kidsPE f (k + 1) r

theorem goKids_slice {T : PosTables} {f : String} {k : Nat} {nodes : List Node} {pes : List (Int × Int)}
    (h : nodes.map (goPosEnd T) = pes.map some) : goKids T (sliceKids f k nodes) = some (kidsPE f k pes) := by
  induction nodes generalizing k pes with
  | nil =>
    cases pes with
    | nil => rfl
    | cons _ _ => simp at h
  | cons n r ih =>
    cases pes with
    | nil => simp at h
    | cons pe pes =>
      obtain ⟨p, e⟩ := pe
      simp only [List.map_cons, List.cons.injEq] at h
      simp [sliceKids, goKids, h.1, ih h.2, kidsPE]

theorem kidsPE_slice (f : String) (k : Nat) (pes : List (Int × Int)) :
    ((kidsPE f k pes).filter (fun kd => kd.field == f && kd.idx != none)).map (fun kd => (kd.pos, kd.end)) = pes := by
  induction pes generalizing k with
  | nil => rfl
  | cons pe r ih => obtain ⟨p, e⟩ := pe; simp [kidsPE, ih]

/-- a slice field when the children of the node are exactly its elements -/
theorem ctx_slice {c : Ctx} {f : String} {pes : List (Int × Int)} (hk : c.kids = kidsPE f 0 pes)
    (hc : c.cls f = some .nodes) : c.slice f = some pes := by
  simp only [Ctx.slice, hc, hk, kidsPE_slice, beq_self_eq_true, if_true]

/-! ## `sqlJoin` and the hand-written joins -/

theorem joinSql_eq_joinBytes (sep : Bytes) (l : List Bytes) : joinSql sep l = Expr.joinBytes sep l := by
  induction l with
  | nil => rfl
  | cons a r ih =>
    cases r with
    | nil => rfl
    | cons b r => simp only [joinSql, Expr.joinBytes, ih]

end MF.Bridge
