/-
  MF.Proofs.ExprEv — the step lemmas of the completeness proof, in EVENTUAL form (`Ev p r`: for all sufficiently
  large fuel `p fuel = r`): one small lemma per Go function / loop of the expression parser model.
  The productions of the precedence ladder are indexed by their level (`P k`, `Loop L`) so that the
  left-associative levels are handled once.
-/
import MF.Proofs.ExprBasic
namespace MF.Expr

/-! ## tokens that read a given yield -/

/-- `pre` reads `ys`, and none of its identifiers is the unquoted word SAFE_CAST / REPLACE_FIELDS (on which
`parseLit` leaves the fragment) -/
def Reads (pre : List Token) (ys : List Tok') : Prop := pre.map proj = ys ∧ ∀ t ∈ pre, isCastLike t = false

theorem Reads.nil {pre : List Token} (h : Reads pre []) : pre = [] := by
  simpa using h.1

theorem Reads.cons {pre : List Token} {y : Tok'} {ys : List Tok'} (h : Reads pre (y :: ys)) :
    ∃ t p, pre = t :: p ∧ proj t = y ∧ isCastLike t = false ∧ Reads p ys := by
  obtain ⟨hm, hc⟩ := h
  cases pre with
  | nil => simp at hm
  | cons t p =>
    simp only [List.map_cons, List.cons.injEq] at hm
    exact ⟨t, p, rfl, hm.1, hc t (by simp), hm.2, fun u hu => hc u (by simp [hu])⟩

theorem Reads.append {pre : List Token} {as bs : List Tok'} (h : Reads pre (as ++ bs)) :
    ∃ p1 p2, pre = p1 ++ p2 ∧ Reads p1 as ∧ Reads p2 bs := by
  obtain ⟨hm, hc⟩ := h
  obtain ⟨p1, p2, rfl, h1, h2⟩ := List.map_eq_append_iff.1 hm
  exact ⟨p1, p2, rfl, ⟨h1, fun u hu => hc u (by simp [hu])⟩, ⟨h2, fun u hu => hc u (by simp [hu])⟩⟩

theorem Reads.one {pre : List Token} {y : Tok'} (h : Reads pre [y]) :
    ∃ t, pre = [t] ∧ proj t = y ∧ isCastLike t = false := by
  obtain ⟨t, p, rfl, h1, h2, h3⟩ := h.cons
  rw [h3.nil]; exact ⟨t, rfl, h1, h2⟩

theorem proj_k {t : Token} {y : Tok'} (h : proj t = y) : tk t.kind = y.k := by rw [← h]; rfl
theorem proj_T {t : Token} {k : TK} (h : proj t = T k) : tk t.kind = k := proj_k h

theorem proj_ident {t : Token} {v : Bytes} (h : proj t = ⟨.ident, v⟩) : tk t.kind = .ident ∧ t.asString = v := by
  have hk := proj_k h
  refine ⟨hk, ?_⟩
  have : tokVal t = v := congrArg Tok'.v h
  simpa [tokVal, show tk t.kind = TK.ident from hk] using this

theorem proj_asString {t : Token} {k : TK} {v : Bytes} (h : proj t = ⟨k, v⟩)
    (hk : k = .param ∨ k = .string ∨ k = .bytes) : tk t.kind = k ∧ t.asString = v := by
  have hk' : tk t.kind = k := proj_k h
  refine ⟨hk', ?_⟩
  have : tokVal t = v := congrArg Tok'.v h
  rcases hk with rfl | rfl | rfl <;> simpa [tokVal, hk'] using this

theorem proj_raw {t : Token} {k : TK} {v : Bytes} (h : proj t = ⟨k, v⟩)
    (hk : k = .int ∨ k = .float) : tk t.kind = k ∧ t.raw = v := by
  have hk' : tk t.kind = k := proj_k h
  refine ⟨hk', ?_⟩
  have : tokVal t = v := congrArg Tok'.v h
  rcases hk with rfl | rfl <;> simpa [tokVal, hk'] using this

/-! ## the ladder, indexed by level -/

/-- the production of level `k` -/
def P : Nat → Nat → List Token → PR
  | 0 => parseLit | 1 => parseSelector | 2 => parseUnary | 3 => parseMulDiv | 4 => parseAddSub
  | 5 => parseBitShift | 6 => parseBitAnd | 7 => parseBitXor | 8 => parseBitOr | 9 => parseComparison
  | 10 => parseNot | 11 => parseAnd | _ => parseOr

/-- the levels whose production is a left-associative loop over binary operators -/
def BinLoop (L : Nat) : Prop := L = 3 ∨ L = 4 ∨ L = 5 ∨ L = 6 ∨ L = 7 ∨ L = 8 ∨ L = 11 ∨ L = 12

/-- the loop of level `L` -/
def Loop : Nat → Nat → Expr → List Token → PR
  | 3 => mulLoop | 4 => addLoop | 5 => shiftLoop | 6 => bitAndLoop | 7 => bitXorLoop | 8 => bitOrLoop
  | 11 => andLoop | 12 => orLoop | _ => fun _ e ts => .ok (e, ts)

/-- the operator a token denotes at loop level `L` -/
def loopOp : Nat → TK → Option BOp
  | 3, k => mulOp? k | 4, k => addOp? k | 5, k => shiftOp? k
  | 6, .amp => some .bitAnd | 7, .caret => some .bitXor | 8, .bar => some .bitOr
  | 11, .and_ => some .and | 12, .or_ => some .or
  | _, _ => none

theorem P_succ {L : Nat} (hL : BinLoop L) (f : Nat) (ts : List Token) :
    P L (f + 1) ts = (P (L - 1) f ts).bind fun p => Loop L f p.1 p.2 := by
  rcases hL with rfl | rfl | rfl | rfl | rfl | rfl | rfl | rfl <;>
    simp only [P, Loop, parseMulDiv, parseAddSub, parseBitShift, parseBitAnd, parseBitXor, parseBitOr, parseAnd, parseOr]

theorem Loop_succ {L : Nat} (hL : BinLoop L) (f : Nat) (e : Expr) (ts : List Token) :
    Loop L (f + 1) e ts =
      match loopOp L (cur ts) with
      | some op => (P (L - 1) f ts.tail).bind fun p => Loop L f (.bin op e p.1) p.2
      | none => .ok (e, ts) := by
  rcases hL with rfl | rfl | rfl | rfl | rfl | rfl | rfl | rfl
  · simp only [P, Loop, loopOp, mulLoop]; rfl
  · simp only [P, Loop, loopOp, addLoop]; rfl
  · simp only [P, Loop, loopOp, shiftLoop]; rfl
  · simp only [P, Loop, loopOp, bitAndLoop]; cases cur ts <;> rfl
  · simp only [P, Loop, loopOp, bitXorLoop]; cases cur ts <;> rfl
  · simp only [P, Loop, loopOp, bitOrLoop]; cases cur ts <;> rfl
  · simp only [P, Loop, loopOp, andLoop]; cases cur ts <;> rfl
  · simp only [P, Loop, loopOp, orLoop]; cases cur ts <;> rfl

/-- A: `parse_L = parse_{L-1} ; loop_L` -/
theorem ev_parse_of_loop {L : Nat} (hL : BinLoop L) {ts ts' : List Token} {e : Expr} {res : PR}
    (h1 : Ev (fun f => P (L - 1) f ts) (.ok (e, ts'))) (h2 : Ev (fun f => Loop L f e ts') res) :
    Ev (fun f => P L f ts) res :=
  Ev.step (fun f => P_succ hL f ts) (Ev.bind (k := fun f p => Loop L f p.1 p.2) h1 h2)

/-- B: one iteration of the loop of level `L` -/
theorem ev_loop_iter {L : Nat} (hL : BinLoop L) {t : Token} {ts ts' : List Token} {op : BOp} {e r : Expr} {res : PR}
    (hop : loopOp L (tk t.kind) = some op)
    (h1 : Ev (fun f => P (L - 1) f ts) (.ok (r, ts'))) (h2 : Ev (fun f => Loop L f (.bin op e r) ts') res) :
    Ev (fun f => Loop L f e (t :: ts)) res := by
  refine Ev.step (q := fun f => (P (L - 1) f ts).bind fun p => Loop L f (.bin op e p.1) p.2) (fun f => ?_)
    (Ev.bind (k := fun f p => Loop L f (.bin op e p.1) p.2) h1 h2)
  rw [Loop_succ hL]; simp only [cur_cons, hop, List.tail_cons]

/-- C: the loop of level `L` stops at a token that is not one of its operators -/
theorem ev_loop_stop {L : Nat} (hL : BinLoop L) {ts : List Token} {e : Expr} (hop : loopOp L (cur ts) = none) :
    Ev (fun f => Loop L f e ts) (.ok (e, ts)) :=
  Ev.step (q := fun _ => .ok (e, ts)) (fun f => by rw [Loop_succ hL]; simp only [hop]) (Ev.const _)

/-! ## the other productions -/

/-- continue under a `bind` whose first computation is eventually `ok a` -/
macro "ev_bind " h:term : tactic => `(tactic| (refine Ev.bind $h ?_; try dsimp only))

theorem ev_expr {ts : List Token} {res : PR} (h : Ev (fun f => parseOr f ts) res) : Ev (fun f => parseExpr f ts) res :=
  Ev.step (fun f => by simp only [parseExpr]) h

theorem ev_not_not {t : Token} {ts ts' : List Token} {e : Expr} (ht : tk t.kind = .not_)
    (h : Ev (fun f => parseNot f ts) (.ok (e, ts'))) : Ev (fun f => parseNot f (t :: ts)) (.ok (.unary .not e, ts')) := by
  refine Ev.step (q := fun f => (parseNot f ts).bind fun p => .ok (.unary .not p.1, p.2))
    (fun f => by simp only [parseNot, cur_cons, ht, List.tail_cons]) ?_
  ev_bind h
  exact Ev.const _

theorem ev_not_cmp {ts : List Token} {res : PR} (hc : cur ts ≠ .not_) (h : Ev (fun f => parseComparison f ts) res) :
    Ev (fun f => parseNot f ts) res := by
  refine Ev.step (fun f => ?_) h
  simp only [parseNot]

/-- the part of `parseComparison` after the left operand -/
def cmpTail (f : Nat) (e1 : Expr) (ts1 : List Token) : PR :=
  match cmpOp? (cur ts1) with
  | some op => (parseBitOr f ts1.tail).bind fun q => .ok (.bin op e1 q.1, q.2)
  | none =>
    match cur ts1 with
    | .in_ => (parseInCondition f ts1.tail).bind fun q => .ok (q.1.mk false e1, q.2)
    | .between => parseBetweenTail f false e1 ts1.tail
    | .not_ =>
      match cur ts1.tail with
      | .like => (parseBitOr f ts1.tail.tail).bind fun q => .ok (.bin .notLike e1 q.1, q.2)
      | .in_ => (parseInCondition f ts1.tail.tail).bind fun q => .ok (q.1.mk true e1, q.2)
      | .between => parseBetweenTail f true e1 ts1.tail.tail
      | _ => .raise
    | .is_ => parseIsTail e1 ts1.tail
    | _ => .ok (e1, ts1)

theorem parseComparison_succ (f : Nat) (ts : List Token) :
    parseComparison (f + 1) ts = (parseBitOr f ts).bind fun p => cmpTail f p.1 p.2 := by
  simp only [parseComparison]; rfl

theorem ev_cmp {ts ts1 : List Token} {e1 : Expr} {res : PR}
    (h1 : Ev (fun f => parseBitOr f ts) (.ok (e1, ts1))) (h2 : Ev (fun f => cmpTail f e1 ts1) res) :
    Ev (fun f => parseComparison f ts) res := by
  refine Ev.step (fun f => parseComparison_succ f ts) ?_
  ev_bind h1
  exact h2

/-- a simple comparison operator -/
theorem ev_cmpTail_op {t : Token} {ts ts' : List Token} {op : BOp} {e1 r : Expr} (hop : cmpOp? (tk t.kind) = some op)
    (h : Ev (fun f => parseBitOr f ts) (.ok (r, ts'))) :
    Ev (fun f => cmpTail f e1 (t :: ts)) (.ok (.bin op e1 r, ts')) := by
  refine Ev.congr (q := fun f => (parseBitOr f ts).bind fun q => .ok (.bin op e1 q.1, q.2))
    (fun f => by simp only [cmpTail, cur_cons, hop, List.tail_cons]) ?_
  ev_bind h
  exact Ev.const _

theorem ev_cmpTail_notLike {t u : Token} {ts ts' : List Token} {e1 r : Expr} (ht : tk t.kind = .not_)
    (hu : tk u.kind = .like) (h : Ev (fun f => parseBitOr f ts) (.ok (r, ts'))) :
    Ev (fun f => cmpTail f e1 (t :: u :: ts)) (.ok (.bin .notLike e1 r, ts')) := by
  refine Ev.congr (q := fun f => (parseBitOr f ts).bind fun q => .ok (.bin .notLike e1 q.1, q.2))
    (fun f => by simp only [cmpTail, cur_cons, ht, hu, cmpOp?, List.tail_cons]) ?_
  ev_bind h
  exact Ev.const _

theorem ev_cmpTail_in {t : Token} {ts ts' : List Token} {e1 : Expr} {c : InCond} (ht : tk t.kind = .in_)
    (h : Ev (fun f => parseInCondition f ts) (.ok (c, ts'))) :
    Ev (fun f => cmpTail f e1 (t :: ts)) (.ok (c.mk false e1, ts')) := by
  refine Ev.congr (q := fun f => (parseInCondition f ts).bind fun q => .ok (q.1.mk false e1, q.2))
    (fun f => by simp only [cmpTail, cur_cons, ht, cmpOp?, List.tail_cons]) ?_
  ev_bind h
  exact Ev.const _

theorem ev_cmpTail_notIn {t u : Token} {ts ts' : List Token} {e1 : Expr} {c : InCond} (ht : tk t.kind = .not_)
    (hu : tk u.kind = .in_) (h : Ev (fun f => parseInCondition f ts) (.ok (c, ts'))) :
    Ev (fun f => cmpTail f e1 (t :: u :: ts)) (.ok (c.mk true e1, ts')) := by
  refine Ev.congr (q := fun f => (parseInCondition f ts).bind fun q => .ok (q.1.mk true e1, q.2))
    (fun f => by simp only [cmpTail, cur_cons, ht, hu, cmpOp?, List.tail_cons]) ?_
  ev_bind h
  exact Ev.const _

theorem ev_cmpTail_between {t : Token} {ts : List Token} {e1 : Expr} {res : PR} (ht : tk t.kind = .between)
    (h : Ev (fun f => parseBetweenTail f false e1 ts) res) : Ev (fun f => cmpTail f e1 (t :: ts)) res :=
  Ev.congr (fun f => by simp only [cmpTail, cur_cons, ht, cmpOp?, List.tail_cons]) h

theorem ev_cmpTail_notBetween {t u : Token} {ts : List Token} {e1 : Expr} {res : PR} (ht : tk t.kind = .not_)
    (hu : tk u.kind = .between) (h : Ev (fun f => parseBetweenTail f true e1 ts) res) :
    Ev (fun f => cmpTail f e1 (t :: u :: ts)) res :=
  Ev.congr (fun f => by simp only [cmpTail, cur_cons, ht, hu, cmpOp?, List.tail_cons]) h

theorem ev_cmpTail_is {t : Token} {ts : List Token} {e1 : Expr} (ht : tk t.kind = .is_) :
    Ev (fun f => cmpTail f e1 (t :: ts)) (parseIsTail e1 ts) :=
  Ev.congr (fun f => by simp only [cmpTail, cur_cons, ht, cmpOp?, List.tail_cons]) (Ev.const _)

/-- no comparison operator follows: `parseComparison` returns its operand -/
theorem ev_cmpTail_none {ts : List Token} {e1 : Expr} (h : contLevel (cur ts) ≠ some 9) :
    Ev (fun f => cmpTail f e1 ts) (.ok (e1, ts)) := by
  refine Ev.congr (fun f => ?_) (Ev.const _)
  unfold cmpTail
  cases hc : cur ts <;> simp_all [contLevel, cmpOp?]

theorem ev_btw {not : Bool} {e lo hi : Expr} {t : Token} {ts ts2 rest : List Token} (ht : tk t.kind = .and_)
    (h1 : Ev (fun f => parseBitOr f ts) (.ok (lo, t :: ts2))) (h2 : Ev (fun f => parseBitOr f ts2) (.ok (hi, rest))) :
    Ev (fun f => parseBetweenTail f not e ts) (.ok (.between not e lo hi, rest)) := by
  refine Ev.step (q := fun f => (parseBitOr f ts).bind fun lo' =>
      if cur lo'.2 = .and_ then (parseBitOr f lo'.2.tail).bind fun hi' => .ok (.between not e lo'.1 hi'.1, hi'.2) else .raise)
    (fun f => by simp only [parseBetweenTail]) ?_
  ev_bind h1
  simp only [cur_cons, ht, if_true, List.tail_cons]
  ev_bind h2
  exact Ev.const _

theorem ev_inCond_values {t u : Token} {ts ts1 ts2 : List Token} {first : Expr} {more : Exprs}
    (ht : tk t.kind = .lparen) (hsel : selectAhead ts = false)
    (h1 : Ev (fun f => parseExpr f ts) (.ok (first, ts1)))
    (h2 : Ev (fun f => inListLoop f ts1) (.ok (more, u :: ts2))) (hu : tk u.kind = .rparen) :
    Ev (fun f => parseInCondition f (t :: ts)) (.ok (.values first more, ts2)) := by
  refine Ev.step (q := fun f => (parseExpr f ts).bind fun p => (inListLoop f p.2).bind fun q =>
      if cur q.2 = .rparen then .ok (.values p.1 q.1, q.2.tail) else .raise) (fun f => ?_) ?_
  · simp only [parseInCondition, lookaheadSubQuery, cur_cons, ht, List.tail_cons, hsel]; simp
  · ev_bind h1
    ev_bind h2
    simp only [cur_cons, hu, if_true, List.tail_cons]
    exact Ev.const _

theorem ev_inCond_unnest {t u v : Token} {ts ts1 : List Token} {a : Expr}
    (ht : tk t.kind = .unnest) (hu : tk u.kind = .lparen)
    (h1 : Ev (fun f => parseExpr f ts) (.ok (a, v :: ts1))) (hv : tk v.kind = .rparen) :
    Ev (fun f => parseInCondition f (t :: u :: ts)) (.ok (.unnest a, ts1)) := by
  refine Ev.step (q := fun f => (parseExpr f ts).bind fun p =>
      if cur p.2 = .rparen then .ok (.unnest p.1, p.2.tail) else .raise) (fun f => ?_) ?_
  · simp only [parseInCondition, lookaheadSubQuery, cur_cons, ht, hu, List.tail_cons]; simp
  · ev_bind h1
    simp only [cur_cons, hv, if_true, List.tail_cons]
    exact Ev.const _

theorem ev_inList_cons {t : Token} {ts ts1 ts2 : List Token} {e : Expr} {m : Exprs} (ht : tk t.kind = .comma)
    (h1 : Ev (fun f => parseExpr f ts) (.ok (e, ts1))) (h2 : Ev (fun f => inListLoop f ts1) (.ok (m, ts2))) :
    Ev (fun f => inListLoop f (t :: ts)) (.ok (.cons e m, ts2)) := by
  refine Ev.step (q := fun f => (parseExpr f ts).bind fun p => (inListLoop f p.2).bind fun q => .ok (.cons p.1 q.1, q.2))
    (fun f => by simp only [inListLoop, cur_cons, ht, List.tail_cons]) ?_
  ev_bind h1
  ev_bind h2
  exact Ev.const _

theorem ev_inList_nil {ts : List Token} (h : cur ts ≠ .comma) : Ev (fun f => inListLoop f ts) (.ok (.nil, ts)) := by
  refine Ev.step (q := fun _ => .ok (.nil, ts)) (fun f => ?_) (Ev.const _)
  simp only [inListLoop]

theorem ev_unary_op {t : Token} {ts ts' : List Token} {op : UOp} {e e2 : Expr} (hop : unOp? (tk t.kind) = some op)
    (h : Ev (fun f => parseUnary f ts) (.ok (e, ts'))) (hf : foldSign op e = .ok e2) :
    Ev (fun f => parseUnary f (t :: ts)) (.ok (e2, ts')) := by
  refine Ev.step (q := fun f => (parseUnary f ts).bind fun p => (foldSign op p.1).bind fun e' => .ok (e', p.2))
    (fun f => by simp only [parseUnary, cur_cons, hop, List.tail_cons]) ?_
  ev_bind h
  simp only [hf, Res.bind_ok]
  exact Ev.const _

theorem ev_unary_sel {ts : List Token} {res : PR} (hop : unOp? (cur ts) = none)
    (h : Ev (fun f => parseSelector f ts) res) : Ev (fun f => parseUnary f ts) res :=
  Ev.step (fun f => by simp only [parseUnary, hop]) h

theorem ev_sel_of_loop {ts ts' : List Token} {e : Expr} {res : PR}
    (h1 : Ev (fun f => parseLit f ts) (.ok (e, ts'))) (h2 : Ev (fun f => selLoop f e ts') res) :
    Ev (fun f => parseSelector f ts) res := by
  refine Ev.step (q := fun f => (parseLit f ts).bind fun p => selLoop f p.1 p.2)
    (fun f => by simp only [parseSelector]) ?_
  ev_bind h1
  exact h2

theorem ev_selLoop_dot {t u : Token} {ts : List Token} {e : Expr} {res : PR} (ht : tk t.kind = .dot)
    (hu : tk u.kind = .ident) (h : Ev (fun f => selLoop f (mkSel e u.asString) ts) res) :
    Ev (fun f => selLoop f e (t :: u :: ts)) res := by
  refine Ev.step (fun f => ?_) h
  simp [selLoop, ht, hu, parseIdent]

theorem ev_selLoop_idx {t u : Token} {ts ts' : List Token} {e : Expr} {s : IdxSpec} {res : PR} (ht : tk t.kind = .lbrack)
    (h1 : Ev (fun f => parseIndexSpecifier f ts) (.ok (s, u :: ts'))) (hu : tk u.kind = .rbrack)
    (h2 : Ev (fun f => selLoop f (s.mk e) ts') res) : Ev (fun f => selLoop f e (t :: ts)) res := by
  refine Ev.step (q := fun f => (parseIndexSpecifier f ts).bind fun p =>
      if cur p.2 = .rbrack then selLoop f (p.1.mk e) p.2.tail else .raise)
    (fun f => by simp only [selLoop, cur_cons, ht, List.tail_cons]) ?_
  ev_bind h1
  simp only [cur_cons, hu, if_true, List.tail_cons]
  exact h2

theorem ev_selLoop_stop {ts : List Token} {e : Expr} (h1 : cur ts ≠ .dot) (h2 : cur ts ≠ .lbrack) :
    Ev (fun f => selLoop f e ts) (.ok (e, ts)) := by
  refine Ev.step (q := fun _ => .ok (e, ts)) (fun f => ?_) (Ev.const _)
  simp only [selLoop]

/-- the `default:` branch: the first token is not a position word, or it is not followed by `(` -/
theorem ev_idx_plain {ts ts' : List Token} {i : Expr} (hk : posKw? ts = none ∨ cur ts.tail ≠ .lparen)
    (h : Ev (fun f => parseExpr f ts) (.ok (i, ts'))) :
    Ev (fun f => parseIndexSpecifier f ts) (.ok (.plain i, ts')) := by
  refine Ev.step (q := fun f => (parseExpr f ts).bind fun p => .ok (.plain p.1, p.2))
    (fun f => ?_) ?_
  · simp only [parseIndexSpecifier]
    split
    · rcases hk with hk | hk
      · simp_all
      · rw [if_neg hk]
    · rfl
  ev_bind h
  exact Ev.const _

theorem ev_idx_kw {t u v : Token} {ts ts' : List Token} {i : Expr} {k : PosKw} (hk : posKw? (t :: u :: ts) = some k)
    (hu : tk u.kind = .lparen) (h : Ev (fun f => parseExpr f ts) (.ok (i, v :: ts'))) (hv : tk v.kind = .rparen) :
    Ev (fun f => parseIndexSpecifier f (t :: u :: ts)) (.ok (.kw k t.asString i, ts')) := by
  refine Ev.step (q := fun f => (parseExpr f ts).bind fun p =>
      if cur p.2 = .rparen then .ok (.kw k t.asString p.1, p.2.tail) else .raise)
    (fun f => by simp only [parseIndexSpecifier, hk, List.tail_cons, cur_cons, hu, if_true, hd_cons]) ?_
  ev_bind h
  simp only [cur_cons, hv, if_true, List.tail_cons]
  exact Ev.const _

theorem ev_paren {t u : Token} {ts ts' : List Token} {e : Expr} (ht : tk t.kind = .lparen)
    (hsel : selectAhead ts = false) (h : Ev (fun f => parseExpr f ts) (.ok (e, u :: ts'))) (hu : tk u.kind = .rparen) :
    Ev (fun f => parseLit f (t :: ts)) (.ok (.paren e, ts')) := by
  refine Ev.step (q := fun f => parseParenExpr f (t :: ts)) (fun f => by simp only [parseLit, cur_cons, ht]) ?_
  refine Ev.step (q := fun f => (parseExpr f ts).bind fun p =>
      match cur p.2 with
      | .rparen => .ok (.paren p.1, p.2.tail)
      | .comma => .outside
      | _ => .raise) (fun f => ?_) ?_
  · simp only [parseParenExpr, lookaheadSubQuery, cur_cons, ht, List.tail_cons, hsel]; simp; rfl
  · ev_bind h
    simp only [cur_cons, hu, List.tail_cons]
    exact Ev.const _

/-! ## CASE and IF -/

/-- the optional operand of `parseCaseExpr` (tokens after CASE) -/
def caseOperand (f : Nat) (ts : List Token) : Res (OExpr × List Token) :=
  if cur ts = .when_ then .ok (OExpr.none, ts) else (parseExpr f ts).bind fun p => .ok (OExpr.some p.1, p.2)

/-- the optional ELSE clause of `parseCaseExpr` -/
def caseEls (f : Nat) (ts : List Token) : Res (OExpr × List Token) :=
  if cur ts = .else_ then (parseCaseElse f ts).bind fun p => .ok (OExpr.some p.1, p.2) else .ok (OExpr.none, ts)

theorem parseCaseExpr_succ (f : Nat) {ts : List Token} (h : cur ts = .case_) :
    parseCaseExpr (f + 1) ts =
      (caseOperand f ts.tail).bind fun o => (parseCaseWhen f o.2).bind fun w => (caseWhenLoop f w.2).bind fun ws =>
        (caseEls f ws.2).bind fun el =>
          if cur el.2 = .end_ then .ok (.caseE o.1 w.1.1 w.1.2 ws.1 el.1, el.2.tail) else .raise := by
  simp only [parseCaseExpr, h, if_true, caseOperand, caseEls]

theorem ev_caseOperand_none {ts : List Token} (h : cur ts = .when_) :
    Ev (fun f => caseOperand f ts) (.ok (.none, ts)) :=
  Ev.congr (fun f => by simp only [caseOperand, h, if_true]) (Ev.const _)

theorem ev_caseOperand_some {ts ts' : List Token} {e : Expr} (h : cur ts ≠ .when_)
    (he : Ev (fun f => parseExpr f ts) (.ok (e, ts'))) : Ev (fun f => caseOperand f ts) (.ok (.some e, ts')) := by
  refine Ev.congr (q := fun f => (parseExpr f ts).bind fun p => .ok (OExpr.some p.1, p.2))
    (fun f => by simp only [caseOperand, if_neg h]) ?_
  ev_bind he
  exact Ev.const _

theorem ev_caseElse {t : Token} {ts ts' : List Token} {e : Expr} (ht : tk t.kind = .else_)
    (he : Ev (fun f => parseExpr f ts) (.ok (e, ts'))) : Ev (fun f => parseCaseElse f (t :: ts)) (.ok (e, ts')) :=
  Ev.step (fun f => by simp only [parseCaseElse, cur_cons, ht, if_true, List.tail_cons]) he

theorem ev_caseEls_none {ts : List Token} (h : cur ts ≠ .else_) : Ev (fun f => caseEls f ts) (.ok (.none, ts)) :=
  Ev.congr (fun f => by simp only [caseEls, if_neg h]) (Ev.const _)

theorem ev_caseEls_some {t : Token} {ts ts' : List Token} {e : Expr} (ht : tk t.kind = .else_)
    (he : Ev (fun f => parseExpr f ts) (.ok (e, ts'))) : Ev (fun f => caseEls f (t :: ts)) (.ok (.some e, ts')) := by
  refine Ev.congr (q := fun f => (parseCaseElse f (t :: ts)).bind fun p => .ok (OExpr.some p.1, p.2))
    (fun f => by simp only [caseEls, cur_cons, ht, if_true]) ?_
  ev_bind (ev_caseElse ht he)
  exact Ev.const _

theorem ev_caseWhen {t u : Token} {ts ts1 ts2 : List Token} {c th : Expr} (ht : tk t.kind = .when_)
    (h1 : Ev (fun f => parseExpr f ts) (.ok (c, u :: ts1))) (hu : tk u.kind = .then_)
    (h2 : Ev (fun f => parseExpr f ts1) (.ok (th, ts2))) :
    Ev (fun f => parseCaseWhen f (t :: ts)) (.ok ((c, th), ts2)) := by
  refine Ev.step (q := fun f => (parseExpr f ts).bind fun c' =>
      if cur c'.2 = .then_ then (parseExpr f c'.2.tail).bind fun t' => .ok ((c'.1, t'.1), t'.2) else .raise)
    (fun f => by simp only [parseCaseWhen, cur_cons, ht, if_true, List.tail_cons]) ?_
  ev_bind h1
  simp only [cur_cons, hu, if_true, List.tail_cons]
  ev_bind h2
  exact Ev.const _

theorem ev_caseLoop_cons {ts ts1 ts2 : List Token} {c th : Expr} {ws : Whens} (hc : cur ts = .when_)
    (h1 : Ev (fun f => parseCaseWhen f ts) (.ok ((c, th), ts1)))
    (h2 : Ev (fun f => caseWhenLoop f ts1) (.ok (ws, ts2))) :
    Ev (fun f => caseWhenLoop f ts) (.ok (.cons c th ws, ts2)) := by
  refine Ev.step (q := fun f => (parseCaseWhen f ts).bind fun w =>
      (caseWhenLoop f w.2).bind fun q => .ok (.cons w.1.1 w.1.2 q.1, q.2))
    (fun f => by simp only [caseWhenLoop, hc]) ?_
  ev_bind h1
  ev_bind h2
  exact Ev.const _

theorem ev_caseLoop_nil {ts : List Token} (h : cur ts ≠ .when_) : Ev (fun f => caseWhenLoop f ts) (.ok (.nil, ts)) := by
  refine Ev.step (q := fun _ => .ok (.nil, ts)) (fun f => ?_) (Ev.const _)
  simp only [caseWhenLoop]

theorem ev_caseE {t u : Token} {ts ts1 ts2 ts3 ts4 : List Token} {o el : OExpr} {c th : Expr} {ws : Whens}
    (ht : tk t.kind = .case_) (ho : Ev (fun f => caseOperand f ts) (.ok (o, ts1)))
    (hw : Ev (fun f => parseCaseWhen f ts1) (.ok ((c, th), ts2)))
    (hl : Ev (fun f => caseWhenLoop f ts2) (.ok (ws, ts3)))
    (he : Ev (fun f => caseEls f ts3) (.ok (el, u :: ts4))) (hu : tk u.kind = .end_) :
    Ev (fun f => parseLit f (t :: ts)) (.ok (.caseE o c th ws el, ts4)) := by
  refine Ev.step (q := fun f => parseCaseExpr f (t :: ts)) (fun f => by simp only [parseLit, cur_cons, ht]) ?_
  refine Ev.step (fun f => parseCaseExpr_succ f (ts := t :: ts) (by simp [ht])) ?_
  simp only [List.tail_cons]
  ev_bind ho
  ev_bind hw
  ev_bind hl
  ev_bind he
  simp only [cur_cons, hu, if_true, List.tail_cons]
  exact Ev.const _

theorem ev_ifE {t u v w x : Token} {ts ts1 ts2 ts3 : List Token} {c th e : Expr}
    (ht : tk t.kind = .if_) (hu : tk u.kind = .lparen)
    (h1 : Ev (fun f => parseExpr f ts) (.ok (c, v :: ts1))) (hv : tk v.kind = .comma)
    (h2 : Ev (fun f => parseExpr f ts1) (.ok (th, w :: ts2))) (hw : tk w.kind = .comma)
    (h3 : Ev (fun f => parseExpr f ts2) (.ok (e, x :: ts3))) (hx : tk x.kind = .rparen) :
    Ev (fun f => parseLit f (t :: u :: ts)) (.ok (.ifE c th e, ts3)) := by
  refine Ev.step (q := fun f => parseIfExpr f (t :: u :: ts)) (fun f => by simp only [parseLit, cur_cons, ht]) ?_
  refine Ev.step (q := fun f => (parseExpr f ts).bind fun c' =>
      if cur c'.2 = .comma then
        (parseExpr f c'.2.tail).bind fun t' =>
          if cur t'.2 = .comma then
            (parseExpr f t'.2.tail).bind fun e' =>
              if cur e'.2 = .rparen then .ok (.ifE c'.1 t'.1 e'.1, e'.2.tail) else .raise
          else .raise
      else .raise)
    (fun f => by simp only [parseIfExpr, cur_cons, ht, hu, if_true, List.tail_cons]) ?_
  ev_bind h1
  simp only [cur_cons, hv, if_true, List.tail_cons]
  ev_bind h2
  simp only [cur_cons, hw, if_true, List.tail_cons]
  ev_bind h3
  simp only [cur_cons, hx, if_true, List.tail_cons]
  exact Ev.const _

/-! ## CAST -/

/-- the loop of `parseIdentOrPath` (type model) walks an identifier chain that is not followed by `.` -/
theorem pathLoop_complete' {rest : List Token} (hd : cur rest ≠ .dot) :
    ∀ (ns : List Bytes) (pre : List Token), Reads pre (dotToks ns) →
      ∃ n ids, ids.map (·.name) = ns ∧ ∀ f, n ≤ f → TypeP.pathLoop f (pre ++ rest) = .ok (ids, rest)
  | [], pre, hr => by
    rw [hr.nil]
    refine ⟨1, [], rfl, fun f hf => ?_⟩
    obtain ⟨g, rfl⟩ : ∃ g, f = g + 1 := ⟨f - 1, by omega⟩
    have : TypeP.cur rest ≠ .dot := fun h => hd (tcur_dot.1 h)
    simp [TypeP.pathLoop, this]
  | a :: ns, pre, hr => by
    obtain ⟨td, p1, rfl, htd, _, hr1⟩ := hr.cons
    obtain ⟨tn, p2, rfl, htn, _, hr2⟩ := hr1.cons
    obtain ⟨n, ids, hids, hn⟩ := pathLoop_complete' hd ns p2 hr2
    obtain ⟨hk, hv⟩ := proj_ident htn
    have hkd : TypeP.tk td.kind = .dot := ttk_dot.2 (tk_dot.1 (proj_T htd))
    have hki : TypeP.tk tn.kind = .ident := TypeP.tk_ident.2 (tk_ident'.1 hk)
    refine ⟨n + 1, ⟨tn.pos, tn.end, tn.asString⟩ :: ids, by simp [hids, hv], fun f hf => ?_⟩
    obtain ⟨g, rfl⟩ : ∃ g, f = g + 1 := ⟨f - 1, by omega⟩
    simp only [List.cons_append, TypeP.pathLoop, TypeP.cur_cons, hkd, if_true, List.tail_cons, TypeP.parseIdent,
      TypeP.expect, hki, TypeP.hd_cons, TypeP.Res.bind_ok, hn g (by omega)]

theorem ev_castType {ns : List Bytes} {pre rest : List Token} (hr : Reads pre (pathToks ns)) (hn : nfT ns = true)
    (hd : cur rest ≠ .dot) : Ev (fun f => castType f (pre ++ rest)) (.ok (ns, rest)) := by
  cases ns with
  | nil => simp [nfT] at hn
  | cons a ns =>
    rw [pathToks_eq] at hr
    obtain ⟨t, p, rfl, ht, _, hp⟩ := hr.cons
    obtain ⟨hk, hv⟩ := proj_ident ht
    have hkind : t.kind = .ident := tk_ident'.1 hk
    obtain ⟨n, ids, hids, hloop⟩ := pathLoop_complete' hd ns p hp
    have hs : TypeP.lookaheadSimpleType (t :: (p ++ rest)) = false := by
      simp only [TypeP.lookaheadSimpleType, TypeP.cur_cons, TypeP.tk_ident.2 hkind, ne_eq, not_true_eq_false, if_false,
        TypeP.hd_cons, TypeP.lookaheadKind, List.tail_cons, simpleName?_eq hkind, hv]
      cases ns with
      | nil =>
        simp only [nfT, Option.isNone_iff_eq_none] at hn
        simp [hn]
      | cons b ns =>
        obtain ⟨td, p1, rfl, htd, _, _⟩ := hp.cons
        have : TypeP.tk td.kind = .dot := ttk_dot.2 (tk_dot.1 (proj_T htd))
        simp [this]
    refine ⟨n + 1, fun f hf => ?_⟩
    obtain ⟨g, rfl⟩ : ∃ g, f = g + 1 := ⟨f - 1, by omega⟩
    show castType (g + 1) (t :: (p ++ rest)) = _
    rw [castType_succ hkind hs, hloop g (by omega)]
    simp [hv, hids]

theorem ev_cast {t u v w : Token} {ts ts1 ts2 : List Token} {e : Expr} {ns : List Bytes}
    (ht : tk t.kind = .cast) (hu : tk u.kind = .lparen)
    (h1 : Ev (fun f => parseExpr f ts) (.ok (e, v :: ts1))) (hv : tk v.kind = .as_)
    (h2 : Ev (fun f => castType f ts1) (.ok (ns, w :: ts2))) (hw : tk w.kind = .rparen) :
    Ev (fun f => parseLit f (t :: u :: ts)) (.ok (.cast e ns, ts2)) := by
  refine Ev.step (q := fun f => parseCastExpr f (t :: u :: ts)) (fun f => by simp only [parseLit, cur_cons, ht]) ?_
  refine Ev.step (q := fun f => (parseExpr f ts).bind fun p =>
      if cur p.2 = .as_ then
        (castType f p.2.tail).bind fun c => if cur c.2 = .rparen then .ok (.cast p.1 c.1, c.2.tail) else .raise
      else .raise)
    (fun f => by simp only [parseCastExpr, cur_cons, ht, hu, if_true, List.tail_cons]) ?_
  ev_bind h1
  simp only [cur_cons, hv, if_true, List.tail_cons]
  ev_bind h2
  simp only [cur_cons, hw, if_true, List.tail_cons]
  exact Ev.const _

/-! ## array literals -/

theorem ev_arr_nil {t u : Token} {ts : List Token} (ht : tk t.kind = .lbrack) (hu : tk u.kind = .rbrack) :
    Ev (fun f => parseLit f (t :: u :: ts)) (.ok (.array .nil, ts)) := by
  refine Ev.step (q := fun f => parseSimpleArrayLiteral f (t :: u :: ts))
    (fun f => by simp only [parseLit, cur_cons, ht]) ?_
  refine Ev.step (q := fun _ => .ok (.array .nil, ts)) (fun f => ?_) (Ev.const _)
  simp only [parseSimpleArrayLiteral, cur_cons, ht, hu, if_true, List.tail_cons]

theorem ev_arr_cons {t u : Token} {ts ts1 ts2 : List Token} {first : Expr} {more : Exprs}
    (ht : tk t.kind = .lbrack) (hne : cur ts ≠ .rbrack)
    (h1 : Ev (fun f => parseExpr f ts) (.ok (first, ts1)))
    (h2 : Ev (fun f => inListLoop f ts1) (.ok (more, u :: ts2))) (hu : tk u.kind = .rbrack) :
    Ev (fun f => parseLit f (t :: ts)) (.ok (.array (.cons first more), ts2)) := by
  refine Ev.step (q := fun f => parseSimpleArrayLiteral f (t :: ts))
    (fun f => by simp only [parseLit, cur_cons, ht]) ?_
  have hstep : ∀ f, parseSimpleArrayLiteral (f + 1) (t :: ts) =
      (parseExpr f ts).bind fun p => (inListLoop f p.2).bind fun q =>
        if cur q.2 = .rbrack then .ok (.array (.cons p.1 q.1), q.2.tail) else .raise := by
    intro f
    have hne' : ¬ cur (t :: ts).tail = .rbrack := hne
    simp only [parseSimpleArrayLiteral, cur_cons, ht, if_true]
    rw [if_neg hne']
    simp only [List.tail_cons]
  refine Ev.step hstep ?_
  · ev_bind h1
    ev_bind h2
    simp only [cur_cons, hu, if_true, List.tail_cons]
    exact Ev.const _

/-- a production that does not look at the fuel beyond its own unit -/
theorem ev_lit_of_eq {ts : List Token} {r : PR} (h : ∀ f, parseLit (f + 1) ts = r) : Ev (fun f => parseLit f ts) r :=
  Ev.step (q := fun _ => r) h (Ev.const _)

end MF.Expr
