/-
  MF.Proofs.ExprEv — the step lemmas of the completeness proof, in EVENTUAL form (`Ev p r`: for all sufficiently
  large fuel `p fuel = r`): one small lemma per Go function / loop of the expression parser model.
  The productions of the precedence ladder are indexed by their level (`P k`, `Loop L`) so that the
  left-associative levels are handled once.
-/
import MF.Proofs.ExprBasic
namespace MF.Expr

/-! ## tokens that read a given yield -/

/-- `pre` reads `ys`, and none of its identifiers is the unquoted word SAFE_CAST / REPLACE_FIELDS (on which
`parseLit` leaves the fragment) -/
def Reads (pre : List Token) (ys : List Tok') : Prop := pre.map proj = ys ∧ ∀ t ∈ pre, isCastLike t = false

theorem Reads.nil {pre : List Token} (h : Reads pre []) : pre = [] := by
  simpa using h.1

theorem Reads.cons {pre : List Token} {y : Tok'} {ys : List Tok'} (h : Reads pre (y :: ys)) :
    ∃ t p, pre = t :: p ∧ proj t = y ∧ isCastLike t = false ∧ Reads p ys := by
  obtain ⟨hm, hc⟩ := h
  cases pre with
  | nil => simp at hm
  | cons t p =>
    simp only [List.map_cons, List.cons.injEq] at hm
    exact ⟨t, p, rfl, hm.1, hc t (by simp), hm.2, fun u hu => hc u (by simp [hu])⟩

theorem Reads.append {pre : List Token} {as bs : List Tok'} (h : Reads pre (as ++ bs)) :
    ∃ p1 p2, pre = p1 ++ p2 ∧ Reads p1 as ∧ Reads p2 bs := by
  obtain ⟨hm, hc⟩ := h
  obtain ⟨p1, p2, rfl, h1, h2⟩ := List.map_eq_append_iff.1 hm
  exact ⟨p1, p2, rfl, ⟨h1, fun u hu => hc u (by simp [hu])⟩, ⟨h2, fun u hu => hc u (by simp [hu])⟩⟩

theorem Reads.one {pre : List Token} {y : Tok'} (h : Reads pre [y]) :
    ∃ t, pre = [t] ∧ proj t = y ∧ isCastLike t = false := by
  obtain ⟨t, p, rfl, h1, h2, h3⟩ := h.cons
  rw [h3.nil]; exact ⟨t, rfl, h1, h2⟩

theorem proj_k {t : Token} {y : Tok'} (h : proj t = y) : tk t.kind = y.k := by rw [← h]; rfl
theorem proj_T {t : Token} {k : TK} (h : proj t = T k) : tk t.kind = k := proj_k h

theorem proj_ident {t : Token} {v : Bytes} (h : proj t = ⟨.ident, v⟩) : tk t.kind = .ident ∧ t.asString = v := by
  have hk := proj_k h
  refine ⟨hk, ?_⟩
  have : tokVal t = v := congrArg Tok'.v h
  simpa [tokVal, show tk t.kind = TK.ident from hk] using this

theorem proj_asString {t : Token} {k : TK} {v : Bytes} (h : proj t = ⟨k, v⟩)
    (hk : k = .param ∨ k = .string ∨ k = .bytes) : tk t.kind = k ∧ t.asString = v := by
  have hk' : tk t.kind = k := proj_k h
  refine ⟨hk', ?_⟩
  have : tokVal t = v := congrArg Tok'.v h
  rcases hk with rfl | rfl | rfl <;> simpa [tokVal, hk'] using this

theorem proj_raw {t : Token} {k : TK} {v : Bytes} (h : proj t = ⟨k, v⟩)
    (hk : k = .int ∨ k = .float) : tk t.kind = k ∧ t.raw = v := by
  have hk' : tk t.kind = k := proj_k h
  refine ⟨hk', ?_⟩
  have : tokVal t = v := congrArg Tok'.v h
  rcases hk with rfl | rfl <;> simpa [tokVal, hk'] using this

/-! ## the ladder, indexed by level -/

/-- the production of level `k` -/
def P : Nat → Nat → List Token → PR
  | 0 => parseLit | 1 => parseSelector | 2 => parseUnary | 3 => parseMulDiv | 4 => parseAddSub
  | 5 => parseBitShift | 6 => parseBitAnd | 7 => parseBitXor | 8 => parseBitOr | 9 => parseComparison
  | 10 => parseNot | 11 => parseAnd | _ => parseOr

/-- the levels whose production is a left-associative loop over binary operators -/
def BinLoop (L : Nat) : Prop := L = 3 ∨ L = 4 ∨ L = 5 ∨ L = 6 ∨ L = 7 ∨ L = 8 ∨ L = 11 ∨ L = 12

/-- the loop of level `L` -/
def Loop : Nat → Nat → Expr → List Token → PR
  | 3 => mulLoop | 4 => addLoop | 5 => shiftLoop | 6 => bitAndLoop | 7 => bitXorLoop | 8 => bitOrLoop
  | 11 => andLoop | 12 => orLoop | _ => fun _ e ts => .ok (e, ts)

/-- the operator a token denotes at loop level `L` -/
def loopOp : Nat → TK → Option BOp
  | 3, k => mulOp? k | 4, k => addOp? k | 5, k => shiftOp? k
  | 6, .amp => some .bitAnd | 7, .caret => some .bitXor | 8, .bar => some .bitOr
  | 11, .and_ => some .and | 12, .or_ => some .or
  | _, _ => none

theorem P_succ {L : Nat} (hL : BinLoop L) (f : Nat) (ts : List Token) :
    P L (f + 1) ts = (P (L - 1) f ts).bind fun p => Loop L f p.1 p.2 := by
  rcases hL with rfl | rfl | rfl | rfl | rfl | rfl | rfl | rfl <;>
    simp only [P, Loop, parseMulDiv, parseAddSub, parseBitShift, parseBitAnd, parseBitXor, parseBitOr, parseAnd, parseOr]

theorem Loop_succ {L : Nat} (hL : BinLoop L) (f : Nat) (e : Expr) (ts : List Token) :
    Loop L (f + 1) e ts =
      match loopOp L (cur ts) with
      | some op => (P (L - 1) f ts.tail).bind fun p => Loop L f (.bin op e p.1) p.2
      | none => .ok (e, ts) := by
  rcases hL with rfl | rfl | rfl | rfl | rfl | rfl | rfl | rfl
  · simp only [P, Loop, loopOp, mulLoop]; rfl
  · simp only [P, Loop, loopOp, addLoop]; rfl
  · simp only [P, Loop, loopOp, shiftLoop]; rfl
  · simp only [P, Loop, loopOp, bitAndLoop]; cases cur ts <;> rfl
  · simp only [P, Loop, loopOp, bitXorLoop]; cases cur ts <;> rfl
  · simp only [P, Loop, loopOp, bitOrLoop]; cases cur ts <;> rfl
  · simp only [P, Loop, loopOp, andLoop]; cases cur ts <;> rfl
  · simp only [P, Loop, loopOp, orLoop]; cases cur ts <;> rfl

/-- A: `parse_L = parse_{L-1} ; loop_L` -/
theorem ev_parse_of_loop {L : Nat} (hL : BinLoop L) {ts ts' : List Token} {e : Expr} {res : PR}
    (h1 : Ev (fun f => P (L - 1) f ts) (.ok (e, ts'))) (h2 : Ev (fun f => Loop L f e ts') res) :
    Ev (fun f => P L f ts) res :=
  Ev.step (fun f => P_succ hL f ts) (Ev.bind (k := fun f p => Loop L f p.1 p.2) h1 h2)

/-- B: one iteration of the loop of level `L` -/
theorem ev_loop_iter {L : Nat} (hL : BinLoop L) {t : Token} {ts ts' : List Token} {op : BOp} {e r : Expr} {res : PR}
    (hop : loopOp L (tk t.kind) = some op)
    (h1 : Ev (fun f => P (L - 1) f ts) (.ok (r, ts'))) (h2 : Ev (fun f => Loop L f (.bin op e r) ts') res) :
    Ev (fun f => Loop L f e (t :: ts)) res := by
  refine Ev.step (q := fun f => (P (L - 1) f ts).bind fun p => Loop L f (.bin op e p.1) p.2) (fun f => ?_)
    (Ev.bind (k := fun f p => Loop L f (.bin op e p.1) p.2) h1 h2)
  rw [Loop_succ hL]; simp only [cur_cons, hop, List.tail_cons]

/-- C: the loop of level `L` stops at a token that is not one of its operators -/
theorem ev_loop_stop {L : Nat} (hL : BinLoop L) {ts : List Token} {e : Expr} (hop : loopOp L (cur ts) = none) :
    Ev (fun f => Loop L f e ts) (.ok (e, ts)) :=
  Ev.step (q := fun _ => .ok (e, ts)) (fun f => by rw [Loop_succ hL]; simp only [hop]) (Ev.const _)

/-! ## the other productions -/

/-- continue under a `bind` whose first computation is eventually `ok a` -/
macro "ev_bind " h:term : tactic => `(tactic| (refine Ev.bind $h ?_; try dsimp only))

theorem ev_expr {ts : List Token} {res : PR} (h : Ev (fun f => parseOr f ts) res) : Ev (fun f => parseExpr f ts) res :=
  Ev.step (fun f => by simp only [parseExpr]) h

theorem ev_not_not {t : Token} {ts ts' : List Token} {e : Expr} (ht : tk t.kind = .not_)
    (h : Ev (fun f => parseNot f ts) (.ok (e, ts'))) : Ev (fun f => parseNot f (t :: ts)) (.ok (.unary .not e, ts')) := by
  refine Ev.step (q := fun f => (parseNot f ts).bind fun p => .ok (.unary .not p.1, p.2))
    (fun f => by simp only [parseNot, cur_cons, ht, List.tail_cons]) ?_
  ev_bind h
  exact Ev.const _

theorem ev_not_cmp {ts : List Token} {res : PR} (hc : cur ts ≠ .not_) (h : Ev (fun f => parseComparison f ts) res) :
    Ev (fun f => parseNot f ts) res := by
  refine Ev.step (fun f => ?_) h
  simp only [parseNot]

/-- the part of `parseComparison` after the left operand -/
def cmpTail (f : Nat) (e1 : Expr) (ts1 : List Token) : PR :=
  match cmpOp? (cur ts1) with
  | some op => (parseBitOr f ts1.tail).bind fun q => .ok (.bin op e1 q.1, q.2)
  | none =>
    match cur ts1 with
    | .in_ => (parseInCondition f ts1.tail).bind fun q => .ok (q.1.mk false e1, q.2)
    | .between => parseBetweenTail f false e1 ts1.tail
    | .not_ =>
      match cur ts1.tail with
      | .like => (parseBitOr f ts1.tail.tail).bind fun q => .ok (.bin .notLike e1 q.1, q.2)
      | .in_ => (parseInCondition f ts1.tail.tail).bind fun q => .ok (q.1.mk true e1, q.2)
      | .between => parseBetweenTail f true e1 ts1.tail.tail
      | _ => .raise
    | .is_ => parseIsTail e1 ts1.tail
    | _ => .ok (e1, ts1)

theorem parseComparison_succ (f : Nat) (ts : List Token) :
    parseComparison (f + 1) ts = (parseBitOr f ts).bind fun p => cmpTail f p.1 p.2 := by
  simp only [parseComparison]; rfl

theorem ev_cmp {ts ts1 : List Token} {e1 : Expr} {res : PR}
    (h1 : Ev (fun f => parseBitOr f ts) (.ok (e1, ts1))) (h2 : Ev (fun f => cmpTail f e1 ts1) res) :
    Ev (fun f => parseComparison f ts) res := by
  refine Ev.step (fun f => parseComparison_succ f ts) ?_
  ev_bind h1
  exact h2

/-- a simple comparison operator -/
theorem ev_cmpTail_op {t : Token} {ts ts' : List Token} {op : BOp} {e1 r : Expr} (hop : cmpOp? (tk t.kind) = some op)
    (h : Ev (fun f => parseBitOr f ts) (.ok (r, ts'))) :
    Ev (fun f => cmpTail f e1 (t :: ts)) (.ok (.bin op e1 r, ts')) := by
  refine Ev.congr (q := fun f => (parseBitOr f ts).bind fun q => .ok (.bin op e1 q.1, q.2))
    (fun f => by simp only [cmpTail, cur_cons, hop, List.tail_cons]) ?_
  ev_bind h
  exact Ev.const _

theorem ev_cmpTail_notLike {t u : Token} {ts ts' : List Token} {e1 r : Expr} (ht : tk t.kind = .not_)
    (hu : tk u.kind = .like) (h : Ev (fun f => parseBitOr f ts) (.ok (r, ts'))) :
    Ev (fun f => cmpTail f e1 (t :: u :: ts)) (.ok (.bin .notLike e1 r, ts')) := by
  refine Ev.congr (q := fun f => (parseBitOr f ts).bind fun q => .ok (.bin .notLike e1 q.1, q.2))
    (fun f => by simp only [cmpTail, cur_cons, ht, hu, cmpOp?, List.tail_cons]) ?_
  ev_bind h
  exact Ev.const _

theorem ev_cmpTail_in {t : Token} {ts ts' : List Token} {e1 : Expr} {c : InCond} (ht : tk t.kind = .in_)
    (h : Ev (fun f => parseInCondition f ts) (.ok (c, ts'))) :
    Ev (fun f => cmpTail f e1 (t :: ts)) (.ok (c.mk false e1, ts')) := by
  refine Ev.congr (q := fun f => (parseInCondition f ts).bind fun q => .ok (q.1.mk false e1, q.2))
    (fun f => by simp only [cmpTail, cur_cons, ht, cmpOp?, List.tail_cons]) ?_
  ev_bind h
  exact Ev.const _

theorem ev_cmpTail_notIn {t u : Token} {ts ts' : List Token} {e1 : Expr} {c : InCond} (ht : tk t.kind = .not_)
    (hu : tk u.kind = .in_) (h : Ev (fun f => parseInCondition f ts) (.ok (c, ts'))) :
    Ev (fun f => cmpTail f e1 (t :: u :: ts)) (.ok (c.mk true e1, ts')) := by
  refine Ev.congr (q := fun f => (parseInCondition f ts).bind fun q => .ok (q.1.mk true e1, q.2))
    (fun f => by simp only [cmpTail, cur_cons, ht, hu, cmpOp?, List.tail_cons]) ?_
  ev_bind h
  exact Ev.const _

theorem ev_cmpTail_between {t : Token} {ts : List Token} {e1 : Expr} {res : PR} (ht : tk t.kind = .between)
    (h : Ev (fun f => parseBetweenTail f false e1 ts) res) : Ev (fun f => cmpTail f e1 (t :: ts)) res :=
  Ev.congr (fun f => by simp only [cmpTail, cur_cons, ht, cmpOp?, List.tail_cons]) h

theorem ev_cmpTail_notBetween {t u : Token} {ts : List Token} {e1 : Expr} {res : PR} (ht : tk t.kind = .not_)
    (hu : tk u.kind = .between) (h : Ev (fun f => parseBetweenTail f true e1 ts) res) :
    Ev (fun f => cmpTail f e1 (t :: u :: ts)) res :=
  Ev.congr (fun f => by simp only [cmpTail, cur_cons, ht, hu, cmpOp?, List.tail_cons]) h

theorem ev_cmpTail_is {t : Token} {ts : List Token} {e1 : Expr} (ht : tk t.kind = .is_) :
    Ev (fun f => cmpTail f e1 (t :: ts)) (parseIsTail e1 ts) :=
  Ev.congr (fun f => by simp only [cmpTail, cur_cons, ht, cmpOp?, List.tail_cons]) (Ev.const _)

/-- no comparison operator follows: `parseComparison` returns its operand -/
theorem ev_cmpTail_none {ts : List Token} {e1 : Expr} (h : contLevel (cur ts) ≠ some 9) :
    Ev (fun f => cmpTail f e1 ts) (.ok (e1, ts)) := by
  refine Ev.congr (fun f => ?_) (Ev.const _)
  unfold cmpTail
  cases hc : cur ts <;> simp_all [contLevel, cmpOp?]

theorem ev_btw {not : Bool} {e lo hi : Expr} {t : Token} {ts ts2 rest : List Token} (ht : tk t.kind = .and_)
    (h1 : Ev (fun f => parseBitOr f ts) (.ok (lo, t :: ts2))) (h2 : Ev (fun f => parseBitOr f ts2) (.ok (hi, rest))) :
    Ev (fun f => parseBetweenTail f not e ts) (.ok (.between not e lo hi, rest)) := by
  refine Ev.step (q := fun f => (parseBitOr f ts).bind fun lo' =>
      if cur lo'.2 = .and_ then (parseBitOr f lo'.2.tail).bind fun hi' => .ok (.between not e lo'.1 hi'.1, hi'.2) else .raise)
    (fun f => by simp only [parseBetweenTail]) ?_
  ev_bind h1
  simp only [cur_cons, ht, if_true, List.tail_cons]
  ev_bind h2
  exact Ev.const _

theorem ev_inCond_values {t u : Token} {ts ts1 ts2 : List Token} {first : Expr} {more : Exprs}
    (ht : tk t.kind = .lparen) (hsel : selectAhead ts = false)
    (h1 : Ev (fun f => parseExpr f ts) (.ok (first, ts1)))
    (h2 : Ev (fun f => inListLoop f ts1) (.ok (more, u :: ts2))) (hu : tk u.kind = .rparen) :
    Ev (fun f => parseInCondition f (t :: ts)) (.ok (.values first more, ts2)) := by
  refine Ev.step (q := fun f => (parseExpr f ts).bind fun p => (inListLoop f p.2).bind fun q =>
      if cur q.2 = .rparen then .ok (.values p.1 q.1, q.2.tail) else .raise) (fun f => ?_) ?_
  · simp only [parseInCondition, lookaheadSubQuery, cur_cons, ht, List.tail_cons, hsel]; simp
  · ev_bind h1
    ev_bind h2
    simp only [cur_cons, hu, if_true, List.tail_cons]
    exact Ev.const _

theorem ev_inCond_unnest {t u v : Token} {ts ts1 : List Token} {a : Expr}
    (ht : tk t.kind = .unnest) (hu : tk u.kind = .lparen)
    (h1 : Ev (fun f => parseExpr f ts) (.ok (a, v :: ts1))) (hv : tk v.kind = .rparen) :
    Ev (fun f => parseInCondition f (t :: u :: ts)) (.ok (.unnest a, ts1)) := by
  refine Ev.step (q := fun f => (parseExpr f ts).bind fun p =>
      if cur p.2 = .rparen then .ok (.unnest p.1, p.2.tail) else .raise) (fun f => ?_) ?_
  · simp only [parseInCondition, lookaheadSubQuery, cur_cons, ht, hu, List.tail_cons]; simp
  · ev_bind h1
    simp only [cur_cons, hv, if_true, List.tail_cons]
    exact Ev.const _

theorem ev_inList_cons {t : Token} {ts ts1 ts2 : List Token} {e : Expr} {m : Exprs} (ht : tk t.kind = .comma)
    (h1 : Ev (fun f => parseExpr f ts) (.ok (e, ts1))) (h2 : Ev (fun f => inListLoop f ts1) (.ok (m, ts2))) :
    Ev (fun f => inListLoop f (t :: ts)) (.ok (.cons e m, ts2)) := by
  refine Ev.step (q := fun f => (parseExpr f ts).bind fun p => (inListLoop f p.2).bind fun q => .ok (.cons p.1 q.1, q.2))
    (fun f => by simp only [inListLoop, cur_cons, ht, List.tail_cons]) ?_
  ev_bind h1
  ev_bind h2
  exact Ev.const _

theorem ev_inList_nil {ts : List Token} (h : cur ts ≠ .comma) : Ev (fun f => inListLoop f ts) (.ok (.nil, ts)) := by
  refine Ev.step (q := fun _ => .ok (.nil, ts)) (fun f => ?_) (Ev.const _)
  simp only [inListLoop]

theorem ev_unary_op {t : Token} {ts ts' : List Token} {op : UOp} {e e2 : Expr} (hop : unOp? (tk t.kind) = some op)
    (h : Ev (fun f => parseUnary f ts) (.ok (e, ts'))) (hf : foldSign op e = .ok e2) :
    Ev (fun f => parseUnary f (t :: ts)) (.ok (e2, ts')) := by
  refine Ev.step (q := fun f => (parseUnary f ts).bind fun p => (foldSign op p.1).bind fun e' => .ok (e', p.2))
    (fun f => by simp only [parseUnary, cur_cons, hop, List.tail_cons]) ?_
  ev_bind h
  simp only [hf, Res.bind_ok]
  exact Ev.const _

theorem ev_unary_sel {ts : List Token} {res : PR} (hop : unOp? (cur ts) = none)
    (h : Ev (fun f => parseSelector f ts) res) : Ev (fun f => parseUnary f ts) res :=
  Ev.step (fun f => by simp only [parseUnary, hop]) h

theorem ev_sel_of_loop {ts ts' : List Token} {e : Expr} {res : PR}
    (h1 : Ev (fun f => parseLit f ts) (.ok (e, ts'))) (h2 : Ev (fun f => selLoop f e ts') res) :
    Ev (fun f => parseSelector f ts) res := by
  refine Ev.step (q := fun f => (parseLit f ts).bind fun p => selLoop f p.1 p.2)
    (fun f => by simp only [parseSelector]) ?_
  ev_bind h1
  exact h2

theorem ev_selLoop_dot {t u : Token} {ts : List Token} {e : Expr} {res : PR} (ht : tk t.kind = .dot)
    (hu : tk u.kind = .ident) (h : Ev (fun f => selLoop f (mkSel e u.asString) ts) res) :
    Ev (fun f => selLoop f e (t :: u :: ts)) res := by
  refine Ev.step (fun f => ?_) h
  simp [selLoop, ht, hu, parseIdent]

theorem ev_selLoop_idx {t u : Token} {ts ts' : List Token} {e : Expr} {s : IdxSpec} {res : PR} (ht : tk t.kind = .lbrack)
    (h1 : Ev (fun f => parseIndexSpecifier f ts) (.ok (s, u :: ts'))) (hu : tk u.kind = .rbrack)
    (h2 : Ev (fun f => selLoop f (s.mk e) ts') res) : Ev (fun f => selLoop f e (t :: ts)) res := by
  refine Ev.step (q := fun f => (parseIndexSpecifier f ts).bind fun p =>
      if cur p.2 = .rbrack then selLoop f (p.1.mk e) p.2.tail else .raise)
    (fun f => by simp only [selLoop, cur_cons, ht, List.tail_cons]) ?_
  ev_bind h1
  simp only [cur_cons, hu, if_true, List.tail_cons]
  exact h2

theorem ev_selLoop_stop {ts : List Token} {e : Expr} (h1 : cur ts ≠ .dot) (h2 : cur ts ≠ .lbrack) :
    Ev (fun f => selLoop f e ts) (.ok (e, ts)) := by
  refine Ev.step (q := fun _ => .ok (e, ts)) (fun f => ?_) (Ev.const _)
  simp only [selLoop]

/-- the `default:` branch: the first token is not a position word, or it is not followed by `(` -/
theorem ev_idx_plain {ts ts' : List Token} {i : Expr} (hk : posKw? ts = none ∨ cur ts.tail ≠ .lparen)
    (h : Ev (fun f => parseExpr f ts) (.ok (i, ts'))) :
    Ev (fun f => parseIndexSpecifier f ts) (.ok (.plain i, ts')) := by
  refine Ev.step (q := fun f => (parseExpr f ts).bind fun p => .ok (.plain p.1, p.2))
    (fun f => ?_) ?_
  · simp only [parseIndexSpecifier]
    split
    · rcases hk with hk | hk
      · simp_all
      · rw [if_neg hk]
    · rfl
  ev_bind h
  exact Ev.const _

theorem ev_idx_kw {t u v : Token} {ts ts' : List Token} {i : Expr} {k : PosKw} (hk : posKw? (t :: u :: ts) = some k)
    (hu : tk u.kind = .lparen) (h : Ev (fun f => parseExpr f ts) (.ok (i, v :: ts'))) (hv : tk v.kind = .rparen) :
    Ev (fun f => parseIndexSpecifier f (t :: u :: ts)) (.ok (.kw k t.asString i, ts')) := by
  refine Ev.step (q := fun f => (parseExpr f ts).bind fun p =>
      if cur p.2 = .rparen then .ok (.kw k t.asString p.1, p.2.tail) else .raise)
    (fun f => by simp only [parseIndexSpecifier, hk, List.tail_cons, cur_cons, hu, if_true, hd_cons]) ?_
  ev_bind h
  simp only [cur_cons, hv, if_true, List.tail_cons]
  exact Ev.const _

theorem ev_paren {t u : Token} {ts ts' : List Token} {e : Expr} (ht : tk t.kind = .lparen)
    (hsel : selectAhead ts = false) (h : Ev (fun f => parseExpr f ts) (.ok (e, u :: ts'))) (hu : tk u.kind = .rparen) :
    Ev (fun f => parseLit f (t :: ts)) (.ok (.paren e, ts')) := by
  refine Ev.step (q := fun f => parseParenExpr f (t :: ts)) (fun f => by simp only [parseLit, cur_cons, ht]) ?_
  refine Ev.step (q := fun f => (parseExpr f ts).bind fun p =>
      match cur p.2 with
      | .rparen => .ok (.paren p.1, p.2.tail)
      | .comma => .outside
      | _ => .raise) (fun f => ?_) ?_
  · simp only [parseParenExpr, lookaheadSubQuery, cur_cons, ht, List.tail_cons, hsel]; simp; rfl
  · ev_bind h
    simp only [cur_cons, hu, List.tail_cons]
    exact Ev.const _

/-- a production that does not look at the fuel beyond its own unit -/
theorem ev_lit_of_eq {ts : List Token} {r : PR} (h : ∀ f, parseLit (f + 1) ts = r) : Ev (fun f => parseLit f ts) r :=
  Ev.step (q := fun _ => r) h (Ev.const _)

end MF.Expr
