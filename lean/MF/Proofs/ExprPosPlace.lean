/-
  MF.Proofs.ExprPosPlace — the positions of a parser-built tree are a FUNCTION of its erased shape and of the
  positions of the tokens it was read from.

  `placeG g x i` lays the (position-free) tree `x` over the tokens number `i`, `i+1`, … whose `(pos, end)` are given by
  `g : Nat → Nat × Nat`, filling every position field from the token at the index where parser.go reads it; it
  returns the positioned tree and the index after its last token (`i + (yield x).length`).

  `placed_all`: whenever the positioned parser answers `ok (e, rest)` on the suffix `all.drop i` of a token list,
  `rest = all.drop j` and `placeG (pe all) (erase e) i = (e, j)`  (`pe all k` = pos/end of the k-th token of `all`).
-/
import MF.Proofs.ExprPosErase
namespace MF.Expr

/-! ## tokens by index -/

/-- the `k`-th token (`{}` past the end, as `hd`) -/
def tokAt (all : List Token) (k : Nat) : Token := hd (all.drop k)

/-- `(pos, end)` of the `k`-th token -/
def pe (all : List Token) (k : Nat) : Nat × Nat := ((tokAt all k).pos, (tokAt all k).end)

@[simp] theorem hd_drop (all : List Token) (k : Nat) : hd (all.drop k) = tokAt all k := rfl
@[simp] theorem pe_fst (all : List Token) (k : Nat) : (pe all k).1 = (tokAt all k).pos := rfl
@[simp] theorem pe_snd (all : List Token) (k : Nat) : (pe all k).2 = (tokAt all k).end := rfl
@[simp] theorem tail_drop' (all : List Token) (k : Nat) : (all.drop k).tail = all.drop (k + 1) := by
  simp [List.tail_drop]

theorem tokAt_of_getElem? {all : List Token} {k : Nat} {t : Token} (h : all[k]? = some t) : tokAt all k = t := by
  unfold tokAt hd
  rw [List.drop_eq_getElem_cons (by exact (List.getElem?_eq_some_iff.mp h).1)]
  simp [(List.getElem?_eq_some_iff.mp h).2]

theorem cur_drop {all : List Token} {k : Nat} {c : TK} (h : cur (all.drop k) = c) (hc : c ≠ .eof) :
    k < all.length ∧ all[k]? = some (tokAt all k) ∧ tk (tokAt all k).kind = c := by
  obtain ⟨t, tl, h1, h2⟩ := cur_ne_eof h hc
  have hlt : k < all.length := by
    rcases Nat.lt_or_ge k all.length with hh | hh
    · exact hh
    · rw [List.drop_eq_nil_of_le hh] at h1; cases h1
  have : all[k]? = some t := by
    rw [List.drop_eq_getElem_cons hlt] at h1
    injection h1 with h1 _
    simp [List.getElem?_eq_getElem hlt, h1]
  rw [tokAt_of_getElem? this]
  exact ⟨hlt, this, h2⟩

/-! ## `placeG` -/

def nb (b : Bool) : Nat := if b then 1 else 0

def identAt (g : Nat → Nat × Nat) (k : Nat) (n : Bytes) : PIdent := ⟨(g k).1, (g k).2, n⟩

/-- the `. name` pairs of a path, the first dot at index `k` -/
def placeIds (g : Nat → Nat × Nat) : List Bytes → Nat → List PIdent × Nat
  | [], k => ([], k)
  | n :: ns, k => (identAt g (k + 1) n :: (placeIds g ns (k + 2)).1, (placeIds g ns (k + 2)).2)

/-- the identifiers of a type path, the first one at index `k` -/
def placePath (g : Nat → Nat × Nat) : List Bytes → Nat → List PIdent × Nat
  | [], k => ([], k)
  | a :: ns, k => (identAt g k a :: (placeIds g ns (k + 1)).1, (placeIds g ns (k + 1)).2)

mutual
def placeG (g : Nat → Nat × Nat) : Expr → Nat → PExpr × Nat
  | .null, i => (.null (g i).1, i + 1)
  | .bool b, i => (.bool (g i).1 b, i + 1)
  | .int none raw, i => (.int (g i).1 (g i).2 none raw, i + 1)
  | .int (some s) raw, i => (.int (g i).1 (g (i + 1)).2 (some s) raw, i + 2)
  | .float none raw, i => (.float (g i).1 (g i).2 none raw, i + 1)
  | .float (some s) raw, i => (.float (g i).1 (g (i + 1)).2 (some s) raw, i + 2)
  | .str v, i => (.str (g i).1 (g i).2 v, i + 1)
  | .bytes v, i => (.bytes (g i).1 (g i).2 v, i + 1)
  | .param n, i => (.param (g i).1 n, i + 1)
  | .ident n, i => (.ident (identAt g i n), i + 1)
  | .path [], i => (.path [], i)
  | .path (a :: ns), i => (.path (identAt g i a :: (placeIds g ns (i + 1)).1), (placeIds g ns (i + 1)).2)
  | .paren e, i => (.paren (g i).1 (g (placeG g e (i + 1)).2).1 (placeG g e (i + 1)).1, (placeG g e (i + 1)).2 + 1)
  | .unary op e, i => (.unary (g i).1 op (placeG g e (i + 1)).1, (placeG g e (i + 1)).2)
  | .bin op l r, i =>
    (.bin op (placeG g l i).1 (placeG g r ((placeG g l i).2 + op.toks.length)).1,
      (placeG g r ((placeG g l i).2 + op.toks.length)).2)
  | .isNull e not, i =>
    (.isNull (g ((placeG g e i).2 + 1 + nb not)).1 (placeG g e i).1 not, (placeG g e i).2 + 1 + nb not + 1)
  | .isBool e not b, i =>
    (.isBool (g ((placeG g e i).2 + 1 + nb not)).1 (placeG g e i).1 not b, (placeG g e i).2 + 1 + nb not + 1)
  | .between not e lo hi, i =>
    let a := placeG g e i
    let b := placeG g lo (a.2 + nb not + 1)
    let c := placeG g hi (b.2 + 1)
    (.between not a.1 b.1 c.1, c.2)
  | .inList not e first more, i =>
    let a := placeG g e i
    let lp := a.2 + nb not + 1
    let b := placeG g first (lp + 1)
    let c := placesG g more b.2
    (.inList not a.1 (g lp).1 (g c.2).1 b.1 c.1, c.2 + 1)
  | .inUnnest not e arg, i =>
    let a := placeG g e i
    let un := a.2 + nb not + 1
    let b := placeG g arg (un + 2)
    (.inUnnest not a.1 (g un).1 (g b.2).1 b.1, b.2 + 1)
  | .sel e n, i => (.sel (placeG g e i).1 (identAt g ((placeG g e i).2 + 1) n), (placeG g e i).2 + 2)
  | .index e none ix, i =>
    let a := placeG g e i
    let b := placeG g ix (a.2 + 1)
    (.index (g b.2).1 a.1 none b.1, b.2 + 1)
  | .index e (some (k, sp)) ix, i =>
    let a := placeG g e i
    let b := placeG g ix (a.2 + 3)
    (.index (g (b.2 + 1)).1 a.1 (some ⟨k, sp, (g (a.2 + 1)).1, (g b.2).1⟩) b.1, b.2 + 2)
  | .caseE o c t ws el, i =>
    let a := placeO g false o (i + 1)      -- the operand (if any) after CASE
    let b := placeG g c (a.2 + 1)          -- WHEN at `a.2`
    let d := placeG g t (b.2 + 1)          -- THEN at `b.2`
    let w := placeW g ws d.2
    let x := placeO g true el w.2          -- ELSE (if any) at `w.2`
    (.caseE (g i).1 (g x.2).1 a.1 (g a.2).1 b.1 d.1 w.1 x.1, x.2 + 1)
  | .ifE c t e, i =>
    let a := placeG g c (i + 2)
    let b := placeG g t (a.2 + 1)
    let d := placeG g e (b.2 + 1)
    (.ifE (g i).1 (g d.2).1 a.1 b.1 d.1, d.2 + 1)
  | .cast e ns, i =>
    let a := placeG g e (i + 2)            -- CAST ( e; AS at `a.2`
    let b := placePath g ns (a.2 + 1)
    (.cast (g i).1 (g b.2).1 a.1 b.1, b.2 + 1)
  | .array .nil, i => (.array (g i).1 (g (i + 1)).1 .nil, i + 2)
  | .array (.cons e es), i =>
    let a := placeG g e (i + 1)
    let b := placesG g es a.2
    (.array (g i).1 (g b.2).1 (.cons a.1 b.1), b.2 + 1)
/-- the `, element` pairs of an IN list, the first comma at index `i` -/
def placesG (g : Nat → Nat × Nat) : Exprs → Nat → PExprs × Nat
  | .nil, i => (.nil, i)
  | .cons e es, i => (.cons (placeG g e (i + 1)).1 (placesG g es (placeG g e (i + 1)).2).1,
      (placesG g es (placeG g e (i + 1)).2).2)
/-- the further `WHEN cond THEN result` clauses, the first WHEN at index `i` -/
def placeW (g : Nat → Nat × Nat) : Whens → Nat → PWhens × Nat
  | .nil, i => (.nil, i)
  | .cons c t ws, i =>
    let b := placeG g c (i + 1)
    let d := placeG g t (b.2 + 1)
    let w := placeW g ws d.2
    (.cons (g i).1 b.1 d.1 w.1, w.2)
/-- an optional expression from index `i`; `kw = true`: behind the keyword ELSE (whose position is stored) at index `i` -/
def placeO (g : Nat → Nat × Nat) (kw : Bool) : OExpr → Nat → POExpr × Nat
  | .none, i => (.none, i)
  | .some e, i => (.some (if kw then (g i).1 else 0) (placeG g e (i + nb kw)).1, (placeG g e (i + nb kw)).2)
end

theorem placeIds_append (g : Nat → Nat × Nat) (ns : List Bytes) (n : Bytes) (k : Nat) :
    placeIds g (ns ++ [n]) k =
      ((placeIds g ns k).1 ++ [identAt g ((placeIds g ns k).2 + 1) n], (placeIds g ns k).2 + 2) := by
  induction ns generalizing k with
  | nil => simp [placeIds]
  | cons a ns ih => simp [placeIds, ih]

/-! ## the parser places its tree -/

/-- `p` is the answer for the tree laid over `all` from index `i0` on -/
def PlacedAt (all : List Token) (i0 : Nat) (p : PExpr × List Token) : Prop :=
  ∃ j, placeG (pe all) (erase p.1) i0 = (p.1, j) ∧ p.2 = all.drop j

theorem PlacedAt.mk' {all : List Token} {i0 j : Nat} {e : PExpr}
    (h : placeG (pe all) (erase e) i0 = (e, j)) : PlacedAt all i0 (e, all.drop j) := ⟨j, h, rfl⟩

/-- skipping an optional NOT -/
theorem skip_not (all : List Token) (j : Nat) (b : Bool) :
    (if b = true then (all.drop j).tail else all.drop j) = all.drop (j + nb b) := by
  cases b <;> simp [nb]

structure PlaceAt (all : List Token) (f : Nat) : Prop where
  expr : ∀ i p, parsePExpr f (all.drop i) = .ok p → PlacedAt all i p
  or_ : ∀ i p, parsePOr f (all.drop i) = .ok p → PlacedAt all i p
  orLoop : ∀ i0 e i p, placeG (pe all) (erase e) i0 = (e, i) → orLoopP f e (all.drop i) = .ok p → PlacedAt all i0 p
  and_ : ∀ i p, parsePAnd f (all.drop i) = .ok p → PlacedAt all i p
  andLoop : ∀ i0 e i p, placeG (pe all) (erase e) i0 = (e, i) → andLoopP f e (all.drop i) = .ok p → PlacedAt all i0 p
  not_ : ∀ i p, parsePNot f (all.drop i) = .ok p → PlacedAt all i p
  cmp : ∀ i p, parsePComparison f (all.drop i) = .ok p → PlacedAt all i p
  /-- `i` is the index after BETWEEN -/
  btw : ∀ i0 e j n i p, placeG (pe all) (erase e) i0 = (e, j) → i = j + nb n + 1 →
    parsePBetweenTail f n e (all.drop i) = .ok p → PlacedAt all i0 p
  /-- `i` is the index after IN -/
  inCond : ∀ i0 e j n i c rest, placeG (pe all) (erase e) i0 = (e, j) → i = j + nb n + 1 →
    parsePInCondition f (all.drop i) = .ok (c, rest) → PlacedAt all i0 (c.mk n e, rest)
  inList : ∀ i m rest, inListLoopP f (all.drop i) = .ok (m, rest) →
    ∃ j, placesG (pe all) (erases m) i = (m, j) ∧ rest = all.drop j
  bitOr : ∀ i p, parsePBitOr f (all.drop i) = .ok p → PlacedAt all i p
  bitOrLoop : ∀ i0 e i p, placeG (pe all) (erase e) i0 = (e, i) → bitOrLoopP f e (all.drop i) = .ok p → PlacedAt all i0 p
  bitXor : ∀ i p, parsePBitXor f (all.drop i) = .ok p → PlacedAt all i p
  bitXorLoop : ∀ i0 e i p, placeG (pe all) (erase e) i0 = (e, i) → bitXorLoopP f e (all.drop i) = .ok p → PlacedAt all i0 p
  bitAnd : ∀ i p, parsePBitAnd f (all.drop i) = .ok p → PlacedAt all i p
  bitAndLoop : ∀ i0 e i p, placeG (pe all) (erase e) i0 = (e, i) → bitAndLoopP f e (all.drop i) = .ok p → PlacedAt all i0 p
  shift : ∀ i p, parsePBitShift f (all.drop i) = .ok p → PlacedAt all i p
  shiftLoop : ∀ i0 e i p, placeG (pe all) (erase e) i0 = (e, i) → shiftLoopP f e (all.drop i) = .ok p → PlacedAt all i0 p
  add : ∀ i p, parsePAddSub f (all.drop i) = .ok p → PlacedAt all i p
  addLoop : ∀ i0 e i p, placeG (pe all) (erase e) i0 = (e, i) → addLoopP f e (all.drop i) = .ok p → PlacedAt all i0 p
  mul : ∀ i p, parsePMulDiv f (all.drop i) = .ok p → PlacedAt all i p
  mulLoop : ∀ i0 e i p, placeG (pe all) (erase e) i0 = (e, i) → mulLoopP f e (all.drop i) = .ok p → PlacedAt all i0 p
  unary : ∀ i p, parsePUnary f (all.drop i) = .ok p → PlacedAt all i p
  sel : ∀ i p, parsePSelector f (all.drop i) = .ok p → PlacedAt all i p
  selLoop : ∀ i0 e i p, e ≠ .path [] → placeG (pe all) (erase e) i0 = (e, i) → selLoopP f e (all.drop i) = .ok p →
    PlacedAt all i0 p
  /-- `i` is the index after `[`; the answer is stated for the `IndexExpr` the caller builds -/
  idx : ∀ i0 e j i s rest, placeG (pe all) (erase e) i0 = (e, j) → i = j + 1 →
    parsePIndexSpecifier f (all.drop i) = .ok (s, rest) →
      ∃ k, rest = all.drop k ∧
        placeG (pe all) (erase (s.mk (tokAt all k).pos e)) i0 = (s.mk (tokAt all k).pos e, k + 1)
  lit : ∀ i p, parsePLit f (all.drop i) = .ok p → PlacedAt all i p
  paren : ∀ i p, parsePParenExpr f (all.drop i) = .ok p → PlacedAt all i p
  caseE : ∀ i p, parsePCaseExpr f (all.drop i) = .ok p → PlacedAt all i p
  caseLoop : ∀ i m rest, caseWhenLoopP f (all.drop i) = .ok (m, rest) →
    ∃ j, placeW (pe all) (eraseW m) i = (m, j) ∧ rest = all.drop j
  /-- `i` is the index of WHEN -/
  caseWhen : ∀ i wp c t rest, parsePCaseWhen f (all.drop i) = .ok ((wp, c, t), rest) →
    ∃ k j, wp = (tokAt all i).pos ∧ placeG (pe all) (erase c) (i + 1) = (c, k) ∧
      placeG (pe all) (erase t) (k + 1) = (t, j) ∧ rest = all.drop j
  /-- `i` is the index of ELSE -/
  caseElse : ∀ i p, parsePCaseElse f (all.drop i) = .ok p →
    ∃ j, placeG (pe all) (erase p.1) (i + 1) = (p.1, j) ∧ p.2 = all.drop j
  ifE : ∀ i p, parsePIfExpr f (all.drop i) = .ok p → PlacedAt all i p
  arr : ∀ i p, parsePSimpleArrayLiteral f (all.drop i) = .ok p → PlacedAt all i p
  cast : ∀ i p, parsePCastExpr f (all.drop i) = .ok p → PlacedAt all i p

theorem place_zero (all : List Token) : PlaceAt all 0 := by
  constructor <;> intros <;> simp_all [parsePExpr, parsePOr, orLoopP, parsePAnd, andLoopP, parsePNot, parsePComparison,
    parsePBetweenTail, parsePInCondition, inListLoopP, parsePBitOr, bitOrLoopP, parsePBitXor, bitXorLoopP, parsePBitAnd,
    bitAndLoopP, parsePBitShift, shiftLoopP, parsePAddSub, addLoopP, parsePMulDiv, mulLoopP, parsePUnary, parsePSelector,
    selLoopP, parsePIndexSpecifier, parsePLit, parsePParenExpr, parsePCaseExpr, caseWhenLoopP, parsePCaseWhen,
    parsePCaseElse, parsePIfExpr, parsePSimpleArrayLiteral, parsePCastExpr]

/-- a binary loop step: the accumulator `e` (placed from `i0`, ending at `i`), one operator token, an operand placed
from `i + 1` -/
theorem placed_bin1 {all : List Token} {i0 i j : Nat} {e r : PExpr} {op : BOp} (hop : op.toks.length = 1)
    (he : placeG (pe all) (erase e) i0 = (e, i)) (hr : placeG (pe all) (erase r) (i + 1) = (r, j)) :
    placeG (pe all) (erase (.bin op e r)) i0 = (.bin op e r, j) := by
  simp [erase, placeG, he, hop, hr]

theorem foldSignP_placed {all : List Token} {i j : Nat} {op : UOp} {p e : PExpr}
    (hp : placeG (pe all) (erase p) (i + 1) = (p, j))
    (h : foldSignP (tokAt all i).pos op p = .ok e) : placeG (pe all) (erase e) i = (e, j) := by
  unfold foldSignP at h
  cases hs : op.sign? with
  | none =>
    rw [hs] at h; simp only [Res.ok.injEq] at h; subst h
    simp [erase, placeG, hp]
  | some s =>
    rw [hs] at h
    have hun : placeG (pe all) (erase (.unary (tokAt all i).pos op p)) i = (.unary (tokAt all i).pos op p, j) := by
      simp [erase, placeG, hp]
    cases p with
    | int vp ve sg raw =>
      cases sg with
      | none =>
        simp only at h
        cases hu : unsignedRaw? raw with
        | none => rw [hu] at h; cases h
        | some b =>
          rw [hu] at h
          cases b
          · simp only [Res.ok.injEq] at h; subst h; exact hun
          · simp only [Res.ok.injEq] at h; subst h
            simp only [erase, placeG, Prod.mk.injEq, PExpr.int.injEq] at hp
            simp [erase, placeG, ← hp.2, ← hp.1.2.1]
      | some _ => simp only [Res.ok.injEq] at h; subst h; exact hun
    | float vp ve sg raw =>
      cases sg with
      | none =>
        simp only at h
        cases hu : unsignedRaw? raw with
        | none => rw [hu] at h; cases h
        | some b =>
          rw [hu] at h
          cases b
          · simp only [Res.ok.injEq] at h; subst h; exact hun
          · simp only [Res.ok.injEq] at h; subst h
            simp only [erase, placeG, Prod.mk.injEq, PExpr.float.injEq] at hp
            simp [erase, placeG, ← hp.2, ← hp.1.2.1]
      | some _ => simp only [Res.ok.injEq] at h; subst h; exact hun
    | _ => simp only [Res.ok.injEq] at h; subst h; exact hun

theorem erase_sel (e : PExpr) (id : PIdent) : erase (.sel e id) = .sel (erase e) id.name := by simp [erase]

theorem sel_placed {all : List Token} {i0 i : Nat} {e : PExpr} {id : PIdent}
    (he : placeG (pe all) (erase e) i0 = (e, i)) (hid : id = identOf (tokAt all (i + 1))) :
    placeG (pe all) (erase (.sel e id)) i0 = (.sel e id, i + 2) := by
  rw [erase_sel]; simp only [placeG, he]; subst hid; simp [identAt, identOf]

theorem mkSelP_placed {all : List Token} {i0 i : Nat} {e : PExpr} (hne : e ≠ .path [])
    (he : placeG (pe all) (erase e) i0 = (e, i)) :
    placeG (pe all) (erase (mkSelP e (identOf (tokAt all (i + 1))))) i0 =
      (mkSelP e (identOf (tokAt all (i + 1))), i + 2) := by
  cases e
  case ident a =>
    simp only [erase, placeG, Prod.mk.injEq, PExpr.ident.injEq] at he
    obtain ⟨h1, h2⟩ := he
    subst h2
    simp only [mkSelP, erase, List.map_cons, List.map_nil, placeG, placeIds, identAt, identOf, pe_fst, pe_snd]
    rw [← h1]; simp [identAt]
  case path ids =>
    cases ids with
    | nil => exact absurd rfl hne
    | cons a ids =>
      simp only [erase, List.map_cons, placeG, Prod.mk.injEq, PExpr.path.injEq, List.cons.injEq] at he
      obtain ⟨⟨h1, h2⟩, h3⟩ := he
      simp only [mkSelP, erase, List.cons_append, List.map_cons, List.map_append, List.map_nil, placeG, placeIds_append,
        h3, h2, identAt, identOf, pe_fst, pe_snd]
      rw [← h1]; simp [identAt]
  all_goals exact sel_placed he rfl

theorem mkSelP_ne (e : PExpr) (id : PIdent) : mkSelP e id ≠ .path [] := by
  cases e <;> simp [mkSelP]

theorem idxmk_ne (s : PIdxSpec) (rb : Nat) (e : PExpr) : s.mk rb e ≠ .path [] := by
  cases s <;> simp [PIdxSpec.mk]

theorem expectThenP_ne {k : TK} {ts : List Token} {mk : Token → PExpr} {p : PExpr × List Token}
    (h : expectThenP k ts mk = .ok p) (hmk : ∀ t, mk t ≠ .path []) : p.1 ≠ .path [] := by
  unfold expectThenP at h
  split at h
  · simp only [Res.ok.injEq] at h; subst h; exact hmk _
  · cases h

theorem parsePBool_ne {ts : List Token} {p : PExpr × List Token} (h : parsePBoolLiteral ts = .ok p) :
    p.1 ≠ .path [] := by
  unfold parsePBoolLiteral at h
  split at h
  · simp only [Res.ok.injEq] at h; subst h; simp
  · simp only [Res.ok.injEq] at h; subst h; simp
  · cases h

theorem parsePParen_ne {f : Nat} {ts : List Token} {p : PExpr × List Token} (h : parsePParenExpr f ts = .ok p) :
    p.1 ≠ .path [] := by
  cases f with
  | zero => simp [parsePParenExpr] at h
  | succ f =>
    simp only [parsePParenExpr] at h
    split at h
    · cases h
    · obtain ⟨q, _, h2⟩ := Res.bind_eq_ok.mp h
      split at h2
      · simp only [Res.ok.injEq] at h2; subst h2; simp
      · cases h2
      · cases h2

theorem parsePLitIdent_ne {ts : List Token} {p : PExpr × List Token} (h : parsePLitIdent ts = .ok p) :
    p.1 ≠ .path [] := by
  simp only [parsePLitIdent] at h
  split at h
  · cases h
  · split at h
    · cases h
    · split at h
      · cases h
      · simp only [Res.ok.injEq] at h; subst h; simp

theorem parsePCase_ne {f : Nat} {ts : List Token} {p : PExpr × List Token} (h : parsePCaseExpr f ts = .ok p) :
    p.1 ≠ .path [] := by
  cases f with
  | zero => simp [parsePCaseExpr] at h
  | succ f =>
    simp only [parsePCaseExpr] at h
    split at h
    · obtain ⟨o, _, h2⟩ := Res.bind_eq_ok.mp h
      obtain ⟨w, _, h3⟩ := Res.bind_eq_ok.mp h2
      obtain ⟨ws, _, h4⟩ := Res.bind_eq_ok.mp h3
      obtain ⟨el, _, h5⟩ := Res.bind_eq_ok.mp h4
      split at h5
      · simp only [Res.ok.injEq] at h5; subst h5; simp
      · cases h5
    · cases h

theorem parsePIf_ne {f : Nat} {ts : List Token} {p : PExpr × List Token} (h : parsePIfExpr f ts = .ok p) :
    p.1 ≠ .path [] := by
  cases f with
  | zero => simp [parsePIfExpr] at h
  | succ f =>
    simp only [parsePIfExpr] at h
    split at h
    · split at h
      · obtain ⟨c, _, h2⟩ := Res.bind_eq_ok.mp h
        split at h2
        · obtain ⟨t, _, h3⟩ := Res.bind_eq_ok.mp h2
          split at h3
          · obtain ⟨e, _, h4⟩ := Res.bind_eq_ok.mp h3
            split at h4
            · simp only [Res.ok.injEq] at h4; subst h4; simp
            · cases h4
          · cases h3
        · cases h2
      · cases h
    · cases h

theorem parsePCast_ne {f : Nat} {ts : List Token} {p : PExpr × List Token} (h : parsePCastExpr f ts = .ok p) :
    p.1 ≠ .path [] := by
  cases f with
  | zero => simp [parsePCastExpr] at h
  | succ f =>
    simp only [parsePCastExpr] at h
    split at h
    · split at h
      · obtain ⟨a, _, h2⟩ := Res.bind_eq_ok.mp h
        split at h2
        · obtain ⟨b, _, h3⟩ := Res.bind_eq_ok.mp h2
          split at h3
          · simp only [Res.ok.injEq] at h3; subst h3; simp
          · cases h3
        · cases h2
      · cases h
    · cases h

/-! the type of a CAST: the identifiers of the path are placed like those of a `Path` -/

theorem castTypeP_succ {f : Nat} {t : Token} {ts : List Token} (hk : t.kind = .ident)
    (hs : TypeP.lookaheadSimpleType (t :: ts) = false) :
    castTypeP (f + 1) (t :: ts) =
      match TypeP.pathLoop f ts with
      | .ok (ids, rest) => .ok (⟨t.pos, t.end, t.asString⟩ :: ids.map ofTyIdent, rest)
      | .raise => .raise
      | .outOfFuel => .outOfFuel := by
  have hc : TypeP.cur (t :: ts) = .ident := by simp [TypeP.cur, TypeP.tk_ident, hk]
  simp only [castTypeP, hc, hs, Bool.false_eq_true, if_false, TypeP.parseType, Bool.not_false, if_true,
    TypeP.parseNamedType, TypeP.parseIdentOrPath, TypeP.parseIdent, TypeP.expect, TypeP.hd, List.headD_cons,
    List.tail_cons, TypeP.Res.bind]
  cases TypeP.pathLoop f ts with
  | ok a => obtain ⟨ids, rest⟩ := a; simp [TypeP.Res.bind, ofTyIdent]
  | raise => rfl
  | outOfFuel => rfl

theorem castTypeP_ok_inv {f : Nat} {ts : List Token} {path : List PIdent} {rest : List Token}
    (h : castTypeP f ts = .ok (path, rest)) :
    ∃ t tl, ts = t :: tl ∧ t.kind = .ident ∧ TypeP.lookaheadSimpleType ts = false := by
  unfold castTypeP at h
  split at h
  · rename_i hc
    obtain ⟨t, tl, rfl, ht⟩ := TypeP.cur_ne_eof hc (by decide)
    split at h
    · cases h
    · rename_i hs
      exact ⟨t, tl, rfl, TypeP.tk_ident.1 ht, by simpa using hs⟩
  · cases h
  · cases h
  · cases h

theorem pathLoop_placed {all : List Token} : ∀ (f j : Nat) (ids : List TypeP.Ident) (rest : List Token),
    TypeP.pathLoop f (all.drop j) = .ok (ids, rest) →
      ∃ k, placeIds (pe all) (ids.map (·.name)) j = (ids.map ofTyIdent, k) ∧ rest = all.drop k
  | 0, _, _, _, h => by simp [TypeP.pathLoop] at h
  | f + 1, j, ids, rest, h => by
    simp only [TypeP.pathLoop] at h
    split at h
    · obtain ⟨⟨i1, ts1⟩, h1, h2⟩ := TypeP.Res.bind_eq_ok.1 h
      obtain ⟨⟨is2, ts2⟩, h3, h4⟩ := TypeP.Res.bind_eq_ok.1 h2
      simp only [TypeP.Res.ok.injEq, Prod.mk.injEq] at h4
      obtain ⟨rfl, rfl⟩ := h4
      simp only [TypeP.parseIdent, TypeP.expect] at h1
      split at h1
      · simp only [TypeP.Res.bind_ok, TypeP.Res.ok.injEq, Prod.mk.injEq] at h1
        obtain ⟨rfl, rfl⟩ := h1
        rw [tail_drop', tail_drop'] at h3
        dsimp only at h3
        obtain ⟨k, hk, hd⟩ := pathLoop_placed f (j + 1 + 1) is2 ts2 h3
        refine ⟨k, ?_, hd⟩
        simp only [List.map_cons, placeIds, hk]
        simp only [identAt, ofTyIdent, pe, tokAt, Expr.hd, TypeP.hd, tail_drop']
      · simp [TypeP.Res.bind] at h1
    · simp only [TypeP.Res.ok.injEq, Prod.mk.injEq] at h
      obtain ⟨rfl, rfl⟩ := h
      exact ⟨j, by simp [placeIds], rfl⟩

theorem castTypeP_placed {all : List Token} {f j : Nat} {path : List PIdent} {rest : List Token}
    (h : castTypeP f (all.drop j) = .ok (path, rest)) :
    ∃ k, placePath (pe all) (path.map (·.name)) j = (path, k) ∧ rest = all.drop k := by
  obtain ⟨t, tl, hts, hk, hs⟩ := castTypeP_ok_inv h
  have htl : tl = all.drop (j + 1) := by rw [← tail_drop', hts]; rfl
  have ht : t = tokAt all j := by simp [tokAt, hts, hd]
  cases f with
  | zero =>
    rw [hts] at h hs
    have hc : TypeP.cur (t :: tl) = .ident := by simp [TypeP.cur, TypeP.tk_ident, hk]
    simp [castTypeP, hc, hs, TypeP.parseType] at h
  | succ f =>
    rw [hts] at h hs
    rw [castTypeP_succ hk hs] at h
    cases hp : TypeP.pathLoop f tl with
    | ok a =>
      obtain ⟨ids, rest'⟩ := a
      rw [hp] at h
      simp only [Res.ok.injEq, Prod.mk.injEq] at h
      obtain ⟨rfl, rfl⟩ := h
      rw [htl] at hp
      obtain ⟨k, hk', hd⟩ := pathLoop_placed f (j + 1) ids rest' hp
      refine ⟨k, ?_, hd⟩
      have e1 : (ids.map ofTyIdent).map (·.name) = ids.map (·.name) := by
        simp [List.map_map, Function.comp_def, ofTyIdent]
      simp only [List.map_cons, placePath, e1, hk']
      simp only [identAt, ht, pe]
    | raise => rw [hp] at h; cases h
    | outOfFuel => rw [hp] at h; cases h

theorem parsePArr_ne {f : Nat} {ts : List Token} {p : PExpr × List Token} (h : parsePSimpleArrayLiteral f ts = .ok p) :
    p.1 ≠ .path [] := by
  cases f with
  | zero => simp [parsePSimpleArrayLiteral] at h
  | succ f =>
    simp only [parsePSimpleArrayLiteral] at h
    split at h
    · split at h
      · simp only [Res.ok.injEq] at h; subst h; simp
      · obtain ⟨a, _, h2⟩ := Res.bind_eq_ok.mp h
        obtain ⟨b, _, h3⟩ := Res.bind_eq_ok.mp h2
        split at h3
        · simp only [Res.ok.injEq] at h3; subst h3; simp
        · cases h3
    · cases h

theorem parsePLit_ne_path {f : Nat} {ts : List Token} {p : PExpr × List Token} (h : parsePLit f ts = .ok p) :
    p.1 ≠ .path [] := by
  cases f with
  | zero => simp [parsePLit] at h
  | succ f =>
    simp only [parsePLit] at h
    split at h
    · exact expectThenP_ne h (by intro t; simp)
    · exact parsePBool_ne h
    · exact parsePBool_ne h
    · exact expectThenP_ne h (by intro t; simp)
    · exact expectThenP_ne h (by intro t; simp)
    · exact expectThenP_ne h (by intro t; simp)
    · exact expectThenP_ne h (by intro t; simp)
    · exact expectThenP_ne h (by intro t; simp)
    · exact parsePCase_ne h
    · exact parsePIf_ne h
    · exact parsePCast_ne h
    · cases h
    · exact parsePArr_ne h
    · exact parsePParen_ne h
    · exact parsePLitIdent_ne h
    · cases h

theorem cmpOp?_len {c : TK} {op : BOp} (h : cmpOp? c = some op) : op.toks.length = 1 := by
  cases c <;> simp [cmpOp?] at h <;> subst h <;> rfl
theorem shiftOp?_len {c : TK} {op : BOp} (h : shiftOp? c = some op) : op.toks.length = 1 := by
  cases c <;> simp [shiftOp?] at h <;> subst h <;> rfl
theorem addOp?_len {c : TK} {op : BOp} (h : addOp? c = some op) : op.toks.length = 1 := by
  cases c <;> simp [addOp?] at h <;> subst h <;> rfl
theorem mulOp?_len {c : TK} {op : BOp} (h : mulOp? c = some op) : op.toks.length = 1 := by
  cases c <;> simp [mulOp?] at h <;> subst h <;> rfl

theorem isTail_placed {all : List Token} {i0 j : Nat} {e : PExpr} {p : PExpr × List Token}
    (he : placeG (pe all) (erase e) i0 = (e, j)) (h : parsePIsTail e (all.drop (j + 1)) = .ok p) :
    PlacedAt all i0 p := by
  unfold parsePIsTail at h
  simp only [skip_not] at h
  split at h
  · simp only [Res.ok.injEq] at h; subst h
    refine ⟨j + 1 + nb (cur (all.drop (j + 1)) == .not_) + 1, ?_, by simp⟩
    simp [erase, placeG, he]
  · simp only [Res.ok.injEq] at h; subst h
    refine ⟨j + 1 + nb (cur (all.drop (j + 1)) == .not_) + 1, ?_, by simp⟩
    simp [erase, placeG, he]
  · simp only [Res.ok.injEq] at h; subst h
    refine ⟨j + 1 + nb (cur (all.drop (j + 1)) == .not_) + 1, ?_, by simp⟩
    simp [erase, placeG, he]
  · cases h

theorem leaf_placed {all : List Token} {i : Nat} {k : TK} {mk : Token → PExpr} {p : PExpr × List Token}
    (h : expectThenP k (all.drop i) mk = .ok p)
    (hmk : placeG (pe all) (erase (mk (tokAt all i))) i = (mk (tokAt all i), i + 1)) : PlacedAt all i p := by
  unfold expectThenP at h
  split at h
  · simp only [Res.ok.injEq] at h; subst h
    exact ⟨i + 1, hmk, by simp⟩
  · cases h

theorem place_succ {all : List Token} {f : Nat} (ih : PlaceAt all f) : PlaceAt all (f + 1) where
  expr := by intro i p h; simp only [parsePExpr] at h; exact ih.or_ i p h
  or_ := by
    intro i p h; simp only [parsePOr] at h
    obtain ⟨q, hq, h2⟩ := Res.bind_eq_ok.mp h
    obtain ⟨j, hj, hd⟩ := ih.and_ i q hq
    rw [hd] at h2
    exact ih.orLoop i q.1 j p hj h2
  orLoop := by
    intro i0 e i p he h; simp only [orLoopP] at h
    split at h
    · obtain ⟨q, hq, h2⟩ := Res.bind_eq_ok.mp h
      rw [tail_drop'] at hq
      obtain ⟨j, hj, hd⟩ := ih.and_ (i + 1) q hq
      rw [hd] at h2
      exact ih.orLoop i0 _ j p (placed_bin1 rfl he hj) h2
    · simp only [Res.ok.injEq] at h; subst h; exact ⟨i, he, rfl⟩
  and_ := by
    intro i p h; simp only [parsePAnd] at h
    obtain ⟨q, hq, h2⟩ := Res.bind_eq_ok.mp h
    obtain ⟨j, hj, hd⟩ := ih.not_ i q hq
    rw [hd] at h2
    exact ih.andLoop i q.1 j p hj h2
  andLoop := by
    intro i0 e i p he h; simp only [andLoopP] at h
    split at h
    · obtain ⟨q, hq, h2⟩ := Res.bind_eq_ok.mp h
      rw [tail_drop'] at hq
      obtain ⟨j, hj, hd⟩ := ih.not_ (i + 1) q hq
      rw [hd] at h2
      exact ih.andLoop i0 _ j p (placed_bin1 rfl he hj) h2
    · simp only [Res.ok.injEq] at h; subst h; exact ⟨i, he, rfl⟩
  not_ := by
    intro i p h; simp only [parsePNot] at h
    split at h
    · obtain ⟨q, hq, h2⟩ := Res.bind_eq_ok.mp h
      rw [tail_drop'] at hq
      obtain ⟨j, hj, hd⟩ := ih.not_ (i + 1) q hq
      simp only [Res.ok.injEq] at h2; subst h2
      exact ⟨j, by simp [erase, placeG, hj], hd⟩
    · exact ih.cmp i p h
  cmp := by
    intro i p h; simp only [parsePComparison] at h
    obtain ⟨q, hq, h2⟩ := Res.bind_eq_ok.mp h
    obtain ⟨j, hj, hd⟩ := ih.bitOr i q hq
    rw [hd] at h2
    split at h2
    · rename_i op hop
      obtain ⟨r, hr, h3⟩ := Res.bind_eq_ok.mp h2
      rw [tail_drop'] at hr
      obtain ⟨k, hk, hdk⟩ := ih.bitOr (j + 1) r hr
      simp only [Res.ok.injEq] at h3; subst h3
      exact ⟨k, placed_bin1 (cmpOp?_len hop) hj hk, hdk⟩
    · split at h2
      · obtain ⟨⟨c, rest⟩, hc, h3⟩ := Res.bind_eq_ok.mp h2
        rw [tail_drop'] at hc
        simp only [Res.ok.injEq] at h3; subst h3
        exact ih.inCond i q.1 j false (j + 1) c rest hj (by simp [nb]) hc
      · rw [tail_drop'] at h2
        exact ih.btw i q.1 j false (j + 1) p hj (by simp [nb]) h2
      · split at h2
        · obtain ⟨r, hr, h3⟩ := Res.bind_eq_ok.mp h2
          rw [tail_drop', tail_drop'] at hr
          obtain ⟨k, hk, hdk⟩ := ih.bitOr (j + 1 + 1) r hr
          simp only [Res.ok.injEq] at h3; subst h3
          exact ⟨k, by simp [erase, placeG, hj, BOp.toks, hk], hdk⟩
        · obtain ⟨⟨c, rest⟩, hc, h3⟩ := Res.bind_eq_ok.mp h2
          rw [tail_drop', tail_drop'] at hc
          simp only [Res.ok.injEq] at h3; subst h3
          exact ih.inCond i q.1 j true (j + 1 + 1) c rest hj (by simp [nb]) hc
        · rw [tail_drop', tail_drop'] at h2
          exact ih.btw i q.1 j true (j + 1 + 1) p hj (by simp [nb]) h2
        · cases h2
      · rw [tail_drop'] at h2
        exact isTail_placed hj h2
      · simp only [Res.ok.injEq] at h2; subst h2; exact ⟨j, hj, rfl⟩
  btw := by
    intro i0 e j n i p he hi h; subst hi; simp only [parsePBetweenTail] at h
    obtain ⟨lo, hlo, h2⟩ := Res.bind_eq_ok.mp h
    obtain ⟨k, hk, hdk⟩ := ih.bitOr _ lo hlo
    rw [hdk] at h2
    split at h2
    · obtain ⟨hi', hhi, h3⟩ := Res.bind_eq_ok.mp h2
      rw [tail_drop'] at hhi
      obtain ⟨m, hm, hdm⟩ := ih.bitOr (k + 1) hi' hhi
      simp only [Res.ok.injEq] at h3; subst h3
      exact ⟨m, by simp [erase, placeG, he, hk, hm], hdm⟩
    · cases h2
  inCond := by
    intro i0 e j n i c rest he hi h; subst hi; simp only [parsePInCondition] at h
    split at h
    · cases h
    · split at h
      · obtain ⟨p, hp, h2⟩ := Res.bind_eq_ok.mp h
        rw [tail_drop'] at hp
        obtain ⟨k, hk, hdk⟩ := ih.expr _ p hp
        obtain ⟨⟨m, rest'⟩, hq, h3⟩ := Res.bind_eq_ok.mp h2
        rw [hdk] at hq
        obtain ⟨l, hl, hdl⟩ := ih.inList k m rest' hq
        subst hdl
        split at h3
        · simp only [Res.ok.injEq, Prod.mk.injEq] at h3
          obtain ⟨rfl, rfl⟩ := h3
          exact ⟨l + 1, by simp [PInCond.mk, erase, placeG, he, hk, hl], by simp⟩
        · cases h3
      · split at h
        · obtain ⟨p, hp, h2⟩ := Res.bind_eq_ok.mp h
          rw [tail_drop', tail_drop'] at hp
          obtain ⟨k, hk, hdk⟩ := ih.expr _ p hp
          rw [hdk] at h2
          split at h2
          · simp only [Res.ok.injEq, Prod.mk.injEq] at h2
            obtain ⟨rfl, rfl⟩ := h2
            exact ⟨k + 1, by simp [PInCond.mk, erase, placeG, he, hk], by simp⟩
          · cases h2
        · cases h
      · cases h
  inList := by
    intro i m rest h; simp only [inListLoopP] at h
    split at h
    · obtain ⟨p, hp, h2⟩ := Res.bind_eq_ok.mp h
      rw [tail_drop'] at hp
      obtain ⟨k, hk, hdk⟩ := ih.expr _ p hp
      obtain ⟨⟨m', rest'⟩, hq, h3⟩ := Res.bind_eq_ok.mp h2
      rw [hdk] at hq
      obtain ⟨l, hl, hdl⟩ := ih.inList k m' rest' hq
      simp only [Res.ok.injEq, Prod.mk.injEq] at h3
      obtain ⟨rfl, rfl⟩ := h3
      exact ⟨l, by simp [erases, placesG, hk, hl], hdl⟩
    · simp only [Res.ok.injEq, Prod.mk.injEq] at h
      obtain ⟨rfl, rfl⟩ := h
      exact ⟨i, by simp [erases, placesG], rfl⟩
  bitOr := by
    intro i p h; simp only [parsePBitOr] at h
    obtain ⟨q, hq, h2⟩ := Res.bind_eq_ok.mp h
    obtain ⟨j, hj, hd⟩ := ih.bitXor i q hq
    rw [hd] at h2
    exact ih.bitOrLoop i q.1 j p hj h2
  bitOrLoop := by
    intro i0 e i p he h; simp only [bitOrLoopP] at h
    split at h
    · obtain ⟨q, hq, h2⟩ := Res.bind_eq_ok.mp h
      rw [tail_drop'] at hq
      obtain ⟨j, hj, hd⟩ := ih.bitXor (i + 1) q hq
      rw [hd] at h2
      exact ih.bitOrLoop i0 _ j p (placed_bin1 rfl he hj) h2
    · simp only [Res.ok.injEq] at h; subst h; exact ⟨i, he, rfl⟩
  bitXor := by
    intro i p h; simp only [parsePBitXor] at h
    obtain ⟨q, hq, h2⟩ := Res.bind_eq_ok.mp h
    obtain ⟨j, hj, hd⟩ := ih.bitAnd i q hq
    rw [hd] at h2
    exact ih.bitXorLoop i q.1 j p hj h2
  bitXorLoop := by
    intro i0 e i p he h; simp only [bitXorLoopP] at h
    split at h
    · obtain ⟨q, hq, h2⟩ := Res.bind_eq_ok.mp h
      rw [tail_drop'] at hq
      obtain ⟨j, hj, hd⟩ := ih.bitAnd (i + 1) q hq
      rw [hd] at h2
      exact ih.bitXorLoop i0 _ j p (placed_bin1 rfl he hj) h2
    · simp only [Res.ok.injEq] at h; subst h; exact ⟨i, he, rfl⟩
  bitAnd := by
    intro i p h; simp only [parsePBitAnd] at h
    obtain ⟨q, hq, h2⟩ := Res.bind_eq_ok.mp h
    obtain ⟨j, hj, hd⟩ := ih.shift i q hq
    rw [hd] at h2
    exact ih.bitAndLoop i q.1 j p hj h2
  bitAndLoop := by
    intro i0 e i p he h; simp only [bitAndLoopP] at h
    split at h
    · obtain ⟨q, hq, h2⟩ := Res.bind_eq_ok.mp h
      rw [tail_drop'] at hq
      obtain ⟨j, hj, hd⟩ := ih.shift (i + 1) q hq
      rw [hd] at h2
      exact ih.bitAndLoop i0 _ j p (placed_bin1 rfl he hj) h2
    · simp only [Res.ok.injEq] at h; subst h; exact ⟨i, he, rfl⟩
  shift := by
    intro i p h; simp only [parsePBitShift] at h
    obtain ⟨q, hq, h2⟩ := Res.bind_eq_ok.mp h
    obtain ⟨j, hj, hd⟩ := ih.add i q hq
    rw [hd] at h2
    exact ih.shiftLoop i q.1 j p hj h2
  shiftLoop := by
    intro i0 e i p he h; simp only [shiftLoopP] at h
    split at h
    · rename_i op hop
      obtain ⟨q, hq, h2⟩ := Res.bind_eq_ok.mp h
      rw [tail_drop'] at hq
      obtain ⟨j, hj, hd⟩ := ih.add (i + 1) q hq
      rw [hd] at h2
      exact ih.shiftLoop i0 _ j p (placed_bin1 (shiftOp?_len hop) he hj) h2
    · simp only [Res.ok.injEq] at h; subst h; exact ⟨i, he, rfl⟩
  add := by
    intro i p h; simp only [parsePAddSub] at h
    obtain ⟨q, hq, h2⟩ := Res.bind_eq_ok.mp h
    obtain ⟨j, hj, hd⟩ := ih.mul i q hq
    rw [hd] at h2
    exact ih.addLoop i q.1 j p hj h2
  addLoop := by
    intro i0 e i p he h; simp only [addLoopP] at h
    split at h
    · rename_i op hop
      obtain ⟨q, hq, h2⟩ := Res.bind_eq_ok.mp h
      rw [tail_drop'] at hq
      obtain ⟨j, hj, hd⟩ := ih.mul (i + 1) q hq
      rw [hd] at h2
      exact ih.addLoop i0 _ j p (placed_bin1 (addOp?_len hop) he hj) h2
    · simp only [Res.ok.injEq] at h; subst h; exact ⟨i, he, rfl⟩
  mul := by
    intro i p h; simp only [parsePMulDiv] at h
    obtain ⟨q, hq, h2⟩ := Res.bind_eq_ok.mp h
    obtain ⟨j, hj, hd⟩ := ih.unary i q hq
    rw [hd] at h2
    exact ih.mulLoop i q.1 j p hj h2
  mulLoop := by
    intro i0 e i p he h; simp only [mulLoopP] at h
    split at h
    · rename_i op hop
      obtain ⟨q, hq, h2⟩ := Res.bind_eq_ok.mp h
      rw [tail_drop'] at hq
      obtain ⟨j, hj, hd⟩ := ih.unary (i + 1) q hq
      rw [hd] at h2
      exact ih.mulLoop i0 _ j p (placed_bin1 (mulOp?_len hop) he hj) h2
    · simp only [Res.ok.injEq] at h; subst h; exact ⟨i, he, rfl⟩
  unary := by
    intro i p h; simp only [parsePUnary] at h
    split at h
    · exact ih.sel i p h
    · obtain ⟨q, hq, h2⟩ := Res.bind_eq_ok.mp h
      rw [tail_drop'] at hq
      obtain ⟨j, hj, hd⟩ := ih.unary (i + 1) q hq
      obtain ⟨e, he, h3⟩ := Res.bind_eq_ok.mp h2
      simp only [Res.ok.injEq] at h3; subst h3
      exact ⟨j, foldSignP_placed hj he, hd⟩
  sel := by
    intro i p h; simp only [parsePSelector] at h
    obtain ⟨q, hq, h2⟩ := Res.bind_eq_ok.mp h
    obtain ⟨j, hj, hd⟩ := ih.lit i q hq
    rw [hd] at h2
    exact ih.selLoop i q.1 j p (parsePLit_ne_path hq) hj h2
  selLoop := by
    intro i0 e i p hne he h; simp only [selLoopP] at h
    split at h
    · split at h
      · simp only [Res.ok.injEq] at h; subst h; exact ⟨i, he, rfl⟩
      · obtain ⟨q, hq, h2⟩ := Res.bind_eq_ok.mp h
        rw [tail_drop'] at hq
        unfold parsePIdent at hq
        split at hq
        · simp only [Res.ok.injEq] at hq; subst hq
          simp only [hd_drop, tail_drop'] at h2
          exact ih.selLoop i0 _ (i + 1 + 1) p (mkSelP_ne _ _) (mkSelP_placed hne he) h2
        · cases hq
    · obtain ⟨⟨s, rest⟩, hs, h2⟩ := Res.bind_eq_ok.mp h
      rw [tail_drop'] at hs
      obtain ⟨k, hk, hpl⟩ := ih.idx i0 e i (i + 1) s rest he rfl hs
      subst hk
      split at h2
      · simp only [hd_drop, tail_drop'] at h2
        exact ih.selLoop i0 _ (k + 1) p (idxmk_ne _ _ _) hpl h2
      · cases h2
    · simp only [Res.ok.injEq] at h; subst h; exact ⟨i, he, rfl⟩
  idx := by
    intro i0 e j i s rest he hi h; subst hi; simp only [parsePIndexSpecifier] at h
    split at h
    · split at h
      · obtain ⟨p, hp, h2⟩ := Res.bind_eq_ok.mp h
        rw [tail_drop', tail_drop'] at hp
        obtain ⟨k, hk, hdk⟩ := ih.expr _ p hp
        rw [hdk] at h2
        split at h2
        · simp only [Res.ok.injEq, Prod.mk.injEq] at h2
          obtain ⟨rfl, rfl⟩ := h2
          exact ⟨k + 1, by simp, by simp [PIdxSpec.mk, erase, PKw.erase, placeG, he, hk]⟩
        · cases h2
      · obtain ⟨p, hp, h2⟩ := Res.bind_eq_ok.mp h
        obtain ⟨k, hk, hdk⟩ := ih.expr _ p hp
        simp only [Res.ok.injEq, Prod.mk.injEq] at h2
        obtain ⟨rfl, rfl⟩ := h2
        exact ⟨k, hdk, by simp [PIdxSpec.mk, erase, placeG, he, hk]⟩
    · obtain ⟨p, hp, h2⟩ := Res.bind_eq_ok.mp h
      obtain ⟨k, hk, hdk⟩ := ih.expr _ p hp
      simp only [Res.ok.injEq, Prod.mk.injEq] at h2
      obtain ⟨rfl, rfl⟩ := h2
      exact ⟨k, hdk, by simp [PIdxSpec.mk, erase, placeG, he, hk]⟩
  lit := by
    intro i p h; simp only [parsePLit] at h
    split at h
    · exact leaf_placed h (by simp [erase, placeG])
    · unfold parsePBoolLiteral at h
      split at h
      · simp only [Res.ok.injEq] at h; subst h; exact ⟨i + 1, by simp [erase, placeG], by simp⟩
      · simp only [Res.ok.injEq] at h; subst h; exact ⟨i + 1, by simp [erase, placeG], by simp⟩
      · cases h
    · unfold parsePBoolLiteral at h
      split at h
      · simp only [Res.ok.injEq] at h; subst h; exact ⟨i + 1, by simp [erase, placeG], by simp⟩
      · simp only [Res.ok.injEq] at h; subst h; exact ⟨i + 1, by simp [erase, placeG], by simp⟩
      · cases h
    · exact leaf_placed h (by simp [erase, placeG])
    · exact leaf_placed h (by simp [erase, placeG])
    · exact leaf_placed h (by simp [erase, placeG])
    · exact leaf_placed h (by simp [erase, placeG])
    · exact leaf_placed h (by simp [erase, placeG])
    · exact ih.caseE i p h
    · exact ih.ifE i p h
    · exact ih.cast i p h
    · cases h
    · exact ih.arr i p h
    · exact ih.paren i p h
    · simp only [parsePLitIdent] at h
      split at h
      · cases h
      · split at h
        · cases h
        · split at h
          · cases h
          · simp only [Res.ok.injEq] at h; subst h
            exact ⟨i + 1, by simp [erase, placeG, identOf, identAt], by simp⟩
    · cases h
  paren := by
    intro i p h; simp only [parsePParenExpr] at h
    split at h
    · cases h
    · obtain ⟨q, hq, h2⟩ := Res.bind_eq_ok.mp h
      rw [tail_drop'] at hq
      obtain ⟨k, hk, hdk⟩ := ih.expr _ q hq
      rw [hdk] at h2
      split at h2
      · simp only [Res.ok.injEq] at h2; subst h2
        exact ⟨k + 1, by simp [erase, placeG, hk], by simp⟩
      · cases h2
      · cases h2
  caseE := by
    intro i p h; simp only [parsePCaseExpr] at h
    split at h
    · obtain ⟨o, ho, h2⟩ := Res.bind_eq_ok.mp h
      obtain ⟨⟨⟨wp, c, t⟩, r1⟩, hw, h3⟩ := Res.bind_eq_ok.mp h2
      obtain ⟨⟨ws, r2⟩, hl, h4⟩ := Res.bind_eq_ok.mp h3
      obtain ⟨el, he, h5⟩ := Res.bind_eq_ok.mp h4
      have hO : ∃ j, placeO (pe all) false (eraseO o.1) (i + 1) = (o.1, j) ∧ o.2 = all.drop j := by
        rw [tail_drop'] at ho
        split at ho
        · simp only [Res.ok.injEq] at ho; subst ho; exact ⟨i + 1, by simp [eraseO, placeO], rfl⟩
        · obtain ⟨q, hq, h6⟩ := Res.bind_eq_ok.mp ho
          obtain ⟨k, hk, hdk⟩ := ih.expr _ q hq
          simp only [Res.ok.injEq] at h6; subst h6
          exact ⟨k, by simp [eraseO, placeO, nb, hk], hdk⟩
      obtain ⟨j1, hj1, hd1⟩ := hO
      rw [hd1] at hw
      obtain ⟨k, j2, hwp, hc, ht, hd2⟩ := ih.caseWhen j1 wp c t r1 hw
      subst hd2
      obtain ⟨j3, hj3, hd3⟩ := ih.caseLoop j2 ws r2 hl
      subst hd3
      have hE : ∃ j, placeO (pe all) true (eraseO el.1) j3 = (el.1, j) ∧ el.2 = all.drop j := by
        dsimp only at he
        split at he
        · obtain ⟨q, hq, h6⟩ := Res.bind_eq_ok.mp he
          obtain ⟨k', hk', hdk'⟩ := ih.caseElse j3 q hq
          simp only [Res.ok.injEq] at h6; subst h6
          exact ⟨k', by simp [eraseO, placeO, nb, hk'], hdk'⟩
        · simp only [Res.ok.injEq] at he; subst he; exact ⟨j3, by simp [eraseO, placeO], rfl⟩
      obtain ⟨j4, hj4, hd4⟩ := hE
      dsimp only at h5
      rw [hd4] at h5
      split at h5
      · simp only [Res.ok.injEq] at h5; subst h5
        exact ⟨j4 + 1, by simp [erase, placeG, hj1, hwp, hc, ht, hj3, hj4], by simp [hd4]⟩
      · cases h5
    · cases h
  caseLoop := by
    intro i m rest h; simp only [caseWhenLoopP] at h
    split at h
    · obtain ⟨⟨⟨wp, c, t⟩, r1⟩, hw, h2⟩ := Res.bind_eq_ok.mp h
      obtain ⟨k, j, hwp, hc, ht, hd⟩ := ih.caseWhen i wp c t r1 hw
      subst hd
      obtain ⟨⟨m', rest'⟩, hq, h3⟩ := Res.bind_eq_ok.mp h2
      obtain ⟨l, hl, hdl⟩ := ih.caseLoop j m' rest' hq
      simp only [Res.ok.injEq, Prod.mk.injEq] at h3
      obtain ⟨rfl, rfl⟩ := h3
      exact ⟨l, by simp [eraseW, placeW, hwp, hc, ht, hl], hdl⟩
    · simp only [Res.ok.injEq, Prod.mk.injEq] at h
      obtain ⟨rfl, rfl⟩ := h
      exact ⟨i, by simp [eraseW, placeW], rfl⟩
  caseWhen := by
    intro i wp c t rest h; simp only [parsePCaseWhen] at h
    split at h
    · obtain ⟨q, hq, h2⟩ := Res.bind_eq_ok.mp h
      rw [tail_drop'] at hq
      obtain ⟨k, hk, hdk⟩ := ih.expr _ q hq
      rw [hdk] at h2
      split at h2
      · obtain ⟨r, hr, h3⟩ := Res.bind_eq_ok.mp h2
        rw [tail_drop'] at hr
        obtain ⟨j, hj, hdj⟩ := ih.expr _ r hr
        simp only [Res.ok.injEq, Prod.mk.injEq] at h3
        obtain ⟨⟨rfl, rfl, rfl⟩, rfl⟩ := h3
        exact ⟨k, j, by simp, hk, hj, hdj⟩
      · cases h2
    · cases h
  caseElse := by
    intro i p h; simp only [parsePCaseElse] at h
    split at h
    · rw [tail_drop'] at h
      exact ih.expr _ p h
    · cases h
  ifE := by
    intro i p h; simp only [parsePIfExpr] at h
    split at h
    · split at h
      · obtain ⟨c, hc, h2⟩ := Res.bind_eq_ok.mp h
        rw [tail_drop', tail_drop'] at hc
        obtain ⟨k1, hk1, hd1⟩ := ih.expr _ c hc
        rw [hd1] at h2
        split at h2
        · obtain ⟨t, ht, h3⟩ := Res.bind_eq_ok.mp h2
          rw [tail_drop'] at ht
          obtain ⟨k2, hk2, hd2⟩ := ih.expr _ t ht
          rw [hd2] at h3
          split at h3
          · obtain ⟨e, he, h4⟩ := Res.bind_eq_ok.mp h3
            rw [tail_drop'] at he
            obtain ⟨k3, hk3, hd3⟩ := ih.expr _ e he
            rw [hd3] at h4
            split at h4
            · simp only [Res.ok.injEq] at h4; subst h4
              exact ⟨k3 + 1, by simp [erase, placeG, hk1, hk2, hk3], by simp⟩
            · cases h4
          · cases h3
        · cases h2
      · cases h
    · cases h
  cast := by
    intro i p h; simp only [parsePCastExpr] at h
    split at h
    · split at h
      · obtain ⟨q, hq, h2⟩ := Res.bind_eq_ok.mp h
        rw [tail_drop', tail_drop'] at hq
        obtain ⟨k1, hk1, hd1⟩ := ih.expr _ q hq
        rw [hd1] at h2
        split at h2
        · obtain ⟨⟨path, r⟩, ht, h3⟩ := Res.bind_eq_ok.mp h2
          rw [tail_drop'] at ht
          obtain ⟨k2, hk2, hd2⟩ := castTypeP_placed ht
          subst hd2
          split at h3
          · simp only [Res.ok.injEq] at h3; subst h3
            exact ⟨k2 + 1, by simp [erase, placeG, hk1, hk2], by simp⟩
          · cases h3
        · cases h2
      · cases h
    · cases h
  arr := by
    intro i p h; simp only [parsePSimpleArrayLiteral] at h
    split at h
    · split at h
      · simp only [Res.ok.injEq] at h; subst h
        exact ⟨i + 2, by simp [erase, erases, placeG], by simp⟩
      · obtain ⟨q, hq, h2⟩ := Res.bind_eq_ok.mp h
        rw [tail_drop'] at hq
        obtain ⟨k, hk, hdk⟩ := ih.expr _ q hq
        obtain ⟨⟨m, rest'⟩, hm, h3⟩ := Res.bind_eq_ok.mp h2
        rw [hdk] at hm
        obtain ⟨l, hl, hdl⟩ := ih.inList k m rest' hm
        subst hdl
        split at h3
        · simp only [Res.ok.injEq] at h3; subst h3
          exact ⟨l + 1, by simp [erase, erases, placeG, hk, hl], by simp⟩
        · cases h3
    · cases h

theorem place_all (all : List Token) : ∀ f, PlaceAt all f
  | 0 => place_zero all
  | f + 1 => place_succ (place_all all f)

/-- **Placement.**  A successful positioned parse of the suffix `all.drop i` returns the remaining suffix `all.drop j`
and the tree `placeG` computes from the erased shape and the token positions. -/
theorem parsePExpr_placed {all : List Token} {fuel i : Nat} {e : PExpr} {rest : List Token}
    (h : parsePExpr fuel (all.drop i) = .ok (e, rest)) :
    ∃ j, placeG (pe all) (erase e) i = (e, j) ∧ rest = all.drop j := (place_all all fuel).expr i (e, rest) h

end MF.Expr
