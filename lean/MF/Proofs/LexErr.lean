import MF.Proofs.LexAll
import MF.Proofs.File
namespace MF.Lex

/-- an error raised while scanning `rest` (which starts at absolute offset `p0`) points into it -/
structure ErrOK (rest : Bytes) (p0 : Nat) (e : LexErr) : Prop where
  lo : p0 ≤ e.pos
  le : e.pos ≤ e.end
  hi : e.pos ≤ p0 + rest.length
  unclamped : (e.kind = .illegalChar ∨ e.kind = .numberFollow) → e.end ≤ p0 + rest.length

theorem escapeDigits_bad {rest : Bytes} {p0 i : Nat} {pred : UInt8 → Bool} {start size base maxv : Nat}
    {k : ErrKind} {cp : Bool} {k' : ErrKind} {a b : Nat}
    (h : escapeDigits rest p0 i pred start size base maxv k cp = .bad k' a b) :
    a = p0 + i - 2 ∧ a ≤ b ∧ (k' = k ∨ k' = .parseUint ∨ k' = .invalidCodePoint) := by
  unfold escapeDigits at h
  split at h
  · cases h; exact ⟨rfl, by omega, Or.inl rfl⟩
  · split at h
    · cases h
    · split at h
      · cases h; exact ⟨rfl, by omega, Or.inr (Or.inl rfl)⟩
      · split at h
        · split at h
          · cases h; exact ⟨rfl, by omega, Or.inr (Or.inr rfl)⟩
          · cases h
        · cases h

theorem escape_bad {rest : Bytes} {p0 : Nat} {u : Bool} {i : Nat} {c : UInt8} {k : ErrKind} {a b : Nat}
    (h : escape rest p0 u i c = .bad k a b) :
    a = p0 + i - 2 ∧ a ≤ b ∧ k ≠ .illegalChar ∧ k ≠ .numberFollow := by
  unfold escape at h
  split at h
  · cases h
  · split at h
    · obtain ⟨x, y, z⟩ := escapeDigits_bad h
      exact ⟨x, y, by rcases z with z | z | z <;> simp [z], by rcases z with z | z | z <;> simp [z]⟩
    · split at h
      · split at h
        · cases h; exact ⟨rfl, by omega, by simp, by simp⟩
        · obtain ⟨x, y, z⟩ := escapeDigits_bad h
          exact ⟨x, y, by rcases z with z | z | z <;> simp [z], by rcases z with z | z | z <;> simp [z]⟩
      · split at h
        · obtain ⟨x, y, z⟩ := escapeDigits_bad h
          exact ⟨x, y, by rcases z with z | z | z <;> simp [z], by rcases z with z | z | z <;> simp [z]⟩
        · cases h; exact ⟨rfl, by omega, by simp, by simp⟩

theorem quotedStep_fail {rest : Bytes} {p0 : Nat} {q : Bytes} {raw uni isId np : Bool}
    {i : Nat} {content : Bytes} {he : Bool} {e : LexErr}
    (h : quotedStep rest p0 p0 q raw uni isId np i content he = .fail e) (hi : i ≤ rest.length) :
    ErrOK rest p0 e ∧ np = false := by
  unfold quotedStep at h
  split at h
  · split at h
    · cases h
    · rename_i hnp; cases h
      exact ⟨⟨by simp, by simp, by simp, by simp⟩, by simpa using hnp⟩
  · rename_i c hc
    have hlt := getElem?_some_lt hc
    split at h
    · cases h
    · split at h
      · split at h
        · split at h
          · cases h
          · rename_i hnp; cases h
            exact ⟨⟨by simp, by simp; omega, by simp, by simp⟩, by simpa using hnp⟩
        · split at h <;> cases h
      · split at h
        · split at h
          · split at h
            · cases h
            · rename_i hnp; cases h
              exact ⟨⟨by simp, by simp, by simp; omega, by simp⟩, by simpa using hnp⟩
          · rename_i c2 hc2
            have hlt2 := getElem?_some_lt hc2
            split at h
            · cases h
            · split at h
              · cases h
              · rename_i k a b hesc
                split at h
                · cases h
                · rename_i hnp; cases h
                  obtain ⟨x, y, z1, z2⟩ := escape_bad hesc
                  refine ⟨⟨by simp; omega, by simpa using y, by simp; omega, ?_⟩, by simpa using hnp⟩
                  simp only
                  intro hk; rcases hk with hk | hk
                  · exact absurd hk z1
                  · exact absurd hk z2
              · cases h
        · split at h
          · split at h
            · cases h
            · rename_i hnp; cases h
              exact ⟨⟨by simp, by simp, by simp, by simp⟩, by simpa using hnp⟩
          · cases h

theorem quotedLoop_err {rest : Bytes} {p0 : Nat} {q : Bytes} {raw uni isId np : Bool}
    {fuel i : Nat} {content : Bytes} {he : Bool} {e : LexErr}
    (h : quotedLoop rest p0 p0 q raw uni isId np fuel i content he = .err e) (hi : i ≤ rest.length) :
    ErrOK rest p0 e ∧ np = false := by
  induction fuel generalizing i content he with
  | zero => simp [quotedLoop] at h
  | succ fuel ih =>
    simp only [quotedLoop] at h
    split at h
    · cases h
    · rename_i hf; cases h; exact quotedStep_fail hf hi
    · cases h
    · rename_i i' c' he' hn
      exact ih h (quotedStep_next hn).2

/-- widening: an error inside the suffix `rest.drop k` scanned at `p0 + k` is an error inside `rest` at `p0` -/
theorem ErrOK_drop {rest : Bytes} {p0 k : Nat} {e : LexErr} (h : ErrOK (rest.drop k) (p0 + k) e) (hk : k ≤ rest.length) :
    ErrOK rest p0 e := by
  obtain ⟨a, b, c, d⟩ := h
  simp only [List.length_drop] at c d
  exact ⟨by omega, b, by omega, fun hh => by have := d hh; omega⟩

theorem consumeNumber_err {rest : Bytes} {p0 : Nat} {np : Bool} {e : LexErr}
    (h : consumeNumber rest p0 np = .err e) : ErrOK rest p0 e ∧ np = false := by
  unfold consumeNumber at h
  simp only at h
  split at h
  · cases h
  · rename_i i isInt hnl
    have hi0 : (if isHexPrefix rest = true then 2 else 0) ≤ rest.length := by
      split
      · rename_i hh
        have := isHexPrefix_len hh
        omega
      · omega
    have hb := numberLoop_bound hnl hi0
    split at h
    · split at h
      · split at h
        · cases h
        · rename_i hnp; cases h
          exact ⟨⟨by simp, by simp, by simp; omega, by simp; omega⟩, by simpa using hnp⟩
      · cases h
    · cases h

theorem quotedTok_err {kind : TokKind} {pre : Nat} {r : Res QC} {e : LexErr}
    (h : quotedTok kind pre r = .err e) : r = .err e := by
  unfold quotedTok at h
  split at h
  · cases h
  · cases h; rfl
  · cases h

theorem fallbackTok_err {c : UInt8} {t : Bytes} {p0 : Nat} {np : Bool} {e : LexErr}
    (h : fallbackTok (c :: t) c p0 np = .err e) : ErrOK (c :: t) p0 e ∧ np = false := by
  unfold fallbackTok at h
  split at h
  · cases h
  · split at h
    · cases h
    · rename_i hnp; cases h
      exact ⟨⟨by simp, by simp, by simp, by simp⟩, by simpa using hnp⟩

theorem stringTok_err {c : UInt8} {t : Bytes} {p0 : Nat} {np : Bool} {e : LexErr}
    (h : stringTok (c :: t) c p0 np = .err e) : ErrOK (c :: t) p0 e ∧ np = false := by
  unfold stringTok at h
  split at h
  · rename_i i b r hsp
    have hp := strPrefix_some hsp
    split at h
    · cases h
    · rename_i q hq
      have hd := peekDelimiter_some hq
      have := quotedTok_err h
      unfold consumeQuotedContent at this
      have := quotedLoop_err this hd.2
      exact ⟨ErrOK_drop this.1 (by omega), this.2⟩
  · exact fallbackTok_err h

theorem consumeToken_err {rest : Bytes} {p0 : Nat} {lk : TokKind} {np : Bool} {e : LexErr}
    (h : consumeToken rest p0 lk np = .err e) : ErrOK rest p0 e ∧ np = false := by
  unfold consumeToken at h
  split at h
  · cases h
  · rename_i c t
    split at h
    all_goals first
      | (cases h; done)
      | exact consumeNumber_err h
      | exact stringTok_err h
      | exact fallbackTok_err h
      | (have := quotedTok_err h
         unfold consumeQuotedContent at this
         exact quotedLoop_err this (by simp))
      | ((repeat' split at h) <;> first | exact consumeNumber_err h | (simp [tok1, tok2, paramTok] at h))

theorem consumeFieldToken_err {rest : Bytes} {p0 : Nat} {lk : TokKind} {np : Bool} {e : LexErr}
    (h : consumeFieldToken rest p0 lk np = .err e) : ErrOK rest p0 e ∧ np = false := by
  unfold consumeFieldToken at h
  split at h
  · split at h
    · cases h
    · exact consumeToken_err h
  · exact consumeToken_err h

theorem skipComment_err {rest : Bytes} {p0 : Nat} {np : Bool} {e : LexErr}
    (h : skipComment rest p0 np = .err e) : ErrOK rest p0 e ∧ np = false := by
  unfold skipComment at h
  split at h
  · cases h
  · split at h
    · split at h
      · cases h
      · split at h
        · cases h
        · rename_i hnp; cases h
          exact ⟨⟨by simp, by simp, by simp, by simp⟩, by simpa using hnp⟩
    · cases h

theorem triviaLoop_err {buf : Bytes} {np : Bool} {fuel pos : Nat} {cs : List Comment} {e : LexErr}
    (h : triviaLoop buf np fuel pos cs = .err e) (hp : pos ≤ buf.length) :
    e.pos ≤ e.end ∧ e.pos ≤ buf.length ∧ ((e.kind = .illegalChar ∨ e.kind = .numberFollow) → e.end ≤ buf.length) ∧ np = false := by
  induction fuel generalizing pos cs with
  | zero => simp [triviaLoop] at h
  | succ fuel ih =>
    simp only [triviaLoop] at h
    split at h
    · cases h
    · rename_i space1 hsp
      obtain ⟨hs1, hs2, hs3⟩ := slice?_some hsp
      split at h
      · cases h
      · rename_i e' hsc
        cases h
        obtain ⟨⟨a, b, c, d⟩, hnp⟩ := skipComment_err hsc
        simp only [List.length_drop] at c d
        exact ⟨b, by omega, fun hh => by have := d hh; omega, hnp⟩
      · rename_i n he1 hsc
        have hn := skipComment_ok_le hsc
        simp only [List.length_drop] at hn
        split at h
        · cases h
        · split at h
          · cases h
          · split at h
            · cases h
            · exact ih h (by omega)

/-- every `*Error` the lexer raises has `0 ≤ pos ≤ end` and `pos ≤ len`; the two errors built with `errorf`
(which does not clamp) also have `end ≤ len`; errors are raised in panic mode only -/
theorem nextTokenCore_err {buf : Bytes} {np : Bool} {s : State} {e : LexErr}
    (h : nextTokenCore buf np s = .err e) (hp : s.pos ≤ buf.length) :
    e.pos ≤ e.end ∧ e.pos ≤ buf.length ∧ ((e.kind = .illegalChar ∨ e.kind = .numberFollow) → e.end ≤ buf.length) ∧ np = false := by
  unfold nextTokenCore at h
  simp only at h
  split at h
  · cases h
  · rename_i e' htl; cases h; exact triviaLoop_err htl hp
  · rename_i pos comments space he htl
    have inv := triviaLoop_ok (p0 := s.pos) htl (by simp [CommentsOK]) (by simp [lastEnd])
    obtain ⟨i1, i2, i3, i4, i5, i6⟩ := inv
    split at h
    · split at h <;> cases h
    · split at h
      · cases h
      · rename_i e' hsc
        cases h
        have : ErrOK (buf.drop pos) pos e ∧ np = false := by
          split at hsc
          · exact consumeFieldToken_err hsc
          · exact consumeToken_err hsc
        obtain ⟨⟨a, b, c, d⟩, hnp⟩ := this
        simp only [List.length_drop] at c d
        exact ⟨b, by omega, fun hh => by have := d hh; omega, hnp⟩
      · split at h <;> cases h

theorem clampErr_range {buf : Bytes} {e0 : LexErr} (a : e0.pos ≤ e0.end) (b : e0.pos ≤ buf.length)
    (c : (e0.kind = .illegalChar ∨ e0.kind = .numberFollow) → e0.end ≤ buf.length) :
    (clampErr buf e0).pos ≤ (clampErr buf e0).end ∧ (clampErr buf e0).end ≤ buf.length := by
  unfold clampErr
  split
  · rename_i hk
    have hk' : e0.kind = .illegalChar ∨ e0.kind = .numberFollow := by simpa using hk
    exact ⟨a, c hk'⟩
  · split
    · exact ⟨b, Nat.le_refl _⟩
    · exact ⟨a, by omega⟩

/-- C03 (lexer): `Lexer.nextToken` never ends in a Go runtime panic, in either mode. -/
theorem nextToken_ne_crash {buf : Bytes} {np : Bool} {s : State} (hp : s.pos ≤ buf.length) :
    nextToken buf np s ≠ .crash := by
  unfold nextToken
  cases hcore : nextTokenCore buf np s with
  | crash => exact absurd hcore (nextTokenCore_ne_crash hp)
  | ok s' => simp
  | err e0 =>
    obtain ⟨a, b, c, _⟩ := nextTokenCore_err hcore hp
    have hpos := clampErr_range a b c
    obtain ⟨p, hp', _⟩ := File.position_total buf _ _ hpos.1 hpos.2
    simp only [hp']
    simp

/-- C03 (lexer): every error has `0 ≤ Pos ≤ End ≤ len(input)`. -/
theorem nextToken_err_range {buf : Bytes} {np : Bool} {s : State} {e : LexErr}
    (h : nextToken buf np s = .err e) (hp : s.pos ≤ buf.length) : e.pos ≤ e.end ∧ e.end ≤ buf.length ∧ np = false := by
  unfold nextToken at h
  cases hcore : nextTokenCore buf np s with
  | crash => rw [hcore] at h; cases h
  | ok s' => rw [hcore] at h; cases h
  | err e0 =>
    rw [hcore] at h
    obtain ⟨a, b, c, d⟩ := nextTokenCore_err hcore hp
    have hpos := clampErr_range a b c
    simp only at h
    split at h
    · cases h; exact ⟨hpos.1, hpos.2, d⟩
    · cases h

/-- C03/C10: in recovery mode the lexer never raises; it always returns a token. -/
theorem noPanic_total {buf : Bytes} {s : State} (hp : s.pos ≤ buf.length) :
    ∃ s', nextToken buf true s = .ok s' := by
  cases h : nextToken buf true s with
  | ok s' => exact ⟨s', rfl⟩
  | crash => exact absurd h (nextToken_ne_crash hp)
  | err e => have := (nextToken_err_range h hp).2.2; cases this

/-- C03 (lexer): iterating `NextToken` from the start terminates with the fuel `len+2`: it ends in `<eof>` or in an error,
never in a runtime panic and never out of fuel. -/
theorem lexAllFrom_ne_crash {buf : Bytes} {fuel : Nat} {s : State} {acc : List Token}
    (hp : s.pos ≤ buf.length) (hf : buf.length < fuel + s.pos) : ∀ ts, lexAllFrom buf fuel s acc ≠ .crash ts := by
  induction fuel generalizing s acc with
  | zero => omega
  | succ fuel ih =>
    intro ts
    simp only [lexAllFrom]
    split
    · rename_i hc; exact absurd hc (nextToken_ne_crash hp)
    · simp
    · rename_i s' hs
      have fr := nextToken_frame hs
      have pg := nextToken_progress hs hp
      split
      · simp
      · rename_i hk
        have hk' : s'.tok.kind ≠ .eof := by simpa using hk
        have := pg.2.2.1 hk'
        exact ih fr.le_len (by omega) ts

theorem lexAll_ne_crash (buf : Bytes) : ∀ ts, lexAll buf ≠ .crash ts := by
  unfold lexAll
  exact lexAllFrom_ne_crash (by simp [init]) (by simp [init])

end MF.Lex
