import MF.Proofs.LexFrame
namespace MF.Lex

theorem firstBad_none {rest : Bytes} {pred : UInt8 → Bool} {i n : Nat}
    (h : firstBad rest pred i n = none) : n = 0 ∨ i + n ≤ rest.length := by
  unfold firstBad at h
  rw [List.find?_eq_none] at h
  cases n with
  | zero => left; rfl
  | succ m =>
    right
    have := h m (by simp)
    cases hh : rest[i + m]? with
    | none => simp [hh] at this
    | some c =>
      have : i + m < rest.length := by
        rcases Nat.lt_or_ge (i + m) rest.length with h1 | h1
        · exact h1
        · simp [List.getElem?_eq_none h1] at hh
      omega

theorem lslice?_some_of_le {rest : Bytes} {a b : Nat} (h1 : a ≤ b) (h2 : a ≤ rest.length) :
    ∃ s, lslice? rest a b = some s := by
  unfold lslice?
  simp only
  split
  · exact ⟨_, slice?_of_le h2 (Nat.le_refl _)⟩
  · exact ⟨_, slice?_of_le h1 (by omega)⟩

theorem lslice?_eq {rest : Bytes} {a b : Nat} {s : Bytes} (h : lslice? rest a b = some s) :
    s = slice rest a (min b rest.length) ∧ a ≤ min b rest.length := by
  unfold lslice? at h
  simp only at h
  split at h
  · rename_i hc
    obtain ⟨x, _, z⟩ := slice?_some h
    have : min b rest.length = rest.length := by omega
    rw [this]; exact ⟨z, x⟩
  · rename_i hc
    obtain ⟨x, y, z⟩ := slice?_some h
    have : min b rest.length = b := by omega
    rw [this]; exact ⟨z, x⟩

theorem escapeDigits_bytes {rest : Bytes} {p0 i : Nat} {pred : UInt8 → Bool} {start size base maxv : Nat}
    {k : ErrKind} {cp : Bool} {bs : Bytes} {i' : Nat} (hsz : 0 < size)
    (h : escapeDigits rest p0 i pred start size base maxv k cp = .bytes bs i') :
    i' = i + size ∧ i + size ≤ rest.length := by
  unfold escapeDigits at h
  split at h
  · cases h
  · rename_i hb
    have := firstBad_none hb
    have hle : i + size ≤ rest.length := by omega
    split at h
    · cases h
    · split at h
      · cases h
      · split at h
        · split at h
          · cases h
          · cases h; exact ⟨rfl, hle⟩
        · cases h; exact ⟨rfl, hle⟩

theorem escapeDigits_ne_crash {rest : Bytes} {p0 i : Nat} {pred : UInt8 → Bool} {start size base maxv : Nat}
    {k : ErrKind} {cp : Bool} (hs : start ≤ i) (hi : i ≤ rest.length) :
    escapeDigits rest p0 i pred start size base maxv k cp ≠ .crash := by
  unfold escapeDigits
  split
  · simp
  · obtain ⟨s, hs⟩ := lslice?_some_of_le (rest := rest) (a := start) (b := i + size) (by omega) (by omega)
    rw [hs]
    simp only
    split
    · simp
    · split
      · split <;> simp
      · simp

theorem escape_bytes {rest : Bytes} {p0 : Nat} {u : Bool} {i : Nat} {c : UInt8} {bs : Bytes} {i' : Nat}
    (h : escape rest p0 u i c = .bytes bs i') (hi : i ≤ rest.length) : i ≤ i' ∧ i' ≤ rest.length := by
  unfold escape at h
  split at h
  · cases h; exact ⟨Nat.le_refl _, hi⟩
  · split at h
    · have := escapeDigits_bytes (by decide) h; omega
    · split at h
      · split at h
        · cases h
        · have := escapeDigits_bytes (by split <;> decide) h; omega
      · split at h
        · have := escapeDigits_bytes (by decide) h; omega
        · cases h

theorem escape_ne_crash {rest : Bytes} {p0 : Nat} {u : Bool} {i : Nat} {c : UInt8}
    (hi : i ≤ rest.length) : escape rest p0 u i c ≠ .crash := by
  unfold escape
  split
  · simp
  · split
    · exact escapeDigits_ne_crash (by omega) hi
    · split
      · split
        · simp
        · exact escapeDigits_ne_crash (by omega) hi
      · split
        · exact escapeDigits_ne_crash (by omega) hi
        · simp


theorem getElem?_some_lt {rest : Bytes} {i : Nat} {c : UInt8} (h : rest[i]? = some c) : i < rest.length := by
  rcases Nat.lt_or_ge i rest.length with h1 | h1
  · exact h1
  · simp [List.getElem?_eq_none h1] at h

/-- a quote found by `l.slice(i, i+len(q)) == q` lies entirely inside the buffer -/
theorem lslice?_eq_q {rest : Bytes} {i : Nat} {q sl : Bytes} (h : lslice? rest i (i + q.length) = some sl)
    (he : (sl == q) = true) : i + q.length ≤ rest.length := by
  obtain ⟨h1, h2⟩ := lslice?_eq h
  have he' : sl = q := by simpa using he
  subst he'
  have hl := congrArg List.length h1
  rw [slice_length h2 (Nat.min_le_right _ _)] at hl
  omega

theorem quotedStep_next {rest : Bytes} {p0 : Nat} {q : Bytes} {raw uni isId np : Bool}
    {i : Nat} {content : Bytes} {he : Bool} {i' : Nat} {c' : Bytes} {he' : Bool}
    (h : quotedStep rest p0 p0 q raw uni isId np i content he = .next i' c' he') :
    i < i' ∧ i' ≤ rest.length := by
  unfold quotedStep at h
  split at h
  · split at h <;> cases h
  · rename_i c hc
    have hlt := getElem?_some_lt hc
    split at h
    · cases h
    · split at h
      · split at h
        · split at h <;> cases h
        · split at h <;> cases h
      · split at h
        · split at h
          · split at h
            · cases h; omega
            · cases h
          · rename_i c2 hc2
            have hlt2 := getElem?_some_lt hc2
            split at h
            · cases h; omega
            · split at h
              · rename_i bs i2 hesc
                cases h
                have := escape_bytes hesc (by omega)
                omega
              · split at h
                · cases h; omega
                · cases h
              · cases h
        · split at h
          · split at h
            · cases h; omega
            · cases h
          · cases h; omega

theorem quotedStep_done {rest : Bytes} {p0 : Nat} {q : Bytes} {raw uni isId np : Bool}
    {i : Nat} {content : Bytes} {he : Bool} {qc : QC}
    (h : quotedStep rest p0 p0 q raw uni isId np i content he = .done qc) (hi : i ≤ rest.length) :
    i ≤ qc.len ∧ qc.len ≤ rest.length := by
  unfold quotedStep at h
  split at h
  · split at h
    · cases h; exact ⟨Nat.le_refl _, hi⟩
    · cases h
  · split at h
    · cases h
    · rename_i sl hsl
      split at h
      · rename_i hq
        have := lslice?_eq_q hsl hq
        split at h
        · split at h
          · cases h; simp; omega
          · cases h
        · split at h <;> (cases h; simp; omega)
      · split at h
        · split at h
          · split at h <;> cases h
          · split at h
            · cases h
            · split at h
              · cases h
              · split at h <;> cases h
              · cases h
        · split at h
          · split at h <;> cases h
          · cases h

theorem quotedStep_ne_crash {rest : Bytes} {p0 : Nat} {q : Bytes} {raw uni isId np : Bool}
    {i : Nat} {content : Bytes} {he : Bool} (hi : i ≤ rest.length) :
    quotedStep rest p0 p0 q raw uni isId np i content he ≠ .crash := by
  unfold quotedStep
  split
  · split <;> simp
  · rename_i c hc
    have hlt := getElem?_some_lt hc
    obtain ⟨sl, hsl⟩ := lslice?_some_of_le (rest := rest) (a := i) (b := i + q.length) (by omega) hi
    rw [hsl]
    simp only
    split
    · split
      · split <;> simp
      · split <;> simp
    · split
      · split
        · split <;> simp
        · rename_i c2 hc2
          have hlt2 := getElem?_some_lt hc2
          split
          · simp
          · split
            · simp
            · split <;> simp
            · rename_i hcr
              exact absurd hcr (escape_ne_crash (by omega))
      · split
        · split <;> simp
        · simp

theorem quotedLoop_len {rest : Bytes} {p0 : Nat} {q : Bytes} {raw uni isId np : Bool}
    {fuel i : Nat} {content : Bytes} {he : Bool} {qc : QC}
    (h : quotedLoop rest p0 p0 q raw uni isId np fuel i content he = .ok qc) (hi : i ≤ rest.length) :
    i ≤ qc.len ∧ qc.len ≤ rest.length := by
  induction fuel generalizing i content he with
  | zero => simp [quotedLoop] at h
  | succ fuel ih =>
    simp only [quotedLoop] at h
    split at h
    · rename_i hd; cases h; exact quotedStep_done hd hi
    · cases h
    · cases h
    · rename_i i' c' he' hn
      have := quotedStep_next hn
      have := ih h this.2
      omega

theorem quotedLoop_ne_crash {rest : Bytes} {p0 : Nat} {q : Bytes} {raw uni isId np : Bool}
    {fuel i : Nat} {content : Bytes} {he : Bool} (hi : i ≤ rest.length) (hf : rest.length < fuel + i) :
    quotedLoop rest p0 p0 q raw uni isId np fuel i content he ≠ .crash := by
  induction fuel generalizing i content he with
  | zero => omega
  | succ fuel ih =>
    simp only [quotedLoop]
    split
    · simp
    · simp
    · rename_i hc; exact absurd hc (quotedStep_ne_crash hi)
    · rename_i i' c' he' hn
      have := quotedStep_next hn
      exact ih this.2 (by omega)


theorem dec2_size (b0 : Nat) (t : Bytes) : (Utf8.dec2 b0 t).2 ≤ t.length + 1 ∧ 0 < (Utf8.dec2 b0 t).2 := by
  unfold Utf8.dec2
  split
  · simp only; split <;> simp
  · simp

theorem dec3_size (b0 : Nat) (t : Bytes) : (Utf8.dec3 b0 t).2 ≤ t.length + 1 ∧ 0 < (Utf8.dec3 b0 t).2 := by
  unfold Utf8.dec3
  simp only
  split
  · (repeat' split) <;> simp
  · simp

theorem dec4_size (b0 : Nat) (t : Bytes) : (Utf8.dec4 b0 t).2 ≤ t.length + 1 ∧ 0 < (Utf8.dec4 b0 t).2 := by
  unfold Utf8.dec4
  simp only
  split
  · (repeat' split) <;> simp
  · simp

theorem decodeRune_size (rest : Bytes) : (Utf8.decodeRune rest).2 ≤ rest.length ∧ (rest ≠ [] → 0 < (Utf8.decodeRune rest).2) := by
  unfold Utf8.decodeRune
  split
  · simp
  · rename_i s0 t
    simp only
    split
    · simp
    · split
      · simp
      · split
        · have := dec2_size s0.toNat t; simp; omega
        · split
          · have := dec3_size s0.toNat t; simp; omega
          · split
            · have := dec4_size s0.toNat t; simp; omega
            · simp

theorem skipSpaces_le (fuel : Nat) (rest : Bytes) : skipSpaces fuel rest ≤ rest.length := by
  induction fuel generalizing rest with
  | zero => simp only [skipSpaces]; omega
  | succ fuel ih =>
    simp only [skipSpaces]
    split
    · omega
    · split
      · have h1 := (decodeRune_size rest).1
        have h2 := ih (rest.drop (Utf8.decodeRune rest).2)
        simp only [List.length_drop] at h2
        omega
      · omega

theorem spanLen_le (pred : UInt8 → Bool) (rest : Bytes) : spanLen pred rest ≤ rest.length := by
  induction rest with
  | nil => simp [spanLen]
  | cons c t ih => simp only [spanLen]; split <;> simp <;> omega

theorem numberLoop_bound {rest : Bytes} {base fuel i : Nat} {a b : Bool} {i' : Nat} {c : Bool}
    (h : numberLoop rest base fuel i a b = some (i', c)) (hi : i ≤ rest.length) : i ≤ i' ∧ i' ≤ rest.length := by
  induction fuel generalizing i a b with
  | zero => simp [numberLoop] at h
  | succ fuel ih =>
    simp only [numberLoop] at h
    split at h
    · cases h; exact ⟨Nat.le_refl _, hi⟩
    · rename_i c0 hc0
      have hlt := getElem?_some_lt hc0
      split at h
      · have := ih h (by omega); omega
      · split at h
        · have := ih h (by omega); omega
        · split at h
          · have := ih h (by omega); omega
          · split at h
            · split at h
              · rename_i d hd
                have hlt2 := getElem?_some_lt hd
                split at h
                · have := ih h (by omega)
                  have : i ≤ (if (rest[i + 1]? == some 43 || rest[i + 1]? == some 45) = true then i + 1 + 1 else i + 1) := by
                    split <;> omega
                  omega
                · cases h; exact ⟨Nat.le_refl _, hi⟩
              · cases h; exact ⟨Nat.le_refl _, hi⟩
            · cases h; exact ⟨Nat.le_refl _, hi⟩

theorem numberLoop_ne_none {rest : Bytes} {base fuel i : Nat} {a b : Bool}
    (hi : i ≤ rest.length) (hf : rest.length < fuel + i) : numberLoop rest base fuel i a b ≠ none := by
  induction fuel generalizing i a b with
  | zero => omega
  | succ fuel ih =>
    simp only [numberLoop]
    split
    · simp
    · rename_i c0 hc0
      have hlt := getElem?_some_lt hc0
      split
      · exact ih (by omega) (by omega)
      · split
        · exact ih (by omega) (by omega)
        · split
          · exact ih (by omega) (by omega)
          · split
            · split
              · rename_i d hd
                have hlt2 := getElem?_some_lt hd
                split
                · exact ih (by omega) (by split <;> omega)
                · simp
              · simp
            · simp


/-- what every token scanner guarantees: it consumes a non-empty prefix of a non-empty input and
only the empty input yields `<eof>` -/
structure ScanOK (rest : Bytes) (sc : Scan) : Prop where
  le : sc.len ≤ rest.length
  pos : rest ≠ [] → 0 < sc.len
  eof : sc.kind = .eof → rest = []

theorem peekSat_lt {rest : Bytes} {i : Nat} {pred : UInt8 → Bool} (h : peekSat rest i pred = true) :
    i < rest.length := by
  unfold peekSat at h
  split at h
  · rename_i d hd; exact getElem?_some_lt hd
  · cases h

theorem peekIs_lt {rest : Bytes} {i : Nat} {c : UInt8} (h : peekIs rest i c = true) : i < rest.length := by
  unfold peekIs at h
  have : rest[i]? = some c := by simpa using h
  exact getElem?_some_lt this

theorem isHexPrefix_len {rest : Bytes} (h : isHexPrefix rest = true) : 2 < rest.length := by
  unfold isHexPrefix at h
  simp only [Bool.and_eq_true] at h
  exact peekSat_lt h.2

theorem consumeNumber_ne_crash {rest : Bytes} {p0 : Nat} {np : Bool} :
    consumeNumber rest p0 np ≠ .crash := by
  unfold consumeNumber
  simp only
  split
  · rename_i hn
    exfalso
    refine numberLoop_ne_none ?_ ?_ hn
    · split
      · rename_i hh
        have := isHexPrefix_len hh
        omega
      · omega
    · omega
  · split
    · split
      · split <;> simp
      · simp
    · simp

theorem consumeNumber_ok {rest : Bytes} {p0 : Nat} {np : Bool} {sc : Scan}
    (h : consumeNumber rest p0 np = .ok sc)
    (hstart : peekSat rest 0 Char.isDigit = true ∨ (rest[0]? = some 46 ∧ peekSat rest 1 Char.isDigit = true)) :
    ScanOK rest sc := by
  unfold consumeNumber at h
  simp only at h
  have hne : rest ≠ [] := by
    intro h0; subst h0
    rcases hstart with h1 | h1
    · simp [peekSat] at h1
    · simp at h1
  split at h
  · cases h
  · rename_i i isInt hnl
    have hi0 : (if isHexPrefix rest = true then 2 else 0) ≤ rest.length := by
      split
      · rename_i hh
        have := isHexPrefix_len hh
        omega
      · omega
    have hb := numberLoop_bound hnl hi0
    have hpos : 0 < i := by
      by_cases hh : isHexPrefix rest = true
      · simp only [hh, if_true] at hb; omega
      · simp only [hh] at hnl
        simp only [Bool.false_eq_true, if_false] at hnl
        -- first iteration consumes the leading digit or the '.'
        cases hl : rest.length + 1 with
        | zero => omega
        | succ f =>
          rw [hl] at hnl
          simp only [numberLoop] at hnl
          rcases hstart with h1 | ⟨h1, _⟩
          · unfold peekSat at h1
            split at h1
            · rename_i d hd
              rw [hd] at hnl
              simp only [h1] at hnl
              simp at hnl
              have := numberLoop_bound hnl (by have := getElem?_some_lt hd; omega)
              omega
            · cases h1
          · rw [h1] at hnl
            have hd : Char.isDigit 46 = false := by decide
            have hh : Char.isHexDigit 46 = false := by decide
            simp [hd] at hnl
            have := numberLoop_bound hnl (by have := getElem?_some_lt h1; omega)
            omega
    have key : ∀ sc' : Scan, (sc'.kind = .int ∨ sc'.kind = .float ∨ sc'.kind = .bad) → sc'.len = i → ScanOK rest sc' := by
      intro sc' hk hl
      refine ⟨by omega, fun _ => by omega, ?_⟩
      intro he; rcases hk with h | h | h <;> simp [h] at he
    split at h
    · split at h
      · split at h
        · cases h; split <;> exact key _ (by simp) (by simp)
        · cases h
      · cases h; split <;> exact key _ (by simp) (by simp)
    · cases h; split <;> exact key _ (by simp) (by simp)

theorem identStart_part (c : UInt8) (h : Char.isIdentStart c = true) : Char.isIdentPart c = true := by
  unfold Char.isIdentStart at h
  unfold Char.isIdentPart
  simp only [Bool.or_eq_true, Bool.and_eq_true] at h ⊢
  rcases h with (h | h) | h
  · exact Or.inl (Or.inl (Or.inr h))
  · exact Or.inl (Or.inr h)
  · exact Or.inr h

theorem spanLen_pos {pred : UInt8 → Bool} {c : UInt8} {t : Bytes} (h : pred c = true) :
    0 < spanLen pred (c :: t) := by
  simp [spanLen, h]

theorem identTok_ok {c : UInt8} {t : Bytes} (h : Char.isIdentPart c = true) : ScanOK (c :: t) (identTok (c :: t)) := by
  unfold identTok
  simp only
  have h1 := spanLen_le Char.isIdentPart (c :: t)
  have h2 := spanLen_pos (t := t) h
  split
  · exact ⟨h1, fun _ => h2, by simp⟩
  · exact ⟨h1, fun _ => h2, by simp⟩

theorem peekDelimiter_some {rest q : Bytes} (h : peekDelimiter rest = some q) :
    0 < q.length ∧ q.length ≤ rest.length := by
  unfold peekDelimiter at h
  split at h
  · cases h
  · rename_i c hc
    have h0 := getElem?_some_lt hc
    split at h
    · cases h
    · split at h
      · rename_i hh
        cases h
        simp only [Bool.and_eq_true, beq_iff_eq] at hh
        have := getElem?_some_lt hh.2
        simp; omega
      · cases h; simp; omega

theorem strPrefix_some {rest : Bytes} {fuel i0 : Nat} {b r : Bool} {i : Nat} {b' r' : Bool}
    (h : strPrefix rest fuel i0 b r = some (i, b', r')) :
    i < rest.length ∧ (rest[i]? = some 34 ∨ rest[i]? = some 39) := by
  induction fuel generalizing i0 b r with
  | zero => simp [strPrefix] at h
  | succ fuel ih =>
    simp only [strPrefix] at h
    split at h
    · cases h
    · rename_i c hc
      split at h
      · exact ih h
      · split at h
        · exact ih h
        · split at h
          · rename_i hq
            cases h
            refine ⟨getElem?_some_lt hc, ?_⟩
            rw [hc]
            simpa using hq
          · cases h

theorem peekDelimiter_ne_none {rest : Bytes} (h : rest[0]? = some 34 ∨ rest[0]? = some 39) :
    peekDelimiter rest ≠ none := by
  unfold peekDelimiter
  rcases h with h | h <;> (rw [h]; simp only; split <;> (try split) <;> simp_all)

theorem consumeQuotedContent_ok {rest : Bytes} {p0 : Nat} {q : Bytes} {raw uni isId np : Bool} {qc : QC}
    (h : consumeQuotedContent rest p0 q raw uni isId np = .ok qc) (hq : q.length ≤ rest.length) :
    q.length ≤ qc.len ∧ qc.len ≤ rest.length := by
  unfold consumeQuotedContent at h
  exact quotedLoop_len h hq

theorem consumeQuotedContent_ne_crash {rest : Bytes} {p0 : Nat} {q : Bytes} {raw uni isId np : Bool}
    (hq : q.length ≤ rest.length) : consumeQuotedContent rest p0 q raw uni isId np ≠ .crash := by
  unfold consumeQuotedContent
  exact quotedLoop_ne_crash hq (by omega)

theorem quotedTok_ok {rest : Bytes} {kind : TokKind} {pre : Nat} {r : Res QC} {sc : Scan} {qlen : Nat}
    (h : quotedTok kind pre r = .ok sc) (hk : kind ≠ .eof) (hpre : pre ≤ rest.length)
    (hr : ∀ qc, r = .ok qc → qlen ≤ qc.len ∧ qc.len ≤ rest.length - pre) (hq : 0 < qlen) : ScanOK rest sc := by
  unfold quotedTok at h
  split at h
  · rename_i qc
    cases h
    have := hr qc rfl
    refine ⟨by simp; omega, fun _ => by simp; omega, ?_⟩
    simp only
    split
    · simp
    · intro he; exact absurd he hk
  · cases h
  · cases h

theorem fallbackTok_ok {c : UInt8} {t : Bytes} {p0 : Nat} {np : Bool} {sc : Scan}
    (h : fallbackTok (c :: t) c p0 np = .ok sc) : ScanOK (c :: t) sc := by
  unfold fallbackTok at h
  split at h
  · rename_i hs; cases h; exact identTok_ok (identStart_part c hs)
  · split at h
    · cases h; exact ⟨by simp, fun _ => by simp, by simp⟩
    · cases h

theorem stringTok_ok {c : UInt8} {t : Bytes} {p0 : Nat} {np : Bool} {sc : Scan}
    (h : stringTok (c :: t) c p0 np = .ok sc) : ScanOK (c :: t) sc := by
  unfold stringTok at h
  split at h
  · rename_i i b r hsp
    have hp := strPrefix_some hsp
    split at h
    · cases h
    · rename_i q hq
      have hd := peekDelimiter_some hq
      simp only [List.length_drop] at hd
      refine quotedTok_ok (qlen := q.length) h (by split <;> simp) (by omega) ?_ hd.1
      intro qc hqc
      have := consumeQuotedContent_ok hqc (by simp only [List.length_drop]; omega)
      simpa only [List.length_drop] using this
  · exact fallbackTok_ok h

theorem stringTok_ne_crash {c : UInt8} {t : Bytes} {p0 : Nat} {np : Bool} :
    stringTok (c :: t) c p0 np ≠ .crash := by
  unfold stringTok
  split
  · rename_i i b r hsp
    have hp := strPrefix_some hsp
    have h0 : (List.drop i (c :: t))[0]? = some 34 ∨ (List.drop i (c :: t))[0]? = some 39 := by
      simpa using hp.2
    split
    · rename_i hn; exact absurd hn (peekDelimiter_ne_none h0)
    · rename_i q hq
      have hd := peekDelimiter_some hq
      have := consumeQuotedContent_ne_crash (rest := List.drop i (c :: t)) (p0 := p0 + i) (q := q)
        (raw := r) (uni := !b) (isId := false) (np := np) hd.2
      unfold quotedTok
      split
      · simp
      · simp
      · rename_i hc; exact absurd hc this
  · unfold fallbackTok
    split
    · simp
    · split <;> simp


theorem tok1_ok {c : UInt8} {t : Bytes} {k : String} {sc : Scan} (h : tok1 k = .ok sc) : ScanOK (c :: t) sc := by
  unfold tok1 at h; cases h; exact ⟨by simp, fun _ => by simp, by simp [K]⟩

theorem tok2_ok {rest : Bytes} {k : String} {sc : Scan} {x : UInt8} (hp : peekIs rest 1 x = true)
    (h : tok2 k = .ok sc) : ScanOK rest sc := by
  unfold tok2 at h; cases h
  have := peekIs_lt hp
  exact ⟨by simp; omega, fun _ => by simp, by simp [K]⟩

theorem paramTok_ok {c : UInt8} {t : Bytes} {sc : Scan} (h : paramTok (c :: t) = .ok sc) : ScanOK (c :: t) sc := by
  unfold paramTok at h
  cases h
  have := spanLen_le Char.isIdentPart (List.drop 1 (c :: t))
  simp only [List.drop_succ_cons, List.drop_zero] at this
  refine ⟨by simp; omega, fun _ => by simp; omega, by simp⟩

theorem classify_dot : ∀ {c : UInt8}, classify c = .dot → c = 46 := by
  intro c; revert c
  apply UInt8.forall_of_fin
  decide +kernel

theorem classify_digit : ∀ {c : UInt8}, classify c = .digit → Char.isDigit c = true := by
  intro c; revert c
  apply UInt8.forall_of_fin
  decide +kernel

theorem consumeToken_ok {rest : Bytes} {p0 : Nat} {lk : TokKind} {np : Bool} {sc : Scan}
    (h : consumeToken rest p0 lk np = .ok sc) : ScanOK rest sc := by
  unfold consumeToken at h
  split at h
  · cases h; exact ⟨by simp, fun hh => absurd rfl hh, fun _ => rfl⟩
  · rename_i c t
    split at h
    · cases h; exact ⟨by simp, fun _ => by simp, by simp⟩
    · rename_i hdot
      split at h
      · rename_i hc
        simp only [Bool.and_eq_true] at hc
        refine consumeNumber_ok h (Or.inr ⟨?_, hc.2⟩)
        simp [classify_dot hdot]
      · cases h; exact ⟨by simp, fun _ => by simp, by simp [K]⟩
    · split at h
      · rename_i hp; exact tok2_ok hp h
      split at h
      · rename_i hp; exact tok2_ok hp h
      split at h
      · rename_i hp; exact tok2_ok hp h
      · exact tok1_ok h
    · split at h
      · rename_i hp; exact tok2_ok hp h
      split at h
      · rename_i hp; exact tok2_ok hp h
      · exact tok1_ok h
    · split at h
      · rename_i hp; exact tok2_ok hp h
      · exact tok1_ok h
    · split at h
      · rename_i hp; exact tok2_ok hp h
      split at h
      · rename_i hp; exact tok2_ok hp h
      · exact tok1_ok h
    · split at h
      · rename_i hp; exact tok2_ok hp h
      · exact tok1_ok h
    · split at h
      · rename_i hp; exact tok2_ok hp h
      split at h
      · rename_i hp; exact tok2_ok hp h
      · exact tok1_ok h
    · split at h
      · rename_i hp; exact tok2_ok hp h
      · exact tok1_ok h
    · split at h
      · rename_i hp; exact tok2_ok hp h
      split at h
      · exact paramTok_ok h
      · exact tok1_ok h
    · refine quotedTok_ok (qlen := 1) h (by simp) (by simp) ?_ (by decide)
      intro qc hqc
      have := consumeQuotedContent_ok hqc (by simp)
      simpa using this
    · rename_i hd
      refine consumeNumber_ok h (Or.inl ?_)
      simp [peekSat, classify_digit hd]
    · exact stringTok_ok h
    · exact fallbackTok_ok h

theorem consumeToken_ne_crash {rest : Bytes} {p0 : Nat} {lk : TokKind} {np : Bool} :
    consumeToken rest p0 lk np ≠ .crash := by
  unfold consumeToken
  split
  · simp
  · rename_i c t
    have hq : consumeQuotedContent (c :: t) p0 [96] false true true np ≠ .crash :=
      consumeQuotedContent_ne_crash (by simp)
    split
    all_goals first
      | exact consumeNumber_ne_crash
      | exact stringTok_ne_crash
      | (unfold fallbackTok; (repeat' split) <;> simp)
      | (unfold quotedTok; split <;> first | (rename_i hc; exact absurd hc hq) | simp)
      | ((repeat' split) <;> first | exact consumeNumber_ne_crash | simp [tok1, tok2, paramTok])

theorem consumeFieldToken_ok {rest : Bytes} {p0 : Nat} {lk : TokKind} {np : Bool} {sc : Scan}
    (h : consumeFieldToken rest p0 lk np = .ok sc) : ScanOK rest sc := by
  unfold consumeFieldToken at h
  split at h
  · rename_i c t
    split at h
    · rename_i hp
      cases h
      have h1 := spanLen_le Char.isIdentPart (c :: t)
      have h2 := spanLen_pos (t := t) hp
      exact ⟨h1, fun _ => h2, by simp⟩
    · exact consumeToken_ok h
  · exact consumeToken_ok h

theorem consumeFieldToken_ne_crash {rest : Bytes} {p0 : Nat} {lk : TokKind} {np : Bool} :
    consumeFieldToken rest p0 lk np ≠ .crash := by
  unfold consumeFieldToken
  split
  · split
    · simp
    · exact consumeToken_ne_crash
  · exact consumeToken_ne_crash

end MF.Lex
