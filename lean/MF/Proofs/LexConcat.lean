/-
  MF.Proofs.LexConcat — lexing of concatenations, for the model lexer `MF.Lex`.

  The model lexer is, step by step, the reference lexer `MF.Spec.Lexical` (C14, `MF.Refine.step_refines`), and the
  reference lexer works on the SUFFIX `buf.drop pos` with relative offsets.  A run of the lexer is therefore
  described without positions (`SRun`): from the remaining input `R`, the kind of the previous token `lk` and the
  dot-identifier flag `d`, the lexer produces the token records `l` and is left with the remaining input `R'`
  (state `lk'`, `d'`).  Runs compose by concatenation (`SRun.append`), a run on `v` is a run at any offset of
  `p ++ v` (prefix invariance is built in), and a run is turned back into a statement about `lexAll` /
  `nextToken` of the model by `lexAll_of_srun` / `steps_of_srun` (positions, `Raw`, `AsString`, `Base`).
-/
import MF.Proofs.Refine
import MF.Proofs.LexLocal
namespace MF.Concat
open MF MF.Lex MF.Spec.Lexical

/-! ## token records -/

/-- what a run records of a token: kind, text, decoded value, base -/
structure TRec where
  kind : TokKind
  raw : Bytes
  value : Bytes := []
  base : Nat := 0
  deriving DecidableEq, Repr

/-- the record of a model token -/
def trec (t : Token) : TRec := ⟨t.kind, t.raw, t.asString, t.base⟩

/-- the record of a reference-lexer token scanned at the head of `R` -/
def srec (R : Bytes) (t : STok) : TRec := ⟨t.kind, R.take t.len, t.value, t.base⟩

/-- the `<eof>` record -/
def eofRec : TRec := ⟨.eof, [], [], 0⟩

/-! ## runs of the reference lexer -/

/-- `SRun R lk d l R' lk' d'`: from the input `R` (previous token kind `lk`, dot-identifier flag `d`) the lexer
produces the non-`<eof>` tokens `l` and is left with the input `R'` in state `lk'`, `d'` -/
inductive SRun : Bytes → TokKind → Bool → List TRec → Bytes → TokKind → Bool → Prop
  | nil (R : Bytes) (lk : TokKind) (d : Bool) : SRun R lk d [] R lk d
  | cons {R : Bytes} {lk : TokKind} {d : Bool} {w : Nat} {t : STok} {l : List TRec} {R' : Bytes} {lk' : TokKind}
      {d' : Bool} :
      next R lk d = .tok w t → t.kind ≠ .eof →
      SRun (R.drop (w + t.len)) t.kind (dotAfter lk d t) l R' lk' d' →
      SRun R lk d (srec (R.drop w) t :: l) R' lk' d'

theorem SRun.append {R : Bytes} {lk : TokKind} {d : Bool} {l1 : List TRec} {R1 : Bytes} {lk1 : TokKind} {d1 : Bool}
    {l2 : List TRec} {R2 : Bytes} {lk2 : TokKind} {d2 : Bool}
    (h1 : SRun R lk d l1 R1 lk1 d1) (h2 : SRun R1 lk1 d1 l2 R2 lk2 d2) : SRun R lk d (l1 ++ l2) R2 lk2 d2 := by
  induction h1 with
  | nil => exact h2
  | cons hn hk _ ih => exact SRun.cons hn hk (ih h2)

/-- the remaining input of a run is a suffix of the input -/
theorem SRun.suffix {R : Bytes} {lk : TokKind} {d : Bool} {l : List TRec} {R' : Bytes} {lk' : TokKind} {d' : Bool}
    (h : SRun R lk d l R' lk' d') : ∃ n, R' = R.drop n := by
  induction h with
  | nil => exact ⟨0, rfl⟩
  | cons _ _ _ ih =>
    obtain ⟨n, hn⟩ := ih
    exact ⟨_, by rw [hn, List.drop_drop]⟩

/-! ## trivia: blanks in front of a token -/

/-- `R` does not start with white space or a comment (it may be empty) -/
def NoTrivia (R : Bytes) : Prop := isWhite (Utf8.decodeRune R).1 = false ∧ comment R = .none

theorem whiteLen_noWhite {R : Bytes} (h : isWhite (Utf8.decodeRune R).1 = false) (f : Nat) : whiteLen f R = 0 := by
  cases f with
  | zero => rfl
  | succ f =>
    cases R with
    | nil => rfl
    | cons c t =>
      unfold whiteLen
      simp only [h, Bool.false_and, Bool.false_eq_true, if_false]

theorem whiteLen_cons (f : Nat) (c : UInt8) (t : Bytes) : whiteLen (f + 1) (c :: t) =
    if isWhite (Utf8.decodeRune (c :: t)).1 && (Utf8.decodeRune (c :: t)).2 > 0 then
      (Utf8.decodeRune (c :: t)).2 + whiteLen f ((c :: t).drop (Utf8.decodeRune (c :: t)).2) else 0 := rfl

theorem decodeRune_ascii {c : UInt8} (t : Bytes) (h : c.toNat < 0x80) : Utf8.decodeRune (c :: t) = (c.toNat, 1) := by
  unfold Utf8.decodeRune
  simp only
  rw [if_pos h]

theorem whiteLen_blanks (k f : Nat) (R : Bytes) :
    whiteLen (f + k) (List.replicate k 32 ++ R) = k + whiteLen f R := by
  induction k with
  | zero => simp
  | succ k ih =>
    have hd : Utf8.decodeRune ((32 : UInt8) :: (List.replicate k 32 ++ R)) = (32, 1) :=
      decodeRune_ascii _ (by decide)
    have hw : isWhite 32 = true := by decide +kernel
    rw [List.replicate_succ, List.cons_append, ← Nat.add_assoc, whiteLen_cons, hd]
    simp only [hw, Bool.true_and, gt_iff_lt, Nat.lt_add_one, decide_true, if_true, List.drop_succ_cons,
      List.drop_zero, ih]
    omega

theorem triviaLen_blanks {R : Bytes} (h : NoTrivia R) (k f : Nat) :
    triviaLen (f + 1) (List.replicate k 32 ++ R) = some k := by
  have hw : whiteLen ((List.replicate k 32 ++ R).length + 1) (List.replicate k 32 ++ R) = k := by
    have := whiteLen_blanks k (R.length + 1) R
    rw [whiteLen_noWhite h.1] at this
    rw [List.length_append, List.length_replicate, show k + R.length + 1 = R.length + 1 + k by omega, this]
    omega
  simp only [triviaLen, hw]
  rw [List.drop_append, List.drop_replicate, List.length_replicate]
  simp [h.2]

/-- a token preceded by `k` blanks: the blanks are its trivia -/
theorem next_blanks {R : Bytes} (h : NoTrivia R) (k : Nat) (lk : TokKind) (d : Bool) {t : STok}
    (ht : token R lk d = some t) : next (List.replicate k 32 ++ R) lk d = .tok k t := by
  unfold next
  rw [triviaLen_blanks h]
  simp only
  rw [List.drop_append, List.drop_replicate, List.length_replicate]
  simp [ht]

/-- one token (preceded by `k` blanks) as a run -/
theorem SRun.tok1 {R : Bytes} (h : NoTrivia R) (k : Nat) {lk : TokKind} {d : Bool} {t : STok}
    (ht : token R lk d = some t) (hk : t.kind ≠ .eof) :
    SRun (List.replicate k 32 ++ R) lk d [srec R t] (R.drop t.len) t.kind (dotAfter lk d t) := by
  have hn := next_blanks h k lk d ht
  have hd : (List.replicate k (32 : UInt8) ++ R).drop k = R := by
    rw [List.drop_append, List.drop_replicate, List.length_replicate]; simp
  have h2 : (List.replicate k (32 : UInt8) ++ R).drop (k + t.len) = R.drop t.len := by
    rw [← List.drop_drop, hd]
  have := SRun.cons hn hk (SRun.nil _ t.kind (dotAfter lk d t))
  rw [hd, h2] at this
  exact this

/-- a first byte that is an ASCII character other than white space, `#`, `/`, `-` starts a token -/
theorem noTrivia_of_head {c : UInt8} (t : Bytes) (h1 : c.toNat < 0x80) (h2 : isWhite c.toNat = false)
    (h3 : c ≠ 35) (h4 : c ≠ 47) (h5 : c ≠ 45) : NoTrivia (c :: t) := by
  constructor
  · rw [decodeRune_ascii t h1]; exact h2
  · cases t with
    | nil => simp [comment, startsWith, h3]
    | cons b u => simp [comment, startsWith, h3, h4, h5]

/-- `/` starts a token unless `/` or `*` follows -/
theorem noTrivia_slash {t : Bytes} (h : t.head? ≠ some 47 ∧ t.head? ≠ some 42) : NoTrivia (47 :: t) := by
  constructor
  · rw [decodeRune_ascii t (by decide)]; decide +kernel
  · cases t with
    | nil => simp [comment, startsWith]
    | cons b u =>
      simp only [List.head?_cons, ne_eq, Option.some.injEq] at h
      simp [comment, startsWith, h.1, h.2]

/-- `-` starts a token unless `-` follows -/
theorem noTrivia_minus {t : Bytes} (h : t.head? ≠ some 45) : NoTrivia (45 :: t) := by
  constructor
  · rw [decodeRune_ascii t (by decide)]; decide +kernel
  · cases t with
    | nil => simp [comment, startsWith]
    | cons b u =>
      simp only [List.head?_cons, ne_eq, Option.some.injEq] at h
      simp [comment, startsWith, h]

theorem noTrivia_nil : NoTrivia [] := by
  constructor
  · decide +kernel
  · simp [comment, startsWith]

/-! ## from the reference lexer to the model, one step -/

/-- a step of the reference lexer at the cursor is a step of the model -/
theorem model_step {buf : Bytes} {s : State} (hp : s.pos ≤ buf.length) {w : Nat} {t : STok}
    (h : next (buf.drop s.pos) s.tok.kind s.dotIdent = .tok w t) :
    ∃ s', nextToken buf false s = .ok s' ∧ s'.pos = s.pos + w + t.len ∧ s'.pos ≤ buf.length ∧
      s'.tok.kind = t.kind ∧ s'.tok.asString = t.value ∧ s'.tok.base = t.base ∧
      s'.tok.raw = (buf.drop (s.pos + w)).take t.len ∧ s'.dotIdent = dotAfter s.tok.kind s.dotIdent t ∧
      s'.tok.pos = s.pos + w ∧ s'.tok.end = s.pos + w + t.len := by
  have hr := MF.Refine.step_refines buf s hp
  rw [h] at hr
  cases hn : nextToken buf false s with
  | crash => rw [hn] at hr; exact hr.elim
  | err e => rw [hn] at hr; exact hr.elim
  | ok s' =>
    rw [hn] at hr
    obtain ⟨h1, h2, h3, h4, h5, h6, h7⟩ := hr
    have fr := nextToken_frame hn
    refine ⟨s', rfl, by omega, fr.le_len, h4, h5, h6, ?_, h7, h1, h2⟩
    rw [fr.raw, h1, h2, slice_drop]

/-- a step of the model is a step of the reference lexer at the cursor -/
theorem spec_step {buf : Bytes} {s s' : State} (hp : s.pos ≤ buf.length) (hn : nextToken buf false s = .ok s') :
    ∃ w t, next (buf.drop s.pos) s.tok.kind s.dotIdent = .tok w t ∧ s'.pos = s.pos + w + t.len ∧
      s'.pos ≤ buf.length ∧
      s'.tok.kind = t.kind ∧ s'.tok.asString = t.value ∧ s'.tok.base = t.base ∧
      s'.tok.raw = (buf.drop (s.pos + w)).take t.len ∧ s'.dotIdent = dotAfter s.tok.kind s.dotIdent t ∧
      s'.tok.pos = s.pos + w ∧ s'.tok.end = s.pos + w + t.len := by
  have hr := MF.Refine.step_refines buf s hp
  rw [hn] at hr
  cases hs : next (buf.drop s.pos) s.tok.kind s.dotIdent with
  | reject => rw [hs] at hr; exact hr.elim
  | tok w t =>
    rw [hs] at hr
    obtain ⟨h1, h2, h3, h4, h5, h6, h7⟩ := hr
    have fr := nextToken_frame hn
    refine ⟨w, t, rfl, by omega, fr.le_len, h4, h5, h6, ?_, h7, h1, h2⟩
    rw [fr.raw, h1, h2, slice_drop]

/-! ## from runs of the reference lexer to runs of the model -/

/-- the reference lexer answers `<eof>` on the remaining input -/
def AtEnd (R : Bytes) (lk : TokKind) (d : Bool) : Prop := ∃ w, next R lk d = .tok w { kind := .eof, len := 0 }

theorem atEnd_nil (lk : TokKind) (d : Bool) : AtEnd [] lk d := ⟨0, by cases d <;> rfl⟩

/-- a run of the reference lexer on the suffix at the cursor, ending where the lexer answers `<eof>`, is a run
of the model from that cursor: same kinds, texts, values, bases -/
theorem steps_of_srun {buf : Bytes} {R : Bytes} {lk : TokKind} {d : Bool} {l : List TRec} {R' : Bytes}
    {lk' : TokKind} {d' : Bool} (h : SRun R lk d l R' lk' d') (hend : AtEnd R' lk' d') :
    ∀ s : State, s.pos ≤ buf.length → buf.drop s.pos = R → s.tok.kind = lk → s.dotIdent = d →
      ∃ ts, Steps buf s ts ∧ ts.map trec = l ++ [eofRec] := by
  induction h with
  | nil R lk d =>
    intro s hp hR hlk hd
    obtain ⟨w, hw⟩ := hend
    subst hR hlk hd
    obtain ⟨s', h1, _, _, h4, h5, h6, h7, _⟩ := model_step hp hw
    refine ⟨[s'.tok], Steps.last h1 h4, ?_⟩
    simp only [List.map_cons, List.map_nil, List.nil_append, trec, eofRec, h4, h5, h6, h7, List.take_zero]
  | @cons R lk d w t l R' lk' d' hn hk _ ih =>
    intro s hp hR hlk hd
    subst hR hlk hd
    obtain ⟨s', h1, h2, h3, h4, h5, h6, h7, h8, _⟩ := model_step hp hn
    obtain ⟨ts, hs, hm⟩ := ih hend s' h3 (by rw [h2, Nat.add_assoc, ← List.drop_drop]) h4 h8
    refine ⟨s'.tok :: ts, Steps.cons h1 (by rw [h4]; exact hk) hs, ?_⟩
    simp only [List.map_cons, List.cons_append, hm, List.cons.injEq, and_true]
    simp only [trec, srec, h4, h5, h6, h7, ← List.drop_drop]

/-- a run of the reference lexer on a whole input is the token list of the model -/
theorem lexAll_of_srun {buf : Bytes} {l : List TRec} {R' : Bytes} {lk' : TokKind} {d' : Bool}
    (h : SRun buf (.sym []) false l R' lk' d') (hend : AtEnd R' lk' d') :
    ∃ ts, Lex.lexAll buf = .ok ts ∧ ts.map trec = l ++ [eofRec] := by
  obtain ⟨ts, hs, hm⟩ := steps_of_srun (buf := buf) h hend Lex.init (Nat.zero_le _) rfl rfl rfl
  exact ⟨ts, steps_lexAll hs, hm⟩

end MF.Concat
