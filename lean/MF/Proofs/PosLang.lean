/-
  MF.Proofs.PosLang — the emitter of the POS language is correct w.r.t. the two semantics of MF.Model.PosLang:

   * `PosE.emit_correct`   strict (emitted Go, all helper arguments evaluated) success ⇒ lazy (interpreter) success,
                           same value;
   * `PosE.strict`         a decidable side condition "no sub-term crashes" (stated on the LAZY semantics only);
   * `PosE.emit_eval_of_strict`, `PosE.emit_complete`   under `strict` the two semantics coincide.
-/
import MF.Model.PosLang
namespace MF.Ast

/-! ### strict ⇒ lazy -/

theorem IntE.emit_correct (c : Ctx) : ∀ (i : IntE) (v : Int), (i.emit).eval c = some v → i.eval c = some v
  | .lit n, v, h => by simpa [IntE.emit, GoInt.eval, IntE.eval] using h
  | .len f, v, h => by simpa [IntE.emit, GoInt.eval, IntE.eval] using h
  | .ite b x y, v, h => by
    have ihx := IntE.emit_correct c x
    have ihy := IntE.emit_correct c y
    simp only [IntE.emit, GoInt.eval] at h
    simp only [IntE.eval]
    cases hb : c.boolField b with
    | none => simp [hb] at h
    | some bv =>
      cases hx : x.emit.eval c with
      | none => cases bv <;> simp [hb, hx] at h
      | some vx =>
        cases hy : y.emit.eval c with
        | none => cases bv <;> simp [hb, hx, hy] at h
        | some vy =>
          cases bv
          · simp [hb, hx, hy] at h
            simp [ihy vy hy, h]
          · simp [hb, hx, hy] at h
            simp [ihx vx hx, h]

theorem NodeE.emit_correct (c : Ctx) (e : NodeE) (v : NodeV) (h : (e.emit).eval c = some v) : e.eval c = some v := by
  cases e with
  | var f => simpa [NodeE.emit, GoNodeAtom.eval, NodeE.eval] using h
  | last f => simpa [NodeE.emit, GoNodeAtom.eval, NodeE.eval] using h
  | idx f i =>
    simp only [NodeE.emit, GoNodeAtom.eval] at h
    simp only [NodeE.eval]
    cases hs : c.slice f with
    | none => simp [hs] at h
    | some ns =>
      cases hi : i.emit.eval c with
      | none => simp [hs, hi] at h
      | some k =>
        rw [IntE.emit_correct c i k hi]
        simpa [hs, hi] using h

theorem evalNodeAlts_emit_correct (c : Ctx) :
    ∀ (es : List NodeE) (v : NodeV), evalGoNodeAlts c (es.map NodeE.emit) = some v → evalNodeAlts c es = some v
  | [], v, h => by simpa [evalGoNodeAlts, evalNodeAlts] using h
  | e :: es, v, h => by
    have ih := evalNodeAlts_emit_correct c es
    simp only [List.map_cons, evalGoNodeAlts] at h
    simp only [evalNodeAlts]
    cases he : e.emit.eval c with
    | none => simp [he] at h
    | some x =>
      rw [NodeE.emit_correct c e x he]
      cases hr : evalGoNodeAlts c (es.map NodeE.emit) with
      | none => cases x <;> simp [he, hr] at h
      | some r =>
        cases x with
        | none =>
          simp [he, hr] at h
          simp [ih r hr, h]
        | some w =>
          simp [he, hr] at h
          simp [h]

theorem NodeChoice.emit_correct (c : Ctx) (e : NodeChoice) (v : NodeV) (h : (e.emit).eval c = some v) :
    e.eval c = some v := by
  unfold NodeChoice.eval
  unfold NodeChoice.emit at h
  split at h
  · exact evalNodeAlts_emit_correct c _ _ (by simpa [GoNode.eval] using h)
  · split at h
    · rename_i a heq
      simp only [GoNode.eval] at h
      have := NodeE.emit_correct c a v h
      rw [heq]
      simp only [evalNodeAlts, this]
      cases v <;> rfl
    · exact evalNodeAlts_emit_correct c _ _ (by simpa [GoNode.eval] using h)

theorem PosAtom.emit_correct (c : Ctx) (a : PosAtom) (v : Int) (h : (a.emit).eval c = some v) : a.eval c = some v := by
  cases a with
  | var f => simpa [PosAtom.emit, GoPosAtom.eval, PosAtom.eval] using h
  | nodePos e =>
    simp only [PosAtom.emit, GoPosAtom.eval] at h
    simp only [PosAtom.eval]
    cases he : e.emit.eval c with
    | none => simp [he] at h
    | some x => rw [NodeChoice.emit_correct c e x he]; simpa [he] using h
  | nodeEnd e =>
    simp only [PosAtom.emit, GoPosAtom.eval] at h
    simp only [PosAtom.eval]
    cases he : e.emit.eval c with
    | none => simp [he] at h
    | some x => rw [NodeChoice.emit_correct c e x he]; simpa [he] using h

theorem invalid_neg : invalid < 0 := by decide

theorem evalAdds_emit_correct (c : Ctx) :
    ∀ (as : List IntE) (p v : Int), evalGoAdds c p (as.map IntE.emit) = some v → evalAdds c p as = some v
  | [], p, v, h => by simpa [evalGoAdds, evalAdds] using h
  | a :: as, p, v, h => by
    have ih := evalAdds_emit_correct c as
    simp only [List.map_cons, evalGoAdds] at h
    simp only [evalAdds]
    cases ha : a.emit.eval c with
    | none => simp [ha] at h
    | some w =>
      simp only [ha] at h
      by_cases hp : p < 0
      · simp only [hp, if_true] at h ⊢
        exact ih _ _ h
      · simp only [hp, if_false] at h ⊢
        rw [IntE.emit_correct c a w ha]
        exact ih _ _ h

theorem PosTerm.emit_correct (c : Ctx) (t : PosTerm) (v : Int) (h : (t.emit).eval c = some v) : t.eval c = some v := by
  simp only [PosTerm.emit, GoPosTerm.eval] at h
  simp only [PosTerm.eval]
  cases ha : t.atom.emit.eval c with
  | none => simp [ha] at h
  | some p =>
    rw [PosAtom.emit_correct c t.atom p ha]
    simp only [ha] at h
    exact evalAdds_emit_correct c _ _ _ h

theorem evalPosAlts_emit_correct (c : Ctx) :
    ∀ (ts : List PosTerm) (v : Int), evalGoPosAlts c (ts.map PosTerm.emit) = some v → evalPosAlts c ts = some v
  | [], v, h => by simpa [evalGoPosAlts, evalPosAlts] using h
  | t :: ts, v, h => by
    have ih := evalPosAlts_emit_correct c ts
    simp only [List.map_cons, evalGoPosAlts] at h
    simp only [evalPosAlts]
    cases ht : t.emit.eval c with
    | none => simp [ht] at h
    | some p =>
      rw [PosTerm.emit_correct c t p ht]
      cases hr : evalGoPosAlts c (ts.map PosTerm.emit) with
      | none => simp [ht, hr] at h
      | some r =>
        simp only [ht, hr, Option.some.injEq] at h
        by_cases hp : p < 0
        · simp only [hp, if_true] at h ⊢
          rw [ih r hr, h]
        · simp only [hp, if_false] at h ⊢
          rw [h]

/-- strict success (the emitted Go of `pos.go`, every helper argument evaluated) implies lazy success (the
interpreter of `tools/util/poslang`) with the same value -/
theorem PosE.emit_correct (c : Ctx) (e : PosE) (v : Int) (h : (e.emit).eval c = some v) : e.eval c = some v := by
  unfold PosE.eval
  unfold PosE.emit at h
  split at h
  · rename_i t heq
    exact PosTerm.emit_correct c t v (by simpa [GoPos.eval] using h)
  · exact evalPosAlts_emit_correct c _ _ (by simpa [GoPos.eval] using h)

/-! ### lazy ⇒ strict, when no sub-term crashes

`strict` is stated on the lazy semantics alone: every sub-term, whether the lazy evaluation reaches it or not,
evaluates to a value in the context. -/

def IntE.strict (c : Ctx) : IntE → Bool
  | .lit _ => true
  | .len f => (c.strLen f).isSome
  | .ite b x y => (c.boolField b).isSome && x.strict c && y.strict c

def NodeE.strict (c : Ctx) : NodeE → Bool
  | .var f => (c.single f).isSome
  | .last f => (c.slice f).isSome
  | .idx f i => i.strict c && ((NodeE.idx f i).eval c).isSome

def NodeChoice.strict (c : Ctx) (e : NodeChoice) : Bool := e.alts.all (NodeE.strict c)

def PosAtom.strict (c : Ctx) : PosAtom → Bool
  | .var f => (c.posField f).isSome
  | .nodePos e => e.strict c
  | .nodeEnd e => e.strict c

def PosTerm.strict (c : Ctx) (t : PosTerm) : Bool := t.atom.strict c && t.adds.all (IntE.strict c)

/-- no sub-term of the expression crashes in context `c` -/
def PosE.strict (c : Ctx) (e : PosE) : Bool := e.alts.all (PosTerm.strict c)

theorem IntE.emit_eval_of_strict (c : Ctx) :
    ∀ (i : IntE), i.strict c = true → (i.emit).eval c = i.eval c ∧ (i.eval c).isSome = true
  | .lit n, _ => by simp [IntE.emit, GoInt.eval, IntE.eval]
  | .len f, h => by
    simp only [IntE.strict] at h
    simp [IntE.emit, GoInt.eval, IntE.eval, h]
  | .ite b x y, h => by
    simp only [IntE.strict, Bool.and_eq_true] at h
    obtain ⟨⟨hb, hx⟩, hy⟩ := h
    obtain ⟨ex, sx⟩ := IntE.emit_eval_of_strict c x hx
    obtain ⟨ey, sy⟩ := IntE.emit_eval_of_strict c y hy
    simp only [IntE.emit, GoInt.eval, IntE.eval, ex, ey]
    cases hbv : c.boolField b with
    | none => simp [hbv] at hb
    | some bv =>
      cases hxv : x.eval c with
      | none => simp [hxv] at sx
      | some vx =>
        cases hyv : y.eval c with
        | none => simp [hyv] at sy
        | some vy => cases bv <;> simp

theorem NodeE.emit_eval_of_strict (c : Ctx) (e : NodeE) (h : e.strict c = true) :
    (e.emit).eval c = e.eval c ∧ (e.eval c).isSome = true := by
  cases e with
  | var f => simpa [NodeE.emit, GoNodeAtom.eval, NodeE.eval, NodeE.strict] using h
  | last f =>
    simp only [NodeE.strict] at h
    cases hs : c.slice f with
    | none => simp [hs] at h
    | some ns => simp [NodeE.emit, GoNodeAtom.eval, NodeE.eval, hs]
  | idx f i =>
    simp only [NodeE.strict, Bool.and_eq_true] at h
    refine ⟨?_, h.2⟩
    simp only [NodeE.emit, GoNodeAtom.eval, NodeE.eval, (IntE.emit_eval_of_strict c i h.1).1]

theorem evalNodeAlts_of_strict (c : Ctx) :
    ∀ (es : List NodeE), es.all (NodeE.strict c) = true →
      evalGoNodeAlts c (es.map NodeE.emit) = evalNodeAlts c es ∧ (evalNodeAlts c es).isSome = true
  | [], _ => by simp [evalGoNodeAlts, evalNodeAlts]
  | e :: es, h => by
    simp only [List.all_cons, Bool.and_eq_true] at h
    obtain ⟨ee, se⟩ := NodeE.emit_eval_of_strict c e h.1
    obtain ⟨er, sr⟩ := evalNodeAlts_of_strict c es h.2
    simp only [List.map_cons, evalGoNodeAlts, evalNodeAlts, ee, er]
    cases hev : e.eval c with
    | none => simp [hev] at se
    | some x =>
      cases hrv : evalNodeAlts c es with
      | none => simp [hrv] at sr
      | some r => cases x <;> simp

theorem NodeChoice.emit_eval_of_strict (c : Ctx) (e : NodeChoice) (h : e.strict c = true) :
    (e.emit).eval c = e.eval c ∧ (e.eval c).isSome = true := by
  obtain ⟨h1, h2⟩ := evalNodeAlts_of_strict c e.alts h
  refine ⟨?_, h2⟩
  unfold NodeChoice.eval NodeChoice.emit
  split
  · simpa [GoNode.eval] using h1
  · split
    · rename_i a heq
      simp only [GoNode.eval, heq, evalNodeAlts]
      simp only [NodeChoice.strict, heq, List.all_cons, List.all_nil, Bool.and_true] at h
      obtain ⟨ea, sa⟩ := NodeE.emit_eval_of_strict c a h
      rw [ea]
      cases hav : a.eval c with
      | none => rfl
      | some x => cases x <;> rfl
    · simpa [GoNode.eval] using h1

theorem PosAtom.emit_eval_of_strict (c : Ctx) (a : PosAtom) (h : a.strict c = true) :
    (a.emit).eval c = a.eval c ∧ (a.eval c).isSome = true := by
  cases a with
  | var f => simpa [PosAtom.emit, GoPosAtom.eval, PosAtom.eval, PosAtom.strict] using h
  | nodePos e =>
    simp only [PosAtom.strict] at h
    obtain ⟨h1, h2⟩ := NodeChoice.emit_eval_of_strict c e h
    simp only [PosAtom.emit, GoPosAtom.eval, PosAtom.eval, h1, Option.isSome_map, h2, and_self]
  | nodeEnd e =>
    simp only [PosAtom.strict] at h
    obtain ⟨h1, h2⟩ := NodeChoice.emit_eval_of_strict c e h
    simp only [PosAtom.emit, GoPosAtom.eval, PosAtom.eval, h1, Option.isSome_map, h2, and_self]

theorem evalAdds_of_strict (c : Ctx) :
    ∀ (as : List IntE) (p : Int), as.all (IntE.strict c) = true →
      evalGoAdds c p (as.map IntE.emit) = evalAdds c p as ∧ (evalAdds c p as).isSome = true
  | [], p, _ => by simp [evalGoAdds, evalAdds]
  | a :: as, p, h => by
    simp only [List.all_cons, Bool.and_eq_true] at h
    obtain ⟨ea, sa⟩ := IntE.emit_eval_of_strict c a h.1
    have ih := fun q => evalAdds_of_strict c as q h.2
    simp only [List.map_cons, evalGoAdds, evalAdds, ea]
    cases hav : a.eval c with
    | none => simp [hav] at sa
    | some w =>
      by_cases hp : p < 0
      · simp only [hp, if_true]; exact ih _
      · simp only [hp, if_false]; exact ih _

theorem PosTerm.emit_eval_of_strict (c : Ctx) (t : PosTerm) (h : t.strict c = true) :
    (t.emit).eval c = t.eval c ∧ (t.eval c).isSome = true := by
  simp only [PosTerm.strict, Bool.and_eq_true] at h
  obtain ⟨ea, sa⟩ := PosAtom.emit_eval_of_strict c t.atom h.1
  simp only [PosTerm.emit, GoPosTerm.eval, PosTerm.eval, ea]
  cases hav : t.atom.eval c with
  | none => simp [hav] at sa
  | some p => exact evalAdds_of_strict c t.adds p h.2

theorem evalPosAlts_of_strict (c : Ctx) :
    ∀ (ts : List PosTerm), ts.all (PosTerm.strict c) = true →
      evalGoPosAlts c (ts.map PosTerm.emit) = evalPosAlts c ts ∧ (evalPosAlts c ts).isSome = true
  | [], _ => by simp [evalGoPosAlts, evalPosAlts]
  | t :: ts, h => by
    simp only [List.all_cons, Bool.and_eq_true] at h
    obtain ⟨et, st⟩ := PosTerm.emit_eval_of_strict c t h.1
    obtain ⟨er, sr⟩ := evalPosAlts_of_strict c ts h.2
    simp only [List.map_cons, evalGoPosAlts, evalPosAlts, et, er]
    cases htv : t.eval c with
    | none => simp [htv] at st
    | some p =>
      cases hrv : evalPosAlts c ts with
      | none => simp [hrv] at sr
      | some r => by_cases hp : p < 0 <;> simp [hp]

/-- when no sub-term crashes, the emitted Go and the interpreter agree (and both return a value) -/
theorem PosE.emit_eval_of_strict (c : Ctx) (e : PosE) (hs : e.strict c = true) :
    (e.emit).eval c = e.eval c ∧ (e.eval c).isSome = true := by
  unfold PosE.eval PosE.emit
  split
  · rename_i t heq
    simp only [PosE.strict, heq, List.all_cons, List.all_nil, Bool.and_true] at hs
    simpa [GoPos.eval] using PosTerm.emit_eval_of_strict c t hs
  · simpa [GoPos.eval] using evalPosAlts_of_strict c e.alts hs

/-- the partial converse of `emit_correct`: lazy success implies strict success when no sub-term crashes -/
theorem PosE.emit_complete (c : Ctx) (e : PosE) (v : Int) (h : e.eval c = some v) (hs : e.strict c = true) :
    (e.emit).eval c = some v := by
  rw [(PosE.emit_eval_of_strict c e hs).1, h]

end MF.Ast
