import MF.Model.PosLang
namespace MF.Ast

theorem PosE.emit_correct (c : Ctx) (e : PosE) (v : Int) (h : (e.emit).eval c = some v) : e.eval c = some v := by
  sorry

end MF.Ast
