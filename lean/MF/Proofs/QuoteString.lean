/-
  C15 (strings): `QuoteSQLString(s)` lexes as exactly one string-literal token whose value is `s`,
  for every `unicode.IsPrint` predicate.  Also the rune-level loop lemma `string_loop`, reused for
  back-quoted identifiers (quote byte 96) in `QuoteIdent.lean`.
-/
import MF.Proofs.QuoteBytes
import MF.Proofs.Utf8RoundTrip
import MF.Proofs.HexRoundTrip
namespace MF.Quote
open MF.Lex MF.Utf8

/-- the three quote bytes used by `quoteStringContent`: `"`, `'`, and the back-quote -/
def IsQ (Q : UInt8) : Prop := Q = 34 ∨ Q = 39 ∨ Q = 96

theorem toNat_toUInt8 {r : Nat} (h : r < 256) : r.toUInt8.toNat = r := by
  simp [Nat.toUInt8_eq]; omega

/-- shapes of the text contributed by one rune: `U` is the text, `tk` the input bytes it stands for -/
inductive RuneCase (Q : UInt8) (U tk : Bytes) : Prop
  | hex2 (v : Nat) (hv : v < 256) (hU : U = [92, 120] ++ hex2 v) (htk : tk = [v.toUInt8])
  | simple (e x : UInt8) (he : simpleEscape? e = some x) (hU : U = [92, e]) (htk : tk = [x])
  | plain (hU : U = tk) (hne : tk ≠ []) (hp : ∀ c ∈ tk, c ≠ Q ∧ c ≠ 92 ∧ c ≠ 10)
  | hex4 (r : Nat) (hr : r < 65536) (hs : ¬(0xD800 ≤ r ∧ r ≤ 0xDFFF)) (hU : U = [92, 117] ++ hex4 r)
      (htk : tk = encodeRune r)
  | hex8 (r : Nat) (hr : r < 0x110000) (hs : ¬(0xD800 ≤ r ∧ r ≤ 0xDFFF)) (hU : U = [92, 85] ++ hex8 r)
      (htk : tk = encodeRune r)

theorem quoteSingleEscape_cases (r q : Nat) :
    (r = q ∧ quoteSingleEscape r q true = some [92, r.toUInt8]) ∨
    (r ≠ q ∧ r = 10 ∧ quoteSingleEscape r q true = some [92, 110]) ∨
    (r ≠ q ∧ r = 13 ∧ quoteSingleEscape r q true = some [92, 114]) ∨
    (r ≠ q ∧ r = 9 ∧ quoteSingleEscape r q true = some [92, 116]) ∨
    (r ≠ q ∧ r = 92 ∧ quoteSingleEscape r q true = some [92, 92]) ∨
    (r ≠ q ∧ r ≠ 10 ∧ r ≠ 13 ∧ r ≠ 9 ∧ r ≠ 92 ∧ quoteSingleEscape r q true = none) := by
  unfold quoteSingleEscape
  by_cases h1 : r = q
  · left; simp [h1]
  · by_cases h2 : r = 10
    · right; left; simp [h2]; omega
    · by_cases h3 : r = 13
      · right; right; left; simp [h3]; omega
      · by_cases h4 : r = 9
        · right; right; right; left; simp [h4]; omega
        · by_cases h5 : r = 92
          · right; right; right; right; left; simp [h5]; omega
          · right; right; right; right; right; simp [h1, h2, h3, h4, h5]

theorem IsQ.lt {Q : UInt8} (h : IsQ Q) : Q.toNat < 0x80 := by
  rcases h with rfl | rfl | rfl <;> decide

theorem IsQ.simple {Q : UInt8} (h : IsQ Q) : simpleEscape? Q = some Q := by
  rcases h with rfl | rfl | rfl <;> decide

theorem IsQ.ne92 {Q : UInt8} (h : IsQ Q) : Q ≠ 92 := by
  rcases h with rfl | rfl | rfl <;> decide

theorem enc_small {r : Nat} (h : r < 0x80) : encodeRune r = [r.toUInt8] := by
  unfold encodeRune; rw [if_pos h]

theorem quoteRune_cases (ip : Nat → Bool) (Q : UInt8) (hQ : IsQ Q) (s : Bytes) (hs : s ≠ []) :
    1 ≤ (decodeRune s).2 ∧ (decodeRune s).2 ≤ s.length ∧ (decodeRune s).2 ≤ 4 ∧
      RuneCase Q (quoteRune ip Q.toNat s) (s.take (decodeRune s).2) := by
  rcases decodeRune_cases s hs with ⟨h1, h2⟩ | hv
  · cases s with
    | nil => exact absurd rfl hs
    | cons b t =>
      refine ⟨by omega, by simp [h2], by omega, ?_⟩
      unfold quoteRune
      simp only [h1, h2, beq_self_eq_true, Bool.and_true, if_true]
      refine .hex2 b.toNat b.toNat_lt rfl ?_
      simp
  · obtain ⟨h1, h4, hl, henc, hlt, hsur, hn1, hge⟩ := hv
    refine ⟨h1, hl, h4, ?_⟩
    unfold quoteRune
    generalize (decodeRune s).1 = r at *
    generalize (decodeRune s).2 = n at *
    have hcond : (r == runeError && n == 1) = false := by
      simp only [Bool.and_eq_false_iff, beq_eq_false_iff_ne, ne_eq, runeError]
      by_cases hn : n = 1
      · left; have := hn1.1 hn; omega
      · right; exact hn
    simp only [hcond, Bool.false_eq_true, if_false]
    have hQlt := hQ.lt
    rcases quoteSingleEscape_cases r Q.toNat with ⟨e1, e2⟩ | ⟨_, e1, e2⟩ | ⟨_, e1, e2⟩ | ⟨_, e1, e2⟩ | ⟨_, e1, e2⟩ |
        ⟨e0, e1, e2, e3, e4, e5⟩
    · rw [e2]
      have hr : r < 0x80 := by omega
      have hq : r.toUInt8 = Q := toUInt8_of_eq e1
      refine .simple Q Q hQ.simple (by simp only [hq]) ?_
      rw [← henc, enc_small hr, hq]
    · rw [e2]; subst e1
      exact .simple 110 10 (by decide) rfl (by rw [← henc]; rfl)
    · rw [e2]; subst e1
      exact .simple 114 13 (by decide) rfl (by rw [← henc]; rfl)
    · rw [e2]; subst e1
      exact .simple 116 9 (by decide) rfl (by rw [← henc]; rfl)
    · rw [e2]; subst e1
      exact .simple 92 92 (by decide) rfl (by rw [← henc]; rfl)
    · rw [e5]
      simp only
      split
      · -- printable: verbatim
        refine .plain henc (by intro h; have := congrArg List.length h; simp only [List.length_take, List.length_nil] at this; omega) ?_
        intro c hc
        by_cases hn : n = 1
        · have hr := hn1.1 hn
          rw [← henc, enc_small hr] at hc
          simp only [List.mem_cons, List.not_mem_nil, or_false] at hc
          have hcn : c.toNat = r := by rw [hc]; exact toNat_toUInt8 (by omega)
          refine ⟨?_, ?_, ?_⟩ <;> intro h <;> rw [h] at hcn
          · exact e0 hcn.symm
          · exact e4 hcn.symm
          · exact e1 hcn.symm
        · have := hge (by omega) c hc
          refine ⟨?_, ?_, ?_⟩ <;> intro h <;> rw [h] at this
          · omega
          · simp at this
          · simp at this
      · split
        · rename_i hr
          exact .hex2 r (by omega) rfl (by rw [← henc, enc_small hr])
        · split
          · exact .hex8 r hlt hsur rfl henc.symm
          · rename_i hr _
            exact .hex4 r (by omega) hsur rfl henc.symm

/-! ### single steps of the quoted-content scanner -/

theorem lslice?_one {rest : Bytes} {i : Nat} {c : UInt8} (h : rest[i]? = some c) :
    lslice? rest i (i + 1) = some [c] := by
  obtain ⟨hi, hc⟩ := List.getElem?_eq_some_iff.1 h
  unfold lslice?
  rw [if_neg (by omega)]
  rw [slice?_of_le (by omega) (by omega)]
  unfold slice
  rw [List.drop_eq_getElem_cons hi, hc]
  simp

theorem plain_step {rest : Bytes} {i : Nat} {c Q : UInt8} (h : rest[i]? = some c)
    (h1 : c ≠ Q) (h2 : c ≠ 92) (h3 : c ≠ 10) (tp p0 : Nat) (uni isId : Bool) (content : Bytes) (he : Bool) :
    quotedStep rest tp p0 [Q] false uni isId false i content he = .next (i + 1) (content ++ [c]) he := by
  unfold quotedStep
  simp only [h, List.length_cons, List.length_nil, Nat.zero_add, lslice?_one h]
  simp [h1, h2, h3]

theorem plain_loop (Q : UInt8) (X : Bytes) (tp p0 : Nat) (uni isId : Bool) (fuel : Nat) :
    ∀ (v pre content : Bytes), (∀ c ∈ v, c ≠ Q ∧ c ≠ 92 ∧ c ≠ 10) →
    quotedLoop (pre ++ v ++ X) tp p0 [Q] false uni isId false (fuel + v.length) pre.length content false =
      quotedLoop (pre ++ v ++ X) tp p0 [Q] false uni isId false fuel (pre.length + v.length) (content ++ v) false := by
  intro v
  induction v with
  | nil => intro pre content _; simp
  | cons b v ih =>
    intro pre content hp
    have hb := hp b (by simp)
    have hg : (pre ++ b :: v ++ X)[pre.length]? = some b := by simp
    have hf : fuel + (b :: v).length = (fuel + v.length) + 1 := by simp; omega
    rw [hf]
    simp only [quotedLoop, plain_step hg hb.1 hb.2.1 hb.2.2]
    have := ih (pre ++ [b]) (content ++ [b]) (fun c hc => hp c (by simp [hc]))
    simp only [List.append_assoc, List.length_append, List.length_cons, List.length_nil,
      Nat.zero_add, List.cons_append] at this
    simp only [List.append_assoc, List.cons_append, List.length_cons]
    have e : pre.length + (v.length + 1) = pre.length + 1 + v.length := by omega
    rw [e]
    exact this

theorem simple_step {Q e x : UInt8} (hQ : Q ≠ 92) (he : simpleEscape? e = some x) (Y : Bytes) (tp p0 : Nat)
    (uni isId : Bool) (content : Bytes) :
    quotedStep (92 :: e :: Y) tp p0 [Q] false uni isId false 0 content false = .next 2 (content ++ [x]) false := by
  have hQ' : ¬ ((92 : UInt8) = Q) := fun h => hQ h.symm
  simp [quotedStep, lslice?, slice?, slice, escape, he, hQ']

theorem firstBad_hex (a c : UInt8) (D Y : Bytes) (hD : ∀ d ∈ D, Char.isHexDigit d = true) :
    firstBad (a :: c :: (D ++ Y)) Char.isHexDigit 2 D.length = none := by
  unfold firstBad
  rw [List.find?_eq_none]
  intro j hj
  have hj' : j < D.length := by simpa using hj
  have hg : (a :: c :: (D ++ Y))[2 + j]? = some D[j] := by
    rw [Nat.add_comm]
    simp only [List.getElem?_cons_succ]
    rw [List.getElem?_append_left hj', List.getElem?_eq_getElem hj']
  rw [hg]
  simp [hD _ (List.getElem_mem hj')]

theorem lslice?_digits (a c : UInt8) (D Y : Bytes) :
    lslice? (a :: c :: (D ++ Y)) 2 (2 + D.length) = some D := by
  unfold lslice?
  rw [if_neg (by simp; omega)]
  rw [slice?_of_le (by omega) (by simp; omega)]
  unfold slice
  simp

theorem escapeDigits_hex (a c : UInt8) (D Y : Bytes) (p0 maxv u : Nat) (k : ErrKind) (cp : Bool)
    (hD : ∀ d ∈ D, Char.isHexDigit d = true) (hp : parseUint? D 16 maxv = some u) :
    escapeDigits (a :: c :: (D ++ Y)) p0 2 Char.isHexDigit 2 D.length 16 maxv k cp =
      if cp then
        if (0xD800 ≤ u && u ≤ 0xDFFF) || 0x10FFFF < u then .bad .invalidCodePoint (p0 + 2 - 2) (p0 + 2 + D.length)
        else .bytes (encodeRune u) (2 + D.length)
      else .bytes [u.toUInt8] (2 + D.length) := by
  unfold escapeDigits
  simp only [firstBad_hex a c D Y hD, lslice?_digits, hp]

theorem hex2_step {Q : UInt8} (hQ : Q ≠ 92) (v : Nat) (hv : v < 256) (Y : Bytes) (tp p0 : Nat)
    (uni isId : Bool) (content : Bytes) :
    quotedStep ([92, 120] ++ hex2 v ++ Y) tp p0 [Q] false uni isId false 0 content false =
      .next 4 (content ++ [v.toUInt8]) false := by
  have hQ' : ¬ ((92 : UInt8) = Q) := fun h => hQ h.symm
  have hesc : escape (92 :: 120 :: (hex2 v ++ Y)) p0 uni 2 120 = .bytes [v.toUInt8] 4 := by
    have := escapeDigits_hex 92 120 (hex2 v) Y p0 255 v .hexEscape false (hex2_isHex v) (parseUint_hex2 hv)
    simp only [hex2_length, Bool.false_eq_true, if_false] at this
    simp only [escape, show simpleEscape? 120 = none by decide, beq_self_eq_true, Bool.true_or, if_true, this]
  simp only [List.cons_append, List.nil_append]
  simp [quotedStep, lslice?, slice?, slice, hQ', hesc]

theorem hex4_step {Q : UInt8} (hQ : Q ≠ 92) (r : Nat) (hr : r < 65536) (hs : ¬(0xD800 ≤ r ∧ r ≤ 0xDFFF)) (Y : Bytes)
    (tp p0 : Nat) (isId : Bool) (content : Bytes) :
    quotedStep ([92, 117] ++ hex4 r ++ Y) tp p0 [Q] false true isId false 0 content false =
      .next 6 (content ++ encodeRune r) false := by
  have hQ' : ¬ ((92 : UInt8) = Q) := fun h => hQ h.symm
  have hesc : escape (92 :: 117 :: (hex4 r ++ Y)) p0 true 2 117 = .bytes (encodeRune r) 6 := by
    have := escapeDigits_hex 92 117 (hex4 r) Y p0 0xFFFFFFFF r .unicodeEscape true (hex4_isHex r) (parseUint_hex4 hr)
    simp only [hex4_length, if_true, surr_false hs (by omega), Bool.false_eq_true, if_false] at this
    simp only [escape, show simpleEscape? 117 = none by decide, show ((117 : UInt8) == 120) = false by decide,
      show ((117 : UInt8) == 88) = false by decide, show ((117 : UInt8) == 85) = false by decide,
      beq_self_eq_true, Bool.or_self, Bool.true_or, Bool.not_true, Bool.false_eq_true, if_false, if_true, this]
  simp only [List.cons_append, List.nil_append]
  simp [quotedStep, lslice?, slice?, slice, hQ', hesc]

theorem hex8_step {Q : UInt8} (hQ : Q ≠ 92) (r : Nat) (hr : r < 0x110000) (hs : ¬(0xD800 ≤ r ∧ r ≤ 0xDFFF)) (Y : Bytes)
    (tp p0 : Nat) (isId : Bool) (content : Bytes) :
    quotedStep ([92, 85] ++ hex8 r ++ Y) tp p0 [Q] false true isId false 0 content false =
      .next 10 (content ++ encodeRune r) false := by
  have hQ' : ¬ ((92 : UInt8) = Q) := fun h => hQ h.symm
  have hesc : escape (92 :: 85 :: (hex8 r ++ Y)) p0 true 2 85 = .bytes (encodeRune r) 10 := by
    have := escapeDigits_hex 92 85 (hex8 r) Y p0 0xFFFFFFFF r .unicodeEscape true (hex8_isHex r)
      (parseUint_hex8 (by omega))
    simp only [hex8_length, if_true, surr_false hs hr, Bool.false_eq_true, if_false] at this
    simp only [escape, show simpleEscape? 85 = none by decide, show ((85 : UInt8) == 120) = false by decide,
      show ((85 : UInt8) == 88) = false by decide, show ((85 : UInt8) == 117) = false by decide,
      beq_self_eq_true, Bool.or_self, Bool.or_true, Bool.not_true, Bool.false_eq_true, if_false, if_true, this]
  simp only [List.cons_append, List.nil_append]
  simp [quotedStep, lslice?, slice?, slice, hQ', hesc]

/-! ### one rune, then the whole content -/

theorem quotedLoop_next {rest : Bytes} {tp p0 : Nat} {q : Bytes} {raw uni isId np : Bool} {i : Nat} {content : Bytes}
    {he : Bool} {i' : Nat} {content' : Bytes} {he' : Bool} (fuel : Nat)
    (h : quotedStep rest tp p0 q raw uni isId np i content he = .next i' content' he') :
    quotedLoop rest tp p0 q raw uni isId np (fuel + 1) i content he =
      quotedLoop rest tp p0 q raw uni isId np fuel i' content' he' := by
  simp only [quotedLoop, h]

/-- the text of one rune is scanned back to the bytes of that rune, in at most `U.length` iterations -/
theorem rune_unit {Q : UInt8} (hQ : IsQ Q) {U tk : Bytes} (hc : RuneCase Q U tk) (Y : Bytes) (tp p0 : Nat)
    (isId : Bool) (content : Bytes) :
    ∃ k, k ≤ U.length ∧ ∀ fuel,
      quotedLoop (U ++ Y) tp p0 [Q] false true isId false (fuel + k) 0 content false =
        quotedLoop (U ++ Y) tp p0 [Q] false true isId false fuel U.length (content ++ tk) false := by
  have hQ92 := hQ.ne92
  cases hc with
  | hex2 v hv hU htk =>
    subst hU htk
    exact ⟨1, by simp [hex2], fun fuel => quotedLoop_next fuel (hex2_step hQ92 v hv Y tp p0 true isId content)⟩
  | simple e x he hU htk =>
    subst hU htk
    exact ⟨1, by simp, fun fuel => quotedLoop_next fuel (simple_step hQ92 he Y tp p0 true isId content)⟩
  | plain hU hne hp =>
    subst hU
    refine ⟨U.length, Nat.le_refl _, fun fuel => ?_⟩
    have := plain_loop Q Y tp p0 true isId fuel U [] content hp
    simpa using this
  | hex4 r hr hs hU htk =>
    subst hU htk
    exact ⟨1, by simp [hex4, hex2], fun fuel => quotedLoop_next fuel (hex4_step hQ92 r hr hs Y tp p0 isId content)⟩
  | hex8 r hr hs hU htk =>
    subst hU htk
    exact ⟨1, by simp [hex8, hex4, hex2], fun fuel => quotedLoop_next fuel (hex8_step hQ92 r hr hs Y tp p0 isId content)⟩

theorem close_step' (Q : UInt8) (X : Bytes) (tp p0 : Nat) (content : Bytes) (uni isId : Bool)
    (hne : content ≠ [] ∨ isId = false) :
    quotedStep (Q :: X) tp p0 [Q] false uni isId false 0 content false =
      .done { content := content, hasError := false, len := 1 } := by
  have : (content.isEmpty && isId) = false := by
    rcases hne with h | h
    · cases content with
      | nil => exact absurd rfl h
      | cons _ _ => simp
    · simp [h]
  simp [quotedStep, lslice?, slice?, slice, this]

/-- the rune-level loop lemma: the text `quoteStringContent s` followed by the closing quote is scanned back to `s` -/
theorem string_loop (ip : Nat → Bool) {Q : UInt8} (hQ : IsQ Q) (isId : Bool) :
    ∀ (F : Nat) (s : Bytes), s.length < F → ∀ (X : Bytes) (tp p0 : Nat) (content : Bytes) (fuel : Nat),
    (quoteStringContent ip Q.toNat F s).length < fuel → (content ++ s ≠ [] ∨ isId = false) →
    quotedLoop (quoteStringContent ip Q.toNat F s ++ [Q] ++ X) tp p0 [Q] false true isId false fuel 0 content false =
      .ok { content := content ++ s, hasError := false, len := (quoteStringContent ip Q.toNat F s).length + 1 } := by
  intro F
  induction F with
  | zero => intro s hs; omega
  | succ F ih =>
    intro s hs X tp p0 content fuel hf hne
    cases s with
    | nil =>
      simp only [quoteStringContent, List.isEmpty_nil, if_true, List.nil_append, List.length_nil, List.append_nil,
        Nat.zero_add] at hf ⊢
      obtain ⟨fuel, rfl⟩ : ∃ f, fuel = f + 1 := ⟨fuel - 1, by omega⟩
      simp only [quotedLoop, List.cons_append, List.nil_append]
      rw [close_step' Q X tp p0 content true isId (by simpa using hne)]
    | cons b t =>
      obtain ⟨h1, hl, _, hcase⟩ := quoteRune_cases ip Q hQ (b :: t) (by simp)
      simp only [quoteStringContent, List.isEmpty_cons, Bool.false_eq_true, if_false] at hf ⊢
      generalize hn : (decodeRune (b :: t)).2 = n at *
      generalize hU : quoteRune ip Q.toNat (b :: t) = U at *
      generalize hR : quoteStringContent ip Q.toNat F (List.drop n (b :: t)) = R at *
      obtain ⟨k, hk, hunit⟩ := rune_unit hQ hcase (R ++ [Q] ++ X) tp p0 isId content
      have hfl : fuel = (fuel - k) + k := by simp only [List.length_append] at hf; omega
      have hrest : U ++ R ++ [Q] ++ X = U ++ (R ++ [Q] ++ X) := by simp
      rw [hrest, hfl, hunit]
      have hd := quotedLoop_drop (rest := U ++ (R ++ [Q] ++ X)) (k := U.length) (tp := tp) (p0 := p0) (q := [Q])
        (raw := false) (uni := true) (isId := isId) (np := false) (fuel := fuel - k) (i := 0)
        (content := content ++ List.take n (b :: t)) (he := false) (by simp)
      rw [Nat.add_zero] at hd
      rw [hd, List.drop_left]
      have hlen : (List.drop n (b :: t)).length < F := by
        simp only [List.length_drop]; simp only [List.length_cons] at hs hl ⊢; omega
      have hih := ih (List.drop n (b :: t)) hlen X tp (p0 + U.length) (content ++ List.take n (b :: t)) (fuel - k)
        (by rw [hR]; simp only [List.length_append] at hf; omega)
        (by rw [List.append_assoc, List.take_append_drop]; exact hne)
      rw [hR] at hih
      rw [hih]
      simp only [shiftRes, List.append_assoc, List.take_append_drop, List.length_append, Nat.add_assoc]

/-! ### the whole literal -/

theorem RuneCase.head {Q : UInt8} (hQ : IsQ Q) {U tk : Bytes} (hc : RuneCase Q U tk) : ∃ c t, U = c :: t ∧ c ≠ Q := by
  have h92 : (92 : UInt8) ≠ Q := fun h => hQ.ne92 h.symm
  cases hc with
  | hex2 v hv hU htk => exact ⟨92, _, hU, h92⟩
  | simple e x he hU htk => exact ⟨92, _, hU, h92⟩
  | plain hU hne hp =>
    subst hU
    cases U with
    | nil => exact absurd rfl hne
    | cons c t => exact ⟨c, t, rfl, (hp c (by simp)).1⟩
  | hex4 r hr hs hU htk => exact ⟨92, _, hU, h92⟩
  | hex8 r hr hs hU htk => exact ⟨92, _, hU, h92⟩

/-- the body of a quoted literal never starts with the (unescaped) quote byte -/
theorem qsc_head (ip : Nat → Bool) {Q : UInt8} (hQ : IsQ Q) (F : Nat) (b : UInt8) (t : Bytes) :
    ∃ c r, quoteStringContent ip Q.toNat (F + 1) (b :: t) = c :: r ∧ c ≠ Q := by
  obtain ⟨_, _, _, hcase⟩ := quoteRune_cases ip Q hQ (b :: t) (by simp)
  obtain ⟨c, r, h1, h2⟩ := hcase.head hQ
  refine ⟨c, r ++ quoteStringContent ip Q.toNat F (List.drop (decodeRune (b :: t)).2 (b :: t)), ?_, h2⟩
  simp only [quoteStringContent, List.isEmpty_cons, Bool.false_eq_true, if_false, h1, List.cons_append]

/-- the quoted-content scanner on `Q ++ quoteStringContent s ++ Q`, started after the opening quote -/
theorem consumeQuoted_qsc (ip : Nat → Bool) {Q : UInt8} (hQ : IsQ Q) (isId : Bool) (s : Bytes) (p0 : Nat)
    (hne : s ≠ [] ∨ isId = false) :
    consumeQuotedContent (Q :: (quoteStringContent ip Q.toNat (s.length + 1) s ++ [Q])) p0 [Q] false true isId false =
      .ok { content := s, hasError := false, len := (quoteStringContent ip Q.toNat (s.length + 1) s).length + 2 } := by
  unfold consumeQuotedContent
  generalize hC : quoteStringContent ip Q.toNat (s.length + 1) s = C
  have hd := quotedLoop_drop (rest := Q :: (C ++ [Q])) (k := 1) (tp := p0) (p0 := p0) (q := [Q])
    (raw := false) (uni := true) (isId := isId) (np := false) (fuel := (Q :: (C ++ [Q])).length + 2) (i := 0)
    (content := []) (he := false) (by simp)
  simp only [List.length_cons, List.length_nil, Nat.zero_add, Nat.add_zero] at hd ⊢
  rw [hd]
  simp only [List.drop_succ_cons, List.drop_zero]
  have hl := string_loop ip hQ isId (s.length + 1) s (by omega) [] p0 (p0 + 1) [] ((C ++ [Q]).length + 1 + 2)
    (by rw [hC]; simp only [List.length_append, List.length_cons, List.length_nil]; omega) (by simpa using hne)
  rw [hC] at hl
  simp only [List.append_nil, List.nil_append] at hl
  rw [hl]
  simp only [shiftRes]
  congr 2
  omega

theorem suitableQuote_isQ (s : Bytes) : IsQ (suitableQuote s) := by
  rcases suitableQuote_cases s with h | h
  · exact Or.inl h
  · exact Or.inr (Or.inl h)

/-- the token scanned at the start of `QuoteSQLString(s)` -/
theorem consumeToken_quoteString (ip : Nat → Bool) (s : Bytes) (lk : TokKind) :
    consumeToken (quoteString ip s) 0 lk false =
      .ok { kind := .string, len := (quoteString ip s).length, asString := s } := by
  unfold quoteString
  simp only
  have hQ := suitableQuote_isQ s
  have hq := suitableQuote_cases s
  have hcq := consumeQuoted_qsc ip hQ false s 0 (Or.inr rfl)
  have hpd : peekDelimiter (suitableQuote s :: (quoteStringContent ip (suitableQuote s).toNat (s.length + 1) s ++
      [suitableQuote s])) = some [suitableQuote s] := by
    cases s with
    | nil =>
      generalize suitableQuote [] = q at hq
      rcases hq with rfl | rfl <;> simp [peekDelimiter, quoteStringContent]
    | cons b t =>
      obtain ⟨c, r, h1, h2⟩ := qsc_head ip hQ (t.length + 1) b t
      simp only [List.length_cons]
      rw [h1]
      generalize suitableQuote (b :: t) = q at hq h2
      rcases hq with rfl | rfl <;> simp [peekDelimiter, h2]
  generalize suitableQuote s = q at *
  generalize quoteStringContent ip q.toNat (s.length + 1) s = C at *
  have hcl : classify q = .strStart := by rcases hq with rfl | rfl <;> decide
  simp only [List.cons_append, List.nil_append, consumeToken, hcl, stringTok]
  have hsp : strPrefix (q :: (C ++ [q])) 3 0 false false = some (0, false, false) := by
    rcases hq with rfl | rfl <;> simp [strPrefix]
  rw [hsp]
  simp only [List.drop_zero, hpd, Nat.add_zero, Bool.not_false, Bool.false_eq_true, if_false, hcq]
  simp [quotedTok]

/-- C15 (strings): `QuoteSQLString(s)` lexes as exactly one string-literal token whose value is `s`. -/
theorem quoteString_lex (isPrint : Nat → Bool) (s : Bytes) :
    ∃ t1 t2, lexAll (quoteString isPrint s) = .ok [t1, t2] ∧ t1.kind = .string ∧ t1.asString = s ∧
      t1.raw = quoteString isPrint s ∧ t1.space = [] ∧ t1.comments = [] ∧ t2.kind = .eof := by
  have hs := consumeToken_quoteString isPrint s (.sym [])
  have hb : quoteString isPrint s = suitableQuote s ::
      (quoteStringContent isPrint (suitableQuote s).toNat (s.length + 1) s ++ [suitableQuote s]) := by
    simp [quoteString]
  have hc : suitableQuote s = 98 ∨ suitableQuote s = 34 ∨ suitableQuote s = 39 ∨ suitableQuote s = 96 := by
    rcases suitableQuote_cases s with h | h
    · exact Or.inr (Or.inl h)
    · exact Or.inr (Or.inr (Or.inl h))
  obtain ⟨t1, t2, h1, h2, h3, h4, h5, h6, _, _, h9⟩ :=
    lexAll_single hb hc (k := .string) (a := s) (bse := 0) (by simp) hs
  exact ⟨t1, t2, h1, h2, h3, h4, h5, h6, h9⟩

end MF.Quote
