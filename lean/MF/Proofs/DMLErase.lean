/-
  MF.Proofs.DMLErase — the DML model is natural in its expression parser: if `pe2` answers what `pe1` answers with the
  trees mapped by `g`, every DML production and entry point instantiated with `pe2` answers what the one instantiated
  with `pe1` answers, with the expression slots mapped by `g`.  With `pe1 = parsePExpr` (positions; the DML channel),
  `pe2 = parseExpr` (the model of the C07 / C08 theorems) and `g = erase` this is the erasure theorem `dml_erase`.
-/
import MF.Model.Stmt2
import MF.Proofs.ExprPosErase
set_option linter.unusedSimpArgs false
namespace MF.DML
open MF MF.Expr

def lift {α β : Type} (m : α → β) (p : α × List Token) : β × List Token := (m p.1, p.2)

section
variable {α β : Type} {g : α → β} {pe1 : Nat → List Token → Res (α × List Token)}
  {pe2 : Nat → List Token → Res (β × List Token)}

theorem parseDefaultExpr_nat (H : ∀ f ts, pe2 f ts = (pe1 f ts).map (lift g)) (f : Nat) (ts : List Token) :
    parseDefaultExpr pe2 f ts = (parseDefaultExpr pe1 f ts).map (lift (DefaultExpr.map g)) := by
  unfold parseDefaultExpr
  by_cases h : kd ts = K "DEFAULT"
  · simp [h, Res.map, lift, DefaultExpr.map]
  · rw [if_neg h, if_neg h, H f ts]
    cases pe1 f ts <;> simp [Res.map, Res.bind, lift, DefaultExpr.map]

theorem rowLoop_nat (H : ∀ f ts, pe2 f ts = (pe1 f ts).map (lift g)) : ∀ (f : Nat) (ts : List Token),
    rowLoop pe2 f ts = (rowLoop pe1 f ts).map (lift (List.map (DefaultExpr.map g)))
  | 0, _ => by simp [rowLoop, Res.map]
  | f + 1, ts => by
    rw [rowLoop.eq_2, rowLoop.eq_2]
    by_cases h0 : cur ts = .eof
    · simp [h0, Res.map, lift]
    · rw [if_neg h0, if_neg h0, parseDefaultExpr_nat H]
      cases parseDefaultExpr pe1 f ts with
      | ok p =>
        simp only [Res.map, Res.bind, lift]
        by_cases hc : cur p.2 = .comma
        · simp only [hc, if_true]
          rw [rowLoop_nat H f]
          cases rowLoop pe1 f p.2.tail <;> simp [Res.map, Res.bind, lift]
        · simp [hc, Res.map, lift]
      | _ => simp [Res.map, Res.bind]

theorem parseValuesRow_nat (H : ∀ f ts, pe2 f ts = (pe1 f ts).map (lift g)) (f : Nat) (ts : List Token) :
    parseValuesRow pe2 f ts = (parseValuesRow pe1 f ts).map (lift (ValuesRow.map g)) := by
  unfold parseValuesRow
  by_cases h : cur ts = .lparen
  · rw [if_pos h, if_pos h]
    by_cases h2 : cur ts.tail = .rparen
    · simp only [h2, if_true, Res.bind]
      by_cases h3 : cur ts.tail = .rparen <;> simp [h3, Res.map, lift, ValuesRow.map]
    · rw [if_neg h2, if_neg h2, rowLoop_nat H]
      cases rowLoop pe1 f ts.tail with
      | ok q =>
        simp only [Res.map, Res.bind, lift]
        by_cases h3 : cur q.2 = .rparen <;> simp [h3, Res.map, lift, ValuesRow.map]
      | _ => simp [Res.map, Res.bind]
  · simp [h, Res.map]

theorem rowsLoop_nat (H : ∀ f ts, pe2 f ts = (pe1 f ts).map (lift g)) : ∀ (f : Nat) (ts : List Token),
    rowsLoop pe2 f ts = (rowsLoop pe1 f ts).map (lift (List.map (ValuesRow.map g)))
  | 0, _ => by simp [rowsLoop, Res.map]
  | f + 1, ts => by
    rw [rowsLoop.eq_2, rowsLoop.eq_2, parseValuesRow_nat H]
    cases parseValuesRow pe1 f ts with
    | ok p =>
      simp only [Res.map, Res.bind, lift]
      by_cases hc : cur p.2 = .comma
      · simp only [hc, if_true]
        rw [rowsLoop_nat H f]
        cases rowsLoop pe1 f p.2.tail <;> simp [Res.map, Res.bind, lift]
      · simp [hc, Res.map, lift]
    | _ => simp [Res.map, Res.bind]

theorem parseValuesInput_nat (H : ∀ f ts, pe2 f ts = (pe1 f ts).map (lift g)) (f : Nat) (ts : List Token) :
    parseValuesInput pe2 f ts = (parseValuesInput pe1 f ts).map (lift (ValuesInput.map g)) := by
  unfold parseValuesInput
  by_cases h : kwLike "VALUES" ts = true
  · rw [if_pos h, if_pos h, rowsLoop_nat H]
    cases rowsLoop pe1 f ts.tail <;> simp [Res.map, Res.bind, lift, ValuesInput.map]
  · simp [h, Res.map]

theorem parseWhere_nat (H : ∀ f ts, pe2 f ts = (pe1 f ts).map (lift g)) (f : Nat) (ts : List Token) :
    parseWhere pe2 f ts = (parseWhere pe1 f ts).map (lift (Where.map g)) := by
  unfold parseWhere
  by_cases h : kd ts = K "WHERE"
  · rw [if_pos h, if_pos h, H]
    cases pe1 f ts.tail <;> simp [Res.map, Res.bind, lift, Where.map]
  · simp [h, Res.map]

theorem parseUpdateItem_nat (H : ∀ f ts, pe2 f ts = (pe1 f ts).map (lift g)) (f : Nat) (ts : List Token) :
    parseUpdateItem pe2 f ts = (parseUpdateItem pe1 f ts).map (lift (UpdateItem.map g)) := by
  unfold parseUpdateItem
  cases parseIdentOrPath ts with
  | ok n =>
    simp only [Res.bind]
    by_cases h : cur n.2 = .eq
    · rw [if_pos h, if_pos h, parseDefaultExpr_nat H]
      cases parseDefaultExpr pe1 f n.2.tail <;> simp [Res.map, Res.bind, lift, UpdateItem.map]
    · simp [h, Res.map]
  | _ => simp [Res.map, Res.bind]

theorem itemsLoop_nat (H : ∀ f ts, pe2 f ts = (pe1 f ts).map (lift g)) : ∀ (f : Nat) (ts : List Token),
    itemsLoop pe2 f ts = (itemsLoop pe1 f ts).map (lift (List.map (UpdateItem.map g)))
  | 0, _ => by simp [itemsLoop, Res.map]
  | f + 1, ts => by
    rw [itemsLoop.eq_2, itemsLoop.eq_2, parseUpdateItem_nat H]
    cases parseUpdateItem pe1 f ts with
    | ok p =>
      simp only [Res.map, Res.bind, lift]
      by_cases hc : cur p.2 = .comma
      · simp only [hc, if_true]
        rw [itemsLoop_nat H f]
        cases itemsLoop pe1 f p.2.tail <;> simp [Res.map, Res.bind, lift]
      · simp [hc, Res.map, lift]
    | _ => simp [Res.map, Res.bind]

theorem parseInsert_nat (H : ∀ f ts, pe2 f ts = (pe1 f ts).map (lift g)) (f pos : Nat) (ts : List Token) :
    parseInsert pe2 f pos ts = (parseInsert pe1 f pos ts).map (lift (Stmt.map g)) := by
  unfold parseInsert
  cases parseInsertOr ts with
  | ok o =>
    simp only [Res.bind]
    cases parseIdentOrPath (if kd o.2 = K "INTO" then o.2.tail else o.2) with
    | ok n =>
      simp only [Res.bind]
      by_cases hh : hintAhead n.2 = true
      · simp [hh, Res.map]
      · rw [if_neg hh, if_neg hh]
        cases parseColumns n.2 with
        | ok c =>
          simp only [Res.bind]
          by_cases hv : kwLike "VALUES" c.2 = true
          · rw [if_pos hv, if_pos hv, parseValuesInput_nat H]
            cases parseValuesInput pe1 f c.2 with
            | ok v =>
              simp only [Res.map, Res.bind, lift]
              cases thenReturn v.2 <;> simp [Res.map, Res.bind, lift, Stmt.map]
            | _ => simp [Res.map, Res.bind]
          · rw [if_neg hv, if_neg hv]
            by_cases hq : queryAhead c.2 = true <;> simp [hq, Res.map]
        | _ => simp [Res.map, Res.bind]
    | _ => simp [Res.map, Res.bind]
  | _ => simp [Res.map, Res.bind]

theorem parseDelete_nat (H : ∀ f ts, pe2 f ts = (pe1 f ts).map (lift g)) (f pos : Nat) (ts : List Token) :
    parseDelete pe2 f pos ts = (parseDelete pe1 f pos ts).map (lift (Stmt.map g)) := by
  simp only [parseDelete]
  cases parseIdentOrPath (if kd ts = K "FROM" then ts.tail else ts) with
  | ok n =>
    simp only [Res.bind]
    by_cases hh : hintAhead n.2 = true
    · simp [hh, Res.map]
    · rw [if_neg hh, if_neg hh]
      cases tryParseAsAlias n.2 with
      | ok a =>
        simp only [Res.bind]
        rw [parseWhere_nat H]
        cases parseWhere pe1 f a.2 with
        | ok w =>
          simp only [Res.map, Res.bind, lift]
          cases thenReturn w.2 <;> simp [Res.map, Res.bind, lift, Stmt.map]
        | _ => simp [Res.map, Res.bind]
      | _ => simp [Res.map, Res.bind]
  | _ => simp [Res.map, Res.bind]

theorem parseUpdate_nat (H : ∀ f ts, pe2 f ts = (pe1 f ts).map (lift g)) (f pos : Nat) (ts : List Token) :
    parseUpdate pe2 f pos ts = (parseUpdate pe1 f pos ts).map (lift (Stmt.map g)) := by
  unfold parseUpdate
  cases parseIdentOrPath ts with
  | ok n =>
    simp only [Res.bind]
    by_cases hh : hintAhead n.2 = true
    · simp [hh, Res.map]
    · rw [if_neg hh, if_neg hh]
      cases tryParseAsAlias n.2 with
      | ok a =>
        simp only [Res.bind]
        by_cases hs : kd a.2 = K "SET"
        · rw [if_pos hs, if_pos hs, itemsLoop_nat H]
          cases itemsLoop pe1 f a.2.tail with
          | ok u =>
            simp only [Res.map, Res.bind, lift]
            rw [parseWhere_nat H]
            cases parseWhere pe1 f u.2 with
            | ok w =>
              simp only [Res.map, Res.bind, lift]
              cases thenReturn w.2 <;> simp [Res.map, Res.bind, lift, Stmt.map]
            | _ => simp [Res.map, Res.bind]
          | _ => simp [Res.map, Res.bind]
        · simp [hs, Res.map]
      | _ => simp [Res.map, Res.bind]
  | _ => simp [Res.map, Res.bind]

theorem parseDMLInternal_nat (H : ∀ f ts, pe2 f ts = (pe1 f ts).map (lift g)) (f : Nat) (ts : List Token) :
    parseDMLInternal pe2 f ts = (parseDMLInternal pe1 f ts).map (lift (Stmt.map g)) := by
  unfold parseDMLInternal
  by_cases h0 : cur ts = .ident
  · rw [if_pos h0, if_pos h0]
    by_cases h1 : kwLike "INSERT" ts = true
    · rw [if_pos h1, if_pos h1]; exact parseInsert_nat H ..
    · rw [if_neg h1, if_neg h1]
      by_cases h2 : kwLike "DELETE" ts = true
      · rw [if_pos h2, if_pos h2]; exact parseDelete_nat H ..
      · rw [if_neg h2, if_neg h2]
        by_cases h3 : kwLike "UPDATE" ts = true
        · rw [if_pos h3, if_pos h3]; exact parseUpdate_nat H ..
        · simp [h3, Res.map]
  · simp [h0, Res.map]

theorem parseDML_nat (H : ∀ f ts, pe2 f ts = (pe1 f ts).map (lift g)) (f : Nat) (ts : List Token) :
    parseDML pe2 f ts = (parseDML pe1 f ts).map (lift (Stmt.map g)) := by
  unfold parseDML
  by_cases hh : hintAhead ts = true
  · simp [hh, Res.map]
  · rw [if_neg hh, if_neg hh]; exact parseDMLInternal_nat H f ts

theorem parseStatement_nat (H : ∀ f ts, pe2 f ts = (pe1 f ts).map (lift g)) (f : Nat) (ts : List Token) :
    parseStatement pe2 f ts = (parseStatement pe1 f ts).map (lift (Stmt.map g)) := by
  unfold parseStatement
  by_cases hh : hintAhead ts = true
  · simp [hh, Res.map]
  · rw [if_neg hh, if_neg hh]
    by_cases hk : (kwLike "INSERT" ts || kwLike "DELETE" ts || kwLike "UPDATE" ts) = true
    · rw [if_pos hk, if_pos hk]; exact parseDMLInternal_nat H f ts
    · rw [if_neg hk, if_neg hk]
      by_cases ho : otherStatementAhead ts = true <;> simp [ho, Res.map]

end

theorem stmtsLoop_nat {α β : Type} {m : α → β} {P : Nat → List Token → Res (α × List Token)}
    {Q : Nat → List Token → Res (β × List Token)} (H : ∀ f ts, Q f ts = (P f ts).map (lift m)) :
    ∀ (f : Nat) (ts : List Token), stmtsLoop Q f ts = (stmtsLoop P f ts).map (lift (List.map m))
  | 0, _ => by simp [stmtsLoop, Res.map]
  | f + 1, ts => by
    rw [stmtsLoop.eq_2, stmtsLoop.eq_2]
    by_cases h1 : cur ts = .eof
    · simp [h1, Res.map, lift]
    · rw [if_neg h1, if_neg h1]
      by_cases h2 : kd ts = K ";"
      · rw [if_pos h2, if_pos h2]; exact stmtsLoop_nat H f _
      · rw [if_neg h2, if_neg h2, H]
        cases P f ts with
        | ok p =>
          simp only [Res.map, Res.bind, lift]
          by_cases hc : kd p.2 = K ";"
          · simp only [hc, if_true]
            rw [stmtsLoop_nat H f]
            cases stmtsLoop P f p.2 <;> simp [Res.map, Res.bind, lift]
          · simp [hc, Res.map, lift]
        | _ => simp [Res.map, Res.bind]

theorem finish_nat {α β : Type} (m : α → β) (r : Res (α × List Token)) :
    finish (r.map (lift m)) = (finish r).map m := by
  unfold finish
  cases r with
  | ok p => simp only [Res.map, Res.bind, lift]; by_cases h : cur p.2 = .eof <;> simp [h, Res.map]
  | _ => simp [Res.map, Res.bind]

theorem erase_H : ∀ f ts, parseExpr f ts = (parsePExpr f ts).map (lift erase) := fun f ts => parseExpr_eq_erase f ts

/-- **Erasure**: the positioned run of every DML entry point (what the DML channel compares with the Go code) erases,
in its expression slots, to the run with the proved expression parser (what the C08 / C11 theorems speak about) -/
theorem dml_erase (fuel : Nat) (ts : List Token) :
    parseDMLTop parseExpr fuel ts = (parseDMLTop parsePExpr fuel ts).map (Stmt.map erase) ∧
    parseStatementTop parseExpr fuel ts = (parseStatementTop parsePExpr fuel ts).map (Stmt.map erase) ∧
    parseDMLsTop parseExpr fuel ts = (parseDMLsTop parsePExpr fuel ts).map (List.map (Stmt.map erase)) ∧
    parseStatementsTop parseExpr fuel ts = (parseStatementsTop parsePExpr fuel ts).map (List.map (Stmt.map erase)) := by
  refine ⟨?_, ?_, ?_, ?_⟩
  · unfold parseDMLTop; rw [parseDML_nat erase_H, finish_nat]
  · unfold parseStatementTop; rw [parseStatement_nat erase_H, finish_nat]
  · unfold parseDMLsTop; rw [stmtsLoop_nat (parseDML_nat erase_H), finish_nat]
  · unfold parseStatementsTop; rw [stmtsLoop_nat (parseStatement_nat erase_H), finish_nat]

end MF.DML
