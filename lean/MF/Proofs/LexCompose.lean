/-
  MF.Proofs.LexCompose — lexing a text that is put together from pieces: partial runs of the lexer (`Runs`), one
  lexer step when the text at the cursor is `trivia ++ token text ++ rest` (`step_of_scan`), and the token scanners on
  the pieces a printed type consists of — words, back-quoted identifiers, `<` `>` `,` `.` — in front of an arbitrary
  rest that starts with a delimiter.
-/
import MF.Proofs.LexLocal
import MF.Proofs.TriviaMain
import MF.Proofs.QuoteIdent
namespace MF.Lex
open MF.Props.C16 (Trivia NoTriviaStart triviaLoop_trivia_ok noTriviaStart_cons noTriviaStart_nil tokStart)

/-! ## partial runs -/

/-- from state `s` the lexer produces the tokens `T` (none of them `<eof>`) and reaches the state `s'` -/
inductive Runs (buf : Bytes) : State → List Token → State → Prop
  | nil (s : State) : Runs buf s [] s
  | cons {s s1 s' : State} {T : List Token} : nextToken buf false s = .ok s1 → s1.tok.kind ≠ .eof →
      Runs buf s1 T s' → Runs buf s (s1.tok :: T) s'

theorem Runs.one {buf : Bytes} {s s1 : State} (h : nextToken buf false s = .ok s1) (hk : s1.tok.kind ≠ .eof) :
    Runs buf s [s1.tok] s1 := .cons h hk (.nil s1)

theorem Runs.append {buf : Bytes} {s s1 s2 : State} {T1 T2 : List Token} (h1 : Runs buf s T1 s1)
    (h2 : Runs buf s1 T2 s2) : Runs buf s (T1 ++ T2) s2 := by
  induction h1 with
  | nil s => exact h2
  | cons hn hk _ ih => exact .cons hn hk (ih h2)

theorem Runs.steps {buf : Bytes} {s s' : State} {T L : List Token} (h : Runs buf s T s') (hl : Steps buf s' L) :
    Steps buf s (T ++ L) := by
  induction h with
  | nil s => exact hl
  | cons hn hk _ ih => exact Steps.cons hn hk (ih hl)

/-! ## one step in context -/

/-- the text at the cursor is `τ ++ X`: trivia `τ`, then something that does not start trivia and on which the token
scanner answers `sc` -/
theorem step_of_scan {buf : Bytes} {s : State} {τ X : Bytes} {sc : Scan}
    (hd : buf.drop s.pos = τ ++ X) (hp : s.pos ≤ buf.length) (hτ : Trivia false τ) (hX : NoTriviaStart X)
    (hscan : (if s.dotIdent = true then consumeFieldToken X (s.pos + τ.length) s.tok.kind false
       else consumeToken X (s.pos + τ.length) s.tok.kind false) = .ok sc)
    (hlen : sc.len ≤ X.length) :
    ∃ s1, nextToken buf false s = .ok s1 ∧ s1.pos = s.pos + τ.length + sc.len ∧ s1.tok.kind = sc.kind ∧
      s1.tok.asString = sc.asString ∧ s1.dotIdent = (if s.dotIdent = true then false else sc.dot) := by
  obtain ⟨cs', sp, htl⟩ := triviaLoop_trivia_ok hτ (fun e => by cases e) hX hd hp
  have hdrop2 : buf.drop (s.pos + τ.length) = X := by
    rw [← List.drop_drop, hd, List.drop_left]
  have hlen' : s.pos + τ.length + X.length = buf.length := by
    have := congrArg List.length hd
    simp only [List.length_drop, List.length_append] at this
    omega
  have hcore : nextTokenCore buf false s = .ok
      { pos := s.pos + τ.length + sc.len, lastKind := s.tok.kind,
        dotIdent := if s.dotIdent = true then false else sc.dot,
        tok := { kind := sc.kind, comments := cs', space := sp,
                 raw := slice buf (s.pos + τ.length) (s.pos + τ.length + sc.len),
                 asString := sc.asString, base := sc.base,
                 pos := s.pos + τ.length, «end» := s.pos + τ.length + sc.len } } := by
    unfold nextTokenCore
    simp only [htl, hdrop2, hscan, Bool.false_eq_true, if_false]
    rw [slice?_of_le (Nat.le_add_right _ _) (by omega)]
  exact ⟨_, nextToken_of_core hcore, rfl, rfl, rfl, rfl⟩

/-! ## delimiters -/

/-- the rest of the text is empty or starts with one of the bytes that follow a name in a printed type:
`<` `>` `,` `.` or a blank -/
def Delim (Z : Bytes) : Prop := ∀ d, Z.head? = some d → d = 60 ∨ d = 62 ∨ d = 44 ∨ d = 46 ∨ d = 32

theorem Delim.facts {Z : Bytes} (h : Delim Z) :
    ∀ d, Z.head? = some d → Char.isIdentPart d = false ∧ (d == 34 || d == 39) = false ∧
      (d == 66 || d == 98) = false ∧ (d == 82 || d == 114) = false := by
  intro d hd
  rcases h d hd with rfl | rfl | rfl | rfl | rfl <;> decide

theorem delim_nil : Delim [] := by intro d h; simp at h

theorem delim_cons {d : UInt8} (Z : Bytes) (h : d = 60 ∨ d = 62 ∨ d = 44 ∨ d = 46 ∨ d = 32) : Delim (d :: Z) := by
  intro e he
  simp only [List.head?_cons, Option.some.injEq] at he
  rw [← he]; exact h

/-! ## words -/

theorem spanLen_append_stop {w Z : Bytes} (hall : w.all Char.isIdentPart = true)
    (hZ : ∀ d, Z.head? = some d → Char.isIdentPart d = false) :
    spanLen Char.isIdentPart (w ++ Z) = w.length := by
  induction w with
  | nil =>
    cases Z with
    | nil => rfl
    | cons d Z => simp [spanLen, hZ d rfl]
  | cons c t ih =>
    simp only [List.all_cons, Bool.and_eq_true] at hall
    simp only [List.cons_append, spanLen, hall.1, if_true, ih hall.2, List.length_cons]

theorem strPrefix_none_ctx {w Z : Bytes} (hall : w.all Char.isIdentPart = true) (hZ : Delim Z) :
    ∀ (fuel i : Nat) (bytes raw : Bool), i ≤ w.length → strPrefix (w ++ Z) fuel i bytes raw = none := by
  intro fuel
  induction fuel with
  | zero => intro i b r _; rfl
  | succ fuel ih =>
    intro i b r hi
    unfold strPrefix
    cases hg : (w ++ Z)[i]? with
    | none => rfl
    | some c =>
      simp only
      rcases Nat.lt_or_ge i w.length with hlt | hge
      · rw [List.getElem?_append_left hlt] at hg
        have hmem : c ∈ w := List.mem_of_getElem? hg
        have hc : Char.isIdentPart c = true := (List.all_eq_true.1 hall) c hmem
        simp only [Quote.identPart_not_quote c hc, ih _ _ _ (by omega : i + 1 ≤ w.length), Bool.false_eq_true, if_false]
        split <;> (try split) <;> rfl
      · have hi' : i = w.length := by omega
        subst hi'
        rw [List.getElem?_append_right (Nat.le_refl _), Nat.sub_self] at hg
        have hd : Z.head? = some c := by cases Z <;> simp_all
        obtain ⟨_, f2, f3, f4⟩ := hZ.facts c hd
        simp only [f2, f3, f4, Bool.and_false, Bool.false_eq_true, if_false]

/-- a word: an identifier-shaped byte string -/
structure IsWord (w : Bytes) : Prop where
  ne : w ≠ []
  start : ∀ c, w.head? = some c → Char.isIdentStart c = true
  all : w.all Char.isIdentPart = true

/-- a word in front of a delimiter is scanned as one token: a keyword if it is reserved, else an identifier -/
theorem consumeToken_word {w Z : Bytes} (hw : IsWord w) (hZ : Delim Z) (p0 : Nat) (lk : TokKind) :
    consumeToken (w ++ Z) p0 lk false =
      .ok (if reserved.contains (Char.toUpper w) then { kind := .sym (Char.toUpper w), len := w.length }
           else { kind := .ident, len := w.length, asString := w }) := by
  cases w with
  | nil => exact absurd rfl hw.ne
  | cons c t =>
    have hc := hw.start c rfl
    obtain ⟨_, _, _, _, _, _, hcl⟩ := Quote.identStart_facts c hc
    have hsp := spanLen_append_stop hw.all (fun d hd => (hZ.facts d hd).1)
    have hfb : fallbackTok (c :: t ++ Z) c p0 false =
        .ok (if reserved.contains (Char.toUpper (c :: t)) then { kind := .sym (Char.toUpper (c :: t)), len := (c :: t).length }
           else { kind := .ident, len := (c :: t).length, asString := c :: t }) := by
      simp only [fallbackTok, hc, if_true, identTok, hsp, List.take_left']
    rcases hcl with hcl | hcl
    · simp only [List.cons_append] at hfb ⊢
      simp only [consumeToken, hcl, stringTok]
      rw [← List.cons_append, strPrefix_none_ctx hw.all hZ 3 0 false false (Nat.zero_le _)]
      exact hfb
    · simp only [List.cons_append] at hfb ⊢
      simp only [consumeToken, hcl]
      exact hfb

/-- after a `.` every word is an identifier -/
theorem consumeFieldToken_word {w Z : Bytes} (hw : IsWord w) (hZ : Delim Z) (p0 : Nat) (lk : TokKind) :
    consumeFieldToken (w ++ Z) p0 lk false = .ok { kind := .ident, len := w.length, asString := w } := by
  cases w with
  | nil => exact absurd rfl hw.ne
  | cons c t =>
    have hc := hw.start c rfl
    obtain ⟨_, _, _, _, _, hcp, _⟩ := Quote.identStart_facts c hc
    have hsp := spanLen_append_stop hw.all (fun d hd => (hZ.facts d hd).1)
    simp only [List.cons_append] at hsp ⊢
    simp only [consumeFieldToken, hcp, if_true, hsp]
    rw [← List.cons_append, List.take_left' rfl]

/-! ## back-quoted identifiers -/

open MF.Quote in
/-- the quoted-content scanner on `Q ++ quoteStringContent s ++ Q ++ Z` -/
theorem consumeQuoted_qsc_ctx (ip : Nat → Bool) {Q : UInt8} (hQ : IsQ Q) (isId : Bool) (s : Bytes) (p0 : Nat)
    (hne : s ≠ [] ∨ isId = false) (Z : Bytes) :
    consumeQuotedContent (Q :: (Quote.quoteStringContent ip Q.toNat (s.length + 1) s ++ [Q] ++ Z)) p0 [Q] false true isId false =
      .ok { content := s, hasError := false, len := (Quote.quoteStringContent ip Q.toNat (s.length + 1) s).length + 2 } := by
  unfold consumeQuotedContent
  generalize hC : Quote.quoteStringContent ip Q.toNat (s.length + 1) s = C
  have hd := quotedLoop_drop (rest := Q :: (C ++ [Q] ++ Z)) (k := 1) (tp := p0) (p0 := p0) (q := [Q])
    (raw := false) (uni := true) (isId := isId) (np := false) (fuel := (Q :: (C ++ [Q] ++ Z)).length + 2) (i := 0)
    (content := []) (he := false) (by simp)
  simp only [List.length_cons, List.length_nil, Nat.zero_add, Nat.add_zero] at hd ⊢
  rw [hd]
  simp only [List.drop_succ_cons, List.drop_zero]
  have hl := string_loop ip hQ isId (s.length + 1) s (by omega) Z p0 (p0 + 1) [] ((C ++ [Q] ++ Z).length + 1 + 2)
    (by rw [hC]; simp only [List.length_append, List.length_cons, List.length_nil]; omega) (by simpa using hne)
  rw [hC] at hl
  simp only [List.nil_append] at hl
  rw [hl]
  simp only [shiftRes]
  congr 2
  omega

/-- a back-quoted identifier in front of anything is scanned as one identifier token, in both scanner modes -/
theorem consumeToken_bquote_ctx (ip : Nat → Bool) (s : Bytes) (hs : s ≠ []) (Z : Bytes) (p0 : Nat) (lk : TokKind) :
    consumeToken ([96] ++ Quote.quoteStringContent ip 96 (s.length + 1) s ++ [96] ++ Z) p0 lk false =
      .ok { kind := .ident, len := (Quote.quoteStringContent ip 96 (s.length + 1) s).length + 2, asString := s } := by
  have hQ : Quote.IsQ 96 := Or.inr (Or.inr rfl)
  have hcq := consumeQuoted_qsc_ctx ip hQ true s p0 (Or.inl hs) Z
  have h96 : (96 : UInt8).toNat = 96 := rfl
  rw [h96] at hcq
  have hcl : classify 96 = .bquote := by decide
  simp only [List.cons_append, List.nil_append, List.append_assoc] at hcq ⊢
  simp only [consumeToken, hcl, hcq]
  simp [quotedTok]

theorem consumeFieldToken_bquote_ctx (ip : Nat → Bool) (s : Bytes) (hs : s ≠ []) (Z : Bytes) (p0 : Nat) (lk : TokKind) :
    consumeFieldToken ([96] ++ Quote.quoteStringContent ip 96 (s.length + 1) s ++ [96] ++ Z) p0 lk false =
      .ok { kind := .ident, len := (Quote.quoteStringContent ip 96 (s.length + 1) s).length + 2, asString := s } := by
  have := consumeToken_bquote_ctx ip s hs Z p0 lk
  simp only [List.cons_append, List.nil_append, List.append_assoc] at this ⊢
  have hp : Char.isIdentPart 96 = false := by decide
  simp only [consumeFieldToken, hp, Bool.false_eq_true, if_false]
  exact this

/-! ## punctuation -/

theorem consumeToken_lt {Z : Bytes} (hZ : ∀ d, Z.head? = some d → d ≠ 60 ∧ d ≠ 61 ∧ d ≠ 62) (p0 : Nat) (lk : TokKind) :
    consumeToken (60 :: Z) p0 lk false = .ok { kind := K "<", len := 1 } := by
  have hcl : classify 60 = .lt := by decide
  cases Z with
  | nil => simp [consumeToken, hcl, peekIs, tok1]
  | cons d Z =>
    obtain ⟨h1, h2, h3⟩ := hZ d rfl
    simp [consumeToken, hcl, peekIs, tok1, h1, h2, h3]

theorem consumeToken_ltgt (Z : Bytes) (p0 : Nat) (lk : TokKind) :
    consumeToken (60 :: 62 :: Z) p0 lk false = .ok { kind := K "<>", len := 2 } := by
  have hcl : classify 60 = .lt := by decide
  simp [consumeToken, hcl, peekIs, tok2]

theorem consumeToken_gt {Z : Bytes} (hZ : ∀ d, Z.head? = some d → d ≠ 62 ∧ d ≠ 61) (p0 : Nat) (lk : TokKind) :
    consumeToken (62 :: Z) p0 lk false = .ok { kind := K ">", len := 1 } := by
  have hcl : classify 62 = .gt := by decide
  cases Z with
  | nil => simp [consumeToken, hcl, peekIs, tok1]
  | cons d Z =>
    obtain ⟨h1, h2⟩ := hZ d rfl
    simp [consumeToken, hcl, peekIs, tok1, h1, h2]

theorem consumeToken_shr (Z : Bytes) (p0 : Nat) (lk : TokKind) :
    consumeToken (62 :: 62 :: Z) p0 lk false = .ok { kind := K ">>", len := 2 } := by
  have hcl : classify 62 = .gt := by decide
  simp [consumeToken, hcl, peekIs, tok2]

theorem consumeToken_comma (Z : Bytes) (p0 : Nat) (lk : TokKind) :
    consumeToken (44 :: Z) p0 lk false = .ok { kind := K ",", len := 1 } := by
  have hcl : classify 44 = .single := by decide
  have hK : K "," = .sym [44] := by decide
  simp [consumeToken, hcl, hK]

theorem consumeToken_dot (Z : Bytes) (p0 : Nat) {lk : TokKind} (hlk : isNextDotIdent lk = true) :
    consumeToken (46 :: Z) p0 lk false = .ok { kind := K ".", len := 1, dot := true } := by
  have hcl : classify 46 = .dot := by decide
  simp [consumeToken, hcl, hlk]

end MF.Lex
